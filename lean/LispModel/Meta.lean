/-
  Metadata: values WITH their `Meta` field, and the builtins of lib/core/core.go that create, read, keep or
  drop it (`with_meta`, `meta`, `vec`, `seq`, `list`, `vector`, `first`, `rest`, `nth`, `cons`, `conj`, `concat`,
  `count`, `get`, `assoc`, `dissoc`, `keys`, `vals`, `mErge`, `rename_keys`, `take`, `=`, `pr_str`), the
  re-evaluation of a data value (`eval_ast` / `EVAL` of mal.go on a value that is already data), and a
  tiny register machine over them.  The evaluator model (Val / Core / Eval) has no metadata; this file is
  self-contained and `erase` maps its values to `LispModel.Val`.

  Go: `List / Vector / HashMap / Set / Func / MalFunc` each have a field `Meta MalType` (an interface,
  `nil` when there is no metadata).  The model keeps exactly that: the field is an `MVal`, `.nil` = Go's nil
  interface = "no metadata" (`(with-meta x nil)` and a fresh struct are the same thing in Go, and here).
  Core Lean only (linked into the driver executable).
-/
import LispModel.Val
import LispModel.Equal
import LispModel.Print
namespace LispModel.Meta
open LispModel

inductive MVal where
  | nil
  | bool (b : Bool)
  | int (i : Int)
  | str (s : String)
  | sym (s : String)
  | list (xs : List MVal) (md : MVal)
  | vec (xs : List MVal) (md : MVal)
  | map (kvs : List (String × MVal)) (md : MVal)
  | set (ks : List String) (md : MVal)
  /-- `MalFunc`: the closure `(fn [& a] a)` created at site `id` -/
  | fn (id : Nat) (md : MVal)
  /-- `Func`: a Go builtin, by its lisp name -/
  | builtin (name : String) (md : MVal)
deriving Repr, Inhabited

/-- outcome classes of a failed step -/
inductive Err where
  /-- a Go `error` value returned by the builtin, by the binder's argument-count check, or by `EVAL` -/
  | error
  /-- a run-time panic inside the builtin (index out of range, failed type assertion, comparison of
      uncomparable values), recovered by the binder: the error wraps a `runtime.Error` -/
  | panic
  /-- `reflect.Value.Call` refused an argument of the wrong dynamic type (panic with a string, recovered) -/
  | bind
  /-- not an outcome of the Go code: the result depends on Go's map iteration order (or on the host name of
      a builtin); the harness does not run such a step -/
  | skip
deriving DecidableEq, Repr, Inhabited

abbrev Res := Except Err MVal

/-- parameters and body of the one closure the engine uses, `(fn [& a] a)`: `Exp` is `(do a)` -/
def fnParams : Val := .vec [.sym "&" none, .sym "a" none] none
def fnBody : Val := .list [.sym "do" none, .sym "a" none] none

mutual
/-- forget every `Meta` field -/
def erase : MVal → Val
  | .nil => .nil
  | .bool b => .bool b
  | .int i => .int i
  | .str s => .str s
  | .sym s => .sym s none
  | .list xs _ => .list (eraseList xs) none
  | .vec xs _ => .vec (eraseList xs) none
  | .map kvs _ => .map (eraseMap kvs)
  | .set ks _ => .set ks
  | .fn id _ => .fn fnParams fnBody id false none
  | .builtin n _ => .builtin n
def eraseList : List MVal → List Val
  | [] => []
  | x :: xs => erase x :: eraseList xs
def eraseMap : List (String × MVal) → List (String × Val)
  | [] => []
  | (k, v) :: r => (k, erase v) :: eraseMap r
end

mutual
/-- the same value with every `Meta` field (nested ones too) set to nil -/
def strip : MVal → MVal
  | .list xs _ => .list (stripList xs) .nil
  | .vec xs _ => .vec (stripList xs) .nil
  | .map kvs _ => .map (stripMap kvs) .nil
  | .set ks _ => .set ks .nil
  | .fn id _ => .fn id .nil
  | .builtin n _ => .builtin n .nil
  | v => v
def stripList : List MVal → List MVal
  | [] => []
  | x :: xs => strip x :: stripList xs
def stripMap : List (String × MVal) → List (String × MVal)
  | [] => []
  | (k, v) :: r => (k, strip v) :: stripMap r
end

/-- the top-level `Meta` field (nil for the kinds that have none) -/
def metaOf : MVal → MVal
  | .list _ m => m
  | .vec _ m => m
  | .map _ m => m
  | .set _ m => m
  | .fn _ m => m
  | .builtin _ m => m
  | _ => .nil

/-- the kinds whose Go struct has a `Meta` field -/
def hasMetaSlot : MVal → Bool
  | .list .. | .vec .. | .map .. | .set .. | .fn .. | .builtin .. => true
  | _ => false

/-! ### `with_meta`, `meta` -/

/-- `with_meta(obj, meta)`: a new struct header with the same `Val` and the given `Meta` -/
def withMeta (x m : MVal) : Res :=
  match x with
  | .list xs _ => .ok (.list xs m)
  | .vec xs _ => .ok (.vec xs m)
  | .map kvs _ => .ok (.map kvs m)
  | .set ks _ => .ok (.set ks m)
  | .builtin n _ => .ok (.builtin n m)
  | .fn id _ => .ok (.fn id m)
  | _ => .error .error                -- "with-meta not supported on type"

/-- `meta(obj)` -/
def getMeta (x : MVal) : Res :=
  match x with
  | .list _ m => .ok m
  | .vec _ m => .ok m
  | .map _ m => .ok m
  | .set _ m => .ok m
  | .builtin _ m => .ok m
  | .fn _ m => .ok m
  | _ => .error .error                -- "meta not supported on type"

/-! ### sequence builtins -/

/-- `GetSlice` -/
def seqOf? : MVal → Option (List MVal)
  | .list xs _ => some xs
  | .vec xs _ => some xs
  | _ => none

/-- `vec(seq)`: `ConvertFrom` hands out the slice AND the meta, the new `Vector` keeps both -/
def vec (x : MVal) : Res :=
  match x with
  | .set ks m => if ks.length ≥ 2 then .error .skip else .ok (.vec (ks.map .str) m)
  | .list xs m => .ok (.vec xs m)
  | .vec xs m => .ok (.vec xs m)
  | _ => .error .error

/-- `seq(seq)`: a non-empty list is returned as it is (meta included); everything else is a fresh `List` -/
def seq (x : MVal) : Res :=
  match x with
  | .nil => .ok .nil
  | .list xs m => if xs.isEmpty then .ok .nil else .ok (.list xs m)
  | .vec xs _ => if xs.isEmpty then .ok .nil else .ok (.list xs .nil)
  | .set ks _ => if ks.length ≥ 2 then .error .skip else .ok (.list (ks.map .str) .nil)
  | .str s => if s.toList.isEmpty then .ok .nil
              else .ok (.list (s.toList.map (fun c => .str (String.ofList [c]))) .nil)
  | _ => .error .error

def first (x : MVal) : Res :=
  match x with
  | .nil => .ok .nil
  | _ => match seqOf? x with
    | none => .error .error
    | some xs => .ok (xs.headD .nil)

def rest (x : MVal) : Res :=
  match x with
  | .nil => .ok (.list [] .nil)
  | _ => match seqOf? x with
    | none => .error .error
    | some xs => .ok (.list xs.tail .nil)

/-- `nth(seq, idx int)`: only `idx < len` is checked, a negative index is an index-out-of-range panic -/
def nth (x : MVal) (i : Int) : Res :=
  match seqOf? x with
  | none => .error .error
  | some xs =>
    if i < 0 then .error .panic
    else if i.toNat < xs.length then .ok (xs.getD i.toNat .nil) else .error .error

def cons (x s : MVal) : Res :=
  match seqOf? s with
  | some xs => .ok (.list (x :: xs) .nil)
  | none => .error .error

/-- `concat(a...)` -/
def concatLoop : List MVal → List MVal → Res
  | [], acc => .ok (.list acc .nil)
  | a :: r, acc => match seqOf? a with
    | some xs => concatLoop r (acc ++ xs)
    | none => .error .error

def concat (a : List MVal) : Res := concatLoop a []

def count (x : MVal) : Res :=
  match x with
  | .list xs _ => .ok (.int xs.length)
  | .vec xs _ => .ok (.int xs.length)
  | .map m _ => .ok (.int m.length)
  | .set ks _ => .ok (.int ks.length)
  | .nil => .ok (.int 0)
  | _ => .error .error

/-- `take(elems int, arg)` -/
def take (n : Int) (x : MVal) : Res :=
  match x with
  | .nil => .ok (.list [] .nil)
  | _ => match seqOf? x with
    | some xs => .ok (.list (xs.take n.toNat) .nil)
    | none => .error .error

/-! ### hash-map / set / vector builtins -/

/-- `get(hm, key)`: the key's kind is checked, then the container's; `key.(int)` / `key.(string)` and the
    slice index are unchecked (run-time panics) -/
def get (hm key : MVal) : Res :=
  match hm with
  | .nil => .ok .nil
  | _ =>
    match key with
    | .str k =>
      (match hm with
       | .map m _ => .ok ((alookup k m).getD .nil)
       | .vec _ _ => .error .panic
       | .list _ _ => .error .panic
       | .set s _ => if s.contains k then .ok (.str k) else .ok .nil
       | _ => .error .error)
    | .int i =>
      (match hm with
       | .map _ _ => .error .panic
       | .vec xs _ => if 0 ≤ i ∧ i.toNat < xs.length then .ok (xs.getD i.toNat .nil) else .error .panic
       | .list xs _ => if 0 ≤ i ∧ i.toNat < xs.length then .ok (xs.getD i.toNat .nil) else .error .panic
       | .set _ _ => .error .panic
       | _ => .error .error)
    | _ => .error .error

/-- the key/value loop of `assoc` and `conj` on a hash-map (`a[i+1]` past the end panics) -/
def putPairs : List MVal → List (String × MVal) → Res
  | [], m => .ok (.map m .nil)
  | .str k :: v :: r, m => putPairs r (ainsert k v m)
  | [.str _], _ => .error .panic
  | _ :: _, _ => .error .error

def assocVec : List MVal → List MVal → Res
  | [], xs => .ok (.vec xs .nil)
  | .int i :: v :: r, xs =>
    if 0 ≤ i ∧ i.toNat < xs.length then assocVec r (xs.set i.toNat v) else .error .panic
  | [.int _], _ => .error .panic
  | _ :: _, _ => .error .error

def addKeys : List MVal → List String → Res
  | [], s => .ok (.set s .nil)
  | .str k :: r, s => addKeys r (sinsert k s)
  | _ :: _, _ => .error .error

/-- `assoc(a...)`: `copy_hash_map` / `copy_vector` / `copy_set` build a fresh struct (no meta) -/
def assoc (a : List MVal) : Res :=
  match a with
  | [] => .error .panic                       -- `a[0]`
  | .map m _ :: r =>
    if a.length < 3 then .error .error
    else if a.length % 2 ≠ 1 then .error .error
    else putPairs r m
  | .vec xs _ :: r => if a.length < 3 then .error .error else assocVec r xs
  | .set s _ :: r => if a.length < 2 then .error .error else addKeys r s
  | _ :: _ => .error .error

def isStr : MVal → Bool
  | .str _ => true
  | _ => false

def dropKeys {α} : List MVal → List (String × α) → List (String × α)
  | [], m => m
  | .str k :: r, m => dropKeys r (aerase k m)
  | _ :: r, m => dropKeys r m

def dropElems : List MVal → List String → List String
  | [], s => s
  | .str k :: r, s => dropElems r (s.erase k)
  | _ :: r, s => dropElems r s

def dissoc (a : List MVal) : Res :=
  if a.length < 2 then .error .error else
  match a with
  | .map m _ :: r => if r.all isStr then .ok (.map (dropKeys r m) .nil) else .error .error
  | .set s _ :: r => if r.all isStr then .ok (.set (dropElems r s) .nil) else .error .error
  | _ => .error .error

/-- `keys` / `vals`: a fresh list in Go's map order (a map of two or more entries is order dependent) -/
def keys (h : MVal) : Res :=
  match h with
  | .map m _ => if m.length ≥ 2 then .error .skip else .ok (.list (m.map (fun kv => .str kv.1)) .nil)
  | _ => .error .error

def vals (h : MVal) : Res :=
  match h with
  | .map m _ => if m.length ≥ 2 then .error .skip else .ok (.list (m.map (·.2)) .nil)
  | _ => .error .error

def putAll (src : List (String × MVal)) (dst : List (String × MVal)) : List (String × MVal) :=
  src.foldl (fun acc kv => ainsert kv.1 kv.2 acc) dst

/-- `mErge(hm0, hm1)` -/
def merge (x y : MVal) : Res :=
  match x, y with
  | .nil, .nil => .ok .nil
  | .nil, .map m _ => .ok (.map (putAll m []) .nil)
  | .map m _, .nil => .ok (.map (putAll m []) .nil)
  | .map m1 _, .map m2 _ => .ok (.map (putAll m2 (putAll m1 [])) .nil)
  | _, _ => .error .error

/-- the renamed key of every entry of `data`; `none` when `newKey.(string)` fails -/
def renamedKeys (alt : List (String × MVal)) : List (String × MVal) → Option (List (String × MVal))
  | [] => some []
  | (k, v) :: r =>
    match alookup k alt with
    | some (.str nk) => (renamedKeys alt r).map ((nk, v) :: ·)
    | some _ => none
    | none => (renamedKeys alt r).map ((k, v) :: ·)

def hasDup : List String → Bool
  | [] => false
  | k :: r => r.contains k || hasDup r

/-- `rename_keys(data, alternative HashMap)`: the result carries `data.Meta`; two entries renamed to the
    same key overwrite each other in Go's map order -/
def renameKeys (data alt : List (String × MVal)) (m : MVal) : Res :=
  match renamedKeys alt data with
  | none => .error .panic
  | some out => if hasDup (out.map (·.1)) then .error .skip else .ok (.map out m)

/-- `conj(a...)` (the binder guarantees two arguments at least) -/
def conj (a : List MVal) : Res :=
  match a with
  | [] => .error .panic
  | .list ys _ :: xs => .ok (.list (xs.reverse ++ ys) .nil)
  | .vec ys _ :: xs => .ok (.vec (ys ++ xs) .nil)
  | .map m _ :: xs => if xs.length % 2 ≠ 0 then .error .error else putPairs xs m
  | .set ks _ :: xs => addKeys xs ks
  | _ :: _ => .error .error

/-! ### `Equal_Q` and `Pr_str` on values with metadata (neither looks at a `Meta` field) -/

mutual
/-- `types.Equal_Q`; `a == b` of two `MalFunc` / two `Func` structs (they hold func fields) is a run-time
    panic "comparing uncomparable type". Hash-map entries are visited in the order of the left list. -/
def mEqual : MVal → MVal → Except Err Bool
  | .nil, .nil => .ok true
  | .bool a, .bool b => .ok (a == b)
  | .int a, .int b => .ok (a == b)
  | .str a, .str b => .ok (a == b)
  | .sym a, .sym b => .ok (a == b)
  | .list xs _, .list ys _ => if xs.length ≠ ys.length then .ok false else mEqualList xs ys
  | .list xs _, .vec ys _ => if xs.length ≠ ys.length then .ok false else mEqualList xs ys
  | .vec xs _, .list ys _ => if xs.length ≠ ys.length then .ok false else mEqualList xs ys
  | .vec xs _, .vec ys _ => if xs.length ≠ ys.length then .ok false else mEqualList xs ys
  | .map m1 _, .map m2 _ => if m1.length ≠ m2.length then .ok false else mEqualMap m1 m2
  | .set s1 _, .set s2 _ => .ok (s1.length == s2.length && s1.all (fun k => s2.contains k))
  | .fn _ _, .fn _ _ => .error .panic
  | .builtin _ _, .builtin _ _ => .error .panic
  | _, _ => .ok false
/-- the pairwise loop: stops at the first difference -/
def mEqualList : List MVal → List MVal → Except Err Bool
  | [], [] => .ok true
  | x :: xs, y :: ys =>
    match mEqual x y with
    | .ok true => mEqualList xs ys
    | r => r
  | _, _ => .ok false
def mEqualMap : List (String × MVal) → List (String × MVal) → Except Err Bool
  | [], _ => .ok true
  | (k, v) :: r, m2 =>
    match alookup k m2 with
    | none => .ok false
    | some w =>
      match mEqual v w with
      | .ok true => mEqualMap r m2
      | res => res
end

mutual
/-- some node of the value satisfies `p` (metadata is not part of the value and is not visited) -/
def anyNode (p : MVal → Bool) : MVal → Bool
  | .list xs m => p (.list xs m) || anyNodeList p xs
  | .vec xs m => p (.vec xs m) || anyNodeList p xs
  | .map kvs m => p (.map kvs m) || anyNodeMap p kvs
  | v => p v
def anyNodeList (p : MVal → Bool) : List MVal → Bool
  | [] => false
  | x :: xs => anyNode p x || anyNodeList p xs
def anyNodeMap (p : MVal → Bool) : List (String × MVal) → Bool
  | [] => false
  | (_, v) :: r => anyNode p v || anyNodeMap p r
end

def isBigMap : MVal → Bool
  | .map kvs _ => kvs.length ≥ 2
  | _ => false
def isBigSet : MVal → Bool
  | .set ks _ => ks.length ≥ 2
  | _ => false
def isFunc : MVal → Bool
  | .fn _ _ => true
  | .builtin _ _ => true
  | _ => false
def isBuiltin : MVal → Bool
  | .builtin _ _ => true
  | _ => false

/-- a hash-map of two or more entries somewhere in the value -/
def hasBigMap := anyNode isBigMap
/-- a set of two or more elements somewhere in the value -/
def hasBigSet := anyNode isBigSet
/-- a closure or a builtin somewhere in the value -/
def hasFunc := anyNode isFunc
/-- a builtin somewhere in the value (its printed form is the host's name of a Go closure) -/
def hasBuiltin := anyNode isBuiltin

/-- `(= a b)`: with a function inside AND a multi-entry hash-map, whether the panic or a difference is met
    first depends on Go's map order -/
def equalOp (a b : MVal) : Res :=
  if (hasBigMap a || hasBigMap b) && (hasFunc a || hasFunc b) then .error .skip
  else match mEqual a b with
    | .ok r => .ok (.bool r)
    | .error e => .error e

/-- `pr_str(a...)`: `Pr_list(a, true, "", "", " ")` — the printer never reads `Meta` -/
def prStrOp (a : List MVal) : Res :=
  if a.any (fun x => hasBigMap x || hasBigSet x || hasBuiltin x) then .error .skip
  else .ok (.str (String.ofList (Print.intercalate [' '] (a.map (fun x => Print.prStr true (erase x))))))

/-! ### the reflective binder in front of the builtins, and `eval` -/

/-- a builtin bound by `call.Call` applied to evaluated arguments: the argument count is checked first
    (an error), then `reflect.Value.Call` checks the typed parameters (`bind`), then the body runs -/
def ap1 (f : MVal → Res) : List MVal → Res
  | [x] => f x
  | _ => .error .error              -- "wrong number of arguments"

def ap2 (f : MVal → MVal → Res) : List MVal → Res
  | [x, y] => f x y
  | _ => .error .error

/-- `nth(seq MalType, idx int)` behind the binder -/
def nthB (x k : MVal) : Res :=
  match k with
  | .int i => nth x i
  | _ => .error .bind

/-- `take(elems int, arg MalType)` behind the binder -/
def takeB (n x : MVal) : Res :=
  match n with
  | .int i => take i x
  | _ => .error .bind

/-- `rename_keys(data, alternative HashMap)` behind the binder -/
def renameKeysB (d a : MVal) : Res :=
  match d, a with
  | .map d m, .map alt _ => renameKeys d alt m
  | _, _ => .error .bind

def applyPure (name : String) (a : List MVal) : Res :=
  match name with
  | "with-meta" => ap2 withMeta a
  | "meta" => ap1 getMeta a
  | "vec" => ap1 vec a
  | "seq" => ap1 seq a
  | "first" => ap1 first a
  | "rest" => ap1 rest a
  | "count" => ap1 count a
  | "keys" => ap1 keys a
  | "vals" => ap1 vals a
  | "nth" => ap2 nthB a
  | "take" => ap2 takeB a
  | "cons" => ap2 cons a
  | "get" => ap2 get a
  | "merge" => ap2 merge a
  | "=" => ap2 equalOp a
  | "rename-keys" => ap2 renameKeysB a
  | "list" => .ok (.list a .nil)
  | "vector" => .ok (.vec a .nil)
  | "concat" => concat a
  | "assoc" => assoc a
  | "dissoc" => dissoc a
  | "pr-str" => prStrOp a
  | "conj" => if a.length < 2 then .error .error else conj a
  | _ => .error .error              -- an unbound symbol in function position

mutual
/-- `EVAL` of a value that is already data (what `(eval x)` does): symbols are unbound by construction of
    the engine's vocabulary; a vector / hash-map is REBUILT (`eval_ast`: `Vector{Val: lst}`, no meta), an
    empty list, a set, a function and every scalar is returned as it is; a non-empty list is a call. -/
def evalData : MVal → Res
  | .sym _ => .error .error
  | .vec xs _ =>
    match evalList xs with
    | .ok ys => .ok (.vec ys .nil)
    | .error e => .error e
  | .map kvs _ =>
    match evalMap kvs with
    | .ok m => .ok (.map m .nil)
    | .error e => .error e
  | .list xs m =>
    match xs with
    | [] => .ok (.list [] m)
    | _ =>
      match evalList xs with
      | .error e => .error e
      | .ok [] => .error .error
      | .ok (f :: args) =>
        match f with
        | .fn _ _ => .ok (.list args .nil)        -- `(fn [& a] a)`: `List{Val: exprs[0:]}`
        | .builtin n _ => applyPure n args
        | _ => .error .error                      -- "attempt to call non-function"
  | v => .ok v
def evalList : List MVal → Except Err (List MVal)
  | [] => .ok []
  | x :: xs =>
    match evalData x with
    | .error e => .error e
    | .ok y =>
      match evalList xs with
      | .error e => .error e
      | .ok ys => .ok (y :: ys)
def evalMap : List (String × MVal) → Except Err (List (String × MVal))
  | [] => .ok []
  | (k, v) :: r =>
    match evalData v with
    | .error e => .error e
    | .ok y =>
      match evalMap r with
      | .error e => .error e
      | .ok ys => .ok ((k, y) :: ys)
end

/-- every builtin of the engine's vocabulary; `eval` is bound directly (not through the binder) -/
def apply (name : String) (a : List MVal) : Res :=
  if name = "eval" then
    match a with
    | [v] => if hasBigMap v then .error .skip else evalData v
    | _ => .error .error
  else applyPure name a

/-! ### the register machine -/

inductive MArg where
  | const (v : MVal)
  | reg (i : Nat)
deriving Inhabited

inductive MExpr where
  | arg (a : MArg)
  | call (op : String) (args : List MArg)
deriving Inhabited

structure Stmt where
  dst : Nat
  e : MExpr
deriving Inhabited

abbrev Regs := List MVal

def argVal (regs : Regs) : MArg → MVal
  | .const v => v
  | .reg i => regs.getD i .nil

def mEval (regs : Regs) : MExpr → Res
  | .arg a => .ok (argVal regs a)
  | .call op args => apply op (args.map (argVal regs))

/-- `(def r<dst> e)`; a failed step leaves `nil` in the register (the harness does the same) -/
def exec (regs : Regs) (s : Stmt) : Regs × Option Err :=
  match mEval regs s.e with
  | .ok v => (regs.set s.dst v, none)
  | .error e => (regs.set s.dst .nil, some e)

def run : Regs → List Stmt → Regs × List (Option Err)
  | regs, [] => (regs, [])
  | regs, s :: r =>
    let (regs', o) := exec regs s
    let (regs'', os) := run regs' r
    (regs'', o :: os)

end LispModel.Meta

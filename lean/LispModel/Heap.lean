/-
  Go slices over a heap of backing arrays (property C02).

  In Go a list / vector value is a slice header `(pointer to backing array, len, cap)`; several
  values may look at overlapping windows of one backing array, and `append(s, xs…)` WRITES INTO
  the backing array of `s` whenever `len(s) + len(xs) ≤ cap(s)` (otherwise it allocates a bigger
  array and copies).  This file models exactly that and nothing else:

  * `Heap`   — the backing arrays, array id = index (arrays are never freed, never resized);
  * `Slice`  — `(arr, off, len, cap)`: window `[off, off+len)` of array `arr`; `cap` counts from
               `off`, as Go's `cap(s)` does;
  * `HVal`   — a lisp value as Go holds it: a list / vector is a `Slice`; a hash-map is its key
               list plus a window holding the values (a Go map is a heap object too; the builtins
               always copy a map before writing it, so a map's window is never written after it
               was allocated — `entries` reads it back as the association list key ↦ HVal);
               everything else (`leaf`) carries no slice and is its own pure value;
  * `goAppend` — Go's `append`, growth policy `g : oldCap → needed → newCap` a PARAMETER
               (the model uses `max needed (g oldCap needed)`, so every function is a legal policy);
  * `slice2` / `slice3` — `s[i:j]` (capacity kept) and `s[i:j:k]`; `setAt` — `s[i] = x`;
  * `abs`    — reads a value back as a pure `Val`.
  Core Lean only.
-/
import LispModel.Val
namespace LispModel.Heap
open LispModel

structure Slice where
  arr : Nat
  off : Nat
  len : Nat
  cap : Nat
deriving DecidableEq, Repr, Inhabited

inductive SKind where
  | list | vec
deriving DecidableEq, Repr, Inhabited

inductive HVal where
  /-- a value without a slice inside (scalars, symbols, sets, functions, reference objects) -/
  | leaf (v : Val)
  /-- `List{Val: s, Cursor: pos}` / `Vector{Val: s, Cursor: pos}` -/
  | seq (k : SKind) (s : Slice) (pos : Option Pos)
  /-- `HashMap{Val: m}`: keys, and the window holding the values position by position -/
  | map (keys : List String) (s : Slice)
deriving Repr, Inhabited

abbrev Arr := List HVal
abbrev Heap := List Arr

/-- the zero value Go leaves in the unused cells of a backing array -/
def nilH : HVal := .leaf .nil

def arrOf (h : Heap) (a : Nat) : Arr := h.getD a []

/-- the cells a slice looks at -/
def window (h : Heap) (s : Slice) : List HVal := ((arrOf h s.arr).drop s.off).take s.len

/-- `make([]MalType, len(xs), len(xs)+extra)` filled with `xs`: a NEW array -/
def alloc (h : Heap) (xs : List HVal) (extra : Nat) : Heap × Slice :=
  (h ++ [xs ++ List.replicate extra nilH], ⟨h.length, 0, xs.length, xs.length + extra⟩)

/-- `[]MalType{}` / a nil slice: an empty window on a new empty array -/
def emptyLit (h : Heap) : Heap × Slice := alloc h [] 0

/-- overwrite the cells `[i, i + |xs|)` of an array -/
def writeAt (a : Arr) (i : Nat) (xs : List HVal) : Arr := a.take i ++ xs ++ a.drop (i + xs.length)

/-- Go's `append(s, xs...)`: in place when the capacity suffices, else a new array of capacity
    `max needed (g cap needed)` holding a copy of the window followed by `xs`. -/
def goAppend (g : Nat → Nat → Nat) (h : Heap) (s : Slice) (xs : List HVal) : Heap × Slice :=
  if s.len + xs.length ≤ s.cap then
    (h.set s.arr (writeAt (arrOf h s.arr) (s.off + s.len) xs), { s with len := s.len + xs.length })
  else
    alloc h (window h s ++ xs) (g s.cap (s.len + xs.length) - (s.len + xs.length))

/-- `for _, x := range xs { s = append(s, x) }` -/
def appendEach (g : Nat → Nat → Nat) : Heap → Slice → List HVal → Heap × Slice
  | h, s, [] => (h, s)
  | h, s, x :: xs => let r := goAppend g h s [x]; appendEach g r.1 r.2 xs

/-- `s[i:j]` — the capacity of the parent is KEPT -/
def slice2 (s : Slice) (i j : Nat) : Slice := ⟨s.arr, s.off + i, j - i, s.cap - i⟩
/-- `s[i:j:k]` -/
def slice3 (s : Slice) (i j k : Nat) : Slice := ⟨s.arr, s.off + i, j - i, k - i⟩

/-- `s[i] = x` -/
def setAt (h : Heap) (s : Slice) (i : Nat) (x : HVal) : Heap :=
  h.set s.arr ((arrOf h s.arr).set (s.off + i) x)

/-- Go's `growslice` without the size-class rounding: double below 256, else grow by a quarter;
    jump straight to `needed` when that is more than double.  Used for the concrete witnesses only. -/
def goGrow (cap needed : Nat) : Nat :=
  if needed > 2 * cap then needed
  else if cap < 256 then 2 * cap
  else cap + (cap + 3 * 256) / 4

/-! ### reading a value back -/

def HVal.slice? : HVal → Option Slice
  | .leaf _ => none
  | .seq _ s _ => some s
  | .map _ s => some s

/-- 1 + the id of the array a value looks at (0 for a leaf): the depth bound used by `abs` -/
def rank (v : HVal) : Nat :=
  match v.slice? with
  | none => 0
  | some s => s.arr + 1

def mkSeq (k : SKind) (xs : List Val) (pos : Option Pos) : Val :=
  match k with
  | .list => .list xs pos
  | .vec => .vec xs pos

/-- read back with an explicit depth bound -/
def absF : Nat → Heap → HVal → Val
  | _, _, .leaf v => v
  | 0, _, _ => .nil
  | n + 1, h, .seq k s pos => mkSeq k ((window h s).map (absF n h)) pos
  | n + 1, h, .map ks s => .map (ks.zip ((window h s).map (absF n h)))

/-- the pure value a heap value denotes.  In a well-formed heap (`WF`: the cells of array `a` only
    refer to arrays older than `a`) the bound `rank v` is enough, see `Proofs/Heap.lean: abs_seq`. -/
def abs (h : Heap) (v : HVal) : Val := absF (rank v) h v

/-- a hash-map read back as the association list key ↦ heap value -/
def entries (h : Heap) (ks : List String) (s : Slice) : List (String × HVal) := ks.zip (window h s)

/-! ### well-formedness (used by the theorems; nothing here is executed) -/

/-- the slice lies inside an existing array, capacity included -/
def Slice.ValidIn (h : Heap) (s : Slice) : Prop :=
  s.arr < h.length ∧ s.len ≤ s.cap ∧ s.off + s.cap ≤ (arrOf h s.arr).length

/-- `v` is a value of heap `h`: its slice lies inside an existing array.  (A `leaf` is always one: it
    has no slice.  Normally it is a scalar; when it carries a pure collection that collection is a
    constant outside the modelled heap, which no operation shares or writes.) -/
def Valid (h : Heap) : HVal → Prop
  | .leaf _ => True
  | .seq _ s _ => s.ValidIn h
  | .map ks s => s.ValidIn h ∧ ks.length = s.len

/-- the values that exist when a step starts: the ones the frame theorem speaks about -/
abbrev Live (h : Heap) (v : HVal) : Prop := Valid h v

/-- every cell of every array holds a value of the heap that looks at an OLDER array -/
def WF (h : Heap) : Prop := ∀ a, a < h.length → ∀ e ∈ arrOf h a, Valid h e ∧ rank e ≤ a

/-- `h'` is `h` plus new arrays; no cell of an array of `h` differs -/
def Extends (h h' : Heap) : Prop := ∃ e, h' = h ++ e

end LispModel.Heap

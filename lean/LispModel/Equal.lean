/-
  `types.Equal_Q` as written (types/types.go), and nothing else.

  Go: the dynamic types must be identical, or both values sequential (List/Vector); then
  symbols compare their names, sequences compare lengths and elements pairwise, hash-maps
  compare `len` and then, *iterating the left map*, `bv, ok := bm[k]; ok && Equal_Q(v, bv)`
  (since the repair of D8; the code before it is kept in Proofs/BaselineDefects.lean), sets compare
  `len` and membership of the left keys in the right, everything else is Go `==`.
  Functions are not comparable in Go (`==` panics, the binder turns it into an error); they are
  outside the data domain of every property and the model answers `false` for them.
-/
import LispModel.Val
namespace LispModel

mutual
def equalQ : Val → Val → Bool
  | .nil, .nil => true
  | .bool a, .bool b => a == b
  | .int a, .int b => a == b
  | .str a, .str b => a == b
  | .sym a _, .sym b _ => a == b
  | .list xs _, .list ys _ => equalQList xs ys
  | .list xs _, .vec ys _ => equalQList xs ys
  | .vec xs _, .list ys _ => equalQList xs ys
  | .vec xs _, .vec ys _ => equalQList xs ys
  | .map m1, .map m2 => m1.length == m2.length && equalQMap m1 m2
  | .set s1, .set s2 => s1.length == s2.length && s1.all (fun k => s2.contains k)
  | .atom a, .atom b => a == b
  | .future a, .future b => a == b
  | _, _ => false
/-- `len(as) == len(bs)` and the pairwise loop -/
def equalQList : List Val → List Val → Bool
  | [], [] => true
  | x :: xs, y :: ys => equalQ x y && equalQList xs ys
  | _, _ => false
/-- `for k, v := range am { bv, ok := bm[k]; if !ok || !Equal_Q(v, bv) { return false } }` -/
def equalQMap : List (String × Val) → List (String × Val) → Bool
  | [], _ => true
  | (k, v) :: r, m2 =>
    (match alookup k m2 with
     | some w => equalQ v w
     | none => false) && equalQMap r m2
end

end LispModel

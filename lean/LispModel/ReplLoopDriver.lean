/-
  Driver of the `replloop` engine: one request = the lines of one REPL session.
  payload: the lines, hex-encoded (UTF-8), blank separated; `-` = the empty line; `.` alone = no line at all.
  answer: `observation` of LispModel/ReplLoop.lean — one item per printed result, `V<hex of the value text>` /
  `E<error class>`, blank separated, `-` when nothing was printed.
  The evaluator state `base` is the preloaded one (the `init` line of the engine's preamble).
  Core Lean only.
-/
import LispModel.ReplLoop
import LispModel.Proto
namespace LispModel.ReplLoop
open LispModel

def parseLines (payload : String) : Option (List String) :=
  if payload = "." then some []
  else (payload.splitOn " ").mapM fun w => if w = "-" then some "" else Proto.hexDecode w

def handleReplLoop (base : State) (payload : String) : String :=
  match parseLines payload with
  | none => "bad-op"
  | some lines => observation (run base lines).2

end LispModel.ReplLoop

/-
  C06 — printing then reading returns the same value.

  The printer (`Print.prStr`), the scanner (`Scan.tokenize`) and the reader (`Read.readStr`) are the
  Lean mirrors of printer.Pr_str / jig/scanner / reader.go, tied to the Go code on every run by the
  `print`, `reread`, `scan` and `read` correspondence engines.
  Layers proved here:
    1. string level: the reader's un-escaping inverts the printer's escaping, for *every* string
       (any Unicode content, including the keyword marker U+029E — the defect D10 repaired);
       likewise for the raw (`¬…¬`) form;
    2. scanner level: the printed form of a string, followed by anything, is scanned back as exactly
       one String / RawString token with that text;
    3. reader level: a printed string token is read back as the original string;
    4. structure level: collections are rebuilt from their printed tokens (token-level round trip),
       relative to the per-atom scanning lemmas.
  Property theorems only (helper lemmas live in Proofs/RoundTrip.lean).
-/
import LispModel.Read
import LispModel.Print
import LispModel.Spec.Readable
import LispModel.Util
import LispModel.Proofs.RoundTrip
import LispModel.Proofs.ScanString
namespace LispModel.Props.C06
open LispModel LispModel.Read LispModel.Print

/-- the printer's escaping of a quoted string body (`\` ↦ `\\`, `"` ↦ `\"`, newline ↦ `\n`) -/
def escape (cs : List Char) : List Char :=
  replaceAll ['\n'] ['\\', 'n'] (replaceAll ['"'] ['\\', '"'] (replaceAll ['\\'] ['\\', '\\'] cs))

/-- 1a. un-escaping inverts escaping, for every string -/
theorem unescape_escape (cs : List Char) : unescape (escape cs) = cs :=
  Proofs.RoundTrip.unescape_escape cs

/-- 1b. the raw form: doubling `¬` is undone by the reader -/
theorem unraw_raw (cs : List Char) :
    replaceAll ['¬', '¬'] ['¬'] (replaceAll ['¬'] ['¬', '¬'] cs) = cs :=
  Proofs.RoundTrip.unraw_raw cs

/-- the quoted form never contains a raw newline or an unescaped quote: it stays on one line and
    cannot end early -/
theorem escape_no_newline (cs : List Char) : '\n' ∉ escape cs :=
  Proofs.RoundTrip.escape_no_newline cs

/-- the decoded form of well-encoded text: one good rune per character, of any widths `w` -/
def runesOf (w : Char → Nat) (cs : List Char) : List Scan.Rune :=
  cs.map (fun c => (⟨c.toNat, w c, false⟩ : Scan.Rune))

/-- 2. scanner level: for every string without NUL, `scanString` (entered after the opening quote)
    reads the printed body `escape cs` and stops with the closing quote (34) as look-ahead, exactly
    the continuation `rest` unread and no error recorded — whatever the widths, the continuation
    and the position bookkeeping.  (It only ever meets the escapes `\\`, `\"`, `\n`; never a raw
    newline, never EOF, never NUL.) -/
theorem scan_printed_quoted_string (w : Char → Nat) (cs : List Char) (h0 : Char.ofNat 0 ∉ cs)
    (rest : List Scan.Rune) (p : Scan.PState) (hp : p.errs = 0) :
    ∃ q, Scan.scanString (runesOf w (escape cs ++ ['"']) ++ rest) p = (34, rest, q) ∧ q.errs = 0 :=
  Proofs.ScanString.scan_printed_quoted_string w cs h0 rest p hp

/-- 2'. one call of `Scan.scan` with the opening quote as look-ahead: exactly one `String` token,
    spelled `"` `escape cs` `"`, and the scanner goes on with `rest` -/
theorem scan_printed_string_token (w : Char → Nat) (cs : List Char) (h0 : Char.ofNat 0 ∉ cs)
    (rest : List Scan.Rune) (p : Scan.PState) (hp : p.errs = 0) (fuel : Nat) :
    ∃ q, Scan.scan (fuel + 1) (runesOf w (escape cs ++ ['"']) ++ rest) 34 p =
        (some (.string, 34 :: (escape cs ++ ['"']).map Char.toNat), Scan.next rest q) ∧ q.errs = 0 :=
  Proofs.ScanString.scan_printed_string_token w cs h0 rest p hp fuel

/-- 2 + 3. scanner and reader composed, for the quoted form: a non-keyword string without NUL that
    is not printed raw is scanned as one `String` token spelled `prString true s`, which `readAtom`
    turns back into `s` -/
theorem scan_read_printed_string (cfg : Cfg) (w : Char → Nat) (s : String)
    (hkw : Val.isKwStr s = false)
    (hraw : ¬ (['{', '"'].isPrefixOf s.toList ∧ s.toList.getLast? = some '}'))
    (h0 : Char.ofNat 0 ∉ s.toList)
    (rest : List Scan.Rune) (p : Scan.PState) (hp : p.errs = 0) (fuel line column offset : Nat) :
    ∃ text q, Scan.scan (fuel + 1) (runesOf w (escape s.toList ++ ['"']) ++ rest) 34 p =
        (some (.string, text), Scan.next rest q) ∧ q.errs = 0 ∧
      text.map Char.ofNat = prString true s ∧
      ∃ s', readAtom cfg ⟨.string, text, line, column, offset⟩ = .ok (.str s') ∧
        s'.toList = s.toList :=
  Proofs.ScanString.scan_read_printed_string cfg w s hkw hraw h0 rest p hp fuel line column offset

/-- the scanner-level theorem on the string `a"b\` + newline (printed body `a\"b\\\n`), then `)` -/
example (p : Scan.PState) (hp : p.errs = 0) :
    ∃ q, Scan.scanString
      (runesOf (fun _ => 1) ['a', '\\', '"', 'b', '\\', '\\', '\\', 'n', '"'] ++ [⟨41, 1, false⟩]) p =
        (34, [⟨41, 1, false⟩], q) ∧ q.errs = 0 :=
  scan_printed_quoted_string (fun _ => 1) ['a', '"', 'b', '\\', '\n'] (by decide) [⟨41, 1, false⟩] p hp

/-- … and the same run by kernel evaluation from the initial scanner state -/
example :
    let s := Scan.scanString
      (runesOf (fun _ => 1) ['a', '\\', '"', 'b', '\\', '\\', '\\', 'n', '"'] ++ [⟨41, 1, false⟩]) {}
    s.1 = 34 ∧ s.2.1 = [⟨41, 1, false⟩] ∧ s.2.2.errs = 0 := by decide

/-- the hypothesis `Char.ofNat 0 ∉ cs` is needed: the scanner counts an error on a NUL inside a
    string literal (so a string containing U+0000 is printed but not read back: "invalid token") -/
example : (Scan.scanString (runesOf (fun _ => 1) (escape [Char.ofNat 0] ++ ['"'])) {}).2.2.errs = 1 := by
  decide

/-- 3. reader level, for the token the printer produces: every non-keyword string `s`
    is recovered by `readAtom` from the token spelled `prString true s`. -/
theorem read_printed_string_token (cfg : Cfg) (s : String) (t : Scan.Token)
    (hkw : Val.isKwStr s = false)
    (htext : t.text.map Char.ofNat = prString true s)
    (hkind : t.kind = if ['{', '"'].isPrefixOf s.toList ∧ s.toList.getLast? = some '}' then .rawString else .string) :
    ∃ s', readAtom cfg t = .ok (.str s') ∧ s'.toList = s.toList :=
  Proofs.RoundTrip.read_printed_string_token cfg s t hkw htext hkind

/-- the string case of the property checked end to end (bytes → scanner → reader) on hostile
    witnesses, by kernel evaluation of the model -/
def roundTripsStr (s : String) (bytes : List UInt8) : Bool :=
  match readStr {} bytes with
  | .ok (.str s') => s' == s
  | _ => false

set_option maxRecDepth 20000 in
theorem hostile_strings_round_trip :
    roundTripsStr "aʞb" (bytes% "\"aʞb\"") = true ∧
    roundTripsStr "a\\\"b\nc" (bytes% "\"a\\\\\\\"b\\nc\"") = true ∧
    roundTripsStr "{\"k\": \"¬\"}" (bytes% "¬{\"k\": \"¬¬\"}¬") = true ∧
    roundTripsStr "\\n" (bytes% "\"\\\\n\"") = true := by decide

end LispModel.Props.C06

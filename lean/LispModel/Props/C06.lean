/-
  C06 — printing then reading returns the same value.

  The printer (`Print.prStr`), the scanner (`Scan.tokenize`) and the reader (`Read.readStr`) are the
  Lean mirrors of printer.Pr_str / jig/scanner / reader.go, tied to the Go code on every run by the
  `print`, `reread`, `scan` and `read` correspondence engines.
  Layers proved here:
    1. string level: the reader's un-escaping inverts the printer's escaping, for *every* string
       (any Unicode content, including the keyword marker U+029E — the defect D10 repaired);
       likewise for the raw (`¬…¬`) form;
    2. scanner level: the printed form of a string, followed by anything, is scanned back as exactly
       one String / RawString token with that text;
    3. reader level: a printed string token is read back as the original string;
    4. byte level: decoding the UTF-8 encoding of the printed characters gives the characters back
       (`decodeAll_utf8`);
    5. atom level: printed integers, symbols, keywords and strings, followed by a delimiter, are
       scanned as one token each (`scan_printed_int_token`, `scan_printed_symbol_token`, …) and
       `parseInt` inverts `intStr` (`parseInt_intStr`);
    6. value level: the printed text of a readable data value tokenizes to the expected tokens
       (`tokens_of_printed_value`) and these are read back as a structurally equal value
       (`read_printed_tokens`);
    7. end to end: `print_then_read` — for every readable data value (`readableData`) with pairwise
       different hash-map / set keys (`Data`), `readStr` of the UTF-8 bytes of `print v` returns a
       value equal to `v` up to cursors (`structEqB`).  The key hypothesis is needed:
       `duplicate_keys_do_not_round_trip`.
  Property theorems only (helper lemmas live in Proofs/RoundTrip.lean, Proofs/ScanString.lean and
  Proofs/PrintRead*.lean).
-/
import LispModel.Proofs.IntArithLaws
import LispModel.Read
import LispModel.Print
import LispModel.Spec.Readable
import LispModel.Util
import LispModel.Proofs.RoundTrip
import LispModel.Proofs.ScanString
import LispModel.Proofs.PrintRead
import LispModel.Proofs.SeedLaws
namespace LispModel.Props.C06
open LispModel LispModel.Read LispModel.Print

/-- the printer's escaping of a quoted string body (`\` ↦ `\\`, `"` ↦ `\"`, newline ↦ `\n`) -/
def escape (cs : List Char) : List Char :=
  replaceAll ['\n'] ['\\', 'n'] (replaceAll ['"'] ['\\', '"'] (replaceAll ['\\'] ['\\', '\\'] cs))

/-- 1a. un-escaping inverts escaping, for every string -/
theorem unescape_escape (cs : List Char) : unescape (escape cs) = cs :=
  Proofs.RoundTrip.unescape_escape cs

/-- 1b. the raw form: doubling `¬` is undone by the reader -/
theorem unraw_raw (cs : List Char) :
    replaceAll ['¬', '¬'] ['¬'] (replaceAll ['¬'] ['¬', '¬'] cs) = cs :=
  Proofs.RoundTrip.unraw_raw cs

/-- the quoted form never contains a raw newline or an unescaped quote: it stays on one line and
    cannot end early -/
theorem escape_no_newline (cs : List Char) : '\n' ∉ escape cs :=
  Proofs.RoundTrip.escape_no_newline cs

/-- the decoded form of well-encoded text: one good rune per character, of any widths `w` -/
def runesOf (w : Char → Nat) (cs : List Char) : List Scan.Rune :=
  cs.map (fun c => (⟨c.toNat, w c, false⟩ : Scan.Rune))

/-- 2. scanner level: for every string without NUL, `scanString` (entered after the opening quote)
    reads the printed body `escape cs` and stops with the closing quote (34) as look-ahead, exactly
    the continuation `rest` unread and no error recorded — whatever the widths, the continuation
    and the position bookkeeping.  (It only ever meets the escapes `\\`, `\"`, `\n`; never a raw
    newline, never EOF, never NUL.) -/
theorem scan_printed_quoted_string (w : Char → Nat) (cs : List Char) (h0 : Char.ofNat 0 ∉ cs)
    (rest : List Scan.Rune) (p : Scan.PState) (hp : p.errs = 0) :
    ∃ q, Scan.scanString (runesOf w (escape cs ++ ['"']) ++ rest) p = (34, rest, q) ∧ q.errs = 0 :=
  Proofs.ScanString.scan_printed_quoted_string w cs h0 rest p hp

/-- 2'. one call of `Scan.scan` with the opening quote as look-ahead: exactly one `String` token,
    spelled `"` `escape cs` `"`, and the scanner goes on with `rest` -/
theorem scan_printed_string_token (w : Char → Nat) (cs : List Char) (h0 : Char.ofNat 0 ∉ cs)
    (rest : List Scan.Rune) (p : Scan.PState) (hp : p.errs = 0) (fuel : Nat) :
    ∃ q, Scan.scan (fuel + 1) (runesOf w (escape cs ++ ['"']) ++ rest) 34 p =
        (some (.string, 34 :: (escape cs ++ ['"']).map Char.toNat), Scan.next rest q) ∧ q.errs = 0 :=
  Proofs.ScanString.scan_printed_string_token w cs h0 rest p hp fuel

/-- 2 + 3. scanner and reader composed, for the quoted form: a non-keyword string without NUL that
    is not printed raw is scanned as one `String` token spelled `prString true s`, which `readAtom`
    turns back into `s` -/
theorem scan_read_printed_string (cfg : Cfg) (w : Char → Nat) (s : String)
    (hkw : Val.isKwStr s = false)
    (hraw : ¬ (['{', '"'].isPrefixOf s.toList ∧ s.toList.getLast? = some '}'))
    (h0 : Char.ofNat 0 ∉ s.toList)
    (rest : List Scan.Rune) (p : Scan.PState) (hp : p.errs = 0) (fuel line column offset : Nat) :
    ∃ text q, Scan.scan (fuel + 1) (runesOf w (escape s.toList ++ ['"']) ++ rest) 34 p =
        (some (.string, text), Scan.next rest q) ∧ q.errs = 0 ∧
      text.map Char.ofNat = prString true s ∧
      ∃ s', readAtom cfg ⟨.string, text, line, column, offset⟩ = .ok (.str s') ∧
        s'.toList = s.toList :=
  Proofs.ScanString.scan_read_printed_string cfg w s hkw hraw h0 rest p hp fuel line column offset

/-- the scanner-level theorem on the string `a"b\` + newline (printed body `a\"b\\\n`), then `)` -/
example (p : Scan.PState) (hp : p.errs = 0) :
    ∃ q, Scan.scanString
      (runesOf (fun _ => 1) ['a', '\\', '"', 'b', '\\', '\\', '\\', 'n', '"'] ++ [⟨41, 1, false⟩]) p =
        (34, [⟨41, 1, false⟩], q) ∧ q.errs = 0 :=
  scan_printed_quoted_string (fun _ => 1) ['a', '"', 'b', '\\', '\n'] (by decide) [⟨41, 1, false⟩] p hp

/-- … and the same run by kernel evaluation from the initial scanner state -/
example :
    let s := Scan.scanString
      (runesOf (fun _ => 1) ['a', '\\', '"', 'b', '\\', '\\', '\\', 'n', '"'] ++ [⟨41, 1, false⟩]) {}
    s.1 = 34 ∧ s.2.1 = [⟨41, 1, false⟩] ∧ s.2.2.errs = 0 := by decide

/-- the hypothesis `Char.ofNat 0 ∉ cs` is needed: the scanner counts an error on a NUL inside a
    string literal (so a string containing U+0000 is printed but not read back: "invalid token") -/
example : (Scan.scanString (runesOf (fun _ => 1) (escape [Char.ofNat 0] ++ ['"'])) {}).2.2.errs = 1 := by
  decide

/-- 3. reader level, for the token the printer produces: every non-keyword string `s`
    is recovered by `readAtom` from the token spelled `prString true s`. -/
theorem read_printed_string_token (cfg : Cfg) (s : String) (t : Scan.Token)
    (hkw : Val.isKwStr s = false)
    (htext : t.text.map Char.ofNat = prString true s)
    (hkind : t.kind = if ['{', '"'].isPrefixOf s.toList ∧ s.toList.getLast? = some '}' then .rawString else .string) :
    ∃ s', readAtom cfg t = .ok (.str s') ∧ s'.toList = s.toList :=
  Proofs.RoundTrip.read_printed_string_token cfg s t hkw htext hkind

/-- the string case of the property checked end to end (bytes → scanner → reader) on hostile
    witnesses, by kernel evaluation of the model -/
def roundTripsStr (s : String) (bytes : List UInt8) : Bool :=
  match readStr {} bytes with
  | .ok (.str s') => s' == s
  | _ => false

set_option maxRecDepth 20000 in
theorem hostile_strings_round_trip :
    roundTripsStr "aʞb" (bytes% "\"aʞb\"") = true ∧
    roundTripsStr "a\\\"b\nc" (bytes% "\"a\\\\\\\"b\\nc\"") = true ∧
    roundTripsStr "{\"k\": \"¬\"}" (bytes% "¬{\"k\": \"¬¬\"}¬") = true ∧
    roundTripsStr "\\n" (bytes% "\"\\\\n\"") = true := by decide

/-! ### the first sentence of C06, end to end -/

/-- the UTF-8 bytes of a character list -/
def utf8 (cs : List Char) : List UInt8 := cs.flatMap String.utf8EncodeChar

/-- `utf8` is `String.toUTF8` -/
theorem utf8_is_toUTF8 (s : String) : s.toUTF8.toList = utf8 s.toList :=
  Proofs.PrintRead.toUTF8_eq s

/-- 4. decoding the UTF-8 encoding of a character list gives the characters back: one rune per
    character, with its code point and width, none flagged `bad` -/
theorem decodeAll_utf8 (cs : List Char) :
    Scan.decodeAll (utf8 cs) = cs.map (fun c => (⟨c.toNat, c.utf8Size, false⟩ : Scan.Rune)) :=
  Proofs.PrintRead.decodeAll_utf8 cs

/-- 5a. `strconv.ParseInt` (as modelled) inverts the printer's `%v` on the int64 range -/
theorem parseInt_intStr (i : Int) (h : -9223372036854775808 ≤ i ∧ i ≤ 9223372036854775807) :
    parseInt (intStr i) = some i :=
  Proofs.PrintRead.parseInt_intStr i h

/-- the decoded form of a character list (each rune with its UTF-8 width) -/
abbrev runesU (cs : List Char) : List Scan.Rune := Proofs.PrintRead.runesOf cs

/-- a delimiter the printer emits after an element: a well-encoded space, `)`, `]` or `}` -/
abbrev IsDelim (d : Scan.Rune) : Prop := Proofs.PrintRead.IsDelim d

/-- 5b. a printed integer followed by a delimiter (or by the end of the input): with its first
    character read, one call of `scan` returns the Int token spelled `intStr i` and leaves the
    scanner on the delimiter, no error recorded — whatever the fuel -/
theorem scan_printed_int_token (i : Int) (d : Scan.Rune) (S : List Scan.Rune) (hd : IsDelim d)
    (p : Scan.PState) (hp : p.errs = 0) :
    ∃ q, (∀ F : Nat, Scan.scan (F + 1) (Scan.next (runesU (intStr i) ++ d :: S) p).2.1
        (Scan.next (runesU (intStr i) ++ d :: S) p).1 (Scan.next (runesU (intStr i) ++ d :: S) p).2.2 =
          (some (.int, (intStr i).map Char.toNat), Scan.next (d :: S) q)) ∧ q.errs = 0 :=
  Proofs.PrintRead.scan_int i (Or.inr ⟨d, S, rfl, hd⟩) p hp

/-- 5c. the continuation lemma behind the definition of the readable symbols: a spelling that the
    scanner, on its own, turns into exactly one token with that text is — followed by a delimiter and
    anything — scanned as the same token, the scanner stopping on the delimiter -/
theorem scan_printed_symbol_token (s : String) (h : readableSym s = true) (d : Scan.Rune)
    (S : List Scan.Rune) (hd : IsDelim d) (p : Scan.PState) (hp : p.errs = 0) :
    ∃ t q, tokensOfString s = .ok [t] ∧ tokStr t = s ∧ q.errs = 0 ∧
      ∀ F : Nat, Scan.scan (F + 1) (Scan.next (runesU s.toList ++ d :: S) p).2.1
        (Scan.next (runesU s.toList ++ d :: S) p).1 (Scan.next (runesU s.toList ++ d :: S) p).2.2 =
          (some (t.kind, t.text), ((d.ch : Int), S, q)) := by
  obtain ⟨t, ht, hs, hk⟩ := Proofs.PrintRead.readableSym_spec h
  have ht' := ht
  rw [Proofs.PrintRead.tokensOfString_eq] at ht'
  have hlen : t.text.length = s.toList.length := by
    rw [← hs, Proofs.PrintRead.tokStr_toList]; simp
  have hak : Proofs.PrintRead.AtomKind t.kind := by
    rcases hk with ⟨hk, _⟩ | ⟨c, hk⟩
    · exact Or.inl hk
    · exact Or.inr (Or.inr ⟨c, hk⟩)
  obtain ⟨_, _, hsc⟩ := Proofs.PrintRead.readable_scan s.toList t ht' hak hlen
  obtain ⟨q, hq, he⟩ := hsc d S hd p hp
  exact ⟨t, q, ht, hs, he, hq⟩

/-- the expected tokens (kind and text) of the printed text of a value -/
abbrev toksOf (v : Val) : List (Scan.Kind × List Nat) := Proofs.PrintRead.toksOf v

/-- 6a. scanner level, whole values: tokenizing the UTF-8 bytes of the printed text of a readable
    data value succeeds and gives exactly the expected tokens -/
theorem tokens_of_printed_value (v : Val) (h : readableData v = true) :
    ∃ ts, Scan.tokenize (utf8 (print v)) = .ok ts ∧ ts.map (fun t => (t.kind, t.text)) = toksOf v := by
  obtain ⟨ts, hts, hm⟩ := Proofs.PrintRead.tokenize_print v h
  refine ⟨ts, ?_, hm⟩
  show Scan.tokenizeRunes (Scan.decodeAll (Proofs.PrintRead.utf8 (print v))) = _
  rw [Proofs.PrintRead.decodeAll_utf8]
  exact hts

/-- 6b. reader level, whole values: any tokens with the expected kinds and texts (whatever their
    positions), followed by anything, are read by `readForm` as a value structurally equal to `v`,
    the rest left unread — without a placeholder table, with enough fuel -/
theorem read_printed_tokens (cfg : Cfg) (hphs : cfg.phs = none) (v : Val) (h : readableData v = true)
    (hd : Data v) (ts : List Scan.Token) (hts : ts.map (fun t => (t.kind, t.text)) = toksOf v) :
    ∃ v' f, (∀ rest, readForm f cfg (ts ++ rest) = .ok (v', rest)) ∧ structEqB v v' = true := by
  obtain ⟨v', ⟨f, hf⟩, _, he⟩ := Proofs.PrintRead.read_val cfg hphs v h hd ts hts
  exact ⟨v', f, hf, he⟩

/-- 7. **printing then reading returns the same value**: for every readable data value with pairwise
    different hash-map / set keys, `Read_str` of the UTF-8 bytes of `PRINT v` succeeds and returns a
    value equal to `v` up to cursors and entry order (`structEqB`, proved equivalent to `SEq` in C14) -/
theorem print_then_read (v : Val) (h : readableData v = true) (hd : Data v) :
    ∃ v', readStr {} (utf8 (print v)) = .ok v' ∧ structEqB v v' = true :=
  Proofs.PrintRead.print_then_read v h hd

/-- the same at the rune level, for any reader configuration without a placeholder table -/
theorem print_then_read_runes (cfg : Cfg) (hphs : cfg.phs = none) (v : Val) (h : readableData v = true)
    (hd : Data v) :
    ∃ ts v', Scan.tokenizeRunes (runesU (print v)) = .ok ts ∧ ts ≠ [] ∧
      readForm (2 * ts.length + 2) cfg ts = .ok (v', []) ∧ structEqB v v' = true :=
  Proofs.PrintRead.print_then_read_runes cfg hphs v h hd

/-- the round trip as a Boolean, for kernel-evaluated examples -/
def roundTrips (v : Val) : Bool :=
  match readStr {} (utf8 (print v)) with
  | .ok v' => structEqB v v'
  | .error _ => false

/-- `Data v` is needed (`readableData` does not ask for different keys): a hash-map value with the
    key "a" twice prints as `{"a" 1 "a" 2}`, which is read back as the one-entry map `{"a" 2}` -/
theorem duplicate_keys_do_not_round_trip :
    readableData (.map [("a", .int 1), ("a", .int 2)]) = true ∧
    roundTrips (.map [("a", .int 1), ("a", .int 2)]) = false := by decide +kernel

/-- a nested value with hostile strings, a keyword, symbols (one of them a Char token, one with a
    `$`), negative and extreme integers, an empty list, a map and a set -/
def sample : Val :=
  .list [.sym "foo-bar?" none, .sym "%" none, .sym "$x" none, .int (-9223372036854775808), .int 0,
    .str "a\\\"b\nc ʞ ¬", .str "{\"k\": \"¬\"}", .str "", Val.kw "key", .nil, .bool false,
    .list [] none,
    .vec [.map [("k", .vec [.int 7] none), (String.ofList [kwMarker, 'a'], .nil)], .set ["x", "y z"]] none] none

theorem sample_readable : readableData sample = true := by
  rw [Proofs.PrintRead.readableData_eq]; decide +kernel

theorem sample_data : Data sample := by
  refine Data.list (fun x hx => ?_)
  simp only [List.mem_cons, List.not_mem_nil, or_false] at hx
  rcases hx with rfl | rfl | rfl | rfl | rfl | rfl | rfl | rfl | rfl | rfl | rfl | rfl | rfl
  · exact Data.sym _ _
  · exact Data.sym _ _
  · exact Data.sym _ _
  · exact Data.int _
  · exact Data.int _
  · exact Data.str _
  · exact Data.str _
  · exact Data.str _
  · exact Data.str _
  · exact Data.nil
  · exact Data.bool _
  · exact Data.list (fun x hx => by cases hx)
  · refine Data.vec (fun x hx => ?_)
    simp only [List.mem_cons, List.not_mem_nil, or_false] at hx
    rcases hx with rfl | rfl
    · refine Data.map (by decide) (fun kv hkv => ?_)
      simp only [List.mem_cons, List.not_mem_nil, or_false] at hkv
      rcases hkv with rfl | rfl
      · exact Data.vec (fun x hx => by
          simp only [List.mem_cons, List.not_mem_nil, or_false] at hx
          subst hx; exact Data.int _)
      · exact Data.nil
    · exact Data.set (by decide)

/-- the theorem applied to the sample (non-vacuity of its hypotheses) … -/
example : ∃ v', readStr {} (utf8 (print sample)) = .ok v' ∧ structEqB sample v' = true :=
  print_then_read sample sample_readable sample_data

/-- … and the same round trip by kernel evaluation of the model -/
theorem sample_round_trips : roundTrips sample = true := by decide +kernel

/-! ## laws added after the seeded changes of rounds 3–5 -/
open LispModel.Proofs.SeedLaws (Kw readsAs utf8Of)

/-- the keyword `:ʞx` (name starting with the marker U+029E) prints as `:ʞx` and reads back to itself -/
theorem keyword_named_with_marker_round_trips :
    (Print.print (Kw "ʞx") == ":ʞx".toList && readsAs (utf8Of (Print.print (Kw "ʞx"))) (Kw "ʞx") &&
     readsAs (bytes% ":ʞx") (Kw "ʞx") && !readsAs (bytes% ":ʞx") (Kw "x")) = true :=
  Proofs.SeedLaws.C06.keyword_named_with_marker_round_trips


open LispModel.IntArith in
/-- every 64-bit integer — `math.MinInt64` included — reads back from its printed form through the mirror of
    `strconv.ParseInt(s, 0, 0)` (sign, base prefixes, underscores, cutoff test), and whatever that accepts is in range -/
theorem integer_print_then_parse {i : Int} (h : inRange i) : parseIntLit (printInt i) = .ok i :=
  parse_print_roundtrip h

open LispModel.IntArith in
theorem integer_literals_are_in_range {s : String} {i : Int} (h : parseIntLit s = .ok i) : inRange i :=
  parseIntLit_range h

end LispModel.Props.C06

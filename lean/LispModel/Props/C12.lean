/-
  C12 — property theorems (see DESIGN.md §6 C12).  Helper lemmas live in Proofs/.
-/
import LispModel.Eval
namespace LispModel.Props.C12
open LispModel

end LispModel.Props.C12

/-
  C12 — property theorems (see DESIGN.md §6 C12).  Helper lemmas live in Proofs/.

  "Macro calls equal their expansion; quasiquote builds exactly the template."
  Vocabulary (`Spec/QQ.lean`): `tick` / `addTicks k` (polls of a context that is never cancelled),
  `Std st` (debugger off, not cancelled), `NotMacro st env s`, `IsMacroCall st env ast`,
  `CoreBound st env` (`cons`, `concat`, `vec` mean the builtins and `quote` is not a macro in `env`),
  `qqSubst` / `qqElems` (the specification: a walk over the template that builds the value).
-/
import LispModel.Proofs.QQEval
import LispModel.Proofs.SeedLaws
namespace LispModel.Props.C12
open LispModel LispModel.Core LispModel.QQ

/-! ### macros -/

/-- "A macro receives its operands unevaluated": the macro function is applied (`bindParams`) to the
    operand FORMS `args`, in a fresh child of the macro's definition scope; the form it returns is
    expanded again in the caller's scope `env`. -/
theorem macro_operands_unevaluated {F : Nat} {st : State} {env d : Nat} {s : String}
    {p q fp : Option Pos} {args : List Val} {ps b : Val} {fe : Nat}
    (h : st.get env s = some (.fn ps b fe true fp)) :
    macroexpand (F+1) st env (.list (.sym s p :: args) q) d =
      match bindParams ps args with
      | .error e => (.err e, st)
      | .ok data =>
        match eval F (st.newScope fe data).1 (st.newScope fe data).2 b (d+1) with
        | (.ok ast', st2) => macroexpand F st2 env ast' d
        | r => r :=
  Proofs.QQ.macroexpand_macro h

/-- "Evaluating a macro call gives the same result and effects as evaluating its macroexpand
    result", in the caller's scope `env` and at the same depth `d`: once `macroexpand` has turned the
    form into `ast'` (leaving state `s1`, which holds the effects of running the macro functions),
    the loop goes on exactly as an evaluation of `ast'` whose first poll leads to `s1`. -/
theorem macro_call_eq_expansion {F : Nat} {st s0 s1 st0 : State} {env d : Nat} {xs : List Val}
    {p : Option Pos} {ast' : Val}
    (hp : st.poll = (false, s0))
    (hm : macroexpand F s0 env (.list xs p) d = (.ok ast', s1))
    (hp0 : st0.poll = (false, s1)) :
    evalLoop (F+1) st env (.list xs p) d = evalLoop (F+1) st0 env ast' d :=
  Proofs.QQ.macro_call_eq_expansion hp hm hp0

/-- "…its macroexpand result, which is a form whose head is no longer a macro" (whatever the fuel:
    a successful `macroexpand` only stops at such a form) -/
theorem expansion_head_not_macro {F : Nat} {st st' : State} {env d : Nat} {ast ast' : Val}
    (h : macroexpand F st env ast d = (.ok ast', st')) : ¬ IsMacroCall st' env ast' :=
  Proofs.QQ.expansion_head_not_macro h

/-- "Ordinary functions are unaffected": a form whose head does not resolve to a macro (a closure
    without the macro flag, a builtin, anything else, or unbound) is its own expansion and nothing
    happens. -/
theorem functions_unaffected {F : Nat} {st : State} {env d : Nat} {s : String} {p q : Option Pos}
    {args : List Val} (h : NotMacro st env s) :
    macroexpand (F+1) st env (.list (.sym s p :: args) q) d = (.ok (.list (.sym s p :: args) q), st) :=
  Proofs.QQ.functions_unaffected h

/-- `defmacro` binds a COPY of the function value with the macro flag set… -/
theorem defmacro_marks_copy {F : Nat} {st s2 : State} {env d : Nat} {name : String}
    {pd pn p fp : Option Pos} {fexpr prm b : Val} {rest : List Val} {e : Nat} {flag : Bool}
    (hc : st.cancelAt = none) (hnm : NotMacro st env "defmacro")
    (hf : eval (F+1) (tick st) env fexpr (d+1) = (.ok (.fn prm b e flag fp), s2)) :
    evalLoop (F+2) st env (.list (.sym "defmacro" pd :: .sym name pn :: fexpr :: rest) p) d =
      (.ok (.fn prm b e true fp), s2.set env name (.fn prm b e true fp)) :=
  Proofs.QQ.defmacro_marks_copy hc hnm hf

/-- …and the function value itself is unchanged: `Env.Set` touches the one name of the one scope,
    every other binding (e.g. one that holds the original function) keeps its value. -/
theorem defmacro_touches_one_binding (st : State) (env : Nat) (k : String) (v : Val) (i : Nat)
    (k' : String) (h : i ≠ env ∨ k ≠ k') :
    Proofs.QQ.localGet (st.set env k v) i k' = Proofs.QQ.localGet st i k' :=
  Proofs.QQ.set_other st env k v i k' h

/-! ### quasiquote: the premise `CoreBound` -/

/-- `CoreBound` holds in the root scope of the initial state… -/
theorem coreBound_root : CoreBound initState 0 ∧ StoreWF initState :=
  ⟨Proofs.QQ.coreBound_init, Proofs.QQ.storeWF_init⟩

/-- …and is inherited by every child scope (a `let`, a function call, a `catch`) that does not bind
    one of the four names, in a well-formed store (which child scopes keep well-formed). -/
theorem coreBound_child {st : State} (hwf : StoreWF st) {env : Nat} (henv : env < st.scopes.size)
    (hb : CoreBound st env) (data : List (String × Val))
    (h1 : alookup "cons" data = none) (h2 : alookup "concat" data = none)
    (h3 : alookup "vec" data = none) (h4 : alookup "quote" data = none) :
    CoreBound (st.newScope env data).1 (st.newScope env data).2 ∧ StoreWF (st.newScope env data).1 :=
  ⟨Proofs.QQ.coreBound_child hwf henv hb data h1 h2 h3 h4, Proofs.QQ.storeWF_newScope hwf henv data⟩

/-! ### quasiquote builds exactly the template -/

/-- "Evaluating a quasiquoted template returns the template with every unquote replaced by the value
    of its expression and every splice-unquote replaced by the elements of its value, in place and in
    order": whenever the specification `qqSubst` gives an outcome `r` (a value or an error) and state
    `st'` for template `t`, evaluating the form `(quasiquote t)` gives, for all large enough fuel, the same
    outcome `r` and the state `st'` up to `k` extra polls (`addTicks k st'` differs from `st'` in `ticks`
    only: same scopes, atoms, trace, marks).  All templates of any nesting.
    Premises: the standard side conditions; `quasiquote` is not a macro; an invariant `I` of the state
    that implies `CoreBound` and is kept by every unquoted expression of `t` (they do not rebind `cons`,
    `concat`, `vec`, `quote`: the generated code looks these names up at run time). -/
theorem qq_eval_eq_subst {env : Nat} {I : State → Prop}
    (hI : ∀ st, I st → CoreBound st env) {t : Val} {F : Nat} {st st' : State} {d : Nat} {r : Res Val}
    {pq p : Option Pos} {rest : List Val}
    (hq : NotMacro st env "quasiquote")
    (hp : ∀ e ∈ qqExprs t, Preserves I env e) (hi : I st) (hs : Std st)
    (h : qqSubst F env st t d = (r, st')) (hr : r ≠ .oof) :
    ∃ F₀, ∀ F', F₀ ≤ F' → ∃ k,
      evalLoop F' st env (.list (.sym "quasiquote" pq :: t :: rest) p) d = (r, addTicks k st') :=
  Proofs.QQ.qq_form_eq_subst' hI hq hp hi hs h hr

/-- the same for the code `quasiquote t` itself (what `quasiquoteexpand` returns), run by the loop -/
theorem qq_code_eq_subst {env : Nat} {I : State → Prop}
    (hI : ∀ st, I st → CoreBound st env) {t : Val} {F : Nat} {st st' : State} {d : Nat} {r : Res Val}
    (hp : ∀ e ∈ qqExprs t, Preserves I env e) (hi : I st) (hs : Std st)
    (h : qqSubst F env st t d = (r, st')) (hr : r ≠ .oof) :
    ∃ F₀, ∀ F', F₀ ≤ F' → ∃ k, evalLoop F' st env (quasiquote t) d = (r, addTicks k st') :=
  Proofs.QQ.qq_code_eq_subst' hI hp hi hs h hr

/-- the converse: whenever evaluating the form `(quasiquote t)` ends (with any fuel) in an outcome `r`
    — a value or an error — and state `s`, the specification yields the same outcome `r`, in a state
    that differs from `s` in the poll counter only.  With `qq_eval_eq_subst`: the form and the
    specification have the same outcomes, and one runs out of every fuel iff the other does. -/
theorem qq_eval_only_subst {env : Nat} {I : State → Prop}
    (hI : ∀ st, I st → CoreBound st env) {t : Val} {F' : Nat} {st s : State} {d : Nat} {r : Res Val}
    {pq p : Option Pos} {rest : List Val}
    (hq : NotMacro st env "quasiquote")
    (hp : ∀ e ∈ qqExprs t, Preserves I env e) (hi : I st) (hs : Std st)
    (h : evalLoop F' st env (.list (.sym "quasiquote" pq :: t :: rest) p) d = (r, s))
    (hr : r ≠ .oof) :
    ∃ F st' k, qqSubst F env st t d = (r, st') ∧ s = addTicks k st' :=
  Proofs.QQ.qq_form_only_subst' hI hq hp hi hs h hr

/-- the converse for the code `quasiquote t` -/
theorem qq_code_only_subst {env : Nat} {I : State → Prop}
    (hI : ∀ st, I st → CoreBound st env) {t : Val} {F' : Nat} {st s : State} {d : Nat} {r : Res Val}
    (hp : ∀ e ∈ qqExprs t, Preserves I env e) (hi : I st) (hs : Std st)
    (h : evalLoop F' st env (quasiquote t) d = (r, s)) (hr : r ≠ .oof) :
    ∃ F st' k, qqSubst F env st t d = (r, st') ∧ s = addTicks k st' :=
  Proofs.QQ.qq_code_only_subst' hI hp hi hs h hr

/-- `addTicks` moves the poll counter and nothing else -/
theorem addTicks_components (k : Nat) (st : State) :
    (addTicks k st).scopes = st.scopes ∧ (addTicks k st).atoms = st.atoms ∧
    (addTicks k st).trace = st.trace ∧ (addTicks k st).marks = st.marks ∧
    (addTicks k st).cancelAt = st.cancelAt ∧ (addTicks k st).stepper = st.stepper :=
  ⟨rfl, rfl, rfl, rfl, rfl, rfl⟩

/-- "…in place and in order": the unquoted expressions are evaluated left to right, each in the state
    its predecessor left, although `qq_loop` builds the `cons` forms from the right — for a template
    `((unquote e₁) … (unquote eₙ))` the walk is the left-to-right sequence `seqEval` (and by
    `qq_eval_eq_subst` so is the evaluation of the generated code). -/
theorem qq_effect_order (F env : Nat) (es : List Val) (st : State) (d : Nat) :
    qqElems F env st (es.map unq) d = seqEval F env st es d :=
  Proofs.QQ.qq_effect_order F env es st d

/-- "…with vectors staying vectors": what the generated code of a vector template returns is a vector
    (for every fuel; implementation level, no reference to the specification)… -/
theorem qq_vectors_stay_vectors {F : Nat} {st st' : State} {env d : Nat} {xs : List Val}
    {p : Option Pos} {v : Val} (hs : Std st) (hb : CoreBound st env)
    (h : evalLoop F st env (quasiquote (.vec xs p)) d = (.ok v, st')) : ∃ vs, v = .vec vs none :=
  Proofs.QQ.qq_vec_impl hs hb h

/-- …namely the vector of the elements the specification builds. -/
theorem qq_vector_elements {F env : Nat} {st st' : State} {xs : List Val} {p : Option Pos} {d : Nat}
    {v : Val} (h : qqSubst F env st (.vec xs p) d = (.ok v, st')) :
    ∃ vs, v = .vec vs none ∧ qqElems F env st xs (d+1) = (.ok vs, st') :=
  Proofs.QQ.qqSubst_vec_ok h

/-- "…and everything else returned literally": a template without unquote / splice-unquote denotes
    itself — `dropSeqPos t` is `t` with the reader positions of its lists and vectors dropped — and
    nothing is evaluated (the state does not move). -/
theorem qq_literal_parts_unchanged (F env : Nat) (t : Val) (st : State) (d : Nat)
    (h : qqExprs t = []) : qqSubst F env st t d = (.ok (dropSeqPos t), st) :=
  Proofs.QQ.qq_literal F env t st d h

/-! ### deviations from the textbook rule (what the model, hence the Go code, really does) -/

/-- `(unquote)` without operand is an ordinary list (not an error) -/
theorem unquote_without_operand_is_a_list (p q : Option Pos) :
    unquoteArg? (.list [.sym "unquote" p] q) = none := rfl

/-- operands of `unquote` after the first are ignored (not an error); the same for `splice-unquote` -/
theorem unquote_extra_operands_ignored (p q : Option Pos) (x y : Val) (tl : List Val) :
    unquoteArg? (.list (.sym "unquote" p :: x :: y :: tl) q) = some x ∧
    spliceArg? (.list (.sym "splice-unquote" p :: x :: y :: tl) q) = some x := ⟨rfl, rfl⟩

/-- a hash-map inside a template is literal, `(unquote x)` inside it included -/
theorem unquote_inside_map_is_literal (F env : Nat) (st : State) (m : List (String × Val)) (d : Nat) :
    qqSubst F env st (.map m) d = (.ok (.map m), st) := rfl

/-- `unquote` is recognised at the head of a LIST only: the vector `[unquote x]` is two literal symbols -/
theorem unquote_in_vector_head_is_literal (F env : Nat) (st : State) (p q r : Option Pos) (d : Nat) :
    qqSubst F env st (.vec [.sym "unquote" p, .sym "x" q] r) d =
      (.ok (.vec [.sym "unquote" p, .sym "x" q] none), st) := rfl

/-! ### non-vacuity: concrete programs on `initState`, evaluated by the kernel -/

private def S (s : String) : Val := .sym s none
private def L (xs : List Val) : Val := .list xs none
private def V (xs : List Val) : Val := .vec xs none
private def I (i : Int) : Val := .int i
private def qq (t : Val) : Val := L [S "quasiquote", t]
private def uq (t : Val) : Val := L [S "unquote", t]

/-- observation: printed result (or `!` + printed error payload) and printed trace, oldest effect first -/
private def obs (p : R) : Option (String × List String) :=
  let tr (st : State) := st.trace.reverse.map (fun v => String.ofList (Print.print v))
  match p with
  | (.ok v, st) => some (String.ofList (Print.print v), tr st)
  | (.err e, st) => some ("!" ++ String.ofList (Print.print (caughtValue e)), tr st)
  | (.oof, _) => none

/-- `` `(1 ~(trace! 2) ~@(trace! (list 3 4)) [5 ~(trace! 6)] {"k" ~7} sym) `` -/
private def t1 : Val :=
  L [I 1, uq (L [S "trace!", I 2]),
     L [S "splice-unquote", L [S "trace!", L [S "list", I 3, I 4]]],
     V [I 5, uq (L [S "trace!", I 6])], .map [("k", uq (I 7))], S "sym"]

/-- the implementation and the specification on a nested template: effects left to right, the splice
    in place, the vector a vector, the map literal -/
example : obs (eval 60 initState 0 (qq t1) 0) =
    some ("(1 2 3 4 [5 6] {\"k\" (unquote 7)} sym)", ["2", "(3 4)", "6"]) := by decide +kernel
example : obs (qqSubst 60 0 initState t1 0) =
    some ("(1 2 3 4 [5 6] {\"k\" (unquote 7)} sym)", ["2", "(3 4)", "6"]) := by decide +kernel

/-- deviation: a splice of a non-sequence is reported only after the elements to its right have been
    evaluated (their effects happen) -/
example : obs (eval 60 initState 0 (qq (L [L [S "splice-unquote", I 1], uq (L [S "trace!", I 2])])) 0) =
    some ("!«go-error \"GetSlice called on non-sequence\"»", ["2"]) := by decide +kernel

/-- a macro defined from a template; its operand `(trace! 7)` arrives unevaluated and is evaluated
    once, by the expansion -/
private def pUnless : Val :=
  L [S "do",
     L [S "defmacro", S "unless2", L [S "fn", L [S "c", S "a"], qq (L [S "if", uq (S "c"), .nil, uq (S "a")])]],
     L [S "unless2", .bool false, L [S "trace!", I 7]]]
example : obs (eval 80 initState 0 pUnless 0) = some ("7", ["7"]) := by decide +kernel

/-- a macro expanding to another macro; `macroexpand` goes on until the head is not a macro -/
private def pChain (body : Val) : Val :=
  L [S "do",
     L [S "defmacro", S "m1", L [S "fn", L [S "x"], qq (L [S "m2", uq (S "x")])]],
     L [S "defmacro", S "m2", L [S "fn", L [S "x"], qq (L [S "trace!", uq (S "x")])]],
     body]
example : obs (eval 80 initState 0 (pChain (L [S "m1", I 5])) 0) = some ("5", ["5"]) := by decide +kernel
example : obs (eval 80 initState 0 (pChain (L [S "macroexpand", L [S "m1", I 5]])) 0) =
    some ("(trace! 5)", []) := by decide +kernel

/-- operands are not evaluated: the macro returns its operand form quoted, no effect happens -/
private def pQuoteMacro : Val :=
  L [S "do",
     L [S "defmacro", S "q", L [S "fn", L [S "x"], L [S "list", L [S "quote", S "quote"], S "x"]]],
     L [S "q", L [S "trace!", I 1]]]
example : obs (eval 80 initState 0 pQuoteMacro 0) = some ("(trace! 1)", []) := by decide +kernel

/-- a recursive macro -/
private def pRec : Val :=
  L [S "do",
     L [S "defmacro", S "cnt", L [S "fn", L [S "n"],
        L [S "if", L [S "=", S "n", I 0], I 0, qq (L [S "cnt", uq (L [S "-", S "n", I 1])])]]],
     L [S "cnt", I 3]]
example : obs (eval 120 initState 0 pRec 0) = some ("0", []) := by decide +kernel

/-! ## laws added after the seeded changes of rounds 3–5 -/
open LispModel.Proofs.SeedLaws (Sy Ls Vc Nm runTop okIs traceEq)

/-- a macro named like a special form wins: the head symbol is looked up as a macro BEFORE the special
    forms are recognised.  If `s` is bound (in scope) to a macro closure — whatever `s` is, in particular
    `let`, `if`, `try`, `def`, `fn` — then (a) the form is expanded by applying the macro to the operand
    FORMS, (b) an error of the expansion is the error of the form, (c) otherwise the result is that of
    evaluating the expansion (`macro_call_eq_expansion`, which has no side condition on the name). -/
theorem macro_named_like_special_form_wins {F : Nat} {st : State} {env d : Nat} {s : String}
    {p q fp : Option Pos} {args : List Val} {ps b : Val} {fe : Nat}
    (hc : st.cancelAt = none) (h : st.get env s = some (.fn ps b fe true fp)) :
    (macroexpand (F+1) (LispModel.tick st) env (.list (.sym s p :: args) q) d =
      match bindParams ps args with
      | .error e => (.err e, LispModel.tick st)
      | .ok data =>
        match eval F ((LispModel.tick st).newScope fe data).1 ((LispModel.tick st).newScope fe data).2 b (d+1) with
        | (.ok ast', st2) => macroexpand F st2 env ast' d
        | r => r) ∧
    (∀ e s1, macroexpand (F+1) (LispModel.tick st) env (.list (.sym s p :: args) q) d = (.err e, s1) →
      evalLoop (F+2) st env (.list (.sym s p :: args) q) d = (.err e, s1)) ∧
    (∀ ast' s1 st0, macroexpand (F+1) (LispModel.tick st) env (.list (.sym s p :: args) q) d = (.ok ast', s1) →
      st0.poll = (false, s1) →
      evalLoop (F+2) st env (.list (.sym s p :: args) q) d = evalLoop (F+2) st0 env ast' d) :=
  Proofs.SeedLaws.C12.macro_named_like_special_form_wins hc h

/-- `(do (defmacro let (fn (a b) (list 'trace! b))) (let 1 2))` ⇒ 2 with the effect 2 -/
theorem macro_named_let_example :
    (let r := runTop (Ls [Sy "do",
        Ls [Sy "defmacro", Sy "let", Ls [Sy "fn", Ls [Sy "a", Sy "b"], Ls [Sy "list", Ls [Sy "quote", Sy "trace!"], Sy "b"]]],
        Ls [Sy "let", Nm 1, Nm 2]]);
     okIs r (Nm 2) && traceEq r [Nm 2]) = true :=
  Proofs.SeedLaws.C12.macro_named_let_example

/-- `(do (defmacro if (fn (c a b) b)) (if true 1 2))` ⇒ 2 -/
theorem macro_named_if_example :
    okIs (runTop (Ls [Sy "do", Ls [Sy "defmacro", Sy "if", Ls [Sy "fn", Ls [Sy "c", Sy "a", Sy "b"], Sy "b"]],
      Ls [Sy "if", .bool true, Nm 1, Nm 2]])) (Nm 2) = true :=
  Proofs.SeedLaws.C12.macro_named_if_example

/-- ``(let (v [2 3]) `(~@v))`` is the LIST `(2 3)` -/
theorem splice_in_list_is_list :
    okIs (runTop (Ls [Sy "let", Ls [Sy "v", Vc [Nm 2, Nm 3]],
      Ls [Sy "quasiquote", Ls [Ls [Sy "splice-unquote", Sy "v"]]]])) (Ls [Nm 2, Nm 3]) = true :=
  Proofs.SeedLaws.C12.splice_in_list_is_list

/-- ``(let (v [2 3]) `[~@v])`` is the VECTOR `[2 3]` -/
theorem splice_in_vector_is_vector :
    okIs (runTop (Ls [Sy "let", Ls [Sy "v", Vc [Nm 2, Nm 3]],
      Ls [Sy "quasiquote", Vc [Ls [Sy "splice-unquote", Sy "v"]]]])) (Vc [Nm 2, Nm 3]) = true :=
  Proofs.SeedLaws.C12.splice_in_vector_is_vector

end LispModel.Props.C12

/-
  C15 — property theorems (see DESIGN.md §6 C15).  Helper lemmas live in Proofs/.
-/
import LispModel.Read
import LispModel.Print
import LispModel.Preamble
import LispModel.Spec.Readable
namespace LispModel.Props.C15
open LispModel

end LispModel.Props.C15

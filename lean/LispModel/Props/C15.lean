/-
  C15 — placeholders are substituted as data and survive the preamble transport.

  `readForm` on a `$name` token, `Preamble.addPreamble`, `Preamble.readWithPreamble` are the Lean
  mirrors of read_placeholder / AddPreamble / READWithPreamble (tied to the Go code on every run by
  the `preamble`, `read` and `rwp` engines).
  Property theorems only (helper lemmas live in Proofs/Preamble.lean).
-/
import LispModel.Read
import LispModel.Print
import LispModel.Preamble
import LispModel.Spec.Readable
import LispModel.Util
import LispModel.Proofs.Preamble
import LispModel.Proofs.SeedLaws
namespace LispModel.Props.C15
open LispModel LispModel.Read LispModel.Scan LispModel.Preamble

/-- a token whose spelling starts with `$` and is not a bracket / reader-macro spelling -/
def isPlaceholderTok (t : Token) : Prop := t.text.head? = some 36

/-- Values are inserted as data: a placeholder token is replaced by exactly its value, consuming
    exactly that token — nothing inside the value is looked at again by the reader. -/
theorem placeholder_inserted_as_data (cfg : Cfg) (fuel : Nat) (t : Token) (rest : List Token)
    (m : List (String × Val)) (v : Val)
    (ht : isPlaceholderTok t) (hm : cfg.phs = some m) (hv : alookup (tokStr t) m = some v) :
    readForm (fuel + 1) cfg (t :: rest) = .ok (v, rest) :=
  Proofs.Preamble.placeholder_inserted_as_data cfg fuel t rest m v ht hm hv

/-- A placeholder without a value reads as nil. -/
theorem missing_placeholder_is_nil (cfg : Cfg) (fuel : Nat) (t : Token) (rest : List Token)
    (m : List (String × Val))
    (ht : isPlaceholderTok t) (hm : cfg.phs = some m) (hv : alookup (tokStr t) m = none) :
    readForm (fuel + 1) cfg (t :: rest) = .ok (.nil, rest) :=
  Proofs.Preamble.missing_placeholder_is_nil cfg fuel t rest m ht hm hv

/-- Placeholder-looking text inside a string literal is untouched: a String token is read by
    `read_atom`, whatever `$names` its text contains. -/
theorem placeholder_in_string_untouched (cfg : Cfg) (fuel : Nat) (t : Token) (rest : List Token)
    (hk : t.kind = .string) (hq : t.text.head? = some 34) :
    readForm (fuel + 1) cfg (t :: rest) = (readAtom cfg t).map (fun v => (v, rest)) :=
  Proofs.Preamble.placeholder_in_string_untouched cfg fuel t rest hk hq

/-- names over letters, digits, '-' and '_' -/
def IsName (name : List UInt8) : Prop := name ≠ [] ∧ ∀ b ∈ name, isNameByte b = true

/-- One preamble line `;; $name <value text>` is taken apart into exactly the name and the value
    text, for every name over the name alphabet and every one-line value text that does not begin or
    end with white space (printed values never do). -/
theorem preamble_line_parses (name value : List UInt8) (hn : IsName name)
    (hv : value ≠ []) :
    matchLine (prefixBytes ++ name ++ [32] ++ value) = some (name, value) :=
  Proofs.Preamble.preamble_line_parses name value hn hv

/-- `strings.Cut` + `Trim` give the line back: a line without newline, not starting or ending in a
    trim byte, followed by a newline and the rest. -/
theorem cut_trim_line (line rest : List UInt8) (hnl : (10 : UInt8) ∉ line)
    (hf : ∀ b, line.head? = some b → isTrimByte b = false)
    (hl : ∀ b, line.getLast? = some b → isTrimByte b = false) :
    cutLine (line ++ 10 :: rest) = (line, rest) ∧ trim line = line :=
  Proofs.Preamble.cut_trim_line line rest hnl hf hl

/-- Transport of one placeholder: a preamble consisting of the line for `name ↦ v` (any `v` whose
    printed form is one line, survives trimming and reads back as `v'`), a blank line and the source
    reads as the source with the table `{$name ↦ v'}`. -/
theorem transport_one (cfg : Cfg) (name : List UInt8) (v v' : Val) (src : List UInt8)
    (hn : IsName name)
    (text : List UInt8) (htext : text = (String.ofList (Print.print v)).toUTF8.toList)
    (hne : text ≠ []) (hnl : (10 : UInt8) ∉ text)
    (hf : ∀ b, text.head? = some b → isTrimByte b = false)
    (hl : ∀ b, text.getLast? = some b → isTrimByte b = false)
    (hread : readStr { cfg with phs := none, module := none } text = .ok v') :
    readWithPreamble cfg (prefixBytes ++ name ++ [32] ++ text ++ [10] ++ [10] ++ src) =
      (match readStr { cfg with phs := some [("$" ++ bytesToString name, v')] } src with
       | .ok r => .ok r
       | .error e => .err e) :=
  Proofs.Preamble.transport_one cfg name v v' src hn text htext hne hnl hf hl hread

/-- one entry of a preamble — name (without the `$`), value, the value as re-read, its printed text —
    satisfying the hypotheses of `transport_one` -/
def EntryOK (cfg : Cfg) (e : Proofs.Preamble.Entry) : Prop :=
  IsName e.1 ∧
  e.2.2.2 = (String.ofList (Print.print e.2.1)).toUTF8.toList ∧
  e.2.2.2 ≠ [] ∧ (10 : UInt8) ∉ e.2.2.2 ∧
  (∀ b, e.2.2.2.head? = some b → isTrimByte b = false) ∧
  (∀ b, e.2.2.2.getLast? = some b → isTrimByte b = false) ∧
  readStr { cfg with phs := none, module := none } e.2.2.2 = .ok e.2.2.1

/-- Transport of any number of placeholders: the preamble lines `;; $name <text>` of the entries
    (`preambleLines`), a blank line and the source read as the source with the table that holds, for
    every entry in order, `$name ↦ re-read value` (`tableOf` = `ainsert` entry after entry, so a
    repeated name keeps its first position and its last value). -/
theorem transport_faithful (cfg : Cfg) (phs : List Proofs.Preamble.Entry) (src : List UInt8)
    (hok : ∀ e ∈ phs, EntryOK cfg e) :
    readWithPreamble cfg (Proofs.Preamble.preambleLines phs ++ [10] ++ src) =
      (match readStr { cfg with phs := some (Proofs.Preamble.tableOf phs) } src with
       | .ok r => .ok r
       | .error e => .err e) :=
  Proofs.Preamble.transport_many cfg phs src hok

/-- … and with pairwise different names the table is exactly the list of the entries. -/
theorem transport_faithful_distinct (cfg : Cfg) (phs : List Proofs.Preamble.Entry)
    (src : List UInt8) (hok : ∀ e ∈ phs, EntryOK cfg e)
    (hpw : phs.Pairwise (fun a b => a.1 ≠ b.1)) :
    readWithPreamble cfg (Proofs.Preamble.preambleLines phs ++ [10] ++ src) =
      (match readStr { cfg with
          phs := some (phs.map (fun e => ("$" ++ bytesToString e.1, e.2.2.1))) } src with
       | .ok r => .ok r
       | .error e => .err e) := by
  rw [← Proofs.Preamble.tableOf_distinct phs (fun e he => (hok e he).1.2) hpw]
  exact transport_faithful cfg phs src hok

/-- the hypotheses instantiated on a concrete preamble with two entries, checked by evaluation of the
    scanner / reader / printer models -/
example :
    readWithPreamble {} (bytes% ";; $a 1\n;; $b-2 \"x\"\n\n(f $a $b-2)") =
      (match readStr { phs := some [("$a", .int 1), ("$b-2", .str "x")] } (bytes% "(f $a $b-2)") with
       | .ok r => .ok r
       | .error e => .err e) :=
  transport_faithful {}
    [(bytes% "a", .int 1, .int 1, bytes% "1"), (bytes% "b-2", .str "x", .str "x", bytes% "\"x\"")]
    (bytes% "(f $a $b-2)") (by
      intro e he
      simp only [List.mem_cons, List.not_mem_nil, or_false] at he
      rcases he with rfl | rfl
      · exact ⟨⟨by decide, by decide⟩, by rw [Proofs.Preamble.toUTF8_ofList]; decide, by decide, by decide,
          by intro b hb; cases hb; decide, by intro b hb; cases hb; decide, by rfl⟩
      · exact ⟨⟨by decide, by decide⟩, by rw [Proofs.Preamble.toUTF8_ofList]; decide, by decide, by decide,
          by intro b hb; cases hb; decide, by intro b hb; cases hb; decide, by rfl⟩)

/-- the known finding D12, machine-checked on the model: a `{"…}`-shaped string with a newline is
    printed raw over two lines, so its preamble line does not survive the line-oriented reader -/
theorem multiline_raw_value_breaks_transport :
    '\n' ∈ Print.print (.str "{\"k\":\n1}") := by
  decide

/-! ## laws added after the seeded changes of rounds 3–5 -/
open LispModel.Proofs.SeedLaws (Sy Ls Nm)
open LispModel.Proofs.SeedLaws.C15 (preambleReadsAs)

/-- with an empty table `AddPreamble` writes just the blank separator line in front of the source … -/
theorem addPreamble_empty (src : List UInt8) : addPreamble src [] = 10 :: src :=
  Proofs.SeedLaws.C15.addPreamble_empty src

/-- … so `READWithPreamble (AddPreamble src ∅)` reads `src` ITSELF with the empty table -/
theorem addPreamble_empty_table (cfg : Cfg) (src : List UInt8) :
    readWithPreamble cfg (addPreamble src []) =
      (match readStr { cfg with phs := some [] } src with
       | .ok r => .ok r
       | .error e => .err e) :=
  Proofs.SeedLaws.C15.addPreamble_empty_table cfg src

/-- `src = ";; $x 10\n(list $x)"` sent with an empty table reads as `(list nil)`; handed over without the
    separator line its first line would be taken for an entry: `(list 10)` -/
theorem addPreamble_empty_table_example :
    (preambleReadsAs (addPreamble (bytes% ";; $x 10\n(list $x)") []) (Ls [Sy "list", .nil]) &&
     preambleReadsAs (bytes% ";; $x 10\n(list $x)") (Ls [Sy "list", Nm 10])) = true :=
  Proofs.SeedLaws.C15.addPreamble_empty_table_example

end LispModel.Props.C15

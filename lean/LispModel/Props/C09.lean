/-
  C09 — Atom operations are atomic, never lose updates and never hang.

  Theorems about the micro-op model of lib/concurrent (Conc.lean): `prog` = the programs after
  docs/candidate-fixes.patch, tied to the source by Tie/Sync.lean; the `baseline_…` theorems are
  counterexamples about the programs of the source as it stands (tied by Tie/SyncBaseline.lean).
  Residual assumptions (stated, not proved): sequential consistency of the micro-op interleaving
  stands in for the Go memory model (justified for data-race-free executions, `atom_accesses_guarded`);
  fairness of sync.RWMutex for waiting threads.  Proofs: Proofs/Conc*.lean.
-/
import LispModel.Conc
import LispModel.Proofs.ConcBaseline
namespace LispModel.Props.C09
open LispModel.Conc

/-- D13 (baseline): one thread, `(swap! a (fn [x] (+ x @a)))`: after five steps the operation is
    pending and the thread has no enabled step (it waits for a read lock on the atom it write-locked) -/
theorem baseline_self_deref_deadlock :
    ∃ s, run progBaseline [0, 0, 0, 0, 0] Proofs.ConcBaseline.selfDeref = some s ∧
         deadlocked progBaseline s 1 0 = true :=
  Proofs.ConcBaseline.baseline_self_deref_deadlock

/-- D13 (baseline): two threads swapping a and b crosswise from inside their update functions -/
theorem baseline_cross_swap_deadlock :
    reachesDeadlock progBaseline [0, 0, 0, 0, 0, 1, 1, 1, 1, 1] Proofs.ConcBaseline.crossSwap 2 0 = true
    ∧ reachesDeadlock progBaseline [0, 0, 0, 0, 0, 1, 1, 1, 1, 1] Proofs.ConcBaseline.crossSwap 2 1 = true :=
  Proofs.ConcBaseline.baseline_cross_swap_deadlock

/-- D14 (baseline): `LispPrint`'s unguarded read of `Val` races with the write of a `swap!` -/
theorem baseline_print_races :
    reachesRace progBaseline [0, 0, 0, 0, 0, 1] Proofs.ConcBaseline.printVsSwap 0 1 = true :=
  Proofs.ConcBaseline.baseline_print_races

end LispModel.Props.C09

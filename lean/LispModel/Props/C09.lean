/-
  C09 — Atom operations are atomic, never lose updates and never hang.

  Theorems about the micro-op model of lib/concurrent (Conc.lean): `prog` = the programs after
  docs/candidate-fixes.patch, tied to the source by Tie/Sync.lean; the `baseline_…` theorems are
  counterexamples about the programs of the source before the repairs (frozen facts: Proofs/ConcBaselineFacts.lean).
  Residual assumptions (stated, not proved): sequential consistency of the micro-op interleaving
  stands in for the Go memory model (justified for data-race-free executions, `atom_accesses_guarded`);
  fairness of sync.RWMutex for waiting threads.  Proofs: Proofs/Conc*.lean.
-/
import LispModel.Conc
import LispModel.Proofs.ConcBaseline
import LispModel.Proofs.ConcBaselineFacts
import LispModel.Proofs.ConcAtomProgress
import LispModel.Proofs.ConcAtomFail
import LispModel.Proofs.ConcAtomSum
import LispModel.Proofs.ConcAtomRes
import LispModel.Proofs.LinSound
import LispModel.Spec.ConcObj
namespace LispModel.Props.C09
open LispModel.Conc Proofs.ConcAtom

/-! ### the fixed programs (`prog`): any number of threads, any interleaving

`Reachable progs vals s`: `s` is reached by some schedule of the micro-op semantics from the initial
state in which thread `t` is to issue the operations `progs[t]` (deref / reset! / swap! with pure,
failing, atom-reading — the swapped atom included — or other-atom-updating functions / print) and atom
`a` holds `vals a`. -/

/-- lock discipline: the write lock of an atom is held exactly by the thread whose top frame is in a
    write section of that atom, read locks exactly by the threads in a read section, a writer excludes
    every reader, frames below the top wait at `callback` and hold nothing -/
theorem lock_discipline {progs vals s} (hr : Reachable progs vals s) : LockInv s :=
  Proofs.ConcAtom.lock_discipline hr

/-- mutual exclusion: while a thread holds the write lock no thread holds a read lock; two write
    sections (of one atom) are never occupied by different threads -/
theorem mutual_exclusion {progs vals s} (hr : Reachable progs vals s) (a : Nat) :
    ((s.atoms a).w ≠ none → (s.atoms a).r = []) ∧
    (∀ t u top top' rest rest', (s.threads t).stack = top :: rest → (s.threads u).stack = top' :: rest' →
      top.op.atom = a → top'.op.atom = a → holdsW top = true → holdsW top' = true → t = u) := by
  have h := Proofs.ConcAtom.lock_discipline hr
  refine ⟨h.excl a, ?_⟩
  intro t u top top' rest rest' h1 h2 h3 h4 h5 h6
  have w1 := (h.w_iff a t).mpr ⟨top, rest, h1, h3, h5⟩
  have w2 := (h.w_iff a u).mpr ⟨top', rest', h2, h4, h6⟩
  rw [w1] at w2; cases w2; rfl

/-- linearizability, invariant style: the log of linearization events (deref/print: the read under the
    read lock; reset!: the write under the write lock; swap!: the validated install; failing swap!:
    the failure) — each taken by a step of the operation itself, i.e. between its invocation and its
    response — is a legal history of the sequential atom starting from the initial values and ending
    in the current ones: in particular every swap! install replaced exactly the then-current value -/
theorem atom_linearizable {progs vals s} (hr : Reachable progs vals s) :
    ∃ cur, replay s.lin vals = some cur ∧ ∀ a, cur a = (s.atoms a).val :=
  (atom_invariant hr).lin

/-- the validated install: a swap! about to write `Val` holds the write lock, its saved version equals
    the current one and the value it applied its function to is still the current value -/
theorem install_sees_current {progs vals s} (hr : Reachable progs vals s) {t : Nat} {fr : Frame}
    {rest : List Frame} (hst : (s.threads t).stack = fr :: rest)
    (hn : fr.op.name = .swap) (hnr : fr.returning = false) (hpc : fr.pc = 7) :
    fr.old = (s.atoms fr.op.atom).val ∧ fr.sver = (s.atoms fr.op.atom).ver ∧
    (s.atoms fr.op.atom).w = some t := by
  have h := atom_invariant hr
  obtain ⟨-, h2, h3⟩ := Proofs.ConcAtom.install_sees_current h.lock h.ver hst hn hnr hpc
  have hc := h.chk t fr rest hst hn hnr hpc
  exact ⟨h2 hc, hc, h3⟩

/-- what a swap! with a pure update function `g` installs is `g` applied to the current value, under the
    write lock (so no other write happens between the validation and the install) -/
theorem swap_installs_f_of_current {progs vals s} (hr : Reachable progs vals s) {t a : Nat} {g : Nat → Nat}
    {fr : Frame} {rest : List Frame} (hst : (s.threads t).stack = fr :: rest)
    (hop : fr.op = .swap a (.app g)) (hnr : fr.returning = false) (hpc : fr.pc = 7) :
    fr.res = g (s.atoms a).val ∧ (s.atoms a).w = some t :=
  Proofs.ConcAtom.swap_installs_f_of_current hr hst hop hnr hpc

/-- no lost update: when every operation of every thread is `swap! inc`, in every reachable state the
    value of atom `a` is its initial value plus the number of successful `swap! inc` responses on `a`
    summed over all threads, plus the swap!s that have installed but not yet returned -/
theorem no_lost_update {progs vals s} (hr : Reachable progs vals s)
    (hall : ∀ ops ∈ progs, ∀ op ∈ ops, isInc op) (a : Nat) :
    (s.atoms a).val = vals a +
      sumTo progs.length (fun t => okOn a (s.threads t).out + installedOn a (s.threads t).stack) :=
  Proofs.ConcAtom.no_lost_update hr hall a

/-- … once all threads are done: n successful `swap! inc` ⇒ final value = initial value + n -/
theorem no_lost_update_quiescent {progs vals s} (hr : Reachable progs vals s)
    (hall : ∀ ops ∈ progs, ∀ op ∈ ops, isInc op) (hq : ∀ t, (s.threads t).stack = []) (a : Nat) :
    (s.atoms a).val = vals a + sumTo progs.length (fun t => okOn a (s.threads t).out) :=
  Proofs.ConcAtom.no_lost_update_quiescent hr hall hq a

/-- the checker the `conc` engine runs on every recorded history is sound: an accepted history is
    linearizable w.r.t. the sequential atom (Spec/ConcObj.lean) with the observed final values -/
theorem linCheck_sound (loose : Bool) (finals init : List Int) (h : List (Spec.Lin.HOp Spec.ConcObj.AtomOp))
    (hc : Spec.Lin.linCheck Spec.ConcObj.atomObj (Spec.ConcObj.atomFinal loose finals) init h = true) :
    Spec.Lin.Linearizable Spec.ConcObj.atomObj (Spec.ConcObj.atomFinal loose finals) init h :=
  Proofs.LinSound.linCheck_sound _ _ _ _ hc

/-- an update function that failed leaves the atom unchanged: from the failure to the return of the
    swap! the thread changes no `Val` and no `version` (and holds no lock: `swap_progress`) -/
theorem failed_update_leaves_atom {progs vals s} (hr : Reachable progs vals s) {s' : State} {t : Nat}
    {fr : Frame} {rest : List Frame} (hst : (s.threads t).stack = fr :: rest) (hf : fr.failed = true)
    (hs : step prog s t = some s') (a : Nat) :
    (s'.atoms a).val = (s.atoms a).val ∧ (s'.atoms a).ver = (s.atoms a).ver :=
  Proofs.ConcAtom.failed_update_leaves_atom (Proofs.ConcAtom.lock_discipline hr) hst hf hs a

/-- every access to `Val` / `version` is made under the atom's lock (writes under the write lock) -/
theorem atom_accesses_guarded {progs vals s} (hr : Reachable progs vals s) {t a : Nat} {l : Loc} {w : Bool}
    (hacc : nextAccess prog s t = some (a, l, w)) :
    (w = true → (s.atoms a).w = some t) ∧ (w = false → (s.atoms a).w = some t ∨ t ∈ (s.atoms a).r) :=
  (Proofs.ConcAtom.lock_discipline hr).access_guarded hacc

/-- data-race freedom: two threads are never both about to access the same location of the same atom
    with one of them writing -/
theorem atom_data_race_free {progs vals s} (hr : Reachable progs vals s) (t u : Nat) :
    raceAt prog s t u = false :=
  (Proofs.ConcAtom.lock_discipline hr).no_race t u

/-- progress: from every reachable state in which some operation is pending, some thread has an
    enabled step -/
theorem swap_progress {progs vals s} (hr : Reachable progs vals s) {t : Nat} (hp : pending s t = true) :
    ∃ u, enabled prog s u = true :=
  (Proofs.ConcAtom.lock_discipline hr).progress hp

/-- no lock is held across the update function: a swap! frame at its `callback` (about to run, or
    running, its function — which may deref the same atom or swap another one) holds no lock, so the
    nested operation never waits for a lock its own thread holds -/
theorem no_lock_across_callback {progs vals s} (hr : Reachable progs vals s) {t : Nat} {fr : Frame}
    (hfr : fr ∈ (s.threads t).stack) (hcb : (prog fr.op.name)[fr.pc]? = some .callback)
    (hnr : fr.returning = false) : holdsW fr = false ∧ holdsR fr = false :=
  ((Proofs.ConcAtom.lock_discipline hr).callback_holds_nothing hfr hcb hnr 0).2

/-- non-vacuity: under the fixed program `(swap! a (fn [x] (+ x @a)))` on a = 5 runs to completion
    (19 steps) and installs and returns 10 -/
theorem fixed_self_deref_completes :
    ((run prog (List.replicate 19 0) (init [[.swap 0 (.addDeref 0)]] (fun _ => 5))).map fun s =>
      ((s.threads 0).out.map (·.2), (s.atoms 0).val, pending s 0)) = some ([some 10], 10, false) := by
  decide

/-- non-vacuity: the interleaving that deadlocks the baseline crossed swap does not block the fixed one -/
theorem fixed_cross_swap_not_deadlocked :
    reachesDeadlock prog [0, 0, 0, 0, 0, 1, 1, 1, 1, 1] Proofs.ConcBaseline.crossSwap 2 0 = false := by
  decide

/-! ### the programs of the source as it stands (baseline): counterexamples by evaluation -/

/-- D13 (baseline): one thread, `(swap! a (fn [x] (+ x @a)))`: after five steps the operation is
    pending and the thread has no enabled step (it waits for a read lock on the atom it write-locked) -/
theorem baseline_self_deref_deadlock :
    ∃ s, run progBaseline [0, 0, 0, 0, 0] Proofs.ConcBaseline.selfDeref = some s ∧
         deadlocked progBaseline s 1 0 = true :=
  Proofs.ConcBaseline.baseline_self_deref_deadlock

/-- D13 (baseline): two threads swapping a and b crosswise from inside their update functions -/
theorem baseline_cross_swap_deadlock :
    reachesDeadlock progBaseline [0, 0, 0, 0, 0, 1, 1, 1, 1, 1] Proofs.ConcBaseline.crossSwap 2 0 = true
    ∧ reachesDeadlock progBaseline [0, 0, 0, 0, 0, 1, 1, 1, 1, 1] Proofs.ConcBaseline.crossSwap 2 1 = true :=
  Proofs.ConcBaseline.baseline_cross_swap_deadlock

/-- D14 (baseline): `LispPrint`'s unguarded read of `Val` races with the write of a `swap!` -/
theorem baseline_print_races :
    reachesRace progBaseline [0, 0, 0, 0, 0, 1] Proofs.ConcBaseline.printVsSwap 0 1 = true :=
  Proofs.ConcBaseline.baseline_print_races

end LispModel.Props.C09

/-
  C11 — Concurrent evaluations on one environment are race-free and isolated.

  Theorems about the micro-op model of env/env.go (ConcEnv.lean; programs tied to the source by
  Tie/EnvSync.lean): scopes with a per-scope RWMutex; an evaluation = a thread issuing an adaptive
  sequence of env operations (`strats[t]` maps the results obtained so far to the next operation).
  `Reachable strats vals s`: `s` is reached by some schedule from the state in which only the root scope
  exists (holding `vals`: the preloaded libraries) — any number of threads, any interleaving.

  "Published": in this model a scope created by thread t has the identity `some (t, i)`; another
  evaluation can reach it only by naming that identity as the target of an operation — in the
  interpreter: by calling a closure (or deref-ing a future / atom) that somebody stored in a global or
  an atom.  `AllConfined strats` says that no evaluation does so (the property's premise: programs use
  names of their own).  `env_data_race_free`, `global_set_atomic` and the lock discipline hold WITHOUT
  that premise (published scopes and futures included); `fresh_scopes_private` and `noninterference`
  are the unpublished case.
  Residual assumptions (stated, not proved): as C09 — sequential consistency of the micro-op interleaving
  for data-race-free executions stands in for the Go memory model; fairness of sync.RWMutex.  Values and
  keys are naturals.  `Env.Symbols` is covered by the static lockset facts only; `Env.Update` is
  modelled on a scope without outer.  Proofs: Proofs/ConcEnv*.lean.
-/
import LispModel.ConcEnv
import LispModel.Proofs.ConcEnvNonint
import LispModel.Proofs.ConcEnvGlobals
namespace LispModel.Props.C11
open LispModel.ConcEnv Proofs.ConcEnv

/-- lock discipline of every scope: the locks a frame holds (its deferred unlocks, plus the lock just taken)
    never exceed what the mutex says; a writer excludes all readers -/
theorem scope_lock_discipline {strats vals s} (hr : Reachable strats vals s) : LockInv s :=
  lock_discipline hr

/-- no data race on any scope's map: every access is made under that scope's lock (writes under the
    write lock) — the bind writes of scope creation go to the map of the scope under construction, which
    lives in the creating frame until the constructor returns — so two threads are never both about to
    access the map of one scope with one of them writing -/
theorem env_data_race_free {strats vals s} (hr : Reachable strats vals s) :
    (∀ t sc w, nextDataAccess s t = some (sc, w) →
      (w = true → (s.scopes sc).w = some t) ∧
      (w = false → (s.scopes sc).w = some t ∨ t ∈ (s.scopes sc).r)) ∧
    (∀ t u sc w x, t ≠ u → nextDataAccess s t = some (sc, w) → nextDataAccess s u = some (sc, x) →
      w = false ∧ x = false) := by
  have h := lock_discipline hr
  refine ⟨fun t sc w hacc => h.access_guarded hacc, ?_⟩
  intro t u sc w x htu ht hu
  cases w <;> cases x
  · exact ⟨rfl, rfl⟩
  · exact (h.no_race htu ht hu (Or.inr rfl)).elim
  · exact (h.no_race htu ht hu (Or.inl rfl)).elim
  · exact (h.no_race htu ht hu (Or.inl rfl)).elim

/-- a global definition is seen entirely or not at all: what the root holds under a key and what any
    operation returned is an initial value or exactly the value of some executed write; the map write
    happens with the write lock held, no reader inside and nobody else about to touch that map -/
theorem global_set_atomic {strats vals s} (hr : Reachable strats vals s) :
    (∀ k v, (s.scopes none).data k = some v → vals k = some v ∨ (none, k, v) ∈ s.writes) ∧
    (∀ t v, ERes.val v ∈ (s.threads t).results → Known vals s v) ∧
    (∀ t sc, nextDataAccess s t = some (sc, true) →
      (s.scopes sc).w = some t ∧ (s.scopes sc).r = [] ∧
      ∀ u x, u ≠ t → nextDataAccess s u ≠ some (sc, x)) :=
  Proofs.ConcEnv.global_set_atomic hr

/-- local scopes are private: when no evaluation names a scope of another one (nothing is published),
    the frames of thread `u` only ever lock, read or write the root and scopes created by `u` -/
theorem fresh_scopes_private {strats vals s} (hc : AllConfined strats) (hr : Reachable strats vals s)
    {u : Nat} {fr : EFrame} (hfr : (s.threads u).cur = some fr) :
    Own u fr.cur ∧ (∀ d ∈ fr.defers, Own u d.2) ∧
    (∀ t i w, nextDataAccess s u = some (some (t, i), w) → t = u) :=
  Proofs.ConcEnv.fresh_scopes_private hc hr hfr

/-- each evaluation that only reads shared globals nobody writes and writes names of its own returns
    exactly what it returns when run alone: if all keys thread `t` uses lie in `K` and no other thread
    writes a key of `K` in the root, then for every interleaving the solo system (only `t`) can perform
    `t`'s steps and reaches the same local state of `t`, in particular the same sequence of results -/
theorem noninterference {K : Nat → Bool} {t : Nat} {strats : List (List ERes → Option EOp)}
    {vals : Nat → Option Nat} (hc : AllConfined strats)
    (hk : KeysIn K (strats.getD t (fun _ => none)))
    (ho : ∀ u, u ≠ t → AvoidsWrites K (strats.getD u (fun _ => none)))
    {sched : List Nat} {S : EState} (hr : run sched (init strats vals) = some S) :
    ∃ Q, run (sched.filter (· == t)) (soloInit (strats.getD t (fun _ => none)) t vals) = some Q ∧
      Q.threads t = S.threads t ∧ (Q.threads t).results = (S.threads t).results :=
  Proofs.ConcEnv.noninterference hc hk ho hr

/-- without a Stepper installed the interpreter's package-level variables (`skip`, `outing1`, `outing2`)
    are never written, whatever the evaluations do: every assignment site sits under `Stepper != nil` or
    under a flag only set there (regenerated fact `globalAssignments`, Tie.EnvSync.global_assignments_guarded) -/
theorem stepper_globals_untouched_without_stepper (sites : List (String × List String))
    (hs : ∀ a ∈ sites, a.2.any isStepperGuard = true) (G : Globals)
    (h0 : G.stepper = false) (h1 : G.outing1 = false) (h2 : G.outing2 = false)
    (visits : List ((String × List String) × Bool × (String → Bool))) (hv : ∀ x ∈ visits, x.1 ∈ sites) :
    visits.foldl (fun G x => fire G x.1 x.2.1 x.2.2) G = G :=
  globals_untouched sites hs G h0 h1 h2 visits hv

/-! ### non-vacuity: a concrete run of the model -/

def exampleStrat0 : List ERes → Option EOp := fun h => match h.length with
  | 0 => some (.set none 1 5) | 1 => some (.get none 1) | _ => none
def exampleStrat1 : List ERes → Option EOp := fun h => match h.length with
  | 0 => some (.newScope none [(2, 7)]) | 1 => some (.get (some (1, 0)) 2) | 2 => some (.get (some (1, 0)) 1)
  | 3 => some (.get (some (1, 0)) 9) | _ => none

/-- thread 0 defines global 1 := 5 and reads it; thread 1 creates a scope binding 2 := 7, finds 7 there,
    finds the global 5 by climbing to the root, and does not find key 9 anywhere -/
theorem model_runs_example :
    ((run (List.replicate 13 0 ++ List.replicate 36 1) (init [exampleStrat0, exampleStrat1] (fun _ => none))).map
      fun s => ((s.threads 0).results, (s.threads 1).results)) =
    some ([.val 5, .val 5], [.scope (some (1, 0)), .val 7, .val 5, .none]) := by decide

end LispModel.Props.C11

/-
  C20 — Reflectively bound Go functions are called only within their declared contract.

  Property theorems only (proofs in Proofs/Call.lean).  `register` / `invoke` are the Lean mirror of
  `call.call` and of the closure `extCall` it binds (LispModel/Call.lean, tied to lib/call/call.go by the
  `call` correspondence engine on every run); `Admissible`, `ValidDecl`, `specName`, `expect` are the
  contract (LispModel/Spec/CallContract.lean).

  History: before the repairs 2f9941a and e281c62 the contract failed in two classes (a context parameter
  with bounds that do not count it; `CallOverrideFN` with a named function of a dot-less package).  The
  code as it was, the two counterexamples and the proofs that the statements below were false for it stay
  machine-checked in Proofs/CallBaseline.lean (`LispModel.Baseline`); engine `call` replays the former
  witnesses from corpus/call.txt first on every run.
-/
import LispModel.Call
import LispModel.Spec.CallContract
import LispModel.Proofs.Call
namespace LispModel.Props.C20
open LispModel LispModel.Call LispModel.CallSpec

/-! ### invoked if and only if the call is within the contract -/

/-- for every valid registration, the Go function is entered iff the argument count lies within the
    declared — else signature-derived — bounds (in lisp arguments) and every argument is assignable -/
theorem binder_contract (ov : Option (List Char)) (rt : List Char) (σ : Sig) (decl : List Int) (reg : Reg)
    (as : List Val) (f : Callee) (hreg : register ov rt σ decl = .ok reg) (hv : ValidDecl σ decl) :
    (invoke reg as f).isEntered = true ↔ Admissible σ decl as :=
  Proofs.Call.binder_contract hreg hv as f

/-- otherwise the caller gets a lisp error (never the callee's own error) about the count or the type, as
    the contract names it -/
theorem rejected_with_count_or_type_error (ov : Option (List Char)) (rt : List Char) (σ : Sig)
    (decl : List Int) (reg : Reg) (as : List Val) (f : Callee) (hreg : register ov rt σ decl = .ok reg)
    (hv : ValidDecl σ decl) :
    (expect σ decl as = .countError → ∃ e, invoke reg as f = .rejectedCount e ∧ ∀ g, e ≠ .raw g) ∧
    (expect σ decl as = .typeError → ∃ e, invoke reg as f = .rejectedType e ∧ ∀ g, e ≠ .raw g) :=
  Proofs.Call.error_class hreg hv as f

/-- `func(ctx context.Context, v ...types.MalType) (types.MalType, error)` -/
def ctxVariadic : Sig := { ctx := true, fixed := [], variadic := some .iface, results := 2 }

def anyCallee : Callee := fun _ => .ret .nil none

/-! ### with exactly the lisp arguments given -/

/-- when the Go function is entered it sees exactly the caller's arguments (nil stays nil: the zero
    interface value), and the caller's context in front iff its first parameter is a context -/
theorem args_passed_verbatim (reg : Reg) (as : List Val) (f : Callee) (c : Bool) (seen : List Val) (r : Val)
    (e : Option Err) (h : invoke reg as f = .entered c seen r e) : seen = as ∧ c = reg.sig.ctx :=
  Proofs.Call.args_passed_verbatim h

/-! ### results are mapped by convention -/

/-- no result ↦ nil; an error result ↦ nil or that error; value plus error ↦ the value, or that error -/
theorem result_mapping (reg : Reg) (as : List Val) (f : Callee) (v : Val) (err : Option GoErr)
    (h : (invoke reg as f).isEntered = true) (hf : f as = .ret v err) :
    (reg.sig.results = 0 → invoke reg as f = .entered reg.sig.ctx as .nil none) ∧
    (reg.sig.results = 1 → invoke reg as f = .entered reg.sig.ctx as .nil (err.map .raw)) ∧
    (reg.sig.results = 2 → invoke reg as f = .entered reg.sig.ctx as v (err.map .raw)) :=
  Proofs.Call.result_mapping h hf

/-- a panic inside the callee does not escape (`invoke` returns): it becomes an error value, a lisp error
    that still wraps the original — along the `Unwrap` chain for an `error`, as the error value otherwise -/
theorem panic_becomes_wrapping_error (reg : Reg) (as : List Val) (f : Callee)
    (h : (invoke reg as f).isEntered = true) :
    (∀ e, f as = .panicErr e →
      ∃ er, invoke reg as f = .entered reg.sig.ctx as .nil (some er) ∧ er.wrapsErr e = true ∧ ∀ g, er ≠ .raw g) ∧
    (∀ v, f as = .panicVal v → invoke reg as f = .entered reg.sig.ctx as .nil (some (.lispError v))) :=
  Proofs.Call.panic_becomes_wrapping_error h

/-! ### registered under its hyphenated lower-case name -/

/-- whenever the registration succeeds the symbol bound is the lower-cased identifier with `_` ↦ `-`, or the
    override — whatever the import path and the enclosing functions look like -/
theorem name_derivation (ov : Option (List Char)) (g : GoName) (σ : Sig) (decl : List Int) (reg : Reg)
    (hg : g.WellFormed) (hreg : register ov g.runtime σ decl = .ok reg) :
    reg.names.functionName = specName ov g :=
  Proofs.Call.name_derivation hg hreg

/-- a valid declaration never panics at registration: both entry points, named functions and closures,
    import paths with or without a dot -/
theorem registration_total (ov : Option (List Char)) (g : GoName) (σ : Sig) (decl : List Int)
    (hg : g.WellFormed) (hv : ValidDecl σ decl) : ∃ reg, register ov g.runtime σ decl = .ok reg :=
  Proofs.Call.registration_total hg hv

/-! ### non-vacuity -/

/-- `func(ctx context.Context, a int, b ...string) error`, registered by `Call` from `github.com/x/Pkg`
    as `Do_It`: named `do-it`; `(do-it 1 "s")` enters with the context and exactly these arguments … -/
example :
    (match register none "github.com/x/Pkg.Do_It".toList
        { ctx := true, fixed := [.typed "int"], variadic := some (.typed "string"), results := 1 } [] with
     | .ok reg =>
       reg.names.functionName == "do-it".toList &&
       (match invoke reg [.int 1, .str "s"] (fun _ => .ret .nil (some "boom")) with
        | .entered true [.int 1, .str "s"] .nil (some (.raw "boom")) => true
        | _ => false) &&
       -- … nil is not assignable to `int`: a type error; no argument at all: a count error
       (match invoke reg [.nil] anyCallee with | .rejectedType _ => true | _ => false) &&
       (match invoke reg [] anyCallee with | .rejectedCount _ => true | _ => false)
     | .error _ => false) = true := by decide

/-- the former witnesses now behave as the contract says: declared 2…3 on `func(ctx, ...MalType)` refuses
    one argument and admits three; `CallOverrideFN(ns, "x", main.F)` registers under `x` -/
example :
    (match register none ['p', '.', 'f'] ctxVariadic [2, 3] with
     | .ok reg =>
       !(invoke reg [.int 1] anyCallee).isEntered && !admissibleB ctxVariadic [2, 3] [.int 1] &&
       (invoke reg [.int 1, .int 2, .int 3] anyCallee).isEntered && admissibleB ctxVariadic [2, 3] [.int 1, .int 2, .int 3]
     | .error _ => false) = true := by decide
example :
    (match register (some ['x']) ['m', 'a', 'i', 'n', '.', 'F'] { ctx := false, fixed := [], variadic := none, results := 0 } [] with
     | .ok reg => reg.names.functionName == ['x'] && reg.names.packageName == ['m', 'a', 'i', 'n']
     | .error _ => false) = true := by decide

/-- the hypotheses are satisfiable: a valid declaration with an admissible call -/
example : ValidDecl ctxVariadic [2, 5] ∧ Admissible ctxVariadic [2, 5] [.nil, .int 1, .str "a"] := by
  exact ⟨by decide, by decide⟩

/-- invalid declarations panic at registration (by design): bounds on a non-variadic function, max < min -/
example : register none ['p', '.', 'f'] { ctx := false, fixed := [.iface], variadic := none, results := 2 } [1]
    = .error .notVariadicMin := by decide
example : register none ['p', '.', 'f'] ctxVariadic [3, 2] = .error .maxBelowMin := by decide

end LispModel.Props.C20

/-
  C19 — property theorems.  Helper lemmas live in Proofs/EvalErase.lean and Proofs/Layout.lean.

  "A program means the same however it is delivered.  The result and effects of a program do not depend
  on how it reaches the evaluator: as text through READ with or without a module name, as the same AST
  built from Go without any source positions (L-notation), as the AST re-read from its own printed form,
  as forms fed one by one to REPL, wrapped in a single do, or loaded with load-file from a file, whatever
  comments, blank lines, line endings or trailing comment without final newline the text contains."

  Vocabulary: `erasePos` / `eraseSt` / `eraseR` — all cursors ↦ none in a value (recursively, including
  closures' parameters and bodies) / everywhere in a state / in a result (value, error payload, error
  position, state); `ValEq`, `StEq`, `REq` — "equal after erasing cursors" (for error results: payloads
  equal up to cursors, positions not compared); `mapPos g`, `PosMap g` — apply `g` to every cursor /
  `g` keeps "no cursor" and commutes with "first position wins"; `Gap` — white space and whole
  comments; `feed`, `lastCh` — scanner bookkeeping and look-ahead after reading some runes;
  `tick`, `NotMacro`, `continueWith` — the standard side conditions of evaluator laws.
-/
import LispModel.Proofs.LNotLaws
import LispModel.Proofs.EvalErase
import LispModel.Proofs.Layout
import LispModel.Proofs.Positions
import LispModel.Proofs.LayoutFull
import LispModel.Util
namespace LispModel.Props.C19
open LispModel LispModel.Scan
open LispModel.Proofs.EvalErase LispModel.Proofs.Layout

/-! ### the evaluator never looks at a cursor -/

/-- evaluating the cursor-free program on the cursor-free state gives the cursor-free result: same value,
    same error payload, same store, same effects, same ticks -/
theorem eval_of_erased (F : Nat) (st : State) (env : Nat) (ast : Val) (d : Nat) :
    eval F (eraseSt st) env (erasePos ast) d = eraseR (eval F st env ast d) :=
  eval_erase F st env ast d

/-- **`eval_ignores_positions`**: programs and states that differ only in cursors (text read with or
    without a module name, the AST built without positions, the AST re-read from its printed form)
    evaluate to results that differ only in cursors — the whole block, `try` and debugger included -/
theorem eval_ignores_positions (F : Nat) {st st' : State} (env : Nat) {ast ast' : Val} (d : Nat)
    (hs : StEq st st') (ha : ValEq ast ast') : REq (eval F st env ast d) (eval F st' env ast' d) :=
  Proofs.EvalErase.eval_ignores_positions F env d hs ha

theorem evalLoop_ignores_positions (F : Nat) {st st' : State} (env : Nat) {ast ast' : Val} (d : Nat)
    (hs : StEq st st') (ha : ValEq ast ast') : REq (evalLoop F st env ast d) (evalLoop F st' env ast' d) :=
  Proofs.EvalErase.evalLoop_ignores_positions F env d hs ha

theorem apply_ignores_positions (F : Nat) {st st' : State} {f f' : Val} {args args' : List Val} (d : Nat)
    (hs : StEq st st') (hf : ValEq f f')
    (hargs : mapPosList (fun _ => none) args = mapPosList (fun _ => none) args') :
    REq (apply F st f args d) (apply F st' f' args' d) :=
  Proofs.EvalErase.apply_ignores_positions F d hs hf hargs

/-- all 13 functions of the evaluator block commute with every cursor map `g` that keeps "no cursor" and
    respects "first position wins" (erasure, any relabelling) -/
theorem evaluator_block_commutes_with_cursor_maps {g : Option Pos → Option Pos} (hg : PosMap g) (F : Nat) :
    Comm g F :=
  comm hg F

/-- what "differ only in cursors" means for results: same kind of outcome; values / error payloads equal up
    to cursors (the positions of the two errors are not compared — the only place cursors flow to); states
    equal up to cursors, with the same ticks, marks, poll oracle, number of scopes and trace -/
theorem REq_spelled_out {r r' : R} (h : REq r r') :
    ((∃ v v', r.1 = .ok v ∧ r'.1 = .ok v') ∨ (∃ e e', r.1 = .err e ∧ r'.1 = .err e') ∨
      (r.1 = .oof ∧ r'.1 = .oof)) ∧ StEq r.2 r'.2 :=
  ⟨REq_kind h, (Prod.mk.inj h).2⟩

theorem REq_values {v v' : Val} {s s' : State} (h : REq (.ok v, s) (.ok v', s')) : ValEq v v' ∧ StEq s s' :=
  REq_ok h

theorem REq_error_payloads {pl pl' : Val} {q q' : Option Pos} {s s' : State}
    (h : REq (.err (.lisp pl q), s) (.err (.lisp pl' q'), s')) : ValEq pl pl' ∧ StEq s s' :=
  REq_err h

theorem StEq_effects {s s' : State} (h : StEq s s') :
    s.ticks = s'.ticks ∧ s.marks = s'.marks ∧ s.cancelAt = s'.cancelAt ∧ s.scopes.size = s'.scopes.size ∧
    mapPosList (fun _ => none) s.trace = mapPosList (fun _ => none) s'.trace :=
  StEq_same h

/-- the pure builtins never inspect a cursor: `=` and the printer ignore them -/
theorem equality_ignores_positions {g : Option Pos → Option Pos} (a b : Val) :
    equalQ (mapPos g a) (mapPos g b) = equalQ a b :=
  equalQ_map a b

theorem printer_ignores_positions {g : Option Pos → Option Pos} (readably : Bool) (v : Val) :
    Print.prStr readably (mapPos g v) = Print.prStr readably v :=
  prStr_map readably v

theorem builtins_ignore_positions {g : Option Pos → Option Pos} (hg : PosMap g) (name : String)
    (args : List Val) :
    Core.call name (mapPosList g args) = (Core.call name args).map (mapBRes g) :=
  call_map hg name args

/-- **text through READ with or without a module name**: the reader fails with the same error or returns
    ASTs that differ only in cursors (`ExEq ValEq`: both `.error e` with the same `e`, or both `.ok` with
    `ValEq` values) … -/
theorem read_with_or_without_module_name (cfg cfg' : Read.Cfg) (hphs : cfg.phs = cfg'.phs)
    (henv : cfg.hasEnv = cfg'.hasEnv) (bytes : List UInt8) :
    Proofs.Positions.ExEq ValEq (Read.readStr cfg bytes) (Read.readStr cfg' bytes) :=
  Proofs.Positions.readStr_module_irrelevant cfg cfg' hphs henv bytes

/-- … hence evaluate to results that differ only in cursors -/
theorem delivery_with_or_without_module_name (cfg cfg' : Read.Cfg) (hphs : cfg.phs = cfg'.phs)
    (henv : cfg.hasEnv = cfg'.hasEnv) {bytes : List UInt8} {v v' : Val}
    (h : Read.readStr cfg bytes = .ok v) (h' : Read.readStr cfg' bytes = .ok v')
    (F : Nat) (st : State) (env d : Nat) : REq (eval F st env v d) (eval F st env v' d) :=
  Proofs.Positions.eval_read_module_irrelevant cfg cfg' hphs henv h h' F st env d

/-- non-vacuity: the text read under a module name, and the same program read without one from a text
    with a comment and a blank line, differ only in cursors — and both equal the AST built without
    positions.  (Kernel evaluation of the evaluator block itself is infeasible — it is compiled by
    well-founded recursion — so there is no `decide`-checked evaluation example.) -/
example : (match Read.readStr { module := some "m" } (bytes% "(+ 1\n x)"),
      Read.readStr {} (bytes% "(+ 1 ; c\n\n x)") with
    | .ok v, .ok w => ValEq v w ∧ erasePos v = .list [.sym "+" none, .int 1, .sym "x" none] none
    | _, _ => False) := ⟨rfl, rfl⟩

/-! ### `do` creates no scope -/

/-- the forms of `(do f₁ … fₙ)` are evaluated in the SAME scope `env`, on the same store, left to right —
    `evalList` is the sequence `EVAL(fᵢ, env)` threading the state — and the loop continues with `fₙ`,
    again in `env` (`continueWith` = the next iteration of the loop, a fresh `EVAL` under the debugger):
    no scope is created, so feeding the forms one by one to the evaluator in `env` performs the same
    evaluations on the same store (modulo the one poll `tick` of the `do` form itself) -/
theorem do_creates_no_scope {F : Nat} {st : State} {env d : Nat} {q p : Option Pos} {forms : List Val}
    (hs : st.stepper = none) (hc : st.cancelAt = none) (hnm : NotMacro st env "do") (hne : forms ≠ []) :
    evalLoop (F+2) st env (.list (.sym "do" q :: forms) p) d =
      match evalList F (tick st) env forms.dropLast d with
      | (.ok _, s2) => continueWith (F+1) s2 env (forms.getLast?.getD .nil) d
      | (.err e, s2) => (.err e, s2)
      | (.oof, s2) => (.oof, s2) :=
  Proofs.EvalErase.do_creates_no_scope hs hc hnm hne

/-! ### layout: white space and comments between tokens -/

/-- `skipWhite` skips any run of white space (tab, newline, carriage return, space) -/
theorem skipWhite_skips_any_run (ws rest : List Rune) (ch : Int) (p : PState)
    (hch : isWhite ch = true) (hws : ∀ r ∈ ws, White r) :
    skipWhite (ws ++ rest) ch p = skipWhite rest (lastCh ch ws) (feed ws p) :=
  skipWhite_run ws rest ch p hch hws

/-- a comment is consumed up to the newline (which becomes the look-ahead) and never beyond -/
theorem comment_consumed_up_to_newline (body rest : List Rune) (nl : Rune) (ch : Int) (p : PState)
    (h1 : ch ≠ 10) (h2 : ch ≥ 0) (hb : ∀ r ∈ body, NoNl r) (hnl : nl.ch = 10) :
    commentLoop (body ++ nl :: rest) ch p = (10, rest, feed (body ++ [nl]) p) :=
  commentLoop_to_newline body rest nl ch p h1 h2 hb hnl

/-- a comment at the very end of the input, without final newline, yields EOF -/
theorem trailing_comment_without_newline_is_eof (n : Nat) (s : Rune) (body : List Rune) (ch : Int) (p : PState)
    (hch : isWhite ch = true) (hs : s.ch = 59) (hb : ∀ r ∈ body, NoNl r) :
    (scan (n+1) (s :: body) ch p).1 = none :=
  scan_trailing_comment_eof n s body ch p hch hs hb

/-- the full statement: replacing the gap between two tokens by any other gap (white space, complete
    comments) changes neither the kinds nor the texts of the tokens -/
def tokens_layout_invariant_statement : Prop :=
  ∀ (pre g g' post : List Rune), Gap g → Gap g' → g ≠ [] → g' ≠ [] →
    ∀ toks toks', tokenizeRunes (pre ++ g ++ post) = .ok toks → tokenizeRunes (pre ++ g' ++ post) = .ok toks' →
      toks.map (fun t => (t.kind, t.text)) = toks'.map (fun t => (t.kind, t.text))

/-- proved part: `Scan` started in front of a gap (the look-ahead is its first rune, a white-space rune)
    is `Scan` started behind it — the same look-ahead class, the same unread runes `post`, hence the same
    next token and everything after it; the gap survives only in the bookkeeping `feed g p` (line, column,
    offset), which does not enter kinds or texts.
    Missing for the full statement: that scanning `pre` is not affected by what follows a cleanly ended
    token, and that kinds/texts of later tokens do not depend on the bookkeeping. -/
theorem tokens_layout_invariant_partial {g : List Rune} (hg : Gap g) :
    ∃ k, k ≤ g.length ∧ ∀ f post ch p, isWhite ch = true →
      isWhite (lastCh ch g) = true ∧
      scan (f + 1 + k) (g ++ post) ch p = scan (f + 1) post (lastCh ch g) (feed g p) :=
  scan_gap hg

/-- two gaps in front of the same text: both scans continue from the same unread runes -/
theorem tokens_layout_invariant_two_gaps {g g' : List Rune} (hg : Gap g) (hg' : Gap g') :
    ∃ k k', ∀ f post ch p, isWhite ch = true →
      scan (f + 1 + k) (g ++ post) ch p = scan (f + 1) post (lastCh ch g) (feed g p) ∧
      scan (f + 1 + k') (g' ++ post) ch p = scan (f + 1) post (lastCh ch g') (feed g' p) :=
  let ⟨k, _, h⟩ := scan_gap hg
  let ⟨k', _, h'⟩ := scan_gap hg'
  ⟨k, k', fun f post ch p hch => ⟨(h f post ch p hch).2, (h' f post ch p hch).2⟩⟩

/-- non-vacuity: comments, blank lines, CRLF line endings and a trailing comment without final newline do
    not change the tokens -/
example : (match tokenize (bytes% "(def a 1) ; one\r\n\n  (f a);end") with
     | .ok ts => some (ts.map (fun (t : Token) => (t.kind, t.text))) | .error _ _ => none) =
    (match tokenize (bytes% "(def a 1) (f a)") with
     | .ok ts => some (ts.map (fun (t : Token) => (t.kind, t.text))) | .error _ _ => none) ∧
    (match tokenize (bytes% "(def a 1) (f a)") with | .ok ts => ts.length | .error _ _ => 0) = 9 := by decide

/-! ### layout: the full statements (Proofs/LayoutFull.lean)

  `Steps s ts s'`: the token loop of `reader.tokenize` goes from scanner state `s` to `s'` recording the tokens
  `ts` (none with an error); `start runes`: the state after `Peek` (first rune read, BOM skipped);
  `hdCh x` / `x.tail`: look-ahead and unread runes right after the first rune of `x` has been read.
  So `Steps (start (pre ++ x)) ts fin` with `fin.1 = hdCh x`, `fin.2.1 = x.tail` says: **`pre` ends where a
  token ends** (or is empty) — the point between `pre` and `x` is a point between two tokens, before the
  first or after the last token. -/

open LispModel.Proofs.LayoutFull

/-- `tokens_layout_invariant_statement` above quantifies over every split `pre ++ g ++ post` and is false as it
    stands: white space INSIDE a string literal is part of the token (`"a "` vs `"a  "`). -/
theorem tokens_layout_invariant_statement_is_false : ¬ tokens_layout_invariant_statement := by
  intro h
  obtain ⟨pre, g, g', post, hg, hg', hne, hne', toks, toks', hA, hB, hneq⟩ := gap_inside_string_counterexample
  exact hneq (h pre g g' post hg hg' hne hne' toks toks' hA hB)

/-- kinds and texts do not depend on the position bookkeeping: two `Scan`s from states that differ only in
    `line` / `column` / `lastLineLen` / `lastCharLen` / `offset` yield the same token (kind and text), the same
    look-ahead and unread runes, and the same error count (a relational induction over every scanning
    function, `scanNumber` included) -/
theorem kinds_texts_independent_of_bookkeeping (f : Nat) (rest : List Rune) (ch : Int) (p q : PState)
    (he : p.errs = q.errs) :
    (scan f rest ch p).1 = (scan f rest ch q).1 ∧ (scan f rest ch p).2.1 = (scan f rest ch q).2.1 ∧
    (scan f rest ch p).2.2.1 = (scan f rest ch q).2.2.1 ∧
    (scan f rest ch p).2.2.2.errs = (scan f rest ch q).2.2.2.errs :=
  scan_bookkeeping_independent f rest ch p q he

/-- **`tokens_layout_invariant`, the full statement**: in a text `pre ++ g ++ post` where `g` is a gap (white
    space and complete comments; possibly empty) standing at a point between two tokens, before the first or
    after the last token, replacing `g` by any non-empty gap `g'` does not change the list of (kind, text) of
    the tokens.  (`g = []`: a gap is INSERTED; the side condition on the byte-order mark only matters for
    `pre = []`: a BOM is skipped only as the very first rune of a text.) -/
theorem tokens_layout_invariant (pre g g' post : List Rune) (hg : Gap g) (hg' : Gap g') (hne' : g' ≠ [])
    (hbom : pre ≠ [] ∨ hdCh (g ++ post) ≠ 0xFEFF) {tsPre : List Token} {fin : St}
    (hpoint : Steps (start (pre ++ g ++ post)) tsPre fin) (hf1 : fin.1 = hdCh (g ++ post))
    (hf2 : fin.2.1 = (g ++ post).tail) {toks toks' : List Token}
    (h : tokenizeRunes (pre ++ g ++ post) = .ok toks) (h' : tokenizeRunes (pre ++ g' ++ post) = .ok toks') :
    toks.map (fun t => (t.kind, t.text)) = toks'.map (fun t => (t.kind, t.text)) := by
  rw [List.append_assoc] at hpoint h h'
  exact layout_kinds_texts pre g g' post hg hg' hne' hbom hpoint hf1 hf2 h h'

/-- a gap in front of the text: no hypothesis needed -/
theorem tokens_layout_invariant_before_first_token (g g' post : List Rune) (hg : Gap g) (hg' : Gap g')
    (hne : g ≠ []) (hne' : g' ≠ []) {toks toks' : List Token}
    (h : tokenizeRunes (g ++ post) = .ok toks) (h' : tokenizeRunes (g' ++ post) = .ok toks') :
    toks.map (fun t => (t.kind, t.text)) = toks'.map (fun t => (t.kind, t.text)) :=
  allRel_map _ _ (fun a b (r : TokSh (Proofs.Layout.newlines g) (Proofs.Layout.newlines g') a b) => by rw [r.1, r.2.1])
    (layout_leading_gap g g' post hg hg' hne hne' h h')

/-- inserting a gap in front of a text that does not begin with a byte-order mark -/
theorem inserting_a_gap_before_the_first_token (g' post : List Rune) (hg' : Gap g') (hne' : g' ≠ [])
    (hbom : hdCh post ≠ 0xFEFF) {toks toks' : List Token}
    (h : tokenizeRunes post = .ok toks) (h' : tokenizeRunes (g' ++ post) = .ok toks') :
    toks.map (fun t => (t.kind, t.text)) = toks'.map (fun t => (t.kind, t.text)) := by
  have H : Steps (start ([] ++ ([] ++ post))) [] (atSt post {}) := by
    rw [List.nil_append, List.nil_append, start_atSt _ hbom]; exact Steps.refl _
  exact layout_kinds_texts [] [] g' post Gap.nil hg' hne' (Or.inr hbom) H rfl rfl h h'

/-- non-vacuity of the token-boundary hypothesis: in `(a b)` the point behind `(a` is a point between two
    tokens (two steps of the token loop lead to the state whose look-ahead is the space) … -/
example : ∃ ts fin, Steps (start ([⟨40, 1, false⟩, ⟨97, 1, false⟩] ++ [⟨32, 1, false⟩] ++ [⟨98, 1, false⟩, ⟨41, 1, false⟩])) ts fin ∧
    fin.1 = hdCh ([⟨32, 1, false⟩] ++ [⟨98, 1, false⟩, ⟨41, 1, false⟩]) ∧
    fin.2.1 = ([⟨32, 1, false⟩] ++ [⟨98, 1, false⟩, ⟨41, 1, false⟩] : List Rune).tail :=
  ⟨_, _, Steps.step (s := start _) rfl rfl (Steps.step rfl rfl (Steps.refl _)), rfl, rfl⟩

/-- … and in `(ab)` the point between `(` and `ab` is one too (a gap may be inserted there), while the point
    inside `ab` is not: no state of the token loop has the look-ahead `b` -/
example : ∃ ts fin, Steps (start ([⟨40, 1, false⟩] ++ [] ++ [⟨97, 1, false⟩, ⟨98, 1, false⟩, ⟨41, 1, false⟩])) ts fin ∧
    fin.1 = hdCh ([⟨97, 1, false⟩, ⟨98, 1, false⟩, ⟨41, 1, false⟩]) ∧
    fin.2.1 = ([⟨97, 1, false⟩, ⟨98, 1, false⟩, ⟨41, 1, false⟩] : List Rune).tail :=
  ⟨_, _, Steps.step (s := start _) rfl rfl (Steps.refl _), rfl, rfl⟩

/-! ### the `load-file` wrapper `(do <src> SEP nil)` -/

/-- with `SEP = "\n"` (the repaired `header-load-file.lisp`): a trailing comment of `src` without final
    newline ends at the separator — `Scan` continues with the wrapper's own `nil)` (`tail`) -/
theorem load_file_wrapper_newline_ends_comment (f : Nat) (semi nl : Rune) (body tail : List Rune) (ch : Int)
    (p : PState) (hch : isWhite ch = true) (hs : semi.ch = 59) (hb : ∀ r ∈ body, NoNl r) (hnl : nl.ch = 10) :
    scan (f + 2) (semi :: (body ++ nl :: tail)) ch p =
      scan (f + 1) tail 10 (feed (semi :: (body ++ [nl])) p) :=
  scan_comment_line f semi nl body tail ch p hch hs hb hnl

/-- with `SEP = " "` (the unrepaired code): the trailing comment swallows the wrapper's `nil)` — whatever
    follows without a newline — and `Scan` reports EOF -/
theorem load_file_wrapper_space_is_swallowed (n : Nat) (semi : Rune) (body tail : List Rune) (ch : Int)
    (p : PState) (hch : isWhite ch = true) (hs : semi.ch = 59)
    (hb : ∀ r ∈ body ++ tail, NoNl r) :
    (scan (n+1) (semi :: (body ++ tail)) ch p).1 = none :=
  scan_trailing_comment_eof n semi (body ++ tail) ch p hch hs hb

/-- `load_file_wrapper_tokens` on a concrete `src` ending in a comment without final newline: with the
    newline separator the tokens are `(`, `do`, the tokens of `src`, `nil`, `)` -/
theorem load_file_wrapper_tokens :
    (match tokenize (bytes% "(do 1 ;c\nnil)") with
     | .ok ts => some (ts.map (·.text)) | .error _ _ => none) =
    some [[40], [100, 111], [49], [110, 105, 108], [41]] := by decide

/-- the unrepaired wrapper `"(do " ++ src ++ " nil)"` on `src = "1 ;c"`: `nil` and `)` are lost, the
    form is unbalanced -/
theorem baseline_trailing_comment_counterexample :
    (match tokenize (bytes% "(do 1 ;c nil)") with
     | .ok ts => some (ts.map (·.text)) | .error _ _ => none) = some [[40], [100, 111], [49]] ∧
    (match Read.readStr {} (bytes% "(do 1 ;c nil)") with | .error e => some e | .ok _ => none) =
      some (.eof ")") := by decide


/-! ## L-notation (lnotation/lnotation.go; model LispModel/LNot.lean, engine lnot) -/

open LispModel.LNot LispModel.Proofs.LNotLaws in
/-- an AST built with the L-notation constructors carries no source position anywhere -/
theorem lnotation_ast_has_no_positions (t : LTerm) : noPos (build t) = true := build_has_no_positions t

open LispModel.LNot LispModel.Proofs.LNotLaws in
/-- **the text route and the L-notation route deliver the same AST**: for every well-formed term, READ of the term
    written as text succeeds and, positions erased, IS the AST the constructors build (same nodes, same entries) -/
theorem lnotation_text_route_same_ast (cfg : Read.Cfg) (hphs : cfg.phs = none) (t : LTerm) (h : wf t = true) :
    ∃ v, readText cfg t = .ok v ∧ stripPos v = build t := read_text_eq_build cfg hphs t h

open LispModel.LNot LispModel.Proofs.LNotLaws in
/-- positions never take part in `=` -/
theorem equality_ignores_erasing_positions (a b : Val) :
    equalQ (stripPos a) b = equalQ a b ∧ equalQ a (stripPos b) = equalQ a b ∧
    equalQ (stripPos a) (stripPos b) = equalQ a b := equalQ_ignores_positions a b

end LispModel.Props.C19

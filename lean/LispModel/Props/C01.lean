/-
  C01 — property theorems (see DESIGN.md §6 C01).  Helper lemmas live in Proofs/.
-/
import LispModel.Eval
namespace LispModel.Props.C01
open LispModel

end LispModel.Props.C01

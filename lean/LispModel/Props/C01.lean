/-
  C01 — core evaluation matches the language definition (results and effect order).

  The laws of evaluation of the evaluator model (`LispModel/Eval.lean`, the mirror of `EVAL`,
  `eval_ast`, `do`, `macroexpand`, `Apply` and the parameter binder), one theorem per clause of the
  language definition.  Each law is an equation about the loop `evalLoop` (one `EVAL` activation) on
  the corresponding form, for ALL sub-forms, stores, scopes, depths `d` and fuel `F`.

  Reading guide
  * `evalLoop (F+2) st env form d` — the loop of one `EVAL` activation on `form` in scope `env`;
    `eval (F+1) st env x (d+1)` — a recursive `EVAL` (depth + 1); `evalLoop (F+1) st' env' x d` on a
    right-hand side — the loop *continues* with `x` (tail position, same activation).
    Results other than `.oof` do not depend on the fuel (`result_independent_of_fuel`).
  * Standing side conditions (stated per law, only where needed): the debugger is off
    (`st.stepper = none`), the context is not cancelled (`st.cancelAt = none`), and the head symbol of
    the form is not bound to a macro (`NotMacro st env "if"` …): jig/lisp looks the head symbol up as a
    macro BEFORE it recognises special forms, so a user macro named `if` shadows the special form.
  * `tick st` — `st` after one poll of `ctx.Done()`: every loop iteration polls once.
  * the trace of `trace!` effects is stored most-recent-first.

  Property theorems only; the proofs are in `Proofs/EvalLaws.lean` and `Proofs/EvalBasic.lean`.
-/
import LispModel.Proofs.Coherence
import LispModel.Proofs.EnvAlgLaws
import LispModel.Eval
import LispModel.Proofs.EvalBasic
import LispModel.Proofs.EvalLaws
import LispModel.Spec.BigStep
import LispModel.Proofs.BigStepRefine
import LispModel.Proofs.EvalStoreWF
import LispModel.Proofs.SeedLaws
namespace LispModel.Props.C01
open LispModel LispModel.Core
open LispModel.Proofs.EvalBasic (TraceSuffix)

variable {F : Nat} {st : State} {env d : Nat} {pos p0 : Option Pos}

/-! ### the result does not depend on the fuel; effects are only appended -/

/-- a result (value or error, and state) obtained with some fuel is the result with any larger fuel:
    the equations below determine THE result of an evaluation -/
theorem result_independent_of_fuel {F F' : Nat} (hle : F ≤ F') {ast : Val} {r : Res Val} {s : State}
    (h : eval F st env ast d = (r, s)) (hne : r ≠ .oof) : eval F' st env ast d = (r, s) :=
  Proofs.EvalBasic.eval_fuel_le hle h hne

/-- without debugger, `EVAL` is its loop (this connects the `eval` on the right-hand sides below to the
    laws, which are stated for `evalLoop`) -/
theorem eval_is_its_loop (hs : st.stepper = none) (ast : Val) :
    eval (F+1) st env ast d = evalLoop F st env ast d :=
  Proofs.EvalLaws.eval_of_stepper_none hs

/-- the standing conditions persist: evaluation never switches the debugger on nor cancels the context -/
theorem standing_conditions_persist (F : Nat) (st : State) (env : Nat) (ast : Val) (d : Nat) :
    (st.stepper = none → (eval F st env ast d).2.stepper = none) ∧
    (eval F st env ast d).2.cancelAt = st.cancelAt :=
  ⟨(Proofs.EvalBasic.stepper_none_preserved F).eval₂ st env ast d,
   (Proofs.EvalBasic.cancelAt_preserved F).eval₂ st env ast d⟩

/-- side effects are only ever appended to the trace, never removed or reordered -/
theorem effects_only_appended (F : Nat) (st : State) (env : Nat) (ast : Val) (d : Nat) :
    ∃ new, (eval F st env ast d).2.trace = new ++ st.trace :=
  (Proofs.EvalBasic.trace_suffix F).eval₂ st env ast d

/-! ### lexical scoping with the innermost binding winning -/

/-- evaluating a symbol is a lookup (`Env.Get`) from the current scope -/
theorem eval_symbol (hc : st.cancelAt = none) (s : String) (p : Option Pos) :
    evalLoop (F+2) st env (.sym s p) d =
      match st.get env s with
      | some v => (.ok v, tick st)
      | none => (.err (.lisp (.goerr ("symbol '" ++ s ++ "' not found")) p), tick st) :=
  Proofs.EvalLaws.eval_symbol hc s p

/-- the innermost binding wins: if the current scope `env` itself binds `k`, that binding is the value,
    whatever the scopes around it bind -/
theorem eval_symbol_innermost (hc : st.cancelAt = none) {sc : Scope} {k : String} {v : Val} (p : Option Pos)
    (hsc : st.scopes[env]? = some sc) (hk : alookup k sc.data = some v) :
    evalLoop (F+2) st env (.sym k p) d = (.ok v, tick st) :=
  Proofs.EvalLaws.eval_symbol_innermost hc p hsc hk

/-- … and if it does not, the scope it is nested in (`outer`) is consulted: the symbol means what it
    means there.  (`ScopesWF`: outer links point to older scopes.) -/
theorem eval_symbol_outer (hc : st.cancelAt = none) (hwf : ScopesWF st) {sc : Scope} {k : String} {o : Nat}
    (p : Option Pos) (hsc : st.scopes[env]? = some sc) (hk : alookup k sc.data = none) (ho : sc.outer = some o) :
    evalLoop (F+2) st env (.sym k p) d = evalLoop (F+2) st o (.sym k p) d :=
  Proofs.EvalLaws.eval_symbol_outer hc hwf p hsc hk ho

/-- one step of the climb, without any assumption on the store -/
theorem lookup_climbs_to_outer {sc : Scope} {k : String} {o : Nat} (n : Nat)
    (hsc : st.scopes[env]? = some sc) (hk : alookup k sc.data = none) (ho : sc.outer = some o) :
    st.getAux (n+1) env k = st.getAux n o k :=
  Proofs.EvalLaws.getAux_outer n hsc hk ho

/-- a symbol bound nowhere on the scope chain is an error (positioned at the symbol) -/
theorem eval_unbound_symbol_errors (hc : st.cancelAt = none) {s : String} (p : Option Pos)
    (hu : st.get env s = none) :
    evalLoop (F+2) st env (.sym s p) d =
      (.err (.lisp (.goerr ("symbol '" ++ s ++ "' not found")) p), tick st) :=
  Proofs.EvalLaws.eval_unbound_symbol_errors hc p hu

/-- the root scope ends the climb -/
theorem unbound_at_root {sc : Scope} {k : String}
    (hsc : st.scopes[env]? = some sc) (hk : alookup k sc.data = none) (ho : sc.outer = none) :
    st.get env k = none :=
  Proofs.EvalLaws.get_root_unbound hsc hk ho

/-! ### def binds in the current scope and returns the value -/

/-- `(def name x)`: the operand is evaluated first (recursive `EVAL`); its value is bound to `name` in
    the CURRENT scope `env` (not in the scope where an outer binding of `name` lives) and returned; an
    error of the operand is the error of the `def`, and nothing is bound -/
theorem eval_def (hc : st.cancelAt = none) (hm : NotMacro st env "def")
    (name : String) (pn : Option Pos) (x : Val) (rest : List Val) :
    evalLoop (F+2) st env (.list (.sym "def" p0 :: .sym name pn :: x :: rest) pos) d =
      match eval (F+1) (tick st) env x (d+1) with
      | (.ok v, st') => (.ok v, st'.set env name v)
      | r => r :=
  Proofs.EvalLaws.eval_def hc hm name pn x rest

/-- what `def` did is what a lookup from that scope now finds -/
theorem def_then_lookup {sc : Scope} (hsc : st.scopes[env]? = some sc) (k : String) (v : Val) :
    (st.set env k v).get env k = some v :=
  Proofs.EvalLaws.get_set_self hsc k v

/-- a target that is not a symbol is an error — raised AFTER the operand has been evaluated (its
    effects have happened) -/
theorem eval_def_non_symbol (hc : st.cancelAt = none) (hm : NotMacro st env "def")
    (target : Val) (ht : ∀ n p, target ≠ .sym n p) (x : Val) (rest : List Val) :
    evalLoop (F+2) st env (.list (.sym "def" p0 :: target :: x :: rest) pos) d =
      match eval (F+1) (tick st) env x (d+1) with
      | (.ok _, st') => (.err (newLispError (.plain "cannot use value as identifier")
                                (.list (.sym "def" p0 :: target :: x :: rest) pos)), st')
      | r => r :=
  Proofs.EvalLaws.eval_def_non_symbol hc hm target ht x rest

/-! ### sequential let; do / let / fn bodies -/

/-- `(let (b₁ x₁ …) body…)`: a NEW scope (id `st.scopes.size`) nested in the current one receives the
    bindings (`letBinds`, next law); then the body forms are evaluated in that scope in order — all but
    the last by `evalList`, the last one in tail position — and the value is the value of the last body
    form; with no body form the loop continues on `nil` (value `nil`, law `eval_do_empty`);
    an error in a binding or body form stops everything after it -/
theorem eval_let_sequential (hc : st.cancelAt = none) (hs : st.stepper = none) (hm : NotMacro st env "let")
    (bindings : Val) (bs : List Val) (body : List Val)
    (hb : seqOf? bindings = some bs) (heven : bs.length % 2 = 0) :
    evalLoop (F+2) st env (.list (.sym "let" p0 :: bindings :: body) pos) d =
      match letBinds (F+1) ((tick st).newScope env []).1 st.scopes.size bs bindings d with
      | (.ok _, st1) =>
        (match body with
         | [] => evalLoop (F+1) st1 st.scopes.size .nil d
         | b :: bs' =>
           match evalList F st1 st.scopes.size (b :: bs').dropLast d with
           | (.ok _, st2) => evalLoop (F+1) st2 st.scopes.size ((b :: bs').getLast (by simp)) d
           | (.err e, st2) => (.err e, st2)
           | (.oof, st2) => (.oof, st2))
      | r => r :=
  Proofs.EvalLaws.eval_let hc hs hm bindings bs body hb heven

/-- the new scope of a `let` / of a call: exactly the given bindings, nested in `outer` -/
theorem new_scope_is_nested (st : State) (outer : Nat) (data : List (String × Val)) :
    (st.newScope outer data).1.scopes[(st.newScope outer data).2]? = some ⟨data, some outer⟩ :=
  Proofs.EvalLaws.newScope_scope st outer data

/-- sequential `let`: the value form of a binding is evaluated IN the `let` scope, in the state in
    which all earlier bindings of the same `let` have already been made in that scope (so they are
    visible, `def_then_lookup`); an error stops the later bindings -/
theorem let_bindings_sequential (st : State) (letEnv : Nat) (name : String) (pn : Option Pos) (x : Val)
    (rest : List Val) (a1 : Val) :
    letBinds (F+1) st letEnv (.sym name pn :: x :: rest) a1 d =
      match eval F st letEnv x (d+1) with
      | (.ok v, st') => letBinds F (st'.set letEnv name v) letEnv rest a1 d
      | r => r :=
  Proofs.EvalLaws.letBinds_cons st letEnv name pn x rest a1

theorem let_bindings_done (st : State) (letEnv : Nat) (a1 : Val) :
    letBinds (F+1) st letEnv [] a1 d = (.ok .nil, st) :=
  Proofs.EvalLaws.letBinds_nil st letEnv a1

/-- `(do x₁ … xₙ)`: every form in order — all but the last by `evalList`, whose values are dropped,
    the last one in tail position — and the value is the value of the last form; an error stops the
    later forms.  A `fn` body is `(do body…)` (law `eval_fn_captures_scope`), a `let` body behaves the
    same (law `eval_let_sequential`). -/
theorem eval_do (hc : st.cancelAt = none) (hs : st.stepper = none) (hm : NotMacro st env "do")
    (body : List Val) :
    evalLoop (F+2) st env (.list (.sym "do" p0 :: body) pos) d =
      match body with
      | [] => evalLoop (F+1) (tick st) env .nil d
      | b :: bs =>
        match evalList F (tick st) env (b :: bs).dropLast d with
        | (.ok _, st1) => evalLoop (F+1) st1 env ((b :: bs).getLast (by simp)) d
        | (.err e, st1) => (.err e, st1)
        | (.oof, st1) => (.oof, st1) :=
  Proofs.EvalLaws.eval_do hc hs hm body

/-- `(do)` is `nil` (the loop continues on the form `nil`: two polls in all) -/
theorem eval_do_empty (hc : st.cancelAt = none) (hs : st.stepper = none) (hm : NotMacro st env "do") :
    evalLoop (F+3) st env (.list [.sym "do" p0] pos) d = (.ok .nil, tick (tick st)) :=
  Proofs.EvalLaws.eval_do_empty hc hs hm

/-! ### only nil and false are falsy; only the selected branch of `if` is evaluated -/

/-- only `nil` and `false` are falsy -/
theorem only_nil_and_false_falsy (v : Val) : truthy v = false ↔ v = .nil ∨ v = .bool false :=
  Proofs.EvalLaws.truthy_eq_false_iff v

/-- condition truthy: the `if` continues with the THEN form `a` (tail position) in the state the
    condition left; no other operand (`rest`, in particular the else form) is evaluated -/
theorem eval_if_truthy (hc : st.cancelAt = none) (hs : st.stepper = none) (hm : NotMacro st env "if")
    {c : Val} {v : Val} {st1 : State} (a : Val) (rest : List Val)
    (hcond : eval (F+1) (tick st) env c (d+1) = (.ok v, st1)) (hv : truthy v = true) :
    evalLoop (F+2) st env (.list (.sym "if" p0 :: c :: a :: rest) pos) d = evalLoop (F+1) st1 env a d :=
  Proofs.EvalLaws.eval_if_truthy hc hs hm a rest hcond hv

/-- condition falsy: the `if` continues with the ELSE form `b`; the then form `a` is not evaluated -/
theorem eval_if_falsy (hc : st.cancelAt = none) (hs : st.stepper = none) (hm : NotMacro st env "if")
    {c : Val} {v : Val} {st1 : State} (a b : Val) (rest : List Val)
    (hcond : eval (F+1) (tick st) env c (d+1) = (.ok v, st1)) (hv : truthy v = false) :
    evalLoop (F+2) st env (.list (.sym "if" p0 :: c :: a :: b :: rest) pos) d = evalLoop (F+1) st1 env b d :=
  Proofs.EvalLaws.eval_if_falsy hc hs hm a b rest hcond hv

/-- condition falsy and no else form: `nil`, and the then form is not evaluated -/
theorem eval_if_no_else (hc : st.cancelAt = none) (hs : st.stepper = none) (hm : NotMacro st env "if")
    {c : Val} {v : Val} {st1 : State} (a : Val)
    (hcond : eval (F+1) (tick st) env c (d+1) = (.ok v, st1)) (hv : truthy v = false) :
    evalLoop (F+2) st env (.list [.sym "if" p0, c, a] pos) d = (.ok .nil, st1) :=
  Proofs.EvalLaws.eval_if_no_else hc hs hm a hcond hv

/-- an error of the condition is the error of the `if`; no branch is evaluated -/
theorem eval_if_cond_error (hc : st.cancelAt = none) (hs : st.stepper = none) (hm : NotMacro st env "if")
    {c : Val} {e : Err} {st1 : State} (branches : List Val)
    (hcond : eval (F+1) (tick st) env c (d+1) = (.err e, st1)) :
    evalLoop (F+2) st env (.list (.sym "if" p0 :: c :: branches) pos) d = (.err e, st1) :=
  Proofs.EvalLaws.eval_if_cond_error hc hs hm branches hcond

/-! ### quote; closures capture their defining scope -/

/-- `(quote x)`: the operand, unevaluated -/
theorem eval_quote (hc : st.cancelAt = none) (hm : NotMacro st env "quote") (x : Val) (rest : List Val) :
    evalLoop (F+2) st env (.list (.sym "quote" p0 :: x :: rest) pos) d = (.ok x, tick st) :=
  Proofs.EvalLaws.eval_quote hc hm x rest

/-- `(fn params body…)`: a closure that records the scope id `env` in which the `fn` form was evaluated,
    its parameter form, and its body wrapped as `(do body…)`; nothing is evaluated -/
theorem eval_fn_captures_scope (hc : st.cancelAt = none) (hm : NotMacro st env "fn") (params : Val)
    (body : List Val) :
    evalLoop (F+2) st env (.list (.sym "fn" p0 :: params :: body) pos) d =
      (.ok (.fn params (.list (.sym "do" none :: body) none) env false pos), tick st) :=
  Proofs.EvalLaws.eval_fn_captures_scope hc hm params body

/-! ### calls: arguments exactly once, left to right, before the call -/

/-- the defining equation of argument evaluation: the first form first (recursive `EVAL`), the state it
    leaves threads into the evaluation of the rest; an error in a form is the result, and the later
    forms are not evaluated (their effects do not happen) -/
theorem evalList_left_to_right (st : State) (x : Val) (xs : List Val) :
    evalList (F+1) st env (x :: xs) d =
      match eval F st env x (d+1) with
      | (.ok v, st1) =>
        (match evalList F st1 env xs d with
         | (.ok vs, st2) => (.ok (v :: vs), st2)
         | r => r)
      | (.err e, st1) => (.err e, st1)
      | (.oof, st1) => (.oof, st1) :=
  Proofs.EvalLaws.evalList_left_to_right st x xs

theorem evalList_nil (st : State) : evalList (F+1) st env [] d = (.ok [], st) :=
  Proofs.EvalLaws.evalList_nil st

/-- an error in an element stops the evaluation of the later ones -/
theorem evalList_error_stops {x : Val} {e : Err} {st1 : State} (xs : List Val)
    (h : eval F st env x (d+1) = (.err e, st1)) : evalList (F+1) st env (x :: xs) d = (.err e, st1) :=
  Proofs.EvalLaws.evalList_error_stops xs h

/-- `evalList` succeeds exactly when there is a left-to-right run (`ArgRun`): each form evaluated
    exactly once, in order, each appending its own segment of effects -/
theorem evalList_is_a_left_to_right_run {xs vs : List Val} {st' : State} :
    evalList F st env xs d = (.ok vs, st') ↔ ∃ ts, ArgRun env d F st xs vs ts st' :=
  Proofs.EvalLaws.evalList_ok_iff

/-- the application arm as a whole: head and arguments are evaluated first, exactly once, left to
    right, by ONE `evalList` over the whole form (an error there is the result); only then the callee
    is inspected -/
theorem eval_application (hc : st.cancelAt = none) (hs : st.stepper = none) {f : Val} (args : List Val)
    (hm : HeadNotMacro st env f) (hsf : a0sym f ∉ specialForms) :
    evalLoop (F+2) st env (.list (f :: args) pos) d =
      match evalList (F+1) (tick st) env (f :: args) d with
      | (.ok el, st1) =>
        (match el with
         | [] => (.err (.plain "empty application"), st1)
         | fv :: vs =>
           match fv with
           | .fn params body fenv _ _ =>
             (match bindParams params vs with
              | .error e =>
                (match e with
                 | .lisp (.goerr m) _ => (.err (.lisp (.goerr (m ++ " (around do)")) none), st1)
                 | e => (.err (newLispError e body), st1))
              | .ok data => evalLoop (F+1) (st1.newScope fenv data).1 (st1.newScope fenv data).2 body d)
           | .builtin name =>
             (match callBuiltin (F+1) st1 name vs d with
              | (.ok v, st2) => (.ok v, st2)
              | (.err e, st2) => (.err (newLispError e (.list (f :: args) pos)), st2)
              | (.oof, st2) => (.oof, st2))
           | _ => (.err (.lisp (.goerr "attempt to call non-function") none), st1))
      | (.err e, st1) => (.err e, st1)
      | (.oof, st1) => (.oof, st1) :=
  Proofs.EvalLaws.eval_application hc hs args hm hsf

/-- calling a closure: after head and arguments have been evaluated (`hargs`), the parameters are bound
    (`hbind`) in a NEW scope whose `outer` is the closure's DEFINING scope `fenv` — not the caller's
    `env` (law `new_scope_is_nested`) — and the body is evaluated there, in tail position -/
theorem eval_apply_closure (hc : st.cancelAt = none) (hs : st.stepper = none) {f : Val} {args : List Val}
    (hm : HeadNotMacro st env f) (hsf : a0sym f ∉ specialForms)
    {params body : Val} {fenv : Nat} {m : Bool} {fp : Option Pos} {vs : List Val} {st1 : State}
    {data : List (String × Val)}
    (hargs : evalList (F+1) (tick st) env (f :: args) d = (.ok (.fn params body fenv m fp :: vs), st1))
    (hbind : bindParams params vs = .ok data) :
    evalLoop (F+2) st env (.list (f :: args) pos) d =
      evalLoop (F+1) (st1.newScope fenv data).1 (st1.newScope fenv data).2 body d :=
  Proofs.EvalLaws.eval_apply_closure hc hs hm hsf hargs hbind

/-- in the scope of a call the parameters win, every other symbol means what it meant where the closure
    was defined (lexical, not dynamic, scoping) -/
theorem lookup_in_call_scope (hwf : ScopesWF st) {fenv : Nat} (hf : fenv < st.scopes.size)
    (data : List (String × Val)) (k : String) :
    (st.newScope fenv data).1.get (st.newScope fenv data).2 k =
      match alookup k data with
      | some v => some v
      | none => st.get fenv k :=
  Proofs.EvalLaws.get_newScope hwf hf data k

/-- exactly as many arguments as parameters: bound positionally -/
theorem bind_exact (nps : List (String × Option Pos)) (hamp : ∀ np ∈ nps, np.1 ≠ "&") (pp : Option Pos)
    (args : List Val) (hl : args.length = nps.length) :
    bindParams (.list (mkParams nps) pp) args = .ok (bindFixed (nps.map (·.1)) args []) ∧
    bindParams (.vec (mkParams nps) pp) args = .ok (bindFixed (nps.map (·.1)) args []) :=
  Proofs.EvalLaws.bindParams_exact nps hamp pp args hl

/-- `&` collects the remaining arguments as a list -/
theorem bind_rest (nps : List (String × Option Pos)) (hamp : ∀ np ∈ nps, np.1 ≠ "&")
    (pa : Option Pos) (r : String) (pr : Option Pos) (junk : List Val) (pp : Option Pos)
    (args : List Val) (hl : nps.length ≤ args.length) :
    bindParams (.list (mkParams nps ++ .sym "&" pa :: .sym r pr :: junk) pp) args =
      .ok (ainsert r (.list (args.drop nps.length) none) (bindFixed (nps.map (·.1)) args [])) ∧
    bindParams (.vec (mkParams nps ++ .sym "&" pa :: .sym r pr :: junk) pp) args =
      .ok (ainsert r (.list (args.drop nps.length) none) (bindFixed (nps.map (·.1)) args [])) :=
  Proofs.EvalLaws.bindParams_rest nps hamp pa r pr junk pp args hl

/-- too few arguments: the binder fails -/
theorem bind_too_few (nps : List (String × Option Pos)) (hamp : ∀ np ∈ nps, np.1 ≠ "&") (pp : Option Pos)
    (args : List Val) (hl : args.length < nps.length) :
    (∃ msg, bindParams (.list (mkParams nps) pp) args = .error (.lisp (.goerr msg) none)) ∧
    (∃ msg, bindParams (.vec (mkParams nps) pp) args = .error (.lisp (.goerr msg) none)) :=
  Proofs.EvalLaws.bindParams_too_few nps hamp pp args hl

/-- too many arguments: the binder fails -/
theorem bind_too_many (nps : List (String × Option Pos)) (hamp : ∀ np ∈ nps, np.1 ≠ "&") (pp : Option Pos)
    (args : List Val) (hl : nps.length < args.length) :
    (∃ msg, bindParams (.list (mkParams nps) pp) args = .error (.lisp (.goerr msg) none)) ∧
    (∃ msg, bindParams (.vec (mkParams nps) pp) args = .error (.lisp (.goerr msg) none)) :=
  Proofs.EvalLaws.bindParams_too_many nps hamp pp args hl

/-- … and a binder failure is the (unpositioned) error of the call, in the state the arguments left:
    no scope is created and the body is not evaluated -/
theorem eval_apply_closure_arity_error (hc : st.cancelAt = none) (hs : st.stepper = none) {f : Val}
    {args : List Val} (hm : HeadNotMacro st env f) (hsf : a0sym f ∉ specialForms)
    {params body : Val} {fenv : Nat} {m : Bool} {fp : Option Pos} {vs : List Val} {st1 : State} {msg : String}
    {ep : Option Pos}
    (hargs : evalList (F+1) (tick st) env (f :: args) d = (.ok (.fn params body fenv m fp :: vs), st1))
    (hbind : bindParams params vs = .error (.lisp (.goerr msg) ep)) :
    evalLoop (F+2) st env (.list (f :: args) pos) d =
      (.err (.lisp (.goerr (msg ++ " (around do)")) none), st1) :=
  Proofs.EvalLaws.eval_apply_closure_arity_error hc hs hm hsf hargs hbind

/-- calling a builtin: after head and arguments have been evaluated, the builtin is applied to the
    values in the state they left; its error is positioned at the call form (unless it already carries
    a position) -/
theorem eval_apply_builtin (hc : st.cancelAt = none) (hs : st.stepper = none) {f : Val} {args : List Val}
    (hm : HeadNotMacro st env f) (hsf : a0sym f ∉ specialForms)
    {name : String} {vs : List Val} {st1 : State}
    (hargs : evalList (F+1) (tick st) env (f :: args) d = (.ok (.builtin name :: vs), st1)) :
    evalLoop (F+2) st env (.list (f :: args) pos) d =
      match callBuiltin (F+1) st1 name vs d with
      | (.ok v, st2) => (.ok v, st2)
      | (.err e, st2) => (.err (newLispError e (.list (f :: args) pos)), st2)
      | (.oof, st2) => (.oof, st2) :=
  Proofs.EvalLaws.eval_apply_builtin hc hs hm hsf hargs

/-- the builtins that do not call back into the evaluator are pure functions of the argument values -/
theorem builtin_pure (st1 : State) {name : String} (vs : List Val)
    (hn : name ∉ ["trace!", "depth!", "eval", "apply", "map", "atom", "deref", "reset!", "swap!", "update",
      "update-in"]) :
    callBuiltin (F+1) st1 name vs d =
      match Core.call name vs with
      | some (.ok v) => (.ok v, st1)
      | some (.thrown v) => (.err (.lisp v none), st1)
      | some (.goerr m) => (.err (.lisp (.goerr m) none), st1)
      | none => (.err (.lisp (.goerr ("unmodelled builtin " ++ name)) none), st1) :=
  Proofs.EvalLaws.callBuiltin_pure st1 vs hn

/-- the effect primitive of the harness: `(trace! v)` appends `v` to the trace -/
theorem builtin_trace (st1 : State) (v : Val) :
    callBuiltin (F+1) st1 "trace!" [v] d = (.ok v, { st1 with trace := v :: st1.trace }) :=
  Proofs.EvalLaws.callBuiltin_trace st1 v

/-- a head that evaluates to something that is neither a closure nor a builtin: an error, after the
    arguments have been evaluated -/
theorem eval_non_callable_head_errors (hc : st.cancelAt = none) (hs : st.stepper = none) {f : Val}
    {args : List Val} (hm : HeadNotMacro st env f) (hsf : a0sym f ∉ specialForms)
    {fv : Val} {vs : List Val} {st1 : State}
    (hargs : evalList (F+1) (tick st) env (f :: args) d = (.ok (fv :: vs), st1))
    (hnf : ∀ ps b e m p, fv ≠ .fn ps b e m p) (hnb : ∀ n, fv ≠ .builtin n) :
    evalLoop (F+2) st env (.list (f :: args) pos) d =
      (.err (.lisp (.goerr "attempt to call non-function") none), st1) :=
  Proofs.EvalLaws.eval_non_callable_head_errors hc hs hm hsf hargs hnf hnb

/-- an error while evaluating the head or an argument is the error of the call: nothing is called -/
theorem eval_args_error (hc : st.cancelAt = none) (hs : st.stepper = none) {f : Val}
    {args : List Val} (hm : HeadNotMacro st env f) (hsf : a0sym f ∉ specialForms) {e : Err} {st1 : State}
    (hargs : evalList (F+1) (tick st) env (f :: args) d = (.err e, st1)) :
    evalLoop (F+2) st env (.list (f :: args) pos) d = (.err e, st1) :=
  Proofs.EvalLaws.eval_args_error hc hs hm hsf hargs

/-- effect order of a call `(f a₁ … aₙ)`: there is a left-to-right run of head and arguments with effect
    segments `ts = [t(f), t(a₁), …, t(aₙ)]` (one per form), and the trace after the call is
    `t(call) ++ t(aₙ) ++ … ++ t(a₁) ++ t(f) ++ old trace` (most recent first): all effects of the
    arguments, in argument order, before any effect of the call itself -/
theorem args_effects_in_order (hc : st.cancelAt = none) (hs : st.stepper = none) {f : Val} {args : List Val}
    (hm : HeadNotMacro st env f) (hsf : a0sym f ∉ specialForms) {r : Res Val} {st' : State}
    {el : List Val} {st1 : State}
    (hargs : evalList (F+1) (tick st) env (f :: args) d = (.ok el, st1))
    (h : evalLoop (F+2) st env (.list (f :: args) pos) d = (r, st')) :
    ∃ (ts : List (List Val)) (tcall : List Val),
      ArgRun env d (F+1) (tick st) (f :: args) el ts st1 ∧ ts.length = args.length + 1 ∧
      st1.trace = ts.reverse.flatten ++ st.trace ∧
      st'.trace = tcall ++ ts.reverse.flatten ++ st.trace :=
  Proofs.EvalLaws.args_effects_in_order hc hs hm hsf hargs h

/-- the trace of a run is the concatenation of its segments, latest form first -/
theorem run_trace {F : Nat} {xs vs : List Val} {ts : List (List Val)} {st' : State}
    (h : ArgRun env d F st xs vs ts st') : st'.trace = ts.reverse.flatten ++ st.trace :=
  Proofs.EvalLaws.argRun_trace_eq h

/-! ### non-vacuity: the laws' side conditions hold on the harness environment, and concrete programs
    compute (kernel evaluation of the model on `initState`) -/

private def S (s : String) : Val := .sym s none
private def L (xs : List Val) : Val := .list xs none
private def I (n : Int) : Val := .int n

private def isInt (r : R) (n : Int) : Bool :=
  match r.1 with
  | .ok (.int m) => m == n
  | _ => false

private def isErr (r : R) : Bool :=
  match r.1 with
  | .err _ => true
  | _ => false

/-- run a program on the harness environment (top-level `EVAL`, depth 1) -/
private def run (prog : Val) : R := eval 300 initState 0 prog 1

private def traceIs (r : R) (ns : List Int) : Bool :=
  r.2.trace.length == ns.length &&
  (r.2.trace.zip ns).all (fun p => match p.1 with | .int m => m == p.2 | _ => false)

/-- the harness environment satisfies the standing conditions -/
example : initState.stepper = none ∧ initState.cancelAt = none ∧ ScopesWF initState :=
  ⟨rfl, rfl, Proofs.EvalLaws.scopesWF_initState⟩
example : ∀ s ∈ specialForms, initState.get 0 s = none := by decide +kernel

/-- closure capture: `(let (x 1) ((fn (y) (+ x y)) 2))` ⇒ 3 -/
example : isInt (run
    (L [S "let", L [S "x", I 1], L [L [S "fn", L [S "y"], L [S "+", S "x", S "y"]], I 2]])) 3 = true := by
  decide +kernel

/-- lexical, not dynamic: `(let (x 1) (let (f (fn () x)) (let (x 2) (f))))` ⇒ 1 -/
example : isInt (run
    (L [S "let", L [S "x", I 1],
      L [S "let", L [S "f", L [S "fn", L [], S "x"]],
        L [S "let", L [S "x", I 2], L [S "f"]]]])) 1 = true := by
  decide +kernel

/-- a shadowing `let` inside a closure: `(let (x 1) ((fn (y) (let (x 10) (+ x y))) x))` ⇒ 11 -/
example : isInt (run
    (L [S "let", L [S "x", I 1],
      L [L [S "fn", L [S "y"], L [S "let", L [S "x", I 10], L [S "+", S "x", S "y"]]], S "x"]])) 11 = true := by
  decide +kernel

/-- sequential `let`: `(let (a 1 b (+ a 1)) b)` ⇒ 2 -/
example : isInt (run
    (L [S "let", L [S "a", I 1, S "b", L [S "+", S "a", I 1]], S "b"])) 2 = true := by
  decide +kernel

/-- a closure counter: `(let (c (atom 0) inc (fn () (swap! c (fn (n) (+ n 1))))) (do (inc) (inc) (deref c)))` ⇒ 2 -/
example : isInt (run
    (L [S "let", L [S "c", L [S "atom", I 0],
                   S "inc", L [S "fn", L [], L [S "swap!", S "c", L [S "fn", L [S "n"], L [S "+", S "n", I 1]]]]],
      L [S "do", L [S "inc"], L [S "inc"], L [S "deref", S "c"]]])) 2 = true := by
  decide +kernel

/-- `&` rest parameters: `((fn (a & r) (count r)) 1 2 3)` ⇒ 2 -/
example : isInt (run
    (L [L [S "fn", L [S "a", S "&", S "r"], L [S "count", S "r"]], I 1, I 2, I 3])) 2 = true := by
  decide +kernel

/-- recursion through `def`: `(do (def f (fn (n) (if (= n 0) 0 (+ n (f (- n 1)))))) (f 4))` ⇒ 10 -/
example : isInt (run
    (L [S "do",
      L [S "def", S "f", L [S "fn", L [S "n"],
        L [S "if", L [S "=", S "n", I 0], I 0, L [S "+", S "n", L [S "f", L [S "-", S "n", I 1]]]]]],
      L [S "f", I 4]])) 10 = true := by
  decide +kernel

/-- effect order: `(do (trace! 1) (+ (trace! 2) (trace! 3)))` ⇒ 5 with effects 1, 2, 3 in this order -/
example : (let r := run (L [S "do", L [S "trace!", I 1], L [S "+", L [S "trace!", I 2], L [S "trace!", I 3]]]);
    isInt r 5 && traceIs r [3, 2, 1]) = true := by
  decide +kernel

/-- only the selected branch: `(if nil (trace! 1) (trace! 2))` has the single effect 2 -/
example : (let r := run (L [S "if", .nil, L [S "trace!", I 1], L [S "trace!", I 2]]);
    isInt r 2 && traceIs r [2]) = true := by
  decide +kernel

/-- an error in an argument stops the later arguments: `(+ (trace! 1) (undefined-symbol) (trace! 2))` -/
example : (let r := run (L [S "+", L [S "trace!", I 1], L [S "nope"], L [S "trace!", I 2]]);
    isErr r && traceIs r [1]) = true := by
  decide +kernel

/-- too many arguments: the body is not evaluated: `((fn (a) (trace! 9)) 1 2)` is an error, no effect -/
example : (let r := run (L [L [S "fn", L [S "a"], L [S "trace!", I 9]], I 1, I 2]);
    isErr r && traceIs r []) = true := by
  decide +kernel

/-! ### BEGIN D1 — store well-formedness is an invariant of evaluation; scoping laws without side condition on the store

  `ValWF n v`: every closure inside the value `v` (through lists, vectors, maps, and the closure's own
  parameter form and body) has a scope id `< n`.  `StateWF st`: the store has a root scope, every `outer`
  link points to an OLDER scope, and every value stored in a scope, an atom or the trace is
  `ValWF st.scopes.size`.  Proofs: `Proofs/EvalStoreWF.lean`. -/

/-- the harness environment is well-formed -/
theorem initState_StateWF : StateWF initState := Proofs.EvalStoreWF.initState_stateWF

/-- a form without closure objects (`ValWF 0`: everything the reader produces) is well-formed in every store -/
theorem program_text_is_wellformed {v : Val} (h : ValWF 0 v) (n : Nat) : ValWF n v :=
  Proofs.EvalStoreWF.valWF_of_closureFree h n

/-- store well-formedness is preserved by `EVAL` — from ANY well-formed store, scope and form, with or
    without debugger, cancelled or not, whatever macros are bound —, the store only grows, and the value
    (or the payload of the error) only mentions existing scopes -/
theorem stateWF_preserved_by_eval (hw : StateWF st) (he : env < st.scopes.size) {ast : Val}
    (ha : ValWF st.scopes.size ast) {r : Res Val} {s : State} (h : eval F st env ast d = (r, s)) :
    StateWF s ∧ st.scopes.size ≤ s.scopes.size ∧ ResWF s.scopes.size r :=
  (Proofs.EvalStoreWF.inv F).eval hw he ha h

/-- … by the loop of one activation … -/
theorem stateWF_preserved_by_evalLoop (hw : StateWF st) (he : env < st.scopes.size) {ast : Val}
    (ha : ValWF st.scopes.size ast) {r : Res Val} {s : State} (h : evalLoop F st env ast d = (r, s)) :
    StateWF s ∧ st.scopes.size ≤ s.scopes.size ∧ ResWF s.scopes.size r :=
  (Proofs.EvalStoreWF.inv F).evalLoop hw he ha h

/-- … by argument evaluation … -/
theorem stateWF_preserved_by_evalList (hw : StateWF st) (he : env < st.scopes.size) {xs : List Val}
    (ha : ValsWF st.scopes.size xs) {r : Res (List Val)} {s : State} (h : evalList F st env xs d = (r, s)) :
    StateWF s ∧ st.scopes.size ≤ s.scopes.size ∧ ResLWF s.scopes.size r :=
  (Proofs.EvalStoreWF.inv F).evalList hw he ha h

/-- … and by `Apply` (callbacks from builtins) -/
theorem stateWF_preserved_by_apply (hw : StateWF st) {f : Val} {args : List Val}
    (hf : ValWF st.scopes.size f) (ha : ValsWF st.scopes.size args) {r : Res Val} {s : State}
    (h : apply F st f args d = (r, s)) :
    StateWF s ∧ st.scopes.size ≤ s.scopes.size ∧ ResWF s.scopes.size r :=
  (Proofs.EvalStoreWF.inv F).apply hw hf ha h

/-- the same for all 13 functions of the evaluator block at once (`Inv`: one field per function) -/
theorem stateWF_invariant_of_evaluator_block (F : Nat) : Proofs.EvalStoreWF.Inv F := Proofs.EvalStoreWF.inv F

/-- the invariant contains the side condition `ScopesWF` of `eval_symbol_outer` / `lookup_in_call_scope` -/
theorem stateWF_gives_scopesWF (hw : StateWF st) : ScopesWF st := Proofs.EvalStoreWF.stateWF_scopesWF hw

/-- the states the laws above talk about stay well-formed: after the poll, … -/
theorem stateWF_tick (hw : StateWF st) : StateWF (tick st) := Proofs.EvalStoreWF.stateWF_tick hw

/-- … after a `def` / `let` binding of a well-formed value, … -/
theorem stateWF_set (hw : StateWF st) (k : String) {v : Val} (hv : ValWF st.scopes.size v) :
    StateWF (st.set env k v) := Proofs.EvalStoreWF.stateWF_set hw env k hv

/-- … and in the new scope of a call of a well-formed closure (where its body is well-formed, too) -/
theorem stateWF_call_scope (hw : StateWF st) {ps b : Val} {e : Nat} {m : Bool} {fp : Option Pos} {args : List Val}
    {data : List (String × Val)} (hf : ValWF st.scopes.size (.fn ps b e m fp))
    (ha : ValsWF st.scopes.size args) (hb : bindParams ps args = .ok data) :
    StateWF (st.newScope e data).1 ∧ (st.newScope e data).2 < (st.newScope e data).1.scopes.size ∧
    ValWF (st.newScope e data).1.scopes.size b ∧ st.scopes.size ≤ (st.newScope e data).1.scopes.size :=
  Proofs.EvalStoreWF.call_scope_wf hw hf ha hb

/-- `eval_symbol_outer` under the invariant: the lookup climbs the chain -/
theorem eval_symbol_outer_of_stateWF (hc : st.cancelAt = none) (hw : StateWF st) {sc : Scope} {k : String}
    {o : Nat} (p : Option Pos) (hsc : st.scopes[env]? = some sc) (hk : alookup k sc.data = none)
    (ho : sc.outer = some o) :
    evalLoop (F+2) st env (.sym k p) d = evalLoop (F+2) st o (.sym k p) d :=
  Proofs.EvalStoreWF.eval_symbol_outer_wf hc hw p hsc hk ho

/-- … hence in every state `st` in which a run that STARTED in a well-formed store ends … -/
theorem eval_symbol_outer_after_run {F0 : Nat} {st0 : State} {env0 d0 : Nat} {ast0 : Val} {r0 : Res Val}
    (h0 : StateWF st0) (he0 : env0 < st0.scopes.size) (ha0 : ValWF st0.scopes.size ast0)
    (hrun : eval F0 st0 env0 ast0 d0 = (r0, st)) (hc : st.cancelAt = none)
    {sc : Scope} {k : String} {o : Nat} (p : Option Pos)
    (hsc : st.scopes[env]? = some sc) (hk : alookup k sc.data = none) (ho : sc.outer = some o) :
    evalLoop (F+2) st env (.sym k p) d = evalLoop (F+2) st o (.sym k p) d :=
  Proofs.EvalStoreWF.eval_symbol_outer_after_run h0 he0 ha0 hrun hc p hsc hk ho

/-- … in particular after any program (closure-free text) run on the harness environment: unconditional -/
theorem eval_symbol_outer_unconditional {F0 d0 : Nat} {prog : Val} {r0 : Res Val}
    (hprog : ValWF 0 prog) (hrun : eval F0 initState 0 prog d0 = (r0, st))
    {sc : Scope} {k : String} {o : Nat} (p : Option Pos)
    (hsc : st.scopes[env]? = some sc) (hk : alookup k sc.data = none) (ho : sc.outer = some o) :
    evalLoop (F+2) st env (.sym k p) d = evalLoop (F+2) st o (.sym k p) d :=
  Proofs.EvalStoreWF.eval_symbol_outer_from_init hprog hrun p hsc hk ho

/-- `lookup_in_call_scope` under the invariant: in the scope of a call of ANY closure value of a
    well-formed store the parameters win, every other symbol means what it means in the closure's
    defining scope `e` -/
theorem lookup_in_call_scope_of_stateWF (hw : StateWF st) {ps b : Val} {e : Nat} {m : Bool} {fp : Option Pos}
    (hf : ValWF st.scopes.size (.fn ps b e m fp)) (data : List (String × Val)) (k : String) :
    (st.newScope e data).1.get (st.newScope e data).2 k =
      match alookup k data with
      | some v => some v
      | none => st.get e k :=
  Proofs.EvalStoreWF.get_call_scope hw hf data k

/-- a closure sees its DEFINING scope: when the head of a call evaluates to a closure — created anywhere,
    any time before, in scope `fenv` — the body runs (tail position) in a fresh scope in which the
    parameters win and every other symbol is resolved through `fenv`'s chain, not through the caller's
    scope `env`; the invariant holds again where the body starts (so this applies to the calls inside) -/
theorem closure_sees_defining_scope (hw : StateWF st) (he : env < st.scopes.size)
    {f : Val} {args : List Val} (hast : ValsWF st.scopes.size (f :: args))
    (hc : st.cancelAt = none) (hs : st.stepper = none)
    (hm : HeadNotMacro st env f) (hsf : a0sym f ∉ specialForms)
    {params body : Val} {fenv : Nat} {m : Bool} {fp : Option Pos} {vs : List Val} {st1 : State}
    {data : List (String × Val)}
    (hargs : evalList (F+1) (tick st) env (f :: args) d = (.ok (.fn params body fenv m fp :: vs), st1))
    (hbind : bindParams params vs = .ok data) :
    evalLoop (F+2) st env (.list (f :: args) pos) d =
        evalLoop (F+1) (st1.newScope fenv data).1 (st1.newScope fenv data).2 body d ∧
    (∀ k, (st1.newScope fenv data).1.get (st1.newScope fenv data).2 k =
        match alookup k data with
        | some v => some v
        | none => st1.get fenv k) ∧
    StateWF (st1.newScope fenv data).1 ∧
    (st1.newScope fenv data).2 < (st1.newScope fenv data).1.scopes.size ∧
    ValWF (st1.newScope fenv data).1.scopes.size body :=
  Proofs.EvalStoreWF.closure_sees_defining_scope hw he hast hc hs hm hsf hargs hbind

/-- unconditional: after any program run on the harness environment, every closure bound to a name
    anywhere in the store sees its defining scope when called … -/
theorem bound_closure_sees_defining_scope {F0 d0 : Nat} {prog : Val} {r0 : Res Val}
    (hprog : ValWF 0 prog) (hrun : eval F0 initState 0 prog d0 = (r0, st))
    {name : String} {ps b : Val} {e : Nat} {m : Bool} {fp : Option Pos}
    (hg : st.get env name = some (.fn ps b e m fp)) (data : List (String × Val)) (k : String) :
    (st.newScope e data).1.get (st.newScope e data).2 k =
      match alookup k data with
      | some v => some v
      | none => st.get e k :=
  Proofs.EvalStoreWF.get_call_scope_from_init hprog hrun hg data k

/-- … and so does a closure the program returns -/
theorem returned_closure_sees_defining_scope {F0 d0 : Nat} {prog : Val} {ps b : Val} {e : Nat} {m : Bool}
    {fp : Option Pos} (hprog : ValWF 0 prog) (hrun : eval F0 initState 0 prog d0 = (.ok (.fn ps b e m fp), st))
    (data : List (String × Val)) (k : String) :
    (st.newScope e data).1.get (st.newScope e data).2 k =
      match alookup k data with
      | some v => some v
      | none => st.get e k :=
  Proofs.EvalStoreWF.get_call_scope_of_result hprog hrun data k

/-- non-vacuity: a program text is closure-free, … -/
example : ValWF 0 (L [S "let", L [S "x", I 1], L [S "fn", L [S "y"], S "x"]]) := by
  simp [L, S, I, ValWF, ValsWF]

/-- … `(let (x 1) (fn (y) x))` returns a closure whose defining scope is the `let` scope (id 1), … -/
example : (match (run (L [S "let", L [S "x", I 1], L [S "fn", L [S "y"], S "x"]])).1 with
    | .ok (.fn _ _ e _ _) => e == 1
    | _ => false) = true := by
  decide +kernel

/-- … and a closure called from a scope that rebinds its free variable still sees the defining scope:
    `(let (x 1) (let (f (fn () x)) (let (x 2) (f))))` ⇒ 1 (example above) -/
example : StateWF initState ∧ 0 < initState.scopes.size := ⟨initState_StateWF, by decide⟩

/-! ### END D1 -/

/-! ### BEGIN D5 — the textbook big-step semantics `sem` (`Spec/BigStep.lean`) and the evaluator coincide

  `sem F st env form` is a definitional interpreter written the textbook way (one recursive call per
  sub-evaluation, pattern matching on the form; no loop, no `a1/a2` index arithmetic, no polls, no depth,
  no debugger).  It delegates to `eval` what is outside the core fragment — a form whose head symbol is
  bound to a macro, `quasiquote(expand)`, `defmacro`, `macroexpand`, `try`, hash-map literals — and
  applies builtins by `callBuiltin` (the callback-taking builtins call back into `eval`).  Because the
  macro test is part of `sem`, the refinement theorems need NO macro side condition: they hold for ALL
  forms, under the standing conditions "debugger off, not cancelled" only.
  `SameUpToPolls a b`: the stores agree in `scopes`, `atoms`, `trace`, `cancelAt`, `stepper` — in
  everything but the poll counter `ticks` and the `depth!` marks (`sem` polls nothing and has no depth).
  The rules of `sem` below (`NotMacro` = the special-form name is not shadowed by a user macro) ARE the
  language definition; by the refinement theorems they are what the evaluator computes. -/

section D5
open LispModel.Spec.BigStep

/-- the evaluator refines the definition: every finished run of `sem` is matched by `eval` — with some
    fuel, at any depth `d` — with the same value or error and the same store up to polls (in particular
    the same ordered effect trace) -/
theorem eval_refines_sem {st : State} (hc : st.cancelAt = none) (hs : st.stepper = none)
    {F env : Nat} {ast : Val} {r : Res Val} {st' : State}
    (h : sem F st env ast = (r, st')) (hne : r ≠ .oof) (d : Nat) :
    ∃ F' st'', eval F' st env ast d = (r, st'') ∧ SameUpToPolls st' st'' :=
  Proofs.BigStepRefine.eval_refines_sem_upto hc hs (Proofs.BigStepRefine.sameUpToPolls_refl st) h hne d

/-- … and the definition refines the evaluator: every finished run of `eval` is matched by `sem` -/
theorem sem_refines_eval {st : State} (hc : st.cancelAt = none) (hs : st.stepper = none)
    {F env d : Nat} {ast : Val} {r : Res Val} {st'' : State}
    (h : eval F st env ast d = (r, st'')) (hne : r ≠ .oof) :
    ∃ F' st', sem F' st env ast = (r, st') ∧ SameUpToPolls st' st'' :=
  Proofs.BigStepRefine.sem_refines_eval_upto hc hs (Proofs.BigStepRefine.sameUpToPolls_refl st) h hne

/-- both, from start stores that agree up to polls (so the theorems compose along a run) -/
theorem eval_refines_sem_upto {st₁ st₂ : State} (hc : st₁.cancelAt = none) (hs : st₁.stepper = none)
    (hst : SameUpToPolls st₁ st₂) {F env : Nat} {ast : Val} {r : Res Val} {st' : State}
    (h : sem F st₁ env ast = (r, st')) (hne : r ≠ .oof) (d : Nat) :
    ∃ F' st'', eval F' st₂ env ast d = (r, st'') ∧ SameUpToPolls st' st'' :=
  Proofs.BigStepRefine.eval_refines_sem_upto hc hs hst h hne d

theorem sem_refines_eval_upto {st₁ st₂ : State} (hc : st₁.cancelAt = none) (hs : st₁.stepper = none)
    (hst : SameUpToPolls st₁ st₂) {F env d : Nat} {ast : Val} {r : Res Val} {st'' : State}
    (h : eval F st₂ env ast d = (r, st'')) (hne : r ≠ .oof) :
    ∃ F' st', sem F' st₁ env ast = (r, st') ∧ SameUpToPolls st' st'' :=
  Proofs.BigStepRefine.sem_refines_eval_upto hc hs hst h hne

/-- whatever the definition says is what the evaluator computes: a finished run of `sem` and a finished
    run of `eval` (any fuels, any depth) have the same result and the same store up to polls -/
theorem sem_and_eval_agree {st : State} (hc : st.cancelAt = none) (hs : st.stepper = none)
    {F F' env d : Nat} {ast : Val} {r r' : Res Val} {s s' : State}
    (h : sem F st env ast = (r, s)) (hne : r ≠ .oof) (h' : eval F' st env ast d = (r', s')) (hne' : r' ≠ .oof) :
    r = r' ∧ SameUpToPolls s s' :=
  Proofs.BigStepRefine.sem_eval_agree hc hs h hne h' hne'

/-- the fuel of `sem` only bounds the recursion -/
theorem sem_result_independent_of_fuel {F F' : Nat} (hle : F ≤ F') {st : State} {env : Nat} {ast : Val}
    {r : Res Val} {s : State} (h : sem F st env ast = (r, s)) (hne : r ≠ .oof) : sem F' st env ast = (r, s) :=
  Proofs.BigStepRefine.sem_fuel_le hle h hne

/-- evaluation depends neither on the poll counter, nor on the `depth!` marks, nor on the depth -/
theorem eval_insensitive_to_polls_and_depth {st₁ st₂ : State} (hc : st₁.cancelAt = none) (hs : st₁.stepper = none)
    (hst : SameUpToPolls st₁ st₂) {F env d : Nat} {ast : Val} {r : Res Val} {s : State}
    (h : eval F st₁ env ast d = (r, s)) (d' : Nat) :
    ∃ s', eval F st₂ env ast d' = (r, s') ∧ SameUpToPolls s s' :=
  let ⟨s', h', he⟩ := (Proofs.BigStepIns.ins F).eval (Proofs.BigStepRefine.eqv_of_sameUpToPolls hst hc hs) h d'
  ⟨s', h', Proofs.BigStepRefine.sameUpToPolls_of_eqv he⟩

/-! the rules of the definition, in the property's words -/

/-- lexical scoping: a symbol is looked up from the current scope; a symbol bound nowhere is an error -/
theorem symbol_is_a_lookup (s : String) (p : Option Pos) :
    sem (F+1) st env (.sym s p) =
      match st.get env s with
      | some v => (.ok v, st)
      | none => (.err (.lisp (.goerr ("symbol '" ++ s ++ "' not found")) p), st) :=
  Proofs.BigStepRefine.sem_symbol s p

/-- the innermost binding wins: if the current scope itself binds `k`, that is the value -/
theorem innermost_binding_wins {sc : Scope} {k : String} {v : Val} (p : Option Pos)
    (hsc : st.scopes[env]? = some sc) (hk : alookup k sc.data = some v) :
    sem (F+1) st env (.sym k p) = (.ok v, st) := by
  rw [Proofs.BigStepRefine.sem_symbol, Proofs.EvalLaws.get_innermost hsc hk]

/-- `(def name x)` evaluates `x`, binds the value to `name` in the CURRENT scope and returns it; an
    error of `x` is the error of the `def` and nothing is bound -/
theorem def_binds_current_scope_returns_value (hm : NotMacro st env "def")
    (name : String) (pn : Option Pos) (x : Val) (rest : List Val) :
    sem (F+1) st env (.list (.sym "def" p0 :: .sym name pn :: x :: rest) pos) =
      match sem F st env x with
      | (.ok v, st1) => (.ok v, st1.set env name v)
      | r => r :=
  Proofs.BigStepRefine.sem_def hm name pn x rest

/-- a `def` target that is not a symbol is an error (raised after `x` has been evaluated) -/
theorem def_target_must_be_a_symbol (hm : NotMacro st env "def") (target : Val)
    (ht : ∀ n p, target ≠ .sym n p) (x : Val) (rest : List Val) :
    sem (F+1) st env (.list (.sym "def" p0 :: target :: x :: rest) pos) =
      match sem F st env x with
      | (.ok _, st1) => (.err (newLispError (.plain "cannot use value as identifier")
                                (.list (.sym "def" p0 :: target :: x :: rest) pos)), st1)
      | r => r :=
  Proofs.BigStepRefine.sem_def_non_symbol hm target ht x rest

/-- `(let (x₁ e₁ …) body…)`: ONE child scope of the current scope (its id is `st.scopes.size`) receives
    the bindings one after the other (next theorem); the body forms are evaluated there -/
theorem let_opens_one_child_scope (hm : NotMacro st env "let") (bindings : Val) (bs body : List Val)
    (hb : seqOf? bindings = some bs) (heven : bs.length % 2 = 0) :
    sem (F+1) st env (.list (.sym "let" p0 :: bindings :: body) pos) =
      match semBinds F (st.newScope env []).1 st.scopes.size bs bindings with
      | (.ok _, st2) => semBody F st2 st.scopes.size body
      | r => r :=
  Proofs.BigStepRefine.sem_let hm bindings bs body hb heven

/-- `let` is sequential: each value form is evaluated IN the `let` scope, after the earlier bindings of
    the same `let` have been made there; an error stops the later bindings -/
theorem let_is_sequential (letEnv : Nat) (name : String) (pn : Option Pos) (x : Val) (rest : List Val) (a1 : Val) :
    semBinds (F+1) st letEnv (.sym name pn :: x :: rest) a1 =
      match sem F st letEnv x with
      | (.ok v, st1) => semBinds F (st1.set letEnv name v) letEnv rest a1
      | r => r :=
  Proofs.BigStepRefine.semBinds_cons letEnv name pn x rest a1

theorem let_bindings_end (letEnv : Nat) (a1 : Val) : semBinds (F+1) st letEnv [] a1 = (.ok .nil, st) :=
  Proofs.BigStepRefine.semBinds_nil letEnv a1

/-- an odd number of elements in the binding vector is an error (the child scope already exists) -/
theorem let_odd_bindings_error (hm : NotMacro st env "let") (bindings : Val) (bs body : List Val)
    (hb : seqOf? bindings = some bs) (hodd : bs.length % 2 ≠ 0) :
    sem (F+1) st env (.list (.sym "let" p0 :: bindings :: body) pos) =
      (.err (newLispError (.plain "let: odd elements on binding vector") bindings), (st.newScope env []).1) :=
  Proofs.BigStepRefine.sem_let_odd hm bindings bs body hb hodd

/-- a binding target that is not a symbol is an error; its value form is not evaluated -/
theorem let_non_symbol_binding_error (letEnv : Nat) (b : Val) (hb : ∀ n p, b ≠ .sym n p) (x : Val)
    (rest : List Val) (a1 : Val) :
    semBinds (F+1) st letEnv (b :: x :: rest) a1 = (.err (newLispError (.plain "non-symbol bind value") a1), st) :=
  Proofs.BigStepRefine.semBinds_non_symbol letEnv b hb x rest a1

/-- `(do body…)` — and so the body of a `let` and of a closure: the forms in order, … -/
theorem do_is_its_body (hm : NotMacro st env "do") (body : List Val) :
    sem (F+1) st env (.list (.sym "do" p0 :: body) pos) = semBody F st env body :=
  Proofs.BigStepRefine.sem_do hm body

/-- … each evaluated once, an error stops the later forms, the value is that of the LAST form, and no
    form at all gives `nil` -/
theorem body_forms_in_order_last_value (x y : Val) (rest : List Val) :
    semBody (F+1) st env [] = (.ok .nil, st) ∧
    semBody (F+1) st env [x] = sem F st env x ∧
    semBody (F+1) st env (x :: y :: rest) =
      (match sem F st env x with
       | (.ok _, st1) => semBody F st1 env (y :: rest)
       | r => r) :=
  ⟨Proofs.BigStepRefine.semBody_nil, Proofs.BigStepRefine.semBody_last x, Proofs.BigStepRefine.semBody_cons x y rest⟩

/-- `(if c t e)`: the condition, then exactly ONE of the branches (only `nil` and `false` are falsy:
    `only_nil_and_false_falsy`); an error of the condition is the error of the `if` -/
theorem if_evaluates_one_branch (hm : NotMacro st env "if") (c t e : Val) (rest : List Val) :
    sem (F+1) st env (.list (.sym "if" p0 :: c :: t :: e :: rest) pos) =
      match sem F st env c with
      | (.ok v, st1) => if truthy v then sem F st1 env t else sem F st1 env e
      | r => r :=
  Proofs.BigStepRefine.sem_if hm c t e rest

/-- `(if c t)`: a falsy condition gives `nil` -/
theorem if_without_else (hm : NotMacro st env "if") (c t : Val) :
    sem (F+1) st env (.list [.sym "if" p0, c, t] pos) =
      match sem F st env c with
      | (.ok v, st1) => if truthy v then sem F st1 env t else (.ok .nil, st1)
      | r => r :=
  Proofs.BigStepRefine.sem_if_no_else hm c t

/-- `(quote x)` is `x`, unevaluated -/
theorem quote_returns_operand (hm : NotMacro st env "quote") (x : Val) (rest : List Val) :
    sem (F+1) st env (.list (.sym "quote" p0 :: x :: rest) pos) = (.ok x, st) :=
  Proofs.BigStepRefine.sem_quote hm x rest

/-- `(fn params body…)` is a closure that captures the scope `env` it is evaluated in; nothing is evaluated -/
theorem fn_captures_defining_scope (hm : NotMacro st env "fn") (params : Val) (body : List Val) :
    sem (F+1) st env (.list (.sym "fn" p0 :: params :: body) pos) =
      (.ok (.fn params (.list (.sym "do" none :: body) none) env false pos), st) :=
  Proofs.BigStepRefine.sem_fn hm params body

/-- a call evaluates head and operands exactly once, left to right (the state threads through; the
    first error stops the rest), BEFORE anything is called -/
theorem args_once_left_to_right (x : Val) (xs : List Val) :
    semList (F+1) st env [] = (.ok [], st) ∧
    semList (F+1) st env (x :: xs) =
      (match sem F st env x with
       | (.ok v, st1) =>
         (match semList F st1 env xs with
          | (.ok vs, st2) => (.ok (v :: vs), st2)
          | r => r)
       | (.err e, st1) => (.err e, st1)
       | (.oof, st1) => (.oof, st1)) :=
  ⟨Proofs.BigStepRefine.semList_nil, Proofs.BigStepRefine.semList_cons x xs⟩

/-- an error in the head or an operand is the error of the call -/
theorem call_args_error {f : Val} {args : List Val} (hm : HeadNotMacro st env f) (hsf : a0sym f ∉ specialForms)
    {e : Err} {st1 : State} (hargs : semList F st env (f :: args) = (.err e, st1)) :
    sem (F+1) st env (.list (f :: args) pos) = (.err e, st1) :=
  Proofs.BigStepRefine.sem_args_error hm hsf hargs

/-- calling a closure: the parameters are bound in a NEW child of the scope the closure CAPTURED
    (`fenv`, not the caller's `env`), and the body is evaluated there -/
theorem closure_call_uses_captured_scope {f : Val} {args : List Val} (hm : HeadNotMacro st env f)
    (hsf : a0sym f ∉ specialForms) {params body : Val} {fenv : Nat} {m : Bool} {fp : Option Pos} {vs : List Val}
    {st1 : State} {data : List (String × Val)}
    (hargs : semList F st env (f :: args) = (.ok (.fn params body fenv m fp :: vs), st1))
    (hbind : bindParams params vs = .ok data) :
    sem (F+1) st env (.list (f :: args) pos) = sem F (st1.newScope fenv data).1 (st1.newScope fenv data).2 body :=
  Proofs.BigStepRefine.sem_call_closure hm hsf hargs hbind

/-- `&` collects the remaining arguments as a list bound to the name after it -/
theorem rest_params_collect {f : Val} {args : List Val} (hm : HeadNotMacro st env f) (hsf : a0sym f ∉ specialForms)
    (nps : List (String × Option Pos)) (hamp : ∀ np ∈ nps, np.1 ≠ "&") (pa : Option Pos) (r : String)
    (pr : Option Pos) (junk : List Val) (pp : Option Pos) {body : Val} {fenv : Nat} {m : Bool} {fp : Option Pos}
    {vs : List Val} {st1 : State} (hl : nps.length ≤ vs.length)
    (hargs : semList F st env (f :: args) =
      (.ok (.fn (.list (mkParams nps ++ .sym "&" pa :: .sym r pr :: junk) pp) body fenv m fp :: vs), st1)) :
    sem (F+1) st env (.list (f :: args) pos) =
      sem F (st1.newScope fenv (ainsert r (.list (vs.drop nps.length) none) (bindFixed (nps.map (·.1)) vs []))).1
        (st1.newScope fenv (ainsert r (.list (vs.drop nps.length) none) (bindFixed (nps.map (·.1)) vs []))).2 body :=
  Proofs.BigStepRefine.sem_call_closure hm hsf hargs (Proofs.EvalLaws.bindParams_rest nps hamp pa r pr junk pp vs hl).1

/-- too few or too many arguments: an (unpositioned) error in the state the arguments left; no scope is
    created and the body is not evaluated -/
theorem arity_errors_exact {f : Val} {args : List Val} (hm : HeadNotMacro st env f) (hsf : a0sym f ∉ specialForms)
    (nps : List (String × Option Pos)) (hamp : ∀ np ∈ nps, np.1 ≠ "&") (pp : Option Pos)
    {body : Val} {fenv : Nat} {m : Bool} {fp : Option Pos} {vs : List Val} {st1 : State}
    (hl : vs.length ≠ nps.length)
    (hargs : semList F st env (f :: args) = (.ok (.fn (.list (mkParams nps) pp) body fenv m fp :: vs), st1)) :
    ∃ msg, sem (F+1) st env (.list (f :: args) pos) = (.err (.lisp (.goerr (msg ++ " (around do)")) none), st1) := by
  rcases Nat.lt_or_gt_of_ne hl with h | h
  · obtain ⟨msg, hb⟩ := (Proofs.EvalLaws.bindParams_too_few nps hamp pp vs h).1
    exact ⟨msg, Proofs.BigStepRefine.sem_call_arity_error hm hsf hargs hb⟩
  · obtain ⟨msg, hb⟩ := (Proofs.EvalLaws.bindParams_too_many nps hamp pp vs h).1
    exact ⟨msg, Proofs.BigStepRefine.sem_call_arity_error hm hsf hargs hb⟩

/-- calling a builtin: it is applied to the argument values; its error is positioned at the call -/
theorem builtin_call {f : Val} {args : List Val} (hm : HeadNotMacro st env f) (hsf : a0sym f ∉ specialForms)
    {name : String} {vs : List Val} {st1 : State}
    (hargs : semList F st env (f :: args) = (.ok (.builtin name :: vs), st1)) :
    sem (F+1) st env (.list (f :: args) pos) =
      match callBuiltin F st1 name vs 0 with
      | (.ok v, st2) => (.ok v, st2)
      | (.err e, st2) => (.err (newLispError e (.list (f :: args) pos)), st2)
      | (.oof, st2) => (.oof, st2) :=
  Proofs.BigStepRefine.sem_call_builtin hm hsf hargs

/-- a head that is neither a closure nor a builtin is an error (after the operands were evaluated) -/
theorem non_callable_head_errors {f : Val} {args : List Val} (hm : HeadNotMacro st env f)
    (hsf : a0sym f ∉ specialForms) {fv : Val} {vs : List Val} {st1 : State}
    (hargs : semList F st env (f :: args) = (.ok (fv :: vs), st1))
    (hnf : ∀ ps b e m p, fv ≠ .fn ps b e m p) (hnb : ∀ n, fv ≠ .builtin n) :
    sem (F+1) st env (.list (f :: args) pos) = (.err (.lisp (.goerr "attempt to call non-function") none), st1) :=
  Proofs.BigStepRefine.sem_call_non_callable hm hsf hargs hnf hnb

/-! non-vacuity: the definition and the evaluator computed by the kernel on the harness environment
    (the standing conditions hold on `initState`, see above) -/

/-- run a program with the definition -/
private def runSem (prog : Val) : R := sem 300 initState 0 prog

/-- both give the integer `n` and the effects `tr` (most recent first) -/
private def agreeOn (prog : Val) (n : Int) (tr : List Int) : Bool :=
  isInt (run prog) n && isInt (runSem prog) n && traceIs (run prog) tr && traceIs (runSem prog) tr

/-- a closure counter: `(let (c (atom 0) inc (fn () (trace! (swap! c (fn (n) (+ n 1)))))) (do (inc) (inc) (deref c)))`
    ⇒ 2 with effects 1, 2 -/
example : agreeOn
    (L [S "let", L [S "c", L [S "atom", I 0],
                   S "inc", L [S "fn", L [], L [S "trace!", L [S "swap!", S "c", L [S "fn", L [S "n"], L [S "+", S "n", I 1]]]]]],
      L [S "do", L [S "inc"], L [S "inc"], L [S "deref", S "c"]]]) 2 [2, 1] = true := by
  decide +kernel

/-- fib with a traced argument:
    `(do (def fib (fn (n) (do (trace! n) (if (< n 2) n (+ (fib (- n 1)) (fib (- n 2))))))) (fib 4))`
    ⇒ 3 with effects 4 3 2 1 0 1 2 1 0 in this order -/
example : agreeOn
    (L [S "do",
      L [S "def", S "fib", L [S "fn", L [S "n"],
        L [S "do", L [S "trace!", S "n"],
          L [S "if", L [S "<", S "n", I 2], S "n",
            L [S "+", L [S "fib", L [S "-", S "n", I 1]], L [S "fib", L [S "-", S "n", I 2]]]]]]],
      L [S "fib", I 4]]) 3 [0, 1, 2, 1, 0, 1, 2, 3, 4] = true := by
  decide +kernel

/-- a shadowing `let`: `(let (x 1) (do (trace! x) (let (x 2) (trace! x)) (trace! x)))` ⇒ 1 with effects 1 2 1 -/
example : agreeOn
    (L [S "let", L [S "x", I 1],
      L [S "do", L [S "trace!", S "x"], L [S "let", L [S "x", I 2], L [S "trace!", S "x"]], L [S "trace!", S "x"]]])
    1 [1, 2, 1] = true := by
  decide +kernel

/-- they agree on errors too: `(+ (trace! 1) (nope) (trace! 2))` is an error after the single effect 1 -/
example : (let prog := L [S "+", L [S "trace!", I 1], L [S "nope"], L [S "trace!", I 2]];
    isErr (run prog) && isErr (runSem prog) && traceIs (run prog) [1] && traceIs (runSem prog) [1]) = true := by
  decide +kernel

/-- a delegated form (a macro call) inside the fragment:
    `(do (defmacro twice (fn (x) (list 'do x x))) (twice (trace! 7)))` ⇒ 7 with effects 7 7 -/
example : agreeOn
    (L [S "do",
      L [S "defmacro", S "twice", L [S "fn", L [S "x"], L [S "list", L [S "quote", S "do"], S "x", S "x"]]],
      L [S "twice", L [S "trace!", I 7]]]) 7 [7, 7] = true := by
  decide +kernel

end D5

/-! ### END D5 -/

/-! ## laws added after the seeded changes of rounds 3–5 -/
open LispModel.Proofs.SeedLaws (Sy Ls Nm runTop okIs traceEq failed)

/-- the operator is evaluated BEFORE the operands: a call form `(h a₁ … aₙ)` whose head `h` evaluates with
    an error returns that error in the state reached by evaluating `h` ALONE — no operand is evaluated -/
theorem operator_before_operands (hc : st.cancelAt = none) (hs : st.stepper = none) {h : Val}
    (args : List Val) (hm : HeadNotMacro st env h) (hsf : a0sym h ∉ specialForms) {e : Err} {st1 : State}
    (hh : eval F (tick st) env h (d+1) = (.err e, st1)) :
    evalLoop (F+2) st env (.list (h :: args) pos) d = (.err e, st1) :=
  Proofs.SeedLaws.C01.operator_before_operands hc hs args hm hsf hh

/-- in particular an unbound head symbol: its "not found" error after the two polls of the call form and
    of the symbol, whatever the operands are -/
theorem unbound_operator_before_operands (hc : st.cancelAt = none) (hs : st.stepper = none) {s : String}
    (p : Option Pos) (args : List Val) (hsf : s ∉ specialForms) (hu : st.get env s = none) :
    evalLoop (F+5) st env (.list (.sym s p :: args) pos) d =
      (.err (.lisp (.goerr ("symbol '" ++ s ++ "' not found")) p), tick (tick st)) :=
  Proofs.SeedLaws.C01.unbound_operator_before_operands hc hs p args hsf hu

/-- `((do (trace! 1) +) (trace! 2) (trace! 3))` ⇒ 5 with the effects 1, 2, 3 in this order -/
theorem operator_effects_first :
    (let r := runTop (Ls [Ls [Sy "do", Ls [Sy "trace!", Nm 1], Sy "+"], Ls [Sy "trace!", Nm 2], Ls [Sy "trace!", Nm 3]]);
     okIs r (Nm 5) && traceEq r [Nm 1, Nm 2, Nm 3]) = true :=
  Proofs.SeedLaws.C01.operator_effects_first

/-- `(nope (trace! 1))`: an error, and no effect -/
theorem unbound_operator_example :
    (let r := runTop (Ls [Sy "nope", Ls [Sy "trace!", Nm 1]]); failed r && traceEq r []) = true :=
  Proofs.SeedLaws.C01.unbound_operator_example


/-! ## the environment object itself (env/env.go as an abstract data type; model LispModel/EnvAlg.lean, engine envalg)

The evaluator model keeps scopes in its own store; these laws are about the Go package the evaluator (and every embedder)
calls — `Set / Get / Find / Remove / Update` and the parameter binder `_newSubordinateEnvWithBinds` — tied to the real
package through its exported API by engine `envalg`. -/

open LispModel.EnvAlg in
/-- the innermost binding wins: after `Set` in a scope, `Get` from that scope answers it whatever the ancestors hold -/
theorem env_innermost_binding_wins {st : Store} {child : Nat} (h : child < st.length) (k : String) (v : V) :
    get (set st child k v).1 child k = .ok v ∧ find (set st child k v).1 child k = .ok (some child) :=
  innermost_wins h k v

open LispModel.EnvAlg in
/-- a binding made in a scope is invisible from every older scope (parents, siblings' parents, the globals) -/
theorem env_set_does_not_touch_older_scopes {st : Store} (hwf : WF st) {child j : Nat} (hj : j < child)
    (k : String) (v : V) (k' : String) :
    get (set st child k v).1 j k' = get st j k' ∧ find (set st child k v).1 j k' = find st j k' :=
  set_child_does_not_touch_parent hwf hj k v k'

open LispModel.EnvAlg in
/-- without `&` the binder succeeds exactly when there are as many arguments as parameters -/
theorem binder_positional_arity_exact (binds exprs : List V) (hp : ∀ b ∈ binds, V.plain b = true) :
    (∃ d, bindSeq binds exprs = .ok d) ↔ binds.length = exprs.length := bind_positional_ok_iff binds exprs hp

open LispModel.EnvAlg in
/-- with `& r` the binder needs at least the positional arguments and binds `r` to the LIST of the others -/
theorem binder_rest_collects (pre : List V) (r : String) (tail exprs : List V) (hp : ∀ b ∈ pre, V.plain b = true) :
    bindSeq (pre ++ .sym "&" :: .sym r :: tail) exprs =
      if exprs.length < pre.length then .err (.tooFew (pre ++ V.sym "&" :: .sym r :: tail).length exprs.length)
      else .ok (dset r (.list (exprs.drop pre.length)) (insertAll [] (List.zip (pre.map V.symName) exprs))) :=
  EnvAlg.bind_rest pre r tail exprs hp

open LispModel.EnvAlg in
/-- a call's scope is fresh: new id, child of the closure's scope, no existing scope changed -/
theorem binder_scope_is_fresh {st st' : Store} {outer id : Nat} {bm em : V}
    (h : bind st outer bm em = (st', .ok id)) :
    id = st.length ∧ (∃ d, bindData bm em = .ok d ∧ st' = st ++ [⟨d, some outer⟩]) ∧
    st'.length = st.length + 1 ∧ (∀ j, j < st.length → st'[j]? = st[j]?) ∧
    (∃ sc, st'[id]? = some sc ∧ sc.outer = some outer) := bind_fresh_scope h

open LispModel.EnvAlg in
/-- the binder never panics, whatever is passed as parameter list and argument list -/
theorem binder_never_panics (st : Store) (outer : Nat) (bm em : V) (s : String) :
    (bind st outer bm em).2 ≠ .panic s := bind_no_panic st outer bm em s


/-! ## coherence: the evaluator model and the `env` slice are two models of the SAME Go functions, and they agree
(statements in `Proofs/Coherence.lean`; the slice is tied to env/env.go by engine envalg, the evaluator model by eval / enum) -/

/-- the evaluator's parameter binder (`bindParams`) succeeds exactly when the mirror of `_newSubordinateEnvWithBinds` does -/
theorem binder_models_succeed_together : type_of% @LispModel.Coherence.Binder.binder_success_iff :=
  @LispModel.Coherence.Binder.binder_success_iff
/-- … with the same bindings … -/
theorem binder_models_bind_the_same : type_of% @LispModel.Coherence.Binder.binder_bindings_agree :=
  @LispModel.Coherence.Binder.binder_bindings_agree
/-- … and otherwise the same error (class, and the counts in it) -/
theorem binder_models_fail_alike : type_of% @LispModel.Coherence.Binder.binder_error_class_agrees :=
  @LispModel.Coherence.Binder.binder_error_class_agrees
/-- symbol lookup through the scope chain: the evaluator's store and the `env` slice answer alike -/
theorem lookup_models_agree : type_of% @LispModel.Coherence.Scoped.lookup_agrees := @LispModel.Coherence.Scoped.lookup_agrees
/-- `def` / `Set` keep the two stores in correspondence -/
theorem define_models_agree : type_of% @LispModel.Coherence.Scoped.define_agrees := @LispModel.Coherence.Scoped.define_agrees

end LispModel.Props.C01

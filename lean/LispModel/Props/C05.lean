/-
  C05 — reading never panics or hangs: every text yields an AST or an error.

  `tokenize`, `readStr`, `readWithPreamble` and `print` are total Lean functions (their termination
  is checked by the kernel: the model cannot hang).  The theorems below show that none of the partial
  Go operations mirrored in the model (`RErr.panic`) is reachable, for every byte string, with or
  without environment, with or without placeholder table.
  Property theorems only (helper lemmas live in Proofs/Reader.lean, Proofs/Scanner.lean).
-/
import LispModel.Read
import LispModel.Print
import LispModel.Preamble
import LispModel.Spec.Readable
import LispModel.Util
import LispModel.Proofs.Reader
import LispModel.Proofs.SeedLaws
namespace LispModel.Props.C05
open LispModel

def isPanic {α} : Except Read.RErr α → Bool
  | .error (.panic _) => true
  | _ => false

/-- `READ` / `read-string`: for every byte string, configuration (module name, placeholder table
    present or not, environment present or not) the outcome is a value or an ordinary error. -/
theorem read_never_panics (cfg : Read.Cfg) (bytes : List UInt8) :
    isPanic (Read.readStr cfg bytes) = false := by
  have h := Proofs.Reader.readStr_no_panic cfg bytes
  unfold isPanic
  split
  · rename_i s hs; exact absurd hs (h s)
  · rfl

/-- `READWithPreamble`: likewise, for every byte string (any mix of preamble lines and source). -/
theorem readWithPreamble_never_panics (cfg : Read.Cfg) (bytes : List UInt8) (site : String) :
    ¬ (∃ v, Preamble.readWithPreamble cfg bytes = .err (.panic site) ∧ v = ()) := by
  rintro ⟨_, h, _⟩
  exact Proofs.Reader.readWithPreamble_no_panic cfg bytes site h

/-- whenever reading succeeds, `PRINT` of the result is a string (a total function) -/
theorem print_total (cfg : Read.Cfg) (bytes : List UInt8) (v : Val) (_h : Read.readStr cfg bytes = .ok v) :
    ∃ s : List Char, Print.print v = s := ⟨_, rfl⟩

/-- the witnesses of the repaired defects D2 and D4 are ordinary errors / values now -/
theorem reader_macro_at_eof_is_an_error : isPanic (Read.readStr {} (bytes% "'")) = false := by decide
theorem placeholder_without_table_reads : isPanic (Read.readStr {} (bytes% "$x")) = false := by decide
set_option maxRecDepth 10000 in
theorem empty_constructor_is_an_error : isPanic (Read.readStr { hasEnv := true } (bytes% "«»")) = false := by decide

/-! ## laws added after the seeded changes of rounds 3–5 -/
open LispModel.Proofs.SeedLaws (Sy Ls readsAs)

/-- `True`, `NIL`, `Nil`, `FALSE`, `TRUE`, `False` read as SYMBOLS … -/
theorem capitalised_literals_are_symbols :
    (readsAs (bytes% "True") (Sy "True") && readsAs (bytes% "NIL") (Sy "NIL") &&
     readsAs (bytes% "Nil") (Sy "Nil") && readsAs (bytes% "FALSE") (Sy "FALSE") &&
     readsAs (bytes% "TRUE") (Sy "TRUE") && readsAs (bytes% "False") (Sy "False")) = true :=
  Proofs.SeedLaws.C05.capitalised_literals_are_symbols

/-- … and `nil`, `true`, `false` as the literals -/
theorem lowercase_literals_are_literals :
    (readsAs (bytes% "nil") .nil && readsAs (bytes% "true") (.bool true) &&
     readsAs (bytes% "false") (.bool false) &&
     readsAs (bytes% "(nil Nil true True false False)")
       (Ls [.nil, Sy "Nil", .bool true, Sy "True", .bool false, Sy "False"])) = true :=
  Proofs.SeedLaws.C05.lowercase_literals_are_literals

end LispModel.Props.C05

/-
  C05 — property theorems (see DESIGN.md §6 C05).  Helper lemmas live in Proofs/.
-/
import LispModel.Read
import LispModel.Print
import LispModel.Preamble
import LispModel.Spec.Readable
import LispModel.Util
namespace LispModel.Props.C05
open LispModel

def isPanic {α} : Except Read.RErr α → Bool
  | .error (.panic _) => true
  | _ => false

/-- the witnesses of the repaired defects D2 and D4 are ordinary errors / values now -/
theorem reader_macro_at_eof_is_an_error : isPanic (Read.readStr {} (bytes% "'")) = false := by decide
theorem placeholder_without_table_reads : isPanic (Read.readStr {} (bytes% "$x")) = false := by decide
set_option maxRecDepth 10000 in
theorem empty_constructor_is_an_error : isPanic (Read.readStr { hasEnv := true } (bytes% "«»")) = false := by decide

end LispModel.Props.C05

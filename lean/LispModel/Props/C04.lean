/-
  C04 — property theorems (see DESIGN.md §6 C04).  Helper lemmas live in Proofs/.
-/
import LispModel.Eval
namespace LispModel.Props.C04
open LispModel

end LispModel.Props.C04

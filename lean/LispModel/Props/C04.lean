/-
  C04 — evaluation never panics into the host: every failure is a returned error (see DESIGN.md §6 C04).

  In the model every evaluator function returns a `Res`: a value, an error (`Err.lisp` — a LispError with
  its payload — or `Err.plain` — another Go error), or `oof` (the model's fuel ran out: not an outcome of
  the Go program).  There is no fourth outcome: the Go panics that the unrepaired code let escape are
  modelled, after the repairs (D1, D3, D6, D7), as ordinary `Res.err` returns — that the real code agrees
  is what the differential engines of this property check.  The theorems below show that those errors are
  ordinary lisp errors: `try`/`catch` handles every one of them.
  Standard side conditions: no debugger, context not cancelled, `try` not shadowed by a macro.
  Property theorems only; proofs in Proofs/EvalTry.lean.
-/
import LispModel.Eval
import LispModel.Proofs.EvalTry
namespace LispModel.Props.C04
open LispModel LispModel.Core LispModel.Proofs.EvalCancel LispModel.Proofs.EvalTry

/-- EVAL returns either a value or an error (or the model runs out of fuel): exactly three outcomes. -/
theorem eval_outcomes_total (F : Nat) (st : State) (env : Nat) (ast : Val) (d : Nat) :
    (∃ v, (eval F st env ast d).1 = .ok v) ∨ (∃ e, (eval F st env ast d).1 = .err e) ∨
      (eval F st env ast d).1 = .oof :=
  res_cases _

/-- Every such error is an ordinary lisp error that try/catch can handle: for EVERY form `ast`, if its
    evaluation as the body of a try (after the try form's poll, one EVAL frame deeper) returns an error `e`
    — whatever its origin: malformed special form, wrong argument count or type, a builtin's Go error or
    recovered panic, `throw` — then `(try ast (catch x :caught))` returns the keyword `:caught`; the final
    state is the failing run's state plus the handler scope `x ↦ payload of e` and the handler's poll. -/
theorem errors_are_catchable (st : State) (hs : st.stepper = none) (hc : st.cancelAt = none) (env : Nat)
    (hm : NotMacro st env "try") (x : String) (hx : x ≠ "&") (F : Nat) (ast : Val) (d : Nat) (e : Err) (s1 : State)
    (h : eval (F + 3) (tick st) env ast (d + 1) = (.err e, s1)) :
    eval (F + 7) st env (tryCatchForm ast x) d =
      (.ok (Val.kw "caught"), tick (s1.newScope env [(x, caughtValue e)]).1) :=
  Proofs.EvalTry.errors_are_catchable hs hc hm hx F ast d e s1 h

/-- Malformed special forms are errors, for all operands:
    `(fn)`; `(def <non-symbol> v)` for every `v` that evaluates; `(let <odd bindings> …)`;
    a call of a closure with a non-symbol parameter such as `((fn (1) 2) 3)`; `(try x (catch))`. -/
theorem malformed_special_forms_are_errors (st : State) (hl : Live st) (env : Nat) (F : Nat) (p pos : Option Pos)
    (d : Nat) :
    (NotMacro st env "fn" → ∃ e, evalLoop (F + 2) st env (.list [.sym "fn" p] pos) d = (.err e, tick st)) ∧
    (NotMacro st env "def" → ∀ a1 a2 rest res s1, (∀ s q, a1 ≠ .sym s q) →
      eval (F + 1) (tick st) env a2 (d + 1) = (.ok res, s1) →
      ∃ e, evalLoop (F + 2) st env (.list (.sym "def" p :: a1 :: a2 :: rest) pos) d = (.err e, s1)) ∧
    (NotMacro st env "let" → ∀ a1 rest arr, seqOf? a1 = some arr → arr.length % 2 ≠ 0 →
      ∃ e, evalLoop (F + 2) st env (.list (.sym "let" p :: a1 :: rest) pos) d =
        (.err e, ((tick st).newScope env []).1)) ∧
    (∀ bad ps pp body fenv m fp args ast, (∀ s q, bad ≠ .sym s q) →
      ∃ e, callArm F st (.fn (.list (bad :: ps) pp) body fenv m fp :: args) ast d = (.err e, st)) ∧
    (NotMacro st env "try" → ∀ x q cargs cp, cargs.length ≤ 1 →
      ∃ e, evalLoop (F + 2) st env (.list [.sym "try" p, x, .list (.sym "catch" q :: cargs) cp] pos) d =
        (.err e, tick st)) :=
  ⟨fun hm => ⟨_, fn_without_params hl hm F p pos d⟩,
   fun hm a1 a2 rest res s1 ha h => ⟨_, def_non_symbol hl hm F p a1 a2 rest pos d ha res s1 h⟩,
   fun hm a1 rest arr ha hodd => ⟨_, let_odd_bindings hl hm F p a1 rest pos d arr ha hodd⟩,
   fun bad ps pp body fenv m fp args ast hbad => ⟨_, call_non_symbol_param F st bad ps pp body fenv m fp args ast d hbad⟩,
   fun hm x q cargs cp hshort => ⟨_, try_short_catch hl hm F p x q cargs cp pos d hshort⟩⟩

/-- Wrong argument counts and wrong argument types: a reflectively bound builtin (every builtin except the
    eleven with store effects or callbacks, `effectfulNames`) whose binder check `checkSig` rejects the
    arguments returns an error — in Go the recovered `reflect.Value.Call` panic — and changes nothing; the
    application arm then re-wraps it (`callArm_builtin_err`), and `errors_are_catchable` applies. -/
theorem wrong_arguments_are_errors (F : Nat) (st : State) (name : String) (args : List Val) (d : Nat)
    (hn : name ∉ effectfulNames) (s : Sig) (hs : sigOf name = some s) (msg : String)
    (hc : checkSig s args = some msg) :
    ∃ e, callBuiltin (F + 1) st name args d = (.err e, st) :=
  wrong_arguments_error F st name args d hn s hs msg hc

/-! ### non-vacuity: concrete malformed programs on `initState`, each caught by try/catch -/

private def sy (s : String) : Val := .sym s none
private def ls (xs : List Val) : Val := .list xs none
private def caught (ast : Val) : Bool :=
  match (eval 200 initState 0 (tryCatchForm ast "e") 0).1 with
  | .ok v => (match v with | .str s => s == (Val.kw "caught" |> fun | .str t => t | _ => "") | _ => false)
  | _ => false
private def fails (ast : Val) : Bool := (eval 200 initState 0 ast 0).1 matches .err _

/-- `(fn)`, `(def 1 2)`, `(let (a) a)`, `((fn (1) 2) 3)`, `(try 1 (catch))`, `(+ 1 "a")`, `(nth [] 5)`,
    `(undefined-symbol)`, `(1 2)`, `(throw 1)`: each is an error, each is caught. -/
example :
    let progs : List Val := [
      ls [sy "fn"], ls [sy "def", .int 1, .int 2], ls [sy "let", ls [sy "a"], sy "a"],
      ls [ls [sy "fn", ls [.int 1], .int 2], .int 3], ls [sy "try", .int 1, ls [sy "catch"]],
      ls [sy "+", .int 1, .str "a"], ls [sy "nth", .vec [] none, .int 5], ls [sy "undefined-symbol"],
      ls [.int 1, .int 2], ls [sy "throw", .int 1]]
    (progs.all fails && progs.all caught) = true := by decide +kernel

end LispModel.Props.C04

/-
  C17 — property theorems.  Helper lemmas live in Proofs/Positions.lean, Proofs/Layout.lean,
  Proofs/EvalErase.lean.

  "Runtime errors point at the failing form.  When a program read from text under a module name fails
  during evaluation in the calling thread and the error carries a position, the position names that
  module, lies within the lines of the smallest top-level form that textually contains the faulty
  expression, and covers the line on which the faulty expression starts.  This holds wherever the fault
  sits (directly, inside let/if/do, inside collection literals, inside the operands of library macros,
  inside the body of a function or closure called later) and is not shifted by comments, blank lines or
  multi-line raw strings before it."

  Vocabulary: `AllPos P v` — every cursor occurring in `v` (symbols, lists, vectors, closures with
  parameters and body, map values; recursively) satisfies `P`; `StAll P st` — the same for every value
  anywhere in the state; `ErrAll P e` / `ResAll` — payload and position of a returned error;
  `InRows m lo hi p` — `p` names module `m` and lies between rows `lo` and `hi`;
  `LinesMono ts` — token lines never decrease along the stream; `feed`, `newlines` — the scanner's
  bookkeeping after reading some runes, the number of newline runes among them; `Gap` — white space
  and whole comments; `runForms` — top-level forms fed one by one to `EVAL`.
-/
import LispModel.Proofs.Coherence
import LispModel.Proofs.LispErrorLaws
import LispModel.Proofs.PositionLaws
import LispModel.Proofs.Positions
import LispModel.Proofs.LayoutFull
import LispModel.Util
import LispModel.Proofs.SeedLaws
namespace LispModel.Props.C17
open LispModel LispModel.Read LispModel.Scan
open LispModel.Proofs.Positions LispModel.Proofs.Layout LispModel.Proofs.Reader
open LispModel.Proofs.EvalErase (firstPos PosMap)

/-! ### reader side: which cursor each AST node gets -/

/-- every cursor in the AST returned by `readStr {module := some m}` names the module `m` (values of a
    placeholder table are inserted as they are, so they must satisfy the claim themselves) -/
theorem reader_positions_name_module {cfg : Cfg} {m : String} (hm : cfg.module = some m)
    (hphs : PhsAll (fun p => p.module = some m) cfg) {bytes : List UInt8} {v : Val}
    (h : readStr cfg bytes = .ok v) : AllPos (fun p => p.module = some m) v :=
  readStr_module hm hphs h

/-- a symbol's cursor is the cursor of its token: `beginRow` and `row` are the token's line -/
theorem symbol_row_is_its_token_line {cfg : Cfg} {t : Token} {s : String} {o : Option Pos}
    (h : readAtom cfg t = .ok (.sym s o)) :
    ∃ p, o = some p ∧ p.beginRow = t.line ∧ p.row = t.line ∧ p.module = cfg.module :=
  ⟨tokPos cfg t, readAtom_sym_pos h, rfl, rfl, rfl⟩

/-- a list node's `beginRow` is the line of its opening token and its `row` the line of its closing token
    (`ts = pre ++ close :: rest`: the node consumed `(`, `pre` and the closing token) -/
theorem list_rows_span_open_to_close {cfg : Cfg} {f : Nat} {t : Token} {ts rest : List Token} {v : Val}
    (ht : tokStr t = "(") (h : readForm f cfg (t :: ts) = .ok (v, rest)) :
    ∃ xs close pre pos, v = .list xs (some pos) ∧ ts = pre ++ close :: rest ∧ tokStr close = ")" ∧
      pos.beginRow = t.line ∧ pos.row = close.line ∧ pos.module = cfg.module :=
  list_rows ht h

/-- the same for a vector node -/
theorem vector_rows_span_open_to_close {cfg : Cfg} {f : Nat} {t : Token} {ts rest : List Token} {v : Val}
    (ht : tokStr t = "[") (h : readForm f cfg (t :: ts) = .ok (v, rest)) :
    ∃ xs close pre pos, v = .vec xs (some pos) ∧ ts = pre ++ close :: rest ∧ tokStr close = "]" ∧
      pos.beginRow = t.line ∧ pos.row = close.line ∧ pos.module = cfg.module :=
  vec_rows ht h

/-- the lines recorded for the tokens never decrease along the token stream -/
theorem token_lines_monotone (bytes : List UInt8) (toks : List Token) (h : tokenize bytes = .ok toks) :
    LinesMono toks :=
  tokenizeRunes_lines_mono _ _ h

/-- every cursor inside a list node (and the node's own) lies between the node's `beginRow` (line of the
    opening token) and its `row` (line of the closing token), token lines being monotone.  (Without a
    placeholder table: a placeholder value brings its own cursors.) -/
theorem child_rows_within_parent {cfg : Cfg} {f : Nat} {t : Token} {ts rest : List Token} {v : Val}
    (ht : tokStr t = "(") (hphs : cfg.phs = none) (hmono : LinesMono (t :: ts))
    (h : readForm f cfg (t :: ts) = .ok (v, rest)) :
    ∃ xs pos, v = .list xs (some pos) ∧
      AllPosList (fun p => pos.beginRow ≤ p.beginRow ∧ p.row ≤ pos.row) xs :=
  list_children_rows ht hphs hmono h

/-- … and for a vector node -/
theorem child_rows_within_parent_vector {cfg : Cfg} {f : Nat} {t : Token} {ts rest : List Token} {v : Val}
    (ht : tokStr t = "[") (hphs : cfg.phs = none) (hmono : LinesMono (t :: ts))
    (h : readForm f cfg (t :: ts) = .ok (v, rest)) :
    ∃ xs pos, v = .vec xs (some pos) ∧
      AllPosList (fun p => pos.beginRow ≤ p.beginRow ∧ p.row ≤ pos.row) xs :=
  vec_children_rows ht hphs hmono h

/-- non-vacuity: `;; c⏎⏎(a⏎ b)` read under module `m` — the list spans rows 3 to 4 (comment and blank
    line counted), and every cursor names `m` -/
example : (match readStr { module := some "m" } (bytes% ";; c\n\n(a\n b)") with
    | .ok v => getPosition v | .error _ => none) =
    some { module := some "m", beginRow := 3, beginCol := 2, row := 4, col := 16 } := by decide

/-! ### layout: rows count newlines -/

/-- the scanner's line counter after reading the runes `rs` is the line it started on plus the number of
    newline runes among them (`next` increments `line` exactly on rune 10); a fresh scanner starts on
    line 1 -/
theorem rows_count_newlines (rs : List Rune) (p : PState) :
    (feed rs p).line = p.line + newlines rs ∧ (feed rs {}).line = 1 + newlines rs :=
  ⟨feed_line rs p, feed_line rs {}⟩

/-- the line recorded for a token (`Scanner.Pos().Line` after it) is the line counter — minus one while
    the look-ahead is the newline that has just been read (`column = 0`): that newline is not "before"
    the position yet -/
theorem recorded_line (p : PState) :
    effLine p = if p.column > 0 then p.line else if p.lastLineLen > 0 then p.line - 1 else 1 :=
  effLine_eq p

/-- a gap — white space (blank lines) and whole comment lines — BEFORE a form is invisible to `Scan` except
    through the bookkeeping: scanning in front of the gap is scanning behind it, with the line counter
    advanced by exactly the number of newlines of the gap (`k` = number of comments, the fuel of the
    scanner's `goto redo`).
    Partial: that the rows of the tokens scanned afterwards depend on the bookkeeping only through this
    shift (equivariance of all scanning functions in `line`) is not proved here. -/
theorem rows_shift_by_newlines_before_partial {g : List Rune} (hg : Gap g) :
    ∃ k, k ≤ g.length ∧ ∀ f post ch p, isWhite ch = true →
      scan (f + 1 + k) (g ++ post) ch p = scan (f + 1) post (lastCh ch g) (feed g p) ∧
      isWhite (lastCh ch g) = true ∧ (feed g p).line = p.line + newlines g :=
  gap_shifts_lines hg

/-- the full statement: inserting a gap with `n` newlines before a form shifts the rows of all its tokens
    by exactly `n` and changes neither kinds nor texts (not proved: see above) -/
def rows_shift_by_newlines_before_statement : Prop :=
  ∀ (g g' post : List Rune), Gap g → Gap g' → g ≠ [] → g' ≠ [] →
    ∀ toks toks', tokenizeRunes (g ++ post) = .ok toks → tokenizeRunes (g' ++ post) = .ok toks' →
      toks.map (fun t => (t.kind, t.text, t.line + newlines g')) =
        toks'.map (fun t => (t.kind, t.text, t.line + newlines g))

/-- non-vacuity: a comment line and a blank line before `(a⏎ b)` shift both rows by 2 -/
example : (match readStr { module := some "m" } (bytes% "(a\n b)") with
    | .ok v => getPosition v | .error _ => none) =
    some { module := some "m", beginRow := 1, beginCol := 2, row := 2, col := 10 } := by decide

/-! ### layout: rows count newlines — the full statements (Proofs/LayoutFull.lean) -/

open LispModel.Proofs.LayoutFull

/-- **the full statement above holds**: replacing the gap in front of a form by another gap changes neither
    kinds nor texts and shifts the row of every token by exactly the difference of the numbers of newlines -/
theorem rows_shift_by_newlines_before : rows_shift_by_newlines_before_statement := by
  intro g g' post hg hg' hne hne' toks toks' h h'
  exact allRel_map _ _ (fun a b (r : TokSh (newlines g) (newlines g') a b) => by
    show (a.kind, a.text, a.line + newlines g') = (b.kind, b.text, b.line + newlines g)
    rw [r.1, r.2.1, r.2.2]) (layout_leading_gap g g' post hg hg' hne hne' h h')

/-- **rows, in general**: a gap `g` (possibly empty) standing at a point between two tokens, before the first
    or after the last token of `pre ++ g ++ post` (`hpoint`: the token loop passes through the state that has
    just read the first rune behind `pre`, having recorded `tsPre`) is replaced by a non-empty gap `g'`.  Then
    the tokens of the two texts correspond one to one: the tokens recorded up to that point (`tsPre`) keep
    kind, text and row (`TokSame`; the row of the last of them only when the first text does not end right
    there); every token behind it keeps kind and text and has its row shifted by exactly
    `newlines g' - newlines g` (`TokSh`: `t'.line + newlines g = t.line + newlines g'`). -/
theorem rows_shift_after_gap (pre g g' post : List Rune) (hg : Gap g) (hg' : Gap g') (hne' : g' ≠ [])
    (hbom : pre ≠ [] ∨ hdCh (g ++ post) ≠ 0xFEFF) {tsPre : List Token} {fin : St}
    (hpoint : Steps (start (pre ++ (g ++ post))) tsPre fin) (hf1 : fin.1 = hdCh (g ++ post))
    (hf2 : fin.2.1 = (g ++ post).tail) {toks toks' : List Token}
    (h : tokenizeRunes (pre ++ (g ++ post)) = .ok toks) (h' : tokenizeRunes (pre ++ (g' ++ post)) = .ok toks') :
    ∃ tsPre' after after', toks = tsPre ++ after ∧ toks' = tsPre' ++ after' ∧
      AllRel (TokSame (g ++ post)) tsPre tsPre' ∧ AllRel (TokSh (newlines g) (newlines g')) after after' :=
  layout_main pre g g' post hg hg' hne' hbom hpoint hf1 hf2 h h'

/-- what the two correspondences say -/
theorem TokSame_spelled_out {x : List Rune} {t t' : Token} (h : TokSame x t t') :
    t.kind = t'.kind ∧ t.text = t'.text ∧ (x ≠ [] → t.line = t'.line) := h

theorem TokSh_spelled_out {n n' : Nat} {t t' : Token} (h : TokSh n n' t t') :
    t.kind = t'.kind ∧ t.text = t'.text ∧ t'.line + n = t.line + n' := h

/-- non-vacuity: two blank lines and a comment line instead of one space between `a` and `b`: the row of `a`
    stays 1, the row of `b` moves from 1 to 4 -/
example : ((match tokenize (bytes% "a b") with | .ok ts => some (ts.map (·.line)) | .error _ _ => none),
    (match tokenize (bytes% "a\n\n;c\nb") with | .ok ts => some (ts.map (·.line)) | .error _ _ => none)) =
    (some [1, 1], some [1, 4]) := by decide

/-! ### evaluator side: positions of errors come from cursors of the program -/

/-- `NewLispError` keeps the first position: an error that carries a position is never re-positioned -/
theorem newLispError_keeps_first_position (pl : Val) (q : Pos) (c : Val) :
    newLispError (.lisp pl (some q)) c = .lisp pl (some q) :=
  Proofs.Positions.newLispError_keeps_first_position pl q c

/-- a position is never invented: `NewLispError(err, carrier)` — the only way the evaluator attaches a
    position besides the cursor of an unbound symbol — yields the position the error already has, else
    the cursor `getPosition carrier` of the carrier (the current form, the binding vector, the body) -/
theorem error_position_is_a_carrier_cursor (e : Err) (c : Val) :
    errPos (newLispError e c) = firstPos (errPos e) (getPosition c) :=
  newLispError_position e c

/-- **the invariant over the evaluator block**: if every cursor occurring in the program and anywhere in
    the state satisfies `P`, then every cursor of the returned value or error — payload and position —
    and of the resulting state satisfies `P`.  (All 13 functions: `Proofs.EvalErase.comm`; stated here for
    `EVAL`, the loop and `Apply`.) -/
theorem error_positions_come_from_the_ast {P : Pos → Prop} (F : Nat) {st : State} (env : Nat) {ast : Val}
    (d : Nat) (hst : StAll P st) (hast : AllPos P ast) :
    ResAll (AllPos P) P (eval F st env ast d).1 ∧ StAll P (eval F st env ast d).2 :=
  eval_allPos F env d hst hast

theorem error_positions_come_from_the_ast_loop {P : Pos → Prop} (F : Nat) {st : State} (env : Nat)
    {ast : Val} (d : Nat) (hst : StAll P st) (hast : AllPos P ast) :
    ResAll (AllPos P) P (evalLoop F st env ast d).1 ∧ StAll P (evalLoop F st env ast d).2 :=
  evalLoop_allPos F env d hst hast

theorem error_positions_come_from_the_ast_apply {P : Pos → Prop} (F : Nat) {st : State} {f : Val}
    {args : List Val} (d : Nat) (hst : StAll P st) (hf : AllPos P f) (hargs : AllPosList P args) :
    ResAll (AllPos P) P (apply F st f args d).1 ∧ StAll P (apply F st f args d).2 :=
  apply_allPos F d hst hf hargs

/-- a runtime error of a program whose cursors (and those of the store) all name module `m` and lie
    between rows `lo` and `hi` carries — if any — a position that names `m` and lies within these rows -/
theorem error_position_within_program_rows {m : String} {lo hi : Int} (F : Nat) {st st' : State} (env : Nat)
    {ast pl : Val} {q : Pos} (d : Nat) (hst : StAll (InRows m lo hi) st) (hast : AllPos (InRows m lo hi) ast)
    (h : eval F st env ast d = (.err (.lisp pl (some q)), st')) : InRows m lo hi q :=
  eval_error_in_rows F env d hst hast h

/-- **"the position names that module"**: a program read from text under module `m` that fails during
    evaluation (on a store whose cursors, if any, name `m`) — the position of the error names `m` -/
theorem error_position_names_the_module {cfg : Cfg} {m : String} (hm : cfg.module = some m)
    (hphs : PhsAll (fun p => p.module = some m) cfg) {bytes : List UInt8} {v : Val}
    (h : readStr cfg bytes = .ok v) (F : Nat) {st st' : State} (env d : Nat) {pl : Val} {q : Pos}
    (hst : StAll (fun p => p.module = some m) st)
    (he : eval F st env v d = (.err (.lisp pl (some q)), st')) : q.module = some m :=
  read_eval_error_names_module hm hphs h F env d hst he

/-- **"lies within the lines of the top-level form"**, reader and evaluator together: a bracketed
    top-level form read under module `m`, evaluated on a store without cursors — the position of the
    error names `m` and lies between the line of the form's opening token and that of its closing token -/
theorem error_position_within_the_read_form {cfg : Cfg} {m : String} (hm : cfg.module = some m)
    (hphs : cfg.phs = none) {f : Nat} {t : Token} {ts rest : List Token} {T : Val} (ht : tokStr t = "(")
    (hmono : LinesMono (t :: ts)) (h : readForm f cfg (t :: ts) = .ok (T, rest))
    (F : Nat) {st st' : State} (env d : Nat) {pl : Val} {q : Pos} (hst : StAll (fun _ => False) st)
    (he : eval F st env T d = (.err (.lisp pl (some q)), st')) :
    ∃ close pre, ts = pre ++ close :: rest ∧ tokStr close = ")" ∧ InRows m t.line close.line q :=
  read_eval_error_within_form hm hphs ht hmono h F env d hst he

/-- the start-up state carries no cursor -/
theorem initState_has_no_cursors : StAll (fun _ => False) initState := initState_no_cursors

/-- the naive full statement: an error raised while a top-level form `T` is evaluated points into the
    rows of `T`, whatever the store holds.  It fails for a fault inside a closure defined by an earlier
    form (the property text then wants the rows of the defining form, which is what the partial
    statements below give) and, on the unchanged tree, for forms rebuilt by macro expansion (known
    finding D16b: the position-less error is positioned by the first positioned carrier it meets). -/
def error_position_within_top_form_statement : Prop :=
  ∀ (F env d : Nat) (m : String) (lo hi : Int) (st st' : State) (T pl : Val) (q : Pos),
    AllPos (InRows m lo hi) T → eval F st env T d = (.err (.lisp pl (some q)), st') → InRows m lo hi q

/-- the position of an error raised while a top-level form `T` is evaluated lies within the rows of `T`
    — or is one of the cursors already in the store (`Q`: closures and data left by earlier forms).
    In particular (`Q := fun _ => False`, e.g. on the start-up state or when the earlier forms left no
    cursors): within the rows of `T`. -/
theorem error_position_within_top_form_partial {m : String} {lo hi : Int} {Q : Pos → Prop} (F : Nat)
    {st st' : State} (env : Nat) {T pl : Val} {q : Pos} (d : Nat)
    (hst : StAll Q st) (hT : AllPos (InRows m lo hi) T)
    (h : eval F st env T d = (.err (.lisp pl (some q)), st')) : InRows m lo hi q ∨ Q q :=
  eval_error_in_form_or_store F env d hst hT h

/-- a program fed form by form (REPL, `load-file`) to the evaluator: the position of the first runtime
    error is a cursor of the failing form or of one of the forms evaluated before it (or of the initial
    store) — with `Rw T := InRows m (first row of T) (last row of T)`: it lies within the rows of one of
    the top-level forms evaluated so far -/
theorem error_position_within_some_top_form (Rw : Val → Pos → Prop) (F env : Nat) (forms : List Val)
    {Q : Pos → Prop} {st : State} (hst : StAll Q st) (hf : ∀ T ∈ forms, AllPos (Rw T) T)
    {T pl : Val} {q : Pos} {st' : State}
    (h : runForms F env st forms = (some (T, .lisp pl (some q)), st')) :
    ∃ pre post, forms = pre ++ T :: post ∧ (Q q ∨ ∃ T' ∈ pre ++ [T], Rw T' q) :=
  runForms_error_position Rw F env forms Q st hst hf T pl q st' h

/-! ## laws added after the seeded changes of rounds 3–5 -/
open LispModel.Proofs.SeedLaws.C17 (readModuleIs)

/-- without a module name in the configuration the reader takes it from the header line of the text … -/
theorem readStr_module_from_header {cfg : Cfg} (hm : cfg.module = none) (bytes : List UInt8) :
    readStr cfg bytes = readStr { cfg with module := modulePrefix bytes } bytes :=
  Proofs.SeedLaws.C17.readStr_module_from_header hm bytes

/-- … so with a first line `;; $MODULE name` every cursor of the read form names `name` -/
theorem module_from_header {cfg : Cfg} (hm : cfg.module = none) {bytes : List UInt8} {name : String}
    (hh : modulePrefix bytes = some name)
    (hphs : PhsAll (fun p => p.module = some name) cfg) {v : Val}
    (h : readStr cfg bytes = .ok v) : AllPos (fun p => p.module = some name) v :=
  Proofs.SeedLaws.C17.module_from_header hm hh hphs h

/-- with a module name in the configuration the header is not consulted (and
    `reader_positions_name_module` applies to the text whatever its first line says) -/
theorem module_header_ignored_when_named {cfg : Cfg} {m : String} (hm : cfg.module = some m)
    (bytes : List UInt8) :
    (if cfg.module.isNone then { cfg with module := modulePrefix bytes } else cfg) = cfg :=
  Proofs.SeedLaws.C17.module_header_ignored_when_named hm bytes

/-- the header names the module, also a name containing a blank; without header there is none -/
theorem module_from_header_examples :
    (modulePrefix (bytes% ";; $MODULE nightly report.lisp\n(f [x] y)") == some "nightly report.lisp" &&
     readModuleIs {} (bytes% ";; $MODULE nightly report.lisp\n(f [x] y)") (some "nightly report.lisp") &&
     readModuleIs {} (bytes% ";; $MODULE a.lisp\n(f [x] y)") (some "a.lisp") &&
     readModuleIs {} (bytes% "(f [x] y)") none) = true :=
  Proofs.SeedLaws.C17.module_from_header_examples

/-- a module name given by the caller wins over the header -/
theorem module_header_ignored_example :
    (readModuleIs { module := some "m" } (bytes% ";; $MODULE other.lisp\n(f [x] y)") (some "m") &&
     !readModuleIs { module := some "m" } (bytes% ";; $MODULE other.lisp\n(f [x] y)") (some "other.lisp")) = true :=
  Proofs.SeedLaws.C17.module_header_ignored_example


/-! ## the position algebra of types/positiontype.go (model: LispModel/Position.lean, engine posalg)

What "lies within" and "covers" mean for the positions the property talks about, proved for the mirror of
`Includes / Close / Here / Copy / String…` and tied to the real methods (and to the cursors `reader.Read_str` builds,
all four coordinates) by engine `posalg`. -/

open LispModel.Position in
/-- `Includes` is exactly lexicographic containment of the two end points -/
theorem includes_is_span_containment (p q : Pos) :
    includes (some p) q = true ↔
      le2 p.beginRow p.beginCol q.beginRow q.beginCol ∧ le2 q.row q.col p.row p.col := includes_iff p q

open LispModel.Position in
theorem includes_reflexive (p : Pos) : includes (some p) p = true := includes_refl p

open LispModel.Position in
theorem includes_transitive {p q r : Pos} (h₁ : includes (some p) q = true) (h₂ : includes (some q) r = true) :
    includes (some p) r = true := includes_trans h₁ h₂

open LispModel.Position in
/-- containment gives the row statement of the property: begins no later, ends no earlier -/
theorem includes_gives_rows {p q : Pos} (h : includes (some p) q = true) :
    p.beginRow ≤ q.beginRow ∧ q.row ≤ p.row := includes_rows h

open LispModel.Position in
/-- the cursor `read_list` builds (`opening.Close(closer)`) contains every token between its brackets -/
theorem list_cursor_contains_inner_tokens (opn closer x r : Pos) (hc : close (some opn) (some closer) = .ok r)
    (hb : le2 opn.beginRow opn.beginCol x.beginRow x.beginCol) (he : le2 x.row x.col closer.row closer.col) :
    includes (some r) x = true := close_includes opn closer x r hc hb he

open LispModel.Position in
/-- a reader macro's list cursor is the macro token alone (`tok.Copy().Close(&tok) = tok`): it names the line the
    macro form STARTS on — which is what the property asks of a position — not the extent of its operand -/
theorem reader_macro_cursor_is_its_token (c : Pos) : close (copy (some c)) (some c) = .ok c := close_self c

open LispModel.Position in
/-- module of a re-based cursor: the argument's when it has one, else the receiver's -/
theorem here_inherits_module (p h : Pos) :
    ∃ r, here (some p) (some h) = .ok r ∧
      r.module = (match h.module with | some m => some m | none => p.module) ∧
      r.beginRow = h.beginRow ∧ r.beginCol = h.beginCol ∧ r.row = h.row ∧ r.col = h.col :=
  here_module_inheritance p h

open LispModel.Position in
/-- the printed position determines the four coordinates (for rows ≥ 0; below 0 the text is empty) -/
theorem position_text_determines_coordinates (p q : Pos) (hp : 0 ≤ p.row) (hq : 0 ≤ q.row)
    (h : stringPosition (some p) = stringPosition (some q)) :
    p.beginRow = q.beginRow ∧ p.row = q.row ∧ p.beginCol = q.beginCol ∧ p.col = q.col :=
  stringPosition_inj p q hp hq h

open LispModel.Position in
/-- exactly which calls of the pointer methods can panic: a nil argument, or a nil receiver of `Close` / of `Here`
    with a module-less argument; with non-nil pointers none does -/
theorem position_methods_panic_exactly_on_nil (p h : Cur) :
    (here p h = .panic ↔ h = none ∨ (p = none ∧ ∃ h', h = some h' ∧ h'.module = none)) ∧
    (close p h = .panic ↔ p = none ∨ h = none) := ⟨here_panics_iff p h, close_panics_iff p h⟩

open LispModel.Position in
example : includes (some { beginRow := 1, beginCol := 2, row := 3, col := 9 }) { beginRow := 2, beginCol := 1, row := 2, col := 30 } = true ∧
    includes (some { beginRow := 2, beginCol := 1, row := 2, col := 30 }) { beginRow := 1, beginCol := 2, row := 3, col := 9 } = false := by decide


open LispModel.LispError in
/-- `NewLispError` folded over the forms an error passes on its way out: the position that sticks is the FIRST one
    available — the error's own, else that of the innermost positioned form (model LispModel/LispError.lean) -/
theorem error_object_first_position_wins {cs : List Carrier} {e r : E} (h : reposAll e cs = .ok r) :
    position r = firstSome (position e :: cs.map posOf) := newLispError_first_position_wins h

open LispModel.LispError in
/-- `GetPosition` answers for every kind of carrier except a typed nil `*Token` (never passed by the code: the reader
    passes `**Token`, which is "anything else") -/
theorem get_position_total (c : Carrier) (h : c ≠ .tokenPtr none) :
    LispError.getPosition c = Outcome.ok (LispError.posOf c) :=
  getPosition_total c h


/-! ## coherence: positions in the reader / evaluator model versus the `Position` and `LispError` slices -/

/-- the reader model's `closePos` is `Position.Close` -/
theorem close_models_agree : type_of% @LispModel.Coherence.Posn.close_agrees := @LispModel.Coherence.Posn.close_agrees
/-- positioning an error in the evaluator model is `lisperror.NewLispError` of the slice -/
theorem error_position_models_agree : type_of% @LispModel.Coherence.Posn.error_position_agrees :=
  @LispModel.Coherence.Posn.error_position_agrees
/-- "first position wins" along any chain of forms, in both models -/
theorem first_position_wins_in_both_models : type_of% @LispModel.Coherence.Posn.first_position_wins_agrees :=
  @LispModel.Coherence.Posn.first_position_wins_agrees

end LispModel.Props.C17

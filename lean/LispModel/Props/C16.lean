/-
  C16 — property theorems (see DESIGN.md §6 C16).  Helper lemmas live in Proofs/.
-/
import LispModel.Read
import LispModel.Print
import LispModel.Preamble
import LispModel.Spec.Readable
namespace LispModel.Props.C16
open LispModel

end LispModel.Props.C16

/-
  C16 — incomplete input is told apart from malformed input.

  Stated over token sequences (the scanner lemmas that brackets inside strings, raw strings and
  comments never become tokens are part of C06/C19).  "Well-formed" is the reader's own acceptance
  of a complete token sequence: `readForm` consumes it entirely.  The independent grammar checker of
  the `cut` engine covers the other reading of "well-formed" on every run.
  Property theorems only (helper lemmas live in Proofs/Reader.lean).
-/
import LispModel.Proofs.ReplLoopLaws
import LispModel.Read
import LispModel.Proofs.Reader
import LispModel.Proofs.SeedLaws
namespace LispModel.Props.C16
open LispModel LispModel.Read LispModel.Scan

/-- a token spelled like a closing bracket -/
def isCloser (t : Token) : Bool :=
  tokStr t == ")" || tokStr t == "]" || tokStr t == "}"

/-- the reader accepts `toks` as exactly one expression -/
def Accepts (cfg : Cfg) (toks : List Token) : Prop :=
  ∃ v, readForm (2 * toks.length + 2) cfg toks = .ok (v, [])

/-- If appending closing brackets `c :: cs` to `toks` gives one well-formed expression, then `toks`
    alone is rejected with "expected '<c>', got EOF", `c` being the closer of the innermost open
    bracket (the first one that had to be appended) — and the REPL keeps reading lines. -/
theorem incomplete_reports_innermost_closer (cfg : Cfg) (toks : List Token) (c : Token) (cs : List Token)
    (hc : isCloser c = true) (hcs : ∀ t ∈ cs, isCloser t = true)
    (hwf : Accepts cfg (toks ++ c :: cs)) :
    readForm (2 * toks.length + 2) cfg toks = .error (.eof (tokStr c)) ∧ multiLine (.eof (tokStr c)) = true :=
  Proofs.Reader.incomplete_reports_innermost_closer cfg toks c cs hc hcs hwf

/-- A complete expression is never reported as incomplete (nor as any other error). -/
theorem complete_never_incomplete (cfg : Cfg) (toks : List Token) (h : Accepts cfg toks) :
    ∀ e, readForm (2 * toks.length + 2) cfg toks ≠ .error e := by
  intro e he; obtain ⟨v, hv⟩ := h; rw [hv] at he; cases he

/-- A surplus closing bracket after a complete expression is rejected, with an error that is not
    the "incomplete" class (`Read_str` reports "not all tokens where parsed"). -/
theorem surplus_closer_rejected (cfg : Cfg) (toks : List Token) (c : Token)
    (h : Accepts cfg toks) :
    ∃ v r, readForm (2 * (toks ++ [c]).length + 2) cfg (toks ++ [c]) = .ok (v, r) ∧ r ≠ [] :=
  Proofs.Reader.surplus_token_left_over cfg toks c h

/-- A closing bracket with nothing open is rejected with "unexpected '<c>'", which the REPL does not
    take for incomplete input. -/
theorem unmatched_closer_rejected (cfg : Cfg) (c : Token) (rest : List Token) (fuel : Nat)
    (hc : tokStr c = ")" ∨ tokStr c = "]" ∨ tokStr c = "}") :
    readForm (fuel + 1) cfg (c :: rest) = .error (.unexpected (tokStr c)) ∧
    multiLine (.unexpected (tokStr c)) = false :=
  Proofs.Reader.unmatched_closer_rejected cfg c rest fuel hc

/-- More than one expression: the first is read, the rest is left over (`Read_str` ⇒ "not all
    tokens where parsed"), never silently accepted or truncated. -/
theorem two_forms_rejected (cfg : Cfg) (t1 t2 : List Token) (h1 : Accepts cfg t1) (h2 : t2 ≠ []) :
    ∃ v, readForm (2 * (t1 ++ t2).length + 2) cfg (t1 ++ t2) = .ok (v, t2) :=
  Proofs.Reader.two_forms_left_over cfg t1 t2 h1 h2

/-- `Read_str` level: whatever is left over after the first expression is an error of class
    `trailing`, which is not the incomplete class. -/
theorem readStr_leftover_is_trailing (cfg : Cfg) (bytes : List UInt8) (toks : List Token) (v : Val)
    (t : Token) (r : List Token)
    (ht : Scan.tokenize bytes = .ok toks) (hne : toks ≠ [])
    (hr : readForm (2 * toks.length + 2) { cfg with module := if cfg.module.isNone then modulePrefix bytes else cfg.module } toks = .ok (v, t :: r)) :
    readStr cfg bytes = .error .trailing ∧ multiLine .trailing = false :=
  Proofs.Reader.readStr_leftover_is_trailing cfg bytes toks v t r ht hne hr

/-- The REPL's verdict is "incomplete" exactly on the `expected '<closer>', got EOF` class. -/
theorem multiLine_iff_eof_class (e : RErr) :
    multiLine e = true ↔ (e = .eof ")" ∨ e = .eof "]" ∨ e = .eof "}" ∨ e = .eof "»" ∨ e = .rawEof ∨ e = .eof "¬") :=
  Proofs.Reader.multiLine_iff_eof_class e

/-! ## laws added after the seeded changes of rounds 3–5 -/
open LispModel.Proofs.SeedLaws (rejectedWith)

/-- a reader macro (`'`, `` ` ``, `~`, `~@`, `@`) directly in front of a closing bracket: the closer is
    reported as unexpected (never "got EOF"), whatever follows and however deep the macro sits -/
theorem reader_macro_before_closer (cfg : Cfg) (f : Nat) (q c : Token) (rest : List Token)
    {name : String} (hq : readerMacros.lookup (tokStr q) = some name)
    (hc : tokStr c = ")" ∨ tokStr c = "]" ∨ tokStr c = "}") :
    readForm (f+2) cfg (q :: c :: rest) = .error (.unexpected (tokStr c)) ∧
    multiLine (.unexpected (tokStr c)) = false :=
  Proofs.SeedLaws.C16.reader_macro_before_closer cfg f q c rest hq hc

/-- `')`, `(a ')`, `` [1 `] `` are rejected as malformed ("unexpected closer"), not as incomplete -/
theorem quote_before_closer_examples :
    (rejectedWith (bytes% "')") (.unexpected ")") && rejectedWith (bytes% "(a ')") (.unexpected ")") &&
     rejectedWith (bytes% "[1 `]") (.unexpected "]") &&
     !multiLine (.unexpected ")") && !multiLine (.unexpected "]")) = true :=
  Proofs.SeedLaws.C16.quote_before_closer_examples

/-- `(a) (b`: rejected with the trailing class, not the eof class -/
theorem second_open_form_is_trailing :
    (rejectedWith (bytes% "(a) (b") .trailing && !multiLine .trailing &&
     rejectedWith (bytes% "(b") (.eof ")") && multiLine (.eof ")")) = true :=
  Proofs.SeedLaws.C16.second_open_form_is_trailing


/-! ## the REPL's line loop (repl/repl.go `Execute` + `multiLine`, `lisp.REPL`; model LispModel/ReplLoop.lean,
engine replloop — which drives the REAL loop in a child process with piped input)

"… which is what the REPL uses to keep reading lines": the loop that does it, and what it therefore guarantees. -/

open LispModel.ReplLoop in
/-- while the text typed so far is an OPEN text (it tokenizes, and closing brackets alone would complete it) the REPL
    evaluates nothing and prints nothing; when the last line completes it, there is exactly ONE evaluation — of the whole
    expression — and the lines are forgotten -/
theorem repl_evaluates_a_bracketed_expression_once (st : State) (ls : List String) (last : String) (ast : Val)
    (hopen : ∀ k, 0 < k → k ≤ ls.length → OpenText (joinLines ((ls.take k).map trimSpace)))
    (hread : replRead (joinLines ((ls ++ [last]).map trimSpace)) = .ok ast) :
    run st (ls ++ [last]) =
      ((finish ((ls ++ [last]).map trimSpace) (replEvalPrint st ast)).1,
       (ls.map fun _ => Out.none) ++ [(finish ((ls ++ [last]).map trimSpace) (replEvalPrint st ast)).2]) :=
  bracketed_expression_over_lines st ls last ast hopen hread

open LispModel.ReplLoop in
/-- a reported error (anything but the incomplete-input messages and the empty line) makes the REPL forget the lines: the
    next line starts a fresh expression -/
theorem repl_error_resets {σ : Type} (re : ReadEval σ) (st : RState σ) (line next : String) (e : LErr) (env' : σ)
    (h : re st.env (textOf st line) = (.error e, env')) (hk : e.keeps = false) :
    replStep re st line = ({ lines := [], env := env' }, .error e) ∧
    replStep re (replStep re st line).1 next = finish [trimSpace next] (re env' (trimSpace next)) :=
  error_resets re st line next e env' h hk

end LispModel.Props.C16

/-
  C07 — property theorems (see DESIGN.md §6 C07).  Helper lemmas live in Proofs/.
-/
import LispModel.Eval
namespace LispModel.Props.C07
open LispModel

end LispModel.Props.C07

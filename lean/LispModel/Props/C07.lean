/-
  C07 — cancelling the context stops evaluation promptly (see DESIGN.md §6 C07).

  The model's clock is the poll counter `State.ticks`: `ctx.Done()` is polled at the top of every iteration
  of the `EVAL` loop (`State.poll`), and is closed from poll number `cancelAt` on.  Everything below is in
  poll ticks; wall-clock latency (how long one builtin call, one `sleep`, one future wait may take between
  two polls) is outside the model and is covered by the test engines of this property.
  `Cancelled st` = the deadline has passed as seen from `st`; standard side condition: no debugger
  (`st.stepper = none`).  Property theorems only; the proofs are in Proofs/EvalCancel.lean, Proofs/EvalTry.lean.
-/
import LispModel.Eval
import LispModel.Proofs.EvalCancel
import LispModel.Proofs.EvalTry
import LispModel.Proofs.EvalCancelBound
namespace LispModel.Props.C07
open LispModel LispModel.Proofs.EvalCancel LispModel.Proofs.EvalTry

/-- Once the context is cancelled, an iteration of the `EVAL` loop polls first and returns the timeout
    error: no other work (no macro expansion, no special form, no call) is done — for every form, at every
    depth, whether the program is looping (each `continue` is such an iteration), recursing, or expanding
    macros. -/
theorem every_iteration_polls_first (st : State) (h : Cancelled st) (F env : Nat) (ast : Val) (d : Nat) :
    evalLoop (F + 1) st env ast d = (.err (timeoutErr ast), tick st) :=
  evalLoop_cancelled h F env ast d

/-- `EVAL` itself (no debugger): the timeout error after exactly one poll -/
theorem eval_after_cancel (st : State) (h : Cancelled st) (hs : st.stepper = none) (F env : Nat) (ast : Val)
    (d : Nat) : eval (F + 2) st env ast d = (.err (timeoutErr ast), tick st) :=
  eval_cancelled h hs F env ast d

/-- Cancellation is permanent: whatever any function of the evaluator does from a cancelled state, the state
    it leaves is still cancelled (`cancelAt` is never written, `ticks` only grow) — through handlers,
    finally bodies, builtin callbacks and macro expansion alike. -/
theorem cancelled_stays_cancelled (st : State) (h : Cancelled st) (F env : Nat) (d : Nat) :
    (∀ ast, Cancelled (eval F st env ast d).2) ∧
    (∀ ast, Cancelled (evalLoop F st env ast d).2) ∧
    (∀ ast, Cancelled (evalAst F st env ast d).2) ∧
    (∀ xs, Cancelled (evalList F st env xs d).2) ∧
    (∀ kvs, Cancelled (evalMap F st env kvs d).2) ∧
    (∀ lst fr kl, Cancelled (doForms F st env lst fr kl d).2) ∧
    (∀ bs a1, Cancelled (letBinds F st env bs a1 d).2) ∧
    (∀ ast, Cancelled (macroexpand F st env ast d).2) ∧
    (∀ f args, Cancelled (apply F st f args d).2) ∧
    (∀ f xs, Cancelled (mapLoop F st f xs d).2) ∧
    (∀ v path f, Cancelled (updateIn F st v path f d).2) ∧
    (∀ v i f, Cancelled (update1 F st v i f d).2) ∧
    (∀ name args, Cancelled (callBuiltin F st name args d).2) :=
  ⟨fun _ => ((frame F).eval pairEta).cancelled h, fun _ => ((frame F).evalLoop pairEta).cancelled h,
   fun _ => ((frame F).evalAst pairEta).cancelled h, fun _ => ((frame F).evalList pairEta).cancelled h,
   fun _ => ((frame F).evalMap pairEta).cancelled h, fun _ _ _ => ((frame F).doForms pairEta).cancelled h,
   fun _ _ => ((frame F).letBinds pairEta).cancelled h, fun _ => ((frame F).macroexpand pairEta).cancelled h,
   fun _ _ => ((frame F).apply pairEta).cancelled h, fun _ _ => ((frame F).mapLoop pairEta).cancelled h,
   fun _ _ _ => ((frame F).updateIn pairEta).cancelled h, fun _ _ _ => ((frame F).update1 pairEta).cancelled h,
   fun _ _ => ((frame F).callBuiltin pairEta).cancelled h⟩

/-- No effects after cancellation: from a cancelled state each evaluating function of the block leaves the
    state exactly as it was, up to one poll tick (`AtMostOnePoll st st' := st' = st ∨ st' = tick st`): no
    `trace!` effect, no binding, no atom write, no new scope.  (`callBuiltin "trace!"` itself appends without
    polling, but it is only reached from the application arm of `evalLoop`, which has polled first.) -/
theorem no_effects_after_cancel (st : State) (h : Cancelled st) (hs : st.stepper = none) (F env d : Nat) :
    (∀ ast, AtMostOnePoll st (eval F st env ast d).2) ∧
    (∀ ast, AtMostOnePoll st (evalLoop F st env ast d).2) ∧
    (∀ ast, AtMostOnePoll st (evalAst F st env ast d).2) ∧
    (∀ xs, AtMostOnePoll st (evalList F st env xs d).2) ∧
    (∀ kvs, AtMostOnePoll st (evalMap F st env kvs d).2) ∧
    (∀ lst fr kl, AtMostOnePoll st (doForms F st env lst fr kl d).2) ∧
    (∀ bs a1, AtMostOnePoll st (letBinds F st env bs a1 d).2) :=
  ⟨fun _ => eval_cancelled_amop h hs F env _ d, fun _ => evalLoop_cancelled_amop h F env _ d,
   fun _ => evalAst_cancelled_any h hs F env _ d, fun _ => evalList_cancelled_any h hs F env _ d,
   fun _ => evalMap_cancelled_any h hs F env _ d, fun _ _ _ => doForms_cancelled_any h hs F env _ _ _ d,
   fun _ _ => letBinds_cancelled_any h hs F env _ _ d⟩

/-- in particular the observable trace of effects is unchanged -/
theorem no_trace_after_cancel (st : State) (h : Cancelled st) (hs : st.stepper = none) (F env : Nat) (ast : Val)
    (d : Nat) : (eval F st env ast d).2.trace = st.trace ∧ (eval F st env ast d).2.marks = st.marks ∧
      (eval F st env ast d).2.scopes = st.scopes ∧ (eval F st env ast d).2.atoms = st.atoms :=
  (eval_cancelled_amop h hs F env ast d).same

/-- The bound: from a cancelled state `EVAL` of ANY form performs at most one poll (exactly one when it has
    fuel for two steps) — independent of the form, of how long it would run, of its `try` nesting. -/
theorem polls_after_cancel_bounded (st : State) (h : Cancelled st) (hs : st.stepper = none) (F env : Nat)
    (ast : Val) (d : Nat) : (eval F st env ast d).2.ticks ≤ st.ticks + 1 :=
  (eval_cancelled_amop h hs F env ast d).ticks

/-- A timeout (or any error) raised inside a try body after the deadline can be caught — the handler is
    entered, its scope with the catch variable is created — but the handler's first form times out after one
    poll and nothing else of it runs. -/
theorem handler_runs_but_times_out (s1 : State) (hc : Cancelled s1) (hs : s1.stepper = none) (F : Nat)
    (parts : TryParts) (env d : Nat) (e : Err) (x : String) (hx : x ≠ "&") (p : Option Pos) (h0 : Val)
    (hrest : List Val) (hb : parts.catchBind = some (.sym x p)) (hd : parts.catchDo = some (h0 :: hrest)) :
    handlerStage (F + 4) parts env d (.err e, s1) =
      (.err (timeoutErr h0), tick (s1.newScope env [(x, caughtValue e)]).1) :=
  handler_after_cancel hc hs F parts env d e hx p h0 hrest hb hd

/-- Likewise a finally body entered after the deadline: one poll, its first form times out, the pending result
    is returned. -/
theorem finally_runs_but_times_out (s2 : State) (hc : Cancelled s2) (hs : s2.stepper = none) (F : Nat)
    (parts : TryParts) (env d : Nat) (r : Res Val) (hr : r ≠ .oof) (f0 : Val) (frest : List Val)
    (hf : parts.finallyDo = some (f0 :: frest)) :
    finallyStage (F + 4) parts env d (r, s2) = (r, tick s2) :=
  finally_after_cancel hc hs F parts env d r hr f0 frest hf

/-- No handler or finally body can keep the evaluation alive past the deadline: when the body of
    `(try body… (catch x h0 hs…) (finally f0 fs…))` ends with an error in a cancelled state, the whole form
    returns (the handler's timeout error) exactly two polls later, whatever `h0 hs… f0 fs…` are. -/
theorem handlers_cannot_outlive_cancel (st : State) (hl : Live st) (hst : st.stepper = none) (env : Nat)
    (hm : NotMacro st env "try") (x : String) (hx : x ≠ "&") (F : Nat) (body : List Val) (hne : body ≠ [])
    (h0 : Val) (hs : List Val) (f0 : Val) (fs : List Val) (d : Nat) (e : Err) (s1 : State)
    (hbody : doForms (F + 4) (tick st) env body 0 false d = (.err e, s1)) (hc1 : Cancelled s1) :
    evalLoop (F + 5) st env (tryCatchFinally body x h0 hs f0 fs) d =
      (.err (timeoutErr h0), tick (tick (s1.newScope env [(x, caughtValue e)]).1)) :=
  try_body_timeout hl hst hm hx F body hne h0 hs f0 fs d e s1 hbody hc1

/-- In general — whatever the clauses of the try form are, whatever result `r` its body ended with — a try
    form whose body ended in a cancelled state returns after AT MOST TWO more polls (one in the handler, one in
    the finally body), still cancelled, with no `trace!` effect, mark or atom write (`AfterDeadline s s' k`). -/
theorem try_adds_at_most_two_polls (s1 : State) (hc : Cancelled s1) (hs : s1.stepper = none) (F : Nat)
    (parts : TryParts) (env d : Nat) (r : Res Val) :
    AfterDeadline s1 (finallyStage F parts env d (handlerStage F parts env d (r, s1))).2 2 :=
  try_afterDeadline hc hs F parts env d r

/-- Outside `try`, an error (the timeout) unwinds WITHOUT further polls: sequences, `let`, `if`, `def`,
    applications and builtin callbacks return it in the state the failing sub-evaluation left. -/
theorem errors_unwind_without_polling (F : Nat) (st : State) (env d : Nat) (e : Err) (s1 : State) (x : Val)
    (h : eval F st env x (d + 1) = (.err e, s1)) :
    (∀ xs, evalList (F + 1) st env (x :: xs) d = (.err e, s1)) ∧
    (∀ name p rest a1, letBinds (F + 1) st env (.sym name p :: x :: rest) a1 d = (.err e, s1)) ∧
    (∀ lst a2, ifArm F st env lst x a2 d = (.err e, s1)) ∧
    (∀ a1 ast, defArm F st env a1 x ast d = (.err e, s1)) :=
  ⟨fun xs => evalList_cons_err h xs, fun _ _ _ _ => letBinds_err h, fun _ _ => ifArm_err h, fun _ _ => defArm_err h⟩

/-! ### non-vacuity: concrete programs on `initState` with a deadline -/

/-- `(do (trace! 1) (trace! 2) (trace! 3))` with the context cancelled from poll 4 on: the first effect
    happens, then the timeout error; the later effects do not. -/
example :
    let prog : Val := .list [.sym "do" none, .list [.sym "trace!" none, .int 1] none,
      .list [.sym "trace!" none, .int 2] none, .list [.sym "trace!" none, .int 3] none] none
    let r := eval 100 { initState with cancelAt := some 4 } 0 prog 0
    ((r.1 matches .err _) && r.2.trace.length == 1 && r.2.ticks == 5) = true := by decide +kernel

/-- a timeout inside `try`: `(try (do (trace! 1) (trace! 2)) (catch e (trace! 9)) (finally (trace! 8)))`
    cancelled from poll 6: neither the handler's nor the finally's effect happens -/
example :
    let t (n : Int) : Val := .list [.sym "trace!" none, .int n] none
    let prog : Val := .list [.sym "try" none, .list [.sym "do" none, t 1, t 2] none,
      .list [.sym "catch" none, .sym "e" none, t 9] none, .list [.sym "finally" none, t 8] none] none
    let r := eval 100 { initState with cancelAt := some 6 } 0 prog 0
    ((r.1 matches .err _) && r.2.trace.length == 1) = true := by decide +kernel

/-- The bound is two polls per try frame that is live when the deadline passes: with `f` spinning forever
    (`(def f (fn () (f)))`) inside `k` nested `(try … (catch e 1) (finally 2))` forms and the context
    cancelled from poll 50 on, `EVAL` returns the timeout error at poll `51 + 2·k` (`k = 0, 1, 2, 3`). -/
example :
    let sy (s : String) : Val := .sym s none
    let ls (xs : List Val) : Val := .list xs none
    let spin := ls [sy "def", sy "f", ls [sy "fn", ls [], ls [sy "f"]]]
    let wrap (b : Val) : Val := ls [sy "try", b, ls [sy "catch", sy "e", .int 1], ls [sy "finally", .int 2]]
    let run (body : Val) : R := eval 2000 { initState with cancelAt := some 50 } 0 (ls [sy "do", spin, body]) 0
    let f := ls [sy "f"]
    ((run f).2.ticks == 51 && (run (wrap f)).2.ticks == 53 && (run (wrap (wrap f))).2.ticks == 55 &&
      (run (wrap (wrap (wrap f)))).2.ticks == 57 && ((run (wrap (wrap (wrap f)))).1 matches .err _)) = true := by
  decide +kernel

/-! ## a run that is cancelled in the middle: the closed form (Proofs/EvalCancelBound.lean)

  `(obs F).f k st …` is computed alongside `f F st …` (it follows the control flow of the block and re-runs its
  functions for the intermediate states) and returns the CUT of the run: `none` when no poll of the run
  reported "done", else `some (sc, stk)` where `sc` is the state in which the first cancelled poll was
  performed and `stk` the frames live on the evaluation stack at that moment, innermost first
  (`Fr.tr fin`: a `try` form, `fin` = it has a `finally` clause; `Fr.mac`: a macro expansion).
  `liveFrames cut` (`T` below) is the length of that stack (0 for `none`).
  `Bound n st b cut := b.ticks ≤ max st.ticks n + 1 + 2 * liveFrames cut`. -/

open LispModel.Proofs.EvalCancelBound

/-- Once the context is cancelled, EVAL returns within a bound that does not depend on how long the program
    would otherwise run: a run of ANY function of the block that starts in `st` with the context cancelled
    from poll `n` on (reached already or not) ends with `ticks ≤ max st.ticks n + 1 + 2·T` — the first
    cancelled poll happens at poll `max st.ticks n`, and each `try` form or macro expansion that is live on
    the evaluation stack at that moment adds at most two polls (handler + finally body; resp. the dispatch of
    the expansion, which is not preceded by a poll).  No fuel condition (an out-of-fuel run obeys it too). -/
theorem polls_after_cancel_closed_form (n F : Nat) (st : State) (hc : st.cancelAt = some n)
    (hs : st.stepper = none) (env d : Nat) :
    (∀ ast, Bound n st (eval F st env ast d).2 ((obs F).eval [] st env ast d)) ∧
    (∀ ast, Bound n st (evalLoop F st env ast d).2 ((obs F).evalLoop [] st env ast d)) ∧
    (∀ ast, Bound n st (evalAst F st env ast d).2 ((obs F).evalAst [] st env ast d)) ∧
    (∀ xs, Bound n st (evalList F st env xs d).2 ((obs F).evalList [] st env xs d)) ∧
    (∀ kvs, Bound n st (evalMap F st env kvs d).2 ((obs F).evalMap [] st env kvs d)) ∧
    (∀ lst fr kl, Bound n st (doForms F st env lst fr kl d).2 ((obs F).doForms [] st env lst fr kl d)) ∧
    (∀ bs a1, Bound n st (letBinds F st env bs a1 d).2 ((obs F).letBinds [] st env bs a1 d)) ∧
    (∀ ast, Bound n st (macroexpand F st env ast d).2 ((obs F).macroexpand [] st env ast d)) ∧
    (∀ f args, Bound n st (apply F st f args d).2 ((obs F).apply [] st f args d)) ∧
    (∀ f xs, Bound n st (mapLoop F st f xs d).2 ((obs F).mapLoop [] st f xs d)) ∧
    (∀ v path f, Bound n st (updateIn F st v path f d).2 ((obs F).updateIn [] st v path f d)) ∧
    (∀ v i f, Bound n st (update1 F st v i f d).2 ((obs F).update1 [] st v i f d)) ∧
    (∀ name args, Bound n st (callBuiltin F st name args d).2 ((obs F).callBuiltin [] st name args d)) :=
  closed_form_all n F st hc hs env d

/-- the same for `EVAL`, written out -/
theorem eval_returns_within_closed_form (n F : Nat) (st : State) (hc : st.cancelAt = some n)
    (hs : st.stepper = none) (env : Nat) (ast : Val) (d : Nat) :
    (eval F st env ast d).2.ticks ≤ max st.ticks n + 1 + 2 * liveFrames ((obs F).eval [] st env ast d) :=
  (closed_form_all n F st hc hs env d).1 ast

/-- a run whose cut is `none` never saw a cancelled poll: it ended at or before poll `n` -/
theorem run_without_cut_ends_before_deadline (n F : Nat) (st : State) (hc : st.cancelAt = some n)
    (hs : st.stepper = none) (env : Nat) (ast : Val) (d : Nat) (h : (obs F).eval [] st env ast d = none) :
    (eval F st env ast d).2.ticks ≤ max st.ticks n :=
  eval_no_cut n F st hc hs env ast d h

/-- The full statement "the trace of the final state is the trace at the moment of the first cancelled poll
    (effects only before the cancel point)". -/
def no_effects_after_cancel_point_statement : Prop :=
  ∀ (n F : Nat) (st : State), st.cancelAt = some n → st.stepper = none →
    ∀ (env : Nat) (ast : Val) (d : Nat) (sc : State) (stk : List Fr),
      (obs F).eval [] st env ast d = some (sc, stk) → (eval F st env ast d).2.trace = sc.trace

/-- It is FALSE for jig/lisp (model and Go code: `defer func() { _, _ = do(ctx, finallyDo, 0, 0, env) }()`
    discards the error of the finally forms, the timeout included): in
    `(do (def f (fn () (f))) (trace! (try 1 (finally (f)))))` the finally body spins until the deadline, its
    timeout is discarded, the try form returns 1 and `trace!` is applied to it — one effect after the cut. -/
theorem no_effects_after_cancel_point_fails : ¬ no_effects_after_cancel_point_statement :=
  fun h => swallow_refutes h

/-- What holds (`EffectsStopAtCut`): the first cancelled poll happens in a state `sc` with
    `sc.ticks = max st.ticks n`; and when none of the frames live at that moment is a `try` form with a
    `finally` clause, the run returns no value and the `trace!` effects, `depth!` marks and atom store of its
    final state are exactly those of `sc` — effects happened only while `ticks ≤ n`.  For every function of
    the block.  Missing for the full statement: nothing provable — see `no_effects_after_cancel_point_fails`. -/
theorem no_effects_after_cancel_point_partial (n F : Nat) (st : State) (hc : st.cancelAt = some n)
    (hs : st.stepper = none) (env d : Nat) :
    (∀ ast, EffectsStopAtCut n st (okB (eval F st env ast d).1) (eval F st env ast d).2
      ((obs F).eval [] st env ast d)) ∧
    (∀ ast, EffectsStopAtCut n st (okB (evalLoop F st env ast d).1) (evalLoop F st env ast d).2
      ((obs F).evalLoop [] st env ast d)) ∧
    (∀ ast, EffectsStopAtCut n st (okB (evalAst F st env ast d).1) (evalAst F st env ast d).2
      ((obs F).evalAst [] st env ast d)) ∧
    (∀ xs, EffectsStopAtCut n st (okB (evalList F st env xs d).1) (evalList F st env xs d).2
      ((obs F).evalList [] st env xs d)) ∧
    (∀ kvs, EffectsStopAtCut n st (okB (evalMap F st env kvs d).1) (evalMap F st env kvs d).2
      ((obs F).evalMap [] st env kvs d)) ∧
    (∀ lst fr kl, EffectsStopAtCut n st (okB (doForms F st env lst fr kl d).1) (doForms F st env lst fr kl d).2
      ((obs F).doForms [] st env lst fr kl d)) ∧
    (∀ bs a1, EffectsStopAtCut n st (okB (letBinds F st env bs a1 d).1) (letBinds F st env bs a1 d).2
      ((obs F).letBinds [] st env bs a1 d)) ∧
    (∀ ast, EffectsStopAtCut n st (okB (macroexpand F st env ast d).1) (macroexpand F st env ast d).2
      ((obs F).macroexpand [] st env ast d)) ∧
    (∀ f args, EffectsStopAtCut n st (okB (apply F st f args d).1) (apply F st f args d).2
      ((obs F).apply [] st f args d)) ∧
    (∀ f xs, EffectsStopAtCut n st (okB (mapLoop F st f xs d).1) (mapLoop F st f xs d).2
      ((obs F).mapLoop [] st f xs d)) ∧
    (∀ v path f, EffectsStopAtCut n st (okB (updateIn F st v path f d).1) (updateIn F st v path f d).2
      ((obs F).updateIn [] st v path f d)) ∧
    (∀ v i f, EffectsStopAtCut n st (okB (update1 F st v i f d).1) (update1 F st v i f d).2
      ((obs F).update1 [] st v i f d)) ∧
    (∀ name args, EffectsStopAtCut n st (okB (callBuiltin F st name args d).1) (callBuiltin F st name args d).2
      ((obs F).callBuiltin [] st name args d)) :=
  effects_all n F st hc hs env d

/-- the counterexample, concretely: cut at poll 12 with the try form (with finally) live and an empty trace;
    the run ends one poll later WITH A VALUE and one `trace!` effect -/
theorem effect_after_cut_witness :
    ∃ sc stk, (obs 60).eval [] swallowState 0 swallowProg 0 = some (sc, stk) ∧ sc.ticks = 12 ∧
      stk = [.tr true] ∧ sc.trace = [] ∧ (eval 60 swallowState 0 swallowProg 0).2.trace.length = 1 ∧
      (eval 60 swallowState 0 swallowProg 0).2.ticks = 13 ∧ okB (eval 60 swallowState 0 swallowProg 0).1 = true :=
  swallow_effect

/-! ### non-vacuity of the closed form -/

/-- `f` spinning inside `k` nested `(try … (catch e 1) (finally 2))` forms, cancelled from poll 20 on: the cut
    is at poll 20 with `k` try frames live, and the run ends at poll `21 + 2·k` — the bound is attained -/
example :
    let sy (s : String) : Val := .sym s none
    let ls (xs : List Val) : Val := .list xs none
    let spin := ls [sy "def", sy "f", ls [sy "fn", ls [], ls [sy "f"]]]
    let wrap (b : Val) : Val := ls [sy "try", b, ls [sy "catch", sy "e", .int 1], ls [sy "finally", .int 2]]
    let st0 : State := { initState with cancelAt := some 20 }
    let run (body : Val) : Nat × Option (Nat × Nat × List Fr) :=
      ((eval 100 st0 0 (ls [sy "do", spin, body]) 0).2.ticks,
       cutInfo ((obs 100).eval [] st0 0 (ls [sy "do", spin, body]) 0))
    let f := ls [sy "f"]
    (run f == (21, some (20, 0, [])) && run (wrap f) == (23, some (20, 0, [.tr true])) &&
      run (wrap (wrap f)) == (25, some (20, 0, [.tr true, .tr true]))) = true := by
  decide +kernel

/-- Counting only `try` forms is not enough: the macro `m` expands (discarding the timeout in its own
    `finally`) to `(try 1 2 (catch e 3) (finally 4))`, which is then entered after the deadline without a
    poll and polls three times: cut at 20 with ONE try form live, end at poll 24 = 20 + 1 + 3 > 20 + 1 + 2·1;
    with the macro expansion counted (`T = 2`) the bound is 25. -/
example :
    let sy (s : String) : Val := .sym s none
    let ls (xs : List Val) : Val := .list xs none
    let spin := ls [sy "def", sy "f", ls [sy "fn", ls [], ls [sy "f"]]]
    let form := ls [sy "try", .int 1, .int 2, ls [sy "catch", sy "e", .int 3], ls [sy "finally", .int 4]]
    let defm := ls [sy "defmacro", sy "m",
      ls [sy "fn", ls [], ls [sy "try", ls [sy "quote", form], ls [sy "finally", ls [sy "f"]]]]]
    let prog := ls [sy "do", spin, defm, ls [sy "m"]]
    let st0 : State := { initState with cancelAt := some 20 }
    ((eval 100 st0 0 prog 0).2.ticks == 24 &&
      cutInfo ((obs 100).eval [] st0 0 prog 0) == some (20, 0, [.tr true, .mac])) = true := by
  decide +kernel

end LispModel.Props.C07

/-
  C08 — property theorems (see DESIGN.md §6 C08).  Helper lemmas live in Proofs/.
-/
import LispModel.Eval
namespace LispModel.Props.C08
open LispModel

end LispModel.Props.C08

/-
  C08 — tail calls use no host stack: tail-recursive loops run at any length (see DESIGN.md §6 C08).

  In the model `d` is the number of live `EVAL` activations (the host stack depth in EVAL frames): a
  `continue` of the TCO loop is `evalLoop … d` with the same `d`, a recursive Go call of `EVAL` is
  `eval … (d+1)`.  The builtin `depth!` records the current `d` in `State.marks`.
  The tail laws below exhibit, for every tail construct, the continuation `evalLoop … d` at the SAME depth,
  while every non-tail sub-evaluation is an `eval … (d+1)` (inside `evalList`, `letBinds`, the `if`
  condition).  Side conditions: no debugger (with a stepper installed the Go code deliberately turns the
  `continue` into a recursive call), context not cancelled at the poll (`Live st`), the special-form symbol not
  shadowed by a macro.  Property theorems only; proofs in Proofs/EvalTail.lean.
-/
import LispModel.Eval
import LispModel.Proofs.EvalTail
namespace LispModel.Props.C08
open LispModel LispModel.Core LispModel.Proofs.EvalCancel LispModel.Proofs.EvalTry LispModel.Proofs.EvalTail

/-- last form of a `do` body -/
theorem tail_do (st : State) (hl : Live st) (hst : st.stepper = none) (env : Nat) (hm : NotMacro st env "do")
    (F : Nat) (p : Option Pos) (ops : List Val) (pos : Option Pos) (d : Nat) (vs : List Val) (s1 : State)
    (hs1 : s1.stepper = none) (hne : ops ≠ [])
    (h : evalList F (tick st) env ops.dropLast d = (.ok vs, s1)) :
    evalLoop (F + 2) st env (.list (.sym "do" p :: ops) pos) d =
      evalLoop (F + 1) s1 env (ops.getLast?.getD .nil) d :=
  Proofs.EvalTail.tail_do hl hm F p ops pos d vs s1 hs1 hne h hst

/-- last form of a `let` body (evaluated in the let scope) -/
theorem tail_let (st : State) (hl : Live st) (hst : st.stepper = none) (env : Nat) (hm : NotMacro st env "let")
    (F : Nat) (p : Option Pos) (a1 : Val) (body : List Val) (pos : Option Pos) (d : Nat) (arr : List Val)
    (ha : seqOf? a1 = some arr) (heven : arr.length % 2 = 0) (hne : body ≠ []) (u : Val) (s1 : State)
    (vs : List Val) (s2 : State) (hs2 : s2.stepper = none)
    (hb : letBinds (F + 1) ((tick st).newScope env []).1 ((tick st).newScope env []).2 arr a1 d = (.ok u, s1))
    (hf : evalList F s1 ((tick st).newScope env []).2 body.dropLast d = (.ok vs, s2)) :
    evalLoop (F + 2) st env (.list (.sym "let" p :: a1 :: body) pos) d =
      evalLoop (F + 1) s2 ((tick st).newScope env []).2 (body.getLast?.getD .nil) d :=
  Proofs.EvalTail.tail_let hl hm hst F p a1 body pos d arr ha heven hne u s1 vs s2 hs2 hb hf

/-- the selected branch of `if`: then-branch -/
theorem tail_if_then (st : State) (hl : Live st) (env : Nat) (hm : NotMacro st env "if") (F : Nat) (p : Option Pos)
    (c a : Val) (rest : List Val) (pos : Option Pos) (d : Nat) (v : Val) (s1 : State) (hs1 : s1.stepper = none)
    (h : eval (F + 1) (tick st) env c (d + 1) = (.ok v, s1)) (hv : truthy v = true) :
    evalLoop (F + 2) st env (.list (.sym "if" p :: c :: a :: rest) pos) d = evalLoop (F + 1) s1 env a d :=
  Proofs.EvalTail.tail_if_then hl hm F p c a rest pos d v s1 hs1 h hv

/-- the selected branch of `if`: else-branch -/
theorem tail_if_else (st : State) (hl : Live st) (env : Nat) (hm : NotMacro st env "if") (F : Nat) (p : Option Pos)
    (c a b : Val) (rest : List Val) (pos : Option Pos) (d : Nat) (v : Val) (s1 : State) (hs1 : s1.stepper = none)
    (h : eval (F + 1) (tick st) env c (d + 1) = (.ok v, s1)) (hv : truthy v = false) :
    evalLoop (F + 2) st env (.list (.sym "if" p :: c :: a :: b :: rest) pos) d = evalLoop (F + 1) s1 env b d :=
  Proofs.EvalTail.tail_if_else hl hm F p c a b rest pos d v s1 hs1 h hv

/-- a call of a closure in tail position replaces `(ast, env)` by (body, new scope) and continues the loop at
    depth `d`: last form of a `fn` body, mutual recursion included (`fenv`, `body` are the callee's) -/
theorem tail_closure_call (st : State) (hl : Live st) (env : Nat) (s : String) (hm : NotMacro st env s)
    (hsf : s ∉ specialForms) (F : Nat) (p : Option Pos) (ops : List Val) (pos : Option Pos) (d : Nat)
    (params body : Val) (fenv : Nat) (m : Bool) (fp : Option Pos) (args : List Val) (s1 : State)
    (hs1 : s1.stepper = none)
    (h : evalList (F + 1) (tick st) env (.sym s p :: ops) d = (.ok (.fn params body fenv m fp :: args), s1))
    (data : List (String × Val)) (hb : bindParams params args = .ok data) :
    evalLoop (F + 2) st env (.list (.sym s p :: ops) pos) d =
      evalLoop (F + 1) (s1.newScope fenv data).1 (s1.newScope fenv data).2 body d :=
  Proofs.EvalTail.tail_closure_call hl hm hsf F p ops pos d params body fenv m fp args s1 hs1 h data hb

/-- `quasiquote` continues with its expansion at depth `d` -/
theorem tail_quasiquote (st : State) (hl : Live st) (hst : st.stepper = none) (env : Nat)
    (hm : NotMacro st env "quasiquote") (F : Nat) (p : Option Pos) (x : Val) (rest : List Val) (pos : Option Pos)
    (d : Nat) :
    evalLoop (F + 2) st env (.list (.sym "quasiquote" p :: x :: rest) pos) d =
      evalLoop (F + 1) (tick st) env (quasiquote x) d :=
  Proofs.EvalTail.tail_quasiquote hl hm hst F p x rest pos d

/-- macros such as `cond`, `and`, `or`: after `macroexpand` the same loop iteration handles the expansion at
    depth `d` (`afterExpand` is the special-form dispatch of that iteration) -/
theorem tail_macro_expansion (st : State) (hl : Live st) (F env : Nat) (xs : List Val) (pos : Option Pos) (d : Nat)
    (ast' : Val) (s1 : State) (h : macroexpand F (tick st) env (.list xs pos) d = (.ok ast', s1)) :
    evalLoop (F + 1) st env (.list xs pos) d = afterExpand F s1 env ast' d :=
  Proofs.EvalTail.tail_macro_expansion hl F env xs pos d ast' s1 h

/-- **Any length.**  `TailStep d a b` is one tail transition of a loop running at depth `d` (one constructor per
    law above, with exactly its premises; configurations are (fuel, state, scope, form)); `TailChain` is its
    reflexive–transitive closure.  Along a chain of ANY length the loop activation that started the chain is the
    one that finishes it: the result of the first configuration at depth `d` IS the result of the last one at
    the same depth `d` — no `EVAL` frame is added, however many iterations the loop makes. -/
theorem tail_chain_constant_depth (d : Nat) (a b : Cfg) (h : TailChain d a b) :
    evalLoop a.fuel a.st a.env a.ast d = evalLoop b.fuel b.st b.env b.ast d :=
  h.sameDepth

/-- whereas every non-tail sub-evaluation is a recursive `EVAL` at depth `d + 1`: the elements of a call
    (`evalList`, also used by `do` for its non-last forms), the init forms of `let`, the condition of `if`,
    the value of `def` all go through `eval … (d + 1)` (shown here: an element's result is the loop's
    result at `d + 1` — no stepper —, and `depth!` records exactly the `d` it is called at). -/
theorem non_tail_is_deeper (F : Nat) (st : State) (hs : st.stepper = none) (env : Nat) (x : Val) (xs : List Val)
    (d : Nat) :
    eval (F + 1) st env x (d + 1) = evalLoop F st env x (d + 1) ∧
    (∀ v s1, eval (F + 1) st env x (d + 1) = (.ok v, s1) →
      evalList (F + 2) st env (x :: xs) d =
        match evalList (F + 1) s1 env xs d with | (.ok vs, s) => (.ok (v :: vs), s) | r => r) ∧
    callBuiltin (F + 1) st "depth!" [] d = (.ok .nil, { st with marks := d :: st.marks }) :=
  ⟨eval_noStepper hs F env x (d + 1), fun _ _ h => evalList_cons_ok h xs, callBuiltin_depth F st d⟩

/-- **The loop.**  `countdown := (fn (n) (do (depth!) (if (< n 1) :done (countdown (- n 1)))))` defined in a
    scope `fenv` (`CdEnv countdownFam st fenv`: the closure is bound there, the builtins `depth!`, `<`, `-` are
    visible, `do`/`if` are not shadowed by macros, the scope store is well formed).  Evaluating `(countdown k)`
    by a loop at depth `d` returns `:done` and records exactly `k + 1` marks, ALL equal to `d + 1` — for EVERY
    `k`, with fuel linear in `k`: the host stack depth observed at the n-th iteration is the same for every n,
    so the loop completes at any length. -/
theorem loop_depth_constant (st : State) (hs : st.stepper = none) (hc : st.cancelAt = none) (fenv : Nat)
    (he : CdEnv countdownFam st fenv) (k : Nat) (F : Nat) (hF : 4 * k + 40 ≤ F) (d : Nat) :
    ∃ st', evalLoop F st fenv (.list [.sym "countdown" none, .int k] none) d = (.ok (Val.kw "done"), st') ∧
      st'.marks = List.replicate (k + 1) (d + 1) ++ st.marks :=
  fam_loop countdownFam ⟨hs, hc⟩ he true k hF d

/-- …including mutual recursion between functions:
    `ping := (fn (n) (do (depth!) (if (< n 1) :done (pong (- n 1)))))`,
    `pong := (fn (n) (do (depth!) (if (< n 1) :done (ping (- n 1)))))`. -/
theorem mutual_loop_depth_constant (st : State) (hs : st.stepper = none) (hc : st.cancelAt = none) (fenv : Nat)
    (he : CdEnv pingPongFam st fenv) (k : Nat) (F : Nat) (hF : 4 * k + 40 ≤ F) (d : Nat) :
    ∃ st', evalLoop F st fenv (.list [.sym "ping" none, .int k] none) d = (.ok (Val.kw "done"), st') ∧
      st'.marks = List.replicate (k + 1) (d + 1) ++ st.marks :=
  fam_loop pingPongFam ⟨hs, hc⟩ he true k hF d

/-- the hypotheses are satisfiable: both families defined in the root scope of `initState` -/
theorem loop_hypotheses_satisfiable :
    CdEnv countdownFam countdownState 0 ∧ countdownState.stepper = none ∧ countdownState.cancelAt = none ∧
    CdEnv pingPongFam pingPongState 0 ∧ pingPongState.stepper = none ∧ pingPongState.cancelAt = none :=
  ⟨countdown_env, rfl, rfl, pingPong_env, rfl, rfl⟩

/-! ### non-vacuity: the real programs on `initState` (kernel evaluation) -/

private def sy (s : String) : Val := .sym s none
private def ls (xs : List Val) : Val := .list xs none
private def loopFn (callee : String) : Val :=
  ls [sy "fn", ls [sy "n"], ls [sy "do", ls [sy "depth!"],
    ls [sy "if", ls [sy "<", sy "n", .int 1], Val.kw "done", ls [sy callee, ls [sy "-", sy "n", .int 1]]]]]

/-- `(do (def countdown (fn (n) …)) (countdown 25))`: 26 marks, all equal -/
example :
    let prog := ls [sy "do", ls [sy "def", sy "countdown", loopFn "countdown"], ls [sy "countdown", .int 25]]
    let r := eval 400 initState 0 prog 0
    (r.2.marks.length == 26 && r.2.marks.all (· == 1) && (r.1 matches .ok (.str _))) = true := by
  decide +kernel

/-- the mutual pair, 20 iterations -/
example :
    let prog := ls [sy "do", ls [sy "def", sy "ping", loopFn "pong"], ls [sy "def", sy "pong", loopFn "ping"],
      ls [sy "ping", .int 19]]
    let r := eval 400 initState 0 prog 0
    (r.2.marks.length == 20 && r.2.marks.all (· == 1)) = true := by decide +kernel

/-- a NON-tail recursion for contrast: `(def f (fn (n) (do (depth!) (if (< n 1) 0 (+ 1 (f (- n 1)))))))`,
    `(f 3)`: the marks grow with the recursion depth -/
example :
    let f := ls [sy "fn", ls [sy "n"], ls [sy "do", ls [sy "depth!"],
      ls [sy "if", ls [sy "<", sy "n", .int 1], .int 0, ls [sy "+", .int 1, ls [sy "f", ls [sy "-", sy "n", .int 1]]]]]]
    let r := eval 400 initState 0 (ls [sy "do", ls [sy "def", sy "f", f], ls [sy "f", .int 3]]) 0
    (r.2.marks == [4, 3, 2, 1]) = true := by decide +kernel

end LispModel.Props.C08

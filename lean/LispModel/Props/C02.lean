/-
  C02 — Lisp values are immutable: no operation changes an existing value.

  Property theorems only (proofs: Proofs/Heap.lean).  The subject is the SLICE-LEVEL model of the
  builtins (Heap.lean, CoreHeap.lean): lists and vectors are Go slices `(array, off, len, cap)` on a
  heap of backing arrays, `append` writes in place when the capacity allows (growth policy `g` is
  arbitrary), each builtin shares / copies / appends exactly as lib/core/core.go does.
  Vocabulary:
    `abs h v`            — the pure `Val` the heap value `v` denotes in heap `h`;
    `WF h`               — the heap is well-formed (cells refer to older arrays, slices in bounds);
    `Valid h v`/`Live h v` — `v` is a value of `h` (its slice lies inside an existing array): every
                           value that is bound, stored in a collection or captured when the step starts;
    `stepOp g name h args = (h', r)` — one builtin call; `absRes h' r` its outcome as `Core.BRes`;
    `runH (stepOp g) g h env H` — run a history (`Step.call name args` / `Step.lit kind args`, arguments
                           are earlier bindings `Arg.ref i` or scalar literals), binding one new name
                           per step; `runP penv H` — the same history on immutable pure values;
    `Inv h env penv`     — run state: `WF h`, all bindings live, `env.map (abs h) = penv`.
-/
import LispModel.Proofs.MetaLaws
import LispModel.Proofs.PkgRegLaws
import LispModel.Proofs.Heap
namespace LispModel.Props.C02
open LispModel LispModel.Heap

/-- every operation computes, on the values its arguments denote, exactly what the pure builtin
    (`Core.body`) computes — for every builtin name, every growth policy, every heap -/
theorem step_refines_pure (g : Nat → Nat → Nat) (name : String) {h : Heap} (wf : WF h) {args : List HVal}
    (hv : ∀ a ∈ args, Valid h a) :
    absRes (stepOp g name h args).1 (stepOp g name h args).2 = Core.body name (args.map (abs h)) :=
  Heap.step_refines_pure g name wf hv

/-- THE PROPERTY: no operation changes an existing value — every value that was live before the step
    reads back unchanged after it -/
theorem step_frame (g : Nat → Nat → Nat) (name : String) {h : Heap} (wf : WF h) {args : List HVal}
    (hv : ∀ a ∈ args, Valid h a) : ∀ v, Live h v → abs (stepOp g name h args).1 v = abs h v :=
  Heap.step_frame g name wf hv

/-- the invariant behind it: every write of a step goes to an array allocated in that step — no cell
    of an array that existed before differs afterwards -/
theorem step_writes_only_fresh (g : Nat → Nat → Nat) (name : String) {h : Heap} (wf : WF h) {args : List HVal}
    (hv : ∀ a ∈ args, Valid h a) : ∀ a, a < h.length → arrOf (stepOp g name h args).1 a = arrOf h a :=
  Heap.step_writes_only_fresh g name wf hv

/-- histories of any length and fan-out: after `H1` and then ANY continuation `H2`, the bindings made by
    `H1` are still there, each re-read in the final heap equals its pure value (which `H2` cannot
    influence), and all bindings together denote the pure run -/
theorem history_immutable (g : Nat → Nat → Nat) (H1 H2 : History) {h env penv} (I : Inv h env penv) :
    (runH (stepOp g) g h env H1).2 <+: (runH (stepOp g) g h env (H1 ++ H2)).2 ∧
    (runH (stepOp g) g h env H1).2.map (abs (runH (stepOp g) g h env (H1 ++ H2)).1) = runP penv H1 ∧
    (runH (stepOp g) g h env (H1 ++ H2)).2.map (abs (runH (stepOp g) g h env (H1 ++ H2)).1)
      = runP penv (H1 ++ H2) :=
  Heap.history_immutable g H1 H2 I

/-- two values derived from common ancestors never influence each other: `a := op₁(…)`, then
    `b := op₂(…)` on values that existed before `a` — `a` re-read after `b` was made is still `op₁` of the
    original values, and `b` is `op₂` of the original values -/
theorem siblings_independent (g : Nat → Nat → Nat) {h : Heap} (wf : WF h) (name1 name2 : String)
    {args1 args2 : List HVal} (hv1 : ∀ a ∈ args1, Valid h a) (hv2 : ∀ a ∈ args2, Valid h a) :
    absRes (stepOp g name2 (stepOp g name1 h args1).1 args2).1 (stepOp g name1 h args1).2
        = Core.body name1 (args1.map (abs h)) ∧
    absRes (stepOp g name2 (stepOp g name1 h args1).1 args2).1 (stepOp g name2 (stepOp g name1 h args1).1 args2).2
        = Core.body name2 (args2.map (abs h)) :=
  Heap.siblings_independent g wf name1 name2 hv1 hv2

/-- a binding read twice with no intervening `def` of that name is equal both times: after any history
    the i-th binding is the same heap value and denotes the same pure value -/
theorem reread_stable (g : Nat → Nat → Nat) (H : History) {h env penv} (I : Inv h env penv) (i : Nat)
    (hi : i < env.length) :
    (runH (stepOp g) g h env H).2[i]? = env[i]? ∧
    abs (runH (stepOp g) g h env H).1 (env.getD i nilH) = abs h (env.getD i nilH) :=
  Heap.reread_stable g H I i hi

/-! ## the builtins outside `Core.body`: with-meta, and the ones that call a lisp function

  `cb : Heap → HVal → Heap × HRes` is the callee applied to one argument; `CallbackOK cb pf` assumes of it
  what is proved of every builtin: it is a step (extends the heap only, result live) computing `pf`. -/

/-- any step that meets the step contract leaves every live value unchanged (used below for the
    higher-order builtins: each of them meets the contract) -/
theorem contract_gives_frame {h : Heap} (wf : WF h) {r : Heap × HRes} (ok : StepOK h r) :
    ∀ v, Live h v → abs r.1 v = abs h v := Heap.frame_of_stepOK wf ok

/-- `with-meta` shares its argument's window and changes nothing: the result denotes the same elements -/
theorem with_meta_shares {h : Heap} (wf : WF h) {args : List HVal} (hv : ∀ a ∈ args, Valid h a) :
    StepOK h (hWithMeta h args) ∧
    (∀ k s p m, args = [.seq k s p, m] →
      absRes (hWithMeta h args).1 (hWithMeta h args).2 = .ok (mkSeq k ((window h s).map (abs h)) none)) ∧
    (∀ ks s m, args = [.map ks s, m] →
      absRes (hWithMeta h args).1 (hWithMeta h args).2 = .ok (abs h (.map ks s))) :=
  Heap.hWithMeta_spec wf hv

/-- `apply`: the argument list handed to the callee is a NEW slice holding `args[:-1] ++ elements(last)` -/
theorem apply_args_step (g : Nat → Nat → Nat) {h : Heap} (wf : WF h) {args : List HVal}
    (hv : ∀ a ∈ args, Valid h a) :
    StepOK h (hApplyArgs g h args) ∧
    absRes (hApplyArgs g h args).1 (hApplyArgs g h args).2 = pureApplyArgs (args.map (abs h)) :=
  Heap.hApplyArgs_spec g wf hv

/-- `map`: a step, computing the list of the callee's answers -/
theorem map_step (g : Nat → Nat → Nat) {cb pf} (C : CallbackOK cb pf) {h : Heap} (wf : WF h) {s : HVal}
    (hs : Valid h s) :
    StepOK h (hMap g cb h s) ∧ absRes (hMap g cb h s).1 (hMap g cb h s).2 = pureMap pf (abs h s) :=
  Heap.hMap_spec g C wf hs

/-- `update`: a step -/
theorem update_step (g : Nat → Nat → Nat) {cb pf} (C : CallbackOK cb pf) {h : Heap} (wf : WF h) {v i : HVal}
    (hv : Valid h v) (hi : Valid h i) : StepOK h (hUpdate g cb h v i) :=
  Heap.hUpdate_ok g C wf hv hi

/-- `update` computes `(assoc v i (f (get v i)))` (for `v` a heap collection, not a `leaf` constant) -/
theorem update_refines (g : Nat → Nat → Nat) {cb pf} (C : CallbackOK cb pf) {h : Heap} (wf : WF h) {v i : HVal}
    (hv : Valid h v) (hi : Valid h i) (hn : NotLeaf v) :
    absRes (hUpdate g cb h v i).1 (hUpdate g cb h v i).2 = pureUpdate pf (abs h v) (abs h i) :=
  Heap.hUpdate_refines g C wf hv hi hn

/-- `update-in` computes what `Eval.updateIn` computes (callee abstracted to `pf`), and is a step.
    ONLY THE SECOND HALF IS PROVED (`update_in_partial`); see there for what is missing. -/
def update_in_statement : Prop :=
  ∀ (g : Nat → Nat → Nat) (cb : Heap → HVal → Heap × HRes) (pf : Val → Core.BRes), CallbackOK cb pf →
    ∀ (path : List HVal) (h : Heap) (v : HVal), WF h → Valid h v → NotLeaf v → (∀ i ∈ path, Valid h i) →
      StepOK h (updateInH g cb h v path) ∧
      absRes (updateInH g cb h v path).1 (updateInH g cb h v path).2 = pureUpdateIn pf (abs h v) (path.map (abs h))

/-- the proved part of `update_in_statement`: `update-in`, any path, any callee that is a step, is a step
    — so by `contract_gives_frame` no live value changes (the C02 content).  Missing: the value equation;
    it needs the extra invariant that no cell holds a `leaf` constant of collection kind (the model lets a
    `leaf` carry a pure collection, and `branch.(HashMap)` looks at the kind of a cell). -/
theorem update_in_partial (g : Nat → Nat → Nat) {cb pf} (C : CallbackOK cb pf) (path : List HVal) {h : Heap}
    {v : HVal} (wf : WF h) (hv : Valid h v) (hp : ∀ i ∈ path, Valid h i) :
    StepOK h (updateInH g cb h v path) :=
  Heap.updateInH_ok g C path wf hv hp

/-- every builtin, partially applied, is a legitimate callee (`CallbackOK` is satisfiable, and closed
    under what the theorems prove) -/
theorem builtins_are_callbacks (g : Nat → Nat → Nat) (name : String) (extra : List Val) :
    CallbackOK (fun h v => stepOp g name h (v :: extra.map .leaf)) (fun x => Core.body name (x :: extra)) :=
  Heap.builtin_callbackOK g name extra

/-! ## the unrepaired code (`conj` on a vector, `concat`, `subvec` as they were) -/

/-- `(def v [1 2 3]) (def a (conj v 4)) (def b (conj v 5))`: `a` reads `[1 2 3 4]` after its own step
    and `[1 2 3 5]` after `b`'s; the pure run (and the repaired code) keep `[1 2 3 4]`; and the frame
    property fails for the unrepaired `conj` -/
theorem baseline_conj_aliasing_counterexample :
    (readAll (runBaseline (histConj.take 2)) = [vecI [1, 2, 3], vecI [1, 2, 3, 4]] ∧
     readAll (runBaseline histConj) = [vecI [1, 2, 3], vecI [1, 2, 3, 5], vecI [1, 2, 3, 5]] ∧
     runP [] histConj = [vecI [1, 2, 3], vecI [1, 2, 3, 4], vecI [1, 2, 3, 5]] ∧
     readAll (runRepaired histConj) = runP [] histConj) ∧
    FrameFails (stepOpBaseline goGrow "conj") :=
  ⟨Heap.baseline_conj_witness, Heap.baseline_conj_frame_fails⟩

/-- the same through `concat`: `(def v [1 2 3]) (def x [4]) (def y [5]) (def a (concat v x))
    (def b (concat v y))` leaves `a = (1 2 3 5)` -/
theorem baseline_concat_aliasing_counterexample :
    (readAll (runBaseline (histConcat.take 4)) = [vecI [1, 2, 3], vecI [4], vecI [5], listI [1, 2, 3, 4]] ∧
     readAll (runBaseline histConcat) =
       [vecI [1, 2, 3], vecI [4], vecI [5], listI [1, 2, 3, 5], listI [1, 2, 3, 5]] ∧
     runP [] histConcat = [vecI [1, 2, 3], vecI [4], vecI [5], listI [1, 2, 3, 4], listI [1, 2, 3, 5]] ∧
     readAll (runRepaired histConcat) = runP [] histConcat) ∧
    FrameFails (stepOpBaseline goGrow "concat") :=
  ⟨Heap.baseline_concat_witness, Heap.baseline_concat_frame_fails⟩

/-- `(def base [1 2 3 4 5]) (def s (subvec base 0 2)) (def c (conj s 99))`: the unrepaired `subvec`
    keeps its parent's capacity (`cap 8`), so the append rewrites `base` to `[1 2 99 4 5]`; the repaired
    one answers `cap 2` -/
theorem baseline_subvec_capacity_counterexample :
    (readAll (runBaseline (histSubvec.take 2)) = [vecI [1, 2, 3, 4, 5], vecI [1, 2]] ∧
     readAll (runBaseline histSubvec) = [vecI [1, 2, 99, 4, 5], vecI [1, 2], vecI [1, 2, 99]] ∧
     runP [] histSubvec = [vecI [1, 2, 3, 4, 5], vecI [1, 2], vecI [1, 2, 99]] ∧
     readAll (runRepaired histSubvec) = runP [] histSubvec ∧
     (runBaseline (histSubvec.take 2)).2.getD 1 nilH = .seq .vec ⟨4, 0, 2, 8⟩ none ∧
     (runRepaired (histSubvec.take 2)).2.getD 1 nilH = .seq .vec ⟨4, 0, 2, 2⟩ none) ∧
    FrameFails (fun h args => stepOpBaseline goGrow "conj" (stepOpBaseline goGrow "subvec" h args).1
      [bindH (stepOpBaseline goGrow "subvec" h args).2, intH 99]) :=
  ⟨Heap.baseline_subvec_witness, Heap.baseline_subvec_frame_fails⟩

/-! ## non-vacuity -/

/-- the hypotheses are satisfiable: the empty run state, and every state reached from it -/
example : Inv [] [] [] := Inv.empty
example (g : Nat → Nat → Nat) (H : History) :
    Inv (runH (stepOp g) g [] [] H).1 (runH (stepOp g) g [] [] H).2 (runP [] H) := (run_inv g H Inv.empty).1

/-- the vector literal `[1 2 3]` really has spare capacity (`len 3`, `cap 4`): in-place `append` is reachable -/
example : (runRepaired (histConj.take 1)).2.getD 0 nilH = .seq .vec ⟨3, 0, 3, 4⟩ none := rfl

/-- fan-out 2 from one parent, and sharing results: `(def v [1 2 3]) (def r (rest v)) (def a (conj v 4))
    (def b (concat r v)) (def s (subvec v 1 3))` -/
example : readAll (runRepaired
    [.lit .vec [iA 1, iA 2, iA 3], .call "rest" [.ref 0], .call "conj" [.ref 0, iA 4],
     .call "concat" [.ref 1, .ref 0], .call "subvec" [.ref 0, iA 1, iA 3]]) =
    [vecI [1, 2, 3], listI [2, 3], vecI [1, 2, 3, 4], listI [2, 3, 1, 2, 3], vecI [2, 3]] := rfl

/-- quasiquote with unquote-splicing goes through `concat` / `cons`: repaired = pure; with the unrepaired
    `concat`, `q1 = `(~@a 4)` reads `(1 2 3 5)` after `q2 = `(~@a 5)` was built -/
example : readAll (runRepaired histQQ) = runP [] histQQ := rfl
example : (readAll (runBaseline histQQ)).getD 3 .nil = listI [1, 2, 3, 5] ∧
    (runP [] histQQ).getD 3 .nil = listI [1, 2, 3, 4] := ⟨rfl, rfl⟩

/-- maps, `assoc` on a vector (index assignment into the copy), `assoc-in`, `get`, `dissoc`, `merge` -/
example : readAll (runRepaired histMap) = runP [] histMap := rfl
example : (runP [] histMap).getD 5 .nil =
    .map [("a", .vec [.int 1, .int 99] none), ("b", .int 7)] ∧
    (runP [] histMap).getD 1 .nil = .map [("a", .vec [.int 1, .int 2] none), ("b", .int 7)] := ⟨rfl, rfl⟩

/-- a callee that is a step: `(map (fn [x] (conj x 0)) [[1] [2 3]])` on the heap -/
example : CallbackOK (fun h v => stepOp goGrow "conj" h (v :: [Val.int 0].map .leaf))
    (fun x => Core.body "conj" (x :: [.int 0])) := builtins_are_callbacks goGrow "conj" [.int 0]


/-! ## the `_PACKAGES_` registry (lib/call/call.go, registration time)

`_PACKAGES_` is a lisp value (hash-map of sets) that the host extends whenever it registers a Go function.
Model: `LispModel/PkgReg.lean` (Go map objects on a heap; program bindings hold object ids). -/

open LispModel.PkgReg in
/-- a registration changes the value of no binding the program has already made from the registry -/
theorem registry_registration_frame (st : St) (w : WF st) (pkg fn : String) :
    observe (registerFixed st pkg fn) = observe st := registerFixed_frame st w pkg fn

open LispModel.PkgReg in
/-- for every state a program can reach from the empty environment and every further history of registrations
    and bindings: the bindings that existed keep exactly their values -/
theorem registry_history_immutable (ops₁ ops₂ : List Op) :
    let st := run registerFixed {} ops₁
    (observe (run registerFixed st ops₂)).take st.snaps.length = observe st := reachable_frame ops₁ ops₂

open LispModel.PkgReg in
/-- what is installed is the old registry with the name added to its package's set -/
theorem registry_registration_installs (st : St) (w : WF st) (pkg fn : String) :
    curVal (registerFixed st pkg fn) =
      .map (ainsert pkg (sinsert fn (oldSet st pkg)) ((oldMap st).map fun e => (e.1, setVal st.heap e.2))) :=
  registerFixed_installs st w pkg fn

open LispModel.PkgReg in
/-- the pinned in-place update violated it: `(def s _PACKAGES_)`, one more registration, `s` has changed -/
theorem baseline_registry_mutation_counterexample :
    let st := run registerBaseline {} [.reg "main" "f", .snapMap]
    observe (step registerBaseline st (.reg "main" "g")) ≠ observe st := baseline_changes_a_bound_value

open LispModel.PkgReg in
example :
    let st := run registerFixed {} [.reg "main" "f", .snapSet "main", .snapMap]
    observe (step registerFixed st (.reg "main" "g")) = observe st ∧
    observe st = [.set ["f"], .map [("main", ["f"])]] := by decide


/-! ## metadata (with-meta / meta / ^; model LispModel/Meta.lean, engine meta)

The evaluator model has no metadata; `LispModel.Meta` is a separate model of values WITH metadata at every collection /
function node and of the builtins that create, read, keep or drop it, tied to the real interpreter by engine `meta`. -/

open LispModel.Meta in
/-- `with-meta` leaves its argument — and every other binding — exactly as it was (metadata included) -/
theorem with_meta_does_not_touch_argument (regs : Regs) (dst src : Nat) (m : MArg) (h : src ≠ dst) :
    (exec regs ⟨dst, .call "with-meta" [.reg src, m]⟩).1[src]? = regs[src]? ∧
    ∀ i, i ≠ dst → (exec regs ⟨dst, .call "with-meta" [.reg src, m]⟩).1[i]? = regs[i]? :=
  withMeta_does_not_touch_argument regs dst src m h

open LispModel.Meta in
/-- a program over the metadata-relevant builtins changes only the bindings it assigns -/
theorem meta_programs_frame (prog : List Stmt) (regs : Regs) (i : Nat) (h : ∀ s ∈ prog, s.dst ≠ i) :
    (run regs prog).1[i]? = regs[i]? := run_frame prog regs i h

open LispModel.Meta in
/-- the value is the same with and without the metadata -/
theorem with_meta_same_value {x m y : MVal} (h : withMeta x m = .ok y) : erase y = erase x := withMeta_erase h

open LispModel.Meta in
theorem meta_reads_what_with_meta_wrote {x m y : MVal} (h : withMeta x m = .ok y) : getMeta y = .ok m :=
  meta_withMeta h

end LispModel.Props.C02

/-
  C10 — Futures run once, give every reader the same outcome, report status consistently.

  Theorems about the micro-op model of lib/concurrent's futures (ConcFut.lean) with `prog` = the programs
  after docs/candidate-fixes.patch (tie: Tie/Sync.lean); `baseline_…` = counterexamples about the source
  as it stands.  Residual assumptions (stated, not proved): sequential consistency for data-race-free
  executions stands in for the Go memory model; `context.WithCancel` propagation (cancelling the
  future's context is the micro-op `cancelCtx`, seen by a body that honours it).  Proofs: Proofs/ConcFut*.lean.
-/
import LispModel.ConcFut
import LispModel.Proofs.ConcBaseline
namespace LispModel.Props.C10
open LispModel.Conc LispModel.Conc.Fut Proofs.ConcBaseline

/-- D15 (baseline): `(do @f (future-done? f))` can give false: the reader gets the value, re-deposits
    it, returns, and reads `Done` before the body's deferred `Done = true` -/
theorem baseline_done_window_counterexample :
    outAfter progBaseline
      [.body 0, .body 0, .body 0, .thr 0 0, .thr 0 2, .thr 0 0, .thr 0 0, .thr 0 0,
       .thr 0 0, .thr 0 0, .thr 0 0, .thr 0 0] derefThenDone 0
      = some [(.derefF, 0, .out (false, 7)), (.isDone, 0, .flag false)] :=
  Proofs.ConcBaseline.baseline_done_window_counterexample

/-- D15 (baseline): `future-cancel` after the value was delivered (channel holds 7) answers true -/
theorem baseline_cancel_after_delivery_counterexample :
    (frun progBaseline [.body 0, .body 0, .body 0, .thr 0 0, .thr 0 0, .thr 0 0, .thr 0 0,
       .thr 0 0, .thr 0 0, .thr 0 0, .thr 0 0] cancelLate).map
      (fun s => ((s.futs 0).valCh, (s.threads 0).out))
      = some (some 7, [(.cancel, 0, .flag true)]) :=
  Proofs.ConcBaseline.baseline_cancel_after_delivery_counterexample

/-- D15 (baseline): the body's `Done = true` and the read of `future-done?` are simultaneously enabled -/
theorem baseline_flag_race_counterexample :
    (frun progBaseline [.body 0, .body 0, .body 0, .body 0, .thr 0 0] doneVsBody).map
      (fun s => fraceBodyVs progBaseline s 0 0) = some true :=
  Proofs.ConcBaseline.baseline_flag_race_counterexample

end LispModel.Props.C10

/-
  C10 — Futures run once, give every reader the same outcome, report status consistently.

  Theorems about the micro-op model of lib/concurrent's futures (ConcFut.lean) with `prog` = the programs
  after docs/candidate-fixes.patch (tie: Tie/Sync.lean); `baseline_…` = counterexamples about the source
  as it stands.  Residual assumptions (stated, not proved): sequential consistency for data-race-free
  executions stands in for the Go memory model; `context.WithCancel` propagation (cancelling the
  future's context is the micro-op `cancelCtx`, seen by a body that honours it).  Proofs: Proofs/ConcFut*.lean.
-/
import LispModel.ConcFut
import LispModel.Proofs.ConcBaseline
import LispModel.Proofs.ConcFutAll
import LispModel.Proofs.LinSound
import LispModel.Spec.ConcObj
namespace LispModel.Props.C10
open LispModel.Conc LispModel.Conc.Fut Proofs.ConcBaseline Proofs.ConcFut

/-! ### the fixed programs (`prog`): any number of client threads, any interleaving

`FReachable kinds progs s`: `s` is reached by some schedule from the state right after the `future`
calls returned (future `f` has body kind `kinds[f]`, client `t` issues the operations `progs[t]`).
Scheduler labels include the end of a client's context (`endCtx`) and the `select` arm taken. -/

/-- `NewFuture` starts exactly one goroutine and has no loop (regenerated fact `program .newFuture`) -/
theorem newFuture_spawns_once :
    (prog .newFuture).count .spawn = 1 ∧ (prog .newFuture).all (fun m => match m with
      | .jmp _ | .brNe _ _ | .brTrue _ _ => false
      | _ => true) = true := by decide

/-- the body function is applied at most once, exactly once as soon as the body is past its `Apply` -/
theorem body_runs_once {kinds progs s} (hr : FReachable kinds progs s) (f : Nat) :
    (s.futs f).runs ≤ 1 ∧ ((s.futs f).res ≠ none → (s.futs f).runs = 1) ∧
    (∀ b, (s.futs f).body = some b → ¬ (b.pc = 0 ∧ b.returning = false) → (s.futs f).runs = 1) :=
  Proofs.ConcFut.body_runs_once (fut_invariant hr).out f

/-- at most one outcome item exists — in `ValChan`, in `ErrChan`, or in the hands of one reader between
    its receive and its re-deposit — and it is the body's outcome; nothing exists before the body sent -/
theorem single_outcome_invariant {kinds progs s} (hr : FReachable kinds progs s) (f : Nat) :
    (¬ sent (s.futs f) → (s.futs f).valCh = none ∧ (s.futs f).errCh = none ∧ ∀ t, ¬ inflight s t f) ∧
    (∀ v, (s.futs f).valCh = some v →
      (s.futs f).res = some (false, v) ∧ (s.futs f).errCh = none ∧ ∀ t, ¬ inflight s t f) ∧
    (∀ e, (s.futs f).errCh = some e →
      (s.futs f).res = some (true, e) ∧ (s.futs f).valCh = none ∧ ∀ t, ¬ inflight s t f) ∧
    (∀ t, inflight s t f →
      (s.futs f).valCh = none ∧ (s.futs f).errCh = none ∧ ∀ t', t' ≠ t → ¬ inflight s t' f) :=
  let h := (fut_invariant hr).out
  ⟨h.unsent f, h.inVal f, h.inErr f, fun t => h.inHand t f⟩

/-- every deref that returned an outcome returned the body's outcome: all derefs, from any thread and
    any number of times, agree -/
theorem all_derefs_agree {kinds progs s} (hr : FReachable kinds progs s) {t t' : Nat} {n n' : OpName}
    {f : Nat} {o o' : Outcome}
    (hm : (n, f, Resp.out o) ∈ (s.threads t).out) (hm' : (n', f, Resp.out o') ∈ (s.threads t').out) :
    o = o' ∧ (s.futs f).res = some o :=
  ⟨Proofs.ConcFut.all_derefs_agree (fut_invariant hr).out hm hm',
   deref_returns_result (fut_invariant hr).out hm⟩

/-- a reader that has received the outcome can always re-deposit it (its next step is enabled) -/
theorem deref_never_blocks_on_redeposit {kinds progs s} (hr : FReachable kinds progs s) {t arm : Nat}
    {fr : FFrame} (hc : (s.threads t).cur = some fr) (hn : fr.name = .derefF) (hpc : fr.pc = 1)
    (hnr : fr.returning = false) : (fstep prog s (.thr t arm)).isSome = true :=
  Proofs.ConcFut.deref_never_blocks_on_redeposit (fut_invariant hr).out hc hn hpc hnr

/-- `Done`, `Cancelled` (and the cancellation of the body's context) never go back from true to false -/
theorem flags_monotone {sched : List Label} {s s' : FState} (h : frun prog sched s = some s') (f : Nat) :
    ((s.futs f).done = true → (s'.futs f).done = true) ∧
    ((s.futs f).cancelled = true → (s'.futs f).cancelled = true) ∧
    ((s.futs f).ctxCancelled = true → (s'.futs f).ctxCancelled = true) :=
  flags_monotone_run h f

/-- `future-done?` is true as soon as any deref of that future has returned an outcome -/
theorem done_after_any_deref {kinds progs s} (hr : FReachable kinds progs s) {t : Nat} {n : OpName}
    {f : Nat} {o : Outcome} (hm : (n, f, Resp.out o) ∈ (s.threads t).out) : (s.futs f).done = true :=
  Proofs.ConcFut.done_after_any_deref (fut_invariant hr).out hm


/-- `future-cancel` on a future that completed without having been cancelled returns false and changes
    nothing: from any reachable state in which the future is done and not cancelled, along every
    further run it stays done and not cancelled, its context is untouched, and every `future-cancel` of
    it that has returned answered false -/
theorem cancel_after_completion_is_noop {kinds progs s} (hr : FReachable kinds progs s)
    {sched : List Label} {s' : FState} {f : Nat}
    (hd : (s.futs f).done = true) (hnc : (s.futs f).cancelled = false)
    (hrun : frun prog sched s = some s') :
    (s'.futs f).done = true ∧ (s'.futs f).cancelled = false ∧
    (s'.futs f).ctxCancelled = (s.futs f).ctxCancelled ∧
    ∀ t b, (OpName.cancel, f, Resp.flag b) ∈ (s'.threads t).out → b = false :=
  Proofs.ConcFut.cancel_after_completion_is_noop (fut_invariant hr) hd hnc hrun

/-- `future-cancel` on a future still running (its check under `mu` found `Done` unset: ghost `took` is
    false; `cancel_check`): once past its write section the future is cancelled, the body's context is
    cancelled, the future is done (all three for ever, `flags_monotone`), and the call answers true -/
theorem cancel_running_sets_cancelled {kinds progs s} (hr : FReachable kinds progs s) {t : Nat}
    {fr : FFrame} (hc : (s.threads t).cur = some fr) (hn : fr.name = .cancel) (htk : fr.took = false)
    (hpast : fr.returning = true ∨ fr.pc = 6 ∨ fr.pc = 7) :
    (s.futs fr.fut).cancelled = true ∧ (s.futs fr.fut).ctxCancelled = true ∧ (s.futs fr.fut).done = true ∧
    ((fr.returning = true ∨ fr.pc = 7) → fr.flag = true) :=
  Proofs.ConcFut.cancel_running_sets_cancelled (fut_invariant hr) hc hn htk hpast

/-- the check itself: `Done` unset ⇒ falls into the write section, `Done` set ⇒ skips it (ghost `took`) -/
theorem cancel_check {o : Owner} {arm : Nat} {ce : Bool} {fr fr' : FFrame} {F F' : FutS}
    (hex : execF o arm ce (.brTrue .done 6) fr F = some (fr', F')) :
    F' = F ∧ (F.done = false → fr'.pc = fr.pc + 1 ∧ fr'.took = fr.took) ∧
    (F.done = true → fr'.pc = 6 ∧ fr'.took = true) :=
  Proofs.ConcFut.cancel_check hex

/-- a returned `future-cancel` tells the truth: the future is done, and if it answered true it is cancelled -/
theorem cancel_response_sound {kinds progs s} (hr : FReachable kinds progs s) {t f : Nat} {b : Bool}
    (hm : (OpName.cancel, f, Resp.flag b) ∈ (s.threads t).out) :
    (s.futs f).done = true ∧ (b = true → (s.futs f).cancelled = true) :=
  (fut_invariant hr).resp t f b hm

/-- every access to `Done` / `Cancelled` is made with the future's `mu` held -/
theorem flag_accesses_guarded {kinds progs s} (hr : FReachable kinds progs s) {o : Owner} {fr : FFrame}
    {l : Loc} {w : Bool} (hfr : frameOf s o = some fr) (hacc : fr.nextAccess prog = some (l, w)) :
    (s.futs fr.fut).mu = some o :=
  (fut_invariant hr).mu.access_guarded hfr hacc

/-- no data race on the flags: two different owners (client threads, body goroutines) are never both
    about to access a flag of the same future -/
theorem future_data_race_free {kinds progs s} (hr : FReachable kinds progs s) {o o' : Owner}
    {fr fr' : FFrame} {a a' : Loc × Bool} (hne : o ≠ o') (hfr : frameOf s o = some fr)
    (hfr' : frameOf s o' = some fr') (hsame : fr.fut = fr'.fut)
    (hacc : fr.nextAccess prog = some a) (hacc' : fr'.nextAccess prog = some a') : False :=
  (fut_invariant hr).mu.no_flag_race hne hfr hfr' hsame hacc hacc'

/-- while an owner holds `mu` of a future nobody else changes its flags -/
theorem flags_stable_under_mu {kinds progs s} (hr : FReachable kinds progs s) {s' : FState} {l : Label}
    {f : Nat} {o : Owner} (hmu : (s.futs f).mu = some o) (hl : labelOwner l ≠ some o)
    (hs : fstep prog s l = some s') :
    (s'.futs f).done = (s.futs f).done ∧ (s'.futs f).cancelled = (s.futs f).cancelled ∧
    (s'.futs f).ctxCancelled = (s.futs f).ctxCancelled :=
  Proofs.ConcFut.flags_stable_under_mu (fut_invariant hr).mu hmu hl hs

/-- the checker the `conc` engine runs on every recorded future history is sound: an accepted history
    is linearizable w.r.t. the sequential future object (Spec/ConcObj.lean) -/
theorem linCheck_sound (final : Spec.ConcObj.FutState → Bool) (s0 : Spec.ConcObj.FutState)
    (h : List (Spec.Lin.HOp Spec.ConcObj.FutOp))
    (hc : Spec.Lin.linCheck Spec.ConcObj.futObj final s0 h = true) :
    Spec.Lin.Linearizable Spec.ConcObj.futObj final s0 h :=
  Proofs.LinSound.linCheck_sound _ _ _ _ hc

/-! ### the programs of the source as it stands (baseline): counterexamples by evaluation -/

/-- D15 (baseline): `(do @f (future-done? f))` can give false: the reader gets the value, re-deposits
    it, returns, and reads `Done` before the body's deferred `Done = true` -/
theorem baseline_done_window_counterexample :
    outAfter progBaseline
      [.body 0, .body 0, .body 0, .thr 0 0, .thr 0 2, .thr 0 0, .thr 0 0, .thr 0 0,
       .thr 0 0, .thr 0 0, .thr 0 0, .thr 0 0] derefThenDone 0
      = some [(.derefF, 0, .out (false, 7)), (.isDone, 0, .flag false)] :=
  Proofs.ConcBaseline.baseline_done_window_counterexample

/-- D15 (baseline): `future-cancel` after the value was delivered (channel holds 7) answers true -/
theorem baseline_cancel_after_delivery_counterexample :
    (frun progBaseline [.body 0, .body 0, .body 0, .thr 0 0, .thr 0 0, .thr 0 0, .thr 0 0,
       .thr 0 0, .thr 0 0, .thr 0 0, .thr 0 0] cancelLate).map
      (fun s => ((s.futs 0).valCh, (s.threads 0).out))
      = some (some 7, [(.cancel, 0, .flag true)]) :=
  Proofs.ConcBaseline.baseline_cancel_after_delivery_counterexample

/-- D15 (baseline): the body's `Done = true` and the read of `future-done?` are simultaneously enabled -/
theorem baseline_flag_race_counterexample :
    (frun progBaseline [.body 0, .body 0, .body 0, .body 0, .thr 0 0] doneVsBody).map
      (fun s => fraceBodyVs progBaseline s 0 0) = some true :=
  Proofs.ConcBaseline.baseline_flag_race_counterexample

end LispModel.Props.C10

/-
  C03 — property theorems (see DESIGN.md §6 C03).  Helper lemmas live in Proofs/.
-/
import LispModel.Eval
namespace LispModel.Props.C03
open LispModel

end LispModel.Props.C03

/-
  C03 — throw, catch and finally: the thrown value arrives unchanged, handlers run once
  (see DESIGN.md §6 C03).

  Laws of the `try` arm of `evalLoop`.  `tryArm F st env parts d` is, literally, that arm after operand
  splitting (`splitTry`): `finallyStage (handlerStage (doForms … parts.body …))` — body, then catch handler,
  then the deferred finally forms (definitions in Proofs/EvalCancel.lean §1; `evalLoop_succ` there is `rfl`).
  Standard side conditions: no debugger (`stepper = none`), context not cancelled at the poll of the form
  (`Live st`; `cancelAt = none` implies it), `try` not shadowed by a macro (`NotMacro st env "try"`).
  Property theorems only; proofs in Proofs/EvalTry.lean.
-/
import LispModel.Proofs.LispErrorLaws
import LispModel.Eval
import LispModel.Proofs.EvalTry
import LispModel.Proofs.EvalTail
import LispModel.Proofs.SeedLaws
namespace LispModel.Props.C03
open LispModel LispModel.Core LispModel.Proofs.EvalCancel LispModel.Proofs.EvalTry LispModel.Proofs.EvalTail

/-- The `try` form: one poll, operand splitting, then the three stages. -/
theorem try_form_unfolds (st : State) (hl : Live st) (env : Nat) (hm : NotMacro st env "try")
    (F : Nat) (p : Option Pos) (a : Val) (ops : List Val) (pos : Option Pos) (d : Nat) :
    evalLoop (F + 2) st env (.list (.sym "try" p :: a :: ops) pos) d =
      match splitTry (.sym "try" p :: a :: ops) with
      | .error msg => (.err (newLispError (.plain msg) (.list (.sym "try" p :: a :: ops) pos)), tick st)
      | .ok parts =>
        finallyStage (F + 1) parts env d (handlerStage (F + 1) parts env d
          (doForms (F + 1) (tick st) env parts.body 0 false d)) :=
  evalLoop_try hl hm F p a ops pos d

/-- operand splitting of `(try body… (catch b h0 hs…) (finally fin…))` and of the shapes without
    `finally` / without `catch` -/
theorem try_operands (t : Val) (body : List Val) (q : Option Pos) (b h0 : Val) (hs : List Val) (cp q' : Option Pos)
    (fin : List Val) (fp : Option Pos) :
    splitTry (t :: (body ++ [.list (.sym "catch" q :: b :: h0 :: hs) cp, .list (.sym "finally" q' :: fin) fp])) =
      .ok { body := body, catchBind := some b, catchDo := some (h0 :: hs), finallyDo := some fin } ∧
    splitTry (t :: (body ++ [.list (.sym "catch" q :: b :: h0 :: hs) cp])) =
      .ok { body := body, catchBind := some b, catchDo := some (h0 :: hs) } ∧
    (firstSym (body.getLast?.getD .nil) ≠ "catch" →
      splitTry (t :: (body ++ [.list (.sym "finally" q' :: fin) fp])) = .ok { body := body, finallyDo := some fin }) :=
  ⟨splitTry_catch_finally t body q b h0 hs cp q' fin fp, splitTry_catch t body q b h0 hs cp,
   splitTry_finally t body q' fin fp⟩

/-- The value of a try form is the value of its body: when the body returns `v` the handler stage does
    nothing (the handler is not run, no scope is created) and the result is `v` (the finally stage cannot
    change it). -/
theorem try_value_is_body_value (F : Nat) (st : State) (env : Nat) (parts : TryParts) (d : Nat) (v : Val)
    (s1 : State) (hbody : doForms F st env parts.body 0 false d = (.ok v, s1)) :
    handlerStage F parts env d (doForms F st env parts.body 0 false d) = (.ok v, s1) ∧
    tryArm F st env parts d = finallyStage F parts env d (.ok v, s1) ∧
    ((tryArm F st env parts d).1 = .ok v ∨ (tryArm F st env parts d).1 = .oof) :=
  tryArm_body_ok F st env parts d v s1 hbody

/-- …or the value of the catch handler if the body threw, returned as a value and not evaluated again: when
    the body returns the error `e` and the catch variable binds, the result of the handler stage IS the
    result of `do(handler, 0, 0)` (`doForms … keepLast = false`: every handler form is evaluated once, the
    last VALUE is returned, it is not handed to `EVAL` again) run in a NEW scope — id `s1.scopes.size`, outer
    scope `env`, only binding `x ↦ caughtValue e` (the thrown value). -/
theorem try_handler_value_returned_not_reevaluated (F : Nat) (parts : TryParts) (env d : Nat) (e : Err)
    (s1 : State) (handler : List Val) (x : String) (hx : x ≠ "&") (p : Option Pos)
    (hd : parts.catchDo = some handler) (hb : parts.catchBind = some (.sym x p)) :
    handlerStage F parts env d (.err e, s1) =
      doForms F { s1 with scopes := s1.scopes.push ⟨[(x, caughtValue e)], some env⟩ } s1.scopes.size
        handler 0 false d :=
  handlerStage_caught F parts env d e s1 hd hb (bindParams_one hx p _)

/-- DEVIATION from "delivered unchanged to the nearest enclosing catch clause": a catch clause whose variable
    does not bind — `(catch & …)`, or a non-symbol such as `(catch 1 …)` — does not run its handler, and the
    try form returns the binder's error ("'&' must be followed by a parameter name" / "cannot use value as
    parameter name") INSTEAD of the thrown one: the thrown value is lost.  (Hence the side condition
    `x ≠ "&"` on the catch variable in the laws above.) -/
theorem catch_binder_error_replaces_thrown_value (F : Nat) (parts : TryParts) (env d : Nat) (e : Err) (s1 : State)
    (handler : List Val) (b : Val) (hd : parts.catchDo = some handler) (hb : parts.catchBind = some b)
    (hbad : (∃ p, b = .sym "&" p) ∨ (∀ s q, b ≠ .sym s q)) :
    ∃ msg, handlerStage F parts env d (.err e, s1) = (.err (.lisp (.goerr msg) none), s1) :=
  handlerStage_bad_binder F parts env d e s1 handler b hd hb hbad

/-- The catch variable is visible only inside the handler: creating the handler scope leaves every existing
    scope — in particular the scope `env` of the try form — literally untouched (the store only gets one
    more entry), and the finally forms are evaluated in `env`, not in the handler scope (see
    `finally_runs_exactly_once`: the `doForms … env fin …` there). -/
theorem catch_var_scoped_to_handler (s1 : State) (env : Nat) (data : List (String × Val)) (i : Nat)
    (hi : i < s1.scopes.size) :
    (s1.newScope env data).1.scopes[i]? = s1.scopes[i]? ∧ (s1.newScope env data).2 = s1.scopes.size ∧
    (s1.newScope env data).2 ≠ i :=
  newScope_keeps_scopes s1 env data i hi

/-- …hence (well-formed scope store) what the scope `env` of the try form — or any existing scope — sees is
    unchanged by the binding of the catch variable, for every name including the catch variable itself -/
theorem catch_var_not_visible_in_try_scope (s1 : State) (hw : ScopesWF s1) (env : Nat)
    (data : List (String × Val)) (id : Nat) (hid : id < s1.scopes.size) (k : String) :
    (s1.newScope env data).1.get id k = s1.get id k :=
  get_newScope_old hw hid env data k

/-- The finally body runs exactly once, after body and handler, on every path.  With a finally clause `fin`,
    the form's result on the state `s` left by the body (normal / uncaught path) or by the handler (caught path,
    whether the handler returned or threw: `r` is its result) is given by ONE application of
    `do(fin, 0, 0)` in scope `env` to `s`; `afterFinally r rf` keeps the pending result `r` and the state of `rf`. -/
theorem finally_runs_exactly_once (F : Nat) (st : State) (env : Nat) (parts : TryParts) (d : Nat)
    (fin : List Val) (hf : parts.finallyDo = some fin) :
    -- normal: body returned `v`
    (∀ v s1, doForms F st env parts.body 0 false d = (.ok v, s1) →
      tryArm F st env parts d =
        afterFinally (.ok v) (doForms F s1 env fin 0 false d)) ∧
    -- uncaught: body threw, no catch clause
    (∀ e s1, doForms F st env parts.body 0 false d = (.err e, s1) → parts.catchDo = none →
      tryArm F st env parts d =
        afterFinally (.err e) (doForms F s1 env fin 0 false d)) ∧
    -- caught (handler returned a value or threw itself: `r`)
    (∀ e s1 handler x p r s2, doForms F st env parts.body 0 false d = (.err e, s1) →
      parts.catchDo = some handler → parts.catchBind = some (.sym x p) → x ≠ "&" → r ≠ .oof →
      doForms F (s1.newScope env [(x, caughtValue e)]).1 (s1.newScope env [(x, caughtValue e)]).2 handler 0 false d
        = (r, s2) →
      tryArm F st env parts d =
        afterFinally r (doForms F s2 env fin 0 false d)) :=
  ⟨fun v s1 h => tryArm_normal F st env parts d fin hf v s1 h,
   fun e s1 h hc => tryArm_uncaught F st env parts d fin hf e s1 h hc,
   fun e s1 handler x p r s2 h hd hb hx hr hh => tryArm_caught F st env parts d fin hf e s1 handler x p r s2 h hd hb hx hr hh⟩

/-- …without changing the result or error: the result component after the finally stage is the pending one
    (of body / handler), whatever the finally forms returned or threw; only running out of fuel propagates. -/
theorem finally_cannot_change_outcome (F : Nat) (parts : TryParts) (env d : Nat) (rh : R) :
    (finallyStage F parts env d rh).1 = rh.1 ∨ (finallyStage F parts env d rh).1 = .oof :=
  finallyStage_result F parts env d rh

/-- Without a catch clause the error of the body is the error of the form (it reaches the enclosing catch
    or the Go caller), with the same payload and position. -/
theorem uncaught_reaches_host (F : Nat) (st : State) (env : Nat) (parts : TryParts) (d : Nat) (e : Err) (s1 : State)
    (hbody : doForms F st env parts.body 0 false d = (.err e, s1)) (hc : parts.catchDo = none) :
    (tryArm F st env parts d).1 = .err e ∨ (tryArm F st env parts d).1 = .oof :=
  tryArm_uncaught_result F st env parts d e s1 hbody hc

/-- `(throw x)`: the value `v` of `x` (any value, a Go error object included) is the payload of the returned
    error, unchanged; the error is positioned at the throw form. -/
theorem thrown_value_unchanged (st : State) (hs : st.stepper = none) (hc : st.cancelAt = none) (env : Nat)
    (hthrow : st.get env "throw" = some (.builtin "throw")) (F : Nat) (p : Option Pos) (x : Val) (pos : Option Pos)
    (d : Nat) (v : Val) (s1 : State)
    (hx : eval (F + 2) (tick (tick st)) env x (d + 1) = (.ok v, s1)) :
    evalLoop (F + 5) st env (.list [.sym "throw" p, x] pos) d = (.err (.lisp v pos), s1) ∧
    caughtValue (.lisp v pos) = v :=
  ⟨throw_delivers hs hc hthrow F p x pos d v s1 hx, rfl⟩

/-- Re-wrapping by `NewLispError` (done by the application arm for every error coming out of a Go builtin,
    including the callbacks of `map`, `apply`, `swap!`, `update`) never alters the payload of a lisp error;
    a plain Go error becomes the Go error object itself (`Val.goerr msg`, still reachable by `errors.Is`),
    NOT its message string — whereas a plain Go error that reaches `catch` WITHOUT having been re-wrapped (those
    the evaluator itself returns bare: "GetSlice called on non-sequence", "empty application", …) is bound as its
    message string. -/
theorem payload_survives_rewrapping (v : Val) (pos : Option Pos) (msg : String) (c : Val) :
    caughtValue (newLispError (.lisp v pos) c) = v ∧ caughtValue (newLispError (.plain msg) c) = .goerr msg ∧
    caughtValue (.plain msg) = .str msg :=
  ⟨caughtValue_newLispError_lisp v pos c, caughtValue_newLispError_plain msg c, rfl⟩

/-- Through any depth of calls: an error returned by the element loop of `eval_ast` (operands of a call,
    elements of a vector, forms of a `do` / fn body / handler) is, unchanged, the error some element returned. -/
theorem error_propagates_through_sequences (F : Nat) (st : State) (env : Nat) (xs : List Val) (d : Nat) (e : Err)
    (s' : State) (h : evalList F st env xs d = (.err e, s')) :
    ∃ x ∈ xs, ∃ F' s0, eval F' s0 env x (d + 1) = (.err e, s') :=
  evalList_err_origin h

/-- …and through `let` bindings, `if` conditions, `def` values, operands of applications: the error is
    returned as it is. -/
theorem error_propagates_through_special_forms (F : Nat) (st : State) (env d : Nat) (e : Err) (s1 : State) (x : Val)
    (h : eval F st env x (d + 1) = (.err e, s1)) :
    (∀ name p rest a1, letBinds (F + 1) st env (.sym name p :: x :: rest) a1 d = (.err e, s1)) ∧
    (∀ lst a2, ifArm F st env lst x a2 d = (.err e, s1)) ∧
    (∀ a1 ast, defArm F st env a1 x ast d = (.err e, s1)) ∧
    (∀ xs, evalList (F + 1) st env (x :: xs) d = (.err e, s1)) :=
  ⟨fun _ _ _ _ => letBinds_err h, fun _ _ => ifArm_err h, fun _ _ => defArm_err h, fun xs => evalList_cons_err h xs⟩

/-- …through closure calls: the call of a closure IS the evaluation of its body (same loop), so the body's
    result or error is the call's; and `types.Apply` (used by builtin callbacks) is one recursive `EVAL`. -/
theorem error_propagates_through_calls (F : Nat) (st : State) (hs : st.stepper = none) (params body : Val)
    (fenv : Nat) (m : Bool) (fp : Option Pos) (args : List Val) (ast : Val) (d : Nat) (data : List (String × Val))
    (hb : bindParams params args = .ok data) :
    callArm F st (.fn params body fenv m fp :: args) ast d =
      evalLoop F (st.newScope fenv data).1 (st.newScope fenv data).2 body d ∧
    apply (F + 1) st (.fn params body fenv m fp) args d =
      eval F (st.newScope fenv data).1 (st.newScope fenv data).2 body (d + 1) :=
  ⟨callArm_closure hs hb, apply_closure hb⟩

/-- …through macro expansions: an error raised while a macro body runs comes out of `macroexpand`, and out of
    the loop iteration that was expanding the call, unchanged. -/
theorem error_propagates_through_macroexpansion (st : State) (hl : Live st) (F env : Nat) (s : String)
    (p : Option Pos) (args : List Val) (pos : Option Pos) (d : Nat) (params body : Val) (fenv : Nat)
    (mp : Option Pos) (data : List (String × Val)) (e : Err) (s1 : State)
    (hg : (tick st).get env s = some (.fn params body fenv true mp)) (hb : bindParams params args = .ok data)
    (h : eval F ((tick st).newScope fenv data).1 ((tick st).newScope fenv data).2 body (d + 1) = (.err e, s1)) :
    macroexpand (F + 1) (tick st) env (.list (.sym s p :: args) pos) d = (.err e, s1) ∧
    evalLoop (F + 2) st env (.list (.sym s p :: args) pos) d = (.err e, s1) :=
  ⟨macroexpand_err hg hb h, evalLoop_macroexpand_err hl (macroexpand_err hg hb h)⟩

/-- …through builtin callbacks: an error of the callback of `map`, `apply`, `swap!`, `update` comes out of the builtin
    unchanged (and the application arm then re-wraps it keeping the payload). -/
theorem error_propagates_through_callbacks (F : Nat) (st : State) (f : Val) (d : Nat) (e : Err) (s1 : State) :
    (∀ s xs, seqOf? s = some xs → mapLoop F st f xs d = (.err e, s1) →
      callBuiltin (F + 1) st "map" [f, s] d = (.err e, s1)) ∧
    (∀ last tail, seqOf? last = some tail → apply F st f tail d = (.err e, s1) →
      callBuiltin (F + 1) st "apply" [f, last] d = (.err e, s1)) ∧
    (∀ id extra, apply F st f (st.atoms.getD id .nil :: extra) d = (.err e, s1) →
      callBuiltin (F + 1) st "swap!" (.atom id :: f :: extra) d = (.err e, s1)) ∧
    (∀ m k, apply F st f [(alookup k m).getD .nil] d = (.err e, s1) →
      callBuiltin (F + 2) st "update" [.map m, .str k, f] d = (.err e, s1)) ∧
    (∀ name args ast, callBuiltin F st name args d = (.err e, s1) →
      callArm F st (.builtin name :: args) ast d = (.err (newLispError e ast), s1)) :=
  ⟨fun _ _ hx h => callBuiltin_map_err hx h, fun _ _ hx h => callBuiltin_apply_err hx h,
   fun _ _ h => callBuiltin_swap_err h, fun _ _ h => callBuiltin_update_err h,
   fun _ _ _ h => callArm_builtin_err h⟩

/-! ### non-vacuity: concrete programs on `initState` (kernel evaluation) -/

private def sy (s : String) : Val := .sym s none
private def ls (xs : List Val) : Val := .list xs none
private def tr (n : Int) : Val := ls [sy "trace!", .int n]

/-- `(try (throw 7) (catch e e))` ⇒ 7 -/
example : ((eval 100 initState 0 (ls [sy "try", ls [sy "throw", .int 7], ls [sy "catch", sy "e", sy "e"]]) 0).1
    matches .ok (.int 7)) = true := by decide +kernel

/-- the handler value is returned, not evaluated again:
    `(try (throw 1) (catch e (quote (trace! 5))))` ⇒ the list `(trace! 5)`, and no effect happens -/
example :
    let r := eval 100 initState 0
      (ls [sy "try", ls [sy "throw", .int 1], ls [sy "catch", sy "e", ls [sy "quote", tr 5]]]) 0
    ((r.1 matches .ok (.list [.sym "trace!" _, .int 5] _)) && r.2.trace.isEmpty) = true := by decide +kernel

/-- finally runs once on the four paths; effects in order (most recent first):
    normal `(try (trace! 1) (finally (trace! 9)))`, caught, uncaught, handler throws -/
example :
    let fin := ls [sy "finally", tr 9]
    let tl (r : R) : List Int := r.2.trace.filterMap (fun v => match v with | .int i => some i | _ => none)
    let normal := eval 100 initState 0 (ls [sy "try", tr 1, fin]) 0
    let caught := eval 100 initState 0 (ls [sy "try", ls [sy "throw", .int 1], ls [sy "catch", sy "e", tr 2], fin]) 0
    let uncaught := eval 100 initState 0 (ls [sy "try", ls [sy "throw", .int 1], fin]) 0
    let rethrow := eval 100 initState 0
      (ls [sy "try", ls [sy "throw", .int 1], ls [sy "catch", sy "e", ls [sy "throw", .int 3]], fin]) 0
    (tl normal == [9, 1] && (normal.1 matches .ok (.int 1)) &&
     tl caught == [9, 2] && (caught.1 matches .ok (.int 2)) &&
     tl uncaught == [9] && (uncaught.1 matches .err (.lisp (.int 1) _)) &&
     tl rethrow == [9] && (rethrow.1 matches .err (.lisp (.int 3) _))) = true := by decide +kernel

/-- the deviation above on a real program: `(try (throw 7) (catch & 1))` ⇒ an error whose payload is a Go error
    object, not 7 -/
example : ((eval 100 initState 0
    (ls [sy "try", ls [sy "throw", .int 7], ls [sy "catch", sy "&", .int 1]]) 0).1
    matches .err (.lisp (.goerr _) _)) = true := by decide +kernel

/-- the catch variable is not visible after the form:
    `(do (try (throw 1) (catch e e)) e)` ⇒ error "symbol 'e' not found" -/
example : ((eval 100 initState 0
    (ls [sy "do", ls [sy "try", ls [sy "throw", .int 1], ls [sy "catch", sy "e", sy "e"]], sy "e"]) 0).1
    matches .err (.lisp (.goerr _) _)) = true := by decide +kernel

/-- a value thrown inside a `map` callback, two calls deep, arrives unchanged:
    `(try (map (fn (x) (throw [x 2])) [1]) (catch e e))` ⇒ `[1 2]` -/
example : ((eval 200 initState 0
    (ls [sy "try", ls [sy "map", ls [sy "fn", ls [sy "x"], ls [sy "throw", .vec [sy "x", .int 2] none]],
      .vec [.int 1] none], ls [sy "catch", sy "e", sy "e"]]) 0).1
    matches .ok (.vec [.int 1, .int 2] _)) = true := by decide +kernel

/-! ## laws added after the seeded changes of rounds 3–5 -/
open LispModel.Proofs.SeedLaws (Sy Ls Nm Kw runTop okIs traceEq)
open LispModel.Proofs.SeedLaws.C03 (isErrWith)

/-- `(try (throw 1) (catch e (trace! :h)) (finally (trace! :f)))` ⇒ `:h`, effects `:h` then `:f`: the
    handler runs before `finally` -/
theorem handler_before_finally :
    (let r := runTop (Ls [Sy "try", Ls [Sy "throw", Nm 1],
        Ls [Sy "catch", Sy "e", Ls [Sy "trace!", Kw "h"]], Ls [Sy "finally", Ls [Sy "trace!", Kw "f"]]]);
     okIs r (Kw "h") && traceEq r [Kw "h", Kw "f"]) = true :=
  Proofs.SeedLaws.C03.handler_before_finally

/-- a handler that throws: `finally` still runs (effects `:h`, `:f`) and the handler's error `2` (not the
    caught `1`) is the result -/
theorem finally_runs_when_handler_throws :
    (let r := runTop (Ls [Sy "try", Ls [Sy "throw", Nm 1],
        Ls [Sy "catch", Sy "e", Ls [Sy "trace!", Kw "h"], Ls [Sy "throw", Nm 2]], Ls [Sy "finally", Ls [Sy "trace!", Kw "f"]]]);
     isErrWith r (Nm 2) && !isErrWith r (Nm 1) && traceEq r [Kw "h", Kw "f"]) = true :=
  Proofs.SeedLaws.C03.finally_runs_when_handler_throws


/-! ## the error objects themselves (lisperror/lisperror.go; model LispModel/LispError.lean, engine lerr)

The evaluator model carries thrown values abstractly; these laws are about the Go objects that carry them: `LispError`,
`NewLispError` (re-positioning), `NewGoError` (`%w` wrapping), the `throw` builtin, and the standard library's
`errors.Is` / `errors.Unwrap` walk over such chains — tied to the real package by engine `lerr`. -/

open LispModel.LispError in
/-- re-positioning an error, any number of times, never changes the thrown object -/
theorem thrown_object_survives_repositioning {cs : List Carrier} {e r : E} (h : reposAll e cs = .ok r) :
    errorValue r = errorValue e := reposAll_keeps_object h

open LispModel.LispError in
/-- `throw` hands its argument on unchanged (an error as it is, any other value as the payload) -/
theorem throw_builtin_keeps_object {a r : E} (h : LispError.throw a = .ok r) : errorValue r = errorValue a :=
  throw_keeps_object h

open LispModel.LispError in
/-- whatever `errors.Is` finds in an error it still finds after any stack of `NewGoError` wrappings and
    re-positionings ("Go errors still reachable with errors.Is through any depth") -/
theorem errors_is_survives_wrapping {fs : List Frame} {e r t : E} (he : isErrorValue e = true) (hf : Flat e = true)
    (h : errorsIs e t = .ok true) (hr : applyFrames fs e = .ok r) : errorsIs r t = .ok true :=
  reposition_preserves_is he hf h hr

open LispModel.LispError in
/-- a panicking builtin's error value is found again through the binder's `NewGoError` -/
theorem go_error_wraps_original (id k : Nat) (n m : String) :
    errorsIs (newGoError id n (.sentinel k m)) (.sentinel k m) = .ok true := newGoError_wraps_original id k n m

open LispModel.LispError in
/-- `errors.Is` itself cannot panic unless both chains end in lisp collections of one uncomparable kind -/
theorem errors_is_panics_only_on_like_collections {e t : E}
    (h : ∀ a b, rootValue e = some a → rootValue t = some b → a.kind = b.kind → a.kind.comparable = true) :
    errorsIs e t ≠ .panic := errorsIs_no_panic_of_comparable h

end LispModel.Props.C03

/-
  C18 — property theorems (see DESIGN.md §6 C18).  Helper lemmas live in Proofs/.
-/
import LispModel.Eval
namespace LispModel.Props.C18
open LispModel

end LispModel.Props.C18

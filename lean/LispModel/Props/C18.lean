/-
  C18 — property theorems (see DESIGN.md §6 C18).  Helper lemmas live in Proofs/Stepper.lean.

  "Installing a debugger stepper does not change what programs compute.  With a Stepper callback
  installed, whatever sequence of commands (no-op, next, step in, step out) it returns, every program
  that terminates within the host stack yields the same result or error and the same ordered side
  effects as without a stepper.  The callback is only ever handed forms together with the scope they
  are about to be evaluated in."

  Observables (`Stepper.Obs`): scope store, atoms, `trace!` effects in order, number of polls of
  `ctx.Done()` (`ticks`) and the cancellation oracle.  NOT compared, by design: the `stepper` field
  itself and the `depth!` marks (with a stepper the loop does not `continue` but calls `EVAL`
  recursively, so EVAL-frame depths differ).
-/
import LispModel.Eval
import LispModel.Proofs.Stepper
namespace LispModel.Props.C18
open LispModel LispModel.Stepper

/-- C18, main clause.  A run of `EVAL` from a state with ANY stepper (any script of commands, any
    values of the three flags) at any depth `d`, which terminates within fuel `F` with result or
    error `r`, is reproduced by the run without a stepper (`erase st`) at any depth `d'` with the
    same fuel (and any larger one): same `r`, same observables, and still no stepper. -/
theorem stepper_transparent (F F' : Nat) (st : State) (env : Nat) (ast : Val) (d d' : Nat)
    (r : Res Val) (st' : State)
    (h : eval F st env ast d = (r, st')) (hr : r ≠ .oof) (hF : F ≤ F') :
    ∃ st'', eval F' (erase st) env ast d' = (r, st'') ∧ st''.stepper = none ∧ Obs st' st'' :=
  let ⟨t', e, k⟩ := eval_sim (Sim.erase st) (FuelOK.of_le hF) env ast d d' h hr
  ⟨t', e, k.nostep rfl, k.obs⟩

/-- C18, converse (a stepper loses no result, given stack): a run of `EVAL` without a stepper which
    terminates within fuel `F` is reproduced by the run from the same state with ANY stepper `x`
    installed, at any depth, with twice the fuel (with a stepper the loop does not `continue` but
    calls `EVAL`, one more activation per iteration): same result or error, same observables. -/
theorem stepper_preserves_termination (F F' : Nat) (st : State) (x : Option Stepper) (env : Nat) (ast : Val)
    (d d' : Nat) (r : Res Val) (st' : State)
    (h : eval F (erase st) env ast d = (r, st')) (hr : r ≠ .oof) (hF : 2 * F ≤ F') :
    ∃ st'', eval F' { st with stepper := x } env ast d' = (r, st'') ∧ Obs st' st'' :=
  let ⟨t', e, k⟩ := eval_sim (c := false) (s := erase st) (t := { st with stepper := x })
    (Sim.ofObs₂ ⟨rfl, rfl, rfl, rfl, rfl⟩) (FuelOK.of_two_mul_le hF) env ast d d' h hr
  ⟨t', e, k.obs⟩

/-- C18 for every function of the evaluator (`EVAL`, its loop, `eval_ast`, `do`, `let` bindings,
    `macroexpand`, `Apply`, `map`, `update`, `update-in`, the builtins): the fields of `Stepper.IH c F`
    say, function by function, what the two theorems above say for `eval`: for any two states with
    the same observables, a terminated run from the first is reproduced from the second — with the
    same fuel when the second has no stepper (`c = true`), with twice the fuel in general
    (`c = false`). -/
theorem stepper_transparent_block (c : Bool) (F : Nat) : Stepper.IH c F := ih_all c F

/-- C18 for `types.Apply` (how builtins and the host call closures), spelled out. -/
theorem stepper_transparent_apply (F F' : Nat) (st : State) (f : Val) (args : List Val) (d d' : Nat)
    (hr : (apply F st f args d).1 ≠ .oof) (hF : F ≤ F') :
    (apply F' (erase st) f args d').1 = (apply F st f args d).1
      ∧ (apply F' (erase st) f args d').2.stepper = none
      ∧ Obs (apply F st f args d).2 (apply F' (erase st) f args d').2 :=
  let ⟨e, k⟩ := (ih_all true F).apply st (erase st) f args d d' F' (Sim.erase st) (FuelOK.of_le hF) hr
  ⟨e, k.nostep rfl, k.obs⟩

/-- C18, "whatever sequence of commands it returns": for any two steppers (scripts and flag
    settings; or none) installed in the same state, at any depths and fuels, two terminated runs
    have the same result or error, the same effects in the same order and the same stores. -/
theorem flags_do_not_influence_result (st : State) (x₁ x₂ : Option Stepper) (F₁ F₂ : Nat)
    (env : Nat) (ast : Val) (d₁ d₂ : Nat) (r₁ r₂ : Res Val) (s₁ s₂ : State)
    (h₁ : eval F₁ { st with stepper := x₁ } env ast d₁ = (r₁, s₁)) (hr₁ : r₁ ≠ .oof)
    (h₂ : eval F₂ { st with stepper := x₂ } env ast d₂ = (r₂, s₂)) (hr₂ : r₂ ≠ .oof) :
    r₁ = r₂ ∧ s₁.trace = s₂.trace ∧ s₁.scopes = s₂.scopes ∧ s₁.atoms = s₂.atoms ∧ s₁.ticks = s₂.ticks :=
  let ⟨e, o⟩ := eval_agree (s₁ := { st with stepper := x₁ }) (s₂ := { st with stepper := x₂ })
    ⟨rfl, rfl, rfl, rfl, rfl⟩ env ast d₁ d₂ h₁ hr₁ h₂ hr₂
  ⟨e, o.2.2.1, o.1, o.2.1, o.2.2.2.1⟩

/-- C18, last clause: "the callback is only ever handed forms together with the scope they are about
    to be evaluated in".  The model logs the forms handed to the callback in `Stepper.calls` (most
    recent first).  For a run of `EVAL` on `ast` from a state whose stepper is `sp`: there still is a
    stepper afterwards and its log is the old log, then `ast` itself exactly when the callback was
    due (`skip` false) — handed over before the loop starts on `ast` in `env` —, then the forms
    logged by nested `EVAL` activations (each by this same rule). -/
theorem callback_sees_entry_pairs (F : Nat) (st : State) (env : Nat) (ast : Val) (d : Nat) (sp : Stepper)
    (h : st.stepper = some sp) :
    ∃ sp' new, (eval (F + 1) st env ast d).2.stepper = some sp'
      ∧ sp'.calls = new ++ (if sp.skip then sp.calls else ast :: sp.calls) :=
  eval_calls F st env ast d sp h

/-- …and nothing else writes the log: every function of the evaluator, at every fuel, keeps the
    stepper installed and only extends its log (`Stepper.Ext`; field by field in `Stepper.IHc`). -/
theorem callback_log_only_grows (F : Nat) : Stepper.IHc F := ihc_all F

/-- The callback is invoked by `EVAL` only, on entry: with a stepper, `EVAL` is `prologue` (which is
    the only writer of the log, and logs `ast`), the loop on the same `ast` and `env`, and the
    deferred flag resets. -/
theorem callback_only_in_prologue (F : Nat) (st : State) (env : Nat) (ast : Val) (d : Nat) (sp : Stepper)
    (h : st.stepper = some sp) :
    eval (F + 1) st env ast d =
      ((evalLoop F { st with stepper := some (prologue sp ast).1 } env ast d).1,
       epilogue (prologue sp ast).1.outing2 (prologue sp ast).2
         (evalLoop F { st with stepper := some (prologue sp ast).1 } env ast d).2)
    ∧ (prologue sp ast).1.calls = (if sp.skip then sp.calls else ast :: sp.calls) :=
  ⟨eval_some F st env ast d sp h, prologue_calls sp ast⟩

/-! ### non-vacuity: a closure, `try`/`catch`/`throw`, `let`, on `initState`, kernel-evaluated -/

private def sy (s : String) : Val := .sym s none
private def ls (xs : List Val) : Val := .list xs none

/-- `(do (def f (fn [x] (do (trace! x) (+ x 1))))
        (trace! (f 1))
        (try (do (trace! 10) (throw 5) (trace! 11)) (catch e (trace! (+ e 100))))
        (let [y (f 20)] (trace! y)))` -/
private def prog : Val :=
  ls [sy "do",
    ls [sy "def", sy "f", ls [sy "fn", .vec [sy "x"] none,
      ls [sy "do", ls [sy "trace!", sy "x"], ls [sy "+", sy "x", .int 1]]]],
    ls [sy "trace!", ls [sy "f", .int 1]],
    ls [sy "try", ls [sy "do", ls [sy "trace!", .int 10], ls [sy "throw", .int 5], ls [sy "trace!", .int 11]],
      ls [sy "catch", sy "e", ls [sy "trace!", ls [sy "+", sy "e", .int 100]]]],
    ls [sy "let", .vec [sy "y", ls [sy "f", .int 20]] none, ls [sy "trace!", sy "y"]]]

/-- result, `trace!` effects (most recent first) and number of polls of a run, as integers -/
private def outInt (p : R) : Option Int × List (Option Int) × Nat :=
  (match p.1 with | .ok (.int i) => some i | _ => none,
   p.2.trace.map (fun v => match v with | .int i => some i | _ => none), p.2.ticks)

private def withScript (script : List Cmd) : State := { initState with stepper := some { script := script } }

private def nCalls (p : R) : Nat := match p.2.stepper with | some sp => sp.calls.length | none => 0

/-- without a stepper: 21, effects 1 2 10 105 20 21 -/
example : outInt (eval 40 initState 0 prog 0)
    = (some 21, [some 21, some 20, some 105, some 10, some 2, some 1], 47) := by decide +kernel

/-- the script of the property text -/
example : outInt (eval 40 (withScript [.next, .stepIn, .stepOut, .noop, .next]) 0 prog 0)
    = outInt (eval 40 initState 0 prog 0) := by decide +kernel

/-- a script that keeps stepping in and out (the callback really runs: it is handed 33 forms) -/
example : outInt (eval 60 (withScript [.stepIn, .stepIn, .stepIn, .stepOut, .stepIn, .stepIn, .stepIn,
      .stepIn, .stepIn, .stepIn, .next]) 0 prog 0)
    = outInt (eval 40 initState 0 prog 0) := by decide +kernel
example : nCalls (eval 60 (withScript [.stepIn, .stepIn, .stepIn, .stepOut, .stepIn, .stepIn, .stepIn,
      .stepIn, .stepIn, .stepIn, .next]) 0 prog 0) = 33 := by decide +kernel

end LispModel.Props.C18

/-
  C14 — `=` is structural equality and an equivalence relation on data.

  Property theorems only (helper lemmas live in Proofs/StructEq.lean).  `equalQ` is the Lean mirror
  of `types.Equal_Q` (tied to the Go code by the `eq` correspondence engine on every run), `SEq` the
  mathematical structural equality of Spec/StructEq.lean, `Data` the data domain of the property.
-/
import LispModel.Proofs.MetaLaws
import LispModel.Equal
import LispModel.Spec.StructEq
import LispModel.Proofs.StructEq
namespace LispModel.Props.C14
open LispModel

/-- `=` coincides with structural equality on data values. -/
theorem equalQ_iff_structural (a b : Val) (ha : Data a) (hb : Data b) :
    equalQ a b = true ↔ SEq a b := Proofs.equalQ_iff_SEq a b ha hb

/-- the executable spec oracle used by the harness is the same relation -/
theorem oracle_iff_structural (a b : Val) (ha : Data a) (hb : Data b) :
    structEqB a b = true ↔ SEq a b := Proofs.structEqB_iff_SEq a b ha hb

/-- reflexive (on data values) -/
theorem eq_refl (a : Val) (ha : Data a) : equalQ a a = true :=
  (equalQ_iff_structural a a ha ha).2 (Proofs.SEq_refl a ha)

/-- symmetric -/
theorem eq_symm (a b : Val) (ha : Data a) (hb : Data b) (h : equalQ a b = true) : equalQ b a = true :=
  (equalQ_iff_structural b a hb ha).2 (Proofs.SEq_symm ((equalQ_iff_structural a b ha hb).1 h))

/-- transitive -/
theorem eq_trans (a b c : Val) (ha : Data a) (hb : Data b) (hc : Data c)
    (h1 : equalQ a b = true) (h2 : equalQ b c = true) : equalQ a c = true :=
  (equalQ_iff_structural a c ha hc).2
    (Proofs.SEq_trans ((equalQ_iff_structural a b ha hb).1 h1) ((equalQ_iff_structural b c hb hc).1 h2))

/-- a list and a vector with pairwise equal elements are equal -/
theorem list_vector_equal (xs ys : List Val) (p q : Option Pos)
    (hx : ∀ x ∈ xs, Data x) (hy : ∀ y ∈ ys, Data y) (h : Forall2 SEq xs ys) :
    equalQ (.list xs p) (.vec ys q) = true :=
  (equalQ_iff_structural _ _ (.list hx) (.vec hy)).2 (.seq rfl rfl h)

/-- two maps are equal exactly when they have the same keys with equal values -/
theorem maps_equal_iff (m1 m2 : List (String × Val)) (h1 : Data (.map m1)) (h2 : Data (.map m2)) :
    equalQ (.map m1) (.map m2) = true ↔
      (∀ k, (alookup k m1).isSome = (alookup k m2).isSome) ∧
      (∀ k v w, alookup k m1 = some v → alookup k m2 = some w → SEq v w) :=
  Proofs.maps_equal_iff m1 m2 h1 h2

/-- … regardless of construction order: any permutation of the entries is an equal map -/
theorem map_order_independent (m1 m2 : List (String × Val)) (h1 : Data (.map m1))
    (hp : m1.Perm m2) : equalQ (.map m1) (.map m2) = true :=
  Proofs.map_perm_equal m1 m2 h1 hp

/-- two sets are equal exactly when they have the same members, regardless of order -/
theorem sets_equal_iff (s1 s2 : List String) (h1 : s1.Nodup) (h2 : s2.Nodup) :
    equalQ (.set s1) (.set s2) = true ↔ ∀ k, k ∈ s1 ↔ k ∈ s2 :=
  Proofs.sets_equal_iff s1 s2 h1 h2

/-- values of different kinds are never equal: string, keyword and symbol of the same spelling … -/
theorem string_symbol_never_equal (s t : String) (p : Option Pos) :
    equalQ (.str s) (.sym t p) = false ∧ equalQ (.sym t p) (.str s) = false := by
  constructor <;> rfl

/-- a keyword is a string with the marker prefix: it equals a string only if the string is that keyword -/
theorem keyword_string_equal_iff (s t : String) :
    equalQ (Val.kw s) (.str t) = true ↔ t = String.ofList (kwMarker :: s.toList) := by
  simp only [Val.kw, equalQ, beq_iff_eq]
  exact eq_comm

/-- … nil, false, the empty list and zero are pairwise different -/
theorem nil_false_empty_zero_distinct (p : Option Pos) :
    equalQ .nil (.bool false) = false ∧ equalQ .nil (.list [] p) = false ∧ equalQ .nil (.int 0) = false ∧
    equalQ (.bool false) (.list [] p) = false ∧ equalQ (.bool false) (.int 0) = false ∧
    equalQ (.list [] p) (.int 0) = false ∧
    equalQ (.bool false) .nil = false ∧ equalQ (.list [] p) .nil = false ∧ equalQ (.int 0) .nil = false ∧
    equalQ (.list [] p) (.bool false) = false ∧ equalQ (.int 0) (.bool false) = false ∧
    equalQ (.int 0) (.list [] p) = false := by
  refine ⟨rfl, rfl, rfl, rfl, rfl, rfl, rfl, rfl, rfl, rfl, rfl, rfl⟩

/-- positions never take part in equality -/
theorem positions_ignored (s : String) (xs : List Val) (p q : Option Pos) (h : ∀ x ∈ xs, Data x) :
    equalQ (.sym s p) (.sym s q) = true ∧ equalQ (.list xs p) (.list xs q) = true := by
  refine ⟨by simp [equalQ], ?_⟩
  exact (equalQ_iff_structural _ _ (.list h) (.list h)).2
    (.seq rfl rfl (Proofs.Forall2_refl xs (fun x hx => Proofs.SEq_refl x (h x hx))))

/-- non-vacuity: a nested data value with maps that differ only in construction order -/
example : equalQ (.map [("a", .list [.int 1, .nil] none), ("ʞb", .set ["x", "y"])])
                 (.map [("ʞb", .set ["y", "x"]), ("a", .vec [.int 1, .nil] none)]) = true := by decide

/-- the defect repaired by the D8 fix stays machine-checked against the old code -/
example : equalQ (.map [("ʞa", .nil)]) (.map [("ʞb", .nil)]) = false := by decide


open LispModel.Meta in
/-- metadata is not part of a value: `=` answers the same with and without it, on either side, at any depth
    (model of values with metadata: LispModel/Meta.lean) -/
theorem equality_ignores_metadata {x m y : MVal} (h : withMeta x m = .ok y) (z : MVal) :
    equalQ (erase y) (erase z) = equalQ (erase x) (erase z) ∧
    equalQ (erase z) (erase y) = equalQ (erase z) (erase x) := equal_ignores_meta h z

open LispModel.Meta in
/-- `Equal_Q` run on values that carry metadata anywhere inside answers what `equalQ` answers on the bare values -/
theorem equality_with_nested_metadata (a b : MVal) (r : Bool) (h : mEqual a b = .ok r) :
    r = equalQ (erase a) (erase b) := mEqual_sound a b r h

end LispModel.Props.C14

/-
  C13 — collection builtins behave as pure functions matching the sequence / map / set model.

  Property theorems only (proofs and helper lemmas live in Proofs/CoreLaws.lean).  The subject is
  `Core.call name args`: the reflective binder's count/type checks followed by the builtin's body
  (`Core.lean`, tied to lib/core/core.go by the correspondence engines on every run); for the four
  builtins that call back into the evaluator (map, apply, update, update-in) it is `callBuiltin`.
  Vocabulary (Proofs/CoreLaws.lean):
    `callOk name args r`  — `(name args…)` returns the value `r`;
    `callErr name args`   — `(name args…)` is an error (a thrown value or a Go error), never a value;
    `Seq s xs`            — `s` is a list or a vector whose elements are `xs`;
    `holds p v`           — the predicate builtin `p` returns `true` on `v`;
    `flatKV kvs`          — the flat argument list `k₁ v₁ k₂ v₂ …`; `insertAll m kvs` — `m[k] = v` in a loop;
    `insertKeys s ks`     — the keys added to a set one after the other.
  Maps are association lists (`alookup`/`ainsert`/`aerase`, keys without duplicates = `(akeys m).Nodup`),
  sets duplicate-free string lists.  Variadic builtins accept at most 1000 arguments (Go: `unlimitedArgments`).

  builtin × domain × result (every line is a theorem below; outside the domain: an error)
  | builtin            | domain                                         | result                                  |
  |--------------------|------------------------------------------------|-----------------------------------------|
  | list / vector      | any ≤ 1000 args                                | list / vector of the args               |
  | count              | list, vector, map, set, nil                    | int (nil ↦ 0)                           |
  | empty?             | list, vector, map, set, nil                    | bool (= count is 0)                     |
  | cons x s           | s list or vector (NOT nil)                     | list `x :: s`                           |
  | concat s…          | lists / vectors                                | list (also for no argument)             |
  | first / rest       | list, vector, nil                              | head or nil / LIST of the tail (nil ↦ ())|
  | nth s i            | s list or vector, int 0 ≤ i < count            | the element; otherwise error            |
  | take / drop n s    | int n (any sign), s list, vector or nil        | list (nil ↦ ())                         |
  | drop-last n s      | as take                                        | list (nil ↦ ())                         |
  | take-last n s      | as take                                        | list, or NIL when nothing is taken      |
  | subvec v a [b]     | v vector, 0 ≤ a ≤ b ≤ count                    | vector (window); otherwise error        |
  | range a b          | ints                                           | vector a … b-1 (empty when b ≤ a)       |
  | vec                | list, vector, set (NOT nil)                    | vector                                  |
  | seq                | nil, list, vector, set, string                 | nil for nil/()/[]/"", else a list       |
  | conj c x…          | list (prepends reversed), vector (appends), map (k v pairs), set; NOT nil; ≥ 1 item | same kind as c |
  | hash-map k v …     | even count, string/keyword keys                | map                                     |
  | assoc m k v …      | map + string keys (pairs); vector + int index in range; set + keys | map / vector / set |
  | dissoc m k…        | map or set, string keys                        | map / set                               |
  | get c k            | nil (↦ nil); map/set + string; list/vector + int index IN RANGE | value or nil (maps, sets) |
  | contains? c k      | k string; c map, set or nil                    | bool                                    |
  | keys / vals        | map (NOT nil)                                  | list, same order                        |
  | merge a b          | each a map or nil                              | map (nil when both nil)                 |
  | rename-keys m r    | maps; r's values strings                       | map                                     |
  | get-in c [k…]      | see `get_in_fold`                              | value or nil                            |
  | assoc-in c [k…] v  | nested maps                                    | map                                     |
  | set / hash-set     | nil, list/vector of strings / strings          | set without duplicates                  |
  | map f s            | s list or vector                               | list                                    |
  | apply f a… s       | s list or vector                               | what f returns                          |
  | update m k f       | map + string, vector + index, nil (↦ nil)      | map / vector                            |
-/
import LispModel.Proofs.Coherence
import LispModel.Proofs.IntArithLaws
import LispModel.Proofs.TyCtorLaws
import LispModel.Core
import LispModel.Eval
import LispModel.Proofs.CoreLaws
import LispModel.Proofs.SeedLaws
namespace LispModel.Props.C13
open LispModel LispModel.Core LispModel.CoreLaws

/-! ## sequences -/

/-- `(count '(x₁ … xₙ)) = n` -/
theorem count_list (xs : List Val) (p) : callOk "count" [.list xs p] (.int xs.length) :=
  CoreLaws.count_list xs p

/-- `(count [x₁ … xₙ]) = n` -/
theorem count_vector (xs : List Val) (p) : callOk "count" [.vec xs p] (.int xs.length) :=
  CoreLaws.count_vector xs p

/-- `(count nil) = 0` -/
theorem count_nil : callOk "count" [.nil] (.int 0) := CoreLaws.count_nil

/-- `(count (concat a b)) = (count a) + (count b)` -/
theorem count_concat {a b xs ys} (ha : Seq a xs) (hb : Seq b ys) :
    ∃ r, callOk "concat" [a, b] r ∧ callOk "count" [a] (.int xs.length) ∧
      callOk "count" [b] (.int ys.length) ∧ callOk "count" [r] (.int (xs.length + ys.length)) :=
  CoreLaws.count_concat ha hb

/-- `(empty? c)` is true exactly when `(count c)` is 0 (same domain) -/
theorem empty_iff_count_zero (v : Val) (b : Bool) (h : callOk "empty?" [v] (.bool b)) :
    ∃ n : Nat, callOk "count" [v] (.int n) ∧ (b = true ↔ n = 0) := CoreLaws.empty_iff_count_zero v b h

/-- `(list x…)` / `(vector x…)` build a list / vector of their arguments -/
theorem list_vector_spec (xs : List Val) (hl : xs.length ≤ 1000) :
    callOk "list" xs (.list xs none) ∧ callOk "vector" xs (.vec xs none) :=
  ⟨CoreLaws.list_spec xs hl, CoreLaws.vector_spec xs hl⟩

/-- `(cons x s)` is the LIST `x :: elements s`, for a list or a vector `s` -/
theorem cons_prepends {s xs} (x : Val) (h : Seq s xs) : callOk "cons" [x, s] (.list (x :: xs) none) :=
  CoreLaws.cons_prepends x h

/-- `(nth s n)` is the n-th element, for `0 ≤ n < count s` -/
theorem nth_in_range {s xs} (h : Seq s xs) (n : Nat) (hn : n < xs.length) :
    callOk "nth" [s, .int n] xs[n] := CoreLaws.nth_spec h n hn

/-- `(nth (cons x s) 0) = x` -/
theorem nth_cons_zero {s xs} (x : Val) (h : Seq s xs) :
    ∃ r, callOk "cons" [x, s] r ∧ callOk "nth" [r, .int 0] x := CoreLaws.nth_cons_zero x h

/-- `(nth (cons x s) (i+1)) = (nth s i)` for `i ≥ 0`, errors included -/
theorem nth_cons_succ {s xs} (x : Val) (h : Seq s xs) (i : Int) (hi : 0 ≤ i) :
    ∃ r, callOk "cons" [x, s] r ∧ Core.call "nth" [r, .int (i + 1)] = Core.call "nth" [s, .int i] :=
  CoreLaws.nth_cons_succ x h i hi

/-- a non-empty sequence decomposes: `first` is the head, `rest` the LIST of the tail, and `cons`
    puts them together again (as a list with the same elements) -/
theorem first_rest_decompose {s x xs} (h : Seq s (x :: xs)) :
    callOk "first" [s] x ∧ callOk "rest" [s] (.list xs none) ∧
    callOk "cons" [x, .list xs none] (.list (x :: xs) none) :=
  ⟨CoreLaws.first_cons h, CoreLaws.rest_cons h, CoreLaws.cons_prepends x (Seq_list xs none)⟩

/-- `(first nil) = nil`, `(rest nil) = ()`, `(first ()) = (first []) = nil`, `(rest ()) = (rest []) = ()` -/
theorem first_rest_of_nothing :
    callOk "first" [.nil] .nil ∧ callOk "rest" [.nil] (.list [] none) ∧
    (∀ s, Seq s [] → callOk "first" [s] .nil ∧ callOk "rest" [s] (.list [] none)) :=
  ⟨CoreLaws.first_nil, CoreLaws.rest_nil, fun _ h => ⟨CoreLaws.first_empty h, CoreLaws.rest_empty h⟩⟩

/-- `(take n s)` and `(drop n s)` are LISTS that split `s`, for every integer `n` -/
theorem take_drop_append {s xs} (h : Seq s xs) (n : Int) :
    ∃ a b, callOk "take" [.int n, s] (.list a none) ∧ callOk "drop" [.int n, s] (.list b none) ∧
      a ++ b = xs := CoreLaws.take_drop_append h n

/-- … `take` has `n` elements when `0 ≤ n ≤ count`, … -/
theorem take_length {s xs} (h : Seq s xs) (n : Nat) (hn : n ≤ xs.length) :
    ∃ a, callOk "take" [.int n, s] (.list a none) ∧ a.length = n := CoreLaws.take_length h n hn

/-- … for `n ≤ 0` nothing is taken and nothing dropped, and on nil both give `()` -/
theorem take_drop_edge_cases :
    (∀ s xs (n : Int), Seq s xs → n ≤ 0 →
      callOk "take" [.int n, s] (.list [] none) ∧ callOk "drop" [.int n, s] (.list xs none)) ∧
    (∀ n : Int, callOk "take" [.int n, .nil] (.list [] none) ∧ callOk "drop" [.int n, .nil] (.list [] none)) :=
  ⟨fun _ _ n h hn => CoreLaws.take_nonpositive h n hn, fun n => ⟨CoreLaws.take_nil n, CoreLaws.drop_nil n⟩⟩

/-- `(drop-last n s)` and `(take-last n s)` split `s` from the other end, for every integer `n`;
    `drop-last` gives a list, `take-last` a list or NIL when it takes nothing -/
theorem take_last_drop_last {s xs} (h : Seq s xs) (n : Int) :
    ∃ a b, callOk "drop-last" [.int n, s] (.list a none) ∧
      callOk "take-last" [.int n, s] (if b.isEmpty then .nil else .list b none) ∧ a ++ b = xs :=
  CoreLaws.take_last_drop_last h n

/-- … `take-last` has `n` elements when `0 < n ≤ count`; on nil: `(take-last n nil) = nil`, `(drop-last n nil) = ()` -/
theorem take_last_length_and_nil :
    (∀ s xs (n : Nat), Seq s xs → 0 < n → n ≤ xs.length →
      ∃ b, callOk "take-last" [.int n, s] (.list b none) ∧ b.length = n) ∧
    (∀ n : Int, callOk "take-last" [.int n, .nil] .nil ∧ callOk "drop-last" [.int n, .nil] (.list [] none)) :=
  ⟨fun _ _ n h h0 hn => CoreLaws.take_last_length h n h0 hn,
   fun n => ⟨CoreLaws.take_last_nil n, CoreLaws.drop_last_nil n⟩⟩

/-- `(subvec v a b)` is exactly the window `take (b-a) (drop a v)`, a VECTOR of `b-a` elements, when
    `0 ≤ a ≤ b ≤ count v`; in every other case it is an ERROR (never a longer or padded vector) -/
theorem subvec_is_window (xs p) (a b : Int) :
    (0 ≤ a ∧ a ≤ b ∧ b ≤ xs.length →
      callOk "subvec" [.vec xs p, .int a, .int b] (.vec ((xs.drop a.toNat).take (b - a).toNat) none)) ∧
    (¬ (0 ≤ a ∧ a ≤ b ∧ b ≤ xs.length) → callErr "subvec" [.vec xs p, .int a, .int b]) :=
  ⟨CoreLaws.subvec_window xs p a b, CoreLaws.subvec_error xs p a b⟩

/-- `(subvec v a)` is `drop a` as a vector when `0 ≤ a ≤ count v`, an error otherwise;
    `subvec` of a list is an error -/
theorem subvec_from_and_domain (xs p) (a : Int) :
    (0 ≤ a ∧ a ≤ xs.length → callOk "subvec" [.vec xs p, .int a] (.vec (xs.drop a.toNat) none)) ∧
    (¬ (0 ≤ a ∧ a ≤ xs.length) → callErr "subvec" [.vec xs p, .int a]) ∧
    (∀ idx, callErr "subvec" (.list xs p :: idx)) :=
  ⟨CoreLaws.subvec2_window xs p a, CoreLaws.subvec2_error xs p a, CoreLaws.subvec_list_error xs p⟩

/-- `(conj '(y…) x₁ … xₙ)` is the LIST `xₙ … x₁ y…` (n ≥ 1) -/
theorem conj_list_prepends_reversed (ys p) (xs : List Val) (h1 : xs ≠ []) (hl : xs.length < 1000) :
    callOk "conj" (.list ys p :: xs) (.list (xs.reverse ++ ys) none) := CoreLaws.conj_list ys p xs h1 hl

/-- `(conj [y…] x₁ … xₙ)` is the VECTOR `y… x₁ … xₙ` (n ≥ 1) -/
theorem conj_vector_appends (ys p) (xs : List Val) (h1 : xs ≠ []) (hl : xs.length < 1000) :
    callOk "conj" (.vec ys p :: xs) (.vec (ys ++ xs) none) := CoreLaws.conj_vector ys p xs h1 hl

/-- `(concat s₁ … sₙ)` is the LIST of all the elements, in order (n = 0: the empty list) -/
theorem concat_spec {ss xss} (h : Seqs ss xss) (hl : ss.length ≤ 1000) :
    callOk "concat" ss (.list xss.flatten none) := CoreLaws.concat_spec h hl

/-- `concat` is associative, and the three-argument form agrees -/
theorem concat_assoc {a b c xs ys zs} (ha : Seq a xs) (hb : Seq b ys) (hc : Seq c zs) :
    ∃ ab bc r, callOk "concat" [a, b] ab ∧ callOk "concat" [b, c] bc ∧
      callOk "concat" [ab, c] r ∧ callOk "concat" [a, bc] r ∧ callOk "concat" [a, b, c] r ∧
      r = .list (xs ++ ys ++ zs) none := CoreLaws.concat_assoc ha hb hc

/-- `(range a b)` is the VECTOR `a, a+1, …, b-1` -/
theorem range_spec (f t : Int) : ∃ es, callOk "range" [.int f, .int t] (.vec es none) ∧
    es.length = (t - f).toNat ∧ ∀ i (h : i < es.length), es[i] = .int (f + i) := CoreLaws.range_spec f t

/-- … empty when `b ≤ a` -/
theorem range_empty (f t : Int) (h : t ≤ f) : callOk "range" [.int f, .int t] (.vec [] none) :=
  CoreLaws.range_empty f t h

/-- `(vec s)` is the VECTOR with the elements of the list or vector `s`; of a set, its members -/
theorem vec_of_list {s xs} (h : Seq s xs) : callOk "vec" [s] (.vec xs none) := CoreLaws.vec_of_seq h
theorem vec_of_set (ks : List String) : callOk "vec" [.set ks] (.vec (ks.map .str) none) :=
  CoreLaws.vec_of_set ks

/-- `seq`: nil for nil and for an empty list/vector, otherwise a LIST with the same elements;
    a set gives the list of its members (the EMPTY set gives `()`, not nil); a map is an error -/
theorem seq_spec :
    callOk "seq" [.nil] .nil ∧ (∀ s, Seq s [] → callOk "seq" [s] .nil) ∧
    (∀ s xs, Seq s xs → xs ≠ [] → ∃ p, callOk "seq" [s] (.list xs p)) ∧
    (∀ ks, callOk "seq" [.set ks] (.list (ks.map .str) none)) ∧ (∀ m, callErr "seq" [.map m]) :=
  ⟨CoreLaws.seq_nil, fun _ h => CoreLaws.seq_empty h, fun _ _ h hne => CoreLaws.seq_nonempty h hne,
   CoreLaws.seq_set, CoreLaws.seq_map_error⟩

/-! ## maps -/

/-- `(hash-map k₁ v₁ … kₙ vₙ)` writes the entries in order into an empty map (later wins) -/
theorem hash_map_spec (kvs : List (String × Val)) (hl : 2 * kvs.length ≤ 1000) :
    callOk "hash-map" (flatKV kvs) (.map (insertAll [] kvs)) := CoreLaws.hash_map_spec kvs hl

/-- `(assoc m k₁ v₁ … kₙ vₙ)`, n ≥ 1, writes the entries in order into `m` -/
theorem assoc_spec (m kvs : List (String × Val)) (hne : kvs ≠ []) (hl : 2 * kvs.length < 1000) :
    callOk "assoc" (.map m :: flatKV kvs) (.map (insertAll m kvs)) := CoreLaws.assoc_map m kvs hne hl

/-- `(get (assoc m k v) k) = v` -/
theorem get_assoc_same (m : List (String × Val)) (k : String) (v : Val) :
    ∃ r, callOk "assoc" [.map m, .str k, v] r ∧ callOk "get" [r, .str k] v :=
  ⟨_, CoreLaws.assoc_map1 m k v, CoreLaws.get_assoc_same m k v⟩

/-- `(get (assoc m k v) k') = (get m k')` for `k' ≠ k` -/
theorem get_assoc_other (m : List (String × Val)) {k k' : String} (h : k ≠ k') (v : Val) :
    ∃ r, callOk "assoc" [.map m, .str k, v] r ∧
      Core.call "get" [r, .str k'] = Core.call "get" [.map m, .str k'] :=
  ⟨_, CoreLaws.assoc_map1 m k v, CoreLaws.get_assoc_other m h v⟩

/-- `(get (dissoc m k) k) = nil`, `(contains? (dissoc m k) k) = false`, other keys are untouched -/
theorem get_dissoc (m : List (String × Val)) (k : String) (h : (akeys m).Nodup) :
    ∃ r, callOk "dissoc" [.map m, .str k] r ∧ callOk "get" [r, .str k] .nil ∧
      callOk "contains?" [r, .str k] (.bool false) ∧
      ∀ k', k ≠ k' → Core.call "get" [r, .str k'] = Core.call "get" [.map m, .str k'] :=
  ⟨_, CoreLaws.dissoc_map1 m k, CoreLaws.get_dissoc_same m k h, CoreLaws.contains_dissoc_same m k h,
   fun _ hk => CoreLaws.get_dissoc_other m hk⟩

/-- `(contains? (assoc m k v) k) = true` -/
theorem contains_assoc (m : List (String × Val)) (k : String) (v : Val) :
    ∃ r, callOk "assoc" [.map m, .str k, v] r ∧ callOk "contains?" [r, .str k] (.bool true) :=
  ⟨_, CoreLaws.assoc_map1 m k v, CoreLaws.contains_assoc m k v⟩

/-- `(contains? m k)` is true exactly when `k` is one of `(keys m)`; a missing key reads as nil, a
    present key as the value of its entry -/
theorem contains_iff_lookup (m : List (String × Val)) (k : String) :
    (∃ ks, callOk "keys" [.map m] (.list ks none) ∧
      (callOk "contains?" [.map m, .str k] (.bool true) ↔ Val.str k ∈ ks)) ∧
    (callOk "contains?" [.map m, .str k] (.bool false) → callOk "get" [.map m, .str k] .nil) ∧
    (callOk "contains?" [.map m, .str k] (.bool true) → ∃ v, (k, v) ∈ m ∧ callOk "get" [.map m, .str k] v) :=
  ⟨⟨_, CoreLaws.keys_map m, CoreLaws.contains_iff_keys m k⟩, (CoreLaws.get_of_contains m k).1,
   (CoreLaws.get_of_contains m k).2⟩

/-- `keys` and `vals` are LISTS enumerating the entries in the same order -/
theorem keys_vals_zip (m : List (String × Val)) :
    ∃ ks vs, callOk "keys" [.map m] (.list ks none) ∧ callOk "vals" [.map m] (.list vs none) ∧
      ks.length = vs.length ∧ ks.zip vs = m.map (fun kv => (Val.str kv.1, kv.2)) :=
  CoreLaws.keys_vals_zip m

/-- `(count (keys m)) = (count m)` -/
theorem count_keys (m : List (String × Val)) :
    ∃ ks n, callOk "keys" [.map m] ks ∧ callOk "count" [ks] (.int n) ∧ callOk "count" [.map m] (.int n) :=
  CoreLaws.count_keys m

/-- `(merge m1 m2)`: the right map wins on common keys, the left one supplies the others -/
theorem merge_right_biased (m1 m2 : List (String × Val)) (h2 : (akeys m2).Nodup) (k : String) :
    ∃ r, callOk "merge" [.map m1, .map m2] r ∧
      (callOk "contains?" [.map m2, .str k] (.bool true) →
        Core.call "get" [r, .str k] = Core.call "get" [.map m2, .str k]) ∧
      (callOk "contains?" [.map m2, .str k] (.bool false) →
        Core.call "get" [r, .str k] = Core.call "get" [.map m1, .str k]) :=
  CoreLaws.merge_right_biased m1 m2 h2 k

/-- `(merge nil nil) = nil`; merging a map with nil on either side gives the map back -/
theorem merge_nil (m : List (String × Val)) (h : (akeys m).Nodup) :
    callOk "merge" [.nil, .nil] .nil ∧ callOk "merge" [.nil, .map m] (.map m) ∧
    callOk "merge" [.map m, .nil] (.map m) := by
  refine ⟨CoreLaws.merge_nil_nil, ?_, ?_⟩
  · simpa [CoreLaws.insertAll_nil_of_nodup h] using CoreLaws.merge_nil_left m
  · simpa [CoreLaws.insertAll_nil_of_nodup h] using CoreLaws.merge_nil_right m

/-- an odd number of arguments to `hash-map` is an error -/
theorem hash_map_odd_is_error (xs : List Val) (h : xs.length % 2 = 1) : callErr "hash-map" xs :=
  CoreLaws.hash_map_odd_error xs h

/-- a key that is not a string/keyword — after any number of good pairs — makes `hash-map` an error -/
theorem hash_map_non_string_key_is_error (pre : List (String × Val)) (k v : Val) (post : List Val)
    (hk : ∀ s, k ≠ .str s) : callErr "hash-map" (flatKV pre ++ k :: v :: post) :=
  CoreLaws.hash_map_non_string_key_error pre k v post hk

/-- no builtin creates a duplicate key: `assoc` (any arguments), `hash-map`, `conj`, `merge`, `dissoc`
    return maps whose keys are pairwise different (given that the argument's are) -/
theorem assoc_overwrites (m : List (String × Val)) (h : (akeys m).Nodup) :
    (∀ rest r, callOk "assoc" (.map m :: rest) r → ∃ m', r = .map m' ∧ (akeys m').Nodup) ∧
    (∀ xs r, callOk "hash-map" xs r → ∃ m', r = .map m' ∧ (akeys m').Nodup) ∧
    (∀ xs r, callOk "conj" (.map m :: xs) r → ∃ m', r = .map m' ∧ (akeys m').Nodup) ∧
    (∀ m2, ∃ m', callOk "merge" [.map m, .map m2] (.map m') ∧ (akeys m').Nodup) ∧
    (∀ k, ∃ m', callOk "dissoc" [.map m, .str k] (.map m') ∧ (akeys m').Nodup) :=
  ⟨fun rest _ e => CoreLaws.assoc_overwrites m rest h e, fun xs _ e => CoreLaws.hash_map_nodup xs e,
   fun xs _ e => CoreLaws.conj_map_nodup m xs h e, fun m2 => CoreLaws.merge_nodup m m2 h,
   fun k => CoreLaws.dissoc_nodup m k h⟩

/-- `(conj m k₁ v₁ …)` on a map writes the pairs like `assoc` -/
theorem conj_map (m kvs : List (String × Val)) (hne : kvs ≠ []) (hl : 2 * kvs.length < 1000) :
    callOk "conj" (.map m :: flatKV kvs) (.map (insertAll m kvs)) := CoreLaws.conj_map m kvs hne hl

/-- `(get-in v [k₁ … kₙ])` is the iterated `get` (`iterGet`), as long as every value traversed while at
    least two keys remain is a map or nil (`MapPath`) -/
theorem get_in_fold (v : Val) (ks : List String) (p) (h : MapPath v ks) :
    Core.call "get-in" [v, .vec (ks.map .str) p] = some (iterGet v (ks.map .str)) :=
  CoreLaws.get_in_fold v ks p h

/-- … and not beyond: through a number in the middle of a longer path `get-in` yields nil where the
    iterated `get` is an error -/
theorem get_in_through_scalar :
    callOk "get-in" [.map [("a", .int 5)], .vec [.str "a", .str "b", .str "c"] none] .nil ∧
    isErr (iterGet (.map [("a", .int 5)]) [.str "a", .str "b", .str "c"]) = true :=
  CoreLaws.get_in_through_scalar

/-- on nested maps (`NestedMaps`: entries met before the last key are maps, nil or missing — missing
    levels are created), `get-in` after `assoc-in` with the same non-empty path gives the value -/
theorem assoc_in_get_in (m : List (String × Val)) (k : String) (ks : List String) (p q) (nv : Val)
    (h : NestedMaps m (k :: ks)) :
    ∃ r, callOk "assoc-in" [.map m, .vec ((k :: ks).map .str) p, nv] r ∧
      callOk "get-in" [r, .vec ((k :: ks).map .str) q] nv := CoreLaws.assoc_in_get_in m k ks p q nv h

/-- `rename-keys` with a renaming `alt` whose applicable values are strings (`RenStr`) and that makes
    no two keys collide: every key `k` becomes `ren alt k`, values and order are kept -/
theorem rename_keys_spec (data alt : List (String × Val)) (h : RenStr data alt)
    (hn : (data.map (fun kv => ren alt kv.1)).Nodup) :
    callOk "rename-keys" [.map data, .map alt] (.map (data.map (fun kv => (ren alt kv.1, kv.2)))) :=
  CoreLaws.rename_keys_spec data alt h hn

/-- … a renaming to something that is not a string is an error -/
theorem rename_keys_non_string_is_error (data alt : List (String × Val)) (k : String) (w : Val)
    (hk : k ∈ akeys data) (hw : alookup k alt = some w) (hs : ∀ s, w ≠ .str s) :
    callErr "rename-keys" [.map data, .map alt] :=
  CoreLaws.rename_keys_non_string_error data alt k w hk hw hs

/-- `(assoc v i x)` on a vector replaces position `i` (in range) and returns a VECTOR; out of range: error -/
theorem assoc_on_vector (xs p) (x : Val) :
    (∀ n : Nat, n < xs.length → callOk "assoc" [.vec xs p, .int n, x] (.vec (xs.set n x) none)) ∧
    (∀ i : Int, i < 0 ∨ (xs.length : Int) ≤ i → callErr "assoc" [.vec xs p, .int i, x]) :=
  ⟨fun n hn => CoreLaws.assoc_vector xs p n x hn, fun i hi => CoreLaws.assoc_vector_out_of_range xs p i x hi⟩

/-- `(get s i)` on a list or vector is the element for an index in range, an ERROR (not nil) otherwise -/
theorem get_on_sequence {s xs} (h : Seq s xs) :
    (∀ n (hn : n < xs.length), callOk "get" [s, .int n] xs[n]) ∧
    (∀ i : Int, i < 0 ∨ (xs.length : Int) ≤ i → callErr "get" [s, .int i]) :=
  ⟨fun n hn => CoreLaws.get_seq_index h n hn, fun i hi => CoreLaws.get_seq_out_of_range h i hi⟩

/-! ## sets -/

/-- `(hash-set k…)` / `(set s)` contain the given strings (added in order), `(set nil)` is empty -/
theorem set_constructors (ks : List String) :
    (ks.length ≤ 1000 → callOk "hash-set" (ks.map .str) (.set (insertKeys [] ks))) ∧
    (∀ v, Seq v (ks.map .str) → callOk "set" [v] (.set (insertKeys [] ks))) ∧
    callOk "set" [.nil] (.set []) ∧ (∀ k, k ∈ insertKeys [] ks ↔ k ∈ ks) :=
  ⟨CoreLaws.hash_set_spec ks, fun _ h => CoreLaws.set_of_seq ks h, CoreLaws.set_nil,
   fun _ => by simpa using CoreLaws.mem_insertKeys (s := []) (ks := ks)⟩

/-- adding an element twice is the same as adding it once; and no set builtin ever creates a
    duplicate member (`hash-set`, `set` from any arguments; `conj`, `dissoc` from a duplicate-free set) -/
theorem set_idempotent (s : List String) (k : String) :
    (∃ r, callOk "conj" [.set s, .str k] r ∧ callOk "conj" [r, .str k] r) ∧
    (∀ xs r, callOk "hash-set" xs r → ∃ s', r = .set s' ∧ s'.Nodup) ∧
    (∀ v r, callOk "set" [v] r → ∃ s', r = .set s' ∧ s'.Nodup) ∧
    (s.Nodup → ∀ xs r, callOk "conj" (.set s :: xs) r → ∃ s', r = .set s' ∧ s'.Nodup) ∧
    (s.Nodup → ∃ s', callOk "dissoc" [.set s, .str k] (.set s') ∧ s'.Nodup) :=
  ⟨⟨_, CoreLaws.conj_set1 s k, by rw [callOk, CoreLaws.conj_set1, CoreLaws.sinsert_idem]⟩,
   fun xs _ e => CoreLaws.hash_set_nodup xs e, fun v _ e => CoreLaws.set_nodup v e,
   fun h xs _ e => CoreLaws.conj_set_nodup s xs h e,
   fun h => ⟨_, CoreLaws.dissoc_set1 s k, CoreLaws.dissoc_set_nodup s k h⟩⟩

/-- `(contains? s k)` is membership; `(get s k)` gives the member back, or nil -/
theorem contains_set (s : List String) (k : String) :
    callOk "contains?" [.set s, .str k] (.bool (decide (k ∈ s))) ∧
    callOk "get" [.set s, .str k] (if k ∈ s then .str k else .nil) := by
  refine ⟨by simpa using CoreLaws.contains_set s k, ?_⟩
  simpa using CoreLaws.get_set_member s k

/-- `(conj s k…)` adds the keys: afterwards `k` is a member, the membership of the others is unchanged -/
theorem conj_set (s : List String) (k : String) :
    ∃ r, callOk "conj" [.set s, .str k] r ∧ callOk "contains?" [r, .str k] (.bool true) ∧
      (∀ k', k ≠ k' → Core.call "contains?" [r, .str k'] = Core.call "contains?" [.set s, .str k']) ∧
      (∀ ks, ks ≠ [] → ks.length < 1000 → callOk "conj" (.set s :: ks.map .str) (.set (insertKeys s ks))) :=
  ⟨_, CoreLaws.conj_set1 s k, CoreLaws.contains_conj_same s k, fun _ h => CoreLaws.contains_conj_other s h,
   fun ks h1 h2 => CoreLaws.conj_set s ks h1 h2⟩

/-- `(dissoc s k)` removes the key: afterwards `k` is not a member, the others are unchanged -/
theorem dissoc_set (s : List String) (k : String) (h : s.Nodup) :
    ∃ r, callOk "dissoc" [.set s, .str k] r ∧ callOk "contains?" [r, .str k] (.bool false) ∧
      (∀ k', k ≠ k' → Core.call "contains?" [r, .str k'] = Core.call "contains?" [.set s, .str k']) :=
  ⟨_, CoreLaws.dissoc_set1 s k, CoreLaws.contains_dissoc_set_same s k h,
   fun _ hk => CoreLaws.contains_dissoc_set_other s hk⟩

/-- `count` of a set counts the members: adding a new member adds one, a present one nothing;
    removing a present member takes one away; pairwise different arguments are all counted -/
theorem count_set (s : List String) (k : String) :
    callOk "count" [.set s] (.int s.length) ∧
    (∃ r, callOk "conj" [.set s, .str k] r ∧
      callOk "count" [r] (.int (s.length + (if k ∈ s then 0 else 1 : Nat)))) ∧
    (∃ r, callOk "dissoc" [.set s, .str k] r ∧
      callOk "count" [r] (.int (s.length - (if k ∈ s then 1 else 0 : Nat) : Nat))) ∧
    (∀ ks : List String, ks.Nodup → insertKeys [] ks = ks) :=
  ⟨CoreLaws.count_set s, ⟨_, CoreLaws.conj_set1 s k, CoreLaws.count_conj_set s k⟩,
   ⟨_, CoreLaws.dissoc_set1 s k, CoreLaws.count_dissoc_set s k⟩,
   fun ks h => by simpa using CoreLaws.insertKeys_fresh (s := []) (ks := ks) (by simpa using h)⟩

/-- a member that is not a string/keyword makes `hash-set` an error -/
theorem hash_set_non_string_is_error (pre : List String) (x : Val) (post : List Val)
    (hx : ∀ s, x ≠ .str s) : callErr "hash-set" (pre.map .str ++ x :: post) :=
  CoreLaws.hash_set_non_string_error pre x post hx

/-! ## errors -/

/-- `nth` with a negative index or an index ≥ count is an error -/
theorem nth_out_of_range_is_error {s xs} (h : Seq s xs) (i : Int) (hi : i < 0 ∨ (xs.length : Int) ≤ i) :
    callErr "nth" [s, .int i] := CoreLaws.nth_out_of_range h i hi

/-- representative wrong-kind calls (where the model deviates from Clojure the error is stated):
    `(count 5)`, `(first {…})`, `(cons x nil)`, `(conj nil x)`, `(nth s "k")`, `(get [..] "k")`,
    `(get {…} 0)`, `(vec nil)`, `(keys nil)`, `(seq {…})`, `(assoc nil k v)`, `(assoc-in nil [k] v)` -/
theorem wrong_kind_is_error (x s : Val) (i : Int) (k : String) (xs p) (m : List (String × Val)) :
    callErr "count" [.int i] ∧ callErr "first" [.map m] ∧ callErr "cons" [x, .nil] ∧
    callErr "conj" [.nil, x] ∧ callErr "nth" [s, .str k] ∧ callErr "get" [.vec xs p, .str k] ∧
    callErr "get" [.map m, .int i] ∧ callErr "vec" [.nil] ∧ callErr "keys" [.nil] ∧
    callErr "seq" [.map m] ∧ callErr "assoc" [.nil, .str k, x] ∧
    callErr "assoc-in" [.nil, .vec [.str k] p, x] :=
  ⟨CoreLaws.count_int_error i, CoreLaws.first_map_error m, CoreLaws.cons_nil_error x,
   CoreLaws.conj_nil_error x, CoreLaws.nth_non_int_index_error s k, CoreLaws.get_vec_str_error xs p k,
   CoreLaws.get_map_int_key m i, CoreLaws.vec_nil_error, (CoreLaws.keys_wrong_kind .nil (by simp)).1,
   CoreLaws.seq_map_error m, CoreLaws.assoc_wrong_kind .nil _ x (.inr (.inl rfl)),
   CoreLaws.assoc_in_nil_error k p x⟩

/-- … and in general: outside {list, vector, map, set, nil} `count`, `empty?`, `get`, `conj`, `assoc`
    are errors -/
theorem scalar_is_error (v x k : Val) (h : isColl v = false) :
    callErr "count" [v] ∧ callErr "empty?" [v] ∧ callErr "get" [v, k] ∧ callErr "conj" [v, x] ∧
    callErr "assoc" [v, k, x] :=
  ⟨CoreLaws.count_wrong_kind v h, CoreLaws.empty?_wrong_kind v h, CoreLaws.get_scalar v k h,
   CoreLaws.conj_wrong_kind v x (.inl h), CoreLaws.assoc_wrong_kind v k x (.inl h)⟩

/-- … outside {list, vector} the sequence builtins are errors (`first`, `rest`, `take`, … accept nil too) -/
theorem non_sequence_is_error (v x : Val) (n : Int) (h : seqOf? v = none) :
    callErr "cons" [x, v] ∧ callErr "nth" [v, .int n] ∧ callErr "concat" [v] ∧
    ((∀ ks, v ≠ .set ks) → callErr "vec" [v]) ∧
    (v ≠ .nil → callErr "first" [v] ∧ callErr "rest" [v] ∧ callErr "take" [.int n, v] ∧
      callErr "drop" [.int n, v] ∧ callErr "take-last" [.int n, v] ∧ callErr "drop-last" [.int n, v]) :=
  ⟨CoreLaws.cons_wrong_kind x v h, CoreLaws.nth_wrong_kind v n h,
   CoreLaws.concat_non_seq_error [v] v (by simp) h, fun hs => CoreLaws.vec_wrong_kind v h hs,
   fun hn => ⟨CoreLaws.first_wrong_kind v h hn, CoreLaws.rest_wrong_kind v h hn,
     (CoreLaws.take_wrong_kind v n h hn).1, (CoreLaws.take_wrong_kind v n h hn).2.1,
     (CoreLaws.take_wrong_kind v n h hn).2.2.1, (CoreLaws.take_wrong_kind v n h hn).2.2.2⟩⟩

/-- … outside maps (and nil where stated) the map builtins are errors; keys must be strings -/
theorem non_map_is_error (v k x : Val) (h : ∀ m, v ≠ .map m) :
    callErr "keys" [v] ∧ callErr "vals" [v] ∧
    ((∀ s, v ≠ .set s) → callErr "dissoc" [v, k]) ∧
    (v ≠ .nil → callErr "merge" [v, x] ∧ callErr "merge" [x, v]) ∧
    (∀ m, (∀ s, k ≠ .str s) →
      callErr "assoc" [.map m, k, x] ∧ callErr "dissoc" [.map m, k] ∧ callErr "contains?" [.map m, k] ∧
      ((∀ i, k ≠ .int i) → callErr "get" [.map m, k])) :=
  ⟨(CoreLaws.keys_wrong_kind v h).1, (CoreLaws.keys_wrong_kind v h).2,
   fun hs => CoreLaws.dissoc_wrong_kind v k h hs,
   fun hn => ⟨CoreLaws.merge_wrong_kind v x (.inl ⟨hn, h⟩), CoreLaws.merge_wrong_kind x v (.inr ⟨hn, h⟩)⟩,
   fun m hk => ⟨CoreLaws.assoc_map_non_string_key m k x hk, CoreLaws.dissoc_non_string_key m k hk,
     CoreLaws.contains_key_not_string _ k hk,
     fun hi => CoreLaws.get_bad_key _ k (by simp) ⟨hk, hi⟩⟩⟩

/-- a wrong argument count is an error for every fixed-arity builtin (the binder's count check) -/
theorem arity_errors {name ps} (hs : Core.sigOf name = some (.fixed ps)) (args : List Val)
    (hl : args.length ≠ ps.length) : callErr name args :=
  callErr_of (CoreLaws.arity_error hs args hl) rfl

/-- … for the variadic ones too few (`conj` needs 2, `subvec` 2) or too many (`subvec` 3, all: 1000) -/
theorem variadic_arity_errors {name mn mx} (hs : Core.sigOf name = some (.variadic mn mx)) (args : List Val)
    (hl : args.length < mn ∨ (∃ m, mx = some m ∧ m < args.length) ∨ (mx = none ∧ 1000 < args.length)) :
    callErr name args := by
  rcases hl with hl | ⟨m, rfl, hl⟩ | ⟨rfl, hl⟩
  · exact callErr_of (CoreLaws.variadic_arity_error_min hs args hl) rfl
  · exact callErr_of (CoreLaws.variadic_arity_error_max hs args hl) rfl
  · exact callErr_of (CoreLaws.variadic_arity_error_1000 hs args hl) rfl

/-- an argument of the wrong Go type for a typed parameter (`nth`'s index, `take`'s count, `range`'s
    bounds, `contains?`'s key, `rename-keys`' maps, `assoc-in`'s path) is an error (binder's type check) -/
theorem binder_type_errors {name ps} (hs : Core.sigOf name = some (.fixed ps)) (args : List Val)
    (hl : args.length = ps.length) (hf : (ps.zip args).all (fun (p, a) => fits p a) = false) :
    callErr name args :=
  callErr_of (CoreLaws.binder_type_error hs args hl hf) rfl

/-! ## predicates -/

/-- no value satisfies two different type predicates among list? vector? map? set? nil? number? string?
    keyword? symbol? atom? (`typePreds`); in particular at most one collection predicate holds, and
    `string?` / `keyword?` are exclusive -/
theorem type_predicates_exclusive {a b} (ha : a ∈ typePreds) (hb : b ∈ typePreds) (hab : a ≠ b) (v : Val) :
    ¬ (holds a v ∧ holds b v) := CoreLaws.type_predicates_exclusive ha hb hab v

/-- every type predicate is total: it answers true or false on every value -/
theorem type_predicates_total {n} (hm : n ∈ typePreds) (v : Val) : ∃ b, callOk n [v] (.bool b) :=
  CoreLaws.pred_total hm v

/-- what each predicate recognises -/
theorem type_predicates_meaning (v : Val) :
    (holds "list?" v ↔ ∃ xs p, v = .list xs p) ∧ (holds "vector?" v ↔ ∃ xs p, v = .vec xs p) ∧
    (holds "map?" v ↔ ∃ m, v = .map m) ∧ (holds "set?" v ↔ ∃ s, v = .set s) ∧
    (holds "nil?" v ↔ v = .nil) ∧ (holds "number?" v ↔ ∃ i, v = .int i) ∧
    (holds "symbol?" v ↔ ∃ s p, v = .sym s p) ∧
    (holds "string?" v ↔ ∃ s, v = .str s ∧ Val.isKwStr s = false) ∧
    (holds "keyword?" v ↔ ∃ s, v = .str s ∧ Val.isKwStr s = true) :=
  ⟨list?_iff v, vector?_iff v, map?_iff v, set?_iff v, nil?_iff v, number?_iff v, symbol?_iff v,
   string?_iff v, keyword?_iff v⟩

/-- strings and keywords are both Go strings underneath: a value is a `.str` exactly when one of
    `string?` / `keyword?` holds -/
theorem string_keyword_underneath (v : Val) : (holds "string?" v ∨ holds "keyword?" v) ↔ ∃ s, v = .str s :=
  CoreLaws.string_or_keyword_iff v

/-! ## the builtins that call back into the evaluator (`callBuiltin`, any state, any depth) -/

/-- `map` returns a LIST with one element per element of its list or vector argument -/
theorem map_result_kind (fuel : Nat) (st : State) (f s : Val) (d : Nat) {v st'}
    (h : callBuiltin fuel st "map" [f, s] d = (.ok v, st')) :
    ∃ xs vs, Seq s xs ∧ v = .list vs none ∧ vs.length = xs.length := CoreLaws.map_kind fuel st f s d h

/-- `(map g s)` for a pure builtin `g` defined on every element: the list of the `(g x)`, in order,
    the evaluator state untouched (enough fuel: count + 3) -/
theorem map_pure_builtin (g : String) (φ : Val → Val) (hg : g ∉ evalNames) (st : State) (d : Nat)
    {s xs} (hs : Seq s xs) (hx : ∀ x ∈ xs, Core.call g [x] = some (.ok (φ x))) (fuel : Nat)
    (hf : xs.length + 3 ≤ fuel) :
    callBuiltin fuel st "map" [.builtin g, s] d = (.ok (.list (xs.map φ) none), st) :=
  CoreLaws.map_pure_builtin g φ hg st d hs hx fuel hf

/-- `(apply f a … s)` is `f` applied to `a …` followed by the elements of the list or vector `s`;
    a last argument that is not a sequence is an error -/
theorem apply_spreads_last (fuel : Nat) (st : State) (f : Val) (pre : List Val) (last : Val) (d : Nat) :
    (∀ tail, Seq last tail →
      callBuiltin (fuel + 1) st "apply" (f :: (pre ++ [last])) d = apply fuel st f (pre ++ tail) d) ∧
    (seqOf? last = none → ∃ e, callBuiltin (fuel + 1) st "apply" (f :: (pre ++ [last])) d = (.err e, st)) :=
  ⟨fun _ h => CoreLaws.apply_spreads_last fuel st f pre d h,
   fun h => CoreLaws.apply_last_not_seq_error fuel st f pre d h⟩

/-- `(update m k f) = (assoc m k (f (get m k)))`; `(update nil k f) = nil`; on anything but a map, a
    vector or nil an error -/
theorem update_spec (fuel : Nat) (st : State) (m : List (String × Val)) (k : String) (f : Val) (d : Nat) :
    callBuiltin (fuel + 2) st "update" [.map m, .str k, f] d =
      (match apply fuel st f [(alookup k m).getD .nil] d with
       | (.ok res, st') => (.ok (.map (ainsert k res m)), st')
       | r => r) ∧
    (∀ i, callBuiltin (fuel + 1) st "update" [.nil, i, f] d = (.ok .nil, st)) ∧
    (∀ v i, v ≠ .nil → (∀ m, v ≠ .map m) → (∀ xs p, v ≠ .vec xs p) →
      ∃ e, callBuiltin (fuel + 2) st "update" [v, i, f] d = (.err e, st)) :=
  ⟨CoreLaws.update_map fuel st m k f d, fun i => CoreLaws.update_nil fuel st i f d,
   fun v i h1 h2 h3 => CoreLaws.update_wrong_kind fuel st v i f d h1 h2 h3⟩

/-- `(update-in nil p f) = nil`; an empty path returns the value; a one-key path is `update`; a longer
    path on a map whose entry at the first key is a map (nil/missing: an empty map is created) updates
    the inner map along the rest of the path and `assoc`s it back -/
theorem update_in_spec (fuel : Nat) (st : State) (f : Val) (d : Nat) (p) :
    (∀ path, callBuiltin (fuel + 1) st "update-in" [.nil, .vec path p, f] d = (.ok .nil, st)) ∧
    (∀ v, v ≠ .nil → callBuiltin (fuel + 2) st "update-in" [v, .vec [] p, f] d = (.ok v, st)) ∧
    (∀ v i, v ≠ .nil → callBuiltin (fuel + 2) st "update-in" [v, .vec [i] p, f] d =
      callBuiltin (fuel + 1) st "update" [v, i, f] d) ∧
    (∀ (m mb : List (String × Val)) (k : String) (i2 : Val) (rest : List Val),
      ((alookup k m).getD .nil = .map mb ∨ ((alookup k m).getD .nil = .nil ∧ mb = [])) →
      callBuiltin (fuel + 2) st "update-in" [.map m, .vec (.str k :: i2 :: rest) p, f] d =
        (match updateIn fuel st (.map mb) (i2 :: rest) f d with
         | (.ok inner, st') => (.ok (.map (ainsert k inner m)), st')
         | r => r)) :=
  ⟨fun path => CoreLaws.update_in_nil fuel st path p f d,
   fun v hv => CoreLaws.update_in_empty_path fuel st v p f d hv,
   fun v i hv => CoreLaws.update_in_one_key fuel st v i p f d hv,
   fun m mb k i2 rest hb => CoreLaws.update_in_step fuel st m mb k i2 rest p f d hb⟩

/-- deviation: a vector stored inside a map cannot be traversed by `update-in` (the branch must have
    the kind of its parent): an error -/
theorem update_in_mixed_kinds_is_error (fuel : Nat) (st : State) (m : List (String × Val)) (k : String)
    (xs q) (i2 : Val) (rest : List Val) (p) (f : Val) (d : Nat)
    (hb : (alookup k m).getD .nil = .vec xs q) :
    ∃ e, callBuiltin (fuel + 2) st "update-in" [.map m, .vec (.str k :: i2 :: rest) p, f] d = (.err e, st) :=
  CoreLaws.update_in_mixed_kinds_error fuel st m k xs q i2 rest p f d hb

/-! ## non-vacuity: concrete calls -/

example : callOk "subvec" [.vec [.int 1, .int 2, .int 3] none, .int 1, .int 2] (.vec [.int 2] none) := rfl
example : callErr "subvec" [.vec [.int 1, .int 2, .int 3] none, .int 2, .int 4] := callErr_of rfl rfl
example : callOk "take" [.int (-1), .list [.int 1, .int 2] none] (.list [] none) := rfl
example : callOk "take-last" [.int 0, .vec [.int 1] none] .nil := rfl
example : callOk "range" [.int 2, .int 5] (.vec [.int 2, .int 3, .int 4] none) := rfl
example : callOk "conj" [.list [.int 3] none, .int 2, .int 1] (.list [.int 1, .int 2, .int 3] none) := rfl
example : callErr "get" [.vec [.int 1, .int 2] none, .int 5] := callErr_of rfl rfl
example : callErr "hash-map" [.str "a", .int 1, .str "b"] := callErr_of rfl rfl
example : MapPath (.map [("a", .map [("b", .map [("c", .int 1)])])]) ["a", "b", "c"] := by
  simp [MapPath, alookup]
example : NestedMaps [("a", .map [])] ["a", "b", "c"] := by simp [NestedMaps, alookup]
example : holds "keyword?" (Val.kw "a") := by
  rw [keyword?_iff]; exact ⟨_, rfl, by decide⟩
/-- `(map count [(1) nil])` on the initial state (`callBuiltin` does not reduce by `rfl` — its fuel
    recursion is not kernel-evaluable on open terms — so the instance goes through the theorem) -/
example : callBuiltin 5 initState "map" [.builtin "count", .vec [.list [.int 1] none, .nil] none] 0 =
    (.ok (.list [.int 1, .int 0] none), initState) :=
  map_pure_builtin "count" (fun v => match v with | .list xs _ => .int xs.length | _ => .int 0)
    (by decide) initState 0 (Seq_vec _ none)
    (by intro x hx; simp at hx; rcases hx with rfl | rfl <;> rfl) 5 (by decide)

/-! ## laws added after the seeded changes of rounds 3–5
  (`merge_right_biased` was asked for again and is the theorem of that name above.) -/
open LispModel.Proofs.SeedLaws.C13 (eraseAll)

/-- `(dissoc m k₁ … kₙ)` (n ≥ 1, keys strings / keywords) removes ALL the keys: it is the fold of the
    single-key `dissoc` over the keys, left to right -/
theorem dissoc_many (m : List (String × Val)) (ks : List String) (hne : ks ≠ []) (hl : ks.length < 1000) :
    callOk "dissoc" (.map m :: ks.map .str) (.map (eraseAll m ks)) ∧
    (∀ acc k, callOk "dissoc" [.map acc, .str k] (.map (aerase k acc))) ∧
    eraseAll m ks = ks.foldl (fun acc k => aerase k acc) m :=
  Proofs.SeedLaws.C13.dissoc_many m ks hne hl

/-- `(contains? (assoc m k nil) k) = true` although `(get (assoc m k nil) k) = nil` -/
theorem contains_present_nil (m : List (String × Val)) (k : String) :
    ∃ r, callOk "assoc" [.map m, .str k, .nil] r ∧ callOk "contains?" [r, .str k] (.bool true) ∧
      callOk "get" [r, .str k] .nil :=
  Proofs.SeedLaws.C13.contains_present_nil m k

/-- `(concat v)` for ONE vector `v` is the LIST of its elements (instance of `concat_spec`) -/
theorem concat_one_vector_is_list (xs : List Val) (p : Option Pos) :
    callOk "concat" [.vec xs p] (.list xs none) :=
  Proofs.SeedLaws.C13.concat_one_vector_is_list xs p


/-! ## the constructors and predicates of types/types.go (model LispModel/TyCtor.lean, engine tyctor) -/

open LispModel.TyCtor in
/-- `NewHashMap` (behind `hash-map` and the `{…}` reader) succeeds exactly on a sequence of even length whose even
    positions are strings / keywords — otherwise an error, never a panic -/
theorem new_hash_map_domain (v : TVal) :
    ((∃ r, newHashMap v = .ok r) ↔
      ∃ xs, seqElems v = some xs ∧ xs.length % 2 = 0 ∧ ∀ i, 2 * i < xs.length → ∃ s, xs[2 * i]? = some (.str s)) ∧
    (newHashMap v).isPanic = false := ⟨newHashMap_ok_iff v, newHashMap_never_panics v⟩

open LispModel.TyCtor in
/-- `NewSet` succeeds exactly on nil and on sequences of strings / keywords -/
theorem new_set_domain (v : TVal) :
    (∃ r, newSet v = .ok r) ↔ v = .nil ∨ ∃ xs, seqElems v = some xs ∧ ∀ x ∈ xs, ∃ s, x = .str s := newSet_ok_iff v

open LispModel.TyCtor in
/-- `sequential?` is exactly "list or vector" on lisp values -/
theorem sequential_is_list_or_vector (v : TVal) (h : isLispValue v = true) :
    sequentialQ v = .ok true ↔ isList v = true ∨ isVec v = true := sequential_iff_lisp v h

open LispModel.TyCtor in
/-- keywords are not strings for `string?` and are for `keyword?` -/
theorem keyword_and_string_predicates (v : TVal) :
    keywordQ v = .ok (match v with | .str s => Val.isKwStr s | _ => false) ∧
    stringQ v = .ok (match v with | .str s => !Val.isKwStr s | _ => false) := ⟨keywordQ_spec v, stringQ_spec v⟩


/-! ## Go's 64-bit integers under the arithmetic builtins (model LispModel/IntArith.lean, engine arith)

`Core.body` computes `+ - * /` on unbounded integers. This is the theorem that says where that IS the code's answer. -/

open LispModel.IntArith in
/-- **validity domain of the unbounded-integer model**: whenever the true result is a 64-bit integer (and, for `/`, the
    pair is not (MinInt64, -1)), what `Core.body` computes is exactly what Go computes; comparisons always -/
theorem core_arithmetic_is_go_arithmetic_in_range {op : String} {a b : Int} {o : Obs} (ha : inRange a)
    (ho : goOp op a b = some o)
    (hdom : (op = "+" → inRange (a + b)) ∧ (op = "-" → inRange (a - b)) ∧ (op = "*" → inRange (a * b)) ∧
            (op = "/" → ¬ (a = minInt64 ∧ b = -1))) :
    Core.body op [.int a, .int b] = o.toBRes := core_eq_goOp ha ho hdom

open LispModel.IntArith in
/-- outside that domain Go's answer differs from the mathematical one by a non-zero multiple of 2^64 (it wraps) -/
theorem go_addition_wraps_outside_range {a b : Int} (h : ¬ inRange (a + b)) :
    goAdd a b ≠ a + b ∧ ∃ k : Int, k ≠ 0 ∧ a + b = goAdd a b + 18446744073709551616 * k := goAdd_ne_of_overflow h


/-! ## coherence: `Core.body` / the reader's constructors versus the `types.go` slice -/

/-- `hash-map`, `hash-set`, `set` of the builtin model are `NewHashMap` / `NewSet` of the slice (same value or same error) -/
theorem constructor_models_agree : type_of% @LispModel.Coherence.Ctor.constructors_agree :=
  @LispModel.Coherence.Ctor.constructors_agree
/-- the type predicates of the builtin model are the slice's kind tests (`sequential?`: on every value the interpreter
    itself can create; a host-injected Go value whose type is merely NAMED List / Vector is the one difference) -/
theorem predicate_models_agree : type_of% @LispModel.Coherence.Ctor.predicates_agree :=
  @LispModel.Coherence.Ctor.predicates_agree

end LispModel.Props.C13

/-
  C13 — property theorems (see DESIGN.md §6 C13).  Helper lemmas live in Proofs/.
-/
import LispModel.Eval
namespace LispModel.Props.C13
open LispModel

end LispModel.Props.C13

/-
  C13 — collection builtins behave as pure functions matching the sequence / map / set model.

  Property theorems only (proofs and helper lemmas live in Proofs/CoreLaws.lean).  The subject is
  `Core.call name args`: the reflective binder's count/type checks followed by the builtin's body
  (`Core.lean`, tied to lib/core/core.go by the correspondence engines on every run).
  Vocabulary (Proofs/CoreLaws.lean):
    `callOk name args r`  — `(name args…)` returns the value `r`;
    `callErr name args`   — `(name args…)` is an error (a thrown value or a Go error), never a value;
    `Seq s xs`            — `s` is a list or a vector whose elements are `xs`;
    `holds p v`           — the predicate builtin `p` returns `true` on `v`.
  Maps are association lists (`alookup`/`ainsert`/`aerase`), sets duplicate-free string lists.
-/
import LispModel.Core
import LispModel.Proofs.CoreLaws
namespace LispModel.Props.C13
open LispModel LispModel.Core LispModel.CoreLaws

/-! ## sequences -/

/-- `(count '(x₁ … xₙ)) = n` -/
theorem count_list (xs : List Val) (p) : callOk "count" [.list xs p] (.int xs.length) :=
  CoreLaws.count_list xs p

/-- `(count [x₁ … xₙ]) = n` -/
theorem count_vector (xs : List Val) (p) : callOk "count" [.vec xs p] (.int xs.length) :=
  CoreLaws.count_vector xs p

/-- `(count nil) = 0` -/
theorem count_nil : callOk "count" [.nil] (.int 0) := CoreLaws.count_nil

/-- `(cons x s)` is the LIST `x :: elements s`, for a list or a vector `s` -/
theorem cons_prepends {s xs} (x : Val) (h : Seq s xs) : callOk "cons" [x, s] (.list (x :: xs) none) :=
  CoreLaws.cons_prepends x h

/-- `(nth s n)` is the n-th element, for `0 ≤ n < count s` -/
theorem nth_in_range {s xs} (h : Seq s xs) (n : Nat) (hn : n < xs.length) :
    callOk "nth" [s, .int n] xs[n] := CoreLaws.nth_spec h n hn

/-- a non-empty sequence decomposes: `first` is the head, `rest` the LIST of the tail, and `cons`
    puts them together again (as a list with the same elements) -/
theorem first_rest_decompose {s x xs} (h : Seq s (x :: xs)) :
    callOk "first" [s] x ∧ callOk "rest" [s] (.list xs none) ∧
    callOk "cons" [x, .list xs none] (.list (x :: xs) none) :=
  ⟨CoreLaws.first_cons h, CoreLaws.rest_cons h, CoreLaws.cons_prepends x (Seq_list xs none)⟩

/-- `(first nil) = nil`, `(rest nil) = ()`, `(first ()) = (first []) = nil`, `(rest ()) = (rest []) = ()` -/
theorem first_rest_of_nothing :
    callOk "first" [.nil] .nil ∧ callOk "rest" [.nil] (.list [] none) ∧
    (∀ s, Seq s [] → callOk "first" [s] .nil ∧ callOk "rest" [s] (.list [] none)) :=
  ⟨CoreLaws.first_nil, CoreLaws.rest_nil, fun _ h => ⟨CoreLaws.first_empty h, CoreLaws.rest_empty h⟩⟩

/-! ## maps -/

/-- `(get (assoc m k v) k) = v` -/
theorem get_assoc_same (m : List (String × Val)) (k : String) (v : Val) :
    ∃ r, callOk "assoc" [.map m, .str k, v] r ∧ callOk "get" [r, .str k] v :=
  ⟨_, CoreLaws.assoc_map1 m k v, CoreLaws.get_assoc_same m k v⟩

/-- `(get (assoc m k v) k') = (get m k')` for `k' ≠ k` -/
theorem get_assoc_other (m : List (String × Val)) {k k' : String} (h : k ≠ k') (v : Val) :
    ∃ r, callOk "assoc" [.map m, .str k, v] r ∧
      Core.call "get" [r, .str k'] = Core.call "get" [.map m, .str k'] :=
  ⟨_, CoreLaws.assoc_map1 m k v, CoreLaws.get_assoc_other m h v⟩

/-- `(contains? (assoc m k v) k) = true` -/
theorem contains_assoc (m : List (String × Val)) (k : String) (v : Val) :
    ∃ r, callOk "assoc" [.map m, .str k, v] r ∧ callOk "contains?" [r, .str k] (.bool true) :=
  ⟨_, CoreLaws.assoc_map1 m k v, CoreLaws.contains_assoc m k v⟩

/-! ## sets -/

/-- `(contains? s k)` is membership -/
theorem contains_set (s : List String) (k : String) :
    callOk "contains?" [.set s, .str k] (.bool (decide (k ∈ s))) := by
  simpa using CoreLaws.contains_set s k

/-- adding an element twice is the same as adding it once -/
theorem set_idempotent (s : List String) (k : String) :
    ∃ r, callOk "conj" [.set s, .str k] r ∧ callOk "conj" [r, .str k] r :=
  ⟨_, CoreLaws.conj_set1 s k, by rw [callOk, CoreLaws.conj_set1, CoreLaws.sinsert_idem]⟩

/-! ## errors -/

/-- `nth` with a negative index or an index ≥ count is an error -/
theorem nth_out_of_range_is_error {s xs} (h : Seq s xs) (i : Int) (hi : i < 0 ∨ (xs.length : Int) ≤ i) :
    callErr "nth" [s, .int i] := CoreLaws.nth_out_of_range h i hi

/-- a wrong argument count is an error for every fixed-arity builtin -/
theorem arity_errors {name ps} (hs : Core.sigOf name = some (.fixed ps)) (args : List Val)
    (hl : args.length ≠ ps.length) : callErr name args :=
  callErr_of (CoreLaws.arity_error hs args hl) rfl

/-! ## predicates -/

/-- no value satisfies two different type predicates -/
theorem type_predicates_exclusive {a b} (ha : a ∈ typePreds) (hb : b ∈ typePreds) (hab : a ≠ b) (v : Val) :
    ¬ (holds a v ∧ holds b v) := CoreLaws.type_predicates_exclusive ha hb hab v

end LispModel.Props.C13

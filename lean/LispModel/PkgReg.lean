/-
  The `_PACKAGES_` registry that lib/call/call.go maintains at registration time (C02 anchor
  "registration-time mutation of the _PACKAGES_ map").

  `_PACKAGES_` is an ordinary lisp binding holding a `types.HashMap` (package name ↦ `types.Set` of the
  lisp names registered from that package).  Go maps are references, so a program that has bound the
  map — or one of its sets — to a name of its own holds the very object `call` works on.  The model
  keeps the Go objects in a heap (object ids) so that "the value a binding holds" is a function of
  the heap, and a registration is a heap transformer.

  `registerFixed` mirrors the code as it is now (a fresh set object and a fresh map object per
  registration, then the binding is replaced); `registerBaseline` is the frozen pinned behaviour
  (both objects updated in place) kept for the machine-checked counterexample.
  Core Lean only (linked into the driver).
-/
import LispModel.Val
namespace LispModel.PkgReg
open LispModel

/-- the Go objects reachable from `_PACKAGES_` -/
structure Heap where
  /-- `types.Set` objects: the member names -/
  sets : List (List String) := []
  /-- `types.HashMap` objects: package name ↦ id of a set object -/
  maps : List (List (String × Nat)) := []
deriving Repr, DecidableEq

/-- what a program binding made from the registry holds -/
inductive Snap where
  | map (id : Nat)     -- `(def s _PACKAGES_)`
  | set (id : Nat)     -- `(def s (get _PACKAGES_ "pkg"))` when the package is present
  | nil                -- … when it is absent, or `_PACKAGES_` itself is unbound
deriving Repr, DecidableEq

structure St where
  heap : Heap := {}
  /-- the binding `_PACKAGES_` of the environment -/
  pkgs : Option Nat := none
  /-- the program's own bindings, oldest first -/
  snaps : List Snap := []
deriving Repr, DecidableEq

/-! ### the value an object id denotes (what `PRINT` / `=` see) -/

def setVal (h : Heap) (id : Nat) : List String := h.sets.getD id []

def mapVal (h : Heap) (id : Nat) : List (String × List String) :=
  (h.maps.getD id []).map fun (p, s) => (p, setVal h s)

inductive V where
  | map (kvs : List (String × List String))
  | set (ks : List String)
  | nil
deriving Repr, DecidableEq

def snapVal (h : Heap) : Snap → V
  | .map id => .map (mapVal h id)
  | .set id => .set (setVal h id)
  | .nil => .nil

def curVal (st : St) : V :=
  match st.pkgs with
  | some m => .map (mapVal st.heap m)
  | none => .nil

/-! ### registration -/

def oldMap (st : St) : List (String × Nat) :=
  match st.pkgs with
  | some m => st.heap.maps.getD m []
  | none => []

def oldSet (st : St) (pkg : String) : List String :=
  match alookup pkg (oldMap st) with
  | some s => st.heap.sets.getD s []
  | none => []

/-- lib/call/call.go `call`, the `namespace.Update(_PACKAGES_, …)` closure as it is now: the set of
    the package and the map are COPIED, the copy is extended, the binding is replaced. -/
def registerFixed (st : St) (pkg fn : String) : St :=
  let newSet := st.heap.sets.length
  let newMap := st.heap.maps.length
  { st with
    heap := { sets := st.heap.sets ++ [sinsert fn (oldSet st pkg)],
              maps := st.heap.maps ++ [ainsert pkg newSet (oldMap st)] },
    pkgs := some newMap }

/-- the pinned behaviour: `set.Val[functionName] = struct{}{}` and `hm.Val[packageName] = set` on
    the objects the binding already holds (a new object only where none existed). -/
def registerBaseline (st : St) (pkg fn : String) : St :=
  match st.pkgs with
  | none =>
    { st with
      heap := { sets := st.heap.sets ++ [[fn]],
                maps := st.heap.maps ++ [[(pkg, st.heap.sets.length)]] },
      pkgs := some st.heap.maps.length }
  | some m =>
    let om := st.heap.maps.getD m []
    match alookup pkg om with
    | some s =>
      { st with heap := { st.heap with sets := st.heap.sets.set s (sinsert fn (st.heap.sets.getD s [])) } }
    | none =>
      { st with
        heap := { sets := st.heap.sets ++ [[fn]],
                  maps := st.heap.maps.set m (ainsert pkg st.heap.sets.length om) } }

/-! ### the program's side: binding the registry, or one of its sets, to a name -/

def snapMap (st : St) : St :=
  { st with snaps := st.snaps ++ [match st.pkgs with | some m => Snap.map m | none => Snap.nil] }

def snapSet (st : St) (pkg : String) : St :=
  { st with snaps := st.snaps ++ [match alookup pkg (oldMap st) with | some s => Snap.set s | none => Snap.nil] }

inductive Op where
  | reg (pkg fn : String)
  | snapMap
  | snapSet (pkg : String)
deriving Repr, DecidableEq

def step (reg : St → String → String → St) (st : St) : Op → St
  | .reg p f => reg st p f
  | .snapMap => snapMap st
  | .snapSet p => snapSet st p

def run (reg : St → String → String → St) (st : St) (ops : List Op) : St := ops.foldl (step reg) st

/-- the values of all the program's bindings -/
def observe (st : St) : List V := st.snaps.map (snapVal st.heap)

end LispModel.PkgReg

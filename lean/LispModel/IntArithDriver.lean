/-
  Driver side of engine `arith` (harness/eng_arith.go): Go's 64-bit integer arithmetic under the lisp builtins.
  Driver-only code (never used in a theorem).

  requests (blank-separated ASCII tokens; integers in decimal, texts hex-encoded):
    op <sym> <a> <b>      `(sym a b)` evaluated by the real interpreter, sym ∈ + - * / < <= > >=, a b ∈ int64
                            observation  ok <int> | ok T | ok F | err
                            spec column  what the UNBOUNDED evaluator model (`Core.body sym [.int a, .int b]`) gives when
                                         the true result is an int64 (for `/`: away from MinInt64 / -1), else no
                                         verdict (the column is left out, which `bin/check` reads as `-`)
    opx <sym> <arg>…      the same call with any number of arguments, arg ∈ <int> | nil | t | s   (`s` = the string "x")
                            observation  as `op` (anything but exactly two ints is `err`)
    lit <hex text>        the text READ by the real reader, the result PRINTed by the real printer
                            observation  ok <int text> | err | other (a value that is not an int)
    pi <hex text>         strconv.ParseInt(text, 0, 0) itself (the function `read_atom` calls)
                            observation  ok <int> | err syntax | err range
    rt <int>              PRINT of the int, then READ of that text, then PRINT again
                            observation  ok <text> <text'> | err <text>;  spec column  ok <int> <int>
    range <a> <b>         `(range a b)` (callers keep b - a small)
                            observation  ok <length> <first|-> <last|->
-/
import LispModel.IntArith
import LispModel.Core
import LispModel.Read
import LispModel.Proto
namespace LispModel.IntArith

def tf (b : Bool) : String := if b then "T" else "F"

def renderObs : Obs → String
  | .int i => "ok " ++ printInt i
  | .bool b => "ok " ++ tf b
  | .err => "err"

def renderBRes : Core.BRes → String
  | .ok (.int i) => "ok " ++ printInt i
  | .ok (.bool b) => "ok " ++ tf b
  | .ok _ => "other"
  | .thrown _ => "err"
  | .goerr _ => "err"

/-- is the unbounded result of `(op a b)` an `int` (the domain `Proofs/IntArithLaws.core_eq_goOp` names)? -/
def exactDomain (op : String) (a b : Int) : Bool :=
  if op = "+" then decide (inRange (a + b))
  else if op = "-" then decide (inRange (a - b))
  else if op = "*" then decide (inRange (a * b))
  else if op = "/" then !(a = minInt64 && b = -1)
  else true

def runOp (op : String) (a b : Int) : String :=
  if ¬ (inRange a ∧ inRange b) then "bad-op" else
  match goOp op a b with
  | none => "bad-op"
  | some o =>
    -- no verdict = no spec column (`bin/check` reads a missing column as `-`; `bin/dev` would count a literal `-`)
    if exactDomain op a b then renderObs o ++ "\t" ++ renderBRes (Core.body op [.int a, .int b]) else renderObs o

inductive Arg | int (i : Int) | other

def parseArg (s : String) : Option Arg :=
  if s = "nil" ∨ s = "t" ∨ s = "s" then some .other
  else s.toInt?.map .int

def runOpx (op : String) (args : List String) : String :=
  match args.mapM parseArg with
  | none => "bad-op"
  | some [.int a, .int b] =>
    if ¬ (inRange a ∧ inRange b) then "bad-op" else
    match goOp op a b with
    | some o => renderObs o
    | none => "bad-op"
  | some _ => if (goOp op 0 1).isSome then "err" else "bad-op"

def renderParse : Except PErr Int → String
  | .ok i => "ok " ++ printInt i
  | .error .syntax => "err syntax"
  | .error .range => "err range"

/-- bytes as `ParseInt` sees them: one `Char` per byte -/
def byteChars (bs : List UInt8) : List Char := bs.map fun b => Char.ofNat b.toNat

def runLit (bs : List UInt8) : String :=
  let viaReader : String :=
    match Read.readStr {} bs with
    | .ok (.int i) => "ok " ++ printInt i
    | .ok _ => "other"
    | .error (.panic site) => "PANIC " ++ site
    | .error _ => "err"
  match Scan.tokenize bs with
  | .ok [t] =>
    match t.kind with
    | .int =>
      -- one Int token: `read_atom` hands its text to `ParseInt(·, 0, 0)`
      (match parseIntChars (t.text.map Char.ofNat) with
       | .ok i => "ok " ++ printInt i
       | .error _ => "err")
    | _ => viaReader
  | _ => viaReader

def runRt (i : Int) : String :=
  if ¬ inRange i then "bad-op" else
  let text := printInt i
  let back := match parseIntLit text with
    | .ok j => s!"ok {text} {printInt j}"
    | .error _ => s!"err {text}"
  s!"{back}\tok {i} {i}"

def runRange (a b : Int) : String :=
  if ¬ (inRange a ∧ inRange b) then "bad-op" else
  if b - a > 4096 then "bad-op" else
  let l := goRange a b
  let sh (o : Option Int) : String := match o with | some i => printInt i | none => "-"
  s!"ok {l.length} {sh l.head?} {sh l.getLast?}"

def handleIntArith (payload : String) : String :=
  match (payload.splitOn " ").filter (· ≠ "") with
  | ["op", op, a, b] =>
    (match a.toInt?, b.toInt? with
     | some a, some b => runOp op a b
     | _, _ => "bad-op")
  | "opx" :: op :: args => runOpx op args
  | ["lit", h] =>
    (match Proto.hexToBytes h.toList with
     | some bs => runLit bs
     | none => "bad-op")
  | ["lit"] => runLit []
  | ["pi", h] =>
    (match Proto.hexToBytes h.toList with
     | some bs => renderParse (parseIntChars (byteChars bs))
     | none => "bad-op")
  | ["pi"] => renderParse (parseIntChars [])
  | ["rt", i] =>
    (match i.toInt? with
     | some i => runRt i
     | none => "bad-op")
  | ["range", a, b] =>
    (match a.toInt?, b.toInt? with
     | some a, some b => runRange a b
     | _, _ => "bad-op")
  | _ => "bad-op"

end LispModel.IntArith

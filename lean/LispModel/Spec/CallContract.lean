/-
  C20 — the contract of the reflective binder, as the property states it.

  Nothing here looks at how `call.go` computes anything: bounds are counted in *lisp arguments* (the
  evaluation context is injected by the binder, it is not a lisp argument), "assignable" is Go's
  assignability of the dynamic type of a lisp value to a parameter type, the registered name is the Go
  identifier lower-cased with `_` ↦ `-` (or the override) whatever the import path looks like.

  `unlimited` (1000) is the binder's documented stand-in for "no upper bound" (`unlimitedArgments`): the
  property quantifies over argument lists "of length 0 to max+2", so every function has a finite maximum,
  and for a variadic function without a declared maximum that maximum is this constant.
-/
import LispModel.Call
namespace LispModel.CallSpec
open LispModel LispModel.Call

def unlimited : Int := 1000

/-- a declaration the binder promises to accept: at most two results; bounds only on variadic functions,
    `0 ≤ min ≤ max` -/
def validDecl (σ : Sig) (decl : List Int) : Bool :=
  decide (σ.results ≤ 2) &&
  match decl with
  | [] => true
  | [a] => σ.variadic.isSome && decide (0 ≤ a) && decide (a ≤ unlimited)
  | [a, b] => σ.variadic.isSome && decide (0 ≤ a) && decide (a ≤ b)
  | _ => false

def ValidDecl (σ : Sig) (decl : List Int) : Prop := validDecl σ decl = true

instance (σ : Sig) (decl : List Int) : Decidable (ValidDecl σ decl) :=
  inferInstanceAs (Decidable (validDecl σ decl = true))

/-- the declared — else signature-derived — bounds, in lisp arguments -/
def bounds (σ : Sig) (decl : List Int) : Int × Int :=
  match decl with
  | [a] => (a, unlimited)
  | [a, b] => (a, b)
  | _ => if σ.variadic.isSome then (σ.fixed.length, unlimited) else (σ.fixed.length, σ.fixed.length)

def countOk (σ : Sig) (decl : List Int) (n : Nat) : Bool :=
  decide ((bounds σ decl).1 ≤ (n : Int)) && decide ((n : Int) ≤ (bounds σ decl).2)

/-- Go assignability of a lisp value to a parameter: nil is the zero interface value (interface-typed
    parameters only), any other value goes into an interface or into its own dynamic type -/
def assignable (v : Val) (p : PKind) : Bool :=
  match p with
  | .iface => true
  | .typed t => match v with
    | .nil => false
    | v => goTypeOf v == t

/-- every argument has a parameter it is assignable to, every fixed parameter has an argument -/
def argsFit : List PKind → Option PKind → List Val → Bool
  | [], none, [] => true
  | [], none, _ :: _ => false
  | [], some e, as => as.all (assignable · e)
  | p :: ps, v, a :: as => assignable a p && argsFit ps v as
  | _ :: _, _, [] => false

/-- is there a parameter for every argument and an argument for every fixed parameter (types aside) -/
def arityFit (σ : Sig) (n : Nat) : Bool :=
  decide (σ.fixed.length ≤ n) && (σ.variadic.isSome || decide (n ≤ σ.fixed.length))

def admissibleB (σ : Sig) (decl : List Int) (as : List Val) : Bool :=
  countOk σ decl as.length && argsFit σ.fixed σ.variadic as

/-- the call is within the declared contract -/
def Admissible (σ : Sig) (decl : List Int) (as : List Val) : Prop := admissibleB σ decl as = true

instance (σ : Sig) (decl : List Int) (as : List Val) : Decidable (Admissible σ decl as) :=
  inferInstanceAs (Decidable (admissibleB σ decl as = true))

/-- what the caller must get back -/
inductive Expect where
  /-- the function is not entered; a lisp error about the count -/
  | countError
  /-- the function is not entered; a lisp error about a type -/
  | typeError
  /-- the function is entered with the context (iff it has a context parameter) and exactly `seen` -/
  | enter (ctx : Bool) (seen : List Val)

def expect (σ : Sig) (decl : List Int) (as : List Val) : Expect :=
  if admissibleB σ decl as then .enter σ.ctx as
  else if countOk σ decl as.length && arityFit σ as.length then .typeError
  else .countError

/-- result convention: no result ↦ nil; an error result ↦ nil or that error; value plus error ↦ the
    value or that error -/
inductive Mapped where
  | value (v : Val)
  | error (e : GoErr)
  /-- a panic of the callee: an error that still wraps the original (an `error` or any other value) -/
  | wrapsErr (e : GoErr)
  | wrapsVal (v : Val)

def mapResult (results : Nat) : CalleeResult → Mapped
  | .ret v err =>
    match results, err with
    | 0, _ => .value .nil
    | 1, none => .value .nil
    | 1, some e => .error e
    | _, none => .value v
    | _, some e => .error e
  | .panicErr e => .wrapsErr e
  | .panicVal v => .wrapsVal v

/-! ### names -/

/-- a Go function as the runtime names it: import path, the enclosing declarations (for a closure: the
    function it is written in) and its own identifier (`func1` for the first closure) -/
structure GoName where
  pkgPath : List Char
  outer : List (List Char)
  simple : List Char
deriving Repr

/-- `runtime.FuncForPC(pc).Name()` -/
def GoName.runtime (g : GoName) : List Char :=
  g.pkgPath ++ (g.outer.map (fun o => '.' :: o)).flatten ++ '.' :: g.simple

/-- Go identifiers contain no dot -/
def GoName.WellFormed (g : GoName) : Prop := '.' ∉ g.simple

instance (g : GoName) : Decidable g.WellFormed := inferInstanceAs (Decidable ('.' ∉ g.simple))

/-- the name the function must be registered under -/
def specName (overrideFN : Option (List Char)) (g : GoName) : List Char :=
  match overrideFN with
  | some o => o
  | none => (g.simple.map Char.toLower).map fun c => if c = '_' then '-' else c

/-- the package-qualified prefix of the runtime name (everything before the last dot) -/
def GoName.qual (g : GoName) : List Char :=
  g.pkgPath ++ (g.outer.map (fun o => '.' :: o)).flatten

end LispModel.CallSpec

/-
  Linearizability of recorded histories (C09, C10): sequential objects, the definition, and the
  executable checker `linCheck` the `conc` engine's driver arm runs on every recorded history.
-/
namespace LispModel.Spec.Lin

/-- one completed operation of a history: invocation / response stamps of a global logical clock
    and the operation together with the result it returned.  `optional` marks internal events
    (a future body's completion) that may or may not have happened. -/
structure HOp (ι : Type) where
  inv : Nat
  resp : Nat
  op : ι
  optional : Bool := false

/-- sequential object: `apply s op = some s'` iff `op` (with its observed result) is legal in `s` -/
structure Obj (σ ι : Type) where
  apply : σ → ι → Option σ

variable {σ ι : Type}

/-- `x` may take effect first: no other operation of `h` returned before `x` was invoked -/
def canBeFirst (h : List (HOp ι)) (x : HOp ι) : Bool := h.all fun y => !(y.resp < x.inv)

def runSeq (obj : Obj σ ι) : σ → List (HOp ι) → Option σ
  | s, [] => some s
  | s, x :: xs => (obj.apply s x.op).bind fun s' => runSeq obj s' xs

/-- real-time order is respected: nothing later in the sequence returned before an earlier one was invoked -/
def RespectsRealTime : List (HOp ι) → Prop
  | [] => True
  | x :: xs => (∀ y ∈ xs, ¬ y.resp < x.inv) ∧ RespectsRealTime xs

/-- the history is linearizable: its operations (all but possibly some optional ones) can be put in
    a sequence that respects real time and is a legal run of the object ending in an accepted state -/
def Linearizable (obj : Obj σ ι) (final : σ → Bool) (s0 : σ) (h : List (HOp ι)) : Prop :=
  ∃ (l rest : List (HOp ι)) (s : σ), (l ++ rest).Perm h ∧ (∀ x ∈ rest, x.optional = true) ∧
    RespectsRealTime l ∧ runSeq obj s0 l = some s ∧ final s = true

/-- exhaustive search (Wing–Gong): pick any operation that may be first and is legal, continue -/
def linSearch (obj : Obj σ ι) (final : σ → Bool) : Nat → σ → List (HOp ι) → Bool
  | 0, s, h => h.all (·.optional) && final s
  | fuel + 1, s, h =>
    (h.all (·.optional) && final s) ||
    (List.range h.length).any fun i =>
      match h[i]? with
      | none => false
      | some x =>
        canBeFirst h x &&
        match obj.apply s x.op with
        | none => false
        | some s' => linSearch obj final fuel s' (h.eraseIdx i)

def linCheck (obj : Obj σ ι) (final : σ → Bool) (s0 : σ) (h : List (HOp ι)) : Bool :=
  linSearch obj final h.length s0 h

end LispModel.Spec.Lin

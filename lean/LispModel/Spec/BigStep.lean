/-
  A definitional big-step semantics `sem` for the core fragment of the language, written the textbook
  way: one recursive call per sub-evaluation, pattern matching on the (abstract syntax of the) form,
  no loop, no index arithmetic, no poll bookkeeping, no EVAL-frame depth, no debugger.

  Fragment: symbols, self-evaluating values, `()`, vector literals, `def`, `let`, `do`, `if`, `fn`,
  `quote`, application (closures, incl. `&` rest parameters, and builtins).

  Explicit delegation to the implementation model (`eval` / `callBuiltin` of `LispModel/Eval.lean`),
  so that `sem` is total on all forms:
  * a form whose head symbol is bound to a MACRO (`macroHead`) — jig/lisp expands macros before it
    recognises special forms, so this test comes first;
  * the special forms `quasiquoteexpand`, `quasiquote`, `defmacro`, `macroexpand`, `try`;
  * hash-map literals (evaluated in Go map iteration order);
  * builtins are applied by `callBuiltin`; the callback-taking ones (`apply`, `map`, `swap!`, `update`,
    `update-in`, `eval`) call back into `eval`, not into `sem`.
  Delegated runs are started at depth 0: `sem` has no depth, so the `depth!` marks are not comparable;
  neither are the poll `ticks`.  Fuel only bounds the recursion (`Res.oof`).

  Peculiarities of jig/lisp that the definition has to spell out (see `parse`): a missing operand of
  `def` / `if` / `quote` / `let` reads as `nil`; surplus operands are ignored; the `let` scope is
  created before the binding vector is checked; the target of `def` is checked after its operand has
  been evaluated.
  Core Lean only.
-/
import LispModel.Eval
namespace LispModel.Spec.BigStep
open LispModel LispModel.Core

/-! ### abstract syntax -/

/-- the forms of the fragment -/
inductive Form where
  /-- a symbol -/
  | symbol (s : String) (p : Option Pos)
  /-- a self-evaluating value (numbers, strings, keywords, nil, booleans, sets, function values, …) and `()` -/
  | const
  /-- `[x…]` -/
  | vecLit (xs : List Val)
  /-- `(def target x)` -/
  | def_ (target x : Val)
  /-- `(let bindings body…)` -/
  | let_ (bindings : Val) (body : List Val)
  /-- `(do body…)` -/
  | do_ (body : List Val)
  /-- `(if c t)` / `(if c t e)` -/
  | if_ (c t : Val) (e : Option Val)
  /-- `(fn params body…)`; `pos` = cursor of the form -/
  | fn_ (params : Val) (body : List Val) (pos : Option Pos)
  /-- `(quote x)` -/
  | quote_ (x : Val)
  /-- `(f arg…)` -/
  | app (f : Val) (args : List Val)
  /-- a malformed special form -/
  | bad (msg : String)
  /-- outside the fragment: delegated to `eval` -/
  | outside

/-- first operand; a missing operand reads as `nil` -/
def op1 : List Val → Val
  | x :: _ => x
  | [] => .nil
/-- second operand; a missing operand reads as `nil` -/
def op2 : List Val → Val
  | _ :: y :: _ => y
  | _ => .nil
/-- third operand, if any -/
def op3? : List Val → Option Val
  | _ :: _ :: z :: _ => some z
  | _ => none

/-- the name a list form is dispatched on: its head when that is a symbol -/
def headName : Val → String
  | .sym s _ => s
  | _ => "__<*fn>__"

/-- the special forms that are outside the fragment -/
def outsideForms : List String := ["quasiquoteexpand", "quasiquote", "defmacro", "macroexpand", "try"]

/-- concrete syntax ⇒ abstract syntax (surplus operands are ignored, as jig/lisp does) -/
def parse : Val → Form
  | .sym s p => .symbol s p
  | .vec xs _ => .vecLit xs
  | .map _ => .outside
  | .list [] _ => .const
  | .list (a0 :: ops) pos =>
    if headName a0 = "def" then .def_ (op1 ops) (op2 ops)
    else if headName a0 = "let" then .let_ (op1 ops) (ops.drop 1)
    else if headName a0 = "quote" then .quote_ (op1 ops)
    else if headName a0 ∈ outsideForms then .outside
    else if headName a0 = "do" then .do_ ops
    else if headName a0 = "if" then .if_ (op1 ops) (op2 ops) (op3? ops)
    else if headName a0 = "fn" then
      (match ops with
       | [] => .bad "fn requires a parameter list"
       | params :: body => .fn_ params body pos)
    else .app a0 ops
  | _ => .const

/-- the head of the form is a symbol bound to a macro (in `env` or a scope around it) -/
def macroHead (st : State) (env : Nat) : Val → Bool
  | .list (.sym s _ :: _) _ =>
    (match st.get env s with
     | some (.fn _ _ _ true _) => true
     | _ => false)
  | _ => false

/-- the error of a call whose arguments do not fit the parameter list -/
def arityError (e : Err) (body : Val) : Err :=
  match e with
  | .lisp (.goerr m) _ => .lisp (.goerr (m ++ " (around do)")) none
  | e => newLispError e body

/-! ### the semantics -/

mutual

/-- `sem F st env form`: the value (or error) of `form` in scope `env` of store `st`, and the store after -/
def sem : Nat → State → Nat → Val → R
  | 0, st, _, _ => (.oof, st)
  | F + 1, st, env, ast =>
    -- a macro call is outside the fragment
    if macroHead st env ast then eval F st env ast 0 else
    match parse ast with
    | .outside => eval F st env ast 0
    | .const => (.ok ast, st)
    | .symbol s p =>
      (match st.get env s with
       | some v => (.ok v, st)
       | none => (.err (.lisp (.goerr ("symbol '" ++ s ++ "' not found")) p), st))
    | .vecLit xs =>
      (match semList F st env xs with
       | (.ok vs, st1) => (.ok (.vec vs none), st1)
       | (.err e, st1) => (.err e, st1)
       | (.oof, st1) => (.oof, st1))
    | .quote_ x => (.ok x, st)
    | .bad msg => (.err (newLispError (.plain msg) ast), st)
    | .fn_ params body pos => (.ok (.fn params (.list (.sym "do" none :: body) none) env false pos), st)
    | .def_ target x =>
      (match sem F st env x with
       | (.ok v, st1) =>
         (match target with
          | .sym name _ => (.ok v, st1.set env name v)
          | _ => (.err (newLispError (.plain "cannot use value as identifier") ast), st1))
       | r => r)
    | .if_ c t e =>
      (match sem F st env c with
       | (.ok v, st1) =>
         if truthy v then sem F st1 env t
         else (match e with
           | some e => sem F st1 env e
           | none => (.ok .nil, st1))
       | r => r)
    | .do_ body => semBody F st env body
    | .let_ bindings body =>
      -- one child scope, created first
      (match seqOf? bindings with
       | none => (.err (.plain "GetSlice called on non-sequence"), (st.newScope env []).1)
       | some bs =>
         if bs.length % 2 ≠ 0 then
           (.err (newLispError (.plain "let: odd elements on binding vector") bindings), (st.newScope env []).1)
         else
           match semBinds F (st.newScope env []).1 (st.newScope env []).2 bs bindings with
           | (.ok _, st2) => semBody F st2 (st.newScope env []).2 body
           | r => r)
    | .app f args =>
      -- head and operands, left to right, once
      (match semList F st env (f :: args) with
       | (.ok [], st1) => (.err (.plain "empty application"), st1)
       | (.ok (fv :: vs), st1) =>
         (match fv with
          | .fn params body fenv _ _ =>
            -- closure call: parameters bound in a child of the CAPTURED scope, then the body
            (match bindParams params vs with
             | .error e => (.err (arityError e body), st1)
             | .ok data => sem F (st1.newScope fenv data).1 (st1.newScope fenv data).2 body)
          | .builtin name =>
            (match callBuiltin F st1 name vs 0 with
             | (.ok v, st2) => (.ok v, st2)
             | (.err e, st2) => (.err (newLispError e ast), st2)
             | (.oof, st2) => (.oof, st2))
          | _ => (.err (.lisp (.goerr "attempt to call non-function") none), st1))
       | (.err e, st1) => (.err e, st1)
       | (.oof, st1) => (.oof, st1))

/-- forms evaluated left to right, each exactly once; the first error stops the rest -/
def semList : Nat → State → Nat → List Val → Res (List Val) × State
  | 0, st, _, _ => (.oof, st)
  | _ + 1, st, _, [] => (.ok [], st)
  | F + 1, st, env, x :: xs =>
    match sem F st env x with
    | (.ok v, st1) =>
      (match semList F st1 env xs with
       | (.ok vs, st2) => (.ok (v :: vs), st2)
       | r => r)
    | (.err e, st1) => (.err e, st1)
    | (.oof, st1) => (.oof, st1)

/-- body forms in order; the value of the last one; `nil` if there is none -/
def semBody : Nat → State → Nat → List Val → R
  | 0, st, _, _ => (.oof, st)
  | _ + 1, st, _, [] => (.ok .nil, st)
  | F + 1, st, env, [x] => sem F st env x
  | F + 1, st, env, x :: y :: rest =>
    match sem F st env x with
    | (.ok _, st1) => semBody F st1 env (y :: rest)
    | r => r

/-- sequential `let` bindings: each value form is evaluated in the `let` scope, where the earlier
    bindings have already been made -/
def semBinds : Nat → State → Nat → List Val → Val → R
  | 0, st, _, _, _ => (.oof, st)
  | _ + 1, st, _, [], _ => (.ok .nil, st)
  | _ + 1, st, _, [_], _ => (.ok .nil, st)
  | F + 1, st, letEnv, b :: x :: rest, bindings =>
    match b with
    | .sym name _ =>
      (match sem F st letEnv x with
       | (.ok v, st1) => semBinds F (st1.set letEnv name v) letEnv rest bindings
       | r => r)
    | _ => (.err (newLispError (.plain "non-symbol bind value") bindings), st)

end

/-! ### comparing stores -/

/-- two stores agree in everything but the poll counter `ticks` and the `depth!` marks -/
def SameUpToPolls (a b : State) : Prop :=
  a.scopes = b.scopes ∧ a.atoms = b.atoms ∧ a.trace = b.trace ∧ a.cancelAt = b.cancelAt ∧ a.stepper = b.stepper

end LispModel.Spec.BigStep

/-
  C14 — the specification: structural equality on data values.

  `SEq` is the mathematical statement (maps are finite functions from keys to values, sets are
  their membership predicate, list ≈ vector); `structEqB` is the executable oracle used by the
  correspondence harness.  `Props/C14.lean` proves that they agree and that `SEq` is an
  equivalence relation.
-/
import LispModel.Val
namespace LispModel

inductive OptRel {α : Type} (R : α → α → Prop) : Option α → Option α → Prop
  | none : OptRel R none none
  | some {a b} : R a b → OptRel R (some a) (some b)

inductive Forall2 {α : Type} (R : α → α → Prop) : List α → List α → Prop
  | nil : Forall2 R [] []
  | cons {a b as bs} : R a b → Forall2 R as bs → Forall2 R (a :: as) (b :: bs)

/-- the elements of a sequential value -/
def Val.seqOf? : Val → Option (List Val)
  | .list xs _ => some xs
  | .vec xs _ => some xs
  | _ => none

inductive SEq : Val → Val → Prop
  | nil : SEq .nil .nil
  | bool (b) : SEq (.bool b) (.bool b)
  | int (i) : SEq (.int i) (.int i)
  | str (s) : SEq (.str s) (.str s)
  | sym (s p q) : SEq (.sym s p) (.sym s q)
  | seq {a b xs ys} : a.seqOf? = some xs → b.seqOf? = some ys → Forall2 SEq xs ys → SEq a b
  | map {m1 m2} : (∀ k, OptRel SEq (alookup k m1) (alookup k m2)) → SEq (.map m1) (.map m2)
  | set {s1 s2} : (∀ k, k ∈ s1 ↔ k ∈ s2) → SEq (.set s1) (.set s2)

/-- the data domain of C06/C14: nil, booleans, integers, strings/keywords, symbols, lists, vectors,
    hash-maps and sets (keys pairwise different, as in any Go map). -/
inductive Data : Val → Prop
  | nil : Data .nil
  | bool (b) : Data (.bool b)
  | int (i) : Data (.int i)
  | str (s) : Data (.str s)
  | sym (s p) : Data (.sym s p)
  | list {xs p} : (∀ x ∈ xs, Data x) → Data (.list xs p)
  | vec {xs p} : (∀ x ∈ xs, Data x) → Data (.vec xs p)
  | map {m} : (akeys m).Nodup → (∀ kv ∈ m, Data kv.2) → Data (.map m)
  | set {s} : s.Nodup → Data (.set s)

mutual
/-- executable oracle: structural equality with key *presence* checked -/
def structEqB : Val → Val → Bool
  | .nil, .nil => true
  | .bool a, .bool b => a == b
  | .int a, .int b => a == b
  | .str a, .str b => a == b
  | .sym a _, .sym b _ => a == b
  | .list xs _, .list ys _ => structEqBList xs ys
  | .list xs _, .vec ys _ => structEqBList xs ys
  | .vec xs _, .list ys _ => structEqBList xs ys
  | .vec xs _, .vec ys _ => structEqBList xs ys
  | .map m1, .map m2 => m1.length == m2.length && structEqBMap m1 m2
  | .set s1, .set s2 => s1.length == s2.length && s1.all (fun k => s2.contains k)
  | _, _ => false
def structEqBList : List Val → List Val → Bool
  | [], [] => true
  | x :: xs, y :: ys => structEqB x y && structEqBList xs ys
  | _, _ => false
def structEqBMap : List (String × Val) → List (String × Val) → Bool
  | [], _ => true
  | (k, v) :: r, m2 =>
    (match alookup k m2 with
     | some w => structEqB v w
     | none => false) && structEqBMap r m2
end

end LispModel

/-
  C06/C15 — which data values the round-trip property speaks about.

  "symbols/keywords range over the token alphabet": a name is *readable* when the scanner turns its
  spelling into exactly one token of the right kind with that very text (so the definition follows
  the scanner, not a hand-written character list).  Strings are arbitrary Unicode without NUL
  (the scanner dependency rejects NUL inside literals: known finding D11).
-/
import LispModel.Scan
import LispModel.Read
import LispModel.Spec.StructEq
namespace LispModel
open LispModel.Scan

def tokensOfString (s : String) : TokResult := tokenize s.toUTF8.toList

/-- a symbol spelling that the reader gives back as that symbol -/
def readableSym (s : String) : Bool :=
  match tokensOfString s with
  | .ok [t] =>
    Read.tokStr t == s &&
    (match t.kind with
     -- (a `$name` spelling is an ordinary symbol for READ without a placeholder table — repair of D4 — and
     --  values are always re-read without a table, so such symbols are part of the data domain)
     | .ident => s != "nil" && s != "true" && s != "false" && s != "~@" && s != "#{"
     | .char c => !(['\'', '`', '~', '^', '@', '(', ')', '[', ']', '{', '}', '«', '»'].contains (Char.ofNat c))
     | _ => false)
  | _ => false

/-- a keyword (string with the marker prefix) whose name the reader gives back -/
def readableKw (s : String) : Bool :=
  match s.toList with
  | c :: name =>
    c == kwMarker &&
    (match tokensOfString (String.ofList (':' :: name)) with
     | .ok [t] => decide (t.kind = .keyword) && Read.tokStr t == String.ofList (':' :: name)
     | _ => false)
  | [] => false

def readableStr (s : String) : Bool :=
  if Val.isKwStr s then readableKw s else !(s.toList.contains (Char.ofNat 0))

mutual
/-- executable form of the round-trip domain -/
def readableData : Val → Bool
  | .nil => true
  | .bool _ => true
  | .int i => decide (-9223372036854775808 ≤ i ∧ i ≤ 9223372036854775807)
  | .str s => readableStr s
  | .sym s _ => readableSym s
  | .list xs _ => readableList xs
  | .vec xs _ => readableList xs
  | .map kvs => readableMap kvs
  | .set ks => ks.all readableStr
  | _ => false
def readableList : List Val → Bool
  | [] => true
  | x :: xs => readableData x && readableList xs
def readableMap : List (String × Val) → Bool
  | [] => true
  | (k, v) :: r => readableStr k && readableData v && readableMap r
end

end LispModel

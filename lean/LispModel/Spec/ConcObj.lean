/-
  The sequential objects of C09 and C10: what `deref`/`reset!`/`swap!` and the future operations
  return when executed one at a time.  Results are part of the operation (as observed).
-/
import LispModel.Spec.Lin
namespace LispModel.Spec.ConcObj
open LispModel.Spec.Lin

/-- observed results -/
inductive Res | val (n : Int) | thrown (n : Int) | plainErr | bool (b : Bool) | other
  deriving DecidableEq, Repr

/-! ### atoms -/

inductive AtomOp
  | deref (a : Nat) (r : Res)
  | derefLoose (a : Nat) (r : Res)           -- atom updated from inside update functions: not checked exactly
  | reset (a : Nat) (v : Int) (r : Res)
  | swapAdd (a : Nat) (n : Int) (r : Res)    -- update function x ↦ x + n (possibly also reading other atoms)
  | swapFail (a : Nat) (r : Res)             -- update function throws 1
  | swapInc (a b : Nat) (r : Res)            -- x ↦ x + 1, incrementing atom b on the way (at least once)
  deriving DecidableEq, Repr

abbrev AtomState := List Int

def getA (s : AtomState) (a : Nat) : Int := s.getD a 0

/-- sequential atom: swap! applies its function to the current value, installs and returns the result;
    reset! installs and returns its argument; deref returns the latest installed value; a failing
    update function leaves the atom unchanged -/
def atomObj : Obj AtomState AtomOp where
  apply s op :=
    match op with
    | .deref a r => if r = .val (getA s a) then some s else none
    | .derefLoose _ r => match r with
      | .val _ => some s
      | _ => none
    | .reset a v r => if r = .val v then some (s.set a v) else none
    | .swapAdd a n r => if r = .val (getA s a + n) then some (s.set a (getA s a + n)) else none
    | .swapFail _ r => if r = .thrown 1 then some s else none
    | .swapInc a b r =>
      if r = .val (getA s a + 1) then some ((s.set a (getA s a + 1)).set b (getA s b + 1)) else none

/-- final values: equal to the sequential state; with `loose` atom 1 may have been incremented more
    often (an update function may be retried), but never less: no update lost -/
def atomFinal (loose : Bool) (finals : List Int) (s : AtomState) : Bool :=
  (List.range s.length).all fun i =>
    if loose && i == 1 then decide (getA s i ≤ finals.getD i 0) else decide (getA s i = finals.getD i 0)

/-! ### futures -/

inductive FutOp
  | tick (f : Nat)                    -- internal: the body finishes (1st: marked done, 2nd: outcome delivered)
  | deref (f : Nat) (r : Res)
  | isDone (f : Nat) (r : Res)
  | isCancelled (f : Nat) (r : Res)
  | cancel (f : Nat) (r : Res)
  deriving DecidableEq, Repr

structure FutSt where
  normal : Res                 -- what the body yields when not cancelled
  fin : Nat := 0               -- 0 running, 1 marked done, 2 outcome delivered
  done : Bool := false
  cancelled : Bool := false
  cAtFin : Bool := false       -- cancelled by the time the body finished
  outcome : Option Res := none -- fixed by the first deref
  deriving DecidableEq, Repr

abbrev FutState := List FutSt

def updF (s : FutState) (f : Nat) (g : FutSt → Option FutSt) : Option FutState :=
  match s[f]? with
  | none => none
  | some x => (g x).map fun x' => s.set f x'

/-- sequential future: one outcome for every deref (the body's, or the cancellation error if it was
    cancelled before it finished); done? and cancelled? only go from false to true; done? is true once
    the outcome can be seen; cancel of a finished future changes nothing and returns whether it had
    been cancelled; cancel of a running one cancels it and returns true -/
def futObj : Obj FutState FutOp where
  apply s op :=
    match op with
    | .tick f => updF s f fun x =>
        if x.fin = 0 then some { x with fin := 1, done := true, cAtFin := x.cancelled }
        else if x.fin = 1 then some { x with fin := 2 } else none
    | .deref f r => updF s f fun x =>
        if x.fin ≠ 2 then none else
        match x.outcome with
        | some o => if r = o then some x else none
        | none => if r = x.normal || (x.cAtFin && r = .plainErr) then some { x with outcome := some r } else none
    | .isDone f r => updF s f fun x => if r = .bool x.done then some x else none
    | .isCancelled f r => updF s f fun x => if r = .bool x.cancelled then some x else none
    | .cancel f r => updF s f fun x =>
        let x' := if x.done then x else { x with cancelled := true, done := true }
        if r = .bool x'.cancelled then some x' else none

end LispModel.Spec.ConcObj

package main

// SplitMix64: every random choice of every generator derives from one state.
type rng struct{ s uint64 }

// the seed is mixed first: with s = seed·γ + c the streams of seeds n and n+1 would be the same stream shifted
// by one draw (the state advances by γ)
func newRng(seed uint64) *rng {
	z := seed*0x9E3779B97F4A7C15 + 0x1234567
	z = (z ^ (z >> 30)) * 0xBF58476D1CE4E5B9
	z = (z ^ (z >> 27)) * 0x94D049BB133111EB
	return &rng{s: z ^ (z >> 31)}
}

func (r *rng) next() uint64 {
	r.s += 0x9E3779B97F4A7C15
	z := r.s
	z = (z ^ (z >> 30)) * 0xBF58476D1CE4E5B9
	z = (z ^ (z >> 27)) * 0x94D049BB133111EB
	return z ^ (z >> 31)
}

func (r *rng) intn(n int) int {
	if n <= 0 {
		return 0
	}
	return int(r.next() % uint64(n))
}

func (r *rng) chance(num, den int) bool { return r.intn(den) < num }

func (r *rng) pick(xs []string) string { return xs[r.intn(len(xs))] }

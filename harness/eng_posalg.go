package main

// engine "posalg" (supports C17, C19): the position algebra of types/positiontype.go and the cursors the reader
// builds with it.  Protocol: see lean/LispModel/PositionDriver.lean.
//
//   ops <op> ; <op> ; …          a register file of four *types.Position, every call under recover
//   readpos <f|n|h> x<hex text>  reader.Read_str, then the cursor of every list / vector / symbol node in pre-order
//                                and the nesting verdicts (Includes / rows only)

import (
	"encoding/hex"
	"fmt"
	"sort"
	"strconv"
	"strings"

	"github.com/jig/lisp/reader"
	. "github.com/jig/lisp/types"
)

type posalgEngine struct{}

func init() { register("posalg", &posalgEngine{}) }

// ---------------------------------------------------------------- generation: ops

var paModules = []string{"m.lisp", "", "a b.lisp", "dir/x.lisp", "§", "ñandú.lisp", "1…2,3…4", "x§1…1,1…1"}

var paInts = []int{-3, -1, 0, 1, 1, 2, 2, 3, 3, 7, 9, 10, 11, 99, 100, 101, 1234567, -40, -9223372036854775808, 9223372036854775807}

func paInt(r *rng) string { return strconv.Itoa(paInts[r.intn(len(paInts))]) }

func paSmall(r *rng) string { return strconv.Itoa(1 + r.intn(4)) }

func paMod(r *rng) string { return "m" + hx(r.pick(paModules)) }

func paReg(r *rng) string { return strconv.Itoa(r.intn(4)) }

// a constructor into register reg
func paCtor(r *rng, reg string) string {
	// well-formed small spans are the common case: rows / columns from 1…4 so that Includes has both answers
	num := paInt
	if r.chance(2, 3) {
		num = paSmall
	}
	switch r.intn(12) {
	case 0:
		return "F " + reg + " " + paMod(r)
	case 1, 2:
		return "A " + reg + " " + num(r) + " " + num(r)
	case 3:
		return "H " + reg + " " + paMod(r) + " " + num(r) + " " + num(r)
	case 4:
		return "N " + reg
	case 5:
		return "Z " + reg
	default:
		m := "-"
		if r.chance(1, 2) {
			m = paMod(r)
		}
		return "L " + reg + " " + m + " " + num(r) + " " + num(r) + " " + num(r) + " " + num(r)
	}
}

func paMethod(r *rng) string {
	switch r.intn(8) {
	case 0:
		return "S " + paReg(r) + " " + paReg(r) + " " + paInt(r)
	case 1, 2:
		return "E " + paReg(r) + " " + paReg(r) + " " + paReg(r)
	case 3, 4, 5:
		return "C " + paReg(r) + " " + paReg(r) + " " + paReg(r)
	default:
		return "K " + paReg(r) + " " + paReg(r)
	}
}

func genPosOps(r *rng) string {
	n := 3 + r.intn(10)
	ops := make([]string, 0, n)
	// how many registers are filled first: 0 = the edge stream (methods on nil pointers)
	fill := 4
	if r.chance(1, 3) {
		fill = r.intn(4)
	}
	for i := 0; i < fill && len(ops) < n; i++ {
		ops = append(ops, paCtor(r, strconv.Itoa(i%4)))
	}
	for len(ops) < n {
		if r.chance(1, 4) {
			ops = append(ops, paCtor(r, paReg(r)))
		} else {
			ops = append(ops, paMethod(r))
		}
	}
	return "ops " + strings.Join(ops, " ; ")
}

// ---------------------------------------------------------------- generation: program texts

var paAtoms = []string{"a", "b", "foo", "x1", "nil", "true", "0", "42", "-7", ":k", "\"s\"", "\"a b\"", "\"a\\nb\"", "\"(\"",
	"¬raw¬", "¬a¬¬b¬", "¬multi\nline¬", "¬three\nlines\nhere¬", "¬cr\r\nlf¬", "$x", "+", "->", "swap!", "1.5", "λ", "日本", "\"é😀\"", "¬é\n😀¬"}

func paSep(r *rng) string {
	switch r.intn(14) {
	case 0, 1:
		return "\n"
	case 2:
		return "\r\n"
	case 3:
		return "\n\n"
	case 4:
		return " ; comment )(\n"
	case 5:
		return "\n  ; a comment line\n  "
	case 6:
		return "\t"
	case 7:
		return "\r\n\r\n  "
	case 8:
		return "\n    "
	default:
		return " "
	}
}

// optional white space directly inside brackets
func paPad(r *rng) string {
	switch r.intn(10) {
	case 0:
		return "\n"
	case 1:
		return " "
	case 2:
		return "\r\n "
	case 3:
		return " ; c\n"
	default:
		return ""
	}
}

func paForm(r *rng, depth int) string {
	if depth <= 0 || r.chance(1, 3) {
		return r.pick(paAtoms)
	}
	n := r.intn(4)
	join := func(m int) string {
		var b strings.Builder
		b.WriteString(paPad(r))
		for i := 0; i < m; i++ {
			if i > 0 {
				b.WriteString(paSep(r))
			}
			b.WriteString(paForm(r, depth-1))
		}
		b.WriteString(paPad(r))
		return b.String()
	}
	switch r.intn(14) {
	case 0, 1, 2, 3, 4:
		return "(" + join(n) + ")"
	case 5, 6, 7:
		return "[" + join(n) + "]"
	case 8:
		var b strings.Builder
		b.WriteString("{" + paPad(r))
		for i := 0; i < n; i++ {
			if i > 0 {
				b.WriteString(paSep(r))
			}
			b.WriteString(r.pick([]string{":a", ":b", "\"k\"", ":c", "\"x y\""}) + paSep(r) + paForm(r, depth-1))
		}
		b.WriteString(paPad(r) + "}")
		return b.String()
	case 9:
		return "#{" + r.pick([]string{"", ":a", ":a\n:b", "\"k\" :c"}) + "}"
	case 10, 11:
		// reader macros, the quoted form on the same or on a later line
		return r.pick([]string{"'", "`", "~", "~@", "@"}) + r.pick([]string{"", "", "", " ", "\n", "\r\n  "}) + paForm(r, depth-1)
	case 12:
		return "^" + paForm(r, depth-1) + paSep(r) + paForm(r, depth-1)
	default:
		return "(" + join(n+1) + ")"
	}
}

func genPosText(r *rng) string {
	var b strings.Builder
	switch r.intn(10) {
	case 0:
		b.WriteString(";; $MODULE " + r.pick([]string{"other.lisp", "my scripts/prog.lisp", "m2"}) + r.pick([]string{"\n", "\r\n", "\n\n"}))
	case 1:
		b.WriteString(r.pick([]string{"\n", "\n\n\n", "  \n\t\n", "; leading comment\n\n", "\r\n\r\n", "\xef\xbb\xbf"}))
	}
	b.WriteString(paForm(r, 4))
	if r.chance(1, 6) {
		b.WriteString(r.pick([]string{" ", "\n", " ; trailing", "\n; c\n", "\r\n", " " + paForm(r, 1)}))
	}
	s := b.String()
	if r.chance(1, 5) {
		// the malformed / hostile stream: the byte-level mutations and the alphabet of the text engines
		for i, k := 0, 1+r.intn(2); i < k; i++ {
			s = mutateText(r, s)
		}
	} else if r.chance(1, 12) {
		s = genTextCase(r)
	}
	flag := "f"
	switch r.intn(6) {
	case 0, 1:
		flag = "n"
	case 2:
		flag = "h"
	}
	return "readpos " + flag + " x" + hex.EncodeToString([]byte(s))
}

func (e *posalgEngine) generate(r *rng, n int, tier string, emit func(string)) {
	for i := 0; i < n; i++ {
		if r.chance(3, 5) {
			emit(genPosOps(r))
		} else {
			emit(genPosText(r))
		}
	}
}

// ---------------------------------------------------------------- run: ops

// guarded runs one call of the code under test under recover
func paGuard(f func()) (panicked bool) {
	defer func() {
		if recover() != nil {
			panicked = true
		}
	}()
	f()
	return false
}

func paParseMod(s string) (*string, bool) {
	if s == "-" {
		return nil, true
	}
	if !strings.HasPrefix(s, "m") {
		return nil, false
	}
	b, err := hex.DecodeString(s[1:])
	if err != nil {
		return nil, false
	}
	m := string(b)
	return &m, true
}

func paRenderMod(m *string) string {
	if m == nil {
		return "-"
	}
	return "m" + hx(*m)
}

func paRenderReg(p *Position) string {
	fields := "nil"
	if p != nil {
		fields = fmt.Sprintf("%s,%d,%d,%d,%d", paRenderMod(p.Module), p.BeginRow, p.BeginCol, p.Row, p.Col)
	}
	strs := make([]string, 4)
	for i, f := range []func() string{p.String, p.StringModule, p.StringPosition, p.StringPositionRow} {
		f := f
		if paGuard(func() { strs[i] = hx(f()) }) {
			strs[i] = "PANIC"
		}
	}
	return fields + " " + strings.Join(strs, ",")
}

func runPosOps(body string) string {
	regs := make([]*Position, 4)
	var log strings.Builder
	for _, opText := range strings.Split(body, " ; ") {
		op := strings.Fields(opText)
		if len(op) < 2 {
			return "bad-op"
		}
		bad := false
		reg := func(i int) int {
			n, err := strconv.Atoi(op[i])
			if err != nil || n < 0 || n > 3 {
				bad = true
				return 0
			}
			return n
		}
		num := func(i int) int {
			n, err := strconv.Atoi(op[i])
			if err != nil {
				bad = true
			}
			return n
		}
		mod := func(i int) *string {
			m, ok := paParseMod(op[i])
			if !ok {
				bad = true
			}
			return m
		}
		arity := map[string]int{"F": 3, "A": 4, "H": 5, "N": 2, "Z": 2, "L": 7, "S": 4, "E": 4, "C": 4, "K": 3}
		if arity[op[0]] != len(op) {
			return "bad-op"
		}
		var call func() *Position
		dst := reg(1)
		switch op[0] {
		case "F":
			m := mod(2)
			if m == nil {
				return "bad-op"
			}
			call = func() *Position { return NewCursorFile(*m) }
		case "A":
			row, col := num(2), num(3)
			call = func() *Position { return NewAnonymousCursorHere(row, col) }
		case "H":
			m, row, col := mod(2), num(3), num(4)
			if m == nil {
				return "bad-op"
			}
			call = func() *Position { return NewCursorHere(*m, row, col) }
		case "N":
			call = func() *Position { return NewCursor() }
		case "Z":
			call = func() *Position { return nil }
		case "L":
			m, br, bc, row, col := mod(2), num(3), num(4), num(5), num(6)
			call = func() *Position { return &Position{Module: m, BeginRow: br, BeginCol: bc, Row: row, Col: col} }
		case "S":
			a, row := regs[reg(2)], num(3)
			call = func() *Position { return a.SetPos(row) }
		case "E":
			a, b := regs[reg(2)], regs[reg(3)]
			call = func() *Position { return a.Here(b) }
		case "C":
			a, b := regs[reg(2)], regs[reg(3)]
			call = func() *Position { return a.Close(b) }
		case "K":
			a := regs[reg(2)]
			call = func() *Position { return a.Copy() }
		}
		if bad {
			return "bad-op"
		}
		var res *Position
		if paGuard(func() { res = call() }) {
			log.WriteString("P")
		} else {
			log.WriteString("k")
			regs[dst] = res
		}
	}
	parts := []string{"log=" + log.String()}
	for _, p := range regs {
		parts = append(parts, paRenderReg(p))
	}
	var inc strings.Builder
	for _, p := range regs {
		for _, q := range regs {
			var ans bool
			if paGuard(func() { ans = p.Includes(*q) }) {
				inc.WriteString("P")
			} else if ans {
				inc.WriteString("T")
			} else {
				inc.WriteString("F")
			}
		}
	}
	parts = append(parts, "inc="+inc.String())
	return strings.Join(parts, " | ")
}

// ---------------------------------------------------------------- run: readpos

type paNode struct {
	kind   string
	pos    *Position
	parent *Position
}

func paWalk(v MalType, parent *Position, out *[]paNode) {
	orParent := func(p *Position) *Position {
		if p != nil {
			return p
		}
		return parent
	}
	switch t := v.(type) {
	case Symbol:
		*out = append(*out, paNode{"Y", t.Cursor, parent})
	case List:
		*out = append(*out, paNode{"L", t.Cursor, parent})
		for _, x := range t.Val {
			paWalk(x, orParent(t.Cursor), out)
		}
	case Vector:
		*out = append(*out, paNode{"V", t.Cursor, parent})
		for _, x := range t.Val {
			paWalk(x, orParent(t.Cursor), out)
		}
	case HashMap:
		keys := make([]string, 0, len(t.Val))
		for k := range t.Val {
			keys = append(keys, k)
		}
		sort.Strings(keys)
		for _, k := range keys {
			paWalk(t.Val[k], parent, out)
		}
	}
}

func runPosRead(flag, hxText string) string {
	if !strings.HasPrefix(hxText, "x") {
		return "bad-op"
	}
	text, err := hex.DecodeString(hxText[1:])
	if err != nil {
		return "bad-op"
	}
	var cursor *Position
	switch flag {
	case "f":
		cursor = NewCursorFile("m.lisp")
	case "h":
		cursor = NewCursorHere("h.lisp", 5, 7)
	case "n":
		cursor = nil
	default:
		return "bad-op"
	}
	ast, err := reader.Read_str(string(text), cursor, nil)
	if err != nil {
		return "err " + errClass(err)
	}
	var nodes []paNode
	paWalk(ast, nil, &nodes)
	full, rows := true, true
	var b strings.Builder
	for _, n := range nodes {
		if n.pos == nil {
			b.WriteString(" " + n.kind + ":nil")
			continue
		}
		fmt.Fprintf(&b, " %s%s:%d,%d,%d,%d", n.kind, paRenderMod(n.pos.Module), n.pos.BeginRow, n.pos.BeginCol, n.pos.Row, n.pos.Col)
		if n.parent != nil {
			if !n.parent.Includes(*n.pos) {
				full = false
			}
			if !(n.parent.BeginRow <= n.pos.BeginRow && n.pos.Row <= n.parent.Row) {
				rows = false
			}
		}
	}
	tf := func(x bool) string {
		if x {
			return "T"
		}
		return "F"
	}
	return "ok nest=" + tf(full) + "/" + tf(rows) + b.String()
}

func (e *posalgEngine) run(payload string) string {
	f := strings.Split(payload, " ")
	switch {
	case f[0] == "ops" && len(payload) > 4:
		return runPosOps(payload[4:])
	case f[0] == "readpos" && len(f) == 3:
		return runPosRead(f[1], f[2])
	}
	return "bad-op"
}

func (e *posalgEngine) classify(payload, obs string) string {
	f := strings.Fields(payload)
	if len(f) == 0 {
		return "bad"
	}
	if f[0] == "ops" {
		cls := "ops:clean"
		if strings.Contains(strings.SplitN(obs, " | ", 2)[0], "P") {
			cls = "ops:panic"
		}
		if i := strings.LastIndex(obs, "inc="); i >= 0 && strings.Contains(obs[i:], "T") {
			cls += "+inc"
		}
		return cls
	}
	o := strings.Fields(obs + " ?")
	switch o[0] {
	case "ok":
		return "readpos:" + f[1] + ":" + o[1]
	case "err":
		return "readpos:err:" + strings.SplitN(o[1], ":", 2)[0]
	}
	return "readpos:" + o[0]
}

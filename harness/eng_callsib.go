package main

// engine "callsib" (C20): "a Go function registered with the reflective binder is invoked, with exactly the lisp arguments
// given, iff …" — THE function registered, not another one that happens to share its code.  Sequences of registrations of
// sibling closures (one function literal, different captured state), method values of different receivers and plain
// named functions, under the same or different lisp names, in one or several environments (re-registration replaces);
// then every environment calls every name it has: the answer must be the identity of the LATEST registration of that
// name in that environment.  Harness-side oracle only (the binder model has no notion of function identity beyond the
// name it binds): the Lean driver answers "-".

import (
	"context"
	"fmt"
	"strings"

	"github.com/jig/lisp/env"
	"github.com/jig/lisp/lib/call"
	. "github.com/jig/lisp/types"
)

type callSibEngine struct{}

func init() { register("callsib", &callSibEngine{}) }

func (e *callSibEngine) leanName() string { return "nomodel" }

type sibStore struct{ id int }

func (s *sibStore) Lookup(k MalType) (MalType, error) { return List{Val: []MalType{s.id, k}}, nil }

func sibClosure(id int) func(MalType) (MalType, error) {
	return func(k MalType) (MalType, error) { return List{Val: []MalType{id, k}}, nil }
}

func sibCtxClosure(id int) func(context.Context, MalType) (MalType, error) {
	return func(_ context.Context, k MalType) (MalType, error) { return List{Val: []MalType{id, k}}, nil }
}

func sibVariadic(id int) func(...MalType) (MalType, error) {
	return func(a ...MalType) (MalType, error) { return List{Val: []MalType{id, len(a)}}, nil }
}

var sibNames = []string{"who", "lookup", "who-ctx"}

// payload: ops `R<env>,<name>,<kind>,<id>` (register) separated by blanks; kinds: c closure, x ctx closure, m method value, v variadic
func (e *callSibEngine) generate(r *rng, n int, tier string, emit func(string)) {
	emit("R0,who,c,1 R1,who,c,2")
	emit("R0,who,c,1 R0,who,c,2")
	emit("R0,lookup,m,1 R1,lookup,m,2")
	emit("R0,who-ctx,x,1 R1,who-ctx,x,2 R0,who-ctx,x,3")
	emit("R0,who,v,1 R1,who,v,2")
	for i := 0; i < n; i++ {
		k := 2 + r.intn(5)
		var ops []string
		for j := 0; j < k; j++ {
			ops = append(ops, fmt.Sprintf("R%d,%s,%s,%d", r.intn(3), r.pick(sibNames), r.pick([]string{"c", "x", "m", "v"}), j+1))
		}
		emit(strings.Join(ops, " "))
	}
}

func (e *callSibEngine) run(payload string) string {
	envs := []EnvType{env.NewEnv(), env.NewEnv(), env.NewEnv()}
	want := map[string]int{}
	kindOf := map[string]string{}
	for _, op := range strings.Fields(payload) {
		var ei, id int
		var name, kind string
		p := strings.Split(strings.TrimPrefix(op, "R"), ",")
		if len(p) != 4 {
			return "bad-case"
		}
		fmt.Sscanf(p[0], "%d", &ei)
		name, kind = p[1], p[2]
		fmt.Sscanf(p[3], "%d", &id)
		if ei < 0 || ei > 2 {
			return "bad-case"
		}
		var f MalType
		switch kind {
		case "c":
			f = sibClosure(id)
		case "x":
			f = sibCtxClosure(id)
		case "m":
			f = (&sibStore{id: id}).Lookup
		case "v":
			f = sibVariadic(id)
		default:
			return "bad-case"
		}
		if msg := safeRunInline(func() string { call.CallOverrideFN(envs[ei], name, f); return "" }); msg != "" {
			return "REGPANIC " + oneLine(msg)
		}
		key := fmt.Sprintf("%d/%s", ei, name)
		want[key] = id
		kindOf[key] = kind
	}
	var out, why []string
	for ei, ns := range envs {
		for _, name := range sibNames {
			key := fmt.Sprintf("%d/%s", ei, name)
			id, registered := want[key]
			v, err := ns.Get(Symbol{Val: name})
			if !registered {
				if err == nil {
					why = append(why, key+" is bound although nothing was registered under that name in that environment")
				}
				continue
			}
			fn, isFn := v.(Func)
			if err != nil || !isFn {
				why = append(why, key+" is not bound to a function")
				continue
			}
			res, cerr := fn.Fn(context.Background(), []MalType{"arg"})
			got := "err"
			if cerr == nil {
				got = render(res)
			}
			exp := render(List{Val: []MalType{id, "arg"}})
			if kindOf[key] == "v" {
				exp = render(List{Val: []MalType{id, 1}})
			}
			out = append(out, key+"="+got)
			if got != exp {
				why = append(why, fmt.Sprintf("%s answered %s, the function registered last under that name there answers %s", key, got, exp))
			}
		}
	}
	o := strings.Join(out, " ")
	if len(why) > 0 {
		return o + "\t!a call invoked another function than the one registered: " + strings.Join(why, " ; ")
	}
	return o
}

func (e *callSibEngine) classify(payload, obs string) string {
	return fmt.Sprintf("regs=%d", strings.Count(payload, "R"))
}

package main

// engine "routes" (C19): one program, many deliveries — text through READ with / without module,
// the same AST without positions, the AST re-read from its printed form, forms fed one by one to
// REPL, wrapped in a single do, loaded with load-file — under random layouts (comments between
// tokens, blank lines, CRLF, no final newline, trailing comment).  All routes must agree on the
// trace and on the final definitions (among them `result`).

import (
	"context"
	"encoding/hex"
	"fmt"
	"os"
	"path/filepath"
	"strings"

	"github.com/jig/lisp"
	"github.com/jig/lisp/command"
	"github.com/jig/lisp/lib/core/nscore"
	. "github.com/jig/lisp/types"
)

type routesEngine struct{ n int }

// file names an embedder's users really have: blanks, accents, the narrow no-break space macOS puts into screenshot names,
// a no-break space, a tab, quotes, a backslash
var routeFileNames = []string{"prog-%d-%d.lisp", "my prog %d-%d.lisp", "prog\u202fAM %d-%d.lisp", "caf\u00e9 %d-%d.lisp", "nb\u00a0sp %d-%d.lisp",
	"tab\t%d-%d.lisp", "q'uote %d-%d.lisp", "dq\"uote %d-%d.lisp", "back\\slash %d-%d.lisp", "zero\u200bwidth %d-%d.lisp"}

// rawLit is a string the program text spells as a RAW string literal ¬…¬ (the only token that may span lines: its
// line breaks are the text's own line endings, CR LF under a CRLF layout)
type rawLit struct{ lines []string }

func init() { register("routes", &routesEngine{}) }

func (e *routesEngine) preamble() []string { return []string{"init\t" + initPayload()} }

// layout renders a form with random separators between tokens
func layoutForm(r *rng, v MalType, crlf bool) string {
	nl := "\n"
	if crlf {
		nl = "\r\n"
	}
	sep := func() string {
		switch r.intn(12) {
		case 0:
			return nl
		case 1:
			return " ; comment ( [ \" " + nl
		case 2:
			return nl + nl + "  "
		case 3:
			return "\t"
		case 4:
			return " ;" + nl + " "
		default:
			return " "
		}
	}
	var rec func(v MalType) string
	seq := func(open, close string, items []MalType) string {
		var b strings.Builder
		b.WriteString(open)
		if r.chance(1, 10) {
			b.WriteString(sep())
		}
		for i, it := range items {
			if i > 0 {
				b.WriteString(sep())
			}
			b.WriteString(rec(it))
		}
		if r.chance(1, 10) {
			b.WriteString(sep())
		}
		b.WriteString(close)
		return b.String()
	}
	rec = func(v MalType) string {
		switch t := v.(type) {
		case List:
			if len(t.Val) == 2 {
				if s, ok := t.Val[0].(Symbol); ok && s.Val == "quote" && r.chance(1, 2) {
					return "'" + rec(t.Val[1])
				}
			}
			return seq("(", ")", t.Val)
		case Vector:
			return seq("[", "]", t.Val)
		case rawLit:
			return "¬" + strings.ReplaceAll(strings.Join(t.lines, nl), "¬", "¬¬") + "¬"
		case string:
			if !strings.HasPrefix(t, "\u029e") {
				// the program text is written by the harness' own escaping (backslash, quote, newline — what the
				// reader undoes), not by the printer under test: the routes must not inherit a printer defect
				return "\"" + strings.NewReplacer("\\", "\\\\", "\"", "\\\"", "\n", "\\n").Replace(t) + "\""
			}
			return lisp.PRINT(v)
		default:
			return lisp.PRINT(v)
		}
	}
	return rec(v)
}

func (e *routesEngine) generate(r *rng, n int, tier string, emit func(string)) {
	for i := 0; i < n; i++ {
		g := &progGen{r: r, trace: true, errs: false}
		ast, names := g.program(3)
		forms := ast.(List).Val[1:]
		last := forms[len(forms)-1]
		forms = append(append([]MalType{}, forms[:len(forms)-1]...), ls(sy("def"), sy("result"), last))
		names = append(names, "result")
		if r.chance(1, 3) {
			// an error VALUE observed by the program (caught and printed): it must not depend on the route either
			bad := []MalType{
				ls(ls(sy("fn"), vc(sy("p"), sy("q")), sy("p")), 1),       // too few arguments
				ls(ls(sy("fn"), vc(sy("p")), sy("p")), 1, 2),             // too many arguments
				call1("nth", vc(1, 2), 7),                                // failing builtin
				sy("undefined-symbol-zz"),                                // unbound symbol
				call1("throw", HashMap{Val: map[string]MalType{kw("code"): 7}}),
				call1("throw", nil), call1("throw", false), call1("throw", ls()),
			}[r.intn(8)]
			forms = append(forms, ls(sy("def"), sy("caught"), ls(sy("try"), bad, ls(sy("catch"), sy("e"), call1("str", sy("e"))))))
			names = append(names, "caught")
		}
		if r.chance(1, 4) {
			// `$` is an ordinary identifier character outside a preamble transport; strings with TAB / CR / other
			// characters a printer might escape differently must mean the same on every route
			forms = append(forms, ls(sy("def"), sy("$rate"), 3), ls(sy("def"), sy("usd"), call1("list", call1("+", sy("$rate"), 1), call1("quote", ls(sy("$a"), sy("$b"))))),
				ls(sy("def"), sy("strs"), call1("str", "col1\tcol2", "cr\rx", "nb\u00a0sp", "q\"b\\s", "nl\nx")))
			names = append(names, "$rate", "usd", "strs")
		}
		if r.chance(1, 4) {
			// symbols from different places of the text are the same symbol
			forms = append(forms, ls(sy("def"), sy("symeq"), call1("list",
				call1("=", call1("quote", sy("a")), call1("quote", sy("a"))),
				call1("=", call1("quote", ls(sy("a"), vc(sy("b"), sy("c")))), call1("quote", ls(sy("a"), vc(sy("b"), sy("c"))))),
				ls(sy("let"), vc(sy("tag"), call1("quote", sy("circle"))), ls(sy("if"), call1("=", sy("tag"), call1("quote", sy("circle"))), "round", "angular")),
				call1("=", call1("symbol", "a"), call1("quote", sy("a"))))))
			names = append(names, "symeq")
		}
		if r.chance(1, 4) {
			// a raw string spanning lines: what it holds between its lines is whatever the text has there
			forms = append(forms, ls(sy("def"), sy("rawlen"), call1("list",
				call1("=", rawLit{[]string{"first line", "second line"}}, "first line\nsecond line"),
				call1("=", rawLit{[]string{"first line", "second line"}}, "first line\r\nsecond line"),
				call1("=", rawLit{[]string{"a", "b"}}, "a\nb"), call1("str", "<", rawLit{[]string{"{\"k\": 1,", " \"j\": 2}"}}, ">"))))
			names = append(names, "rawlen")
		}
		if r.chance(1, 4) {
			// a macro whose expansion depends on a global read AT EXPANSION TIME, called from one call site that is
			// evaluated twice with the global changed in between: every evaluation expands afresh, on every route
			forms = append(forms, ls(sy("def"), sy("*scale*"), 1),
				ls(sy("defmacro"), sy("scaled"), ls(sy("fn"), vc(sy("x")), call1("list", call1("quote", sy("*")), sy("x"), sy("*scale*")))),
				ls(sy("def"), sy("sc"), ls(sy("fn"), vc(sy("v")), ls(sy("scaled"), sy("v")))),
				ls(sy("def"), sy("sc1"), ls(sy("sc"), 10)), ls(sy("def"), sy("*scale*"), 3), ls(sy("def"), sy("sc2"), call1("list", sy("sc1"), ls(sy("sc"), 10))))
			names = append(names, "sc2")
		}
		crlf := r.chance(1, 5)
		nl := "\n"
		if crlf {
			nl = "\r\n"
		}
		var texts []string
		for _, f := range forms {
			t := layoutForm(r, f, crlf)
			texts = append(texts, t)
		}
		ending := []string{"", nl, " ; trailing comment", " ; trailing comment" + nl, nl + nl, " ;"}[r.intn(6)]
		between := nl
		if r.chance(1, 4) {
			between = nl + "; a comment line" + nl + nl
		}
		// payload: names | ending | form texts (hex) ...
		parts := []string{strings.Join(names, ","), hex.EncodeToString([]byte(ending)), hex.EncodeToString([]byte(between))}
		for _, t := range texts {
			parts = append(parts, hex.EncodeToString([]byte(t)))
		}
		emit(strings.Join(parts, " "))
	}
}

func decodeRoutes(payload string) (names []string, ending, between string, forms []string, ok bool) {
	f := strings.Split(payload, " ")
	if len(f) < 4 {
		return
	}
	names = strings.Split(f[0], ",")
	b, err := hex.DecodeString(f[1])
	if err != nil {
		return
	}
	ending = string(b)
	b, err = hex.DecodeString(f[2])
	if err != nil {
		return
	}
	between = string(b)
	for _, h := range f[3:] {
		b, err := hex.DecodeString(h)
		if err != nil {
			return
		}
		forms = append(forms, string(b))
	}
	ok = true
	return
}

// doText: the whole program as one `do` expression, the way an embedder reads a file
func doText(forms []string, between, ending string) string {
	return "(do" + between + strings.Join(forms, between) + between + "nil)" + ending
}

func stripCursors(v MalType) MalType {
	w, err := parse(render(v))
	if err != nil {
		return v
	}
	return w
}

func (e *routesEngine) observe(names []string, run func(env EnvType) error) string {
	ec := &evalCase{}
	env, err := freshEnv(ec)
	if err != nil {
		return "setup-error"
	}
	if err := nscore.LoadInput(env); err != nil {
		return "setup-error"
	}
	if err := maybeDecoy(); err != nil { // another environment, initialised after this one
		return "setup-error"
	}
	rerr := run(env)
	var b strings.Builder
	if rerr != nil {
		b.WriteString("err ")
		cls := errClass(rerr)
		if strings.HasPrefix(cls, "other") || cls == "extern" {
			cls = "other"
		}
		if _, ok := rerr.(interface{ ErrorValue() MalType }); ok {
			b.WriteString(cls)
		} else {
			b.WriteString("plain:" + cls)
		}
	} else {
		b.WriteString("ok")
	}
	b.WriteString(" trace=[")
	for i, t := range ec.trace {
		if i > 0 {
			b.WriteString(" ; ")
		}
		b.WriteString(render(t))
	}
	b.WriteString("] defs=[")
	for i, n := range names {
		if i > 0 {
			b.WriteString(" ; ")
		}
		v, gerr := env.Get(Symbol{Val: n})
		if gerr != nil {
			b.WriteString(n + "=?")
		} else {
			b.WriteString(n + "=" + render(v))
		}
	}
	b.WriteString("]")
	return b.String()
}

func (e *routesEngine) run(payload string) string {
	names, ending, between, forms, ok := decodeRoutes(payload)
	if !ok {
		return "bad-case"
	}
	ctx := context.Background()
	text := doText(forms, between, ending)
	evalText := func(cursor *Position) func(env EnvType) error {
		return func(env EnvType) error {
			ast, err := lisp.READ(text, cursor, env)
			if err != nil {
				return err
			}
			_, err = lisp.EVAL(ctx, ast, env)
			return err
		}
	}
	routes := []struct {
		name string
		run  func(env EnvType) error
	}{
		{"read+module", evalText(NewCursorFile("prog.lisp"))},
		{"read", evalText(nil)},
		{"ast-without-positions", func(env EnvType) error {
			ast, err := lisp.READ(text, nil, env)
			if err != nil {
				return err
			}
			_, err = lisp.EVAL(ctx, stripCursors(ast), env)
			return err
		}},
		{"reprinted", func(env EnvType) error {
			ast, err := lisp.READ(text, nil, env)
			if err != nil {
				return err
			}
			ast2, err := lisp.READ(lisp.PRINT(ast), nil, env)
			if err != nil {
				return err
			}
			_, err = lisp.EVAL(ctx, ast2, env)
			return err
		}},
		{"repl-form-by-form", func(env EnvType) error {
			for _, f := range forms {
				if _, err := lisp.REPL(ctx, env, f+ending, NewCursorFile("REPL")); err != nil {
					return err
				}
			}
			return nil
		}},
		{"load-file", func(env EnvType) error {
			dir := filepath.Join(os.TempDir(), "verif-routes")
			if d := os.Getenv("VERIF_SCRATCH"); d != "" {
				dir = d
			}
			os.MkdirAll(dir, 0o755)
			e.n++
			path := filepath.Join(dir, fmt.Sprintf(routeFileNames[e.n%len(routeFileNames)], os.Getpid(), e.n))
			if err := os.WriteFile(path, []byte(strings.Join(forms, between)+ending), 0o644); err != nil {
				return err
			}
			defer os.Remove(path)
			_, err := lisp.EVAL(ctx, ls(sy("load-file"), path), env)
			return err
		}},
	}
	routes = append(routes, struct {
		name string
		run  func(env EnvType) error
	}{"command.ExecuteFile", func(env EnvType) error {
		// the command line's way of running a script file
		dir := filepath.Join(os.TempDir(), "verif-routes")
		if d := os.Getenv("VERIF_SCRATCH"); d != "" {
			dir = d
		}
		os.MkdirAll(dir, 0o755)
		e.n++
		// (command.ExecuteFile splices the path into lisp source by hand: a double quote or a backslash in it is the
		// embedder's own affair, every other character must arrive at the file system as it is)
		name := routeFileNames[(e.n+3)%len(routeFileNames)]
		if strings.ContainsAny(name, "\"\\") {
			name = routeFileNames[2]
		}
		path := filepath.Join(dir, fmt.Sprintf("x"+name, os.Getpid(), e.n))
		if err := os.WriteFile(path, []byte(strings.Join(forms, between)+ending), 0o644); err != nil {
			return err
		}
		defer os.Remove(path)
		_, err := command.ExecuteFile(path, env)
		return err
	}})
	first := ""
	var why []string
	for i, rt := range routes {
		o := safeRunInline(func() string { return e.observe(names, rt.run) })
		if i == 0 {
			first = o
			continue
		}
		if o != first {
			why = append(why, "route "+rt.name+" ⇒ "+o[:min(len(o), 160)])
		}
	}
	if len(why) > 0 {
		return first + "\t!the program means something else depending on how it is delivered: route " + routes[0].name + " ⇒ " + first[:min(len(first), 160)] + " ; " + strings.Join(why, " ; ")
	}
	return first
}

func (e *routesEngine) classify(payload, obs string) string { return strings.Fields(obs + " ?")[0] }

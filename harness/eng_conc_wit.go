package main

// witnesses of engine "conc" that need repetition (scheduling windows)

import (
	"context"
	"fmt"
	"os"
	"strconv"
	"sync"
)

func init() {
	// D13: two threads swapping a and b crosswise, each from inside the other's update function
	addWitness("swap-crossed", "a", func(iters int) string {
		w, err := newConcWorld()
		if err != nil {
			return "setup-error"
		}
		ctx := context.Background()
		if _, err := w.eval(ctx, "(do (def a (atom 0)) (def b (atom 0)))"); err != nil {
			return "setup-error"
		}
		progs := []string{
			"(swap! a (fn [x] (+ x (swap! b (fn [y] (+ y 1))))))",
			"(swap! b (fn [x] (+ x (swap! a (fn [y] (+ y 1))))))",
		}
		bad := ""
		var mu sync.Mutex
		ok := withinProgress(concWatchdog*2, func(tick func()) {
			var wg sync.WaitGroup
			start := make(chan struct{})
			for _, p := range progs {
				wg.Add(1)
				go func(p string) {
					defer wg.Done()
					<-start
					for i := 0; i < iters; i++ {
						tick()
						if _, err := w.eval(ctx, p); err != nil {
							mu.Lock()
							bad = renderErr(err)
							mu.Unlock()
							return
						}
					}
				}(p)
			}
			close(start)
			wg.Wait()
		})
		if !ok {
			return "BLOCKED\t!two evaluations swapping two atoms crosswise from inside their update functions block forever"
		}
		if bad != "" {
			return bad + "\t!crossed swap! failed"
		}
		return "ok"
	})
	// D15: future-done? right after a deref of the same future returned
	addWitness("future-done-after-deref", "f", func(iters int) string {
		return repeatFuture(iters, "(let [f (future 1)] (do @f (future-done? f)))", "T",
			"future-done? returned false after a deref of that future had returned")
	})
	// D15: future-cancel on a future that completed (its value was already dereferenced)
	addWitness("future-cancel-after-delivery", "f", func(iters int) string {
		return repeatFuture(iters, "(let [f (future 1)] (do @f [(future-cancel f) (future-cancelled? f)]))", "( V F F )",
			"future-cancel on a completed, never cancelled future returned true / set cancelled")
	})
	// C10: cancel of a running future: true, cancelled? true, done? true from then on
	addWitness("future-cancel-running", "f", func(iters int) string {
		return repeatFuture(iters/50+1, "(let [f (future (sleep 2000))] [(future-cancel f) (future-cancelled? f) (future-done? f) (future-cancel f)])",
			"( V T T T T )", "future-cancel on a running future")
	})
	// C10: every deref gives the same outcome (value and thrown error)
	addWitness("future-derefs-agree", "f", func(iters int) string {
		return repeatFuture(iters/10+1, `(let [f (future 7) g (future (throw "x"))] [@f @f (try @g (catch e e)) (try @g (catch e e)) @f])`,
			"( V I7 I7 S78 S78 I7 )", "derefs of one future disagree")
	})
}

// repeatFuture evaluates src `iters` times (4 goroutines, each its own world) and demands `want` every time
func repeatFuture(iters int, src, want, why string) string {
	var mu sync.Mutex
	badN, total, sample := 0, 0, ""
	ok := withinProgress(concWatchdog*2, func(tick func()) {
		var wg sync.WaitGroup
		for g := 0; g < concPar(); g++ {
			wg.Add(1)
			go func() {
				defer wg.Done()
				w, err := newConcWorld()
				if err != nil {
					return
				}
				for i := 0; i < iters/concPar()+1; i++ {
					tick()
					o := w.evalObs(context.Background(), src)
					mu.Lock()
					total++
					if o != "ok "+want {
						badN++
						sample = o
					}
					mu.Unlock()
				}
			}()
		}
		wg.Wait()
	})
	if !ok {
		return "BLOCKED\t!" + why + " (blocked)"
	}
	if badN > 0 {
		return fmt.Sprintf("bad %s\t!%s (%d of %d runs; expected %s)", sample, why, badN, total, want)
	}
	return "ok"
}

func concPar() int {
	if s := os.Getenv("CONC_PAR"); s != "" {
		if n, err := strconv.Atoi(s); err == nil && n > 0 {
			return n
		}
	}
	return 4
}

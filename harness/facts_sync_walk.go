package main

// statement / expression walker of the "Sync" fact group (see facts_sync.go)

import (
	"fmt"
	"go/ast"
	"go/token"
	"strings"
)

type syncWalker struct {
	sf       *syncFile
	fn       string
	ops      []string
	accs     []syncAccess
	callouts [][]string
	held     []string
	notes    []string
	errSend  bool // an `if err != nil { ErrChan <- err; return }` is waiting for its `ValChan <- res`
	depth    int
}

var fieldLoc = map[string]string{"Val": "val", "version": "ver", "Done": "done", "Cancelled": "cancelled"}
var muName = map[string]string{"Mutex": ".atomRW", "mu": ".futMu"}

func (w *syncWalker) emit(op string) { w.ops = append(w.ops, op) }

func (w *syncWalker) unknown(what string, n ast.Node) {
	w.emit(".unknown")
	w.notes = append(w.notes, fmt.Sprintf("not understood: %s at line %d", what, w.sf.fset.Position(n.Pos()).Line))
}

func (w *syncWalker) access(loc string, write bool) {
	if write {
		w.emit(".write ." + loc)
	} else {
		w.emit(".read ." + loc)
	}
	w.accs = append(w.accs, syncAccess{w.fn, loc, write, append([]string(nil), w.held...)})
}

func (w *syncWalker) hold(h string) { w.held = append(w.held, h) }
func (w *syncWalker) release(h string) {
	for i, x := range w.held {
		if x == h {
			w.held = append(append([]string(nil), w.held[:i]...), w.held[i+1:]...)
			return
		}
	}
}

// function: the body behind a Lean OpName
func (w *syncWalker) function(op string) {
	var body *ast.BlockStmt
	decl := map[string]string{"swap": "swap_BANG", "reset": "reset_BANG", "deref": "Atom.Deref", "print": "Atom.LispPrint",
		"newFuture": "NewFuture", "cancel": "Future.Cancel", "derefF": "Future.Deref"}
	switch op {
	case "isDone", "isCancelled":
		if fl := w.sf.lambdas[map[string]string{"isDone": "future-done?", "isCancelled": "future-cancelled?"}[op]]; fl != nil {
			body = fl.Body
		}
	case "body":
		if nf := w.sf.funcs["NewFuture"]; nf != nil {
			ast.Inspect(nf.Body, func(n ast.Node) bool {
				if g, ok := n.(*ast.GoStmt); ok {
					if fl, ok := g.Call.Fun.(*ast.FuncLit); ok {
						body = fl.Body
					}
				}
				return true
			})
		}
	default:
		if fd := w.sf.funcs[decl[op]]; fd != nil {
			body = fd.Body
		}
	}
	if body == nil {
		w.emit(".unknown")
		w.notes = append(w.notes, "function not found")
		return
	}
	w.stmts(body.List)
	if n := len(w.ops); n == 0 || !(w.ops[n-1] == ".ret" || strings.HasPrefix(w.ops[n-1], ".jmp")) {
		w.emit(".ret")
	}
}

// lockCall: X.<Mutex|mu>.<Lock|…>() -> (method, mutex)
func lockCall(e ast.Expr) (string, string, bool) {
	c, ok := e.(*ast.CallExpr)
	if !ok || len(c.Args) != 0 {
		return "", "", false
	}
	s, ok := c.Fun.(*ast.SelectorExpr)
	if !ok {
		return "", "", false
	}
	in, ok := s.X.(*ast.SelectorExpr)
	if !ok {
		return "", "", false
	}
	mu, ok := muName[in.Sel.Name]
	if !ok {
		return "", "", false
	}
	switch s.Sel.Name {
	case "Lock", "Unlock", "RLock", "RUnlock":
		return s.Sel.Name, mu, true
	}
	return "", "", false
}

func isNilCheck(e ast.Expr, op token.Token) bool {
	b, ok := e.(*ast.BinaryExpr)
	if !ok || b.Op != op {
		return false
	}
	id, ok := b.Y.(*ast.Ident)
	return ok && id.Name == "nil"
}

func endsInReturn(b *ast.BlockStmt) bool {
	if len(b.List) == 0 {
		return false
	}
	_, ok := b.List[len(b.List)-1].(*ast.ReturnStmt)
	return ok
}

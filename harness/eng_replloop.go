package main

// engine "replloop" (C16 / C19 support): the REAL line loop of the REPL (`repl.Execute`) run in a child process
// (`<harness> replchild`) with the case's lines on its standard input; what it prints is canonicalised to one
// item per printed result: `V<hex of the value text>` / `E<error class>` (`-` when nothing was printed).
// The Lean model (LispModel/ReplLoop.lean) folds `replStep` over the same lines.
//
// payload: the lines, hex-encoded, blank separated (`-` = the empty line, `.` alone = no line at all).
// One child per case (≈ 15 ms each): `bin/dev replloop 300 <seed>` is the intended size.
//
// The input boundary of the model is what `Readline` RETURNS.  The line editor in front of it interprets control
// characters even on a pipe (TAB completes, CR and LF both end a line, ^K kills, ^L clears …), so the generator
// never puts a control character into a line.

import (
	"bytes"
	"context"
	"encoding/hex"
	"errors"
	"fmt"
	"os"
	"os/exec"
	"path/filepath"
	"regexp"
	"sort"
	"strings"
	"time"
	"unicode/utf8"

	"github.com/jig/lisp/env"
	"github.com/jig/lisp/lib/concurrent/nsconcurrent"
	"github.com/jig/lisp/lib/core/nscore"
	"github.com/jig/lisp/lib/coreextented/nscoreextended"
	"github.com/jig/lisp/repl"
)

func init() {
	subcommands["replchild"] = replChildMain
	register("replloop", &replLoopEngine{})
}

// replChildMain: the child process — an environment loaded the way freshEnv (eng_eval.go) loads it, then the real loop
func replChildMain(args []string) {
	e := env.NewEnv()
	for _, load := range []func() error{
		func() error { return nscore.Load(e) },
		func() error { return nsconcurrent.Load(e) },
		func() error { return nscoreextended.Load(e) },
	} {
		if err := load(); err != nil {
			fmt.Fprintln(os.Stderr, "setup-error", err)
			os.Exit(3)
		}
	}
	if err := repl.Execute(context.Background(), e); err != nil {
		fmt.Fprintln(os.Stderr, "repl-error", err)
		os.Exit(4)
	}
	os.Exit(0)
}

type replLoopEngine struct{ home string }

func (e *replLoopEngine) preamble() []string { return []string{"init\t" + initPayload()} }

func encodeLines(lines []string) string {
	if len(lines) == 0 {
		return "."
	}
	ws := make([]string, len(lines))
	for i, l := range lines {
		if l == "" {
			ws[i] = "-"
		} else {
			ws[i] = hex.EncodeToString([]byte(l))
		}
	}
	return strings.Join(ws, " ")
}

func decodeLines(payload string) ([]string, bool) {
	if payload == "." {
		return nil, true
	}
	var lines []string
	for _, w := range strings.Split(payload, " ") {
		if w == "-" {
			lines = append(lines, "")
			continue
		}
		b, err := hex.DecodeString(w)
		if err != nil || len(b) == 0 || !utf8.Valid(b) {
			return nil, false // `Readline` builds its lines from runes
		}
		for _, c := range b {
			if c < 0x20 || c == 0x7f {
				return nil, false // the line editor would interpret it
			}
		}
		lines = append(lines, string(b))
	}
	return lines, true
}

var ansiRE = regexp.MustCompile("\x1b\\[[0-9;?]*[A-Za-z]")
var fnNameRE = regexp.MustCompile(`«function [^»]*»`)
var goErrorRE = regexp.MustCompile(`^«go-error "(.*)"»$`)

// replErrClass: the class of a printed error value (the REPL prints `PRINT(err.ErrorValue())`)
func replErrClass(shown string) string {
	m := goErrorRE.FindStringSubmatch(shown)
	if m == nil {
		return "other"
	}
	// undo the printer's escaping of the message
	return replMsgClass(strings.NewReplacer(`\\`, `\`, `\"`, `"`, `\n`, "\n").Replace(m[1]))
}

// replMsgClass: the class of an error message (errClass of eng_text.go, the classes no reader error has folded into `other`)
func replMsgClass(msg string) string {
	cls := errClass(errors.New(msg))
	if strings.HasPrefix(cls, "other") || cls == "extern" || cls == "badpreamble" {
		return "other"
	}
	return cls
}

// canonReplOutput: one item per printed line
func canonReplOutput(out string) string {
	var items []string
	out = ansiRE.ReplaceAllString(out, "")
	for _, l := range strings.Split(out, "\n") {
		switch {
		case l == "":
			// `fmt.Printf("%v\n", out)` always prints a non-empty text (PRINT of a value is never empty)
			continue
		case strings.HasPrefix(l, "Lisp Error: "):
			items = append(items, "E"+replErrClass(strings.TrimPrefix(l, "Lisp Error: ")))
		case strings.HasPrefix(l, "Error: "): // an error without `ErrorValue()`: `fmt.Printf("Error: %s\n", err)`
			items = append(items, "E"+replMsgClass(strings.TrimPrefix(l, "Error: ")))
		default:
			// a builtin prints with the name of its Go function (the printer model prints the lisp name): name dropped
			items = append(items, "V"+hex.EncodeToString([]byte(fnNameRE.ReplaceAllString(l, "«function»"))))
		}
	}
	if len(items) == 0 {
		return "-"
	}
	return strings.Join(items, " ")
}

func (e *replLoopEngine) cleanup() {
	if e.home != "" {
		os.RemoveAll(e.home)
	}
}

func (e *replLoopEngine) run(payload string) string {
	lines, ok := decodeLines(payload)
	if !ok {
		return "bad-case"
	}
	if e.home == "" {
		e.home = filepath.Join(os.TempDir(), fmt.Sprintf("verif-replloop-%d", os.Getpid()))
		if d := os.Getenv("VERIF_SCRATCH"); d != "" {
			e.home = filepath.Join(d, fmt.Sprintf("replloop-%d", os.Getpid()))
		}
		os.MkdirAll(e.home, 0o755)
	}
	os.Remove(filepath.Join(e.home, ".lisp_history")) // every session starts without history
	ctx, cancel := context.WithTimeout(context.Background(), 10*time.Second)
	defer cancel()
	cmd := exec.CommandContext(ctx, os.Args[0], "replchild")
	cmd.Env = append(os.Environ(), "HOME="+e.home, "TERM=dumb")
	var in bytes.Buffer
	for _, l := range lines {
		in.WriteString(l)
		in.WriteString("\n")
	}
	cmd.Stdin = &in
	var stdout, stderr bytes.Buffer
	cmd.Stdout = &stdout
	cmd.Stderr = &stderr
	err := cmd.Run()
	if ctx.Err() != nil {
		return "HANG"
	}
	if err != nil {
		first := strings.SplitN(strings.TrimSpace(stderr.String()), "\n", 2)[0]
		return "CRASH " + oneLine(first)
	}
	return canonReplOutput(stdout.String())
}

func (e *replLoopEngine) classify(payload, obs string) string {
	lines, _ := decodeLines(payload)
	vals := 0
	errs := map[string]bool{}
	for _, it := range strings.Fields(obs) {
		switch {
		case strings.HasPrefix(it, "V"):
			vals++
		case strings.HasPrefix(it, "E"):
			errs[strings.SplitN(it[1:], ":", 2)[0]] = true
		default:
			errs[it] = true // `-` (nothing printed), HANG, CRASH …
		}
	}
	var es []string
	for k := range errs {
		es = append(es, k)
	}
	sort.Strings(es)
	n := len(lines)
	if n > 6 {
		n = 6
	}
	if vals > 3 {
		vals = 3
	}
	return fmt.Sprintf("lines=%d/values=%d/%s", n, vals, strings.Join(es, ","))
}

// ---------------------------------------------------------------- generator

// programs that evaluate (the later ones use what the earlier ones define: the environment persists)
var replProgs = []string{
	"(+ 1 2)", "(* 2 (+ 3 4))", "(def x 5)", "x", "(+ x 1)", "(def y (* 2 3))", "(list 1 y)", "(let [a 2 b 3] (* a b))",
	"(if (> 3 2) :yes :no)", "(if nil 1)", "((fn [a b] (+ a b)) 3 4)", "(def inc2 (fn [n] (+ n 2)))", "(inc2 5)",
	"(str \"a b\" 1 :k)", "(count [1 2 3])", "[1 (+ 1 1) \"s\"]", "{:a (+ 1 2)}", "'(1 2 foo)", "(quote sym)",
	"(first '(7 8))", "(rest [1 2 3])", "(cons 1 '(2))", "(concat [1] '(2 3))", "(vec '(1 2))", "(nth [1 2 3] 1)",
	"(do (def z 9) (+ z 1))", "z", "(try (throw \"boom\") (catch e (str \"caught \" e)))", "(throw \"boom\")",
	"(throw {:code 7})", "undefined-sym", "(undefined-fn 1)", "(nth [1] 5)", "(= [1 2] '(1 2))", "(not true)",
	"\"plain string\"", "\"two  blanks\"", ":kw", "nil", "true", "42", "-7", "()", "[]", "`(1 ~(+ 1 1) ~@(list 3 4))",
	"(defmacro unless (fn [c a b] (list 'if c b a)))", "(unless false 1 2)",
	"(throw «go-error \"expected ')', got EOF\"»)", "(throw «go-error \"expected ']', got EOF\"»)",
	"(do (def w 1) (throw «go-error \"expected '}', got EOF\"»))", "w",
	"(throw «go-error \"<empty line>\"»)", "(throw \"<empty line>\")", "(throw «go-error \"unexpected ')'\"»)",
	"(throw «go-error \"not all tokens where parsed\"»)", "«go-error \"x\"»", "(str \"(\" \")\")", "(list \"; no comment\")",
	"(list 'a 'b)", "(map (fn [v] (* v v)) [1 2 3])", "(apply + 1 [2 3])", "(def v [1 2])", "(conj v 3)",
}

// replTokens: the tokens of one of the programs above (strings without escapes, brackets, reader macros, atoms)
func replTokens(s string) []string {
	var toks []string
	rs := []rune(s)
	for i := 0; i < len(rs); {
		c := rs[i]
		switch {
		case c == ' ':
			i++
		case c == '"':
			j := i + 1
			for j < len(rs) && rs[j] != '"' {
				j++
			}
			toks = append(toks, string(rs[i:j+1]))
			i = j + 1
		case c == '«':
			// `«go-error "…"»` stays one piece: a bare `go-error` is a builtin the evaluator model does not have
			j := i
			for j < len(rs) && rs[j] != '»' {
				j++
			}
			toks = append(toks, string(rs[i:j+1]))
			i = j + 1
		case c == '~' && i+1 < len(rs) && rs[i+1] == '@':
			toks = append(toks, "~@")
			i += 2
		case strings.ContainsRune("()[]{}'`~^@«»", c):
			toks = append(toks, string(c))
			i++
		default:
			j := i
			for j < len(rs) && !strings.ContainsRune(" ()[]{}\"«»", rs[j]) {
				j++
			}
			toks = append(toks, string(rs[i:j]))
			i = j
		}
	}
	return toks
}

func containsTok(toks []string, t string) bool {
	for _, x := range toks {
		if x == t {
			return true
		}
	}
	return false
}

// multiEntry: does a map / set literal among the tokens hold more than one entry?  (Go prints those in the
// iteration order of a Go map: the printed text is then not a function of the input.)
func multiEntry(toks []string) bool {
	type fr struct {
		kind string
		n    int
	}
	var st []fr
	bump := func() {
		if len(st) > 0 {
			st[len(st)-1].n++
		}
	}
	for _, t := range toks {
		switch t {
		case "(", "[", "{", "#{", "«":
			bump()
			st = append(st, fr{kind: t})
		case ")", "]", "}", "»":
			if len(st) > 0 {
				top := st[len(st)-1]
				if (top.kind == "{" && top.n > 2) || (top.kind == "#{" && top.n > 1) {
					return true
				}
				st = st[:len(st)-1]
			}
		case "'", "`", "~", "~@", "@", "^":
		default:
			bump()
		}
	}
	return false
}

var replBlanks = []string{" ", "  ", "\u00a0", "\u3000", "\u0085", "   ", "\u2003 "}

// layoutLines lays the tokens out over 1–5 lines, breaking at token boundaries only
func layoutLines(r *rng, toks []string) []string {
	k := 1 + r.intn(3)
	if r.chance(1, 4) {
		k = 1 + r.intn(5)
	}
	if r.chance(1, 3) {
		k = 1
	}
	brk := map[int]bool{}
	for i := 1; i < k && len(toks) > 1; i++ {
		brk[1+r.intn(len(toks)-1)] = true // a break in front of token i
	}
	var lines []string
	var cur strings.Builder
	for i, t := range toks {
		if i > 0 {
			if brk[i] {
				lines = append(lines, cur.String())
				cur.Reset()
			} else {
				prev := toks[i-1]
				tight := strings.Contains("([{'`~@^«", prev) || prev == "~@" || prev == "#{" || strings.Contains(")]}»", t)
				switch {
				case tight && !r.chance(1, 8):
				case r.chance(1, 10):
					cur.WriteString("  ")
				default:
					cur.WriteString(" ")
				}
			}
		}
		cur.WriteString(t)
	}
	lines = append(lines, cur.String())
	// blanks around lines, a comment behind a line
	for i := range lines {
		if r.chance(1, 5) {
			lines[i] = r.pick(replBlanks) + lines[i]
		}
		if r.chance(1, 12) {
			lines[i] += r.pick([]string{" ; note", " ; ( [ \" ¬", ";"})
		}
		if r.chance(1, 5) {
			lines[i] += r.pick(replBlanks)
		}
	}
	return lines
}

func (e *replLoopEngine) generate(r *rng, n int, tier string, emit func(string)) {
	// fixed sessions first: the brief's examples and the counter-facts
	for _, ls := range [][]string{
		{"(+ 1", "2)"}, {"(def x 5)", "x"}, {"'", "(+ 1 2)"}, {"(list '", "a)"}, {"(str ¬ab  ", "cd¬)"}, {"(str \"ab", "cd\")"},
		{"(str ¬", "ab¬)"}, {"", "  ", "(def x 5)", " x  ", ")", "(", "", "+ x", " 1)"}, {"(+ 1", "", "(", "2"}, {},
		{"(do (def x 5) (throw «go-error \"expected ')', got EOF\"»))", ")", "x"}, {"(+ 1 2) (+ 3 4)"}, {"(+ 1 2))", "7"},
		{"; only a comment", "(+ 1", "; inside", "2)"}, {"¬a¬", "¬", "\"", "\"a\""}, {"{:a", "1}", "{:a", "}"}, {"[1", "2", "3", "]"},
		{"(+ 1 2", "]", "5"}, {"^{:a 1}", "[1 2]"}, {"^", "{:a 1} [1 2]"}, {"@", "x"}, {"(def f (fn [a]", "(* a 2)))", "(f 4)"},
	} {
		emit(encodeLines(ls))
	}
	closers := []string{")", "]", "}", "))", ")]"}
	for i := 0; i < n; i++ {
		var lines []string
		nexpr := 1 + r.intn(4)
		for k := 0; k < nexpr; k++ {
			var toks []string
			if r.chance(1, 3) {
				var ct []cutTok
				genWF(r, 3, &ct)
				for _, t := range ct {
					toks = append(toks, t.text)
				}
				// `^m f` reads as `(with-meta f m)`: metadata is outside the evaluator model (LispModel/Meta.lean has it)
				if multiEntry(toks) || len(toks) > 20 || containsTok(toks, "^") {
					toks = replTokens(r.pick(replProgs))
				} else if r.chance(1, 2) {
					toks = append([]string{"'"}, toks...) // quoted: the value printed is the expression itself
				}
			} else {
				toks = replTokens(r.pick(replProgs))
			}
			switch r.intn(16) {
			case 0: // unbalanced: the last token is missing
				if len(toks) > 1 {
					toks = toks[:len(toks)-1]
				}
			case 1: // the first token is missing
				if len(toks) > 1 {
					toks = toks[1:]
				}
			case 2: // a stray closer somewhere
				p := r.intn(len(toks) + 1)
				toks = append(append(append([]string{}, toks[:p]...), r.pick(closers[:3])), toks[p:]...)
			case 3: // a reader macro at the very end
				toks = append(toks, r.pick([]string{"'", "`", "~", "@", "^"}))
			}
			ls := layoutLines(r, toks)
			if r.chance(1, 14) {
				// a line break INSIDE a string token
				for li, l := range ls {
					rs := []rune(l)
					p := strings.IndexRune(string(rs), '"')
					if p >= 0 {
						p = len([]rune(l[:p]))
					}
					if p >= 0 && p+2 < len(rs) && rs[p+1] != '"' {
						ls = append(append(append([]string{}, ls[:li]...), string(rs[:p+2]), string(rs[p+2:])), ls[li+1:]...)
						break
					}
				}
			}
			lines = append(lines, ls...)
			if r.chance(1, 4) {
				lines = append(lines, r.pick([]string{"", " ", "\u00a0", "; just a comment", "  ; c"}))
			}
			if r.chance(1, 10) {
				lines = append(lines, r.pick(closers))
			}
		}
		if len(lines) > 16 {
			lines = lines[:16]
		}
		emit(encodeLines(lines))
	}
}

package main

// engine "lnot" (supports C19, C06): L-notation (lnotation.S L LS V HM SET) against the reader.
//
// payload : <mode> <term>      mode = d (data) | p (program: both deliveries are also EVALuated)
// term    : N | T | F | I<int> | S<hex> | Y<hex>
//         | ( L t* ) | ( LS Y<hex> t* ) | ( V t* ) | ( HM (S<hex> t)* ) | ( RM (S<hex> t)* ) | ( SET S<hex>* )
//           (RM = a bare Go map[string]interface{}; a keyword is the string starting with U+029E)
// observation: b=<AST built by the REAL lnotation functions> x=<hex of the term written as source text>
//              r=<reader.Read_str of that text> same=T|F al=T|F ev=<EVAL of the built AST> | <EVAL of the read AST>
// (al: does the built value share the caller's argument slice; ev=- in mode d)

import (
	"context"
	"encoding/hex"
	"errors"
	"strconv"
	"strings"
	"unicode/utf8"

	"github.com/jig/lisp"
	"github.com/jig/lisp/env"
	"github.com/jig/lisp/lib/core/nscore"
	ln "github.com/jig/lisp/lnotation"
	"github.com/jig/lisp/printer"
	"github.com/jig/lisp/reader"
	. "github.com/jig/lisp/types"
)

type lnotEngine struct{}

func init() { register("lnot", &lnotEngine{}) }

// lterm: an L-notation expression as the embedder writes it
type lterm struct {
	kind string // S L LS V HM RM SET I STR N T F
	name string // S, LS: the name; STR: the string
	i    int
	args []*lterm // L LS V: arguments; HM RM: entry values (parallel to keys)
	keys []string // HM RM: entry keys; SET: members
}

func (t *lterm) enc(b *strings.Builder) {
	switch t.kind {
	case "N", "T", "F":
		b.WriteString(t.kind)
	case "I":
		b.WriteString("I" + strconv.Itoa(t.i))
	case "STR":
		b.WriteString("S" + hx(t.name))
	case "S":
		b.WriteString("Y" + hx(t.name))
	case "L", "V":
		b.WriteString("( " + t.kind)
		for _, a := range t.args {
			b.WriteString(" ")
			a.enc(b)
		}
		b.WriteString(" )")
	case "LS":
		b.WriteString("( LS Y" + hx(t.name))
		for _, a := range t.args {
			b.WriteString(" ")
			a.enc(b)
		}
		b.WriteString(" )")
	case "HM", "RM":
		b.WriteString("( " + t.kind)
		for i, a := range t.args {
			b.WriteString(" S" + hx(t.keys[i]) + " ")
			a.enc(b)
		}
		b.WriteString(" )")
	case "SET":
		b.WriteString("( SET")
		for _, k := range t.keys {
			b.WriteString(" S" + hx(k))
		}
		b.WriteString(" )")
	}
}

func lnotPayload(mode string, t *lterm) string {
	var b strings.Builder
	b.WriteString(mode + " ")
	t.enc(&b)
	return b.String()
}

// dec: the inverse of enc; ok=false on anything else
func lnotDec(toks []string) (t *lterm, rest []string, ok bool) {
	if len(toks) == 0 {
		return nil, nil, false
	}
	h := toks[0]
	switch {
	case h == "N" || h == "T" || h == "F":
		return &lterm{kind: h}, toks[1:], true
	case h == "(":
		if len(toks) < 2 {
			return nil, nil, false
		}
		tag := toks[1]
		rest = toks[2:]
		var items []*lterm
		for {
			if len(rest) == 0 {
				return nil, nil, false
			}
			if rest[0] == ")" {
				rest = rest[1:]
				break
			}
			var it *lterm
			it, rest, ok = lnotDec(rest)
			if !ok {
				return nil, nil, false
			}
			items = append(items, it)
		}
		switch tag {
		case "L", "V":
			return &lterm{kind: tag, args: items}, rest, true
		case "LS":
			if len(items) == 0 || items[0].kind != "S" {
				return nil, nil, false
			}
			return &lterm{kind: "LS", name: items[0].name, args: items[1:]}, rest, true
		case "HM", "RM":
			if len(items)%2 != 0 {
				return nil, nil, false
			}
			out := &lterm{kind: tag}
			for i := 0; i < len(items); i += 2 {
				if items[i].kind != "STR" {
					return nil, nil, false
				}
				out.keys = append(out.keys, items[i].name)
				out.args = append(out.args, items[i+1])
			}
			return out, rest, true
		case "SET":
			out := &lterm{kind: "SET"}
			for _, it := range items {
				if it.kind != "STR" {
					return nil, nil, false
				}
				out.keys = append(out.keys, it.name)
			}
			return out, rest, true
		}
		return nil, nil, false
	case h[0] == 'I':
		i, err := strconv.Atoi(h[1:])
		if err != nil {
			return nil, nil, false
		}
		return &lterm{kind: "I", i: i}, toks[1:], true
	case h[0] == 'S' || h[0] == 'Y':
		bs, err := hexDecodeUTF8(h[1:])
		if err != nil {
			return nil, nil, false
		}
		if h[0] == 'S' {
			return &lterm{kind: "STR", name: bs}, toks[1:], true
		}
		return &lterm{kind: "S", name: bs}, toks[1:], true
	}
	return nil, nil, false
}

func hexDecodeUTF8(h string) (string, error) {
	bs, err := hex.DecodeString(h)
	if err != nil {
		return "", err
	}
	if !utf8.Valid(bs) {
		return "", errors.New("not UTF-8")
	}
	return string(bs), nil
}

// build: the term evaluated as Go code, with the REAL lnotation functions
func (t *lterm) build() interface{} {
	switch t.kind {
	case "N":
		return nil
	case "T":
		return true
	case "F":
		return false
	case "I":
		return t.i
	case "STR":
		return t.name
	case "S":
		return ln.S(t.name)
	case "L":
		args := make([]MalType, 0, len(t.args))
		for _, a := range t.args {
			args = append(args, a.build())
		}
		if len(args) == 0 {
			return ln.L()
		}
		return ln.L(args...)
	case "LS":
		args := make([]MalType, 0, len(t.args))
		for _, a := range t.args {
			args = append(args, a.build())
		}
		return ln.LS(t.name, args...)
	case "V":
		return t.buildV()
	case "HM":
		return ln.HM(t.rawMap())
	case "RM":
		return t.rawMap()
	case "SET":
		if t.keys == nil {
			return ln.SET(nil)
		}
		return ln.SET(append([]string{}, t.keys...))
	}
	panic("lnot: unknown term kind " + t.kind)
}

// rawMap: the Go map literal (a nested RM stays a Go map: HM converts it, or not)
func (t *lterm) rawMap() map[string]interface{} {
	m := map[string]interface{}{}
	for i, k := range t.keys {
		m[k] = t.args[i].build()
	}
	return m
}

// buildV: V is generic over the element type — a slice of symbols, ints or strings is passed with its own type
func (t *lterm) buildV() Vector {
	same := func(kind string) bool {
		if len(t.args) == 0 {
			return false
		}
		for _, a := range t.args {
			if a.kind != kind {
				return false
			}
		}
		return true
	}
	switch {
	case same("S"):
		xs := []Symbol{}
		for _, a := range t.args {
			xs = append(xs, ln.S(a.name))
		}
		return ln.V(xs)
	case same("I"):
		xs := []int{}
		for _, a := range t.args {
			xs = append(xs, a.i)
		}
		return ln.V(xs)
	case same("STR"):
		xs := []string{}
		for _, a := range t.args {
			xs = append(xs, a.name)
		}
		return ln.V(xs)
	case len(t.args)%2 == 1:
		xs := []interface{}{}
		for _, a := range t.args {
			xs = append(xs, a.build())
		}
		return ln.V(xs)
	}
	xs := []MalType{}
	for _, a := range t.args {
		xs = append(xs, a.build())
	}
	return ln.V(xs)
}

// text: the term written as lisp source; strings and keywords by the REAL printer
func (t *lterm) text(b *strings.Builder) {
	seq := func(open, close string, hasHead bool, head string, args []*lterm) {
		b.WriteString(open)
		first := true
		if hasHead {
			b.WriteString(head)
			first = false
		}
		for _, a := range args {
			if !first {
				b.WriteString(" ")
			}
			first = false
			a.text(b)
		}
		b.WriteString(close)
	}
	switch t.kind {
	case "N":
		b.WriteString("nil")
	case "T":
		b.WriteString("true")
	case "F":
		b.WriteString("false")
	case "I":
		b.WriteString(strconv.Itoa(t.i))
	case "STR":
		b.WriteString(printer.Pr_str(t.name, true))
	case "S":
		b.WriteString(t.name)
	case "L":
		seq("(", ")", false, "", t.args)
	case "LS":
		seq("(", ")", true, t.name, t.args)
	case "V":
		seq("[", "]", false, "", t.args)
	case "HM", "RM":
		b.WriteString("{")
		for i, a := range t.args {
			if i > 0 {
				b.WriteString(" ")
			}
			b.WriteString(printer.Pr_str(t.keys[i], true) + " ")
			a.text(b)
		}
		b.WriteString("}")
	case "SET":
		b.WriteString("#{")
		for i, k := range t.keys {
			if i > 0 {
				b.WriteString(" ")
			}
			b.WriteString(printer.Pr_str(k, true))
		}
		b.WriteString("}")
	}
}

// sharesArgs: does the value built from the top-level call still see a later write to the caller's slice?
func (t *lterm) sharesArgs() bool {
	if len(t.args) == 0 {
		return false
	}
	args := make([]MalType, 0, len(t.args))
	for _, a := range t.args {
		args = append(args, a.build())
	}
	marker := Symbol{Val: "overwritten-by-the-caller"}
	var before, after string
	switch t.kind {
	case "L":
		v := ln.L(args...)
		before = render(v)
		args[0] = marker
		after = render(v)
	case "LS":
		v := ln.LS(t.name, args...)
		before = render(v)
		args[0] = marker
		after = render(v)
	case "V":
		v := ln.V(args)
		before = render(v)
		args[0] = marker
		after = render(v)
	default:
		return false
	}
	return before != after
}

var lnotBase EnvType

// lnotEval: EVAL in a fresh environment (its own scope under one loaded core library)
func lnotEval(ast MalType) string {
	if lnotBase == nil {
		e := env.NewEnv()
		if err := nscore.Load(e); err != nil {
			return "setup-error"
		}
		lnotBase = e
	}
	res, err := lisp.EVAL(context.Background(), ast, env.NewSubordinateEnv(lnotBase))
	if err != nil {
		return "err"
	}
	return "ok " + render(res)
}

func (e *lnotEngine) run(payload string) string {
	toks := strings.Fields(payload)
	if len(toks) < 1 || (toks[0] != "d" && toks[0] != "p") {
		return "bad-op"
	}
	mode := toks[0]
	t, rest, ok := lnotDec(toks[1:])
	if !ok || len(rest) != 0 {
		return "bad-op"
	}
	built := t.build()
	var tb strings.Builder
	t.text(&tb)
	text := tb.String()
	bs := render(built)
	out := "b=" + bs + " x=" + hx(text)
	rv, err := reader.Read_str(text, nil, nil)
	same := false
	evB, evR := "-", "-"
	if mode == "p" {
		evB = lnotEval(built)
	}
	if err != nil {
		out += " r=err " + errClass(err)
	} else {
		rs := render(rv)
		same = rs == bs
		out += " r=ok " + rs
		if mode == "p" {
			evR = lnotEval(rv)
		}
	}
	out += " same=" + tfs(same) + " al=" + tfs(t.sharesArgs())
	if mode == "p" {
		out += " ev=" + evB + " | " + evR
		if same && evB != evR {
			out += "\t!the same AST delivered as text and as L-notation evaluates differently"
		}
	} else {
		out += " ev=-"
	}
	return out
}

func tfs(b bool) string {
	if b {
		return "T"
	}
	return "F"
}

// ---------------------------------------------------------------- generation

func lS(n string) *lterm               { return &lterm{kind: "S", name: n} }
func lI(i int) *lterm                  { return &lterm{kind: "I", i: i} }
func lStr(s string) *lterm             { return &lterm{kind: "STR", name: s} }
func lL(a ...*lterm) *lterm            { return &lterm{kind: "L", args: a} }
func lV(a ...*lterm) *lterm            { return &lterm{kind: "V", args: a} }
func lLS(n string, a ...*lterm) *lterm { return &lterm{kind: "LS", name: n, args: a} }

var (
	lnotSyms    = []string{"a", "b", "x", "foo-bar?", "%", "$x", "+", "->>", "a/c", "*e*", "λ", "&", "n1", "<=", "swap!"}
	lnotBadSyms = []string{"a.b/c", "a b", "nil", "true", "false", "(", ")", "", "12", "-3", ":kw", "a;b", "\"s\"", "~@", "#{", "'a", "a(b", "[", "ʞk", "1x", "@a", "^m", "a,b", "a\nb", "¬r¬"}
	lnotStrs    = []string{"", "a", "a\"b", "a\\b", "line\nbreak", "\\n", "{\"k\": 1}", "{\"k\": \"¬\"}", "¬", "λ→", "a b", "(", ";c", "ʞ", "xʞy", "tab\there"}
	lnotKws     = []string{"ʞa", "ʞk", "ʞfoo-bar", "ʞʞx", "ʞ1"}
	lnotBadStrs = []string{"\x00", "a\x00b", "ʞa b", "ʞ", "ʞ(", "ʞ\"q"}
	lnotInts    = []int{0, 1, -1, 7, 42, -100, 9223372036854775807, -9223372036854775808, 1000000}
)

type lnotGen struct {
	r   *rng
	bad bool // allow terms outside the well-formed domain
}

func (g *lnotGen) key() string {
	r := g.r
	switch {
	case g.bad && r.chance(1, 8):
		return r.pick(lnotBadStrs)
	case r.chance(1, 2):
		return r.pick(lnotKws)
	}
	return r.pick(lnotStrs)
}

func (g *lnotGen) sym() string {
	if g.bad && g.r.chance(1, 5) {
		return g.r.pick(lnotBadSyms)
	}
	return g.r.pick(lnotSyms)
}

// entries: keys pairwise different unless bad (then a duplicate now and then)
func (g *lnotGen) entries(depth int, kind string) *lterm {
	r := g.r
	out := &lterm{kind: kind}
	seen := map[string]bool{}
	for i, n := 0, r.intn(4); i < n; i++ {
		k := g.key()
		if seen[k] && !(g.bad && r.chance(1, 2)) {
			continue
		}
		seen[k] = true
		out.keys = append(out.keys, k)
		var v *lterm
		if r.chance(1, 4) {
			v = g.entries(depth-1, "RM") // a bare Go map as entry value: HM converts it
		} else {
			v = g.data(depth - 1)
		}
		out.args = append(out.args, v)
	}
	return out
}

func (g *lnotGen) data(depth int) *lterm {
	r := g.r
	if depth <= 0 || r.chance(1, 3) {
		switch r.intn(7) {
		case 0:
			return &lterm{kind: []string{"N", "T", "F"}[r.intn(3)]}
		case 1:
			return lI(lnotInts[r.intn(len(lnotInts))])
		case 2:
			return lStr(g.key())
		case 3:
			return lStr(r.pick(lnotStrs))
		case 4:
			return lI(r.intn(20) - 5)
		default:
			return lS(g.sym())
		}
	}
	items := func() []*lterm {
		var xs []*lterm
		for i, n := 0, r.intn(4); i < n; i++ {
			xs = append(xs, g.data(depth-1))
		}
		return xs
	}
	switch r.intn(9) {
	case 0, 1:
		return &lterm{kind: "L", args: items()}
	case 2:
		return &lterm{kind: "LS", name: g.sym(), args: items()}
	case 3, 4:
		return &lterm{kind: "V", args: items()}
	case 5, 6:
		return g.entries(depth, "HM")
	case 7:
		out := &lterm{kind: "SET"}
		seen := map[string]bool{}
		for i, n := 0, r.intn(4); i < n; i++ {
			k := g.key()
			if seen[k] && !(g.bad && r.chance(1, 2)) {
				continue
			}
			seen[k] = true
			out.keys = append(out.keys, k)
		}
		return out
	default:
		if g.bad {
			// a bare Go map inside a slice: nobody converts it
			xs := append(items(), g.entries(depth-1, "RM"))
			return &lterm{kind: []string{"V", "L"}[r.intn(2)], args: xs}
		}
		return &lterm{kind: "V", args: items()}
	}
}

// ---- programs: (def …), (fn …), arithmetic, if, let, do, closures, small recursion; lists written with L or LS

func (g *lnotGen) form(head string, args ...*lterm) *lterm {
	if g.r.chance(1, 2) {
		return lLS(head, args...)
	}
	return lL(append([]*lterm{lS(head)}, args...)...)
}

var lnotVars = []string{"a", "b", "n", "x", "acc"}

func (g *lnotGen) intExpr(depth int, vars []string, fns []string) *lterm {
	r := g.r
	if depth <= 0 || r.chance(1, 4) {
		if len(vars) > 0 && r.chance(2, 3) {
			return lS(vars[r.intn(len(vars))])
		}
		return lI(r.intn(9) - 2)
	}
	sub := func() *lterm { return g.intExpr(depth-1, vars, fns) }
	switch r.intn(11) {
	case 0, 1, 2:
		return g.form(r.pick([]string{"+", "-", "*"}), sub(), sub())
	case 3:
		return g.form("if", g.boolExpr(depth-1, vars, fns), sub(), sub())
	case 4:
		v := r.pick(lnotVars)
		inner := append(append([]string{}, vars...), v)
		binds := lV(lS(v), sub())
		if r.chance(1, 3) {
			w := r.pick(lnotVars)
			binds.args = append(binds.args, lS(w), g.intExpr(depth-1, inner, fns))
			inner = append(inner, w)
		}
		return g.form("let", binds, g.intExpr(depth-1, inner, fns))
	case 5:
		return g.form("do", sub(), sub())
	case 6:
		// immediately applied closure
		p := r.pick(lnotVars)
		f := g.form("fn", lV(lS(p)), g.intExpr(depth-1, append(append([]string{}, vars...), p), fns))
		return lL(f, sub())
	case 7:
		if len(fns) > 0 {
			return g.form(fns[r.intn(len(fns))], sub())
		}
		return g.form("count", lV(sub(), sub()))
	case 8:
		return g.form("nth", lV(sub(), sub()), lI(r.intn(3))) // sometimes out of range: an error on both routes
	case 9:
		k := r.pick(lnotKws)
		return g.form("get", &lterm{kind: "HM", keys: []string{k}, args: []*lterm{sub()}}, lStr(k))
	default:
		return g.form("first", g.form("quote", lL(lI(r.intn(5)), lI(1))))
	}
}

func (g *lnotGen) boolExpr(depth int, vars []string, fns []string) *lterm {
	r := g.r
	if depth <= 0 || r.chance(1, 5) {
		return &lterm{kind: []string{"T", "F", "N"}[r.intn(3)]}
	}
	switch r.intn(4) {
	case 0, 1:
		return g.form(r.pick([]string{"<", "<=", ">", ">=", "="}), g.intExpr(depth-1, vars, fns), g.intExpr(depth-1, vars, fns))
	case 2:
		return g.form("nil?", g.boolExpr(depth-1, vars, fns))
	default:
		return g.form("=", lStr(r.pick(lnotStrs)), lStr(r.pick(lnotStrs)))
	}
}

func (g *lnotGen) program(depth int) *lterm {
	r := g.r
	forms := []*lterm{}
	var vars, fns []string
	for i, n := 0, r.intn(4); i < n; i++ {
		switch r.intn(3) {
		case 0:
			name := "g" + string(rune('a'+i))
			forms = append(forms, g.form("def", lS(name), g.intExpr(depth-1, vars, fns)))
			vars = append(vars, name)
		case 1:
			// fib-like recursion, clamped
			name := "rec" + string(rune('a'+i))
			body := g.form("if", g.form("<", lS("n"), lI(2)), lS("n"), g.form("if", g.form(">", lS("n"), lI(8)), lI(0),
				g.form("+", g.form(name, g.form("-", lS("n"), lI(1))), g.form(name, g.form("-", lS("n"), lI(2))))))
			forms = append(forms, g.form("def", lS(name), g.form("fn", lV(lS("n")), body)))
			fns = append(fns, name)
		default:
			name := "f" + string(rune('a'+i))
			forms = append(forms, g.form("def", lS(name), g.form("fn", lV(lS("x")), g.intExpr(depth-1, append(append([]string{}, vars...), "x"), fns))))
			fns = append(fns, name)
		}
	}
	var last *lterm
	switch r.intn(8) {
	case 0:
		last = g.boolExpr(depth, vars, fns)
	case 1:
		last = lV(g.intExpr(depth-1, vars, fns), g.intExpr(depth-1, vars, fns)) // a vector literal, evaluated element-wise
	case 2:
		last = g.form("fn", lV(lS("x")), lS("x")) // a function value
	case 3:
		if g.bad {
			last = lS("undefined-symbol")
			break
		}
		fallthrough
	default:
		last = g.intExpr(depth, vars, fns)
	}
	forms = append(forms, last)
	if len(forms) == 1 && r.chance(1, 2) {
		return forms[0]
	}
	return g.form("do", forms...)
}

func (e *lnotEngine) generate(r *rng, n int, tier string, emit func(string)) {
	// the programs of lnotation_test.go
	fibS := func(s string) *lterm { return lS(s) }
	emit(lnotPayload("p", lLS("range", lI(0), lI(4))))
	emit(lnotPayload("p", lLS("reduce", fibS("+"), lI(0), lLS("range", lI(0), lI(100)))))
	emit(lnotPayload("p", lL(fibS("do"),
		lL(fibS("def"), fibS("fib"), lL(fibS("fn"), lV(fibS("n")),
			lL(fibS("if"), lLS("=", fibS("n"), lI(0)), lI(1),
				lL(fibS("if"), lLS("=", fibS("n"), lI(1)), lI(1),
					lLS("+", lL(fibS("fib"), lLS("-", fibS("n"), lI(1))), lL(fibS("fib"), lLS("-", fibS("n"), lI(2)))))))),
		lL(fibS("fib"), lI(15)))))
	// every symbol spelling and every string of the pools, alone and as an element
	for _, s := range append(append([]string{}, lnotSyms...), lnotBadSyms...) {
		emit(lnotPayload("d", lS(s)))
		emit(lnotPayload("d", lL(lS(s), lI(1))))
		emit(lnotPayload("d", lLS(s)))
	}
	for _, s := range append(append(append([]string{}, lnotStrs...), lnotKws...), lnotBadStrs...) {
		emit(lnotPayload("d", lStr(s)))
		emit(lnotPayload("d", &lterm{kind: "HM", keys: []string{s}, args: []*lterm{lStr(s)}}))
		emit(lnotPayload("d", &lterm{kind: "SET", keys: []string{s, "z"}}))
	}
	// empties, and the HM conversion rule
	for _, k := range []string{"L", "V", "HM", "RM", "SET"} {
		emit(lnotPayload("d", &lterm{kind: k}))
	}
	inner := &lterm{kind: "RM", keys: []string{"b"}, args: []*lterm{&lterm{kind: "RM", keys: []string{"c"}, args: []*lterm{lI(1)}}}}
	emit(lnotPayload("d", &lterm{kind: "HM", keys: []string{"a"}, args: []*lterm{inner}}))
	emit(lnotPayload("d", lV(inner)))
	emit(lnotPayload("d", lL(inner)))
	emit(lnotPayload("d", &lterm{kind: "HM", keys: []string{"a"}, args: []*lterm{lV(inner)}}))
	emit(lnotPayload("d", &lterm{kind: "HM", keys: []string{"a", "a"}, args: []*lterm{lI(1), lI(2)}}))
	emit(lnotPayload("d", &lterm{kind: "SET", keys: []string{"x", "x"}}))
	// malformed requests
	for _, p := range []string{"", "d", "q N", "d (", "d ( L", "d ( HM S61 )", "d ( LS I1 )", "d ( SET I1 )", "d N N", "d Szz", "d ( Q )", "d Sff"} {
		emit(p)
	}
	for i := 0; i < n; i++ {
		switch {
		case i%8 < 3:
			g := &lnotGen{r: r}
			emit(lnotPayload("d", g.data(2+r.intn(2))))
		case i%8 < 5:
			g := &lnotGen{r: r, bad: true}
			emit(lnotPayload("d", g.data(2+r.intn(2))))
		case i%8 < 7:
			g := &lnotGen{r: r}
			emit(lnotPayload("p", g.program(2+r.intn(2))))
		default:
			g := &lnotGen{r: r, bad: true}
			emit(lnotPayload("p", g.program(2+r.intn(2))))
		}
	}
}

func (e *lnotEngine) classify(payload, obs string) string {
	if obs == "bad-op" {
		return "malformed"
	}
	mode := "?"
	if len(payload) > 0 {
		mode = payload[:1]
	}
	get := func(key string) string {
		i := strings.Index(obs, " "+key+"=")
		if i < 0 {
			return "?"
		}
		rest := obs[i+len(key)+2:]
		if j := strings.IndexByte(rest, ' '); j >= 0 {
			rest = rest[:j]
		}
		return rest
	}
	cls := mode + ":same=" + get("same")
	if strings.Contains(obs, " r=err ") {
		cls += ":readerr"
	}
	if strings.Contains(obs, "( OP ") {
		cls += ":rawmap"
	}
	if mode == "p" {
		cls += ":ev=" + get("ev")
	}
	return cls
}

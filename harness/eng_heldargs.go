package main

// engine "heldargs" (C02): "no builtin … changes a value that is already bound, stored inside another collection or captured
// by a closure".  EVERY builtin the three libraries bind (the list of engine nopanic, minus the ones whose job is to change an
// atom or to sleep) is applied to one and to two HELD values of every kind — maps, vectors, lists, sets, byte strings
// (plain, JSON, JSON with comments, base64), strings, error values whose payload is a held map / vector, values with
// metadata, functions — and afterwards every held value, seen through its own binding, through a vector and a map that
// hold it and through a closure that captured it, is compared with a snapshot taken before the call.  Errors and
// results of the call are ignored: only the held values are observed.  Harness-side oracle (the history engine `hist`
// ties the modelled collection builtins to the Lean model; this one covers the rest of the library at argument level).

import (
	"context"
	"encoding/hex"
	"fmt"
	"sort"
	"strings"

	"github.com/jig/lisp"
	"github.com/jig/lisp/lisperror"
	. "github.com/jig/lisp/types"
)

type heldArgsEngine struct{}

func init() { register("heldargs", &heldArgsEngine{}) }

func (e *heldArgsEngine) leanName() string { return "nomodel" }

// the held values: name, constructor
var heldPool = []struct{ name, src string }{
	{"hmap", "{:code 404 :tags [1 2] :in {:k \"v\"}}"},
	{"hmap1", "{:only 1}"},
	{"hempty", "{}"},
	{"hvec", "[1 [2 3] {:a 1} \"s\"]"},
	{"hvec5", "[5 4 3 2 1]"},
	{"hlist", "(list 3 1 2 (list 9 8))"},
	{"hset", "#{:a}"},
	{"hstr", "\"a // b /* c */ d\""},
	{"hjson", "\"{\\\"a\\\": [3, 1, 2], \\\"b\\\": {\\\"c\\\": null}}\""},
	{"hbytes", "(str2binary \"plain bytes\")"},
	{"hjsonb", "(str2binary \"{\\\"a\\\": [3, 1, 2]}\")"},
	{"hjsoncb", "(str2binary \"{\\\"a\\\": 1, // note\\n \\\"b\\\": /* two */ 2}\")"},
	{"hb64", "(str2binary \"aGVsbG8gd29ybGQ=\")"},
	{"herrmap", "(new-error {:code 7 :why [1 2]})"},
	{"herrvec", "(new-error [3 2 1])"},
	{"herrstr", "(new-error \"boom\")"},
	{"hmeta", "(with-meta [1 2 3] {:m [1 2]})"},
	{"hmetamap", "(with-meta {:a 1} {:doc {:x 1}})"},
	{"hfn", "(with-meta (fn [x] x) {:f 1})"},
	{"hkeys", "[:a :code :only]"},
	{"hpath", "[:in :k]"},
	{"hnum", "1"},
	{"hkw", ":code"},
	{"hrename", "{:code :tags :tags :code}"},
}

var heldSkip = map[string]bool{"swap!": true, "reset!": true, "sleep": true, "slurp": true, "panic": true, "assert": true,
	"emb-bug-c0": true, "emb-bug-c1": true, "emb-bug-n0": true, "emb-bug-c2": true}

func (e *heldArgsEngine) generate(r *rng, n int, tier string, emit func(string)) {
	for _, b := range allBuiltins {
		if heldSkip[b] {
			continue
		}
		for i := range heldPool {
			emit(fmt.Sprintf("%s %d", b, i))
			for j := range heldPool {
				emit(fmt.Sprintf("%s %d %d", b, i, j))
			}
		}
	}
	for i := 0; i < n; i++ {
		b := r.pick(allBuiltins)
		if heldSkip[b] {
			continue
		}
		emit(fmt.Sprintf("%s %d %d %d", b, r.intn(len(heldPool)), r.intn(len(heldPool)), r.intn(len(heldPool))))
	}
}

// heldSnap: everything of a value a program can observe, Go maps in sorted order
func heldSnap(v MalType, depth int) string {
	if depth > 12 {
		return "…"
	}
	switch t := v.(type) {
	case nil:
		return "nil"
	case List:
		return "(" + heldSnapSeq(t.Val, depth) + ")^" + heldSnap(t.Meta, depth+1)
	case Vector:
		return "[" + heldSnapSeq(t.Val, depth) + "]^" + heldSnap(t.Meta, depth+1)
	case HashMap:
		ks := make([]string, 0, len(t.Val))
		for k := range t.Val {
			ks = append(ks, k)
		}
		sort.Strings(ks)
		var b strings.Builder
		for _, k := range ks {
			b.WriteString(hex.EncodeToString([]byte(k)) + "=" + heldSnap(t.Val[k], depth+1) + ",")
		}
		return "{" + b.String() + "}^" + heldSnap(t.Meta, depth+1)
	case Set:
		ks := make([]string, 0, len(t.Val))
		for k := range t.Val {
			ks = append(ks, hex.EncodeToString([]byte(k)))
		}
		sort.Strings(ks)
		return "#{" + strings.Join(ks, ",") + "}^" + heldSnap(t.Meta, depth+1)
	case []byte:
		return "bytes:" + hex.EncodeToString(t)
	case string:
		return "s:" + hex.EncodeToString([]byte(t))
	case lisperror.LispError:
		return "error(" + heldSnap(t.ErrorValue(), depth+1) + ")"
	case MalFunc:
		return "fn^" + heldSnap(t.Meta, depth+1)
	case Func:
		return "gofn^" + heldSnap(t.Meta, depth+1)
	case error:
		return "goerr:" + t.Error()
	default:
		return fmt.Sprintf("%T:%v", v, v)
	}
}

func heldSnapSeq(xs []MalType, depth int) string {
	parts := make([]string, len(xs))
	for i, x := range xs {
		parts[i] = heldSnap(x, depth+1)
	}
	return strings.Join(parts, " ")
}

func (e *heldArgsEngine) run(payload string) string {
	f := strings.Fields(payload)
	if len(f) < 2 {
		return "bad-case"
	}
	var idx []int
	for _, a := range f[1:] {
		var i int
		if _, err := fmt.Sscanf(a, "%d", &i); err != nil || i < 0 || i >= len(heldPool) {
			return "bad-case"
		}
		idx = append(idx, i)
	}
	ec := &evalCase{}
	env, err := childEnv(ec)
	if err != nil {
		return "setup-error"
	}
	ev := func(src string) (MalType, error) {
		ast, err := lisp.READ(src, nil, env)
		if err != nil {
			return nil, err
		}
		return lisp.EVAL(context.Background(), ast, env)
	}
	used := map[int]bool{}
	var names []string
	for _, i := range idx {
		if !used[i] {
			used[i] = true
			if _, err := ev("(def " + heldPool[i].name + " " + heldPool[i].src + ")"); err != nil {
				return "n/a" // this tree cannot build that value
			}
		}
		names = append(names, heldPool[i].name)
	}
	// the other ways of reaching the same values
	uniq := []string{}
	for i := range heldPool {
		if used[i] {
			uniq = append(uniq, heldPool[i].name)
		}
	}
	if _, err := ev("(do (def holder-vec [" + strings.Join(uniq, " ") + "]) (def holder-map {:held [" + strings.Join(uniq, " ") + "]}) (def holder-fn (let [kept (list " + strings.Join(uniq, " ") + ")] (fn [] kept))))"); err != nil {
		return "setup-error"
	}
	views := append(append([]string{}, uniq...), "holder-vec", "holder-map", "(holder-fn)")
	snapAll := func() ([]string, bool) {
		out := make([]string, len(views))
		for k, v := range views {
			val, err := ev(v)
			if err != nil {
				return nil, false
			}
			out[k] = heldSnap(val, 0)
		}
		return out, true
	}
	before, ok := snapAll()
	if !ok {
		return "setup-error"
	}
	call := "(" + f[0] + " " + strings.Join(names, " ") + ")"
	ast, err := lisp.READ(call, nil, env)
	if err != nil {
		return "setup-error"
	}
	ctx, cancel := context.WithCancel(context.Background())
	o := safeRunInline(func() string {
		res, err := lisp.EVAL(ctx, ast, env)
		if err == nil {
			// results that are themselves marshalled / printed / hashed by the host afterwards
			if le, isErr := res.(lisperror.LispError); isErr {
				le.Error()
			}
			lisp.PRINT(res)
		} else if le, isErr := err.(lisperror.LispError); isErr {
			if m, ok := interface{}(le).(interface{ MarshalHashMap() (MalType, error) }); ok {
				m.MarshalHashMap()
			}
		}
		return ""
	})
	cancel()
	if strings.HasPrefix(o, "PANIC") {
		return "panic" // (C04's engines report panics; here only the held values count)
	}
	// what a host does with an error value it holds
	for _, i := range idx {
		if strings.HasPrefix(heldPool[i].name, "herr") {
			if v, err := ev(heldPool[i].name); err == nil {
				if m, ok := v.(interface{ MarshalHashMap() (MalType, error) }); ok {
					safeRunInline(func() string { m.MarshalHashMap(); return "" })
				}
			}
		}
	}
	after, ok := snapAll()
	if !ok {
		return "differs\t!after " + call + " a held binding cannot be read any more"
	}
	for k := range views {
		if before[k] != after[k] {
			return fmt.Sprintf("differs\t!%s changed a value that was already bound: %s read %s before the call and %s after it", call, views[k],
				before[k][:min(len(before[k]), 200)], after[k][:min(len(after[k]), 200)])
		}
	}
	return "ok"
}

func (e *heldArgsEngine) classify(payload, obs string) string {
	return strings.SplitN(obs, "\t", 2)[0]
}

package main

// engine "meta" (C02, C06, C13, C14): metadata — `with-meta`, `meta`, the `^` reader macro, and which builtins keep or
// drop the `Meta` field of their argument.
//
// payload (see lean/LispModel/MetaDriver.lean): `s<style> (D<k> := arg | D<k> <op> arg*)*` over 8 registers r0…r7;
// arg = R<k> or a value term with a metadata slot in every collection / function node.  The Go side BUILDS lisp text
// from the terms (a node with metadata is written `^m x` or `(with-meta x m)` depending on the style), READs and
// EVALs one `(def r<k> …)` per statement in a fresh real environment, and prints the outcome class of every
// statement and then every register with the `Meta` field of every node (read from the struct, not through `meta`).

import (
	"context"
	"errors"
	"fmt"
	"runtime"
	"sort"
	"strconv"
	"strings"

	"github.com/jig/lisp"
	"github.com/jig/lisp/env"
	"github.com/jig/lisp/lib/core/nscore"
	. "github.com/jig/lisp/types"
)

type metaEngine struct{}

func init() { register("meta", &metaEngine{}) }

const metaRegs = 8

// mTerm: a value term of the payload
type mTerm struct {
	kind  byte // N T F I S Y L V M H f b
	i     int
	s     string   // S, Y: text; b: builtin name
	items []*mTerm // L, V: elements; M: values (parallel to keys)
	keys  []string // M, H
	meta  *mTerm   // L V M H f b (never nil there; kind 'N' = no metadata)
}

var mNil = &mTerm{kind: 'N'}

func (t *mTerm) String() string {
	var b strings.Builder
	t.write(&b)
	return b.String()
}

func (t *mTerm) write(b *strings.Builder) {
	switch t.kind {
	case 'N', 'T', 'F':
		b.WriteByte(t.kind)
	case 'I':
		b.WriteString("I" + strconv.Itoa(t.i))
	case 'S':
		b.WriteString("S" + hx(t.s))
	case 'Y':
		b.WriteString("Y" + hx(t.s))
	case 'L', 'V':
		b.WriteString("( " + string(t.kind) + " ")
		t.meta.write(b)
		for _, x := range t.items {
			b.WriteString(" ")
			x.write(b)
		}
		b.WriteString(" )")
	case 'M':
		b.WriteString("( M ")
		t.meta.write(b)
		for i, k := range t.keys {
			b.WriteString(" S" + hx(k) + " ")
			t.items[i].write(b)
		}
		b.WriteString(" )")
	case 'H':
		b.WriteString("( H ")
		t.meta.write(b)
		for _, k := range t.keys {
			b.WriteString(" S" + hx(k))
		}
		b.WriteString(" )")
	case 'f':
		b.WriteString("( FN " + strconv.Itoa(t.i) + " ")
		t.meta.write(b)
		b.WriteString(" )")
	case 'b':
		b.WriteString("( BI " + t.s + " ")
		t.meta.write(b)
		b.WriteString(" )")
	}
}

// parseMTerm: the inverse of write
func parseMTerm(toks []string) (*mTerm, []string, error) {
	if len(toks) == 0 {
		return nil, nil, errors.New("eof")
	}
	t := toks[0]
	switch {
	case t == "N" || t == "T" || t == "F":
		return &mTerm{kind: t[0]}, toks[1:], nil
	case t == "(":
		if len(toks) < 2 {
			return nil, nil, errors.New("eof")
		}
		tag, rest := toks[1], toks[2:]
		out := &mTerm{}
		switch tag {
		case "FN":
			if len(rest) == 0 {
				return nil, nil, errors.New("eof")
			}
			id, err := strconv.Atoi(rest[0])
			if err != nil || id < 0 {
				return nil, nil, errors.New("fn id")
			}
			out.kind, out.i, rest = 'f', id, rest[1:]
		case "BI":
			if len(rest) == 0 {
				return nil, nil, errors.New("eof")
			}
			out.kind, out.s, rest = 'b', rest[0], rest[1:]
		case "L", "V", "M", "H":
			out.kind = tag[0]
		default:
			return nil, nil, errors.New("tag")
		}
		var err error
		out.meta, rest, err = parseMTerm(rest)
		if err != nil {
			return nil, nil, err
		}
		var items []*mTerm
		for {
			if len(rest) == 0 {
				return nil, nil, errors.New("eof")
			}
			if rest[0] == ")" {
				rest = rest[1:]
				break
			}
			var x *mTerm
			x, rest, err = parseMTerm(rest)
			if err != nil {
				return nil, nil, err
			}
			items = append(items, x)
		}
		switch out.kind {
		case 'f', 'b':
			if len(items) != 0 {
				return nil, nil, errors.New("function with items")
			}
		case 'L', 'V':
			out.items = items
		case 'M':
			if len(items)%2 != 0 {
				return nil, nil, errors.New("odd map")
			}
			for i := 0; i < len(items); i += 2 {
				if items[i].kind != 'S' {
					return nil, nil, errors.New("map key")
				}
				out.keys = append(out.keys, items[i].s)
				out.items = append(out.items, items[i+1])
			}
		case 'H':
			for _, it := range items {
				if it.kind != 'S' {
					return nil, nil, errors.New("set key")
				}
				out.keys = append(out.keys, it.s)
			}
		}
		return out, rest, nil
	case t[0] == 'I':
		i, err := strconv.Atoi(t[1:])
		return &mTerm{kind: 'I', i: i}, toks[1:], err
	case t[0] == 'S' || t[0] == 'Y':
		bs, err := hexDecodeStrict(t[1:])
		return &mTerm{kind: t[0], s: bs}, toks[1:], err
	}
	return nil, nil, errors.New("token")
}

func hexDecodeStrict(h string) (string, error) {
	if len(h)%2 != 0 {
		return "", errors.New("hex")
	}
	out := make([]byte, 0, len(h)/2)
	for i := 0; i < len(h); i += 2 {
		v, err := strconv.ParseUint(h[i:i+2], 16, 8)
		if err != nil {
			return "", err
		}
		out = append(out, byte(v))
	}
	return string(out), nil
}

// lispText: the expression whose value is the term; a node with metadata is annotated in the given style
// (0: `^m x`, 1: `(with-meta x m)`, 2: alternating with the depth)
func (t *mTerm) lispText(style, depth int) string {
	var body string
	switch t.kind {
	case 'N':
		return "nil"
	case 'T':
		return "true"
	case 'F':
		return "false"
	case 'I':
		return strconv.Itoa(t.i)
	case 'S':
		if strings.HasPrefix(t.s, "ʞ") {
			return ":" + t.s[2:]
		}
		return `"` + t.s + `"`
	case 'Y':
		return "(quote " + t.s + ")"
	case 'L':
		if len(t.items) == 0 && depth%2 == 0 {
			body = "()"
		} else {
			body = "(list" + joinTexts(t.items, style, depth) + ")"
		}
	case 'V':
		body = "[" + strings.TrimPrefix(joinTexts(t.items, style, depth), " ") + "]"
	case 'M':
		parts := []string{}
		for i, k := range t.keys {
			parts = append(parts, (&mTerm{kind: 'S', s: k}).lispText(style, depth), t.items[i].lispText(style, depth+1))
		}
		body = "{" + strings.Join(parts, " ") + "}"
	case 'H':
		parts := []string{}
		for _, k := range t.keys {
			parts = append(parts, (&mTerm{kind: 'S', s: k}).lispText(style, depth))
		}
		body = "#{" + strings.Join(parts, " ") + "}"
	case 'f':
		body = "(fn [& a] a)"
	case 'b':
		body = t.s
	}
	if t.meta == nil || t.meta.kind == 'N' {
		return body
	}
	m := t.meta.lispText(style, depth+1)
	if style == 0 || (style == 2 && depth%2 == 0) {
		return "^" + m + " " + body
	}
	return "(with-meta " + body + " " + m + ")"
}

func joinTexts(items []*mTerm, style, depth int) string {
	var b strings.Builder
	for _, x := range items {
		b.WriteString(" " + x.lispText(style, depth+1))
	}
	return b.String()
}

// metaRender: a real value in the payload's value syntax, `Meta` of every node included
func metaRender(v MalType) string {
	var b strings.Builder
	metaRenderTo(&b, v, 0)
	return b.String()
}

func metaRenderTo(b *strings.Builder, v MalType, depth int) {
	if depth > 100 {
		b.WriteString("DEEP")
		return
	}
	switch t := v.(type) {
	case List:
		b.WriteString("( L ")
		metaRenderTo(b, t.Meta, depth+1)
		for _, x := range t.Val {
			b.WriteString(" ")
			metaRenderTo(b, x, depth+1)
		}
		b.WriteString(" )")
	case Vector:
		b.WriteString("( V ")
		metaRenderTo(b, t.Meta, depth+1)
		for _, x := range t.Val {
			b.WriteString(" ")
			metaRenderTo(b, x, depth+1)
		}
		b.WriteString(" )")
	case HashMap:
		keys := make([]string, 0, len(t.Val))
		for k := range t.Val {
			keys = append(keys, k)
		}
		sort.Strings(keys)
		b.WriteString("( M ")
		metaRenderTo(b, t.Meta, depth+1)
		for _, k := range keys {
			b.WriteString(" S" + hx(k) + " ")
			metaRenderTo(b, t.Val[k], depth+1)
		}
		b.WriteString(" )")
	case Set:
		keys := make([]string, 0, len(t.Val))
		for k := range t.Val {
			keys = append(keys, k)
		}
		sort.Strings(keys)
		b.WriteString("( H ")
		metaRenderTo(b, t.Meta, depth+1)
		for _, k := range keys {
			b.WriteString(" S" + hx(k))
		}
		b.WriteString(" )")
	case MalFunc:
		b.WriteString("( FN ")
		metaRenderTo(b, t.Meta, depth+1)
		b.WriteString(" )")
	case Func:
		b.WriteString("( BI ")
		metaRenderTo(b, t.Meta, depth+1)
		b.WriteString(" )")
	case string:
		b.WriteString("S" + hx(t))
	default:
		b.WriteString(render(v))
	}
}

// ---- statements ----

type mArg struct {
	reg  int    // -1: a constant
	term *mTerm // the constant
}

type mStmt struct {
	dst  int
	op   string // ":=" for a plain (def r<k> arg)
	args []mArg
}

func metaRegIx(pfx byte, t string) (int, bool) {
	if len(t) < 2 || t[0] != pfx {
		return 0, false
	}
	for _, c := range t[1:] {
		if c < '0' || c > '9' {
			return 0, false
		}
	}
	n, err := strconv.Atoi(t[1:])
	if err != nil || n >= metaRegs {
		return 0, false
	}
	return n, true
}

func parseMetaPayload(payload string) (style int, prog []mStmt, ok bool) {
	toks := strings.Fields(payload)
	if len(toks) == 0 {
		return 0, nil, false
	}
	switch toks[0] {
	case "s0", "s1", "s2":
		style = int(toks[0][1] - '0')
	default:
		return 0, nil, false
	}
	toks = toks[1:]
	for len(toks) > 0 {
		if len(toks) < 2 {
			return 0, nil, false
		}
		k, good := metaRegIx('D', toks[0])
		if !good {
			return 0, nil, false
		}
		st := mStmt{dst: k, op: toks[1]}
		toks = toks[2:]
		for len(toks) > 0 && toks[0][0] != 'D' {
			if toks[0][0] == 'R' {
				i, good := metaRegIx('R', toks[0])
				if !good {
					return 0, nil, false
				}
				st.args = append(st.args, mArg{reg: i})
				toks = toks[1:]
				continue
			}
			t, rest, err := parseMTerm(toks)
			if err != nil {
				return 0, nil, false
			}
			st.args = append(st.args, mArg{reg: -1, term: t})
			toks = rest
		}
		if st.op == ":=" && len(st.args) != 1 {
			return 0, nil, false
		}
		prog = append(prog, st)
	}
	return style, prog, true
}

func (s mStmt) String() string {
	parts := []string{"D" + strconv.Itoa(s.dst), s.op}
	for _, a := range s.args {
		if a.reg >= 0 {
			parts = append(parts, "R"+strconv.Itoa(a.reg))
		} else {
			parts = append(parts, a.term.String())
		}
	}
	return strings.Join(parts, " ")
}

func metaPayload(style int, prog []mStmt) string {
	parts := []string{"s" + strconv.Itoa(style)}
	for _, s := range prog {
		parts = append(parts, s.String())
	}
	return strings.Join(parts, " ")
}

// ---- the run against the real interpreter ----

func metaRegName(i int) string { return "r" + strconv.Itoa(i) }

func metaErrClass(err error) string {
	var rt runtime.Error
	if errors.As(err, &rt) {
		return "panic"
	}
	if le, ok := err.(interface{ ErrorValue() MalType }); ok {
		if s, ok := le.ErrorValue().(string); ok && strings.HasPrefix(s, "reflect:") {
			return "bind"
		}
	}
	return "error"
}

// walkers over REAL values (the `Meta` fields are not part of the value and are not visited)
func metaAny(v MalType, p func(MalType) bool) bool {
	if p(v) {
		return true
	}
	switch t := v.(type) {
	case List:
		for _, x := range t.Val {
			if metaAny(x, p) {
				return true
			}
		}
	case Vector:
		for _, x := range t.Val {
			if metaAny(x, p) {
				return true
			}
		}
	case HashMap:
		for _, x := range t.Val {
			if metaAny(x, p) {
				return true
			}
		}
	}
	return false
}

func isBigMap(v MalType) bool  { m, ok := v.(HashMap); return ok && len(m.Val) >= 2 }
func isBigSet(v MalType) bool  { m, ok := v.(Set); return ok && len(m.Val) >= 2 }
func isBuiltinV(v MalType) bool { _, ok := v.(Func); return ok }
func isFuncV(v MalType) bool {
	switch v.(type) {
	case Func, MalFunc:
		return true
	}
	return false
}

// metaOrderDependent: the steps whose result depends on Go's map iteration order (or on the host's name of a
// builtin); they are not run — the model has the same rule (`Err.skip`)
func metaOrderDependent(op string, a []MalType) bool {
	switch op {
	case "keys", "vals":
		return len(a) == 1 && isBigMap(a[0])
	case "seq", "vec":
		return len(a) == 1 && isBigSet(a[0])
	case "pr-str":
		for _, x := range a {
			if metaAny(x, isBigMap) || metaAny(x, isBigSet) || metaAny(x, isBuiltinV) {
				return true
			}
		}
	case "=":
		return len(a) == 2 && (metaAny(a[0], isBigMap) || metaAny(a[1], isBigMap)) && (metaAny(a[0], isFuncV) || metaAny(a[1], isFuncV))
	case "eval":
		return len(a) == 1 && metaAny(a[0], isBigMap)
	case "rename-keys":
		if len(a) != 2 {
			return false
		}
		d, ok1 := a[0].(HashMap)
		alt, ok2 := a[1].(HashMap)
		if !ok1 || !ok2 {
			return false
		}
		seen := map[string]bool{}
		dup := false
		for k := range d.Val {
			nk := k
			if x, ok := alt.Val[k]; ok {
				s, isS := x.(string)
				if !isS {
					return false // the type assertion panics whatever the order
				}
				nk = s
			}
			if seen[nk] {
				dup = true
			}
			seen[nk] = true
		}
		return dup
	}
	return false
}

func (e *metaEngine) run(payload string) string {
	style, prog, ok := parseMetaPayload(payload)
	if !ok {
		return "bad-case"
	}
	ns := env.NewEnv()
	if err := nscore.Load(ns); err != nil {
		return "setup-error " + oneLine(err.Error())
	}
	ctx := context.Background()
	for i := 0; i < metaRegs; i++ {
		ns.Set(Symbol{Val: metaRegName(i)}, nil)
	}
	evalText := func(text string) (MalType, error) {
		ast, err := lisp.READ(text, nil, ns)
		if err != nil {
			return nil, fmt.Errorf("read: %w", err)
		}
		return lisp.EVAL(ctx, ast, ns)
	}
	outs := []string{}
	for _, st := range prog {
		texts := []string{}
		vals := []MalType{}
		constFail := ""
		for _, a := range st.args {
			if a.reg >= 0 {
				texts = append(texts, metaRegName(a.reg))
				v, err := ns.Get(Symbol{Val: metaRegName(a.reg)})
				if err != nil {
					constFail = "reg-unbound"
				}
				vals = append(vals, v)
			} else {
				t := a.term.lispText(style, 0)
				texts = append(texts, t)
				v, err := evalText(t)
				if err != nil {
					constFail = "const-failed:" + oneLine(t)
				}
				vals = append(vals, v)
			}
		}
		if constFail != "" {
			return constFail
		}
		dst := Symbol{Val: metaRegName(st.dst)}
		if st.op != ":=" && metaOrderDependent(st.op, vals) {
			outs = append(outs, "skip")
			ns.Set(dst, nil)
			continue
		}
		var text string
		if st.op == ":=" {
			text = "(def " + dst.Val + " " + texts[0] + ")"
		} else {
			text = "(def " + dst.Val + " (" + st.op + " " + strings.Join(texts, " ") + "))"
		}
		_, err := evalText(text)
		if err != nil {
			outs = append(outs, metaErrClass(err))
			ns.Set(dst, nil)
			continue
		}
		outs = append(outs, "ok")
	}
	regs := []string{}
	oracle := ""
	for i := 0; i < metaRegs; i++ {
		v, err := ns.Get(Symbol{Val: metaRegName(i)})
		if err != nil {
			regs = append(regs, "UNBOUND")
			continue
		}
		regs = append(regs, metaRender(v))
		// the `meta` builtin must agree with the struct field (nil / "not supported" when there is none)
		viaBuiltin, err := evalText("(meta " + metaRegName(i) + ")")
		field, has := metaField(v)
		if has != (err == nil) || (has && metaRender(viaBuiltin) != metaRender(field)) {
			oracle = "\t!(meta " + metaRegName(i) + ") disagrees with the Meta field"
		}
	}
	return strings.Join(outs, " ") + " | " + strings.Join(regs, " ; ") + oracle
}

func metaField(v MalType) (MalType, bool) {
	switch t := v.(type) {
	case List:
		return t.Meta, true
	case Vector:
		return t.Meta, true
	case HashMap:
		return t.Meta, true
	case Set:
		return t.Meta, true
	case Func:
		return t.Meta, true
	case MalFunc:
		return t.Meta, true
	}
	return nil, false
}

func (e *metaEngine) classify(payload, obs string) string {
	_, prog, ok := parseMetaPayload(payload)
	if !ok || len(prog) == 0 {
		return "bad-case"
	}
	outs := strings.Fields(strings.SplitN(obs, " | ", 2)[0])
	last := "?"
	if len(outs) == len(prog) {
		last = outs[len(outs)-1]
	}
	return prog[len(prog)-1].op + ":" + last
}


// ---- generator ----

// approximate kind of what a register holds (only to make most steps well-formed)
const (
	mkAny = iota
	mkList
	mkVec
	mkMap
	mkSet
	mkFn
	mkInt
	mkStr
)

type metaGen struct {
	r    *rng
	kind [metaRegs]int
	prog []mStmt
}

func mkw(s string) *mTerm  { return &mTerm{kind: 'S', s: "ʞ" + s} }
func mstr(s string) *mTerm { return &mTerm{kind: 'S', s: s} }
func mint(i int) *mTerm    { return &mTerm{kind: 'I', i: i} }

var metaKeys = []string{"ʞa", "ʞb", "ʞc", "k", "x"}

func (g *metaGen) scalar() *mTerm {
	r := g.r
	switch r.intn(9) {
	case 0:
		return mNil
	case 1:
		return &mTerm{kind: 'T'}
	case 2:
		return &mTerm{kind: 'F'}
	case 3, 4:
		return mint(r.intn(4))
	case 5:
		return mstr(r.pick([]string{"", "x", "yz", "k"}))
	case 6, 7:
		return mkw(r.pick([]string{"a", "b", "c"}))
	default:
		return &mTerm{kind: 'Y', s: r.pick([]string{"zz", "qq"})}
	}
}

// a metadata value: nil, a keyword, a small hash-map (the usual ones), sometimes any value, sometimes a value that
// has metadata itself
func (g *metaGen) metaVal(depth int) *mTerm {
	r := g.r
	switch r.intn(12) {
	case 0, 1, 2, 3:
		return mNil
	case 4, 5:
		return mkw(r.pick([]string{"m", "tag", "a"}))
	case 6, 7, 8:
		m := &mTerm{kind: 'M', meta: mNil, keys: []string{r.pick(metaKeys)}, items: []*mTerm{g.scalar()}}
		if depth < 2 && r.chance(1, 5) {
			m.meta = g.metaVal(depth + 1)
		}
		return m
	case 9:
		return mint(r.intn(3))
	case 10:
		return mstr("doc")
	default:
		if depth < 2 {
			return g.value(depth+1, mkAny)
		}
		return mNil
	}
}

// the builtins that appear as VALUES (they can end up in function position of an `eval`ed list): none of them
// iterates a Go map
var metaCallable = []string{"first", "rest", "count", "meta", "with-meta", "list", "vector", "cons", "nth"}

// value: a constant of (about) the wanted kind, with metadata on some of its nodes
func (g *metaGen) value(depth, want int) *mTerm {
	r := g.r
	if want == mkAny {
		if depth >= 3 || r.chance(2, 5) {
			return g.scalar()
		}
		want = 1 + r.intn(5)
	}
	md := mNil
	if r.chance(1, 2) {
		md = g.metaVal(depth)
	}
	elem := func() *mTerm { return g.value(depth+1, mkAny) }
	switch want {
	case mkList, mkVec:
		n := r.intn(4)
		t := &mTerm{kind: 'L', meta: md}
		if want == mkVec {
			t.kind = 'V'
		}
		for i := 0; i < n; i++ {
			t.items = append(t.items, elem())
		}
		return t
	case mkMap:
		n := []int{0, 1, 1, 1, 2}[r.intn(5)]
		t := &mTerm{kind: 'M', meta: md}
		perm := r.intn(len(metaKeys))
		for i := 0; i < n; i++ {
			t.keys = append(t.keys, metaKeys[(perm+i)%len(metaKeys)])
			t.items = append(t.items, elem())
		}
		return t
	case mkSet:
		n := []int{0, 1, 1, 1, 2}[r.intn(5)]
		t := &mTerm{kind: 'H', meta: md}
		perm := r.intn(len(metaKeys))
		for i := 0; i < n; i++ {
			t.keys = append(t.keys, metaKeys[(perm+i)%len(metaKeys)])
		}
		return t
	case mkFn:
		if r.chance(1, 3) {
			return &mTerm{kind: 'b', s: r.pick(metaCallable), meta: md}
		}
		return &mTerm{kind: 'f', i: r.intn(3), meta: md}
	case mkInt:
		return mint(r.intn(4))
	case mkStr:
		if r.chance(1, 2) {
			return mkw(r.pick([]string{"a", "b", "c"}))
		}
		return mstr(r.pick([]string{"k", "x", ""}))
	}
	return g.scalar()
}

func termKind(t *mTerm) int {
	switch t.kind {
	case 'L':
		return mkList
	case 'V':
		return mkVec
	case 'M':
		return mkMap
	case 'H':
		return mkSet
	case 'f', 'b':
		return mkFn
	case 'I':
		return mkInt
	case 'S':
		return mkStr
	}
	return mkAny
}

// arg: mostly a register of one of the wanted kinds, else a constant of one of them; sometimes anything
func (g *metaGen) arg(want ...int) (mArg, int) {
	r := g.r
	if r.chance(1, 12) {
		if r.chance(1, 2) {
			i := r.intn(metaRegs)
			return mArg{reg: i}, g.kind[i]
		}
		t := g.value(0, mkAny)
		return mArg{reg: -1, term: t}, termKind(t)
	}
	if r.chance(3, 5) {
		cands := []int{}
		for i, k := range g.kind {
			for _, w := range want {
				if k == w || w == mkAny {
					cands = append(cands, i)
					break
				}
			}
		}
		if len(cands) > 0 {
			i := cands[r.intn(len(cands))]
			return mArg{reg: i}, g.kind[i]
		}
	}
	t := g.value(0, want[r.intn(len(want))])
	return mArg{reg: -1, term: t}, termKind(t)
}

func (g *metaGen) emit(dst int, op string, kind int, args ...mArg) {
	g.prog = append(g.prog, mStmt{dst: dst, op: op, args: args})
	g.kind[dst] = kind
}

func constArg(t *mTerm) mArg { return mArg{reg: -1, term: t} }

var (
	mkColl = []int{mkList, mkVec, mkMap, mkSet, mkFn}
	mkSeq  = []int{mkList, mkVec}
)

func (g *metaGen) keyFor(kind int) mArg {
	r := g.r
	switch kind {
	case mkVec, mkList:
		if r.chance(1, 8) {
			return constArg([]*mTerm{mint(-1), mint(9), mkw("a")}[r.intn(3)])
		}
		return constArg(mint(r.intn(3)))
	default:
		if r.chance(1, 10) {
			return constArg([]*mTerm{mint(0), mNil, {kind: 'Y', s: "zz"}}[r.intn(3)])
		}
		return constArg(mstr(r.pick(metaKeys)))
	}
}

func (g *metaGen) step(dst int) {
	r := g.r
	switch r.intn(42) {
	case 0, 1, 2, 3, 4, 5, 6:
		a, k := g.arg(mkColl...)
		m := constArg(g.metaVal(0))
		if r.chance(1, 4) {
			m, _ = g.arg(mkMap, mkStr, mkAny)
		}
		g.emit(dst, "with-meta", k, a, m)
	case 7, 8, 9:
		a, _ := g.arg(mkColl...)
		g.emit(dst, "meta", mkAny, a)
	case 10, 11:
		a, _ := g.arg(mkList, mkVec, mkSet)
		g.emit(dst, "vec", mkVec, a)
	case 12, 13:
		a, _ := g.arg(mkList, mkVec, mkSet, mkStr)
		g.emit(dst, "seq", mkList, a)
	case 14:
		a, _ := g.arg(mkSeq...)
		g.emit(dst, "first", mkAny, a)
	case 15:
		a, _ := g.arg(mkSeq...)
		g.emit(dst, "rest", mkList, a)
	case 16:
		a, k := g.arg(mkSeq...)
		g.emit(dst, "nth", mkAny, a, g.keyFor(k))
	case 17:
		x, _ := g.arg(mkAny)
		s, _ := g.arg(mkSeq...)
		g.emit(dst, "cons", mkList, x, s)
	case 18, 19:
		c, k := g.arg(mkList, mkVec, mkMap, mkSet)
		args := []mArg{c}
		n := 1 + r.intn(2)
		for i := 0; i < n; i++ {
			switch k {
			case mkMap:
				v, _ := g.arg(mkAny)
				args = append(args, g.keyFor(mkMap), v)
			case mkSet:
				args = append(args, g.keyFor(mkSet))
			default:
				v, _ := g.arg(mkAny)
				args = append(args, v)
			}
		}
		g.emit(dst, "conj", k, args...)
	case 20:
		args := []mArg{}
		for i, n := 0, r.intn(4); i < n; i++ {
			a, _ := g.arg(mkSeq...)
			args = append(args, a)
		}
		g.emit(dst, "concat", mkList, args...)
	case 21:
		a, _ := g.arg(mkList, mkVec, mkMap, mkSet)
		g.emit(dst, "count", mkInt, a)
	case 22, 23:
		c, k := g.arg(mkMap, mkVec, mkSet, mkList)
		g.emit(dst, "get", mkAny, c, g.keyFor(k))
	case 24, 25:
		c, k := g.arg(mkMap, mkVec, mkSet)
		args := []mArg{c}
		for i, n := 0, 1+r.intn(2); i < n; i++ {
			args = append(args, g.keyFor(k))
			if k != mkSet {
				v, _ := g.arg(mkAny)
				args = append(args, v)
			}
		}
		g.emit(dst, "assoc", k, args...)
	case 26:
		c, k := g.arg(mkMap, mkSet)
		g.emit(dst, "dissoc", k, c, g.keyFor(mkMap))
	case 27:
		a, _ := g.arg(mkMap)
		g.emit(dst, "keys", mkList, a)
	case 28:
		a, _ := g.arg(mkMap)
		g.emit(dst, "vals", mkList, a)
	case 29:
		a, _ := g.arg(mkMap)
		b, _ := g.arg(mkMap)
		if r.chance(1, 6) {
			a = constArg(mNil)
		}
		if r.chance(1, 6) {
			b = constArg(mNil)
		}
		g.emit(dst, "merge", mkMap, a, b)
	case 30, 31:
		a, _ := g.arg(mkMap)
		alt := &mTerm{kind: 'M', meta: mNil}
		if r.chance(1, 2) {
			alt.meta = g.metaVal(0)
		}
		perm := r.intn(len(metaKeys))
		for i, n := 0, 1+r.intn(2); i < n; i++ {
			alt.keys = append(alt.keys, metaKeys[(perm+i)%len(metaKeys)])
			nk := mstr(r.pick(metaKeys))
			if r.chance(1, 10) {
				nk = []*mTerm{mint(1), mNil}[r.intn(2)]
			}
			alt.items = append(alt.items, nk)
		}
		g.emit(dst, "rename-keys", mkMap, a, constArg(alt))
	case 32:
		s, _ := g.arg(mkSeq...)
		n := constArg(mint(r.intn(4) - 1))
		if r.chance(1, 10) {
			n = constArg(mstr("x"))
		}
		g.emit(dst, "take", mkList, n, s)
	case 33, 34:
		args := []mArg{}
		for i, n := 0, r.intn(4); i < n; i++ {
			a, _ := g.arg(mkAny)
			args = append(args, a)
		}
		if r.chance(1, 2) {
			g.emit(dst, "list", mkList, args...)
		} else {
			g.emit(dst, "vector", mkVec, args...)
		}
	case 35, 36:
		a, _ := g.arg(mkAny)
		b, _ := g.arg(mkAny)
		if r.chance(1, 5) {
			// functions (inside collections too): `==` on two closures / two builtins is a run-time panic
			a, _ = g.arg(mkFn, mkVec)
			b, _ = g.arg(mkFn, mkVec)
		}
		g.emit(dst, "=", mkAny, a, b)
	case 37:
		args := []mArg{}
		for i, n := 0, 1+r.intn(2); i < n; i++ {
			a, _ := g.arg(mkAny)
			args = append(args, a)
		}
		g.emit(dst, "pr-str", mkStr, args...)
	case 38, 39, 40:
		a, k := g.arg(mkVec, mkMap, mkList, mkSet, mkFn)
		g.emit(dst, "eval", k, a)
	default:
		a, k := g.arg(mkAny)
		g.emit(dst, ":=", k, a)
	}
}

func (e *metaEngine) generate(r *rng, n int, tier string, emit func(string)) {
	for i := 0; i < n; i++ {
		g := &metaGen{r: r}
		style := r.intn(3)
		next := 0
		if r.chance(1, 5) {
			// a value and a copy that differs only in metadata: `=` and `pr-str` must not tell them apart, and the
			// source keeps its own metadata
			c := g.value(0, 1+r.intn(5))
			g.emit(0, ":=", termKind(c), constArg(c))
			g.emit(1, "with-meta", termKind(c), mArg{reg: 0}, constArg(g.metaVal(0)))
			g.emit(2, "=", mkAny, mArg{reg: 0}, mArg{reg: 1})
			g.emit(3, "pr-str", mkStr, mArg{reg: 0})
			g.emit(4, "pr-str", mkStr, mArg{reg: 1})
			g.emit(5, "=", mkAny, mArg{reg: 3}, mArg{reg: 4})
			g.emit(6, "meta", mkAny, mArg{reg: 1})
			g.emit(7, "meta", mkAny, mArg{reg: 0})
			next = 2
		}
		for k, steps := 0, 3+r.intn(10); k < steps && len(g.prog) < 12; k++ {
			dst := next % metaRegs
			if r.chance(1, 4) {
				dst = r.intn(metaRegs)
			} else {
				next++
			}
			g.step(dst)
		}
		p := metaPayload(style, g.prog)
		if r.chance(1, 14) {
			p = metaMalform(r, g, style, p)
		}
		emit(p)
	}
}

// the malformed / edge stream: wrong argument counts, an unbound operator, and payloads both sides must reject
func metaMalform(r *rng, g *metaGen, style int, p string) string {
	k := r.intn(len(g.prog))
	switch r.intn(7) {
	case 0:
		g.prog[k].args = nil
		if g.prog[k].op == ":=" {
			g.prog[k].op = "meta"
		}
	case 1:
		g.prog[k].args = append(g.prog[k].args, constArg(mint(1)), constArg(mNil))
		if g.prog[k].op == ":=" {
			g.prog[k].op = "with-meta"
		}
	case 2:
		g.prog[k].op = "nope"
	case 3:
		return "s7" + p[2:]
	case 4:
		return p + " D" + strconv.Itoa(8+r.intn(3)) + " meta R0"
	case 5:
		return p + " D0 meta R9"
	default:
		return p + " D0 vec ( V N I1"
	}
	return metaPayload(style, g.prog)
}

package main

// Generators of data values. All randomness comes from the *rng passed in.

import (
	. "github.com/jig/lisp/types"
)

// hostile strings: quotes, backslashes, newlines, tabs, raw-string quote, keyword marker,
// JSON-looking text that switches the printer to raw form, placeholders, comment starters.
var strPool = []string{
	"", "a", "b", "ab", "hello world", "\"", "\\", "\\\\", "\n", "\t", "\\n", "a\"b", "a\\b", "a\nb",
	"¬", "¬¬", "a¬b", "aʞb", "ʞ", "{\"k\": 1}", "{\"a\":\"¬\"}", "{\"k\":\n1}", "{\"", "{\"}", "}", "{",
	"$x", ";; $x 1", "; c", "(", ")", "[", "]", "#{", "~@", "'", "`", "^", "@", "«", "»", "é", "日本", "😀",
	"nil", "true", "0", "-1", ":k", " ", "  a ", "\r\n", "a\\", "\\\"", "\"\"",
	// text that means something to fmt, regexp, strconv or a template engine
	"%", "%d", "50% done", "100%", "%%", "%s %v", "%!d(MISSING)", "\\u00e9", "\\x41", "\\t", "\x01", "\x7f", "\u00a0", "$1", "${x}", ".*", "\\d+", "a|b",
	// JSON-looking text (raw form) holding characters whose UTF-8 encoding shares a byte with the raw quote ¬ (C2 AC)
	"café\n", "say \"olá\"", "C:\\José", "日本\\", "{\"a\": 1} ", "\t{\"a\": 1}", " {\"k\": [1, 2]}\n", "{\"price\": \"5 €\"}", "{\"k\": \"本ì\"}", "{\"¬\": \"Ьج\"}", "€", "本",
	// JSON documents with white space AROUND them (a slurped file): quoted form today; a trimmed raw-form test or a
	// heredoc-style reader rule would change them
	"\n{\"a\": 1}\n", "\n{\"a\": 1}", "\r\n{\"a\": 1}", "{\"a\": 1}\n", "\n\n{\"k\":1}", "¬\n", "\n¬",
	// JSON documents with Windows line endings (raw form holding CR LF), lone CR
	"{\"a\":\r\n1}", "{\"k\": \"x\r\ny\"}", "{\"a\":\r1}", "a\r\nb", "\r",
}

var keyPool = []string{"a", "b", "c", "k", "key", "x y", "", "A", "ʞa", "ʞb", "ʞc", "ʞk", "ʞkey", "ʞx-y", "1", "%d", "a\tb", "ʞ%s"}

var symPool = []string{"$x", "$NUMBER", "$b", "a", "b", "x", "y", "foo", "bar-baz", "+", "-", "*", "/", "<=", "a1", "nil?", "swap!", "->", "x*", "é", "_", "λ", "True", "FALSE", "Nil", "NIL", "nil1", "truex"}

var kwNames = []string{"a", "b", "k", "key", "x-y", "a1", "é", "+", "kw?", "ʞx", "ʞ", "a:b", "1"}

func genString(r *rng) string {
	if r.chance(1, 8) {
		// composed string
		n := 1 + r.intn(3)
		s := ""
		for i := 0; i < n; i++ {
			s += r.pick(strPool)
		}
		return s
	}
	return r.pick(strPool)
}

func genKeyword(r *rng) string { return "ʞ" + r.pick(kwNames) }

func genScalar(r *rng) MalType {
	switch r.intn(9) {
	case 0:
		return nil
	case 1:
		return r.chance(1, 2)
	case 2:
		return r.intn(5) - 1
	case 3:
		return []int{0, 1, -1, 7, 42, 1000, -1000000, 2147483647, 9007199254740992, 9007199254740993, -9007199254740993,
			9223372036854775807, 9223372036854775806, -9223372036854775808, -9223372036854775807}[r.intn(15)]
	case 4, 5:
		return genString(r)
	case 6:
		return genKeyword(r)
	case 7:
		return Symbol{Val: r.pick(symPool)}
	default:
		return r.pick([]string{"a", "b", ""})
	}
}

// genData builds a nested data value (nil, bool, int, string, keyword, symbol, list, vector, map, set).
func genData(r *rng, depth int) MalType {
	if depth <= 0 || r.chance(2, 5) {
		return genScalar(r)
	}
	switch r.intn(5) {
	case 0:
		return List{Val: genItems(r, depth)}
	case 1:
		return Vector{Val: genItems(r, depth)}
	case 2, 3:
		m := map[string]MalType{}
		n := r.intn(4)
		for i := 0; i < n; i++ {
			m[r.pick(keyPool)] = genData(r, depth-1)
		}
		return HashMap{Val: m}
	default:
		m := map[string]struct{}{}
		n := r.intn(4)
		for i := 0; i < n; i++ {
			m[r.pick(keyPool)] = struct{}{}
		}
		return Set{Val: m}
	}
}

func genItems(r *rng, depth int) []MalType {
	n := r.intn(4)
	xs := make([]MalType, 0, n)
	for i := 0; i < n; i++ {
		xs = append(xs, genData(r, depth-1))
	}
	return xs
}

// mutate returns a value close to v (for pairs that are "almost equal").
func mutate(r *rng, v MalType, depth int) MalType {
	switch t := v.(type) {
	case List:
		if r.chance(1, 4) {
			return Vector{Val: t.Val}
		}
		return List{Val: mutateItems(r, t.Val, depth)}
	case Vector:
		if r.chance(1, 4) {
			return List{Val: t.Val}
		}
		return Vector{Val: mutateItems(r, t.Val, depth)}
	case HashMap:
		m := map[string]MalType{}
		for k, x := range t.Val {
			m[k] = x
		}
		switch r.intn(5) {
		case 0: // rename one key, keep the value (maps that differ only in which keys are present)
			for k, x := range t.Val {
				delete(m, k)
				m[r.pick(keyPool)] = x
				break
			}
		case 1: // drop a key
			for k := range t.Val {
				delete(m, k)
				break
			}
		case 2: // add a nil-valued key
			m[r.pick(keyPool)] = nil
		case 3: // set one value to nil
			for k := range t.Val {
				m[k] = nil
				break
			}
		default:
			for k, x := range t.Val {
				m[k] = mutate(r, x, depth-1)
				break
			}
		}
		return HashMap{Val: m}
	case Set:
		m := map[string]struct{}{}
		for k := range t.Val {
			m[k] = struct{}{}
		}
		if r.chance(1, 2) {
			for k := range t.Val {
				delete(m, k)
				break
			}
		}
		if r.chance(1, 2) {
			m[r.pick(keyPool)] = struct{}{}
		}
		return Set{Val: m}
	case string:
		switch r.intn(4) {
		case 0:
			return Symbol{Val: t}
		case 1:
			if len(t) > 0 && t[0] != 0xCA {
				return "ʞ" + t
			}
			return t
		default:
			return genScalar(r)
		}
	case Symbol:
		if r.chance(1, 2) {
			return t.Val
		}
		return "ʞ" + t.Val
	case nil:
		return []MalType{false, List{}, 0, "", Vector{}, HashMap{Val: map[string]MalType{}}}[r.intn(6)]
	case bool:
		if !t {
			return []MalType{nil, List{}, 0}[r.intn(3)]
		}
		return genScalar(r)
	case int:
		if t == 0 {
			return []MalType{nil, false, "0", List{}}[r.intn(4)]
		}
		return t + 1
	}
	return genScalar(r)
}

func mutateItems(r *rng, xs []MalType, depth int) []MalType {
	out := append([]MalType{}, xs...)
	if len(out) == 0 {
		return append(out, genScalar(r))
	}
	i := r.intn(len(out))
	switch r.intn(3) {
	case 0:
		out[i] = mutate(r, out[i], depth-1)
	case 1:
		out = append(out[:i], out[i+1:]...)
	default:
		out = append(out, genScalar(r))
	}
	return out
}

// rebuild returns a structurally identical value built along another construction path
// (fresh maps filled in another order, list <-> same list), used for order independence.
func rebuild(r *rng, v MalType) MalType {
	switch t := v.(type) {
	case List:
		out := make([]MalType, len(t.Val))
		for i, x := range t.Val {
			out[i] = rebuild(r, x)
		}
		return List{Val: out}
	case Vector:
		out := make([]MalType, len(t.Val))
		for i, x := range t.Val {
			out[i] = rebuild(r, x)
		}
		return Vector{Val: out}
	case HashMap:
		keys := make([]string, 0, len(t.Val))
		for k := range t.Val {
			keys = append(keys, k)
		}
		// reverse-ish insertion order
		m := map[string]MalType{}
		for i := len(keys) - 1; i >= 0; i-- {
			m[keys[i]] = rebuild(r, t.Val[keys[i]])
		}
		return HashMap{Val: m}
	case Set:
		m := map[string]struct{}{}
		for k := range t.Val {
			m[k] = struct{}{}
		}
		return Set{Val: m}
	}
	return v
}

package main

// Fact group "EvalArms" (properties C01, C03, C07, C08): the special-form dispatch of /repo/mal.go
// `func EVAL` and the context poll sites of mal.go as Lean data (lean/LispModel/Generated/EvalArms.lean).
//
//   * the `switch a0sym { case "def": … default: … }` inside EVAL's `for` loop: the case strings in source
//     order and, per arm (the default arm included), a conservative syntactic classification:
//       returns  every path through the arm's statement list ends in `return` (or `panic(…)`): the
//                statement list is terminating in the sense of the Go spec and contains no
//                `break`/`continue`/`goto`/`fallthrough` that could leave the arm;
//       loops    anything else: some path falls out of the switch (so the `for` iterates again) or
//                executes `continue`.
//   * every `select` with a `case <-ctx.Done():` clause in mal.go: enclosing function, ordinal, whether
//     it is the first statement of a `for` body (directly, or as the only statement of a leading
//     `if <guard> {…}` without else — the guard text is reported), and whether it has a `default:`.
// Syntactic only (go/parser + go/ast); data only; the lemmas are in lean/LispModel/Tie/EvalArms.lean.

import (
	"fmt"
	"go/ast"
	"go/parser"
	"go/token"
	"go/types"
	"path/filepath"
	"strconv"
	"strings"
)

func init() { factGroups["EvalArms"] = evalArmsFacts }

const evalArmsFile = "mal.go"

// can control leave the statement list through break / continue / goto ?  (a `fallthrough` can only be
// the last statement of a clause, where it makes the list non-terminating anyway)
// (`break` inside a nested for/switch/select and `continue` inside a nested for stay inside;
// labelled jumps and goto are counted as leaving, conservatively; func literals are other functions)
func eaEscapes(n ast.Node, inLoop, inBreakable bool) bool {
	found := false
	var walk func(n ast.Node, inLoop, inBreakable bool)
	walk = func(n ast.Node, inLoop, inBreakable bool) {
		ast.Inspect(n, func(m ast.Node) bool {
			if found || m == nil {
				return false
			}
			switch m := m.(type) {
			case *ast.FuncLit:
				return false
			case *ast.BranchStmt:
				switch {
				case m.Label != nil, m.Tok == token.GOTO:
					found = true
				case m.Tok == token.BREAK && !inBreakable:
					found = true
				case m.Tok == token.CONTINUE && !inLoop:
					found = true
				case m.Tok == token.FALLTHROUGH && !inBreakable:
					found = true
				}
				return false
			case *ast.ForStmt:
				walk(m.Body, true, true)
				return false
			case *ast.RangeStmt:
				walk(m.Body, true, true)
				return false
			case *ast.SwitchStmt:
				walk(m.Body, inLoop, true)
				return false
			case *ast.TypeSwitchStmt:
				walk(m.Body, inLoop, true)
				return false
			case *ast.SelectStmt:
				walk(m.Body, inLoop, true)
				return false
			}
			return true
		})
	}
	walk(n, inLoop, inBreakable)
	return found
}

// terminating statement list (Go spec "Terminating statements"), without goto
func eaTerminates(list []ast.Stmt) bool {
	for len(list) > 0 {
		if _, ok := list[len(list)-1].(*ast.EmptyStmt); !ok {
			break
		}
		list = list[:len(list)-1]
	}
	if len(list) == 0 {
		return false
	}
	return eaTerminating(list[len(list)-1])
}

func eaClausesTerminate(body *ast.BlockStmt, needDefault bool) bool {
	if eaEscapes(body, true, false) { // a `break` that refers to this statement (continue is not our business here)
		return false
	}
	hasDefault := false
	for _, c := range body.List {
		var stmts []ast.Stmt
		switch c := c.(type) {
		case *ast.CaseClause:
			hasDefault = hasDefault || c.List == nil
			stmts = c.Body
		case *ast.CommClause:
			hasDefault = hasDefault || c.Comm == nil
			stmts = c.Body
		}
		if n := len(stmts); n > 0 {
			if br, ok := stmts[n-1].(*ast.BranchStmt); ok && br.Tok == token.FALLTHROUGH {
				continue
			}
		}
		if !eaTerminates(stmts) {
			return false
		}
	}
	return hasDefault || !needDefault
}

func eaTerminating(s ast.Stmt) bool {
	switch s := s.(type) {
	case *ast.ReturnStmt:
		return true
	case *ast.ExprStmt:
		if c, ok := s.X.(*ast.CallExpr); ok {
			if id, ok := c.Fun.(*ast.Ident); ok && id.Name == "panic" {
				return true
			}
		}
	case *ast.BlockStmt:
		return eaTerminates(s.List)
	case *ast.LabeledStmt:
		return eaTerminating(s.Stmt)
	case *ast.IfStmt:
		return s.Else != nil && eaTerminates(s.Body.List) && eaTerminating(s.Else)
	case *ast.ForStmt:
		return s.Cond == nil && !eaEscapes(s.Body, true, false)
	case *ast.SwitchStmt:
		return eaClausesTerminate(s.Body, true)
	case *ast.TypeSwitchStmt:
		return eaClausesTerminate(s.Body, true)
	case *ast.SelectStmt:
		return eaClausesTerminate(s.Body, false)
	}
	return false
}

func eaClass(body []ast.Stmt) string {
	if eaTerminates(body) && !eaEscapes(&ast.BlockStmt{List: body}, false, false) {
		return ".returns"
	}
	return ".loops"
}

// the `switch a0sym {…}` of EVAL: it must sit directly in the body of a `for` without condition
// (nil when there is not exactly one: the generated lists are then empty and the tie lemmas fail)
func eaDispatch(fd *ast.FuncDecl) (*ast.SwitchStmt, int) {
	var found []*ast.SwitchStmt
	ast.Inspect(fd.Body, func(n ast.Node) bool {
		if f, ok := n.(*ast.ForStmt); ok && f.Cond == nil && f.Init == nil && f.Post == nil {
			for _, s := range f.Body.List {
				if sw, ok := s.(*ast.SwitchStmt); ok && sw.Tag != nil && types.ExprString(sw.Tag) == "a0sym" {
					found = append(found, sw)
				}
			}
		}
		return true
	})
	if len(found) != 1 {
		return nil, len(found)
	}
	return found[0], 1
}

// is `s` a select with a `case <-ctx.Done():` clause?  (second result: has a `default:`)
func eaIsPoll(s ast.Stmt) (bool, bool) {
	sel, ok := s.(*ast.SelectStmt)
	if !ok {
		return false, false
	}
	poll, def := false, false
	for _, c := range sel.Body.List {
		cc := c.(*ast.CommClause)
		if cc.Comm == nil {
			def = true
			continue
		}
		var rhs ast.Expr
		switch st := cc.Comm.(type) {
		case *ast.ExprStmt:
			rhs = st.X
		case *ast.AssignStmt:
			if len(st.Rhs) == 1 {
				rhs = st.Rhs[0]
			}
		}
		if u, ok := rhs.(*ast.UnaryExpr); ok && u.Op == token.ARROW && types.ExprString(u.X) == "ctx.Done()" {
			poll = true
		}
	}
	return poll, def
}

// poll sites of one function, in source order
func eaPolls(fname string, body *ast.BlockStmt) []string {
	firstOf := map[ast.Stmt]string{} // select statement -> guard text ("" = directly first)
	isFirst := map[ast.Stmt]bool{}
	mark := func(b *ast.BlockStmt) {
		if len(b.List) == 0 {
			return
		}
		s := b.List[0]
		if is, ok := s.(*ast.IfStmt); ok && is.Init == nil && is.Else == nil && len(is.Body.List) == 1 {
			firstOf[is.Body.List[0]], isFirst[is.Body.List[0]] = types.ExprString(is.Cond), true
			return
		}
		firstOf[s], isFirst[s] = "", true
	}
	var rows []string
	ast.Inspect(body, func(n ast.Node) bool {
		switch n := n.(type) {
		case *ast.ForStmt:
			mark(n.Body)
		case *ast.RangeStmt:
			mark(n.Body)
		case *ast.SelectStmt:
			if poll, def := eaIsPoll(n); poll {
				rows = append(rows, fmt.Sprintf("  ⟨%s, %d, %s, %s, %s⟩", leanStr(fname), len(rows), regBool(isFirst[n]),
					leanStr(firstOf[n]), regBool(def)))
			}
		}
		return true
	})
	return rows
}

func evalArmsFacts(repo string) (string, error) {
	f, err := parser.ParseFile(token.NewFileSet(), filepath.Join(repo, evalArmsFile), nil, 0)
	if err != nil {
		return "", err
	}
	var names, arms, polls []string
	defaultArm := "none"
	nDispatch := 0
	for _, d := range f.Decls {
		fd, ok := d.(*ast.FuncDecl)
		if !ok || fd.Body == nil {
			continue
		}
		fname := fd.Name.Name
		if fd.Recv != nil && len(fd.Recv.List) == 1 {
			t := fd.Recv.List[0].Type
			if st, ok := t.(*ast.StarExpr); ok {
				t = st.X
			}
			fname = types.ExprString(t) + "." + fname
		}
		polls = append(polls, eaPolls(fname, fd.Body)...)
		if fname != "EVAL" {
			continue
		}
		var sw *ast.SwitchStmt
		if sw, nDispatch = eaDispatch(fd); sw == nil {
			continue
		}
		for _, c := range sw.Body.List {
			cc := c.(*ast.CaseClause)
			class := eaClass(cc.Body)
			if cc.List == nil {
				defaultArm = "some " + class
				continue
			}
			for _, e := range cc.List {
				name := "?" + types.ExprString(e) // not a string literal: cannot match a special form
				if bl, ok := e.(*ast.BasicLit); ok && bl.Kind == token.STRING {
					if s, err := strconv.Unquote(bl.Value); err == nil {
						name = s
					}
				}
				names = append(names, leanStr(name))
				arms = append(arms, fmt.Sprintf("  ⟨%s, %s⟩", leanStr(name), class))
			}
		}
	}
	var b strings.Builder
	b.WriteString("/- GENERATED by `harness facts` (harness/facts_evalarms.go) from /repo/mal.go: the arms of the\n")
	b.WriteString("   `switch a0sym` dispatch of EVAL with a syntactic returns/loops classification, and the\n")
	b.WriteString("   `select { case <-ctx.Done(): … }` poll sites.  Data only.  Do not edit. -/\n")
	b.WriteString("namespace LispModel.Generated.EvalArms\n\n")
	b.WriteString("/-- `returns`: every path through the arm ends in `return`; `loops`: some path falls out of the\n")
	b.WriteString("    switch (the `for` of EVAL iterates again) or executes `continue` -/\n")
	b.WriteString("inductive ArmClass where\n  | returns | loops\nderiving Repr, DecidableEq\n\n")
	b.WriteString("structure Arm where\n  name : String\n  cls : ArmClass\nderiving Repr, DecidableEq\n\n")
	b.WriteString("/-- a `select` with a `case <-ctx.Done():` clause: enclosing function, ordinal within it, first\n")
	b.WriteString("    statement of a `for` body? (directly, or alone under a leading `if guard {…}`: the guard text),\n")
	b.WriteString("    has a `default:` clause (non-blocking)? -/\n")
	b.WriteString("structure PollSite where\n  func : String\n  ord : Nat\n  firstInFor : Bool\n  guard : String\n  nonBlocking : Bool\nderiving Repr, DecidableEq\n\n")
	fmt.Fprintf(&b, "/-- number of `switch a0sym` statements found directly in a `for {}` body of EVAL -/\ndef dispatchCount : Nat := %d\n\n", nDispatch)
	fmt.Fprintf(&b, "def evalArmNames : List String := [%s]\n\n", strings.Join(names, ", "))
	fmt.Fprintf(&b, "def evalArms : List Arm := [\n%s]\n\n", strings.Join(arms, ",\n"))
	fmt.Fprintf(&b, "/-- the `default:` arm (function application) -/\ndef evalDefaultArm : Option ArmClass := %s\n\n", defaultArm)
	fmt.Fprintf(&b, "def pollSites : List PollSite := [\n%s]\n\n", strings.Join(polls, ",\n"))
	b.WriteString("end LispModel.Generated.EvalArms\n")
	return b.String(), nil
}

package main

// engine "pos" (C17): program texts with exactly one planted fault; the position carried by the error
// must name the module, lie within the lines of the top-level form that contains the fault and cover the
// line on which the faulty expression starts.

import (
	"context"
	"encoding/hex"
	"fmt"
	"strings"

	"github.com/jig/lisp"
	. "github.com/jig/lisp/types"
)

type posEngine struct{}

func init() { register("pos", &posEngine{}) }

func (e *posEngine) preamble() []string { return []string{"init\t" + initPayload()} }

type textBuilder struct {
	b    strings.Builder
	line int
}

func (t *textBuilder) write(s string) {
	t.b.WriteString(s)
	t.line += strings.Count(s, "\n")
}

var fillerForms = []string{
	"(def ok1 (fn [x]\n  (+ x 1)))",
	"; a comment line\n(def ok2 [1\n 2\n 3])",
	"(def ok3 ¬raw\nstring\nover lines¬)",
	"(def ok4 {:a 1\n  :b (list 1 2)})",
	"(+ 40\n   1)",
	"(def ok5 (let [a 1\n      b 2]\n  (+ a b))) ; trailing comment",
	"\n\n(do 1\n    2)",
}

var faults = []string{"(throw not-found-marker)", "(assert false not-found-marker)", "undefined-symbol-x", "(throw \"planted\")", "(nth [1 2] 7)", "(assert false)", "(throw {:a 1})", "(undefined-fn 1 2)", "(+ 1 \"s\")",
	// the failing call is a list rebuilt by macro expansion: it has no cursor of its own (known finding D16b)
	"(-> [1 2] (nth 7))"}

// wrap puts the fault (on its own line where the layout allows) inside a nesting construct
func wrapFault(r *rng, fault string) string {
	switch r.intn(16) {
	case 0:
		return fault
	case 1:
		return "(let [a 1\n      b " + fault + "]\n  a)"
	case 2:
		return "(if true\n  " + fault + "\n  0)"
	case 3:
		return "(do 1\n  " + fault + "\n  2)"
	case 4:
		return "[1\n " + fault + "\n 3]"
	case 5:
		return "{:a\n " + fault + "}"
	case 6:
		return "(cond false 1\n  true " + fault + ")"
	case 7:
		return "(or nil\n  " + fault + ")"
	case 8:
		return "(-> 1\n  (list " + fault + "))"
	case 9:
		return "(list 1\n  (let [q 2]\n    (if q\n      " + fault + ")))"
	case 10:
		return "(and true\n  " + fault + ")"
	case 11:
		return "((fn [z]\n  " + fault + ") 1)"
	case 12:
		return "(try\n  " + fault + "\n  (finally 1))"
	case 13, 14:
		// the fault sits in a HANDLER whose body failed on purpose (an error inside an error handler)
		return "(try\n  (throw \"caught on purpose\")\n  (catch e\n    1\n    " + fault + "))"
	default:
		return "(list\n  ; comment before the fault\n\n  " + fault + ")"
	}
}

func (e *posEngine) generate(r *rng, n int, tier string, emit func(string)) {
	for i := 0; i < n; i++ {
		fault := r.pick(faults)
		tb := &textBuilder{line: 1}
		headerModule := ""
		if r.chance(1, 8) {
			headerModule = r.pick([]string{"other.lisp", "nightly report.lisp", "my scripts/prog.lisp", "m2"})
			tb.write(";; $MODULE " + headerModule + "\n")
		} else if r.chance(1, 4) {
			// blank / comment lines before the first token count as lines
			tb.write(r.pick([]string{"\n", "\n\n\n", "  \n\t\n", "; leading comment\n\n", "\r\n\r\n"}))
		} else if r.chance(1, 5) {
			// a ';; $MODULE name' first line names the module only when the caller's cursor does not
			tb.write(r.pick([]string{";; $MODULE other.lisp\n", ";; $MODULE scratch/old-dump.lisp\n", ";; $MODULE m2\n\n"}))
		}
		tb.write("(do\n")
		if strings.Contains(fault, "not-found-marker") {
			// the thrown VALUE is a quoted literal read on other lines: the error is at the throw, not at the literal
			tb.write("(def not-found-marker\n  (quote (error\n    not found)))\n")
		}
		if r.chance(1, 3) {
			// the identifiers of the fault also occur EARLIER in the text, on other lines, in innocent places
			tb.write("(def ok8 (quote (undefined-symbol-x undefined-fn\n  nth throw assert)))\n(def ok9 (fn [undefined-symbol-x]\n  undefined-symbol-x))\n")
		}
		for k, m := 0, r.intn(3); k < m; k++ {
			tb.write(r.pick(fillerForms) + "\n")
			if r.chance(1, 3) {
				tb.write("\n; blank and comment\n")
			}
		}
		var topStart, topEnd, faultLine int
		place := func(form string) {
			// the form is a top-level form; find the line of the fault inside it
			topStart = tb.line
			idx := strings.Index(form, fault)
			faultLine = tb.line + strings.Count(form[:idx], "\n")
			tb.write(form)
			topEnd = tb.line
			tb.write("\n")
		}
		via := r.intn(8)
		if r.chance(1, 7) {
			via = 100
		}
		if via != 100 && r.chance(1, 9) {
			via = 101
		}
		if via < 100 && r.chance(1, 8) {
			via = 102 + r.intn(2)
		}
		switch {
		case via == 102:
			// a user macro (defined on earlier lines) whose expansion IS its rest-parameter list — the operands as written at
			// the call — evaluated as a call that fails in a builtin: the fault is at the macro call, never at the definition
			mac := r.pick([]string{"(defmacro call-it (fn [& form]\n  form))", "(defmacro call-it (fn [ignored & form]\n  form))", "(defmacro call-it\n  (fn [& form]\n    (do form)))"})
			tb.write(mac + "\n")
			for k, m := 0, r.intn(3); k < m; k++ {
				tb.write(r.pick(fillerForms) + "\n")
			}
			lead := ""
			if strings.Contains(mac, "ignored") {
				lead = ":skipped "
			}
			fault = r.pick([]string{"(call-it " + lead + "nth [1 2] 7)", "(call-it " + lead + "+ 1 \"s\")", "(call-it " + lead + "nth [1 2]\n  7)"})
			place(strings.Replace(r.pick([]string{"%s", "(apply (fn []\n  %s) [])", "(map (fn [i]\n  %s)\n  [1 2])", "(let [a (atom 0)]\n  (swap! a (fn [x]\n    %s)))"}), "%s", fault, 1))
		case via == 103:
			// a user macro whose expansion is a `let` with a binding VECTOR built at run time (quasiquote turns [...] into
			// (vec …)); the generated let is malformed: the fault is at the macro call
			mac := r.pick([]string{"(defmacro with-value (fn [value name & body]\n  `(let [~name ~value]\n     ~@body)))", "(defmacro with-value (fn [value name & body]\n  (list 'let (vec (list name value 'dangling))\n    (first body))))"})
			tb.write(mac + "\n")
			for k, m := 0, r.intn(3); k < m; k++ {
				tb.write(r.pick(fillerForms) + "\n")
			}
			fault = r.pick([]string{"(with-value 5 6 (+ 1 2))", "(with-value 5 \"limit\"\n  (+ 1 2))", "(with-value 5 :k 1)"})
			if strings.Contains(mac, "dangling") {
				fault = "(with-value 5 lim (+ lim 2))"
			}
			place(strings.Replace(r.pick([]string{"%s", "(map (fn [i]\n  %s)\n  [1 2])", "(list 1\n  %s)"}), "%s", fault, 1))
		case via == 101:
			// an ARITY mismatch raised by the binder while a builtin applies a function defined on other lines: the fault is
			// the applying call, not the (correct) definition
			tb.write("(def add2 (fn [a b]\n  (+ a\n     b)))\n")
			for k, m := 0, r.intn(3); k < m; k++ {
				tb.write(r.pick(fillerForms) + "\n")
			}
			fault = r.pick([]string{"(map add2 [1 2])", "(apply add2 [1])", "(swap! (atom 0) add2)", "(update {:k 1} :k add2)", "(apply add2\n  [1 2 3])"})
			place(wrapFault(r, fault))
		case via == 100:
			// TWINS: the same library-macro call, written identically, stands in two functions on different lines; the
			// first one is evaluated (successfully) before the second one fails: the error belongs to the SECOND text
			fault = "(nth v i)"
			mac := r.pick([]string{"(cond (< i 0) nil\n        true (nth v i))", "(or false\n      (nth v i))", "(and true\n       (nth v i))", "(-> (nth v i)\n      (list))"})
			tb.write("(def pick (fn [v i]\n  " + mac + "))\n(pick [1 2 3] 1)\n")
			for k, m := 0, r.intn(3); k < m; k++ {
				tb.write(r.pick(fillerForms) + "\n")
			}
			place("(def pick-last (fn [v i]\n" + r.pick([]string{"", "  ; same lookup, from the end\n", "\n"}) + "  " + mac + "))")
			tb.write("(pick-last [1 2 3] 9)\n")
		case via < 3:
			place(wrapFault(r, fault))
		default:
			// the fault sits in the body of a function defined in one top-level form and called from a later one
			def := "(def g (fn [x]\n  " + wrapFault(r, fault) + "))"
			if r.chance(1, 3) {
				def = "(def g\n  (let [k 1]\n    (fn [x]\n      " + wrapFault(r, fault) + ")))"
			}
			place(def)
			for k, m := 0, r.intn(2); k < m; k++ {
				tb.write(r.pick(fillerForms) + "\n")
			}
			call := []string{"(g 1)", "(list 1\n  (g 2))", "(map g [1 2])", "(apply g [1])", "(let [a (atom 0)]\n  (swap! a g))", "(map (fn [y] (g y))\n  [1])", "(update [1 2] 0 g)", "(reduce (fn [acc y] (g y)) 0 [1 2])"}[via-3+r.intn(2)*0]
			if via-3 >= 5 {
				call = []string{"(g 1)", "(map g [1 2])", "(apply g [1])", "(update [1 2] 0 g)", "(reduce (fn [acc y] (g y)) 0 [1 2])"}[r.intn(5)]
			}
			tb.write(call + "\n")
		}
		for k, m := 0, r.intn(2); k < m; k++ {
			tb.write(r.pick(fillerForms) + "\n")
		}
		tb.write("nil)")
		module := r.pick([]string{"prog.lisp", "dir/mod.lisp", "m"})
		if headerModule != "" {
			// the caller's cursor names no module: the header line does (white space included)
			emit(fmt.Sprintf("m=%s h=1 t=%d-%d f=%d x%s", hx(headerModule), topStart, topEnd, faultLine, hex.EncodeToString([]byte(tb.b.String()))))
			continue
		}
		emit(fmt.Sprintf("m=%s t=%d-%d f=%d x%s", hx(module), topStart, topEnd, faultLine, hex.EncodeToString([]byte(tb.b.String()))))
	}
}

func (e *posEngine) run(payload string) string {
	var module string
	var topStart, topEnd, faultLine int
	var text []byte
	for _, f := range strings.Fields(payload) {
		switch {
		case strings.HasPrefix(f, "m="):
			b, _ := hex.DecodeString(f[2:])
			module = string(b)
		case strings.HasPrefix(f, "t="):
			fmt.Sscanf(f[2:], "%d-%d", &topStart, &topEnd)
		case strings.HasPrefix(f, "f="):
			fmt.Sscanf(f[2:], "%d", &faultLine)
		case strings.HasPrefix(f, "x"):
			text, _ = hex.DecodeString(f[1:])
		}
	}
	ec := &evalCase{}
	env, err := freshEnv(ec)
	if err != nil {
		return "setup-error"
	}
	cursor := NewCursorFile(module)
	if strings.Contains(" "+payload+" ", " h=1 ") {
		cursor = nil
		if len(text)%2 == 1 {
			// an embedder's ONE module-less cursor object used for several reads: an earlier text's header must not stick to it
			cursor = NewAnonymousCursorHere(1, 1)
			if _, err := lisp.READ(";; $MODULE earlier-program.lisp\n(+ 1 2)", cursor, env); err != nil {
				return "setup-error"
			}
		}
	}
	ast, err := lisp.READ(string(text), cursor, env)
	if err != nil {
		return "read-error " + errClass(err)
	}
	_, err = lisp.EVAL(context.Background(), ast, env)
	if err == nil {
		return "ok"
	}
	pe, ok := err.(interface{ Position() *Position })
	if !ok || pe.Position() == nil {
		return "err nopos"
	}
	p := pe.Position()
	mod := "-"
	if p.Module != nil {
		mod = hx(*p.Module)
	}
	obs := fmt.Sprintf("err pos=%s,%d,%d,%d,%d", mod, p.BeginRow, p.Row, p.BeginCol, p.Col)
	var why []string
	if p.Module == nil || *p.Module != module {
		why = append(why, "position names another module")
	}
	if p.BeginRow < topStart || p.Row > topEnd {
		why = append(why, fmt.Sprintf("position rows %d…%d lie outside the top-level form containing the fault (lines %d…%d)", p.BeginRow, p.Row, topStart, topEnd))
	} else if faultLine < p.BeginRow || faultLine > p.Row {
		why = append(why, fmt.Sprintf("position rows %d…%d do not cover the line %d on which the faulty expression starts", p.BeginRow, p.Row, faultLine))
	}
	if len(why) > 0 {
		return obs + "\t!" + strings.Join(why, "; ")
	}
	return obs
}

func (e *posEngine) classify(payload, obs string) string {
	return strings.Fields(obs + " ?")[0] + "/" + strings.SplitN(strings.Fields(obs + " ? ?")[1], "=", 2)[0]
}

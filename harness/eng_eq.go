package main

// engine "eq" (C14): the `=` builtin on pairs of data values.
// observation: T / F / err   (through EVAL of (= 'a 'b)); a direct call of types.Equal_Q must agree.

import (
	"context"
	"strings"

	"github.com/jig/lisp"
	"github.com/jig/lisp/env"
	"github.com/jig/lisp/lib/core/nscore"
	. "github.com/jig/lisp/types"
)

type eqEngine struct{ env EnvType }

func init() { register("eq", &eqEngine{}) }

func quote(v MalType) MalType { return List{Val: []MalType{Symbol{Val: "quote"}, v}} }

func (e *eqEngine) generate(r *rng, n int, tier string, emit func(string)) {
	for i := 0; i < n; i++ {
		a := genData(r, 3)
		var b MalType
		switch r.intn(4) {
		case 0:
			b = rebuild(r, a)
		case 1, 2:
			b = mutate(r, a, 3)
		default:
			b = genData(r, 3)
		}
		if r.chance(1, 2) {
			a, b = b, a
		}
		emit(render(a) + " | " + render(b))
	}
}

func (e *eqEngine) run(payload string) string {
	if e.env == nil {
		e.env = env.NewEnv()
		if err := nscore.Load(e.env); err != nil {
			return "setup-error " + err.Error()
		}
	}
	parts := strings.Split(payload, " | ")
	if len(parts) != 2 {
		return "bad-case"
	}
	a, err := parse(parts[0])
	if err != nil {
		return "bad-case"
	}
	b, err := parse(parts[1])
	if err != nil {
		return "bad-case"
	}
	ast := List{Val: []MalType{Symbol{Val: "="}, quote(a), quote(b)}}
	res, err := lisp.EVAL(context.Background(), ast, e.env)
	if err != nil {
		return "err"
	}
	direct := Equal_Q(a, b)
	rb, ok := res.(bool)
	if !ok || rb != direct {
		return "inconsistent"
	}
	if rb {
		return "T"
	}
	return "F"
}

func (e *eqEngine) classify(payload, obs string) string {
	parts := strings.Split(payload, " | ")
	k := func(s string) string {
		if strings.HasPrefix(s, "( ") && len(s) > 3 {
			return s[2:3]
		}
		return s[:1]
	}
	if len(parts) != 2 {
		return "bad"
	}
	return k(parts[0]) + k(parts[1]) + ":" + obs
}

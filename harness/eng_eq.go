package main

// engine "eq" (C14): the `=` builtin on pairs of data values.
// observation: T / F / err   (through EVAL of (= 'a 'b)); a direct call of types.Equal_Q must agree.

import (
	"context"
	"strings"

	"github.com/jig/lisp"
	"github.com/jig/lisp/env"
	"github.com/jig/lisp/lib/core/nscore"
	. "github.com/jig/lisp/types"
)

type eqEngine struct{ env EnvType }

func init() { register("eq", &eqEngine{}) }

func quote(v MalType) MalType { return List{Val: []MalType{Symbol{Val: "quote"}, v}} }

// one small value of every kind, empties and singletons included: all ordered pairs are compared (exhaustive),
// in both orders (symmetry), each with itself (reflexivity)
var eqAtoms = []MalType{
	nil, false, true, 0, 1, "", "a", "ʞa", Symbol{Val: "a"}, List{}, Vector{}, HashMap{Val: map[string]MalType{}}, Set{Val: map[string]struct{}{}},
	ls(nil), vc(nil), vc(List{}), ls(Vector{}), vc(vc()), ls(1), vc(1), ls(ls(1)), vc(ls(1)),
	HashMap{Val: map[string]MalType{"ʞa": nil}}, HashMap{Val: map[string]MalType{"ʞa": List{}}}, HashMap{Val: map[string]MalType{"ʞa": Vector{}}},
	HashMap{Val: map[string]MalType{"ʞa": Set{Val: map[string]struct{}{"ʞb": {}}}}}, Set{Val: map[string]struct{}{"ʞa": {}}}, Set{Val: map[string]struct{}{"a": {}}},
	vc(HashMap{Val: map[string]MalType{}}), vc(Set{Val: map[string]struct{}{}}), ls(false), ls(""), ls(0),
}

func (e *eqEngine) generate(r *rng, n int, tier string, emit func(string)) {
	for _, a := range eqAtoms {
		for _, b := range eqAtoms {
			emit(render(a) + " | " + render(b))
		}
	}
	for i := 0; i < n; i++ {
		a := genData(r, 3)
		var b MalType
		switch r.intn(4) {
		case 0:
			b = rebuild(r, a)
		case 1, 2:
			b = mutate(r, a, 3)
		default:
			b = genData(r, 3)
		}
		if r.chance(1, 2) {
			a, b = b, a
		}
		emit(render(a) + " | " + render(b))
	}
}

func (e *eqEngine) run(payload string) string {
	if e.env == nil {
		e.env = env.NewEnv()
		if err := nscore.Load(e.env); err != nil {
			return "setup-error " + err.Error()
		}
	}
	parts := strings.Split(payload, " | ")
	if len(parts) != 2 {
		return "bad-case"
	}
	a, err := parse(parts[0])
	if err != nil {
		return "bad-case"
	}
	b, err := parse(parts[1])
	if err != nil {
		return "bad-case"
	}
	ast := List{Val: []MalType{Symbol{Val: "="}, quote(a), quote(b)}}
	res, err := lisp.EVAL(context.Background(), ast, e.env)
	if err != nil {
		return "err"
	}
	direct := Equal_Q(a, b)
	rb, ok := res.(bool)
	if !ok || rb != direct {
		return "inconsistent"
	}
	// the same two values as the REAL reader builds them from their printed text (cursors on lists, vectors and
	// symbols, the reader's own map / set constructors): `=` must not see the difference
	if ra, rbv, ok := rereadPair(a, b, e.env); ok {
		if Equal_Q(ra, rbv) != direct || Equal_Q(a, rbv) != direct || Equal_Q(ra, b) != direct {
			return "reader-built-values-differ"
		}
		r2, err := lisp.EVAL(context.Background(), List{Val: []MalType{Symbol{Val: "="}, quote(ra), quote(rbv)}}, e.env)
		if b2, ok := r2.(bool); err != nil || !ok || b2 != direct {
			return "reader-built-values-differ"
		}
	}
	if rb {
		return "T"
	}
	return "F"
}

func (e *eqEngine) classify(payload, obs string) string {
	parts := strings.Split(payload, " | ")
	k := func(s string) string {
		if strings.HasPrefix(s, "( ") && len(s) > 3 {
			return s[2:3]
		}
		return s[:1]
	}
	if len(parts) != 2 {
		return "bad"
	}
	return k(parts[0]) + k(parts[1]) + ":" + obs
}

// rereadPair: both values printed and read back by the real reader, each from its own text (two read sites);
// ok only when both texts read back to the same canonical term (strings the printer/reader pair does not
// round-trip are known findings of C06 and are left out)
func rereadPair(a, b MalType, e EnvType) (ra, rb MalType, ok bool) {
	defer func() {
		if recover() != nil {
			ok = false
		}
	}()
	one := func(v MalType) (MalType, bool) {
		t, err := lisp.READ(lisp.PRINT(v), nil, e)
		if err != nil || render(t) != render(v) {
			return nil, false
		}
		return t, true
	}
	ra, ok1 := one(a)
	rb, ok2 := one(b)
	return ra, rb, ok1 && ok2
}

package main

// Generators for the evaluator-family engines: try (C03), malformed (C04), qq/macro (C12),
// coll (C13), step (C18), tail (C08), cancel (C07).  All observations come from runProgram.

import (
	"math"
	"strconv"
	"strings"

	. "github.com/jig/lisp/types"
)

func kw(s string) string { return "ʞ" + s }

// ---------------------------------------------------------------- C03: try / catch / finally

type tryGen struct {
	r      *rng
	noText bool // a body fails INSIDE a Go builtin: the text of that error is Go's business, handlers do not print it
}

func (g *tryGen) thrown() MalType {
	switch g.r.intn(8) {
	case 0:
		return g.r.intn(5)
	case 1:
		return "boom"
	case 2:
		return call1("quote", ls(sy("+"), 1, 2)) // code-looking data: must arrive as data
	case 3:
		return call1("list", 1, call1("trace!", 2))
	case 4:
		return HashMap{Val: map[string]MalType{kw("a"): 1}}
	case 5:
		return kw("err")
	case 6:
		return nil
	default:
		return vc(1, 2)
	}
}

// expression that fails (one way or another) or not
func (g *tryGen) body(depth int) MalType {
	r := g.r
	switch r.intn(15) {
	case 13:
		// thrown WHILE a macro is being expanded (by the macro function itself: argument validation); the operand
		// arrives unevaluated, so the thrown value is the operand FORM
		return call1("m-throw", g.thrown())
	case 14:
		return []MalType{call1("cond", false), call1("cond", 1, 2, 3)}[r.intn(2)] // the library's own validation: a string
	case 0, 1:
		return call1("throw", g.thrown())
	case 2:
		return call1("nth", vc(1), 5) // builtin error
	case 3:
		return sy("undefined-sym")
	case 4:
		return call1("f-throw", g.thrown()) // via a called function
	case 5:
		switch r.intn(10) { // via a builtin that calls back into lisp
		case 6, 7:
			// update-in at every depth of its path (1, 2, 3 elements; maps and vectors on the way): the recursion hands
			// the callee's failure up unchanged at every level
			thrower := ls(sy("fn"), vc(sy("x")), call1("throw", g.thrown()))
			switch r.intn(5) {
			case 0:
				return call1("update-in", HashMap{Val: map[string]MalType{kw("a"): 1}}, vc(kw("a")), thrower)
			case 1:
				return call1("update-in", HashMap{Val: map[string]MalType{kw("a"): HashMap{Val: map[string]MalType{kw("b"): 1}}}}, vc(kw("a"), kw("b")), thrower)
			case 2:
				return call1("update-in", HashMap{Val: map[string]MalType{kw("a"): HashMap{Val: map[string]MalType{kw("b"): HashMap{Val: map[string]MalType{kw("c"): 1}}}}}}, vc(kw("a"), kw("b"), kw("c")), thrower)
			case 3:
				return call1("update-in", vc(vc(1, 2), vc(3)), vc(0, 1), thrower)
			default:
				return call1("update-in", vc(vc(vc(7, 8))), vc(0, 0, 1), sy("f-throw")) // (homogeneous path: a vector holding a map is a host panic in this update-in, whose text is not modelled)
			}
		case 8:
			return call1("reduce", ls(sy("fn"), vc(sy("acc"), sy("x")), call1("throw", g.thrown())), 0, vc(1, 2))
		case 9:
			return call1("map", ls(sy("fn"), vc(sy("x")), call1("update-in", HashMap{Val: map[string]MalType{kw("a"): HashMap{Val: map[string]MalType{kw("b"): sy("x")}}}}, vc(kw("a"), kw("b")), sy("f-throw"))), vc(g.thrown()))
		case 0:
			return call1("apply", sy("f-throw"), vc(g.thrown()))
		case 1:
			return call1("swap!", call1("atom", 0), ls(sy("fn"), vc(sy("x")), call1("f-throw", g.thrown())))
		case 2:
			return call1("update", HashMap{Val: map[string]MalType{kw("a"): 1}}, kw("a"), ls(sy("fn"), vc(sy("x")), call1("throw", g.thrown())))
		case 3:
			return call1("map", sy("f-throw"), call1("list", g.thrown()))
		case 4:
			// the update function of a swap! changes the atom itself and THEN throws: the throw is the outcome of the
			// swap!, whatever happened to the atom meanwhile
			return ls(sy("let"), vc(sy("sa"), call1("atom", 0)),
				call1("swap!", sy("sa"), ls(sy("fn"), vc(sy("x")), call1("reset!", sy("sa"), call1("+", sy("x"), 5)), call1("trace!", kw("in-swap")), call1("throw", g.thrown()))))
		}
		return call1("map", ls(sy("fn"), vc(sy("x")), call1("throw", sy("x"))), vc(g.r.intn(3), 9)) // via a builtin callback
	case 11:
		// a failure INSIDE a context-taking builtin (run-time panic, arity, type): an ordinary, catchable error
		g.noText = true
		return []MalType{
			call1("update", vc(1, 2), 7, sy("inc")), call1("update", HashMap{Val: map[string]MalType{kw("a"): 1}}), call1("swap!", 5, sy("inc")),
			call1("deref", 5), call1("update-in", vc(1), vc(9, 9), sy("inc")), call1("apply", sy("+"), 1, 2), call1("map", sy("inc")),
		}[r.intn(7)]
	case 6:
		if r.chance(1, 2) {
			// arity error of a user function: the error value a handler sees (its text included) is part of what the program computes
			return []MalType{ls(sy("f-throw")), ls(sy("f-throw"), 1, 2), ls(ls(sy("fn"), vc(sy("a"), sy("b")), sy("a")), 1)}[r.intn(3)]
		}
		g.noText = true           // the text of reflect's panic is Go's business: handlers of this program do not print it
		return call1("+", 1, "s") // type error (reflect panic recovered)
	case 7, 8:
		return call1("trace!", r.intn(9))
	case 9:
		if depth > 0 {
			return g.tryForm(depth - 1)
		}
		return r.intn(5)
	case 10:
		return call1("cond", false, 1, true, call1("throw", g.thrown())) // via macro expansion
	default:
		return r.intn(5)
	}
}

func (g *tryGen) handler(depth int) []MalType {
	r := g.r
	var out []MalType
	for i, n := 0, r.intn(2); i < n; i++ {
		out = append(out, call1("trace!", r.intn(9)))
	}
	switch r.intn(11) {
	case 0:
		out = append(out, sy("e"))
	case 1:
		out = append(out, call1("trace!", sy("e")))
	case 2:
		out = append(out, call1("quote", ls(sy("+"), 1, 2))) // handler value that looks like code
	case 3:
		out = append(out, call1("list", sy("e"), sy("e")))
	case 4:
		out = append(out, call1("throw", call1("list", kw("rethrown"), sy("e"))))
	case 5:
		if depth > 0 {
			out = append(out, g.tryForm(depth-1))
		} else {
			out = append(out, 0)
		}
	case 6:
		out = append(out, call1("quote", sy("e"))) // the symbol e as a value: must not be looked up again
	case 9, 10:
		if g.noText {
			out = append(out, call1("list", sy("e"), call1("nil?", sy("e"))))
			break
		}
		out = append(out, call1("str", sy("e"))) // the TEXT of the caught error / value is part of what the program computes
	case 7:
		out = append(out, call1("list", call1("quote", sy("trace!")), 7)) // (trace! 7) as data
	default:
		out = append(out, r.intn(5))
	}
	return out
}

func (g *tryGen) tryForm(depth int) MalType {
	r := g.r
	forms := []MalType{sy("try")}
	for i, n := 0, 1+r.intn(2); i < n; i++ {
		forms = append(forms, g.body(depth))
	}
	if r.chance(4, 5) {
		forms = append(forms, List{Val: append([]MalType{sy("catch"), sy("e")}, g.handler(depth)...)})
	}
	if r.chance(1, 2) {
		fin := []MalType{sy("finally")}
		switch r.intn(4) {
		case 0:
			fin = append(fin, call1("trace!", kw("fin")))
		case 1:
			fin = append(fin, call1("trace!", kw("fin")), call1("throw", "from-finally")) // must not change the outcome
		case 2:
			fin = append(fin, call1("trace!", sy("e"))) // the catch variable is not visible here
		default:
			fin = append(fin, call1("trace!", kw("a")), call1("trace!", kw("b")))
		}
		forms = append(forms, List{Val: fin})
	}
	return List{Val: forms}
}

func (g *tryGen) program() MalType {
	r := g.r
	forms := []MalType{sy("do"),
		ls(sy("def"), sy("f-throw"), ls(sy("fn"), vc(sy("v")), call1("trace!", kw("in-f")), call1("throw", sy("v")))),
		ls(sy("def"), sy("e"), kw("outer-e")),
		ls(sy("defmacro"), sy("m-throw"), ls(sy("fn"), vc(sy("form")), call1("trace!", kw("expanding")), call1("throw", sy("form")))),
	}
	t := g.tryForm(3)
	switch r.intn(5) {
	case 0:
		forms = append(forms, call1("list", t, call1("trace!", kw("after")), sy("e")))
	case 1:
		forms = append(forms, ls(sy("let"), vc(sy("r"), t), call1("list", sy("r"), sy("e"))))
	case 2:
		forms = append(forms, ls(ls(sy("fn"), vc(sy("e")), t), kw("param-e")))
	default:
		forms = append(forms, t)
	}
	return List{Val: forms}
}

// ---------------------------------------------------------------- C04: malformed forms

var operandKinds = []MalType{
	nil, 1, "s", sy("a"), sy("zz"), kw("k"), List{}, ls(1, 2), call1("quote", sy("x")), vc(sy("a"), 1), Vector{},
	HashMap{Val: map[string]MalType{}}, sy("&"), ls(sy("catch")), ls(sy("catch"), sy("e")), ls(sy("catch"), sy("e"), 1),
	ls(sy("catch"), 5, 1), ls(sy("finally")), ls(sy("unquote")), ls(sy("splice-unquote")), ls(ls(sy("splice-unquote"))),
	HashMap{Val: map[string]MalType{"ʞa": ls(sy("unquote"))}}, vc(HashMap{Val: map[string]MalType{"ʞa": ls(sy("splice-unquote"))}}),
	HashMap{Val: map[string]MalType{"ʞa": vc(ls(sy("unquote")), ls(sy("unquote"), 1, 2))}},
	ls(sy("fn")), ls(sy("fn"), vc(sy("x")), sy("x")), ls(sy("fn"), ls(1), 2), ls(sy("fn"), ls(sy("&")), 2), ls(sy("fn"), ls(sy("a"), sy("&"), 1), 2),
	true, ls(sy("throw"), 1), Set{Val: map[string]struct{}{}},
	vc(sy("catch"), sy("e"), 1), vc(sy("finally"), 2), vc(sy("unquote"), 1), vc(sy("splice-unquote"), vc(1)), vc(sy("fn"), vc(), 1), vc(sy("quote"), 1),
}

var malformedHeads = []MalType{
	sy("def"), sy("let"), sy("quote"), sy("quasiquoteexpand"), sy("quasiquote"), sy("defmacro"), sy("macroexpand"), sy("try"), sy("do"),
	sy("if"), sy("fn"), sy("catch"), sy("finally"), sy("unquote"), sy("splice-unquote"),
	sy("+"), sy("nth"), sy("apply"), sy("map"), sy("swap!"), sy("reset!"), sy("deref"), sy("eval"), sy("conj"), sy("assoc"), sy("subvec"),
	sy("get"), sy("update"), sy("update-in"), sy("throw"), sy("symbol"), sy("count"), sy("cons"), sy("concat"), sy("first"), sy("atom"),
	sy("cond"), sy("->"), sy("or"), sy("and"), sy("not"), sy("reduce"),
	1, "s", nil, ls(sy("fn"), ls(1), 2), ls(sy("fn"), ls(sy("&")), 2), ls(sy("fn"), ls(sy("a"), sy("&")), 2), ls(sy("fn"), 1, 2),
	ls(sy("fn"), nil, 2), ls(sy("fn"), vc(sy("a"), sy("&"), sy("b"), sy("c")), sy("b")), kw("k"), vc(1), sy("zz"),
}

// parameter lists the binder must refuse (or accept) without panicking
var badParams = []MalType{
	vc(sy("&"), 5), vc(sy("a"), sy("&"), "rest"), vc(sy("a"), sy("&"), vc(sy("b"), sy("c"))), vc(sy("&")), vc(sy("&"), sy("&")),
	vc(1), vc("s"), vc(vc(sy("a"))), vc(sy("a"), sy("&"), sy("b"), sy("c")), vc(sy("&"), sy("a"), sy("b")), vc(kw("k")), vc(nil),
	vc(sy("a"), sy("a")), vc(sy("&"), nil), vc(sy("&"), kw("k")), vc(sy("a"), 1), vc(sy("a"), sy("&"), nil), ls(sy("&"), 5),
	ls(sy("a"), sy("&"), ls(sy("b"))), vc(sy("a"), sy("&"), sy("&")), vc(sy("a"), sy("b"), sy("&"), 7),
	vc(sy("&"), HashMap{Val: map[string]MalType{}}), vc(sy("&"), ls()), vc(true), vc(sy("a"), sy("&"), sy("r")),
	// well-formed lists: with 0‥3 arguments most calls are arity errors (also of functions WITHOUT a body, see badParamCalls)
	vc(sy("a")), vc(), vc(sy("a"), sy("b")), ls(sy("a")), ls(),
}

func badParamCalls(p MalType, args []MalType) []MalType {
	f := ls(sy("fn"), p, 1)
	fr := ls(sy("fn"), p, sy("a"))
	call := func(h MalType) MalType { return List{Val: append([]MalType{h}, args...)} }
	f0 := ls(sy("fn"), p)       // no body form at all: the stored body is `(do)`
	f2 := ls(sy("fn"), p, 1, 2) // two body forms
	out := []MalType{
		call(f), call(fr), call(f0), call(f2),
		call1("apply", f0, vc(args...)),
		ls(sy("do"), ls(sy("def"), sy("bf0"), f0), call(sy("bf0"))),
		ls(sy("do"), ls(sy("defmacro"), sy("bm0"), f0), call(sy("bm0"))),
		call1("apply", f, vc(args...)),
		ls(sy("let"), vc(sy("g"), f), call(sy("g"))),
		ls(sy("do"), ls(sy("defmacro"), sy("bm"), f), call(sy("bm"))),
		ls(sy("do"), ls(sy("def"), sy("bf"), f), call(sy("bf"))),
		List{Val: append([]MalType{sy("swap!"), call1("atom", 1), f}, args...)},
	}
	if len(args) == 1 {
		out = append(out, call1("map", f, vc(1, 2)), call1("update", HashMap{Val: map[string]MalType{kw("a"): 1}}, kw("a"), f))
	}
	return out
}

func malformedCases(r *rng, n int, tier string, emit func(MalType)) {
	// exhaustive: every head with 0, 1 and 2 operands of every kind
	for _, h := range malformedHeads {
		emit(ls(h))
		for _, a := range operandKinds {
			emit(ls(h, a))
		}
		for _, a := range operandKinds {
			for _, b := range operandKinds {
				emit(ls(h, a, b))
			}
		}
	}
	// sampled: 3 and 4 operands, and malformed forms nested inside well-formed wrappers
	for i := 0; i < n; i++ {
		h := malformedHeads[r.intn(len(malformedHeads))]
		k := 3 + r.intn(2)
		items := []MalType{h}
		for j := 0; j < k; j++ {
			items = append(items, operandKinds[r.intn(len(operandKinds))])
		}
		var f MalType = List{Val: items}
		switch r.intn(6) {
		case 0:
			f = ls(sy("do"), 1, f)
		case 1:
			f = ls(sy("let"), vc(sy("a"), f), sy("a"))
		case 2:
			f = ls(sy("if"), f, 1, 2)
		case 3:
			f = ls(ls(sy("fn"), vc(sy("q")), f), 1)
		case 4:
			f = vc(f)
		}
		emit(f)
	}
}

// ---------------------------------------------------------------- C12: quasiquote templates and macros

type qqGen struct{ r *rng }

func (g *qqGen) unquoted() MalType {
	switch g.r.intn(6) {
	case 0:
		return sy("x")
	case 1:
		return call1("trace!", sy("x"))
	case 2:
		return call1("+", sy("x"), 1)
	case 3:
		return sy("ys")
	case 4:
		return call1("list", sy("x"), sy("x"))
	default:
		return call1("trace!", g.r.intn(9))
	}
}

func (g *qqGen) spliced() MalType {
	switch g.r.intn(5) {
	case 0:
		return sy("ys")
	case 1:
		return call1("trace!", sy("ys"))
	case 2:
		return sy("vs") // a vector
	case 3:
		return call1("list", call1("trace!", 1), 2)
	default:
		return call1("rest", sy("ys"))
	}
}

func (g *qqGen) template(depth int) MalType {
	r := g.r
	if depth <= 0 || r.chance(1, 4) {
		switch r.intn(8) {
		case 0:
			return r.intn(9)
		case 1:
			return sy("sym")
		case 2:
			return "str"
		case 3:
			return kw("k")
		case 4:
			return nil
		case 5:
			return sy("x") // a symbol that is also a variable: stays a symbol
		case 6:
			return HashMap{Val: map[string]MalType{kw("a"): sy("x")}} // maps are literal
		default:
			return call1("unquote", g.unquoted())
		}
	}
	n := r.intn(4)
	items := []MalType{}
	for i := 0; i < n; i++ {
		switch r.intn(12) {
		case 0, 1:
			items = append(items, call1("splice-unquote", g.spliced()))
		case 2, 3:
			items = append(items, call1("unquote", g.unquoted()))
		case 4:
			// VECTORS spelled like unquote forms are literal data (only lists are unquote forms)
			items = append(items, vc(sy(r.pick([]string{"splice-unquote", "unquote"})), sy(r.pick([]string{"ys", "x", "vs"}))))
		case 6:
			// the bare SYMBOLS unquote / splice-unquote / quote at any position are ordinary data (`(a unquote x)`)
			items = append(items, sy(r.pick([]string{"unquote", "splice-unquote", "quote", "quasiquote"})))
			if r.chance(1, 2) {
				items = append(items, sy(r.pick([]string{"x", "ys", "vs"})))
			}
		case 5:
			// unquote forms with missing / surplus operands
			items = append(items, []MalType{ls(sy("unquote")), ls(sy("splice-unquote")), ls(sy("unquote"), sy("x"), 99), ls(sy("splice-unquote"), sy("ys"), 99)}[r.intn(4)])
		default:
			items = append(items, g.template(depth-1))
		}
	}
	if r.chance(1, 3) {
		return Vector{Val: items}
	}
	if r.chance(1, 12) {
		return call1("unquote", g.unquoted())
	}
	return List{Val: items}
}

func (g *qqGen) program() MalType {
	t := g.template(3)
	return ls(sy("let"), vc(sy("x"), 7, sy("ys"), call1("list", 1, 2), sy("vs"), vc(3, 4)), call1("quasiquote", t))
}

// macro programs: top-level defs + a call; the harness also evaluates the macroexpand route
func (g *qqGen) macroProgram() (defs []MalType, callForm MalType) {
	r := g.r
	defs = []MalType{
		ls(sy("def"), sy("x"), 7), ls(sy("def"), sy("ys"), call1("list", 1, 2)), ls(sy("def"), sy("vs"), vc(3, 4)),
		ls(sy("def"), sy("f1"), ls(sy("fn"), vc(sy("a")), call1("trace!", call1("+", sy("a"), 1)))),
	}
	switch r.intn(16) {
	case 14, 15:
		// an expansion that depends on state read AT EXPANSION TIME (an atom), from ONE call site inside a function that is
		// called several times with the state changed in between: every evaluation of the call expands afresh, and the
		// expander's own effect (a counter) happens once per evaluation
		defs = append(defs, ls(sy("def"), sy("lvl"), call1("atom", 1+r.intn(3))), ls(sy("def"), sy("runs"), call1("atom", 0)),
			ls(sy("defmacro"), sy("m"), ls(sy("fn"), vc(sy("a")), call1("swap!", sy("runs"), sy("inc")),
				call1("list", call1("quote", sy("*")), sy("a"), call1("deref", sy("lvl"))))),
			ls(sy("def"), sy("g"), ls(sy("fn"), vc(sy("v")), ls(sy("m"), sy("v")))))
		callForm = call1("list", ls(sy("g"), 10), ls(sy("do"), call1("reset!", sy("lvl"), 5+r.intn(3)), ls(sy("g"), 10)),
			ls(sy("do"), call1("swap!", sy("lvl"), sy("inc")), ls(sy("g"), 10)), ls(sy("m"), 2), call1("deref", sy("runs")))
	case 9: // expansion is a VECTOR literal with non-constant elements: it still has to be evaluated
		defs = append(defs, ls(sy("defmacro"), sy("m"), ls(sy("fn"), vc(sy("a"), sy("b")),
			call1("quasiquote", vc(call1("unquote", sy("a")), call1("unquote", sy("b")), sy("x"))))))
		callForm = ls(sy("m"), call1("trace!", call1("+", sy("x"), 1)), sy("x"))
	case 10: // expansion is a MAP literal / a symbol / a constant
		defs = append(defs, ls(sy("defmacro"), sy("m"), ls(sy("fn"), vc(sy("a")),
			[]MalType{HashMap{Val: map[string]MalType{kw("v"): sy("a")}}, sy("a"), call1("quasiquote", sy("ys")), 42}[r.intn(4)])))
		callForm = ls(sy("m"), []MalType{call1("trace!", call1("+", sy("x"), 1)), sy("x"), sy("ys")}[r.intn(3)])
	case 11: // the macro's own argument evaluated or not: expands to (list 'a a)
		defs = append(defs, ls(sy("defmacro"), sy("m"), ls(sy("fn"), vc(sy("a")),
			call1("list", call1("quote", sy("list")), call1("list", call1("quote", sy("quote")), sy("a")), sy("a")))))
		callForm = ls(sy("m"), call1("trace!", sy("x")))
	case 7: // an expander with a side effect that then fails (or not): the effect must happen once
		defs = append(defs, ls(sy("defmacro"), sy("m"), ls(sy("fn"), vc(sy("a")),
			call1("trace!", kw("expanding")), ls(sy("if"), sy("a"), call1("throw", "bad macro argument"), call1("quasiquote", ls(sy("f1"), 1))))))
		callForm = ls(sy("try"), ls(sy("m"), r.chance(2, 3)), ls(sy("catch"), sy("e"), call1("trace!", kw("caught")), sy("e")))
	case 8: // a macro whose expander counts its own invocations in an atom
		defs = append(defs, ls(sy("def"), sy("cnt"), call1("atom", 0)),
			ls(sy("defmacro"), sy("m"), ls(sy("fn"), vc(sy("a")), call1("swap!", sy("cnt"), sy("inc")),
				ls(sy("if"), call1("=", sy("a"), 0), call1("throw", kw("zero")), sy("a")))))
		callForm = ls(sy("list"), ls(sy("try"), ls(sy("m"), r.intn(2)), ls(sy("catch"), sy("e"), sy("e"))), call1("deref", sy("cnt")))
	case 0: // (unless c a b)
		defs = append(defs, ls(sy("defmacro"), sy("m"), ls(sy("fn"), vc(sy("c"), sy("a"), sy("b")),
			call1("quasiquote", ls(sy("if"), call1("unquote", sy("c")), call1("unquote", sy("b")), call1("unquote", sy("a")))))))
		callForm = ls(sy("m"), r.chance(1, 2), call1("trace!", 1), call1("trace!", 2))
	case 1: // operands arrive unevaluated: the macro returns them quoted
		defs = append(defs, ls(sy("defmacro"), sy("m"), ls(sy("fn"), vc(sy("&"), sy("xs")),
			call1("quasiquote", ls(sy("quote"), call1("unquote", sy("xs")))))))
		callForm = ls(sy("m"), call1("trace!", 1), sy("undefined-sym"), ls(1, 2))
		if r.chance(1, 3) {
			callForm = ls(sy("m")) // no operand at all: xs is ()
		}
	case 2: // recursive macro
		defs = append(defs, ls(sy("defmacro"), sy("m"), ls(sy("fn"), vc(sy("n"), sy("acc")),
			ls(sy("if"), call1("<", sy("n"), 1), sy("acc"),
				call1("quasiquote", ls(sy("m"), call1("unquote", call1("-", sy("n"), 1)), ls(sy("f1"), call1("unquote", sy("acc")))))))))
		callForm = ls(sy("m"), r.intn(4), r.intn(5))
	case 3: // macro expanding to another macro (library cond / or / and / ->)
		defs = append(defs, ls(sy("defmacro"), sy("m"), ls(sy("fn"), vc(sy("a"), sy("b")),
			call1("quasiquote", ls(sy(r.pick([]string{"or", "and"})), call1("unquote", sy("a")), call1("unquote", sy("b")))))))
		callForm = ls(sy("m"), call1("trace!", []MalType{nil, false, 1}[r.intn(3)]), call1("trace!", 2))
	case 4: // template with splice
		defs = append(defs, ls(sy("defmacro"), sy("m"), ls(sy("fn"), vc(sy("f"), sy("&"), sy("args")),
			call1("quasiquote", ls(call1("unquote", sy("f")), call1("splice-unquote", sy("args")), call1("splice-unquote", sy("args")))))))
		callForm = ls(sy("m"), sy("list"), call1("trace!", 1), sy("x"))
	case 12: // a macro whose expansion is, at head position, a call of a DIFFERENT macro (other arity)
		defs = append(defs,
			ls(sy("defmacro"), sy("inner"), ls(sy("fn"), vc(sy("a"), sy("b"), sy("c")),
				call1("quasiquote", ls(sy("list"), call1("unquote", sy("c")), call1("unquote", sy("b")), call1("unquote", sy("a")))))),
			ls(sy("defmacro"), sy("m"), ls(sy("fn"), vc(sy("a"), sy("b")),
				call1("quasiquote", ls(sy("inner"), call1("unquote", sy("a")), call1("unquote", sy("b")), 0)))))
		callForm = ls(sy("m"), call1("trace!", 1), call1("trace!", 4))
	case 13: // a macro whose NAME is that of a special form: the macro test comes first, for the call and for macroexpand alike
		name := r.pick([]string{"let", "try", "if", "def", "fn"})
		defs = append(defs, ls(sy("defmacro"), sy(name), ls(sy("fn"), vc(sy("a"), sy("b")),
			call1("quasiquote", ls(sy("list"), kw(name), call1("unquote", sy("b")))))))
		callForm = ls(sy(name), vc(sy("x"), 1), call1("trace!", 2))
	case 5: // an ordinary function is unaffected
		defs = append(defs, ls(sy("def"), sy("m"), ls(sy("fn"), vc(sy("a"), sy("b")), call1("list", sy("a"), sy("b")))))
		callForm = ls(sy("m"), call1("trace!", 1), call1("trace!", 2))
	default: // library macros
		callForm = []MalType{
			ls(sy("->"), call1("trace!", 1), ls(sy("+"), 2), ls(sy("list"), 3)),
			ls(sy("->>"), call1("trace!", 1), ls(sy("-"), 5), ls(sy("list"), 3)),
			ls(sy("cond"), call1("trace!", false), 1, call1("trace!", true), 2),
			ls(sy("or"), call1("trace!", nil), call1("trace!", 3), call1("trace!", 4)),
			ls(sy("and"), call1("trace!", 1), call1("trace!", nil), call1("trace!", 4)),
			// operands that are vector / map LITERALS with effects inside: evaluated exactly once
			ls(sy("or"), vc(call1("trace!", 1)), call1("trace!", 2)),
			ls(sy("or"), false, nil, HashMap{Val: map[string]MalType{kw("k"): call1("trace!", 1)}}, 9),
			ls(sy("and"), vc(call1("trace!", 1), call1("trace!", 2)), HashMap{Val: map[string]MalType{kw("k"): call1("trace!", 3)}}),
			ls(sy("cond"), vc(call1("trace!", 1)), vc(call1("trace!", 2)), true, 3),
			ls(sy("->"), vc(call1("trace!", 1)), ls(sy("conj"), call1("trace!", 2)), sy("count")),
			ls(sy("->>"), vc(call1("trace!", 1)), ls(sy("cons"), call1("trace!", 2)), sy("first")),
			// macros nested in macros, of different kinds
			ls(sy("or"), ls(sy("and"), call1("trace!", 1), call1("trace!", 2))),
			ls(sy("->"), nil, ls(sy("or"), call1("trace!", 7))),
			ls(sy("and"), ls(sy("or"), nil, call1("trace!", 1)), ls(sy("cond"), false, 1, true, call1("trace!", 2))),
		}[r.intn(14)]
	}
	// the macro flag lives on the VALUE, not on the name: the same call through another binding of the macro
	// (def alias, let alias, function parameter), or with the macro's name shadowed by a local function
	if cl, ok := callForm.(List); ok && len(cl.Val) > 0 && r.chance(1, 4) {
		if h, ok := cl.Val[0].(Symbol); ok && h.Val != "try" && h.Val != "list" {
			args := cl.Val[1:]
			via := func(name string) MalType { return List{Val: append([]MalType{sy(name)}, args...)} }
			// (each route has a name of its own, never bound any other way in the whole run: an evaluator that keeps
			// process-wide notes about names must not be helped by an earlier case)
			switch r.intn(6) {
			case 0:
				defs = append(defs, ls(sy("def"), sy("m2"), h))
				callForm = via("m2")
			case 1:
				callForm = ls(sy("let"), vc(sy("mm"), h), via("mm"))
			case 2:
				callForm = ls(ls(sy("fn"), vc(sy("pm")), via("pm")), h)
			case 3: // rest parameter holding the macro; called through (first …) is a function call of a macro VALUE, so bind it by destructuring-free means: second fixed parameter
				callForm = ls(ls(sy("fn"), vc(sy("ig"), sy("pm2")), via("pm2")), 0, h)
			case 4: // the catch variable
				callForm = ls(sy("try"), ls(sy("throw"), h), ls(sy("catch"), sy("cm"), via("cm")))
			default:
				callForm = ls(sy("let"), vc(h, ls(sy("fn"), vc(sy("&"), sy("xs")), call1("count", sy("xs")))), via(h.Val))
			}
		}
	}
	return
}

// ---------------------------------------------------------------- C13: collection builtins

var collBuiltins = []struct {
	name  string
	arity []int
}{
	{"list", []int{0, 1, 3}}, {"vector", []int{0, 2}}, {"cons", []int{2}}, {"concat", []int{0, 1, 2, 3}}, {"vec", []int{1}}, {"nth", []int{2}},
	{"first", []int{1}}, {"rest", []int{1}}, {"count", []int{1}}, {"empty?", []int{1}}, {"conj", []int{2, 3}}, {"seq", []int{1}},
	{"take", []int{2}}, {"take-last", []int{2}}, {"drop", []int{2}}, {"drop-last", []int{2}}, {"subvec", []int{2, 3}}, {"range", []int{2}},
	{"hash-map", []int{0, 2, 4, 3}}, {"assoc", []int{3, 5, 2}}, {"dissoc", []int{2, 3}}, {"get", []int{2}}, {"contains?", []int{2}}, {"keys", []int{1}},
	{"vals", []int{1}}, {"merge", []int{2}}, {"rename-keys", []int{2}}, {"get-in", []int{2}}, {"assoc-in", []int{3}}, {"set", []int{1}},
	{"hash-set", []int{0, 2}}, {"list?", []int{1}}, {"vector?", []int{1}}, {"map?", []int{1}}, {"set?", []int{1}}, {"sequential?", []int{1}},
	{"nil?", []int{1}}, {"number?", []int{1}}, {"string?", []int{1}}, {"keyword?", []int{1}}, {"symbol?", []int{1}}, {"=", []int{2}},
}

func collArg(r *rng, depth int) MalType {
	switch r.intn(16) {
	case 0:
		return nil
	case 1:
		return List{}
	case 2:
		return Vector{}
	case 3:
		return r.intn(7) - 2
	case 4:
		return []MalType{kw("a"), kw("b"), "k", kw("c")}[r.intn(4)]
	case 5:
		return vc(1, 2, 3)
	case 6:
		return ls(4, 5)
	case 7:
		return vc(kw("a"))
	case 8:
		return HashMap{Val: map[string]MalType{kw("a"): 1, "k": nil}}
	case 9:
		return HashMap{Val: map[string]MalType{kw("a"): HashMap{Val: map[string]MalType{kw("b"): vc(1, 2)}}}}
	case 10:
		return Set{Val: map[string]struct{}{kw("a"): {}, "k": {}}}
	case 11:
		return vc(kw("a"), kw("b"))
	case 12:
		return vc(vc(1, 2), vc(3))
	case 13:
		return HashMap{Val: map[string]MalType{kw("a"): kw("b")}}
	default:
		if depth > 0 {
			return genData(r, 2)
		}
		return 1
	}
}

// builtins whose result exposes the iteration order of a Go map: they only get collections with at
// most one entry, as literals (Go's order is arbitrary; the model cannot and need not predict it)
var orderExposing = map[string]bool{"keys": true, "vals": true, "seq": true, "vec": true, "rename-keys": true}

func collArgSmall(r *rng) MalType {
	switch r.intn(10) {
	case 0:
		return nil
	case 1:
		return HashMap{Val: map[string]MalType{kw("a"): 1}}
	case 2:
		return HashMap{Val: map[string]MalType{}}
	case 3:
		return Set{Val: map[string]struct{}{kw("a"): {}}}
	case 4:
		return Set{Val: map[string]struct{}{}}
	case 5:
		return vc(1, 2, 3)
	case 6:
		return ls(4, 5)
	case 7:
		return r.pick([]string{"abc", "año", "a€", "ʞ", "", "日本"})
	case 8:
		return HashMap{Val: map[string]MalType{kw("a"): kw("b")}}
	default:
		return r.intn(5)
	}
}

// rename-keys with an injective renaming whose targets never collide with a key that stays: the
// result is then independent of Go's map iteration order, so multi-entry maps, swaps, cycles and
// chains can be compared
func renameKeysCase(r *rng) MalType {
	keys := []string{kw("a"), kw("b"), kw("c"), "k"}
	n := 2 + r.intn(3)
	data := map[string]MalType{}
	for i := 0; i < n; i++ {
		data[keys[i]] = i + 1
	}
	present := keys[:n]
	// a permutation of a subset of the present keys (swap / cycle / chain closing on itself), plus renames to fresh keys
	perm := append([]string{}, present...)
	for i := len(perm) - 1; i > 0; i-- {
		j := r.intn(i + 1)
		perm[i], perm[j] = perm[j], perm[i]
	}
	ren := map[string]MalType{}
	m := r.intn(n + 1)
	if m >= 2 {
		sub := perm[:m]
		for i, k := range sub {
			ren[k] = sub[(i+1)%m] // cycle over `sub`
		}
	} else if m == 1 {
		ren[perm[0]] = kw("fresh")
	}
	if r.chance(1, 3) {
		ren[kw("absent")] = kw("zz") // renaming of a key that is not there
	}
	return call1("rename-keys", call1("quote", HashMap{Val: data}), call1("quote", HashMap{Val: ren}))
}

// argument kinds of the documented domains: most generated calls are in-domain (so that results, not
// error handling, dominate), a fifth keeps random arguments (the out-of-domain stream)
var collDomains = map[string][]string{
	"cons": {"X", "S"}, "concat": {"S", "S", "S"}, "vec": {"S"}, "nth": {"S", "I"}, "first": {"S"}, "rest": {"S"}, "count": {"C"},
	"empty?": {"C"}, "conj": {"C", "X", "X"}, "seq": {"S"}, "take": {"I", "S"}, "take-last": {"I", "S"}, "drop": {"I", "S"},
	"drop-last": {"I", "S"}, "subvec": {"V", "I", "I"}, "range": {"I", "I"}, "hash-map": {"K", "X", "K", "X"}, "assoc": {"M", "K", "X", "K", "X"},
	"dissoc": {"M", "K", "K"}, "get": {"M", "K"}, "contains?": {"M", "K"}, "merge": {"M", "M"}, "get-in": {"M", "P"},
	"assoc-in": {"M", "P", "X"}, "set": {"S"}, "hash-set": {"K", "K"}, "=": {"X", "X"},
}

func collTyped(r *rng, kind string) MalType {
	seqs := []MalType{vc(1, 2, 3), ls(4, 5), Vector{}, List{}, vc(kw("a"), kw("b")), vc(vc(1, 2), vc(3)), ls(nil, 1), nil, vc(7)}
	maps := []MalType{HashMap{Val: map[string]MalType{kw("a"): 1, "k": nil}}, HashMap{Val: map[string]MalType{}},
		HashMap{Val: map[string]MalType{kw("a"): HashMap{Val: map[string]MalType{kw("b"): vc(1, 2)}}}}, HashMap{Val: map[string]MalType{kw("a"): kw("b"), kw("c"): 3}}, nil}
	switch kind {
	case "S":
		return seqs[r.intn(len(seqs))]
	case "V":
		return []MalType{vc(1, 2, 3), Vector{}, vc(1, 2, 3, 4, 5), vc(kw("a"))}[r.intn(4)]
	case "M":
		return maps[r.intn(len(maps))]
	case "C":
		if r.chance(1, 2) {
			return seqs[r.intn(len(seqs))]
		}
		if r.chance(1, 3) {
			return Set{Val: map[string]struct{}{kw("a"): {}, "k": {}}}
		}
		return maps[r.intn(len(maps))]
	case "K":
		return []MalType{kw("a"), kw("b"), "k", kw("c"), kw("z")}[r.intn(5)]
	case "I":
		return r.intn(6) - 1
	case "P":
		return []MalType{vc(kw("a")), vc(kw("a"), kw("b")), vc(kw("a"), kw("b"), 0), Vector{}, vc(kw("z"), kw("y"))}[r.intn(5)]
	}
	return collArg(r, 1)
}

// several keys in one call, drawn from the map's OWN keys (all present, some present, repeated): dissoc / assoc /
// hash-map / hash-set / merge / get-in over maps of 2‥4 entries
func multiKeyCase(r *rng) MalType {
	keys := []MalType{kw("a"), kw("b"), kw("c"), "k", kw("d")}
	n := 2 + r.intn(3)
	m := map[string]MalType{}
	var own []MalType
	for i := 0; i < n; i++ {
		k := keys[i]
		m[k.(string)] = i + 1
		own = append(own, k)
	}
	pickOwn := func() MalType { return own[r.intn(len(own))] }
	q := func(v MalType) MalType { return call1("quote", v) }
	hm := q(HashMap{Val: m})
	switch r.intn(9) {
	case 7, 8:
		// assoc on a VECTOR with several index / value pairs; every other time the last index has no value (an error,
		// never a silently dropped pair)
		v := q(vc(1, 2, 3))
		args := []MalType{v, r.intn(3), kw("a"), r.intn(3), kw("b")}
		if r.chance(1, 3) {
			args = append(args, r.intn(3), kw("c"))
		}
		if r.chance(1, 2) {
			args = args[:len(args)-1]
		}
		return call1("assoc", args...)
	case 0:
		return call1("dissoc", hm, pickOwn(), pickOwn())
	case 1:
		return call1("dissoc", hm, pickOwn(), kw("zz"), pickOwn(), pickOwn())
	case 2:
		return call1("assoc", hm, pickOwn(), 10, pickOwn(), 20, kw("new"), 30)
	case 3:
		return call1("hash-map", pickOwn(), 1, pickOwn(), 2, pickOwn(), 3)
	case 4:
		return call1("hash-set", pickOwn(), pickOwn(), pickOwn())
	case 5:
		m2 := map[string]MalType{pickOwn().(string): 99, "ʞnew": 7}
		if r.chance(1, 2) {
			return call1("merge", q(HashMap{Val: m2}), hm) // the second map is the bigger one and wins on shared keys
		}
		return call1("merge", hm, q(HashMap{Val: m2}))
	default:
		return call1("count", call1("dissoc", call1("assoc", hm, kw("x"), 1, kw("y"), 2), kw("x"), pickOwn(), kw("y")))
	}
}

// map / apply with a function that KEEPS what it was handed: a closure with a rest parameter returns, wraps or
// captures its rest list, one per call (each call of the mapped function has arguments of its own)
func restKeepingCase(r *rng) MalType {
	seq := []MalType{vc(1, 2, 3), call1("list", 4, 5), vc(kw("a"), kw("b"), kw("c"), kw("d")), call1("range", 0, 4), vc(7)}[r.intn(5)]
	if _, isVec := seq.(Vector); isVec {
		seq = call1("quote", seq)
	}
	f := []MalType{
		ls(sy("fn"), vc(sy("&"), sy("xs")), sy("xs")),
		ls(sy("fn"), vc(sy("&"), sy("xs")), call1("vec", sy("xs"))),
		ls(sy("fn"), vc(sy("a"), sy("&"), sy("more")), call1("cons", sy("a"), sy("more"))),
		ls(sy("fn"), vc(sy("&"), sy("xs")), call1("count", sy("xs"))),
		ls(sy("fn"), vc(sy("&"), sy("xs")), ls(sy("fn"), vc(), sy("xs"))),
	}[r.intn(5)]
	switch r.intn(4) {
	case 0:
		return call1("apply", f, seq)
	case 1: // the closures made per element are called afterwards
		return call1("map", ls(sy("fn"), vc(sy("g")), ls(sy("if"), call1("fn?", sy("g")), ls(sy("g")), sy("g"))), call1("map", f, seq))
	default:
		return call1("map", f, seq)
	}
}

func collCall(r *rng, depth int) MalType {
	if r.chance(1, 25) {
		return renameKeysCase(r)
	}
	if r.chance(1, 30) {
		return restKeepingCase(r)
	}
	if r.chance(1, 20) {
		return multiKeyCase(r)
	}
	if r.chance(3, 5) {
		names := make([]string, 0, len(collDomains))
		for _, b := range collBuiltins {
			if _, ok := collDomains[b.name]; ok {
				names = append(names, b.name)
			}
		}
		name := names[r.intn(len(names))]
		dom := collDomains[name]
		n := len(dom)
		if name == "concat" || name == "conj" || name == "hash-map" || name == "assoc" || name == "dissoc" || name == "hash-set" || name == "subvec" {
			switch name {
			case "hash-map":
				n = 2 * r.intn(3)
			case "assoc":
				n = 3 + 2*r.intn(2)
			case "subvec", "conj", "dissoc":
				n = 2 + r.intn(2)
			default:
				n = r.intn(4)
			}
		}
		items := []MalType{sy(name)}
		for i := 0; i < n && i < len(dom); i++ {
			if depth > 0 && r.chance(1, 5) && dom[i] != "I" && dom[i] != "K" && dom[i] != "P" && !orderExposing[name] {
				items = append(items, collCall(r, depth-1))
			} else {
				items = append(items, call1("quote", collTyped(r, dom[i])))
			}
		}
		return List{Val: items}
	}
	b := collBuiltins[r.intn(len(collBuiltins))]
	n := b.arity[r.intn(len(b.arity))]
	if r.chance(1, 8) {
		n = r.intn(6) // any count: a dangling index / key, a missing or surplus argument is an error, never a silent drop
	}
	items := []MalType{sy(b.name)}
	if orderExposing[b.name] {
		for i := 0; i < n; i++ {
			items = append(items, call1("quote", collArgSmall(r)))
		}
		return List{Val: items}
	}
	for i := 0; i < n; i++ {
		if depth > 0 && r.chance(1, 4) {
			items = append(items, collCall(r, depth-1)) // composition
		} else {
			a := collArg(r, 1)
			if v, isInt := a.(int); isInt && (v > 1000 || v < -1000) && b.name == "range" {
				a = v % 50 // (range -2 9223372036854775807) is a question of memory and patience, not of meaning
			}
			items = append(items, call1("quote", a))
		}
	}
	return List{Val: items}
}

// callback builtins of the collection family
func collCallback(r *rng) MalType {
	switch r.intn(5) {
	case 0:
		return call1("map", ls(sy("fn"), vc(sy("x")), call1("list", sy("x"), sy("x"))), call1("quote", collArg(r, 1)))
	case 1:
		return call1("apply", sy(r.pick([]string{"list", "vector", "+", "concat", "conj"})), call1("quote", collArg(r, 1)), call1("quote", collArg(r, 1)))
	case 2:
		return call1("update", call1("quote", collArg(r, 1)), call1("quote", collArg(r, 0)), ls(sy("fn"), vc(sy("x")), call1("list", sy("x"))))
	case 3:
		return call1("update-in", call1("quote", collArg(r, 1)), call1("quote", vc(collArg(r, 0), collArg(r, 0))), ls(sy("fn"), vc(sy("x")), 42))
	default:
		return call1("map", sy("first"), call1("quote", vc(vc(1), nil, ls(2, 3))))
	}
}

// ---------------------------------------------------------------- C08: tail-position shapes

type tailGen struct{ r *rng }

// wrap puts `e` in a tail position of a construct of the property
func (g *tailGen) wrap(e MalType, depth int) MalType {
	if depth <= 0 {
		return e
	}
	inner := g.wrap(e, depth-1)
	switch g.r.intn(14) {
	case 13:
		// tests spelled with not
		if g.r.chance(1, 2) {
			return ls(sy("if"), call1("not", false), inner, 0)
		}
		return ls(sy("if"), call1("not", call1("<", 0, 1)), 0, inner)
	case 9:
		// one-armed `if`: the then-branch is a tail position too
		return ls(sy("if"), []MalType{true, 1, call1("<", 0, 1), kw("k")}[g.r.intn(4)], inner)
	case 10:
		// single-form do / body-only let / one-clause cond / single-operand and, or
		switch g.r.intn(5) {
		case 0:
			return ls(sy("do"), inner)
		case 1:
			return ls(sy("let"), vc(), inner)
		case 2:
			return ls(sy("cond"), true, inner)
		case 3:
			return ls(sy("and"), inner)
		default:
			return ls(sy("or"), inner)
		}
	case 12:
		// the operator of the tail call is itself an expression yielding the closure
		if l, ok := e.(List); ok && len(l.Val) == 2 && depth == 1 && g.r.chance(1, 2) {
			if h, ok := l.Val[0].(Symbol); ok {
				// the call form is BUILT by a threading macro: (-> arg h), (->> arg (h))
				if g.r.chance(1, 2) {
					return ls(sy("->"), l.Val[1], h)
				}
				return ls(sy("->>"), l.Val[1], ls(h))
			}
		}
		if l, ok := e.(List); ok && len(l.Val) > 0 && depth == 1 {
			if h, ok := l.Val[0].(Symbol); ok {
				op := []MalType{
					ls(sy("if"), true, h, h), ls(sy("do"), h), call1("first", call1("list", h)),
					call1("get", HashMap{Val: map[string]MalType{kw("f"): h}}, kw("f")), call1("deref", call1("atom", h)),
				}[g.r.intn(5)]
				return List{Val: append([]MalType{op}, l.Val[1:]...)}
			}
		}
		return inner
	case 11:
		// closures of every parameter shape, applied in tail position
		switch g.r.intn(3) {
		case 0:
			return ls(ls(sy("fn"), vc(sy("p"), sy("q")), inner), 1, 2)
		case 1:
			return ls(ls(sy("fn"), vc(sy("p"), sy("&"), sy("more")), inner), 1)
		default:
			return ls(sy("let"), vc(sy("k"), ls(sy("fn"), vc(), inner)), ls(sy("k")))
		}
	case 0:
		return ls(sy("do"), call1("+", 1, 1), inner)
	case 1:
		// let bodies with one, two or three forms: the LAST one is the tail position
		switch g.r.intn(3) {
		case 0:
			return ls(sy("let"), vc(sy("t"), 1), inner)
		case 1:
			return ls(sy("let"), vc(sy("t"), 1), call1("+", sy("t"), 1), inner)
		default:
			return ls(sy("let"), vc(sy("t"), 1, sy("u"), 2), call1("+", sy("t"), 1), call1("list", sy("u")), inner)
		}
	case 2:
		return ls(sy("if"), true, inner, 0)
	case 3:
		return ls(sy("if"), false, 0, inner)
	case 4:
		return ls(sy("cond"), false, 0, true, inner)
	case 5:
		return ls(sy("and"), true, inner)
	case 6:
		return ls(sy("or"), false, inner)
	case 7:
		if g.r.chance(1, 2) {
			return ls(ls(sy("fn"), vc(), call1("+", 1, 1), inner)) // multi-form fn body: last form is the tail
		}
		if g.r.chance(1, 2) {
			return ls(ls(sy("fn"), vc(sy("&"), sy("more")), inner), 1, 2) // rest-parameter closure
		}
		return ls(ls(sy("fn"), vc(), inner)) // closure application in tail position
	default:
		return ls(sy("quasiquote"), call1("unquote", inner))
	}
}

func (g *tailGen) program(iter int) MalType {
	r := g.r
	k := 1 + r.intn(3) // number of functions in the cycle
	forms := []MalType{sy("do")}
	names := []string{"ta", "tb", "tc"}[:k]
	// how the functions come to be: written as (def name (fn …)), or through a defn-style macro / assembled with list and
	// eval — then the (fn …) form is built at run time (it has no source position) while its body, tail calls included,
	// is text the user wrote
	how := r.intn(4)
	if how == 1 {
		forms = append(forms, ls(sy("defmacro"), sy("defn"), ls(sy("fn"), vc(sy("name"), sy("params"), sy("&"), sy("body")),
			call1("quasiquote", ls(sy("def"), call1("unquote", sy("name")), ls(sy("fn"), call1("unquote", sy("params")), call1("splice-unquote", sy("body"))))))))
	}
	for i, n := range names {
		next := names[(i+1)%k]
		rec := ls(sy(next), call1("-", sy("n"), 1))
		body := ls(sy("do"), call1("depth!"), ls(sy("if"), call1("<", sy("n"), 1), kw("done"), g.wrap(rec, r.intn(4))))
		switch how {
		case 1:
			forms = append(forms, ls(sy("defn"), sy(n), vc(sy("n")), body))
			continue
		case 2:
			forms = append(forms, ls(sy("def"), sy(n), call1("eval", call1("list", call1("quote", sy("fn")), call1("quote", vc(sy("n"))), call1("quote", body)))))
			continue
		}
		forms = append(forms, ls(sy("def"), sy(n), ls(sy("fn"), vc(sy("n")), body)))
	}
	forms = append(forms, ls(sy(names[0]), iter))
	return List{Val: forms}
}

// ---------------------------------------------------------------- C07: programs to be cancelled

type cancelGen struct{ r *rng }

func (g *cancelGen) program() (MalType, bool) {
	r := g.r
	loop := ls(sy("def"), sy("spin"), ls(sy("fn"), vc(sy("n")), call1("trace!", sy("n")), ls(sy("spin"), call1("+", sy("n"), 1))))
	nontail := ls(sy("def"), sy("deep"), ls(sy("fn"), vc(sy("n")), ls(sy("if"), call1("<", sy("n"), 1), 0, call1("+", 1, ls(sy("deep"), call1("-", sy("n"), 1))))))
	macroLoop := ls(sy("def"), sy("mspin"), ls(sy("fn"), vc(sy("n")), ls(sy("cond"), false, 0, true, ls(sy("mspin"), call1("+", sy("n"), 1)))))
	// pure macro recursion: every expansion is again a macro call (no function application in between)
	macroRec := ls(sy("defmacro"), sy("mrec"), ls(sy("fn"), vc(sy("n")), call1("quasiquote", ls(sy("mrec"), call1("unquote", call1("+", sy("n"), 1))))))
	macroRec2 := ls(sy("defmacro"), sy("mping"), ls(sy("fn"), vc(sy("n")), call1("quasiquote", ls(sy("mpong"), call1("unquote", sy("n"))))))
	macroRec3 := ls(sy("defmacro"), sy("mpong"), ls(sy("fn"), vc(sy("n")), call1("quasiquote", ls(sy("mping"), call1("unquote", sy("n"))))))
	forms := []MalType{sy("do"), loop, nontail, macroLoop, macroRec, macroRec2, macroRec3}
	infinite := true
	var e MalType
	switch r.intn(11) {
	case 8:
		e = ls(sy("mrec"), 0)
	case 9:
		e = ls(sy("mping"), 1)
	case 10:
		e = ls(sy("try"), ls(sy("spin"), 0), ls(sy("catch"), sy("e"), ls(sy("mrec"), 0)), ls(sy("finally"), ls(sy("mping"), 0)))
	case 0:
		e = ls(sy("spin"), 0)
	case 1:
		e = ls(sy("mspin"), 0)
	case 2:
		e = ls(sy("deep"), 30+r.intn(40))
		infinite = false
	case 3: // timeout caught, handler loops again
		e = ls(sy("try"), ls(sy("spin"), 0), ls(sy("catch"), sy("e"), call1("trace!", kw("handler")), ls(sy("spin"), 100)))
	case 4: // nested try with finally bodies
		e = ls(sy("try"), ls(sy("try"), ls(sy("spin"), 0), ls(sy("catch"), sy("e"), call1("trace!", kw("h1")), ls(sy("mspin"), 0)), ls(sy("finally"), call1("trace!", kw("f1")), ls(sy("spin"), 5))),
			ls(sy("catch"), sy("e2"), call1("trace!", kw("h2")), 1), ls(sy("finally"), call1("trace!", kw("f2"))))
	case 5:
		e = ls(sy("map"), ls(sy("fn"), vc(sy("x")), ls(sy("deep"), sy("x"))), call1("range", 0, 12))
		infinite = false
	case 6:
		e = ls(sy("try"), ls(sy("deep"), 50), ls(sy("catch"), sy("e"), ls(sy("deep"), 50)), ls(sy("finally"), ls(sy("deep"), 20)))
		infinite = false
	default:
		e = ls(sy("reduce"), sy("+"), 0, call1("range", 0, 15))
		infinite = false
	}
	forms = append(forms, e)
	return List{Val: forms}, infinite
}

func tryDepth(v MalType) int {
	switch t := v.(type) {
	case List:
		d := 0
		for _, x := range t.Val {
			if k := tryDepth(x); k > d {
				d = k
			}
		}
		if len(t.Val) > 0 {
			if s, ok := t.Val[0].(Symbol); ok && s.Val == "try" {
				return d + 1
			}
		}
		return d
	case Vector:
		d := 0
		for _, x := range t.Val {
			if k := tryDepth(x); k > d {
				d = k
			}
		}
		return d
	}
	return 0
}

// ---------------------------------------------------------------- engines

func field(obs, key string) string {
	i := strings.Index(obs, " "+key+"=")
	if i < 0 {
		return ""
	}
	rest := obs[i+len(key)+2:]
	if strings.HasPrefix(rest, "[") {
		if j := strings.Index(rest, "]"); j >= 0 {
			return rest[:j+1]
		}
	}
	if j := strings.Index(rest, " "); j >= 0 {
		return rest[:j]
	}
	return rest
}

func resultPart(obs string) string {
	if i := strings.Index(obs, " trace="); i >= 0 {
		return obs[:i]
	}
	return obs
}

type oracleEngine struct {
	evalEngine
	oracle func(payload, obs string) string // returns a violation description or ""
}

func (e *oracleEngine) run(payload string) string {
	obs := e.evalEngine.run(payload)
	if e.oracle != nil {
		if v := e.oracle(payload, obs); v != "" {
			return obs + "\t!" + v
		}
	}
	return obs
}

func init() {
	register("try", &evalEngine{gen: func(r *rng, n int, tier string, emit func(string)) {
		for i := 0; i < n; i++ {
			g := &tryGen{r: r}
			if i%3 == 2 {
				emit(evalPayloadD([]string{"e"}, g.program())) // the caller's context carries a (far) deadline
				continue
			}
			emit(evalPayload(-1, "-", []string{"e"}, g.program()))
		}
	}})

	register("goerr", &oracleEngine{evalEngine: evalEngine{gen: func(r *rng, n int, tier string, emit func(string)) {
		for i := 0; i < n; i++ {
			emit(evalPayload(-1, "-", nil, goerrProgram(r)))
		}
	}}, oracle: func(payload, obs string) string {
		// the sentinel is never caught-and-dropped by these programs: it must reach the caller, still reachable
		if !strings.HasPrefix(obs, "err lisp ( GE )") {
			return "a Go error raised by a builtin did not reach the caller as an error wrapping it: " + resultPart(obs)
		}
		if !lastErrIsSentinel {
			return "the error returned to the Go caller no longer satisfies errors.Is(err, sentinel)"
		}
		return ""
	}})

	register("malformed", &evalEngine{gen: func(r *rng, n int, tier string, emit func(string)) {
		malformedCases(r, n, tier, func(f MalType) {
			emit(evalPayloadChild(f))
			// every error is an ordinary lisp error that try/catch can handle
			emit(evalPayloadChild(ls(sy("try"), f, ls(sy("catch"), sy("e"), kw("caught")))))
		})
		// closures / macros with malformed parameter lists, CALLED (the binder runs at call time) with 0‥3
		// arguments through every application route
		for _, p := range badParams {
			for k := 0; k <= 3; k++ {
				args := []MalType{1, "s", vc(2)}[:k]
				for _, f := range badParamCalls(p, args) {
					emit(evalPayloadChild(f))
					emit(evalPayloadChild(ls(sy("try"), f, ls(sy("catch"), sy("e"), kw("caught")))))
				}
			}
		}
		// a context that is already done (or ends after 1‥3 polls) when EVAL is entered with a form of every
		// kind — scalars included: the "timeout" error must be a returned error as well
		for _, a := range operandKinds {
			for c := 0; c <= 1; c++ {
				emit(evalPayloadChildC(a, c))
			}
			for _, h := range []MalType{sy("do"), sy("if"), sy("list"), sy("+"), sy("let"), sy("try"), sy("quasiquote"), ls(sy("fn"), vc(sy("q")), sy("q"))} {
				for c := 0; c <= 3; c++ {
					emit(evalPayloadChildC(ls(h, a), c))
					emit(evalPayloadChildC(ls(h, a, a), c))
				}
			}
		}
	}})

	register("qq", &evalEngine{gen: func(r *rng, n int, tier string, emit func(string)) {
		for i := 0; i < n; i++ {
			g := &qqGen{r: r}
			emit(evalPayload(-1, "-", nil, g.program()))
		}
	}})

	// macro: call == eval of its macroexpansion (harness-side oracle), model compared on the call route
	register("macro", &oracleEngine{evalEngine: evalEngine{gen: func(r *rng, n int, tier string, emit func(string)) {
		for i := 0; i < n; i++ {
			g := &qqGen{r: r}
			defs, callForm := g.macroProgram()
			prog := List{Val: append(append([]MalType{sy("do")}, defs...), callForm)}
			emit(evalPayload(-1, "-", nil, prog))
		}
	}}, oracle: func(payload, obs string) string {
		_, _, _, ast, err := parseEvalPayload(payload)
		if err != nil {
			return ""
		}
		forms := ast.(List).Val
		callForm := forms[len(forms)-1]
		alt := List{Val: append(append([]MalType{}, forms[:len(forms)-1]...),
			ls(sy("eval"), ls(sy("macroexpand"), callForm)))} // macroexpand is a special form: its operand is not evaluated
		obs2 := runProgram(alt, -1, "-", nil)
		if resultPart(obs) != resultPart(obs2) || field(obs, "trace") != field(obs2, "trace") {
			return "macro call differs from evaluating its macroexpansion: call ⇒ " + resultPart(obs) + " " + field(obs, "trace") +
				" ; expansion ⇒ " + resultPart(obs2) + " " + field(obs2, "trace")
		}
		// the expansion's head is no longer a macro
		chk := List{Val: append(append([]MalType{}, forms[:len(forms)-1]...),
			ls(sy("let"), vc(sy("ex"), ls(sy("macroexpand"), callForm)),
				ls(sy("if"), call1("list?", sy("ex")), ls(sy("if"), call1("symbol?", call1("first", sy("ex"))),
					ls(sy("try"), call1("macro?", call1("eval", call1("first", sy("ex")))), ls(sy("catch"), sy("e"), false)), false), false)))}
		obs3 := runProgram(chk, -1, "-", nil)
		if strings.HasPrefix(obs3, "ok T") {
			return "the head of the macroexpansion is still a macro"
		}
		return ""
	}})

	register("coll", &evalEngine{gen: func(r *rng, n int, tier string, emit func(string)) {
		// the counting builtins with EVERY extreme count (the ends of the 64-bit range and their neighbours, where a
		// difference or a sum computed before clamping wraps around) on sequences of 0 … 3 elements
		extremes := []int{math.MinInt64, math.MinInt64 + 1, math.MinInt64 + 2, math.MinInt64 + 3, -math.MaxInt64 + 5, -1 << 32, -4, -1, 0, 1, 3, 4, 1 << 32, math.MaxInt64 - 3, math.MaxInt64 - 1, math.MaxInt64}
		for _, b := range []string{"take", "take-last", "drop", "drop-last", "nth", "subvec"} {
			for _, c := range extremes {
				for _, xs := range []MalType{vc(), vc(1), vc(1, 2, 3), ls(1, 2), nil} {
					switch b {
					case "nth":
						emit(evalPayload(-1, "-", nil, call1(b, call1("quote", xs), c)))
					case "subvec":
						emit(evalPayload(-1, "-", nil, call1(b, call1("quote", xs), 0, c)))
						emit(evalPayload(-1, "-", nil, call1(b, call1("quote", xs), c)))
					default:
						emit(evalPayload(-1, "-", nil, call1(b, c, call1("quote", xs))))
					}
				}
			}
		}
		for i := 0; i < n; i++ {
			if r.chance(1, 8) {
				emit(evalPayload(-1, "-", nil, collCallback(r)))
			} else {
				emit(evalPayload(-1, "-", nil, collCall(r, 2)))
			}
		}
	}})

	// tail: every depth! mark of a run carries the same EVAL-frame depth
	register("tail", &oracleEngine{evalEngine: evalEngine{gen: func(r *rng, n int, tier string, emit func(string)) {
		iters := []int{1, 2, 3, 10, 200}
		if tier == "thorough" {
			iters = append(iters, 3000)
		}
		for i := 0; i < n; i++ {
			g := &tailGen{r: r}
			emit(evalPayload(-1, "-", nil, g.program(iters[r.intn(len(iters))])))
		}
	}}, oracle: func(payload, obs string) string {
		m := strings.Fields(strings.Trim(field(obs, "marks"), "[]"))
		for _, x := range m {
			if x != m[0] {
				return "EVAL-frame depth grows along a tail-recursive loop: marks=" + field(obs, "marks")[:min(len(field(obs, "marks")), 80)]
			}
		}
		if !strings.HasPrefix(obs, "ok Sca9e646f6e65") {
			return "tail-recursive loop did not complete: " + resultPart(obs)
		}
		return ""
	}})

	// step: a scripted Stepper must not change result, trace or definitions
	register("step", &oracleEngine{evalEngine: evalEngine{gen: func(r *rng, n int, tier string, emit func(string)) {
		for i := 0; i < n; i++ {
			var ast MalType
			var names []string
			switch r.intn(4) {
			case 0:
				ast = (&tryGen{r: r}).program()
				names = []string{"e"}
			case 1:
				defs, callForm := (&qqGen{r: r}).macroProgram()
				ast = List{Val: append(append([]MalType{sy("do")}, defs...), callForm)}
			default:
				g := &progGen{r: r, trace: true, errs: true}
				ast, names = g.program(3)
			}
			k := r.intn(12)
			var sb strings.Builder
			for j := 0; j < k; j++ {
				sb.WriteByte("nxion"[r.intn(5)])
			}
			if k == 0 {
				sb.WriteString("n")
			}
			emit(evalPayload(-1, sb.String(), names, ast))
		}
	}}, oracle: func(payload, obs string) string {
		_, _, names, ast, err := parseEvalPayload(payload)
		if err != nil {
			return ""
		}
		plain := runProgram(ast, -1, "-", names)
		if resultPart(plain) != resultPart(obs) || field(plain, "trace") != field(obs, "trace") || field(plain, "defs") != field(obs, "defs") {
			return "a Stepper changes what the program computes: without ⇒ " + resultPart(plain) + " " + field(plain, "trace") + " " + field(plain, "defs") +
				" ; with ⇒ " + resultPart(obs) + " " + field(obs, "trace") + " " + field(obs, "defs")
		}
		return ""
	}})

	// cancel: after the cancelling poll no effect happens and only a bounded number of polls follow
	register("cancel", &oracleEngine{evalEngine: evalEngine{gen: func(r *rng, n int, tier string, emit func(string)) {
		for i := 0; i < n; i++ {
			g := &cancelGen{r: r}
			ast, _ := g.program()
			emit(evalPayload(r.intn(400), "-", nil, ast))
		}
	}}, oracle: func(payload, obs string) string {
		cancelAt, _, _, ast, err := parseEvalPayload(payload)
		if err != nil || cancelAt < 0 {
			return ""
		}
		ticks, _ := strconv.Atoi(field(obs, "ticks"))
		bound := 2*tryDepth(ast) + 2
		if ticks > cancelAt+1+bound {
			return "evaluation kept polling after cancellation: cancelled at poll " + strconv.Itoa(cancelAt) + ", " + strconv.Itoa(ticks) + " polls in total (bound " + strconv.Itoa(bound) + ")"
		}
		if ticks > cancelAt && !strings.HasPrefix(obs, "err lisp ( GE )") && !strings.HasPrefix(obs, "ok") {
			return "cancelled evaluation did not end in a timeout error: " + resultPart(obs)
		}
		return ""
	}})
}

// ---------------------------------------------------------------- C03: Go errors stay reachable with errors.Is
// programs in which a Go builtin fails with a sentinel error (returned or panicked) somewhere below
// calls / builtin callbacks / macro expansions / nested try forms that re-throw it; the error that
// reaches the Go caller must still satisfy errors.Is(err, sentinel).

func goerrProgram(r *rng) MalType {
	src := sy(r.pick([]string{"go-fail!", "go-panic!"}))
	var e MalType = ls(src)
	for i, n := 0, r.intn(5); i < n; i++ {
		switch r.intn(8) {
		case 0:
			e = ls(ls(sy("fn"), vc(), e))
		case 1:
			e = call1("map", ls(sy("fn"), vc(sy("x")), e), vc(1, 2))
		case 2:
			e = call1("apply", ls(sy("fn"), vc(sy("&"), sy("xs")), e), vc(1))
		case 3:
			e = ls(sy("try"), e, ls(sy("catch"), sy("err"), call1("trace!", kw("rethrow")), call1("throw", sy("err"))))
		case 4:
			e = ls(sy("try"), e, ls(sy("finally"), call1("trace!", kw("fin"))))
		case 5:
			e = ls(sy("cond"), false, 1, true, e)
		case 6:
			e = ls(sy("let"), vc(sy("a"), call1("atom", 0)), call1("swap!", sy("a"), ls(sy("fn"), vc(sy("x")), e)))
		default:
			e = ls(sy("do"), call1("trace!", 1), e)
		}
	}
	return e
}

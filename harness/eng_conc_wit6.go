package main

// witnesses added after round 6 of the seeded changes

import (
	"context"
	"fmt"
	"strings"
	"sync"
	"time"

	"github.com/jig/lisp/lib/call"
	. "github.com/jig/lisp/types"
)

func init() {
	// C10 / C07: a running future that is cancelled (its body notices: sleep) — every deref afterwards returns, within
	// its own context, with the SAME outcome as every other deref
	addWitness("deref-of-cancelled-sleeping-future", "f", func(iters int) string {
		w, err := newConcWorld()
		if err != nil {
			return "setup-error"
		}
		bg := context.Background()
		if o := evalW(w, "(do (def f (future (sleep 100000))) (future-cancel f))"); o != "ok T" {
			return "setup " + o
		}
		time.Sleep(60 * time.Millisecond) // the body has noticed the cancellation and delivered its own outcome
		var outs []string
		for i := 0; i < 3; i++ {
			ctx, cancel := context.WithTimeout(bg, 1500*time.Millisecond)
			done := make(chan string, 1)
			go func() { done <- w.evalObs(ctx, "(try (deref f) (catch e (str e)))") }()
			select {
			case o := <-done:
				outs = append(outs, o)
			case <-time.After(6 * time.Second):
				cancel()
				return fmt.Sprintf("BLOCKED\t!deref #%d of a cancelled future whose body has ended never returns (not even when the caller's context ends)", i+1)
			}
			cancel()
		}
		for _, o := range outs[1:] {
			if o != outs[0] {
				return strings.Join(outs, " | ") + "\t!derefs of one cancelled future disagree"
			}
		}
		if strings.Contains(outs[0], "timeout while dereferencing") {
			return outs[0] + "\t!deref of a cancelled future whose body has ended waited for the caller's deadline instead of returning the outcome"
		}
		return "ok"
	})
	// C10: a future cancelled while its body ignores the cancellation and completes with a value: readers before and
	// after the cancel get the same outcome
	addWitness("readers-agree-across-cancel", "f", func(iters int) string {
		// two bodies: one that notices the cancellation at its next form (outcome: the timeout error), and one whose LAST
		// form is the host call that ignores the cancellation (outcome: that call's value)
		for _, b := range []struct{ gate, body string }{{"hold2!", "(do (hold2!) 42)"}, {"hold3!", "(hold3!)"}} {
			w, err := newConcWorld()
			if err != nil {
				return "setup-error"
			}
			g := newGate(w, b.gate)
			if o := evalW(w, "(def f (future "+b.body+"))"); !strings.HasPrefix(o, "ok") {
				return "setup " + o
			}
			select {
			case <-g.entered:
			case <-time.After(10 * time.Second):
				return "setup-error body never entered"
			}
			early := make(chan string, 1)
			go func() { early <- evalW(w, "(try (deref f) (catch e :failed))") }()
			time.Sleep(30 * time.Millisecond)
			c := evalW(w, "(future-cancel f)")
			close(g.release)
			e := <-early
			l1 := evalW(w, "(try (deref f) (catch e :failed))")
			l2 := evalW(w, "(try (deref f) (catch e :failed))")
			if c != "ok T" || e != l1 || l1 != l2 {
				return fmt.Sprintf("body=%s cancel=%s early=%s late=%s,%s\t!readers of one future got different outcomes before and after future-cancel", b.body, c, e, l1, l2)
			}
		}
		return "ok"
	})
	// C09: an update function that is a higher-order BUILTIN calling back into a closure that reads the swapped atom
	addWitness("swap-with-builtin-update-reading-the-atom", "a", func(iters int) string {
		w, err := newConcWorld()
		if err != nil {
			return "setup-error"
		}
		o := evalW(w, `(do (def st (atom {:n 1 :step 10}))
		                   [(get (swap! st update :n (fn [n] (+ n (get @st :step)))) :n)
		                    (get (swap! st update-in [:n] (fn [n] (+ n (get (deref st) :step)))) :n)
		                    (do (def sv (atom [1 2])) (swap! sv (fn [v] (apply conj v (deref sv)))))])`)
		if o == "BLOCKED" {
			return "BLOCKED\t!swap! whose update function is a builtin calling back into a closure that derefs the swapped atom never returns"
		}
		if o != "ok ( V I11 I21 ( V I1 I2 I1 I2 ) )" {
			return o + "\t!swap! with update / update-in / apply as update function: expected [11 21 [1 2 1 2]]"
		}
		return "ok"
	})
	// C09: contended swaps whose update function reads the atom it swaps (no orchestration)
	addWitness("contended-swaps-reading-their-atom", "a", func(iters int) string {
		w, err := newConcWorld()
		if err != nil {
			return "setup-error"
		}
		if o := evalW(w, `(do (def c (atom 0)) (def bump (fn [x] (+ (+ x 1) (- (deref c) (deref c)))))
		                      (def lp (fn [n] (if (< n 1) :done (do (swap! c bump) (lp (- n 1)))))))`); !strings.HasPrefix(o, "ok") {
			return "setup " + o
		}
		const k, per = 4, 400
		res := make([]string, k)
		ok := withinProgress(concWatchdog*3, func(tick func()) {
			var wg sync.WaitGroup
			for i := 0; i < k; i++ {
				wg.Add(1)
				go func(i int) {
					defer wg.Done()
					res[i] = w.evalObs(context.Background(), fmt.Sprintf("(lp %d)", per))
					tick()
				}(i)
			}
			wg.Wait()
		})
		if !ok {
			return "BLOCKED\t!contended swap! calls whose update function derefs the swapped atom block forever"
		}
		for i, r := range res {
			if r != "ok \u029edone" && r != "ok "+render("\u029edone") {
				return fmt.Sprintf("thread %d: %s\t!contended swap! failed", i, r)
			}
		}
		if o := evalW(w, "(deref c)"); o != fmt.Sprintf("ok I%d", k*per) {
			return o + fmt.Sprintf("\t!%d contended increments: updates lost", k*per)
		}
		return "ok"
	})
}

func init() {
	// C10 ("none of this involves a data race"): a running future is cancelled while its body is inside a host function
	// that ignores the context and simply returns a little later.  Nothing orders the cancel and the body's completion
	// (no gate, no channel between them): whatever both sides touch must be guarded.  Meaningful under -race.
	addWitness("cancel-while-body-naps", "f", func(iters int) string {
		w, err := newConcWorld()
		if err != nil {
			return "setup-error"
		}
		call.CallOverrideFN(w.env, "nap!", func(ms int) (MalType, error) {
			time.Sleep(time.Duration(ms) * time.Millisecond)
			return ms, nil
		})
		n := 25
		if iters > n {
			n = min(iters, 200)
		}
		for i := 0; i < n; i++ {
			if o := evalW(w, "(def f (future (nap! 3)))"); !strings.HasPrefix(o, "ok") {
				return "setup " + o
			}
			time.Sleep(time.Duration(500+i*97%2500) * time.Microsecond)
			c := evalW(w, "(future-cancel f)")
			d := evalW(w, "(try (deref f) (catch e :failed))")
			s := evalW(w, "[(future-done? f) (future-cancelled? f)]")
			if c == "BLOCKED" || d == "BLOCKED" || s == "BLOCKED" {
				return "BLOCKED\t!an operation on a future cancelled while its body napped never returned"
			}
			if s != "ok ( V T "+map[bool]string{true: "T", false: "F"}[c == "ok T"]+" )" {
				return fmt.Sprintf("cancel=%s deref=%s status=%s\t!after a deref returned, future-done? must be true and future-cancelled? must be what future-cancel answered", c, d, s)
			}
		}
		return "ok"
	})
}

func init() {
	// C09: a future STARTED INSIDE an update function of swap! on atom X lives on after that swap! is over (its context
	// derives from the evaluation's); its own later swap! / reset! / deref of X are ordinary operations: applied, not lost,
	// not rejected
	addWitness("future-started-in-update-function-can-swap", "a", func(iters int) string {
		w, err := newConcWorld()
		if err != nil {
			return "setup-error"
		}
		o := evalW(w, `(do (def reg (atom {:jobs 0 :done 0}))
		                   (def worker (atom nil))
		                   (swap! reg (fn [m] (do (reset! worker (future (do (sleep 40) (swap! reg update :done inc) (swap! reg update :done inc) :finished))) (assoc m :jobs 1))))
		                   [(deref (deref worker)) (deref reg)])`)
		if o == "BLOCKED" {
			return "BLOCKED\t!an evaluation whose update function started a future that later swaps the same atom never returned"
		}
		want := "ok ( V Sca9e66696e6973686564 ( M Sca9e646f6e65 I2 Sca9e6a6f6273 I1 ) )"
		if o != want {
			return o + "\t!a future started inside an update function of swap! later swapped the same atom: its updates must be applied ([:finished {:jobs 1 :done 2}])"
		}
		o2 := evalW(w, `(do (def c (atom 0))
		                    (def fs (atom []))
		                    (swap! c (fn [x] (do (swap! fs conj (future (do (sleep 20) (swap! c inc)))) (swap! fs conj (future (do (sleep 25) (reset! c (+ (deref c) 10))))) (+ x 1))))
		                    (map deref (deref fs))
		                    (deref c))`)
		if o2 != "ok I12" {
			return o2 + "\t!futures started inside an update function swapped / reset the same atom afterwards: expected the counter to read 12"
		}
		return "ok"
	})
}

module verifharness

go 1.18

require (
	github.com/jig/lisp v0.0.0
	github.com/jig/scanner v1.2.0
)

require (
	github.com/chzyer/readline v1.5.1 // indirect
	github.com/davecgh/go-spew v1.1.1 // indirect
	github.com/google/uuid v1.3.0 // indirect
)

replace github.com/jig/lisp => /repo

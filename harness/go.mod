module verifharness

go 1.18

require (
	github.com/eiannone/keyboard v0.0.0-20220611211555-0d226195f203
	github.com/jig/lisp v0.0.0
	github.com/jig/scanner v1.2.0
)

require (
	github.com/chzyer/readline v1.5.1 // indirect
	github.com/davecgh/go-spew v1.1.1 // indirect
	github.com/fatih/color v1.13.0 // indirect
	github.com/google/uuid v1.3.0 // indirect
	github.com/mattn/go-colorable v0.1.13 // indirect
	github.com/mattn/go-isatty v0.0.16 // indirect
	golang.org/x/sys v0.0.0-20220825204002-c680a09ffe64 // indirect
)

replace github.com/jig/lisp => /repo

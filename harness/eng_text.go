package main

// engines over source text: scan (token streams), read (Read_str with/without env, placeholder
// table, module), reread (C06 second half), rwp (READWithPreamble on arbitrary bytes).

import (
	"context"
	"encoding/hex"
	"fmt"
	"strings"

	"github.com/jig/lisp"
	"github.com/jig/lisp/env"
	"github.com/jig/lisp/lib/core"
	"github.com/jig/lisp/reader"
	"github.com/jig/lisp/repl"
	"github.com/jig/scanner"

	. "github.com/jig/lisp/types"
)

// ---------------------------------------------------------------- text generators

var alphabet = []string{"(", ")", "[", "]", "{", "}", "#{", "'", "`", "~", "~@", "^", "@", "\"", "\\", "¬", ";", "\n",
	" ", "a", "1", ":", "$", "«", "»", "-", ".", "ʞ", "_", "0x", "e", "\x00", "\xff", "\t", "\r", ",", "&", "#", "\xef\xbb\xbf"}

var atomsPool = []string{"a", "b", "foo", "x1", "nil", "true", "false", "0", "1", "42", "-7", "0x1F", "1_000", "0b101", "0o17", "017",
	":k", ":key-1", "\"s\"", "\"a b\"", "\"a\\\"b\"", "\"a\\\\b\"", "\"a\\nb\"", "\"(\"", "\")\"", "\"[{\"", "\"; not a comment\"", "\"$x\"",
	"¬raw¬", "¬a¬¬b¬", "¬(¬", "¬)]¬", "¬multi\nline¬", "$x", "$NUMBER", "$a-b_1", "+", "-", "*", "/", "<=", "->", "swap!", "nil?", "&",
	"1.5", "-2.5e3", ".5", "1e39", "0x1p4", "aʞb", "λ", "日本", "\"é😀\"", "\"\\t\"", "\"\\x41\"", "\"\\u00e9\"", "99999999999999999999", "-9223372036854775808",
	"9223372036854775807", "9223372036854775808", "1__0", "0x", "1_", "08", "-", "-a", "--", "-1a", "a-1", ":", ":1", "::a", "#", "~", "\"\"", "¬¬"}

func genForm(r *rng, depth int) string {
	if depth <= 0 || r.chance(2, 5) {
		return r.pick(atomsPool)
	}
	n := r.intn(4)
	items := make([]string, 0, n)
	for i := 0; i < n; i++ {
		items = append(items, genForm(r, depth-1))
	}
	sep := func() string {
		switch r.intn(10) {
		case 0:
			return "\n"
		case 1:
			return "  "
		case 2:
			return " ; comment )(\n"
		case 3:
			return "\t"
		case 4:
			return ", "
		default:
			return " "
		}
	}
	join := func() string {
		var b strings.Builder
		for i, it := range items {
			if i > 0 {
				b.WriteString(sep())
			}
			b.WriteString(it)
		}
		return b.String()
	}
	switch r.intn(12) {
	case 0, 1, 2, 3:
		return "(" + join() + ")"
	case 4, 5:
		return "[" + join() + "]"
	case 6:
		// map with string/keyword keys
		var b strings.Builder
		b.WriteString("{")
		for i := 0; i < n; i++ {
			if i > 0 {
				b.WriteString(" ")
			}
			b.WriteString(r.pick([]string{":a", ":b", "\"k\"", ":c", "\"x y\""}))
			b.WriteString(" ")
			b.WriteString(genForm(r, depth-1))
		}
		b.WriteString("}")
		return b.String()
	case 7:
		var b strings.Builder
		b.WriteString("#{")
		for i := 0; i < n; i++ {
			if i > 0 {
				b.WriteString(" ")
			}
			b.WriteString(r.pick([]string{":a", ":b", "\"k\"", ":c"}))
		}
		b.WriteString("}")
		return b.String()
	case 8:
		return r.pick([]string{"'", "`", "~", "~@", "@"}) + genForm(r, depth-1)
	case 9:
		return "^" + genForm(r, depth-1) + " " + genForm(r, depth-1)
	case 10:
		return "«" + r.pick([]string{"error", "go-error", "atom", "nope", "1", "", "lfn", "num", "nil", "spin", "tick", "tick -1", "mspin"}) + " " + join() + "»"
	default:
		return "{" + join() + "}"
	}
}

func mutateText(r *rng, s string) string {
	b := []byte(s)
	switch r.intn(8) {
	case 0: // truncate
		if len(b) > 0 {
			b = b[:r.intn(len(b))]
		}
	case 1: // delete a byte
		if len(b) > 0 {
			i := r.intn(len(b))
			b = append(b[:i:i], b[i+1:]...)
		}
	case 2: // insert a hostile piece
		i := r.intn(len(b) + 1)
		ins := []byte(r.pick(alphabet))
		b = append(b[:i:i], append(ins, b[i:]...)...)
	case 3: // flip a byte
		if len(b) > 0 {
			b[r.intn(len(b))] ^= byte(1 << uint(r.intn(8)))
		}
	case 4: // append a closer
		b = append(b, []byte(r.pick([]string{")", "]", "}", "»", "¬", "\"", " x", " ; c"}))...)
	case 5: // pad so that a token straddles the scanner's 1024-byte buffer
		pad := 1015 + r.intn(12)
		b = append([]byte(strings.Repeat(" ", pad)), b...)
	case 6: // prepend preamble-ish line or BOM
		b = append([]byte(r.pick([]string{";; $x 1\n", ";; $MODULE m.lisp\n", "\xef\xbb\xbf", ";; $a (1 2)\n\n", ";; $ \n", "\n"})), b...)
	default:
	}
	return string(b)
}

// exhaustive strings up to length k over the hostile alphabet
func exhaustive(k int, emit func(string)) {
	var rec func(prefix string, d int)
	rec = func(prefix string, d int) {
		emit(prefix)
		if d == 0 {
			return
		}
		for _, a := range alphabet {
			rec(prefix+a, d-1)
		}
	}
	rec("", k)
}

// first lines spelled like the load-file header, with every way of writing the name (bare, quoted, ending in backslashes,
// unterminated, empty, with or without a line feed after it)
var moduleHeaders = []string{
	";; $MODULE a.lisp\n", ";; $MODULE \"a.lisp\"\n", ";; $MODULE \"\\\"\n", ";; $MODULE \"C:\\lisp\\\"\n", ";; $MODULE \"x\\\\\\\"\n",
	";; $MODULE \"\n", ";; $MODULE \"\"\n", ";; $MODULE \\\n", ";; $MODULE \"a\\", ";; $MODULE ", ";; $MODULE\n", ";; $MODULE  spaced name \n",
	";; $MODULE 'q'\n", ";; $MODULE \"unterminated\n", ";; $MODULE \"\\",
}

func genTextCase(r *rng) string {
	if r.chance(1, 25) {
		return r.pick(moduleHeaders) + genForm(r, 2)
	}
	s := genForm(r, 4)
	if r.chance(1, 6) {
		s = s + r.pick([]string{" ", "\n", " ; trailing", "\n; c\n", " " + genForm(r, 2)})
	}
	k := r.intn(4)
	if r.chance(1, 2) {
		k = 0
	}
	for i := 0; i < k; i++ {
		s = mutateText(r, s)
	}
	return s
}

// ---------------------------------------------------------------- error classes

func errClass(err error) string {
	msg := err.Error()
	// strip position prefix "module§r…r,c…c: " (the module name is arbitrary text — it may itself contain ": " — so the
	// prefix ends at the first ": " AFTER the last "§")
	if j := strings.LastIndex(msg, "§"); j >= 0 {
		if i := strings.Index(msg[j:], ": "); i >= 0 {
			msg = msg[j+i+2:]
		}
	}
	switch {
	case strings.HasPrefix(msg, "expected '") && strings.HasSuffix(msg, "', got EOF"):
		return "eof:" + msg[len("expected '"):len(msg)-len("', got EOF")]
	case strings.HasPrefix(msg, "unexpected '"):
		return "unexpected:" + strings.TrimSuffix(msg[len("unexpected '"):], "'")
	case msg == "not all tokens where parsed":
		return "trailing"
	case msg == "<empty line>":
		return "empty"
	case strings.HasSuffix(msg, "underflow"):
		return "underflow"
	case strings.HasPrefix(msg, "«» requires"):
		return "extern"
	case strings.HasPrefix(msg, "invalid token"):
		return "badtoken"
	case msg == "integer parse error":
		return "badint"
	case msg == "float parse error":
		return "floaterr"
	case strings.HasPrefix(msg, "odd number of arguments to NewHashMap"):
		return "oddmap"
	case strings.HasPrefix(msg, "expected hash-map key string"):
		return "badkey"
	case strings.HasPrefix(msg, "set items must be"):
		return "badsetitem"
	case msg == "invalid preamble format":
		return "badpreamble"
	case strings.Contains(msg, "not found"), strings.Contains(msg, "attempt to call non-function"),
		strings.Contains(msg, "wrong number of arguments"), strings.Contains(msg, "reflect:"), strings.Contains(msg, "interface conversion"):
		return "extern"
	}
	return "other:" + oneLine(msg)
}

func mlFlag(err error) string {
	if repl.MultiLine(err) {
		return "T"
	}
	return "F"
}

func renderReadResult(v MalType, err error) string {
	if err != nil {
		return "err " + errClass(err) + " ml=" + mlFlag(err)
	}
	return "ok " + render(v)
}

// ---------------------------------------------------------------- scan

type scanEngine struct{}

func init() { register("scan", &scanEngine{}) }

func (e *scanEngine) generate(r *rng, n int, tier string, emit func(string)) {
	k := 2
	if tier == "thorough" {
		k = 3
	}
	exhaustive(k, func(s string) { emit(hex.EncodeToString([]byte(s))) })
	for i := 0; i < n; i++ {
		emit(hex.EncodeToString([]byte(genTextCase(r))))
	}
}

func kindName(t rune) string {
	switch t {
	case scanner.Ident:
		return "Ident"
	case scanner.Int:
		return "Int"
	case scanner.Float:
		return "Float"
	case scanner.String:
		return "String"
	case scanner.Keyword:
		return "Keyword"
	case scanner.RawString:
		return "RawString"
	}
	return fmt.Sprintf("C%d", t)
}

func (e *scanEngine) run(payload string) string {
	bs, err := hex.DecodeString(payload)
	if err != nil {
		return "bad-case"
	}
	toks, err := reader.Tokenize(string(bs), NewAnonymousCursorHere(1, 1))
	if err != nil {
		return "err"
	}
	var b strings.Builder
	b.WriteString("ok")
	for _, t := range toks {
		// Col = Column + Offset in tokenize; recover the offset
		fmt.Fprintf(&b, " %s:%s:%d:%d:%d", kindName(t.Type), hx(t.Value), t.Cursor.Row, t.Cursor.BeginCol, t.Cursor.Col-t.Cursor.BeginCol)
	}
	return b.String()
}

func (e *scanEngine) classify(payload, obs string) string {
	if strings.HasPrefix(obs, "ok") {
		return fmt.Sprintf("ok/%d-tokens", min(strings.Count(obs, " "), 9))
	}
	return strings.Fields(obs + " ?")[0]
}

func min(a, b int) int {
	if a < b {
		return a
	}
	return b
}

// ---------------------------------------------------------------- read

type readEngine struct{ env EnvType }

func init() { register("read", &readEngine{}) }

func (e *readEngine) theEnv() EnvType {
	if e.env == nil {
		e.env = env.NewEnv()
		core.Load(e.env)
		// names spelled like constructors but bound to something that is not a Go function
		// (… among them lisp functions and a macro that never return: reading a text runs no program)
		for _, src := range []string{"(def new-lfn (fn [a] a))", "(def new-num 5)", "(def new-nil nil)", "(def new-spin (fn [& xs] (new-spin)))",
			"(def new-tick (fn [n] (if (= n 0) :done (new-tick (- n 1)))))", "(defmacro new-mspin (fn [& xs] (list 'new-mspin)))"} {
			if ast, err := lisp.READ(src, nil, e.env); err == nil {
				lisp.EVAL(context.Background(), ast, e.env)
			}
		}
	}
	return e.env
}

var phNames = []string{"$x", "$NUMBER", "$a-b_1", "$y", "$MODULE", "$0"}

func genPhs(r *rng) map[string]MalType {
	m := map[string]MalType{}
	n := r.intn(4)
	for i := 0; i < n; i++ {
		m[r.pick(phNames)] = genData(r, 2)
	}
	if r.chance(1, 60) {
		// a LONG value: its preamble line exceeds every usual line buffer (4 KiB, 64 KiB)
		switch r.intn(3) {
		case 0:
			m[r.pick(phNames)] = strings.Repeat("0123456789 abc\"def ", 260) // ≈ 5 KiB string with quotes inside
		case 1:
			xs := make([]MalType, 1500)
			for j := range xs {
				xs[j] = 1000000 + j
			}
			m[r.pick(phNames)] = List{Val: xs}
		default:
			m[r.pick(phNames)] = strings.Repeat("x", 70000)
		}
	}
	return m
}

func (e *readEngine) generate(r *rng, n int, tier string, emit func(string)) {
	k := 2
	if tier == "thorough" {
		k = 3
	}
	flagsets := []string{"e0,p0", "e1,p0", "e0,p1", "e1,p1"}
	exhaustive(k, func(s string) {
		for _, f := range flagsets {
			p := f + " x" + hex.EncodeToString([]byte(s))
			if strings.Contains(f, "p1") {
				p += " | ( M S2478 I7 )"
			}
			emit(p)
		}
	})
	for _, h := range moduleHeaders {
		for _, tail := range []string{"", "(+ 1 2)", "\n(+ 1 2)"} {
			for _, f := range flagsets[:2] {
				emit(f + " x" + hex.EncodeToString([]byte(h+tail)))
			}
		}
	}
	for i := 0; i < n; i++ {
		f := r.pick(flagsets)
		if r.chance(1, 5) {
			f += ",m=" + hx(r.pick([]string{"mod.lisp", "a b", "é"}))
		}
		p := f + " x" + hex.EncodeToString([]byte(genTextCase(r)))
		if strings.Contains(f, "p1") {
			p += " | " + render(HashMap{Val: genPhs(r)})
		}
		emit(p)
	}
}

func (e *readEngine) run(payload string) string {
	parts := strings.Split(payload, " | ")
	head := strings.Fields(parts[0])
	if len(head) != 2 {
		return "bad-case"
	}
	flags := strings.Split(head[0], ",")
	bs, err := hex.DecodeString(strings.TrimPrefix(head[1], "x"))
	if err != nil {
		return "bad-case"
	}
	var ns EnvType
	var phs *HashMap
	var cursor *Position
	for _, f := range flags {
		switch {
		case f == "e1":
			ns = e.theEnv()
		case f == "p1":
			phs = &HashMap{Val: map[string]MalType{}}
			if len(parts) > 1 {
				v, err := parse(parts[1])
				if err != nil {
					return "bad-case"
				}
				hm := v.(HashMap)
				phs = &hm
			}
		case strings.HasPrefix(f, "m="):
			mb, _ := hex.DecodeString(f[2:])
			cursor = NewCursorFile(string(mb))
		}
	}
	var v MalType
	if ns == nil {
		v, err = reader.Read_str(string(bs), cursor, phs)
	} else {
		v, err = reader.Read_str(string(bs), cursor, phs, ns)
	}
	out := renderReadResult(v, err)
	if err == nil {
		// C05: PRINT of every successful result terminates and returns a string
		_ = lisp.PRINT(v)
	}
	return out
}

func (e *readEngine) classify(payload, obs string) string {
	f := strings.Fields(obs + " ? ?")
	if f[0] == "err" {
		return "err/" + strings.SplitN(f[1], ":", 2)[0]
	}
	return f[0]
}

// ---------------------------------------------------------------- rwp: READWithPreamble on arbitrary bytes

type rwpEngine struct{ readEngine }

func init() { register("rwp", &rwpEngine{}) }

func (e *rwpEngine) generate(r *rng, n int, tier string, emit func(string)) {
	pre := []string{"", ";; $x 1\n", ";; $x 1\n\n", ";; $x (1 2)\n;; $y \"s\"\n\n", ";; $x\n", ";; $ 1\n", ";; $x  1\n", ";; $x;; $y 2\n\n",
		";; $x $y\n\n", ";; $x )\n\n", "  ;; $x 1  \r\n\r\n", ";; $x 1", ";; $MODULE m\n", ";; $x ¬a\nb¬\n\n", ";; $x \"a\n\n", ";; $x-1_b {:a [1 2]}\n\n", ";; x\n", ";;$x 1\n"}
	exhaustive(2, func(s string) {
		emit(hex.EncodeToString([]byte(s)))
		emit(hex.EncodeToString([]byte(";; $x " + s + "\n\n$x")))
	})
	// preambles COMPOSED line by line: every spelling of a comment line that starts like a preamble line — bare `;;`, `;;`
	// followed by blanks only (0 … 6, tabs, CR), indented values, lines that look like the continuation of the line
	// before, a third semicolon — in every position after a placeholder line
	lines := []string{";;", ";; ", ";;  ", ";;   ", ";;    ", ";;      ", ";;\t", ";;   \t ", ";;   \r", ";; $x", ";; $x 1", ";; $y \"s\"", ";;   $x 1", ";;   more",
		";;   \"s\"", ";;   }", ";;; $x 1", ";", ";; $x 1 ;; $y 2", "  ;;   ", " ;; $y [1", ";;   2]", ";; $x ¬{\"a\":", ";;   1}¬", ";; $x {:a", ";;$y 2", ";; $ y"}
	for _, a := range lines {
		for _, b := range lines {
			emit(hex.EncodeToString([]byte(a + "\n" + b + "\n\n[$x $y]")))
		}
		emit(hex.EncodeToString([]byte(";; $x 1\n" + a + "\n\n(+ $x 1)")))
		emit(hex.EncodeToString([]byte(";; $x 1\n" + a)))
		emit(hex.EncodeToString([]byte(a)))
	}
	for i := 0; i < n; i++ {
		s := r.pick(pre) + genTextCase(r)
		if r.chance(1, 3) {
			s = ""
			for k := 1 + r.intn(4); k > 0; k-- {
				s += r.pick(lines) + r.pick([]string{"\n", "\n", "\r\n", "\n\n"})
			}
			s += genTextCase(r)
		}
		if r.chance(1, 4) {
			s = mutateText(r, s)
		}
		emit(hex.EncodeToString([]byte(s)))
	}
}

func (e *rwpEngine) run(payload string) string {
	bs, err := hex.DecodeString(payload)
	if err != nil {
		return "bad-case"
	}
	v, err := lisp.READWithPreamble(string(bs), nil, e.theEnv())
	if err != nil {
		return "err " + errClass(err)
	}
	_ = lisp.PRINT(v)
	return "ok " + render(v)
}

// ---------------------------------------------------------------- reread: read, print, read again (C06 second half)

type rereadEngine struct{ readEngine }

func init() { register("reread", &rereadEngine{}) }

func (e *rereadEngine) generate(r *rng, n int, tier string, emit func(string)) {
	for i := 0; i < n; i++ {
		emit(hex.EncodeToString([]byte(genTextCase(r))))
	}
}

func hasOpaque(v MalType) bool {
	switch t := v.(type) {
	case nil, bool, int, string, Symbol, Set:
		return false
	case List:
		for _, x := range t.Val {
			if hasOpaque(x) {
				return true
			}
		}
		return false
	case Vector:
		for _, x := range t.Val {
			if hasOpaque(x) {
				return true
			}
		}
		return false
	case HashMap:
		for _, x := range t.Val {
			if hasOpaque(x) {
				return true
			}
		}
		return false
	}
	return true
}

func (e *rereadEngine) run(payload string) string {
	bs, err := hex.DecodeString(payload)
	if err != nil {
		return "bad-case"
	}
	v, err := reader.Read_str(string(bs), nil, nil, e.theEnv())
	if err != nil {
		return "err"
	}
	if hasOpaque(v) {
		return "ok opaque"
	}
	return "ok " + roundTrip(v)
}

// roundTrip: READ(PRINT(v)) compared with v by the harness's own structural comparison
func roundTrip(v MalType) string { return roundTripText(v, lisp.PRINT(v)) }

// roundTripText: the same on a text printed earlier (two PRINT calls may order map entries differently)
func roundTripText(v MalType, text string) string {
	v2, err := lisp.READ(text, nil, nil)
	if err != nil {
		return "rt=err:" + errClass(err)
	}
	if sameData(v, v2) {
		return "rt=ok"
	}
	return "rt=FAIL"
}

// sameData: structural equality written independently of types.Equal_Q (which is C14's subject)
func sameData(a, b MalType) bool {
	seq := func(x MalType) ([]MalType, bool) {
		switch t := x.(type) {
		case List:
			return t.Val, true
		case Vector:
			return t.Val, true
		}
		return nil, false
	}
	if as, ok := seq(a); ok {
		bs, ok2 := seq(b)
		if !ok2 || len(as) != len(bs) {
			return false
		}
		for i := range as {
			if !sameData(as[i], bs[i]) {
				return false
			}
		}
		return true
	}
	switch ta := a.(type) {
	case nil:
		return b == nil
	case bool:
		tb, ok := b.(bool)
		return ok && ta == tb
	case int:
		tb, ok := b.(int)
		return ok && ta == tb
	case string:
		tb, ok := b.(string)
		return ok && ta == tb
	case Symbol:
		tb, ok := b.(Symbol)
		return ok && ta.Val == tb.Val
	case HashMap:
		tb, ok := b.(HashMap)
		if !ok || len(ta.Val) != len(tb.Val) {
			return false
		}
		for k, x := range ta.Val {
			y, present := tb.Val[k]
			if !present || !sameData(x, y) {
				return false
			}
		}
		return true
	case Set:
		tb, ok := b.(Set)
		if !ok || len(ta.Val) != len(tb.Val) {
			return false
		}
		for k := range ta.Val {
			if _, present := tb.Val[k]; !present {
				return false
			}
		}
		return true
	}
	return false
}

func (e *rereadEngine) classify(payload, obs string) string { return obs }
func (e *rwpEngine) classify(payload, obs string) string {
	f := strings.Fields(obs + " ? ?")
	if f[0] == "err" {
		return "err/" + strings.SplitN(f[1], ":", 2)[0]
	}
	return f[0]
}

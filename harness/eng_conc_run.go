package main

// running one stress history of engine "conc" against the real builtins

import (
	"context"
	"fmt"
	"regexp"
	"strconv"
	"strings"
	"sync"
	"sync/atomic"
	"time"

	"github.com/jig/lisp"
	"github.com/jig/lisp/lib/call"
	. "github.com/jig/lisp/types"
)

var reOp = regexp.MustCompile(`^([a-zA-Z?]+)(\d+)(?:([=+@^!])(\d*))?$`)

// opSource: the lisp form of one op token
func opSource(tok string) (string, bool) {
	m := reOp.FindStringSubmatch(tok)
	if m == nil {
		return "", false
	}
	k, a, sep, arg := m[1], m[2], m[3], m[4]
	switch {
	case k == "d" && sep == "":
		return "(deref a" + a + ")", true
	case k == "p" && sep == "":
		return "(str a" + a + ")", true
	case k == "r" && sep == "=" && arg != "":
		return "(reset! a" + a + " " + arg + ")", true
	case k == "s" && sep == "+" && arg != "":
		return "(swap! a" + a + " (fn [x] (+ x " + arg + ")))", true
	case k == "s" && sep == "!":
		return "(swap! a" + a + " (fn [x] (throw 1)))", true
	case k == "s" && sep == "@" && arg != "":
		return "(swap! a" + a + " (fn [x] (do (deref a" + arg + ") (+ x 1))))", true
	case k == "s" && sep == "^" && arg != "" && arg != a:
		return "(swap! a" + a + " (fn [x] (do (swap! a" + arg + " (fn [y] (+ y 1))) (+ x 1))))", true
	case k == "D" && sep == "":
		return "(deref f" + a + ")", true
	case k == "?d" && sep == "":
		return "(future-done? f" + a + ")", true
	case k == "?c" && sep == "":
		return "(future-cancelled? f" + a + ")", true
	case k == "C" && sep == "":
		return "(future-cancel f" + a + ")", true
	}
	return "", false
}

var reBody = regexp.MustCompile(`^(ret|throw|sleep|hsleep)(\d+)(?::(\d+))?$`)

func bodySource(b string) (string, bool) {
	m := reBody.FindStringSubmatch(b)
	if m == nil {
		return "", false
	}
	switch m[1] {
	case "ret":
		return "(future " + m[2] + ")", m[3] == ""
	case "throw":
		return "(future (throw " + m[2] + "))", m[3] == ""
	case "sleep":
		return "(future (do (sleep " + m[2] + ") " + m[3] + "))", m[3] != ""
	case "hsleep":
		return "(future (do (hsleep! " + m[2] + ") " + m[3] + "))", m[3] != ""
	}
	return "", false
}

var reAtomStr = regexp.MustCompile(`^«atom (-?\d+)»$`)

// resOf: canonical result of one op
func resOf(v MalType, err error) string {
	if err != nil {
		if ev, ok := err.(interface{ ErrorValue() MalType }); ok {
			if n, ok := ev.ErrorValue().(int); ok {
				return "e" + strconv.Itoa(n)
			}
		}
		return "ep"
	}
	switch x := v.(type) {
	case int:
		return "v" + strconv.Itoa(x)
	case bool:
		if x {
			return "T"
		}
		return "F"
	case string:
		if m := reAtomStr.FindStringSubmatch(x); m != nil {
			return "v" + m[1]
		}
	}
	return "o" + strings.ReplaceAll(render(v), " ", "")
}

type histRec struct {
	t, i      int
	inv, resp int64
	res       string
}

func runHist(payload string) (string, string) {
	parts := strings.Split(payload, " | ")
	head := strings.Fields(parts[0])
	if len(head) != 4 || len(parts) < 2 {
		return "bad-case", "-"
	}
	w, err := newConcWorld()
	if err != nil {
		return "setup-error", "-"
	}
	call.CallOverrideFN(w.env, "hsleep!", func(ms int) (MalType, error) {
		time.Sleep(time.Duration(ms) * time.Millisecond)
		return nil, nil
	})
	ctx := context.Background()
	natoms := 0
	switch {
	case head[1] == "a" && strings.HasPrefix(head[3], "init="):
		for i, v := range strings.Split(head[3][5:], ",") {
			if _, err := strconv.Atoi(v); err != nil {
				return "bad-case", "-"
			}
			if _, err := w.eval(ctx, fmt.Sprintf("(def a%d (atom %s))", i, v)); err != nil {
				return "setup-error", "-"
			}
			natoms++
		}
	case head[1] == "f" && strings.HasPrefix(head[3], "fut="):
	default:
		return "bad-case", "-"
	}
	// read every op before anything runs
	var progs [][]MalType
	for _, tp := range parts[1:] {
		var asts []MalType
		for _, tok := range strings.Fields(tp) {
			src, ok := opSource(tok)
			if !ok {
				return "bad-case", "-"
			}
			ast, err := lisp.READ(src, nil, w.env)
			if err != nil {
				return "bad-case", "-"
			}
			asts = append(asts, ast)
		}
		progs = append(progs, asts)
	}
	if head[1] == "f" {
		for i, b := range strings.Split(head[3][4:], ",") {
			src, ok := bodySource(b)
			if !ok {
				return "bad-case", "-"
			}
			if _, err := w.eval(ctx, fmt.Sprintf("(def f%d %s)", i, src)); err != nil {
				return "setup-error", "-"
			}
		}
	}
	var clock int64
	recs := make([][]histRec, len(progs))
	finals := make([]string, natoms)
	ok := within(concWatchdog, func() {
		var wg sync.WaitGroup
		start := make(chan struct{})
		for t := range progs {
			wg.Add(1)
			go func(t int) {
				defer wg.Done()
				<-start
				for i, ast := range progs[t] {
					inv := atomic.AddInt64(&clock, 1)
					v, err := lisp.EVAL(ctx, ast, w.env)
					resp := atomic.AddInt64(&clock, 1)
					recs[t] = append(recs[t], histRec{t, i, inv, resp, resOf(v, err)})
				}
			}(t)
		}
		close(start)
		wg.Wait()
		for i := range finals {
			v, err := w.eval(ctx, fmt.Sprintf("(deref a%d)", i))
			finals[i] = resOf(v, err)
		}
	})
	if !ok {
		return "BLOCKED\t!operations on shared " + map[string]string{"a": "atoms", "f": "futures"}[head[1]] + " blocked forever", "-"
	}
	var b strings.Builder
	for _, rs := range recs {
		for _, r := range rs {
			fmt.Fprintf(&b, "%d.%d:%d:%d:%s ", r.t, r.i, r.inv, r.resp, r.res)
		}
	}
	if natoms > 0 {
		b.WriteString("final=" + strings.Join(finals, ","))
	}
	return "ok", strings.TrimSpace(b.String())
}

package main

// Fact group "Registry" (properties C13, C20): the builtin registrations of /repo as Lean data
// (lean/LispModel/Generated/Registry.lean).
//
//   * every `call.Call(env, f, bounds...)` / `call.CallOverrideFN(env, "name", f, bounds...)` in the
//     loader functions of lib/core/core.go (Load, LoadInput) and lib/concurrent/concurrent.go (Load):
//     the lisp name (for call.Call derived as lib/call/call.go does: identifier lower-cased, `_` -> `-`),
//     and from the declaration of f (a top-level func of the same file, or the func literal): is the
//     first parameter context.Context, the kinds of the remaining parameters, variadic?, number of
//     results, the explicit bounds.
//   * every `env.Set(Symbol{Val: "name"}, Func{Fn: func(ctx, a []MalType) …})` in the loaders of
//     lib/core/nscore/nscore.go (that is how `eval` is bound), with the `len(a) != N` guard if the
//     literal starts with one.
// Syntactic only (go/parser + go/ast); data only; the lemmas are in lean/LispModel/Tie/Registry.lean.

import (
	"fmt"
	"go/ast"
	"go/parser"
	"go/token"
	"go/types"
	"path/filepath"
	"strconv"
	"strings"
)

func init() { factGroups["Registry"] = registryFacts }

type regSource struct {
	file    string
	loaders []string
}

var registrySources = []regSource{
	{"lib/core/core.go", []string{"Load", "LoadInput"}},
	{"lib/concurrent/concurrent.go", []string{"Load"}},
}

var registryDirect = regSource{"lib/core/nscore/nscore.go", []string{"Load", "LoadInput"}}

// type text with a `types.` qualifier dropped (concurrent.go imports the package both ways)
func regTypeText(e ast.Expr) string {
	return strings.TrimPrefix(types.ExprString(e), "types.")
}

func regKind(e ast.Expr) string {
	switch t := regTypeText(e); t {
	case "MalType", "interface{}", "any":
		return ".any"
	case "int":
		return ".int"
	case "string":
		return ".str"
	case "Vector":
		return ".vec"
	case "HashMap":
		return ".map"
	case "Symbol":
		return ".sym"
	default:
		return ".other " + leanStr(t)
	}
}

func regFieldCount(f *ast.Field) int {
	if len(f.Names) == 0 {
		return 1
	}
	return len(f.Names)
}

// (ctx first?, kinds of the other parameters, variadic?, number of results)
func regSignature(ft *ast.FuncType) (ctx bool, kinds []string, variadic bool, results int) {
	first := true
	if ft.Params != nil {
		for _, f := range ft.Params.List {
			for i := 0; i < regFieldCount(f); i++ {
				if first && regTypeText(f.Type) == "context.Context" {
					ctx, first = true, false
					continue
				}
				first = false
				if el, ok := f.Type.(*ast.Ellipsis); ok {
					variadic = true
					kinds = append(kinds, regKind(el.Elt))
				} else {
					kinds = append(kinds, regKind(f.Type))
				}
			}
		}
	}
	if ft.Results != nil {
		for _, f := range ft.Results.List {
			results += regFieldCount(f)
		}
	}
	return
}

func regLoaders(f *ast.File, names []string) []*ast.FuncDecl {
	var out []*ast.FuncDecl
	for _, want := range names {
		for _, d := range f.Decls {
			if fd, ok := d.(*ast.FuncDecl); ok && fd.Recv == nil && fd.Body != nil && fd.Name.Name == want {
				out = append(out, fd)
			}
		}
	}
	return out
}

func regBool(b bool) string {
	if b {
		return "true"
	}
	return "false"
}

// one `call.Call` / `call.CallOverrideFN` as a Lean record literal
func regCallRow(rel, loader string, c *ast.CallExpr, override bool, decls map[string]*ast.FuncDecl) string {
	args := c.Args
	name, resolved := "?", true
	fnIdx := 1
	if override {
		fnIdx = 2
		if len(args) > 1 {
			if bl, ok := args[1].(*ast.BasicLit); ok && bl.Kind == token.STRING {
				if s, err := strconv.Unquote(bl.Value); err == nil {
					name = s
				}
			}
		}
		if name == "?" {
			resolved = false
		}
	}
	goName := "?"
	var ft *ast.FuncType
	if len(args) > fnIdx {
		switch f := args[fnIdx].(type) {
		case *ast.Ident:
			goName = f.Name
			if fd := decls[f.Name]; fd != nil {
				ft = fd.Type
			}
			if !override {
				name = strings.ReplaceAll(strings.ToLower(f.Name), "_", "-")
			}
		case *ast.FuncLit:
			goName, ft = "func", f.Type
			if !override {
				resolved = false // call.go would name it after the enclosing function: `func1`
			}
		default:
			goName = types.ExprString(f)
		}
	}
	var ctx, variadic bool
	var kinds []string
	results := 0
	if ft != nil {
		ctx, kinds, variadic, results = regSignature(ft)
	} else {
		resolved = false
	}
	var bounds []string
	if len(args) > fnIdx+1 {
		for _, b := range args[fnIdx+1:] {
			bl, ok := b.(*ast.BasicLit)
			if !ok || bl.Kind != token.INT || c.Ellipsis.IsValid() {
				resolved = false
				continue
			}
			bounds = append(bounds, bl.Value)
		}
	}
	return fmt.Sprintf("  ⟨%s, %s, %s, %s, %s, %s, [%s], %s, %d, [%s]⟩", leanStr(rel), leanStr(loader), leanStr(name),
		leanStr(goName), regBool(resolved), regBool(ctx), strings.Join(kinds, ", "), regBool(variadic), results,
		strings.Join(bounds, ", "))
}

func regCallRows(repo string) ([]string, error) {
	var rows []string
	for _, src := range registrySources {
		f, err := parser.ParseFile(token.NewFileSet(), filepath.Join(repo, src.file), nil, 0)
		if err != nil {
			return nil, err
		}
		decls := map[string]*ast.FuncDecl{}
		for _, d := range f.Decls {
			if fd, ok := d.(*ast.FuncDecl); ok && fd.Recv == nil {
				decls[fd.Name.Name] = fd
			}
		}
		for _, ld := range regLoaders(f, src.loaders) {
			ast.Inspect(ld.Body, func(n ast.Node) bool {
				c, ok := n.(*ast.CallExpr)
				if !ok {
					return true
				}
				sel, ok := c.Fun.(*ast.SelectorExpr)
				if !ok {
					return true
				}
				if x, ok := sel.X.(*ast.Ident); !ok || x.Name != "call" {
					return true
				}
				switch sel.Sel.Name {
				case "Call":
					rows = append(rows, regCallRow(src.file, ld.Name.Name, c, false, decls))
				case "CallOverrideFN":
					rows = append(rows, regCallRow(src.file, ld.Name.Name, c, true, decls))
				}
				return true
			})
		}
	}
	return rows, nil
}

// `Symbol{Val: "name"}` -> name
func regSymbolLit(e ast.Expr) (string, bool) {
	cl, ok := e.(*ast.CompositeLit)
	if !ok || regTypeText(cl.Type) != "Symbol" || len(cl.Elts) != 1 {
		return "", false
	}
	v := cl.Elts[0]
	if kv, ok := v.(*ast.KeyValueExpr); ok {
		v = kv.Value
	}
	bl, ok := v.(*ast.BasicLit)
	if !ok || bl.Kind != token.STRING {
		return "", false
	}
	s, err := strconv.Unquote(bl.Value)
	return s, err == nil
}

// `Func{Fn: func(…){…}}` -> the literal
func regFuncLit(e ast.Expr) *ast.FuncLit {
	cl, ok := e.(*ast.CompositeLit)
	if !ok || regTypeText(cl.Type) != "Func" {
		return nil
	}
	for _, el := range cl.Elts {
		if kv, ok := el.(*ast.KeyValueExpr); ok {
			if k, ok := kv.Key.(*ast.Ident); ok && k.Name == "Fn" {
				fl, _ := kv.Value.(*ast.FuncLit)
				return fl
			}
		}
	}
	return nil
}

// first statement `if len(p) != N { return … }` -> "some N", else "none"
func regLenGuard(fl *ast.FuncLit) string {
	if len(fl.Body.List) == 0 {
		return "none"
	}
	is, ok := fl.Body.List[0].(*ast.IfStmt)
	if !ok || is.Init != nil || is.Else != nil || len(is.Body.List) != 1 {
		return "none"
	}
	if _, ok := is.Body.List[0].(*ast.ReturnStmt); !ok {
		return "none"
	}
	be, ok := is.Cond.(*ast.BinaryExpr)
	if !ok || be.Op != token.NEQ {
		return "none"
	}
	c, ok := be.X.(*ast.CallExpr)
	if !ok || types.ExprString(c.Fun) != "len" || len(c.Args) != 1 {
		return "none"
	}
	bl, ok := be.Y.(*ast.BasicLit)
	if !ok || bl.Kind != token.INT {
		return "none"
	}
	return "some " + bl.Value
}

func regDirectRows(repo string) ([]string, error) {
	src := registryDirect
	f, err := parser.ParseFile(token.NewFileSet(), filepath.Join(repo, src.file), nil, 0)
	if err != nil {
		return nil, err
	}
	var rows []string
	for _, ld := range regLoaders(f, src.loaders) {
		ast.Inspect(ld.Body, func(n ast.Node) bool {
			c, ok := n.(*ast.CallExpr)
			if !ok || len(c.Args) != 2 || types.ExprString(c.Fun) != "env.Set" {
				return true
			}
			name, ok := regSymbolLit(c.Args[0])
			fl := regFuncLit(c.Args[1])
			if !ok || fl == nil {
				return true // a plain value binding (*ARGV* …), not a builtin
			}
			ctx, kinds, variadic, results := regSignature(fl.Type)
			rows = append(rows, fmt.Sprintf("  ⟨%s, %s, %s, %s, [%s], %s, %d, %s⟩", leanStr(src.file), leanStr(ld.Name.Name),
				leanStr(name), regBool(ctx), strings.Join(kinds, ", "), regBool(variadic), results, regLenGuard(fl)))
			return true
		})
	}
	return rows, nil
}

func registryFacts(repo string) (string, error) {
	calls, err := regCallRows(repo)
	if err != nil {
		return "", err
	}
	direct, err := regDirectRows(repo)
	if err != nil {
		return "", err
	}
	var b strings.Builder
	b.WriteString("/- GENERATED by `harness facts` (harness/facts_registry.go) from the Go sources of /repo:\n")
	b.WriteString("   the `call.Call` / `call.CallOverrideFN` registrations of lib/core/core.go (Load, LoadInput) and\n")
	b.WriteString("   lib/concurrent/concurrent.go (Load), and the direct `env.Set(Symbol{…}, Func{Fn: …})` bindings of\n")
	b.WriteString("   lib/core/nscore/nscore.go.  Data only.  Do not edit. -/\n")
	b.WriteString("namespace LispModel.Generated.Registry\n\n")
	b.WriteString("/-- Go parameter type, as the model's binder kinds see it -/\n")
	b.WriteString("inductive Kind where\n  | any | int | str | vec | map | sym\n  | other (goType : String)\nderiving Repr, DecidableEq\n\n")
	b.WriteString("/-- one reflective registration: file, loader function, lisp name, Go function (`func` = literal),\n")
	b.WriteString("    everything resolved syntactically?, first parameter is context.Context?, kinds of the other\n")
	b.WriteString("    parameters (for a variadic function the last one is the element kind), variadic?, number of\n")
	b.WriteString("    results, explicit bounds -/\n")
	b.WriteString("structure Reg where\n  file : String\n  loader : String\n  name : String\n  goName : String\n  resolved : Bool\n  ctx : Bool\n  params : List Kind\n  variadic : Bool\n  results : Nat\n  bounds : List Nat\nderiving Repr, DecidableEq\n\n")
	b.WriteString("/-- one direct binding of a `Func{Fn: func literal}`: file, loader, lisp name, signature of the literal\n")
	b.WriteString("    as above, and N when the literal starts with `if len(a) != N { return … }` -/\n")
	b.WriteString("structure Direct where\n  file : String\n  loader : String\n  name : String\n  ctx : Bool\n  params : List Kind\n  variadic : Bool\n  results : Nat\n  lenGuard : Option Nat\nderiving Repr, DecidableEq\n\n")
	fmt.Fprintf(&b, "def registrations : List Reg := [\n%s]\n\n", strings.Join(calls, ",\n"))
	fmt.Fprintf(&b, "def directBindings : List Direct := [\n%s]\n\n", strings.Join(direct, ",\n"))
	b.WriteString("end LispModel.Generated.Registry\n")
	return b.String(), nil
}

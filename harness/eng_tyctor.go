package main

// engine "tyctor" (supports C13, C04, C14): the value constructors, predicates and helpers of types/types.go, each
// called directly (no evaluator) under recover.  Protocol: see lean/LispModel/TyCtorDriver.lean.
//
//   payload := <fn> <argument terms>      terms = the canonical value protocol of proto.go, extended by
//     ( ZS ) the zero Set{} | ( WM t meta ) | ( WC t cur ) | ( FN <e><g><m> <env> params exp ) | ( BI id|- ) |
//     ( RF id|- ) | ( OP <%T> <Name|-> )          cur := C- | C<-|m<hex>>:<beginRow>:<beginCol>:<row>:<col>
//   observation: T | F | ok <term> | ok [ <term>* ] … | err <class> | PANIC <kind> | bad-case

import (
	"container/list"
	"context"
	"encoding/hex"
	"errors"
	"fmt"
	"reflect"
	"runtime"
	"sort"
	"strconv"
	"strings"
	"unicode/utf8"

	"github.com/jig/lisp"
	"github.com/jig/lisp/env"
	"github.com/jig/lisp/lib/core/nscore"
	. "github.com/jig/lisp/types"
)

type tyctorEngine struct{}

func init() { register("tyctor", &tyctorEngine{}) }

// ---------------------------------------------------------------- stub callees of Apply

// tcEnv: the EnvType handed to / produced by the GenEnv stub; only its description is ever looked at
type tcEnv struct {
	id   int
	desc string
}

func (e *tcEnv) Find(Symbol) EnvType               { return nil }
func (e *tcEnv) Set(_ Symbol, v MalType) MalType   { return v }
func (e *tcEnv) Get(Symbol) (MalType, error)       { return nil, errors.New("stub env") }
func (e *tcEnv) Remove(Symbol) error               { return nil }
func (e *tcEnv) RemoveNT(Symbol) error             { return nil }
func (e *tcEnv) Symbols([][]rune, string) [][]rune { return nil }
func (e *tcEnv) FindNT(Symbol) EnvType             { return nil }
func (e *tcEnv) SetNT(_ Symbol, v MalType) MalType { return v }
func (e *tcEnv) GetNT(Symbol) (MalType, error)     { return nil, errors.New("stub env") }
func (e *tcEnv) Update(Symbol, func(MalType) (MalType, error)) (MalType, error) {
	return nil, errors.New("stub env")
}

type tcCtxKeyT struct{}

var tcCtx = context.WithValue(context.Background(), tcCtxKeyT{}, "tyctor")

func tcCtxOK(ctx context.Context) bool { return ctx != nil && ctx.Value(tcCtxKeyT{}) == "tyctor" }

// tcProbe: a stub called with exactly this argument answers with its own id (functions cannot be compared)
type tcProbe struct{}

func tcStubBody(tag string, id int, a []MalType) (MalType, error) {
	if len(a) == 1 {
		if _, ok := a[0].(tcProbe); ok {
			return id, nil
		}
	}
	switch id % 3 {
	case 0:
		return List{Val: append([]MalType{tag, id}, a...)}, nil
	case 1:
		return nil, errors.New("stub:" + tag)
	}
	return nil, nil
}

func tcStubFn(id int) ExternalCall {
	return func(ctx context.Context, a []MalType) (MalType, error) {
		if !tcCtxOK(ctx) {
			return nil, errors.New("stub:ctxlost")
		}
		return tcStubBody("fn", id, a)
	}
}

func tcStubRaw(id int) func([]MalType) (MalType, error) {
	return func(a []MalType) (MalType, error) { return tcStubBody("raw", id, a) }
}

func tcStubGenEnv(e EnvType, params MalType, args MalType) (EnvType, error) {
	te, ok := e.(*tcEnv)
	if !ok {
		return nil, errors.New("stub:envlost")
	}
	if te.id%3 == 1 {
		return nil, errors.New("stub:genenv")
	}
	return &tcEnv{id: te.id, desc: "G(" + te.desc + ";" + tcRender(params) + ";" + tcRender(args) + ")"}, nil
}

func tcStubEval(ctx context.Context, exp MalType, e EnvType) (MalType, error) {
	if !tcCtxOK(ctx) {
		return nil, errors.New("stub:ctxlost")
	}
	if s, ok := exp.(Symbol); ok && s.Val == "fail" {
		return nil, errors.New("stub:eval")
	}
	te, ok := e.(*tcEnv)
	if !ok {
		return nil, errors.New("stub:envlost")
	}
	return List{Val: []MalType{"eval", exp, te.desc}}, nil
}

// ---------------------------------------------------------------- other Go values ( OP <%T> <Name|-> )

func tcLocalVector() MalType {
	type Vector struct{ n int } // a type NAMED Vector that is not types.Vector
	return Vector{n: 1}
}

var tcOthers = map[string]func() MalType{
	"float32":                  func() MalType { return float32(1.5) },
	"list.List":                func() MalType { return *list.New() },
	"*list.List":               func() MalType { return list.New() },
	"main.Vector":              tcLocalVector,
	"*types.Position":          func() MalType { return &Position{} },
	"types.Placeholder":        func() MalType { return Placeholder{Index: 1} },
	"types.ExternalCall":       func() MalType { return tcStubFn(0) },
	"*errors.errorString":      func() MalType { return errors.New("x") },
	"*types.List":              func() MalType { return &List{} },
	"[]types.MalType":          func() MalType { return []MalType{1} },
	"map[string]types.MalType": func() MalType { return map[string]MalType{} },
}

func tcUS(s string) string { return strings.ReplaceAll(s, " ", "_") }

func tcTypeText(v MalType) string { return tcUS(fmt.Sprintf("%T", v)) }

func tcNameText(v MalType) string {
	if n := reflect.TypeOf(v).Name(); n != "" {
		return n
	}
	return "-"
}

// ---------------------------------------------------------------- cursors

func tcRenderCur(p *Position) string {
	if p == nil {
		return "C-"
	}
	m := "-"
	if p.Module != nil {
		m = "m" + hx(*p.Module)
	}
	return fmt.Sprintf("C%s:%d:%d:%d:%d", m, p.BeginRow, p.BeginCol, p.Row, p.Col)
}

func tcParseCur(t string) (*Position, error) {
	if len(t) < 2 || t[0] != 'C' {
		return nil, errors.New("cursor")
	}
	if t == "C-" {
		return nil, nil
	}
	parts := strings.Split(t[1:], ":")
	if len(parts) != 5 {
		return nil, errors.New("cursor")
	}
	p := &Position{}
	switch {
	case parts[0] == "-":
	case strings.HasPrefix(parts[0], "m"):
		s, err := tcUnhex(parts[0][1:])
		if err != nil || !utf8.ValidString(s) {
			return nil, errors.New("cursor module")
		}
		p.Module = &s
	default:
		return nil, errors.New("cursor")
	}
	for i, dst := range []*int{&p.BeginRow, &p.BeginCol, &p.Row, &p.Col} {
		n, err := tcStrictInt(parts[i+1])
		if err != nil {
			return nil, err
		}
		*dst = n
	}
	return p, nil
}

func tcUnhex(h string) (string, error) {
	bs, err := hex.DecodeString(h)
	return string(bs), err
}

// ---------------------------------------------------------------- terms: parser

func tcWithMeta(v MalType, m MalType) (MalType, error) {
	switch t := v.(type) {
	case List:
		t.Meta = m
		return t, nil
	case Vector:
		t.Meta = m
		return t, nil
	case HashMap:
		t.Meta = m
		return t, nil
	case Set:
		t.Meta = m
		return t, nil
	case MalFunc:
		t.Meta = m
		return t, nil
	case Func:
		t.Meta = m
		return t, nil
	}
	return nil, errors.New("WM on a value without Meta")
}

func tcWithCur(v MalType, c *Position) (MalType, error) {
	switch t := v.(type) {
	case List:
		t.Cursor = c
		return t, nil
	case Vector:
		t.Cursor = c
		return t, nil
	case MalFunc:
		t.Cursor = c
		return t, nil
	}
	return nil, errors.New("WC on a value without modelled Cursor")
}

func tcFnID(t string) (int, bool, error) { // id, non-nil?, error
	if t == "-" {
		return 0, false, nil
	}
	for _, c := range t {
		if c < '0' || c > '9' {
			return 0, false, errors.New("fn id")
		}
	}
	n, err := strconv.Atoi(t)
	return n, true, err
}

func tcExpectClose(rest []string) ([]string, error) {
	if len(rest) == 0 || rest[0] != ")" {
		return nil, errors.New("expected )")
	}
	return rest[1:], nil
}

func tcStrictInt(s string) (int, error) {
	d := strings.TrimPrefix(s, "-")
	if d == "" {
		return 0, errors.New("int")
	}
	for _, c := range d {
		if c < '0' || c > '9' {
			return 0, errors.New("int")
		}
	}
	return strconv.Atoi(s)
}

func tcParseItems(toks []string) ([]MalType, []string, error) {
	items := []MalType{}
	for {
		if len(toks) == 0 {
			return nil, nil, errors.New("eof")
		}
		if toks[0] == ")" {
			return items, toks[1:], nil
		}
		v, rest, err := tcParse(toks)
		if err != nil {
			return nil, nil, err
		}
		items = append(items, v)
		toks = rest
	}
}

// tcParse: one term (the inverse of tcRender)
func tcParse(toks []string) (MalType, []string, error) {
	if len(toks) == 0 {
		return nil, nil, errors.New("eof")
	}
	t := toks[0]
	switch {
	case t == "N":
		return nil, toks[1:], nil
	case t == "T":
		return true, toks[1:], nil
	case t == "F":
		return false, toks[1:], nil
	case t == "(":
		return tcParseNode(toks[1:])
	case t[0] == 'I':
		i, err := tcStrictInt(t[1:])
		return i, toks[1:], err
	case t[0] == 'S' || t[0] == 'Y':
		s, err := tcUnhex(t[1:])
		if err == nil && !utf8.ValidString(s) {
			err = errors.New("utf8")
		}
		if t[0] == 'Y' {
			return Symbol{Val: s}, toks[1:], err
		}
		return s, toks[1:], err
	}
	return nil, nil, errors.New("token")
}

func tcParseNode(toks []string) (MalType, []string, error) {
	if len(toks) == 0 {
		return nil, nil, errors.New("eof")
	}
	tag, rest := toks[0], toks[1:]
	switch tag {
	case "L", "V", "M", "H":
		items, rest, err := tcParseItems(rest)
		if err != nil {
			return nil, nil, err
		}
		switch tag {
		case "L":
			return List{Val: items}, rest, nil
		case "V":
			return Vector{Val: items}, rest, nil
		case "M":
			if len(items)%2 != 0 {
				return nil, nil, errors.New("odd map")
			}
			m := map[string]MalType{}
			for i := 0; i < len(items); i += 2 {
				k, ok := items[i].(string)
				if !ok {
					return nil, nil, errors.New("map key")
				}
				m[k] = items[i+1]
			}
			return HashMap{Val: m}, rest, nil
		default:
			m := map[string]struct{}{}
			for _, it := range items {
				k, ok := it.(string)
				if !ok {
					return nil, nil, errors.New("set key")
				}
				m[k] = struct{}{}
			}
			return Set{Val: m}, rest, nil
		}
	case "ZS":
		rest, err := tcExpectClose(rest)
		return Set{}, rest, err
	case "WM":
		v, rest, err := tcParse(rest)
		if err != nil {
			return nil, nil, err
		}
		m, rest, err := tcParse(rest)
		if err != nil {
			return nil, nil, err
		}
		if rest, err = tcExpectClose(rest); err != nil {
			return nil, nil, err
		}
		out, err := tcWithMeta(v, m)
		return out, rest, err
	case "WC":
		v, rest, err := tcParse(rest)
		if err != nil {
			return nil, nil, err
		}
		if len(rest) < 2 || rest[1] != ")" {
			return nil, nil, errors.New("WC")
		}
		c, err := tcParseCur(rest[0])
		if err != nil {
			return nil, nil, err
		}
		out, err := tcWithCur(v, c)
		return out, rest[2:], err
	}
	return tcParseFuncNode(tag, rest)
}

func tcParseFuncNode(tag string, rest []string) (MalType, []string, error) {
	switch tag {
	case "FN":
		if len(rest) < 2 || len(rest[0]) != 3 || strings.Trim(rest[0], "01") != "" {
			return nil, nil, errors.New("FN flags")
		}
		flags := rest[0]
		env, nonNil, err := tcFnID(rest[1])
		if err != nil || !nonNil {
			return nil, nil, errors.New("FN env")
		}
		params, rest, err := tcParse(rest[2:])
		if err != nil {
			return nil, nil, err
		}
		exp, rest, err := tcParse(rest)
		if err != nil {
			return nil, nil, err
		}
		if rest, err = tcExpectClose(rest); err != nil {
			return nil, nil, err
		}
		f := MalFunc{Exp: exp, Params: params, Env: &tcEnv{id: env, desc: "e" + strconv.Itoa(env)}, IsMacro: flags[2] == '1'}
		if flags[0] == '1' {
			f.Eval = tcStubEval
		}
		if flags[1] == '1' {
			f.GenEnv = tcStubGenEnv
		}
		return f, rest, nil
	case "BI", "RF":
		if len(rest) < 2 || rest[1] != ")" {
			return nil, nil, errors.New(tag)
		}
		id, nonNil, err := tcFnID(rest[0])
		if err != nil {
			return nil, nil, err
		}
		if tag == "BI" {
			if !nonNil {
				return Func{}, rest[2:], nil
			}
			return Func{Fn: tcStubFn(id)}, rest[2:], nil
		}
		if !nonNil {
			return (func([]MalType) (MalType, error))(nil), rest[2:], nil
		}
		return tcStubRaw(id), rest[2:], nil
	case "OP":
		if len(rest) < 3 || rest[2] != ")" {
			return nil, nil, errors.New("OP")
		}
		mk, ok := tcOthers[rest[0]]
		if !ok {
			return nil, nil, errors.New("OP: no such value in the engine's table")
		}
		v := mk()
		if tcTypeText(v) != rest[0] || tcNameText(v) != rest[1] {
			return nil, nil, errors.New("OP: %T / Name() differ from the term")
		}
		return v, rest[3:], nil
	}
	return nil, nil, errors.New("tag")
}

// ---------------------------------------------------------------- terms: canonical rendering of REAL values

func tcRender(v MalType) string {
	var b strings.Builder
	tcRenderTo(&b, v, 0)
	return b.String()
}

func tcWrap(b *strings.Builder, base string, meta MalType, cur *Position, depth int) {
	a := base
	if meta != nil {
		var mb strings.Builder
		tcRenderTo(&mb, meta, depth+1)
		a = "( WM " + base + " " + mb.String() + " )"
	}
	if cur != nil {
		a = "( WC " + a + " " + tcRenderCur(cur) + " )"
	}
	b.WriteString(a)
}

func tcProbeID(call func([]MalType) (MalType, error)) string {
	id, err := call([]MalType{tcProbe{}})
	if n, ok := id.(int); ok && err == nil {
		return strconv.Itoa(n)
	}
	return "?"
}

func tcRenderItems(xs []MalType, depth int) string {
	var b strings.Builder
	for _, x := range xs {
		b.WriteString(" ")
		tcRenderTo(&b, x, depth+1)
	}
	return b.String()
}

func tcRenderTo(b *strings.Builder, v MalType, depth int) {
	if depth > 100 {
		b.WriteString("DEEP")
		return
	}
	switch t := v.(type) {
	case nil:
		b.WriteString("N")
	case bool:
		if t {
			b.WriteString("T")
		} else {
			b.WriteString("F")
		}
	case int:
		b.WriteString("I" + strconv.Itoa(t))
	case string:
		b.WriteString("S" + hx(t))
	case Symbol:
		b.WriteString("Y" + hx(t.Val))
	case List:
		tcWrap(b, "( L"+tcRenderItems(t.Val, depth)+" )", t.Meta, t.Cursor, depth)
	case Vector:
		tcWrap(b, "( V"+tcRenderItems(t.Val, depth)+" )", t.Meta, t.Cursor, depth)
	case HashMap:
		keys := make([]string, 0, len(t.Val))
		for k := range t.Val {
			keys = append(keys, k)
		}
		sort.Strings(keys)
		var mb strings.Builder
		for _, k := range keys {
			mb.WriteString(" S" + hx(k) + " ")
			tcRenderTo(&mb, t.Val[k], depth+1)
		}
		tcWrap(b, "( M"+mb.String()+" )", t.Meta, nil, depth)
	case Set:
		if t.Val == nil {
			tcWrap(b, "( ZS )", t.Meta, nil, depth)
			return
		}
		keys := make([]string, 0, len(t.Val))
		for k := range t.Val {
			keys = append(keys, k)
		}
		sort.Strings(keys)
		base := "( H"
		for _, k := range keys {
			base += " S" + hx(k)
		}
		tcWrap(b, base+" )", t.Meta, nil, depth)
	case MalFunc:
		flag := func(c bool) string {
			if c {
				return "1"
			}
			return "0"
		}
		env := "?"
		if te, ok := t.Env.(*tcEnv); ok {
			env = strconv.Itoa(te.id)
		}
		base := "( FN " + flag(t.Eval != nil) + flag(t.GenEnv != nil) + flag(t.IsMacro) + " " + env + " " +
			tcRender(t.Params) + " " + tcRender(t.Exp) + " )"
		tcWrap(b, base, t.Meta, t.Cursor, depth)
	case Func:
		id := "-"
		if t.Fn != nil {
			id = tcProbeID(func(a []MalType) (MalType, error) { return t.Fn(tcCtx, a) })
		}
		tcWrap(b, "( BI "+id+" )", t.Meta, nil, depth)
	case func([]MalType) (MalType, error):
		id := "-"
		if t != nil {
			id = tcProbeID(t)
		}
		b.WriteString("( RF " + id + " )")
	default:
		b.WriteString("( OP " + tcTypeText(v) + " " + tcNameText(v) + " )")
	}
}

// ---------------------------------------------------------------- outcomes

func tcErrClass(err error) string {
	m := err.Error()
	between := func(pfx, sfx string) (string, bool) {
		if strings.HasPrefix(m, pfx) && strings.HasSuffix(m, sfx) && len(m) >= len(pfx)+len(sfx) {
			return tcUS(m[len(pfx) : len(m)-len(sfx)]), true
		}
		return "", false
	}
	switch m {
	case "GetSlice called on non-sequence":
		return "notseq"
	case "odd number of arguments to NewHashMap":
		return "odd"
	case "set items must be strings or keywords":
		return "setitem"
	}
	if t, ok := between("expected hash-map key string (found ", ")"); ok {
		return "badkey:" + t
	}
	if t, ok := between("cannot convert from type ", ""); ok {
		return "from:" + t
	}
	if t, ok := between("cannot convert to type ", ""); ok {
		return "to:" + t
	}
	if t, ok := between("invalid function to Apply (", ")"); ok {
		return "apply:" + t
	}
	if t, ok := between("stub:", ""); ok {
		return "callee:" + t
	}
	return "other:" + tcUS(oneLine(m))
}

func tcPanicKind(r interface{}) string {
	if _, ok := r.(*runtime.TypeAssertionError); ok {
		return "assert"
	}
	m := fmt.Sprint(r)
	switch {
	case strings.Contains(m, "index out of range"):
		return "index"
	case strings.Contains(m, "nil pointer dereference"):
		return "nilderef"
	case strings.Contains(m, "assignment to entry in nil map"):
		return "nilmap"
	}
	return "other:" + tcUS(oneLine(m))
}

// tcGuard: the call of the function under test, under recover
func tcGuard(f func() string) (obs string) {
	defer func() {
		if r := recover(); r != nil {
			obs = "PANIC " + tcPanicKind(r)
		}
	}()
	return f()
}

func tcTF(b bool) string {
	if b {
		return "T"
	}
	return "F"
}

func tcOutcome(v MalType, err error) string {
	if err != nil {
		return "err " + tcErrClass(err)
	}
	return "ok " + tcRender(v)
}

func tcSlice(xs []MalType) string { return "[" + tcRenderItems(xs, 0) + " ]" }

// ---------------------------------------------------------------- run

var tcQ = map[string]func(MalType) bool{
	"bool": Q[bool], "int": Q[int], "string": Q[string], "Symbol": Q[Symbol], "List": Q[List], "Vector": Q[Vector],
	"HashMap": Q[HashMap], "Set": Q[Set], "MalFunc": Q[MalFunc], "Func": Q[Func],
	"RawFunc": Q[func([]MalType) (MalType, error)], "any": Q[MalType], "float32": Q[float32], "Placeholder": Q[Placeholder],
}

var tcQTypes = []string{"bool", "int", "string", "Symbol", "List", "Vector", "HashMap", "Set", "MalFunc", "Func", "RawFunc", "any", "float32", "Placeholder"}

func tcParseAll(toks []string) ([]MalType, bool) {
	out := []MalType{}
	for len(toks) > 0 {
		v, rest, err := tcParse(toks)
		if err != nil {
			return nil, false
		}
		out = append(out, v)
		toks = rest
	}
	return out, true
}

func (e *tyctorEngine) run(payload string) string {
	toks := strings.Fields(payload)
	if len(toks) == 0 {
		return "bad-case"
	}
	fn := toks[0]
	switch {
	case fn == "q" && len(toks) >= 2:
		pred, ok := tcQ[toks[1]]
		args, ok2 := tcParseAll(toks[2:])
		if !ok || !ok2 || len(args) != 1 {
			return "bad-case"
		}
		return tcGuard(func() string { return tcTF(pred(args[0])) })
	case fn == "line" && len(toks) == 3:
		cur, err := tcParseCur(toks[1])
		args, ok := tcParseAll(toks[2:])
		if err != nil || !ok || len(args) != 1 {
			return "bad-case"
		}
		msg, isS := args[0].(string)
		if !isS {
			return "bad-case"
		}
		return tcGuard(func() string { return "S" + hx(Line(cur, msg)) })
	case fn == "tokpos" && len(toks) == 2:
		cur, err := tcParseCur(toks[1])
		if err != nil || cur == nil {
			return "bad-case"
		}
		return tcGuard(func() string {
			tok := Token{Value: "v", Type: 'x', Cursor: *cur}
			got := tok.GetPosition()
			out := tcRenderCur(got)
			got.Row++ // the pointer is into a COPY of the token: the token itself must not move
			if tok.Cursor.Row != cur.Row {
				return out + "\t!GetPosition aliases the token"
			}
			return out
		})
	}
	args, ok := tcParseAll(toks[1:])
	if !ok {
		return "bad-case"
	}
	return tcGuard(func() string { return tcCall(fn, args) })
}

func tcCall(fn string, a []MalType) string {
	one := len(a) == 1
	switch {
	case fn == "nil?" && one:
		return tcTF(Nil_Q(a[0]))
	case fn == "true?" && one:
		return tcTF(True_Q(a[0]))
	case fn == "false?" && one:
		return tcTF(False_Q(a[0]))
	case fn == "keyword?" && one:
		return tcTF(Keyword_Q(a[0]))
	case fn == "string?" && one:
		return tcTF(String_Q(a[0]))
	case fn == "sequential?" && one:
		return tcTF(Sequential_Q(a[0]))
	case fn == "newKeyword" && one:
		if s, ok := a[0].(string); ok {
			return "S" + hx(NewKeyword(s))
		}
	case fn == "setMacro" && one:
		if f, ok := a[0].(MalFunc); ok {
			before := f.IsMacro
			out := "ok " + tcRender(f.SetMacro())
			if f.IsMacro != before {
				out += "\t!SetMacro changed its receiver"
			}
			return out
		}
	case fn == "getMacro" && one:
		if f, ok := a[0].(MalFunc); ok {
			return tcTF(f.GetMacro())
		}
	case fn == "newList":
		return "ok " + tcRender(NewList(a...))
	case fn == "getSlice" && one:
		xs, err := GetSlice(a[0])
		if err != nil {
			return "err " + tcErrClass(err)
		}
		return "ok " + tcSlice(xs)
	case fn == "newHashMap" && one:
		v, err := NewHashMap(a[0])
		out := tcOutcome(v, err)
		if hm, ok := v.(HashMap); ok && err == nil && hm.Cursor != nil {
			out += "\t!NewHashMap set a cursor"
		}
		return out
	case fn == "newSet" && one:
		s, err := NewSet(a[0])
		if err != nil {
			return "err " + tcErrClass(err)
		}
		return "ok " + tcRender(s) + tcZeroSetOracle(s)
	case fn == "convertFrom" && one:
		xs, meta, err := ConvertFrom(a[0])
		if err != nil {
			return "err " + tcErrClass(err)
		}
		if _, isSet := a[0].(Set); isSet { // Go map order: canonicalise
			xs = append([]MalType{}, xs...)
			sort.Slice(xs, func(i, j int) bool { return fmt.Sprint(xs[i]) < fmt.Sprint(xs[j]) })
		}
		return "ok " + tcSlice(xs) + " " + tcRender(meta)
	case fn == "convertTo" && len(a) >= 2:
		return tcOutcome(ConvertTo(a[2:], a[0], a[1]))
	case fn == "apply" && len(a) >= 1:
		return tcOutcome(Apply(tcCtx, a[0], a[1:]))
	}
	return "bad-case"
}

// tcZeroSetOracle (harness-side): whatever NewSet returned — the zero Set{} with its NIL map included — the real
// `count`, `conj`, `contains?` builtins must work on it (reads of a nil map are fine, a write would panic)
var tcCoreEnv EnvType

func tcZeroSetOracle(s Set) (marker string) {
	defer func() {
		if r := recover(); r != nil {
			marker = "\t!a core builtin panics on the set NewSet returned: " + oneLine(fmt.Sprint(r))
		}
	}()
	if tcCoreEnv == nil {
		e := env.NewEnv()
		if err := nscore.Load(e); err != nil {
			return "\t!setup: " + oneLine(err.Error())
		}
		tcCoreEnv = e
	}
	q := List{Val: []MalType{Symbol{Val: "quote"}, s}}
	eval := func(items ...MalType) (MalType, error) {
		return lisp.EVAL(context.Background(), List{Val: items}, tcCoreEnv)
	}
	n, err := eval(Symbol{Val: "count"}, q)
	if err != nil || n != len(s.Val) {
		return "\t!count on the new set: " + fmt.Sprint(n, err)
	}
	c, err := eval(Symbol{Val: "conj"}, q, "zz")
	cs, ok := c.(Set)
	if _, had := s.Val["zz"]; err != nil || !ok || (!had && len(cs.Val) != len(s.Val)+1) {
		return "\t!conj on the new set: " + fmt.Sprint(c, err)
	}
	if _, has := cs.Val["zz"]; !has || (s.Val == nil && len(s.Val) != 0) {
		return "\t!conj on the new set lost the member"
	}
	return ""
}

// ---------------------------------------------------------------- generation

var tcStrPool = []string{"", "a", "b", "k", "x y", "ñ", "a\nb", "aʞ", "ʞa", "ʞb", "ʞk", "ʞ", "ʞʞa"}

var tcOtherTerms = func() []string {
	out := []string{}
	for ty, mk := range tcOthers {
		out = append(out, "( OP "+ty+" "+tcNameText(mk())+" )")
	}
	sort.Strings(out)
	return out
}()

// one representative of every kind of argument (the kind lattice): every function meets every one of them
var tcLattice = append([]string{
	"N", "T", "F", "I0", "I-7", "S", "S61", "S" + hx("ʞa"), "S" + hx("ʞ"), "S" + hx("aʞ"), "Y61", "Y" + hx("ʞa"),
	"( L )", "( L I1 S61 )", "( L S61 I1 )", "( L S61 I1 S61 I2 )", "( V )", "( V S61 I1 )", "( V S61 )", "( V S" + hx("ʞa") + " N )",
	"( M )", "( M S61 I1 )", "( H )", "( H S61 S" + hx("ʞa") + " )", "( ZS )",
	"( WM ( L I1 ) ( M S61 I1 ) )", "( WC ( V I1 ) C-:1:2:3:4 )", "( WC ( WM ( L S61 I1 ) S6d ) Cm6d:1:1:1:9 )",
	"( WM ( ZS ) S6d )", "( WM ( H S61 ) ( M S6b T ) )", "( WM ( M S61 I1 ) S6d )",
	"( FN 110 0 ( V Y61 ) Y61 )", "( FN 111 2 ( V ) ( L Y61 ) )", "( FN 000 0 N N )", "( FN 100 0 N N )", "( FN 010 0 N N )",
	"( FN 110 1 ( V ) Y61 )", "( FN 110 3 ( V ) Y6661696c )", "( WC ( WM ( FN 110 5 ( V Y26 Y61 ) Y61 ) S6d ) C-:2:1:2:8 )",
	"( BI 0 )", "( BI 1 )", "( BI 2 )", "( BI - )", "( WM ( BI 3 ) S6d )", "( RF 0 )", "( RF 1 )", "( RF 2 )", "( RF - )",
}, tcOtherTerms...)

var tcUnary = []string{"nil?", "true?", "false?", "keyword?", "string?", "sequential?", "getSlice", "newHashMap", "newSet",
	"convertFrom", "setMacro", "getMacro", "newKeyword", "apply", "newList"}

type tcGen struct{ r *rng }

func (g tcGen) str() string { return "S" + hx(g.r.pick(tcStrPool)) }

func (g tcGen) cur() string {
	r := g.r
	if r.chance(1, 4) {
		return "C-"
	}
	m := "-"
	if r.chance(1, 2) {
		m = "m" + hx(r.pick([]string{"m.lisp", "", "a b.lisp", "ñ§"}))
	}
	row := r.intn(5) - 1
	return fmt.Sprintf("C%s:%d:%d:%d:%d", m, 1+r.intn(3), 1+r.intn(9), row, r.intn(12))
}

func (g tcGen) scalar() string {
	r := g.r
	switch r.intn(10) {
	case 0:
		return "N"
	case 1:
		return r.pick([]string{"T", "F"})
	case 2, 3:
		return "I" + strconv.Itoa(r.intn(7)-2)
	case 4:
		return "Y" + hx(r.pick([]string{"a", "fail", "&", "ʞa"}))
	default:
		return g.str()
	}
}

func (g tcGen) items(n, depth int) string {
	var b strings.Builder
	for i := 0; i < n; i++ {
		b.WriteString(" " + g.val(depth+1))
	}
	return b.String()
}

// distinct keys: the canonical form of a map / set term has none twice
func (g tcGen) keys(n int) []string {
	seen := map[string]bool{}
	out := []string{}
	for i := 0; i < n; i++ {
		k := g.r.pick(tcStrPool)
		if !seen[k] {
			seen[k] = true
			out = append(out, "S"+hx(k))
		}
	}
	return out
}

func (g tcGen) fn() string {
	r := g.r
	flags := "110"
	switch r.intn(10) {
	case 0:
		flags = r.pick([]string{"000", "100", "010", "011", "101"})
	case 1, 2:
		flags = "111"
	}
	params := "( V" + g.items(r.intn(3), 3) + " )"
	if r.chance(1, 8) {
		params = g.val(3)
	}
	exp := r.pick([]string{"Y61", "Y6661696c", "( L Y61 I1 )", "N", "I3"})
	return "( FN " + flags + " " + strconv.Itoa(r.intn(6)) + " " + params + " " + exp + " )"
}

func (g tcGen) fnID() string {
	if g.r.chance(1, 8) {
		return "-"
	}
	return strconv.Itoa(g.r.intn(7))
}

// val: any value; collections and functions sometimes carry metadata / a cursor
func (g tcGen) val(depth int) string {
	r := g.r
	if depth >= 3 || r.chance(2, 5) {
		return g.scalar()
	}
	var t string
	canCur := false
	switch r.intn(12) {
	case 0, 1:
		t, canCur = "( L"+g.items(r.intn(4), depth)+" )", true
	case 2, 3:
		t, canCur = "( V"+g.items(r.intn(4), depth)+" )", true
	case 4, 5:
		t = "( M"
		for _, k := range g.keys(r.intn(4)) {
			t += " " + k + " " + g.val(depth+1)
		}
		t += " )"
	case 6:
		t = "( H"
		for _, k := range g.keys(r.intn(4)) {
			t += " " + k
		}
		t += " )"
	case 7:
		t = "( ZS )"
	case 8:
		t, canCur = g.fn(), true
	case 9:
		t = "( BI " + g.fnID() + " )"
	case 10:
		return "( RF " + g.fnID() + " )"
	default:
		return r.pick(tcOtherTerms)
	}
	if r.chance(1, 5) {
		t = "( WM " + t + " " + g.metaVal(depth) + " )"
	}
	if canCur && r.chance(1, 6) {
		t = "( WC " + t + " " + g.cur() + " )"
	}
	return t
}

func (g tcGen) metaVal(depth int) string {
	r := g.r
	switch r.intn(6) {
	case 0:
		return "N" // ( WM t N ) is t itself
	case 1, 2:
		return "( M S" + hx(r.pick(tcStrPool)) + " " + g.scalar() + " )"
	case 3:
		return "S" + hx("ʞtag")
	}
	return g.val(depth + 1)
}

// seq: a list or a vector of the given items
func (g tcGen) seq(items []string) string {
	t := "( " + g.r.pick([]string{"L", "V"})
	for _, it := range items {
		t += " " + it
	}
	t += " )"
	if g.r.chance(1, 8) {
		t = "( WM " + t + " " + g.metaVal(1) + " )"
	}
	if g.r.chance(1, 8) {
		t = "( WC " + t + " " + g.cur() + " )"
	}
	return t
}

// one case: typed, mostly valid arguments; about one in six is bent out of shape
func (g tcGen) one() string {
	r := g.r
	bend := r.chance(1, 6)
	switch r.intn(25) {
	case 0, 1, 2, 3: // NewHashMap: key/value pairs, duplicates frequent (the later one wins)
		items := []string{}
		for i, n := 0, r.intn(5); i < n; i++ {
			items = append(items, g.str(), g.val(1))
		}
		if bend {
			switch r.intn(4) {
			case 0:
				items = append(items, g.val(2)) // odd
			case 1:
				if len(items) > 0 {
					items[2*r.intn(len(items)/2)] = g.val(2) // a key of any kind
				}
			case 2:
				return "newHashMap " + g.val(0)
			default:
				items = append([]string{g.val(2)}, items...) // odd AND (often) a bad key: the odd error comes first
			}
		}
		return "newHashMap " + g.seq(items)
	case 4, 5, 6: // NewSet
		if r.chance(1, 8) {
			return "newSet N"
		}
		items := []string{}
		for i, n := 0, r.intn(5); i < n; i++ {
			items = append(items, g.str())
		}
		if bend {
			if r.chance(1, 2) {
				return "newSet " + g.val(0)
			}
			items = append(items, g.val(2))
			if r.chance(1, 2) {
				items = append(items, g.str())
			}
		}
		return "newSet " + g.seq(items)
	case 7:
		return "getSlice " + g.val(0)
	case 8, 9:
		return "convertFrom " + g.val(0)
	case 10, 11, 12: // ConvertTo: the target by example, the metadata, the elements
		to := r.pick([]string{"( L )", "( V )", "( H )", "( ZS )", "( L I1 )", "( H S61 )", "( WM ( V ) S6d )"})
		items := ""
		for i, n := 0, r.intn(4); i < n; i++ {
			if strings.Contains(to, "H") || strings.Contains(to, "ZS") {
				items += " " + g.str()
			} else {
				items += " " + g.val(1)
			}
		}
		if bend {
			if r.chance(1, 2) {
				to = g.val(0)
			} else {
				items += " " + g.val(1)
			}
		}
		return "convertTo " + to + " " + g.metaVal(1) + items
	case 13, 14, 15: // Apply
		f := g.fn()
		if r.chance(1, 3) {
			f = "( WC " + f + " " + g.cur() + " )" // the closure's cursor goes into the argument list
		}
		switch r.intn(4) {
		case 0:
			f = "( BI " + g.fnID() + " )"
		case 1:
			f = "( RF " + g.fnID() + " )"
		}
		if bend {
			f = g.val(0)
		}
		return "apply " + f + g.items(r.intn(4), 1)
	case 16:
		return "newList" + g.items(r.intn(5), 0)
	case 17:
		f := g.fn()
		if r.chance(1, 3) {
			f = "( WM " + f + " " + g.metaVal(1) + " )"
		}
		if r.chance(1, 3) {
			f = "( WC " + f + " " + g.cur() + " )"
		}
		if bend {
			f = g.val(0)
		}
		return r.pick([]string{"setMacro ", "getMacro "}) + f
	case 18:
		switch r.intn(3) {
		case 0:
			return "line " + g.cur() + " " + g.str()
		case 1:
			return "tokpos " + g.cur()
		}
		if bend {
			return "newKeyword " + g.val(0)
		}
		return "newKeyword " + g.str()
	default: // the predicates: scalars (strings and keywords above all) as often as structured values
		v := g.val(0)
		if r.chance(1, 2) {
			v = g.scalar()
		}
		if r.chance(1, 3) {
			return "q " + r.pick(tcQTypes) + " " + v
		}
		return r.pick([]string{"nil?", "true?", "false?", "keyword?", "string?", "sequential?"}) + " " + v
	}
}

// the malformed stream: payloads both sides must refuse (`bad-case`)
func (g tcGen) malformed() string {
	r := g.r
	switch r.intn(8) {
	case 0:
		return "nope " + g.val(0)
	case 1:
		return "nil? " + g.val(0) + " " + g.val(0)
	case 2:
		return "getSlice ( L I1"
	case 3:
		return "newSet ( V S6 )" // odd hex
	case 4:
		return "q Nope " + g.val(0)
	case 5:
		return "convertTo ( L )"
	case 6:
		return "newHashMap ( WM I1 N )"
	default:
		return r.pick([]string{"keyword?", "apply", "line C- I1", "tokpos C-", "setMacro ( BI 0 )", "q int", "string? ( M S61 )", "nil? ( ZS", "true? ( OP nope - )x"})
	}
}

func (e *tyctorEngine) generate(r *rng, n int, tier string, emit func(string)) {
	// the kind lattice, exhaustively: every function × every kind of argument
	for _, fn := range tcUnary {
		for _, v := range tcLattice {
			emit(fn + " " + v)
		}
	}
	for _, ty := range tcQTypes {
		for _, v := range tcLattice {
			emit("q " + ty + " " + v)
		}
	}
	for _, v := range tcLattice {
		emit("convertTo " + v + " S6d")              // as the target, no elements
		emit("convertTo " + v + " ( M S61 I1 ) S61") // as the target
		emit("convertTo ( H ) N S61 " + v)           // as an element of a set to be
		emit("convertTo ( WM ( V ) S6d ) " + v + " " + v)
		emit("newHashMap ( L " + v + " I1 )")     // as a key
		emit("newHashMap ( V S61 " + v + " )")    // as a value
		emit("newHashMap ( V S61 I1 " + v + " )") // odd, whatever the last one is
		emit("newSet ( L S61 " + v + " )")        // as a member
		emit("apply " + v + " I1 " + v)
		emit("apply ( FN 110 0 " + v + " " + v + " )") // as parameters and body
	}
	g := tcGen{r: r}
	for i := 0; i < n; i++ {
		if r.chance(1, 25) {
			emit(g.malformed())
		} else {
			emit(g.one())
		}
	}
}

func (e *tyctorEngine) classify(payload, obs string) string {
	fn := payload
	if i := strings.IndexByte(payload, ' '); i >= 0 {
		fn = payload[:i]
	}
	out := strings.SplitN(obs, "\t", 2)[0]
	if i := strings.IndexByte(out, ' '); i >= 0 {
		cls := out[:i]
		if cls == "err" || cls == "PANIC" {
			rest := out[i+1:]
			if j := strings.IndexByte(rest, ':'); j >= 0 {
				rest = rest[:j]
			}
			cls += " " + rest
		}
		out = cls
	}
	if strings.HasPrefix(out, "S") && len(out) > 1 {
		out = "S"
	}
	if strings.HasPrefix(out, "C") && len(out) > 1 {
		out = "C"
	}
	return fn + ":" + out
}

package main

// engine "envalg" (G6; supports C01, C04, C11): the environment object of env/env.go used sequentially through its
// exported API, over a register file of four types.EnvType handles (all nil at the start), every call under recover.
// Protocol: see lean/LispModel/EnvAlgDriver.lean.
//
//   KEYS K<hex>… ; NEW r ; SUB r p ; BIND r p <binds> <exprs> ; SET r K<hex> <term> ; GET r K<hex> ; FIND r K<hex> ;
//   REMOVE r K<hex> ; UPDATE r K<hex> inc|fail|nil|wrap ; SYMS r K<hex>      (SETNT GETNT FINDNT REMOVENT: the NT variants)

import (
	"encoding/hex"
	"errors"
	"fmt"
	"strconv"
	"strings"

	"github.com/jig/lisp/env"
	"github.com/jig/lisp/lisperror"
	. "github.com/jig/lisp/types"
)

type envalgEngine struct{}

func init() { register("envalg", &envalgEngine{}) }

// ---------------------------------------------------------------- generation

var eaKeys = []string{"a", "b", "c", "x", "ab", "abc", "r", "&", "rest", "a.b"}

var eaPrefixes = []string{"", "", "", "a", "a", "a", "ab", "abc", "x", "&", "r", "r", "zz", "re", "b", "c"}

func eaKey(r *rng) string { return r.pick(eaKeys) }

func eaVal(r *rng, depth int) MalType {
	switch r.intn(9) {
	case 0:
		return nil
	case 1, 2, 3:
		return r.intn(12) - 2
	case 4:
		return r.pick([]string{"", "s", "a b", "ʞk"})
	case 5:
		return Symbol{Val: eaKey(r)}
	case 6, 7:
		if depth <= 0 {
			return r.intn(5)
		}
		n := r.intn(4)
		xs := make([]MalType, n)
		for i := range xs {
			xs[i] = eaVal(r, depth-1)
		}
		if r.chance(1, 2) {
			return List{Val: xs}
		}
		return Vector{Val: xs}
	default:
		return r.intn(100)
	}
}

func eaSeq(r *rng, xs []MalType) MalType {
	if xs == nil {
		xs = []MalType{}
	}
	if r.chance(1, 3) {
		return Vector{Val: xs}
	}
	return List{Val: xs}
}

func eaParams(r *rng, k int) []MalType {
	ps := make([]MalType, 0, k+2)
	pool := []string{"a", "b", "c", "x", "ab", "abc", "r", "rest", "a.b"}
	if r.chance(4, 5) { // distinct names
		off := r.intn(len(pool))
		for i := 0; i < k; i++ {
			ps = append(ps, Symbol{Val: pool[(off+i)%len(pool)]})
		}
	} else {
		for i := 0; i < k; i++ {
			ps = append(ps, Symbol{Val: r.pick(pool)})
		}
	}
	return ps
}

func eaArgs(r *rng, n int) []MalType {
	xs := make([]MalType, n)
	for i := range xs {
		xs[i] = eaVal(r, 2)
	}
	return xs
}

// binds and exprs of one BIND
func eaBindTerms(r *rng) (MalType, MalType) {
	b, x, _ := eaBindTerms3(r)
	return b, x
}

// … and whether the call is expected to succeed (only steers the generator's choice of registers)
func eaBindTerms3(r *rng) (MalType, MalType, bool) {
	k := r.intn(4)
	switch c := r.intn(20); {
	case c < 6: // positional, right count
		return eaSeq(r, eaParams(r, k)), eaSeq(r, eaArgs(r, k)), true
	case c < 9: // positional, wrong count
		n := k + 1 + r.intn(2)
		if k > 0 && r.chance(1, 2) {
			n = r.intn(k)
		}
		return eaSeq(r, eaParams(r, k)), eaSeq(r, eaArgs(r, n)), false
	case c < 14: // & rest, any count
		ps := append(eaParams(r, k), Symbol{Val: "&"}, Symbol{Val: r.pick([]string{"rest", "r", "a", "&"})})
		if r.chance(1, 8) {
			ps = append(ps, Symbol{Val: "x"}) // never reached
		}
		na := r.intn(k + 4)
		return eaSeq(r, ps), eaSeq(r, eaArgs(r, na)), na >= k
	case c < 17: // malformed parameter lists
		ps := eaParams(r, k)
		switch r.intn(7) {
		case 0:
			ps = append(ps, Symbol{Val: "&"})
		case 1:
			ps = append(ps, Symbol{Val: "&"}, eaVal(r, 1))
		case 2, 3:
			bad := []MalType{1, "s", nil, List{Val: []MalType{}}, Vector{Val: []MalType{Symbol{Val: "a"}}}, "ʞk"}[r.intn(6)]
			i := r.intn(len(ps) + 1)
			ps = append(ps[:i:i], append([]MalType{bad}, ps[i:]...)...)
		case 4:
			ps = append(ps, Symbol{Val: "&"}, Symbol{Val: "&"}, Symbol{Val: "r"})
		case 5:
			ps = append([]MalType{Symbol{Val: "&"}}, ps...)
		default:
			ps = append(ps, Symbol{Val: "&"}, Symbol{Val: "r"}, 7, Symbol{Val: "&"})
		}
		return eaSeq(r, ps), eaSeq(r, eaArgs(r, r.intn(k+3))), false
	case c < 19: // nil on either side: nothing checked
		switch r.intn(4) {
		case 0:
			return nil, eaSeq(r, eaArgs(r, r.intn(3))), true
		case 1:
			return eaSeq(r, eaParams(r, 1+r.intn(3))), nil, true
		case 2:
			return nil, r.intn(5), true
		default:
			return []MalType{3, "s", Symbol{Val: "a"}}[r.intn(3)], nil, true
		}
	default: // non-sequences
		ns := []MalType{5, "str", Symbol{Val: "a"}, "ʞk"}[r.intn(4)]
		if r.chance(1, 2) {
			return ns, eaSeq(r, eaArgs(r, r.intn(3))), false
		}
		return eaSeq(r, eaParams(r, k)), ns, false
	}
}

func (e *envalgEngine) generate(r *rng, n int, tier string, emit func(string)) {
	keys := "KEYS"
	for _, k := range eaKeys {
		keys += " K" + hx(k)
	}
	// fixed witnesses: shadowing, update through the chain, remove does not climb, nil skips the checks
	emit(keys + " ; NEW 0 ; SET 0 K61 I1 ; SUB 1 0 ; GET 1 K61 ; SET 1 K61 I2 ; GET 1 K61 ; GET 0 K61 ; FIND 1 K61 ; REMOVE 1 K61 ; FIND 1 K61")
	emit(keys + " ; NEW 0 ; SET 0 K61 I1 ; SUB 1 0 ; UPDATE 1 K61 inc ; GET 0 K61 ; GET 1 K61 ; REMOVE 1 K62 ; UPDATE 1 K62 wrap ; UPDATE 1 K63 fail")
	emit(keys + " ; NEW 0 ; BIND 1 0 ( L Y61 Y62 ) N ; GET 1 K61 ; BIND 2 0 N I5 ; BIND 3 0 I5 ( L ) ; SUB 3 3 ; GET 3 K61")
	emit(keys + " ; NEW 0 ; BIND 1 0 ( L Y61 Y26 Y72 ) ( L I1 ) ; GET 1 K72 ; BIND 2 0 ( L Y61 Y26 Y72 ) ( L ) ; BIND 2 0 ( L Y26 ) ( L ) ; BIND 2 0 ( L Y61 ) ( L I1 I2 )")
	emit("NEW 0")
	emit(keys + " ; BIND 0 0 ( L")
	for i := 0; i < n; i++ {
		k := 3 + r.intn(10)
		set := [4]bool{}
		reg := func(wantSet bool) int {
			if wantSet && r.chance(23, 24) {
				var c []int
				for j, s := range set {
					if s {
						c = append(c, j)
					}
				}
				if len(c) > 0 {
					return c[r.intn(len(c))]
				}
			}
			return r.intn(4)
		}
		ops := []string{keys}
		for j := 0; j < k; j++ {
			c := r.intn(20)
			if j == 0 && r.chance(19, 20) {
				c = 0
			}
			nt := ""
			if r.chance(1, 4) {
				nt = "NT"
			}
			switch {
			case c < 1:
				t := r.intn(4)
				ops = append(ops, "NEW "+strconv.Itoa(t))
				set[t] = true
			case c < 3:
				t, p := r.intn(4), reg(true)
				ops = append(ops, fmt.Sprintf("SUB %d %d", t, p))
				if set[p] {
					set[t] = true
				}
			case c < 8:
				t, p := r.intn(4), reg(true)
				b, x, likely := eaBindTerms3(r)
				ops = append(ops, fmt.Sprintf("BIND %d %d %s %s", t, p, render(b), render(x)))
				if set[p] && likely {
					set[t] = true
				}
			case c < 11:
				ops = append(ops, fmt.Sprintf("SET%s %d K%s %s", nt, reg(true), hx(eaKey(r)), render(eaVal(r, 2))))
			case c < 13:
				ops = append(ops, fmt.Sprintf("GET%s %d K%s", nt, reg(true), hx(eaKey(r))))
			case c < 15:
				ops = append(ops, fmt.Sprintf("FIND%s %d K%s", nt, reg(true), hx(eaKey(r))))
			case c < 16:
				ops = append(ops, fmt.Sprintf("REMOVE%s %d K%s", nt, reg(true), hx(eaKey(r))))
			case c < 18:
				ops = append(ops, fmt.Sprintf("UPDATE %d K%s %s", reg(true), hx(eaKey(r)), r.pick([]string{"inc", "inc", "fail", "nil", "wrap"})))
			default:
				ops = append(ops, fmt.Sprintf("SYMS %d K%s", reg(true), hx(r.pick(eaPrefixes))))
			}
		}
		emit(strings.Join(ops, " ; "))
	}
}

// ---------------------------------------------------------------- run

func eaRender(b *strings.Builder, v MalType) {
	switch t := v.(type) {
	case nil:
		b.WriteString("N")
	case int:
		b.WriteString("I" + strconv.Itoa(t))
	case string:
		b.WriteString("S" + hx(t))
	case Symbol:
		b.WriteString("Y" + hx(t.Val))
	case List:
		b.WriteString("(L")
		for _, x := range t.Val {
			b.WriteString(" ")
			eaRender(b, x)
		}
		b.WriteString(")")
	case Vector:
		b.WriteString("(V")
		for _, x := range t.Val {
			b.WriteString(" ")
			eaRender(b, x)
		}
		b.WriteString(")")
	default:
		b.WriteString(fmt.Sprintf("?%T", v))
	}
}

func eaShow(v MalType) string {
	var b strings.Builder
	eaRender(&b, v)
	return b.String()
}

// the error's class, recomputed from its exact text (an unexpected text shows up as `?<hex>`)
func eaErr(err error) string {
	kind := "plain"
	if _, ok := err.(lisperror.LispError); ok {
		kind = "lisp"
	}
	text := err.Error()
	var nb, ne int
	switch {
	case strings.HasPrefix(text, "symbol '") && strings.HasSuffix(text, "' not found"):
		return "err " + kind + " notfound " + hx(text[len("symbol '"):len(text)-len("' not found")])
	case text == "GetSlice called on non-sequence":
		return "err " + kind + " nonseq"
	case strings.HasPrefix(text, "cannot use '") && strings.HasSuffix(text, "' as parameter name"):
		return "err " + kind + " notsym " + text[len("cannot use '"):len(text)-len("' as parameter name")]
	case text == "'&' must be followed by a parameter name":
		return "err " + kind + " amp"
	case text == "notint" || text == "fail":
		return "err " + kind + " cb " + text
	}
	if k, _ := fmt.Sscanf(text, "too few arguments passed (%d binds, %d arguments passed)", &nb, &ne); k == 2 &&
		text == fmt.Sprintf("too few arguments passed (%d binds, %d arguments passed)", nb, ne) {
		return fmt.Sprintf("err %s toofew %d %d", kind, nb, ne)
	}
	if k, _ := fmt.Sscanf(text, "too many arguments passed (%d binds, %d arguments passed)", &nb, &ne); k == 2 &&
		text == fmt.Sprintf("too many arguments passed (%d binds, %d arguments passed)", nb, ne) {
		return fmt.Sprintf("err %s toomany %d %d", kind, nb, ne)
	}
	return "err " + kind + " ?" + hx(text)
}

func eaCallback(mode string) func(MalType) (MalType, error) {
	switch mode {
	case "inc":
		return func(v MalType) (MalType, error) {
			switch t := v.(type) {
			case nil:
				return 1, nil
			case int:
				return t + 1, nil
			}
			return nil, errors.New("notint")
		}
	case "fail":
		return func(MalType) (MalType, error) { return nil, errors.New("fail") }
	case "nil":
		return func(MalType) (MalType, error) { return nil, nil }
	case "wrap":
		return func(v MalType) (MalType, error) { return List{Val: []MalType{v}}, nil }
	}
	return nil
}

type eaState struct {
	regs [4]EnvType
	envs []EnvType // creation order = the model's scope ids
}

func (s *eaState) id(e EnvType) string {
	if e == nil {
		return "nil"
	}
	for i, x := range s.envs {
		if x == e {
			return "e" + strconv.Itoa(i)
		}
	}
	return "e?"
}

func eaReg(t string) (int, bool) {
	n, err := strconv.Atoi(t)
	return n, err == nil && n >= 0 && n < 4 && strconv.Itoa(n) == t
}

func eaKeyTok(t string) (string, bool) {
	if len(t) == 0 || t[0] != 'K' {
		return "", false
	}
	bs, err := hex.DecodeString(t[1:])
	return string(bs), err == nil
}

// one operation; ok=false: not a well-formed request
func (s *eaState) op(toks []string) (obs string, ok bool) {
	defer func() {
		if recover() != nil {
			obs, ok = "PANIC", true
		}
	}()
	if len(toks) < 2 {
		return "", false
	}
	r, rok := eaReg(toks[1])
	if !rok {
		return "", false
	}
	name := toks[0]
	switch name {
	case "NEW":
		if len(toks) != 2 {
			return "", false
		}
		e := env.NewEnv()
		s.envs = append(s.envs, e)
		s.regs[r] = e
		return s.id(e), true
	case "SUB":
		if len(toks) != 3 {
			return "", false
		}
		p, pok := eaReg(toks[2])
		if !pok {
			return "", false
		}
		e := env.NewSubordinateEnv(s.regs[p])
		s.envs = append(s.envs, e)
		s.regs[r] = e
		return s.id(e), true
	case "BIND":
		if len(toks) < 5 {
			return "", false
		}
		p, pok := eaReg(toks[2])
		if !pok {
			return "", false
		}
		b, rest, err := parseToks(toks[3:])
		if err != nil {
			return "", false
		}
		x, rest, err := parseToks(rest)
		if err != nil || len(rest) != 0 {
			return "", false
		}
		e, err := env.NewSubordinateEnvWithBinds(s.regs[p], b, x)
		if err != nil {
			if e != nil {
				return "err-with-env", true
			}
			return eaErr(err), true
		}
		s.envs = append(s.envs, e)
		s.regs[r] = e
		return s.id(e), true
	}
	if len(toks) < 3 {
		return "", false
	}
	key, kok := eaKeyTok(toks[2])
	if !kok {
		return "", false
	}
	sym := Symbol{Val: key}
	e := s.regs[r]
	switch name {
	case "SET", "SETNT":
		v, rest, err := parseToks(toks[3:])
		if err != nil || len(rest) != 0 {
			return "", false
		}
		var res MalType
		if name == "SET" {
			res = e.Set(sym, v)
		} else {
			res = e.SetNT(sym, v)
		}
		return "ok " + eaShow(res), true
	case "UPDATE":
		if len(toks) != 4 || eaCallback(toks[3]) == nil {
			return "", false
		}
		res, err := e.Update(sym, eaCallback(toks[3]))
		if err != nil {
			if res != nil {
				return "err-with-value", true
			}
			return eaErr(err), true
		}
		return "ok " + eaShow(res), true
	}
	if len(toks) != 3 {
		return "", false
	}
	switch name {
	case "GET", "GETNT":
		var res MalType
		var err error
		if name == "GET" {
			res, err = e.Get(sym)
		} else {
			res, err = e.GetNT(sym)
		}
		if err != nil {
			if res != nil {
				return "err-with-value", true
			}
			return eaErr(err), true
		}
		return "ok " + eaShow(res), true
	case "FIND":
		return s.id(e.Find(sym)), true
	case "FINDNT":
		return s.id(e.FindNT(sym)), true
	case "REMOVE", "REMOVENT":
		var err error
		if name == "REMOVE" {
			err = e.Remove(sym)
		} else {
			err = e.RemoveNT(sym)
		}
		if err != nil {
			return eaErr(err), true
		}
		return "ok", true
	case "SYMS":
		var hs []string
		for _, rs := range e.Symbols(nil, key) {
			hs = append(hs, hx(string(rs)))
		}
		return "[" + strings.Join(hs, ",") + "]", true
	}
	return "", false
}

func (s *eaState) final(r int, keys []string) (out string) {
	e := s.regs[r]
	if e == nil {
		return fmt.Sprintf("r%d=nil", r)
	}
	var parts []string
	for _, k := range keys {
		parts = append(parts, "K"+hx(k)+"="+func() (o string) {
			defer func() {
				if recover() != nil {
					o = "P"
				}
			}()
			v, err := e.Get(Symbol{Val: k})
			if err != nil {
				return "-"
			}
			return eaShow(v)
		}())
	}
	return fmt.Sprintf("r%d=%s{%s}", r, s.id(e), strings.Join(parts, ","))
}

func (e *envalgEngine) run(payload string) string {
	var groups [][]string
	cur := []string{}
	for _, t := range strings.Fields(payload) {
		if t == ";" {
			groups = append(groups, cur)
			cur = []string{}
		} else {
			cur = append(cur, t)
		}
	}
	groups = append(groups, cur)
	if len(groups[0]) == 0 || groups[0][0] != "KEYS" {
		return "bad-case"
	}
	var keys []string
	for _, t := range groups[0][1:] {
		k, ok := eaKeyTok(t)
		if !ok {
			return "bad-case"
		}
		keys = append(keys, k)
	}
	// a malformed op rejects the request as a whole (the driver parses every op before running any)
	s := &eaState{}
	var obs []string
	for _, g := range groups[1:] {
		o, ok := s.op(g)
		if !ok {
			return "bad-case"
		}
		obs = append(obs, o)
	}
	var fin []string
	for r := 0; r < 4; r++ {
		fin = append(fin, s.final(r, keys))
	}
	return strings.Join(obs, " | ") + " || " + strings.Join(fin, " ")
}

func (e *envalgEngine) classify(payload, obs string) string {
	label := "bind=none"
	if i := strings.Index(payload, "BIND"); i >= 0 {
		n := strings.Count(payload[:i], ";") - 1
		parts := strings.Split(strings.SplitN(obs, " || ", 2)[0], " | ")
		if n >= 0 && n < len(parts) {
			f := strings.Fields(parts[n])
			switch {
			case len(f) >= 3 && f[0] == "err":
				label = "bind=" + f[2]
			case len(f) == 1 && strings.HasPrefix(f[0], "e"):
				label = "bind=ok"
				if strings.Contains(payload, "Y26") {
					label = "bind=ok&"
				}
			case len(f) == 1:
				label = "bind=" + f[0]
			}
		}
	}
	if strings.Contains(obs, "PANIC") {
		label += "+nilreg"
	}
	if obs == "bad-case" {
		label = "bad-case"
	}
	return label
}

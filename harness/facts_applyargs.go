package main

// Fact group "ApplyArgs" (properties C01 C02 C13): every call `Apply(ctx, f, ARGS)` of lib/core/core.go,
// lib/concurrent/concurrent.go and mal.go as Lean data (lean/LispModel/Generated/ApplyArgs.lean).
//
// Why: a lisp function's rest parameter is bound to a WINDOW on the argument slice it is applied to
// (env/env.go: `List{Val: exprs[i:]}`), so the slice handed to Apply becomes part of a lisp value. It is a value only if
// nobody writes into that slice afterwards: not the caller's next loop iteration, not a retry, not another call.
// The fact, per call site (syntactic, conservative):
//   fn        enclosing function
//   arg       how ARGS is spelled: literal (`[]MalType{…}`), nil, ident:<name>, slice (`x[i:]`), other
//   inLoop    the call is inside a `for` statement of that function
//   freshPerIteration   ARGS is a literal / nil, or an identifier that is (re)assigned by `:=` / `=` from a composite
//             literal, `append(<literal>, …)`, `make` inside the SAME innermost loop body as the call (or the call is not
//             in a loop and the identifier is a parameter or assigned once)
//   elementWrites       number of statements `<name>[…] = …` in the function for the identifier passed as ARGS
// The lemmas are in lean/LispModel/Tie/ApplyArgs.lean.

import (
	"fmt"
	"go/ast"
	"go/parser"
	"go/token"
	"path/filepath"
	"strings"
)

func init() { factGroups["ApplyArgs"] = applyArgsFacts }

var applyArgsFiles = []string{"lib/core/core.go", "lib/concurrent/concurrent.go", "mal.go"}

func aaFreshExpr(e ast.Expr) bool {
	switch e := e.(type) {
	case *ast.CompositeLit:
		return true
	case *ast.Ident:
		return e.Name == "nil"
	case *ast.CallExpr:
		if id, ok := e.Fun.(*ast.Ident); ok {
			if id.Name == "make" {
				return true
			}
			if id.Name == "append" && len(e.Args) > 0 {
				return aaFreshExpr(e.Args[0])
			}
		}
	}
	return false
}

func applyArgsFacts(repo string) (string, error) {
	var rows []string
	for _, rel := range applyArgsFiles {
		fset := token.NewFileSet()
		f, err := parser.ParseFile(fset, filepath.Join(repo, rel), nil, 0)
		if err != nil {
			return "", err
		}
		for _, d := range f.Decls {
			fd, ok := d.(*ast.FuncDecl)
			if !ok || fd.Body == nil {
				continue
			}
			// element writes per identifier
			elemWrites := map[string]int{}
			ast.Inspect(fd.Body, func(n ast.Node) bool {
				if as, ok := n.(*ast.AssignStmt); ok {
					for _, l := range as.Lhs {
						if ix, ok := l.(*ast.IndexExpr); ok {
							if id, ok := ix.X.(*ast.Ident); ok {
								elemWrites[id.Name]++
							}
						}
					}
				}
				return true
			})
			// walk with the stack of enclosing loops
			var loops []*ast.ForStmt
			var rloops []*ast.RangeStmt
			var walk func(n ast.Node)
			innermost := func() ast.Node {
				var best ast.Node
				if len(loops) > 0 {
					best = loops[len(loops)-1]
				}
				if len(rloops) > 0 && (best == nil || rloops[len(rloops)-1].Pos() > best.Pos()) {
					best = rloops[len(rloops)-1]
				}
				return best
			}
			walk = func(n ast.Node) {
				ast.Inspect(n, func(m ast.Node) bool {
					switch m := m.(type) {
					case *ast.ForStmt:
						if m == n {
							return true
						}
						loops = append(loops, m)
						walk(m.Body)
						loops = loops[:len(loops)-1]
						return false
					case *ast.RangeStmt:
						if m == n {
							return true
						}
						rloops = append(rloops, m)
						walk(m.Body)
						rloops = rloops[:len(rloops)-1]
						return false
					case *ast.CallExpr:
						id, ok := m.Fun.(*ast.Ident)
						if !ok || id.Name != "Apply" || len(m.Args) != 3 {
							return true
						}
						arg := m.Args[2]
						kind, name := "other", ""
						switch a := arg.(type) {
						case *ast.CompositeLit:
							kind = "literal"
						case *ast.Ident:
							if a.Name == "nil" {
								kind = "nil"
							} else {
								kind, name = "ident:"+a.Name, a.Name
							}
						case *ast.SliceExpr:
							kind = "slice"
						}
						loop := innermost()
						fresh := kind == "literal" || kind == "nil"
						if name != "" {
							// is the identifier assigned from a fresh expression inside the innermost loop body (or, outside
							// any loop, anywhere / a parameter)?
							scope := ast.Node(fd.Body)
							if loop != nil {
								scope = loop
							}
							assignedFresh, assignedOther := 0, 0
							ast.Inspect(scope, func(k ast.Node) bool {
								if as, ok := k.(*ast.AssignStmt); ok && len(as.Lhs) == len(as.Rhs) {
									for i, l := range as.Lhs {
										if lid, ok := l.(*ast.Ident); ok && lid.Name == name {
											if aaFreshExpr(as.Rhs[i]) {
												assignedFresh++
											} else if c, isCall := as.Rhs[i].(*ast.CallExpr); isCall && len(c.Args) > 0 && fmt.Sprint(c.Fun) == "append" && fmt.Sprint(c.Args[0]) == name {
												// x = append(x, …): grows the slice it already is
											} else {
												assignedOther++
											}
										}
									}
								}
								return true
							})
							if loop != nil {
								fresh = assignedFresh > 0 && assignedOther == 0
							} else {
								fresh = assignedOther == 0 // a parameter, or only fresh assignments
							}
						}
						rows = append(rows, fmt.Sprintf("⟨%s, %s, %s, %v, %v, %d⟩", leanStr(rel), leanStr(fd.Name.Name), leanStr(kind),
							loop != nil, fresh, elemWrites[name]))
					}
					return true
				})
			}
			walk(fd.Body)
		}
	}
	var b strings.Builder
	b.WriteString("/- GENERATED by `harness facts` (harness/facts_applyargs.go) from lib/core/core.go, lib/concurrent/concurrent.go\n")
	b.WriteString("   and mal.go of the tree under check. Do not edit. -/\nnamespace LispModel.Generated.ApplyArgs\n\n")
	b.WriteString("structure Site where\n  file : String\n  fn : String\n  arg : String\n  inLoop : Bool\n  freshPerIteration : Bool\n  elementWrites : Nat\nderiving Repr, DecidableEq\n\n")
	b.WriteString("/-- every `Apply(ctx, f, ARGS)` call, in source order -/\ndef sites : List Site := [\n  " + strings.Join(rows, ",\n  ") + "]\n\n")
	b.WriteString("end LispModel.Generated.ApplyArgs\n")
	return b.String(), nil
}

package main

// stress histories of engine "conc" (see eng_conc.go)

func genHist(e *concEngine, r *rng, n int, tier string, emit func(string)) {}

func runHist(payload string) (string, string) { return "bad-case", "-" }

func runRace(f []string) string { return "bad-case" }

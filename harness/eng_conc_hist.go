package main

// stress histories of engine "conc" (see eng_conc.go).
//
// atoms   : hist a k=<threads> init=<v0>,<v1>,<v2> | <ops of thread 0> | <ops of thread 1> …
//   d<a> deref   r<a>=<v> reset!   s<a>+<n> swap! (fn [x] (+ x n))   s<a>! swap! with a throwing function
//   s<a>@<b> swap! (fn [x] (do @b (+ x 1)))      (b may be a: the function reads the atom being swapped)
//   s<a>^<b> swap! (fn [x] (do (swap! b inc) (+ x 1)))   (b ≠ a; b is only read at top level in such a case)
//   p<a> (str a)                                  (race cases only)
// futures : hist f k=<threads> fut=<body0>,<body1> | <ops> | …
//   bodies  ret<n>  throw<n>  sleep<ms>:<n> (honours cancellation)  hsleep<ms>:<n> (ignores it)
//   D<f> deref   ?d<f> future-done?   ?c<f> future-cancelled?   C<f> future-cancel
// extra column (history): one record per completed op  <thread>.<index>:<inv>:<resp>:<result>
//   results v<n> | e<n> (thrown n) | ep (plain Go error) | T | F ; then " final=<v0>,<v1>,<v2>" for atoms.

import (
	"fmt"
	"strings"
)

const maxHistOps = 24

func genAtomOp(r *rng, flavour int, self bool) string {
	a := r.intn(2)
	if flavour == 3 { // with prints (race cases)
		if r.chance(1, 3) {
			return fmt.Sprintf("p%d", a)
		}
		flavour = 0
	}
	switch r.intn(10) {
	case 0, 1, 2:
		return fmt.Sprintf("d%d", a)
	case 3:
		if flavour == 2 { // nested-inc target a1 is only read at top level
			return "d1"
		}
		return fmt.Sprintf("r%d=%d", a, r.intn(50))
	case 4:
		if flavour == 2 {
			return "s0!"
		}
		return fmt.Sprintf("s%d!", a)
	case 5, 6:
		switch flavour {
		case 1:
			b := r.intn(3)
			if !self && b == a {
				b = 2
			}
			return fmt.Sprintf("s%d@%d", a, b)
		case 2:
			return "s0^1"
		}
	}
	if flavour == 2 {
		a = 0
	}
	return fmt.Sprintf("s%d+%d", a, 1+r.intn(3))
}

func genFutOp(r *rng, nf int) string {
	f := r.intn(nf)
	switch r.intn(8) {
	case 0, 1, 2:
		return fmt.Sprintf("D%d", f)
	case 3, 4:
		return fmt.Sprintf("?d%d", f)
	case 5:
		return fmt.Sprintf("?c%d", f)
	case 6:
		return fmt.Sprintf("C%d", f)
	}
	return fmt.Sprintf("?d%d", f)
}

// genFutHistOnly: deref-only histories (no flag access at all)
func genFutHistOnly(r *rng, derefOnly bool) string {
	nf := 1 + r.intn(2)
	var bodies []string
	for i := 0; i < nf; i++ {
		bodies = append(bodies, genBody(r))
	}
	k, ts := genThreads(r, func() string { return fmt.Sprintf("D%d", r.intn(nf)) })
	return fmt.Sprintf("hist f k=%d fut=%s | %s", k, strings.Join(bodies, ","), ts)
}

func genBody(r *rng) string {
	switch r.intn(6) {
	case 0, 1:
		return fmt.Sprintf("ret%d", r.intn(20))
	case 2:
		return fmt.Sprintf("throw%d", r.intn(20))
	case 3, 4:
		return fmt.Sprintf("sleep%d:%d", 1+r.intn(3), r.intn(20))
	}
	return fmt.Sprintf("hsleep%d:%d", 1+r.intn(2), r.intn(20))
}

func genThreads(r *rng, op func() string) (int, string) {
	k := []int{2, 4, 8}[r.intn(3)]
	per := 1 + r.intn(maxHistOps/k)
	if per > 6 {
		per = 6
	}
	var ts []string
	for t := 0; t < k; t++ {
		var ops []string
		for i := 0; i < per; i++ {
			ops = append(ops, op())
		}
		ts = append(ts, strings.Join(ops, " "))
	}
	return k, strings.Join(ts, " | ")
}

func genAtomHist(r *rng, flavour int, self bool) string {
	k, ts := genThreads(r, func() string { return genAtomOp(r, flavour, self) })
	if self { // thread 0 starts with an update function that derefs the atom being swapped
		f := strings.Fields(ts)
		f[0] = "s0@0"
		ts = strings.Join(f, " ")
	}
	return fmt.Sprintf("hist a k=%d init=%d,%d,1 | %s", k, r.intn(5), r.intn(5), ts)
}

func genFutHist(r *rng) string {
	nf := 1 + r.intn(2)
	var bodies []string
	for i := 0; i < nf; i++ {
		bodies = append(bodies, genBody(r))
	}
	k, ts := genThreads(r, func() string { return genFutOp(r, nf) })
	return fmt.Sprintf("hist f k=%d fut=%s | %s", k, strings.Join(bodies, ","), ts)
}

func genHist(e *concEngine, r *rng, n int, tier string, emit func(string)) {
	rn := 25
	if tier == "thorough" {
		rn = 400
	}
	for _, what := range raceOrder {
		if e.wants(raceWhats[what]) {
			emit(fmt.Sprintf("race %s %d %d", what, 1+r.intn(1000000), rn))
		}
	}
	selfLeft := 3 // histories whose update functions read the swapped atom (each costs a watchdog period while D13 is open)
	for i := 0; i < n; i++ {
		if e.wants("a") && (e.half == "a" || i%2 == 0) {
			flavour := r.intn(3)
			self := false
			if flavour == 1 && selfLeft > 0 {
				self = true
				selfLeft--
			}
			emit(genAtomHist(r, flavour, self))
		} else if e.wants("f") {
			emit(genFutHist(r))
		}
	}
}

package main

// engine "lerr" (C03, C04, C17, C19): the error object algebra of lisperror/lisperror.go.
//
// payload: a short program over a register file, operations separated by " ; ", tokens by blanks:
//   VAL <v>            a lisp value            v ::= N | T | F | I<int> | S<hex> | Y<hex>@<cur>
//                                                  | ( L@<cur> v* ) | ( V@<cur> v* ) | ( M@<cur> (S<hex> v)* ) | ( H@<cur> S<hex>* )
//                                              cur ::= - (nil pointer) | p<i> (entry i of the fixed position pool)
//   SENT <k>           one of three package-level errors.New sentinels
//   THROW <r>          the `throw` builtin of lib/core applied to register r
//   REPOS <r> <car>    lisperror.NewLispError(reg r, carrier)
//                      car ::= list@<cur> | sym@<cur> | vec@<cur> | map@<cur> | set@<cur> | tok@p<i> | tokptr@p<i> | tokptr@-
//                            | pos@<cur> | nil | int | str | lerr
//   GOERR <r> x<hex>   lisperror.NewGoError(name, reg r)
//   UNW <r>            errors.Unwrap(reg r) (nil for a register that holds no error)
// every operation appends one register.  observation: see lerrObserve.

import (
	"context"
	"encoding/hex"
	"errors"
	"fmt"
	"sort"
	"strconv"
	"strings"

	"github.com/jig/lisp/env"
	"github.com/jig/lisp/lib/core/nscore"
	"github.com/jig/lisp/lisperror"
	. "github.com/jig/lisp/types"
)

type lerrEngine struct{ throwFn func(context.Context, []MalType) (MalType, error) }

func init() { register("lerr", &lerrEngine{}) }

var lerrSentinels = []error{errors.New("sentinel zero"), errors.New("sentinel one"), errors.New("sentinel one")}

func lerrStrp(s string) *string { return &s }

// the fixed position pool (the Lean driver has the same table): p0/p1 and p2/p5 have equal contents at
// different addresses, p4 has Row < 0 (StringPosition is empty)
var lerrPool = []*Position{
	{BeginRow: 1, BeginCol: 1, Row: 1, Col: 1},
	{BeginRow: 1, BeginCol: 1, Row: 1, Col: 1},
	{Module: lerrStrp("m"), BeginRow: 2, BeginCol: 3, Row: 4, Col: 5},
	{Module: lerrStrp("lib/x.lisp"), BeginRow: 7, BeginCol: 1, Row: 7, Col: 20},
	{BeginRow: 3, BeginCol: 1, Row: -1, Col: 0},
	{Module: lerrStrp("m"), BeginRow: 2, BeginCol: 3, Row: 4, Col: 5},
}

func lerrCur(tok string) (*Position, bool) {
	if tok == "-" {
		return nil, true
	}
	if len(tok) >= 2 && tok[0] == 'p' {
		i, err := strconv.Atoi(tok[1:])
		if err == nil && i >= 0 && i < len(lerrPool) && strconv.Itoa(i) == tok[1:] {
			return lerrPool[i], true
		}
	}
	return nil, false
}

func lerrCurName(p *Position) string {
	if p == nil {
		return "-"
	}
	for i, q := range lerrPool {
		if p == q {
			return "p" + strconv.Itoa(i)
		}
	}
	return "t"
}

func lerrUnhex(s string) (string, bool) {
	b, err := hex.DecodeString(s)
	if err != nil {
		return "", false
	}
	return string(b), true
}

// lerrParseVal parses one value of the payload syntax from toks.
func lerrParseVal(toks []string) (MalType, []string, bool) {
	if len(toks) == 0 {
		return nil, nil, false
	}
	t, rest := toks[0], toks[1:]
	switch {
	case t == "N":
		return nil, rest, true
	case t == "T":
		return true, rest, true
	case t == "F":
		return false, rest, true
	case t[0] == 'I':
		i, err := strconv.Atoi(t[1:])
		if err != nil || strconv.Itoa(i) != t[1:] {
			return nil, nil, false
		}
		return i, rest, true
	case t[0] == 'S':
		s, ok := lerrUnhex(t[1:])
		return s, rest, ok
	case t[0] == 'Y':
		at := strings.IndexByte(t, '@')
		if at < 0 {
			return nil, nil, false
		}
		s, ok1 := lerrUnhex(t[1:at])
		c, ok2 := lerrCur(t[at+1:])
		return Symbol{Val: s, Cursor: c}, rest, ok1 && ok2
	case t == "(":
		if len(rest) == 0 || len(rest[0]) < 3 || rest[0][1] != '@' {
			return nil, nil, false
		}
		tag := rest[0][0]
		c, ok := lerrCur(rest[0][2:])
		if !ok {
			return nil, nil, false
		}
		rest = rest[1:]
		items := []MalType{}
		for {
			if len(rest) == 0 {
				return nil, nil, false
			}
			if rest[0] == ")" {
				rest = rest[1:]
				break
			}
			var v MalType
			v, rest, ok = lerrParseVal(rest)
			if !ok {
				return nil, nil, false
			}
			items = append(items, v)
		}
		switch tag {
		case 'L':
			return List{Val: items, Cursor: c}, rest, true
		case 'V':
			return Vector{Val: items, Cursor: c}, rest, true
		case 'M':
			if len(items)%2 != 0 {
				return nil, nil, false
			}
			m := map[string]MalType{}
			for i := 0; i < len(items); i += 2 {
				k, ok := items[i].(string)
				if !ok {
					return nil, nil, false
				}
				m[k] = items[i+1]
			}
			return HashMap{Val: m, Cursor: c}, rest, true
		case 'H':
			m := map[string]struct{}{}
			for _, it := range items {
				k, ok := it.(string)
				if !ok {
					return nil, nil, false
				}
				m[k] = struct{}{}
			}
			return Set{Val: m, Cursor: c}, rest, true
		}
	}
	return nil, nil, false
}

// lerrRender: the payload syntax again (maps and sets sorted by key); errors are ( GE ), LispErrors ( LE )
func lerrRender(v MalType) string {
	switch t := v.(type) {
	case nil:
		return "N"
	case bool:
		if t {
			return "T"
		}
		return "F"
	case int:
		return "I" + strconv.Itoa(t)
	case string:
		return "S" + hx(t)
	case Symbol:
		return "Y" + hx(t.Val) + "@" + lerrCurName(t.Cursor)
	case List:
		return "( L@" + lerrCurName(t.Cursor) + lerrRenderSeq(t.Val) + " )"
	case Vector:
		return "( V@" + lerrCurName(t.Cursor) + lerrRenderSeq(t.Val) + " )"
	case HashMap:
		s := "( M@" + lerrCurName(t.Cursor)
		for _, k := range lerrSortedKeys(len(t.Val), func(f func(string)) {
			for k := range t.Val {
				f(k)
			}
		}) {
			s += " S" + hx(k) + " " + lerrRender(t.Val[k])
		}
		return s + " )"
	case Set:
		s := "( H@" + lerrCurName(t.Cursor)
		for _, k := range lerrSortedKeys(len(t.Val), func(f func(string)) {
			for k := range t.Val {
				f(k)
			}
		}) {
			s += " S" + hx(k)
		}
		return s + " )"
	case lisperror.LispError:
		return "( LE )"
	case error:
		return "( GE )"
	}
	return "( OP )"
}

func lerrRenderSeq(xs []MalType) string {
	s := ""
	for _, x := range xs {
		s += " " + lerrRender(x)
	}
	return s
}

func lerrSortedKeys(n int, each func(func(string))) []string {
	keys := make([]string, 0, n)
	each(func(k string) { keys = append(keys, k) })
	sort.Strings(keys)
	return keys
}

// lerrCarrier builds the `ast` argument of NewLispError
func lerrCarrier(tok string) (MalType, bool) {
	switch tok {
	case "nil":
		return nil, true
	case "int":
		return 7, true
	case "str":
		return "x", true
	case "lerr":
		return lisperror.NewLispError("x", lerrPool[3]), true
	}
	at := strings.IndexByte(tok, '@')
	if at < 0 {
		return nil, false
	}
	kind, cur := tok[:at], tok[at+1:]
	c, ok := lerrCur(cur)
	if !ok {
		return nil, false
	}
	switch kind {
	case "list":
		return List{Cursor: c}, true
	case "sym":
		return Symbol{Val: "s", Cursor: c}, true
	case "vec":
		return Vector{Cursor: c}, true
	case "map":
		return HashMap{Cursor: c}, true
	case "set":
		return Set{Cursor: c}, true
	case "pos":
		return c, true // a *Position, possibly the typed nil pointer
	case "tok":
		if c == nil {
			return nil, false
		}
		return Token{Value: "t", Cursor: *c}, true
	case "tokptr":
		if c == nil {
			return (*Token)(nil), true
		}
		return &Token{Value: "t", Cursor: *c}, true
	}
	return nil, false
}

// guarded runs f under recover; ok = false when the Go code panicked
func lerrGuard(f func()) (ok bool) {
	defer func() {
		if recover() != nil {
			ok = false
		}
	}()
	f()
	return true
}

// lerrExec runs the program; status has one letter per operation ('.' done, 'P' the Go code panicked: the
// register then holds nil)
func (e *lerrEngine) exec(payload string) (regs []MalType, status string, verdict string) {
	if strings.TrimSpace(payload) == "" {
		return nil, "", "bad-op"
	}
	for _, op := range strings.Split(payload, " ; ") {
		toks := strings.Fields(op)
		if len(toks) == 0 {
			return nil, "", "bad-op"
		}
		// the register operand (token 1) of every operation except VAL / SENT: "" fine, else the verdict of the case
		var a MalType
		if toks[0] != "VAL" && toks[0] != "SENT" {
			if len(toks) < 2 {
				return nil, "", "bad-op"
			}
			n, err := strconv.Atoi(toks[1])
			if err != nil || strconv.Itoa(n) != toks[1] {
				return nil, "", "bad-op"
			}
			if n < 0 || n >= len(regs) {
				return nil, "", "bad-reg"
			}
			a = regs[n]
		}
		var res MalType
		okOp := true
		switch {
		case toks[0] == "VAL":
			v, rest, ok := lerrParseVal(toks[1:])
			if !ok || len(rest) != 0 {
				return nil, "", "bad-op"
			}
			res = v
		case toks[0] == "SENT" && len(toks) == 2:
			k, err := strconv.Atoi(toks[1])
			if err != nil || k < 0 || k >= len(lerrSentinels) || strconv.Itoa(k) != toks[1] {
				return nil, "", "bad-op"
			}
			res = lerrSentinels[k]
		case toks[0] == "THROW" && len(toks) == 2:
			okOp = lerrGuard(func() { _, res = e.throwFn(context.Background(), []MalType{a}) })
		case toks[0] == "REPOS" && len(toks) == 3:
			c, ok := lerrCarrier(toks[2])
			if !ok {
				return nil, "", "bad-op"
			}
			okOp = lerrGuard(func() { res = lisperror.NewLispError(a, c) })
		case toks[0] == "GOERR" && len(toks) == 3:
			name, ok := lerrUnhex(strings.TrimPrefix(toks[2], "x"))
			if !ok || !strings.HasPrefix(toks[2], "x") {
				return nil, "", "bad-op"
			}
			okOp = lerrGuard(func() { res = lisperror.NewGoError(name, a) })
		case toks[0] == "UNW" && len(toks) == 2:
			if err, isErr := a.(error); isErr {
				okOp = lerrGuard(func() {
					if u := errors.Unwrap(err); u != nil {
						res = u
					}
				})
			}
		default:
			return nil, "", "bad-op"
		}
		if okOp {
			status += "."
		} else {
			status += "P"
			res = nil
		}
		regs = append(regs, res)
	}
	return regs, status, ""
}

func lerrTF(b bool) string {
	if b {
		return "T"
	}
	return "F"
}

// lerrIs: errors.Is under recover: T / F / P
func lerrIs(err, target error) (out string) {
	defer func() {
		if recover() != nil {
			out = "P"
		}
	}()
	return lerrTF(errors.Is(err, target))
}

func lerrPos(p *Position) string {
	if p == nil {
		return "-"
	}
	m := "-"
	if p.Module != nil {
		m = hx(*p.Module)
	}
	return fmt.Sprintf("%s,%d,%d,%d,%d#%s", m, p.BeginRow, p.BeginCol, p.Row, p.Col, lerrCurName(p))
}

// lerrObserve: `<status> | r0 … | r1 … | …`; per register
//   V <value>                                       a lisp value that is no error (nil included)
//   G err=<hex Error()> uw=<hex|nil>                an error that is no LispError
//   L ev=<value|( GE )|( LE )> pos=<m,br,bc,r,c#pool|-> err=<hex> uw=<hex|nil> lp=<hex LispPrint> isnil=<T|F|P>
// followed, for error and nil registers, by is=<one letter per register j><|><one per sentinel><nil>: errors.Is(reg i, ·)
// as T / F / P (the Go code panicked) / - (reg j holds a lisp value that is no error)
func lerrObserve(regs []MalType, status string) string {
	parts := []string{status}
	for _, v := range regs {
		var s string
		guard := func(f func() string) (out string) {
			defer func() {
				if recover() != nil {
					out = "P"
				}
			}()
			return f()
		}
		uw := func(err error) string {
			return guard(func() string {
				if u := errors.Unwrap(err); u != nil {
					return hx(u.Error())
				}
				return "nil"
			})
		}
		switch t := v.(type) {
		case lisperror.LispError:
			s = "L ev=" + guard(func() string { return lerrRender(t.ErrorValue()) }) +
				" pos=" + guard(func() string { return lerrPos(t.Position()) }) +
				" err=" + guard(func() string { return hx(t.Error()) }) + " uw=" + uw(t) +
				" lp=" + guard(func() string {
				return hx(t.LispPrint(func(x MalType, readably bool) string { return "<" + lerrRender(x) + ">" + lerrTF(readably) }))
			}) + " isnil=" + guard(func() string { return lerrTF(t.Is(nil)) })
		case error:
			s = "G err=" + guard(func() string { return hx(t.Error()) }) + " uw=" + uw(t)
		default:
			s = "V " + lerrRender(v)
		}
		err, isErr := v.(error)
		if isErr || v == nil {
			s += " is="
			for _, w := range regs {
				if target, ok := w.(error); ok || w == nil {
					s += lerrIs(err, target)
				} else {
					s += "-"
				}
			}
			s += "|"
			for _, sn := range lerrSentinels {
				s += lerrIs(err, sn)
			}
			s += lerrIs(err, nil)
		}
		parts = append(parts, s)
	}
	return strings.Join(parts, " | ")
}

func (e *lerrEngine) run(payload string) string {
	if e.throwFn == nil {
		ns := env.NewEnv()
		if err := nscore.Load(ns); err != nil {
			return "setup-error " + err.Error()
		}
		bound, err := ns.Get(Symbol{Val: "throw"})
		fn, ok := bound.(Func)
		if err != nil || !ok {
			return "setup-error throw"
		}
		e.throwFn = fn.Fn
	}
	regs, status, verdict := e.exec(payload)
	if verdict != "" {
		return verdict
	}
	return lerrObserve(regs, status)
}

func lerrGenCur(r *rng) string {
	if r.chance(2, 5) {
		return "-"
	}
	return "p" + strconv.Itoa(r.intn(len(lerrPool)))
}

var lerrStrings = []string{"", "a", "boom", "ʞa", "ʞerr", "a b", "%d", "ü"}

func lerrGenVal(r *rng, depth int) string {
	n := 14
	if depth <= 0 {
		n = 9
	}
	switch r.intn(n) {
	case 0:
		return "N"
	case 1:
		return r.pick([]string{"T", "F"})
	case 2, 3:
		return "I" + strconv.Itoa(r.intn(24)-3)
	case 4, 5, 6:
		return "S" + hx(r.pick(lerrStrings))
	case 7, 8:
		return "Y" + hx(r.pick([]string{"a", "err", "x/y"})) + "@" + lerrGenCur(r)
	case 9, 10:
		s := "( " + r.pick([]string{"L", "V"}) + "@" + lerrGenCur(r)
		for i, k := 0, r.intn(4); i < k; i++ {
			s += " " + lerrGenVal(r, depth-1)
		}
		return s + " )"
	case 11, 12:
		s := "( M@" + lerrGenCur(r)
		keys := []string{"a", "b", "ʞk"}
		for i, k := r.intn(3), r.intn(3); k > 0 && i < len(keys); i, k = i+1, k-1 {
			s += " S" + hx(keys[i]) + " " + lerrGenVal(r, depth-1)
		}
		return s + " )"
	default:
		s := "( H@" + lerrGenCur(r)
		keys := []string{"a", "b", "ʞk"}
		for i, k := r.intn(3), r.intn(3); k > 0 && i < len(keys); i, k = i+1, k-1 {
			s += " S" + hx(keys[i])
		}
		return s + " )"
	}
}

func lerrGenCarrier(r *rng) string {
	switch r.intn(16) {
	case 0:
		return "nil"
	case 1:
		return r.pick([]string{"int", "str", "lerr"})
	case 2, 3:
		return "list@" + lerrGenCur(r)
	case 4, 5:
		return "sym@" + lerrGenCur(r)
	case 6:
		return "vec@" + lerrGenCur(r)
	case 7:
		return "map@" + lerrGenCur(r)
	case 8:
		return "set@" + lerrGenCur(r)
	case 9, 10:
		return "pos@" + lerrGenCur(r)
	case 11, 12:
		return "tok@p" + strconv.Itoa(r.intn(len(lerrPool)))
	case 13:
		if r.chance(1, 4) {
			return "tokptr@-"
		}
		return "tokptr@p" + strconv.Itoa(r.intn(len(lerrPool)))
	default:
		return "list@p" + strconv.Itoa(r.intn(len(lerrPool)))
	}
}

func (e *lerrEngine) generate(r *rng, n int, tier string, emit func(string)) {
	for i := 0; i < n; i++ {
		if i%20 == 19 {
			emit(lerrGenMalformed(r))
			continue
		}
		// a palette of two or three values: re-using it makes payloads of the same (uncomparable) kind meet
		palette := []string{lerrGenVal(r, 2), lerrGenVal(r, 2)}
		if r.chance(1, 2) {
			palette = append(palette, "( "+r.pick([]string{"L", "V", "M", "H"})+"@"+lerrGenCur(r)+" )")
		}
		val := func() string {
			if r.chance(3, 4) {
				return r.pick(palette)
			}
			return lerrGenVal(r, 2)
		}
		ops := []string{}
		reg := func() string {
			if r.chance(1, 2) {
				return strconv.Itoa(len(ops) - 1)
			}
			return strconv.Itoa(r.intn(len(ops)))
		}
		for k, bases := 0, 1+r.intn(3); k < bases; k++ {
			if r.chance(1, 4) {
				ops = append(ops, "SENT "+strconv.Itoa(r.intn(3)))
			} else {
				ops = append(ops, "VAL "+val())
			}
		}
		total := 3 + r.intn(10)
		for len(ops) < total {
			switch r.intn(20) {
			case 0, 1, 2, 3, 4:
				ops = append(ops, "THROW "+reg())
			case 5, 6, 7, 8, 9, 10:
				ops = append(ops, "REPOS "+reg()+" "+lerrGenCarrier(r))
			case 11, 12, 13, 14:
				ops = append(ops, "GOERR "+reg()+" x"+hx(r.pick([]string{"core[f]", "pkg[name]", "", "ü"})))
			case 15, 16:
				ops = append(ops, "UNW "+reg())
			case 17, 18:
				ops = append(ops, "VAL "+val())
			default:
				ops = append(ops, "SENT "+strconv.Itoa(r.intn(3)))
			}
		}
		emit(strings.Join(ops, " ; "))
	}
}

// the malformed / edge stream: both sides must reject the same way (bad-op / bad-reg)
func lerrGenMalformed(r *rng) string {
	good := "VAL I1 ; THROW 0"
	switch r.intn(12) {
	case 0:
		return ""
	case 1:
		return good + " ; REPOS " + strconv.Itoa(2+r.intn(3)) + " nil"
	case 2:
		return good + " ; FROB 1"
	case 3:
		return "VAL ( L@- I1"
	case 4:
		return "VAL " + r.pick([]string{"I", "I-0", "I+1", "Sabc", "Szz", "Y61", "Y61@p9", "( Q@- )", "( L )", "( M@- S61 )", "( H@- I1 )", "N N", ")"})
	case 5:
		return good + " ; REPOS 1"
	case 6:
		return good + " ; REPOS 1 " + r.pick([]string{"list", "list@p6", "tok@-", "foo@-", "pos@", "NIL"})
	case 7:
		return "SENT " + r.pick([]string{"3", "-1", "x", "01"})
	case 8:
		return good + " ; GOERR 1 " + r.pick([]string{"xabc", "xzz", "61", "x"})
	case 9:
		return good + " ; THROW " + r.pick([]string{"-1", "x", "01", "2"})
	case 10:
		return good + " ; " + r.pick([]string{"THROW", "UNW", "GOERR 1", "THROW 0 0", "UNW 9 9", "FROB 9"})
	default:
		return "THROW 0"
	}
}

func (e *lerrEngine) classify(payload, obs string) string {
	if !strings.Contains(obs, " | ") {
		return obs
	}
	seen := map[string]bool{}
	for _, op := range strings.Split(payload, " ; ") {
		if f := strings.Fields(op); len(f) > 0 {
			seen[f[0][:1]] = true
		}
	}
	label := ""
	for _, k := range []string{"V", "S", "T", "R", "G", "U"} {
		if seen[k] {
			label += k
		}
	}
	head := strings.SplitN(obs, " | ", 2)
	if strings.Contains(head[0], "P") {
		label += ":op-panic"
	}
	for _, f := range strings.Fields(head[1]) {
		if strings.HasPrefix(f, "is=") && strings.Contains(f, "P") {
			return label + ":is-panic"
		}
	}
	return label
}

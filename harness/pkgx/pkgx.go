// Package pkgx holds named Go functions that engine "pkgreg" (C02) registers with lib/call: their lisp names and the
// package key under which `_PACKAGES_` lists them are derived from these declarations by the code under test.
package pkgx

import "github.com/jig/lisp/types"

func Alpha(a types.MalType) (types.MalType, error)      { return a, nil }
func Beta(a types.MalType) (types.MalType, error)       { return a, nil }
func Gamma_delta() (types.MalType, error)               { return nil, nil }
func Epsilon(a ...types.MalType) (types.MalType, error) { return nil, nil }

package main

// Fact group "Appends" (property C02): every `append(x, …)`, every slice expression and every index
// assignment of /repo/lib/core/core.go, /repo/mal.go, /repo/types/types.go,
// /repo/lnotation/lnotation.go as Lean data (lean/LispModel/Generated/Appends.lean).
//
// For an append / index assignment the fact is WHERE THE WRITTEN SLICE COMES FROM, syntactically:
//   literal  a composite literal `[]T{…}` / `map[K]V{…}`
//   make     `make(…)`
//   nil      `nil`, `var x []T`, or a struct literal that leaves the field out
//   append   `append(y, …)` with y one of the above
//   (a local variable / field of a local struct has the origin of ALL its assignments in the
//    function when these agree on being fresh; `x = append(x, …)` does not count as an assignment)
//   param, field, slice, elem, range, call:<f>, unknown  — everything else: not fresh
// `fresh` = origin ∈ {literal, make, nil, append}.  Deliberately simple and conservative: no types,
// no inter-procedural reasoning (a call is reported as `call:<f>` and judged by the tie lemma).
// Data only; the lemmas are in lean/LispModel/Tie/Appends.lean.

import (
	"fmt"
	"go/ast"
	"go/parser"
	"go/token"
	"go/types"
	"path/filepath"
	"strings"
)

func init() { factGroups["Appends"] = appendsFacts }

var appendsFiles = []string{"lib/core/core.go", "mal.go", "types/types.go", "lnotation/lnotation.go", "lisperror/lisperror.go", "lib/concurrent/concurrent.go", "lib/call/call.go"}

// per function: what is assigned to each local (`x`) and to each field of a local (`x.F`)
type apFn struct {
	params  map[string]bool
	assigns map[string][]ast.Expr // nil entry = an assignment we cannot see through (range, multi-value…)
	nilDecl map[string]bool
}

func apKey(e ast.Expr) string {
	switch e := e.(type) {
	case *ast.Ident:
		return e.Name
	case *ast.SelectorExpr:
		if id, ok := e.X.(*ast.Ident); ok {
			return id.Name + "." + e.Sel.Name
		}
	case *ast.ParenExpr:
		return apKey(e.X)
	}
	return ""
}

func apCollect(fd *ast.FuncDecl) *apFn {
	fn := &apFn{params: map[string]bool{}, assigns: map[string][]ast.Expr{}, nilDecl: map[string]bool{}}
	addParams := func(fl *ast.FieldList) {
		if fl == nil {
			return
		}
		for _, f := range fl.List {
			for _, n := range f.Names {
				fn.params[n.Name] = true
			}
		}
	}
	addParams(fd.Recv)
	addParams(fd.Type.Params)
	addParams(fd.Type.Results)
	ast.Inspect(fd.Body, func(n ast.Node) bool {
		switch n := n.(type) {
		case *ast.FuncLit:
			addParams(n.Type.Params)
			addParams(n.Type.Results)
		case *ast.AssignStmt:
			for i, l := range n.Lhs {
				k := apKey(l)
				if k == "" || k == "_" {
					continue
				}
				if len(n.Rhs) == len(n.Lhs) {
					fn.assigns[k] = append(fn.assigns[k], n.Rhs[i])
				} else if len(n.Rhs) == 1 && i == 0 {
					fn.assigns[k] = append(fn.assigns[k], n.Rhs[0]) // `x, err := f(…)`
				} else {
					fn.assigns[k] = append(fn.assigns[k], nil)
				}
			}
		case *ast.RangeStmt:
			for _, l := range []ast.Expr{n.Key, n.Value} {
				if l != nil {
					if k := apKey(l); k != "" && k != "_" {
						fn.assigns[k] = append(fn.assigns[k], nil)
					}
				}
			}
		case *ast.ValueSpec:
			for i, id := range n.Names {
				if len(n.Values) == 0 {
					fn.nilDecl[id.Name] = true
				} else if len(n.Values) == len(n.Names) {
					fn.assigns[id.Name] = append(fn.assigns[id.Name], n.Values[i])
				} else {
					fn.assigns[id.Name] = append(fn.assigns[id.Name], nil)
				}
			}
		}
		return true
	})
	return fn
}

func apFresh(origin string) bool {
	return origin == "literal" || origin == "make" || origin == "nil" || origin == "append"
}

// is `e` the call `append(<key>, …)` ?
func apSelfAppend(e ast.Expr, key string) bool {
	c, ok := e.(*ast.CallExpr)
	if !ok || len(c.Args) == 0 {
		return false
	}
	if id, ok := c.Fun.(*ast.Ident); !ok || id.Name != "append" {
		return false
	}
	return apKey(c.Args[0]) == key
}

// combine the origins of all assignments: the first one that is not fresh wins
func apJoin(origins []string) string {
	if len(origins) == 0 {
		return "unknown"
	}
	for _, o := range origins {
		if !apFresh(o) {
			return o
		}
	}
	return origins[0]
}

func (fn *apFn) origin(e ast.Expr, seen map[string]bool) string {
	switch e := e.(type) {
	case nil:
		return "unknown"
	case *ast.ParenExpr:
		return fn.origin(e.X, seen)
	case *ast.CompositeLit:
		switch e.Type.(type) {
		case *ast.ArrayType, *ast.MapType:
			return "literal"
		}
		return "struct"
	case *ast.CallExpr:
		if id, ok := e.Fun.(*ast.Ident); ok {
			switch id.Name {
			case "make":
				return "make"
			case "append":
				if len(e.Args) == 0 {
					return "unknown"
				}
				if o := fn.origin(e.Args[0], seen); !apFresh(o) {
					return o
				}
				return "append"
			}
			return "call:" + id.Name
		}
		return "call:" + types.ExprString(e.Fun)
	case *ast.TypeAssertExpr:
		return fn.origin(e.X, seen)
	case *ast.SliceExpr:
		return "slice"
	case *ast.IndexExpr:
		return "elem"
	case *ast.Ident:
		if e.Name == "nil" {
			return "nil"
		}
		if fn.params[e.Name] {
			return "param"
		}
		return fn.originOfKey(e.Name, seen)
	case *ast.SelectorExpr:
		id, ok := e.X.(*ast.Ident)
		if !ok {
			return "field"
		}
		if fn.params[id.Name] {
			return "param"
		}
		key := id.Name + "." + e.Sel.Name
		if seen[key] {
			return "unknown"
		}
		seen[key] = true
		defer delete(seen, key)
		var os []string
		// what the struct was initialised with
		if fn.nilDecl[id.Name] {
			os = append(os, "nil")
		}
		for _, a := range fn.assigns[id.Name] {
			cl, ok := a.(*ast.CompositeLit)
			if !ok {
				o := fn.origin(a, seen)
				if apFresh(o) || o == "struct" {
					o = "unknown"
				}
				os = append(os, o)
				continue
			}
			fo := "nil" // field left out
			for _, el := range cl.Elts {
				if kv, ok := el.(*ast.KeyValueExpr); ok {
					if k, ok := kv.Key.(*ast.Ident); ok && k.Name == e.Sel.Name {
						fo = fn.origin(kv.Value, seen)
					}
				} else {
					fo = "unknown" // positional struct literal
				}
			}
			os = append(os, fo)
		}
		// and every later assignment to the field itself
		for _, a := range fn.assigns[key] {
			if a != nil && apSelfAppend(a, key) {
				continue
			}
			os = append(os, fn.origin(a, seen))
		}
		return apJoin(os)
	}
	return "unknown"
}

func (fn *apFn) originOfKey(key string, seen map[string]bool) string {
	if seen[key] {
		return "unknown"
	}
	seen[key] = true
	defer delete(seen, key)
	var os []string
	if fn.nilDecl[key] {
		os = append(os, "nil")
	}
	for _, a := range fn.assigns[key] {
		if a != nil && apSelfAppend(a, key) {
			continue
		}
		os = append(os, fn.origin(a, seen))
	}
	return apJoin(os)
}

func leanStr(s string) string {
	var b strings.Builder
	b.WriteByte('"')
	for _, r := range s {
		switch r {
		case '"':
			b.WriteString("\\\"")
		case '\\':
			b.WriteString("\\\\")
		case '\n':
			b.WriteString("\\n")
		case '\t':
			b.WriteString("\\t")
		default:
			b.WriteRune(r)
		}
	}
	b.WriteByte('"')
	return b.String()
}

func appendsFacts(repo string) (string, error) {
	var apps, slices, idxs []string
	for _, rel := range appendsFiles {
		fset := token.NewFileSet()
		f, err := parser.ParseFile(fset, filepath.Join(repo, rel), nil, 0)
		if err != nil {
			return "", err
		}
		for _, d := range f.Decls {
			fd, ok := d.(*ast.FuncDecl)
			if !ok || fd.Body == nil {
				continue
			}
			name := fd.Name.Name
			if fd.Recv != nil && len(fd.Recv.List) == 1 {
				t := fd.Recv.List[0].Type
				if st, ok := t.(*ast.StarExpr); ok {
					t = st.X
				}
				name = types.ExprString(t) + "." + name
			}
			fn := apCollect(fd)
			na, ns, ni := 0, 0, 0
			ast.Inspect(fd.Body, func(n ast.Node) bool {
				switch n := n.(type) {
				case *ast.CallExpr:
					if id, ok := n.Fun.(*ast.Ident); ok && id.Name == "append" && len(n.Args) > 0 {
						o := fn.origin(n.Args[0], map[string]bool{})
						apps = append(apps, fmt.Sprintf("  ⟨%s, %s, %d, %s, %s, %v⟩", leanStr(rel), leanStr(name), na,
							leanStr(types.ExprString(n.Args[0])), leanStr(o), apFresh(o)))
						na++
					}
					// builtins and library calls that WRITE INTO their first argument count as index assignments of it:
					// delete(m, k), copy(dst, src), clear(x), sort.X(x, …), slices.Sort*(x, …), slices.Reverse(x), maps.Copy(dst, src)
					writes := false
					if id, ok := n.Fun.(*ast.Ident); ok && (id.Name == "delete" || id.Name == "copy" || id.Name == "clear") && len(n.Args) > 0 {
						writes = true
					}
					if sel, ok := n.Fun.(*ast.SelectorExpr); ok && len(n.Args) > 0 {
						if pk, ok := sel.X.(*ast.Ident); ok {
							switch {
							case pk.Name == "sort" && sel.Sel.Name != "Search" && !strings.HasPrefix(sel.Sel.Name, "Search") && !strings.HasSuffix(sel.Sel.Name, "AreSorted") && !strings.HasPrefix(sel.Sel.Name, "Is"):
								writes = true
							case pk.Name == "slices" && (strings.HasPrefix(sel.Sel.Name, "Sort") || sel.Sel.Name == "Reverse"):
								writes = true
							case pk.Name == "maps" && (sel.Sel.Name == "Copy" || sel.Sel.Name == "DeleteFunc"):
								writes = true
							}
						}
					}
					if writes {
						o := fn.origin(n.Args[0], map[string]bool{})
						idxs = append(idxs, fmt.Sprintf("  ⟨%s, %s, %d, %s, %s, %v⟩", leanStr(rel), leanStr(name), ni,
							leanStr(types.ExprString(n.Args[0])), leanStr(o), apFresh(o)))
						ni++
					}
				case *ast.SliceExpr:
					slices = append(slices, fmt.Sprintf("  ⟨%s, %s, %d, %s, %v⟩", leanStr(rel), leanStr(name), ns,
						leanStr(types.ExprString(n)), n.Slice3))
					ns++
				case *ast.AssignStmt:
					for _, l := range n.Lhs {
						if ix, ok := l.(*ast.IndexExpr); ok {
							o := fn.origin(ix.X, map[string]bool{})
							idxs = append(idxs, fmt.Sprintf("  ⟨%s, %s, %d, %s, %s, %v⟩", leanStr(rel), leanStr(name), ni,
								leanStr(types.ExprString(ix.X)), leanStr(o), apFresh(o)))
							ni++
						}
					}
				}
				return true
			})
		}
	}
	var b strings.Builder
	b.WriteString("/- GENERATED by `harness facts` (harness/facts_appends.go) from the Go sources of /repo:\n")
	b.WriteString("   " + strings.Join(appendsFiles, ", ") + ".\n")
	b.WriteString("   Every `append(x, …)`, slice expression and index assignment, with the syntactic origin of the\n")
	b.WriteString("   written slice.  Data only.  Do not edit. -/\n")
	b.WriteString("namespace LispModel.Generated.Appends\n\n")
	b.WriteString("/-- `append(target, …)`: file, enclosing function, ordinal within it, target expression, origin, fresh? -/\n")
	b.WriteString("structure AppendSite where\n  file : String\n  func : String\n  ord : Nat\n  target : String\n  origin : String\n  fresh : Bool\nderiving Repr, DecidableEq\n\n")
	b.WriteString("/-- `a[i:j]` / `a[i:j:k]`: file, enclosing function, ordinal, the expression, 3-index? -/\n")
	b.WriteString("structure SliceSite where\n  file : String\n  func : String\n  ord : Nat\n  expr : String\n  threeIndex : Bool\nderiving Repr, DecidableEq\n\n")
	b.WriteString("/-- `target[i] = …`: file, enclosing function, ordinal, target expression, origin, fresh? -/\n")
	b.WriteString("structure IndexAssign where\n  file : String\n  func : String\n  ord : Nat\n  target : String\n  origin : String\n  fresh : Bool\nderiving Repr, DecidableEq\n\n")
	wr := func(name, ty string, rows []string) {
		fmt.Fprintf(&b, "def %s : List %s := [\n%s]\n\n", name, ty, strings.Join(rows, ",\n"))
	}
	wr("appendSites", "AppendSite", apps)
	wr("sliceSites", "SliceSite", slices)
	wr("indexAssigns", "IndexAssign", idxs)
	b.WriteString("end LispModel.Generated.Appends\n")
	return b.String(), nil
}

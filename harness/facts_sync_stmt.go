package main

import (
	"go/ast"
	"go/token"
	"strconv"
	"strings"
)

func (w *syncWalker) stmts(list []ast.Stmt) {
	for _, s := range list {
		w.stmt(s)
	}
}

func (w *syncWalker) stmt(s ast.Stmt) {
	switch t := s.(type) {
	case *ast.ExprStmt:
		if m, mu, ok := lockCall(t.X); ok {
			switch m {
			case "Lock":
				w.emit(".lock " + mu)
				w.hold(".w " + mu)
			case "RLock":
				w.emit(".rlock " + mu)
				w.hold(".r " + mu)
			case "Unlock":
				w.emit(".unlock " + mu)
				w.release(".w " + mu)
			case "RUnlock":
				w.emit(".runlock " + mu)
				w.release(".r " + mu)
			}
			return
		}
		w.expr(t.X)
	case *ast.DeferStmt:
		if m, mu, ok := lockCall(t.Call); ok && m == "Unlock" {
			w.emit(".deferUnlock " + mu) // stays held until the function returns
			return
		} else if ok && m == "RUnlock" {
			w.emit(".deferRUnlock " + mu)
			return
		}
		if fl, ok := t.Call.Fun.(*ast.FuncLit); ok && len(fl.Body.List) == 1 {
			if as, ok := fl.Body.List[0].(*ast.AssignStmt); ok && len(as.Lhs) == 1 {
				if sel, ok := as.Lhs[0].(*ast.SelectorExpr); ok {
					if loc, ok := fieldLoc[sel.Sel.Name]; ok {
						// runs at return, with whatever is held then: this function holds nothing by then
						// unless a deferred unlock was registered before it (LIFO) — recorded with the current set
						w.emit(".deferWrite ." + loc)
						w.accs = append(w.accs, syncAccess{w.fn, loc, true, append([]string(nil), w.held...)})
						return
					}
				}
			}
		}
		w.unknown("defer", t)
	case *ast.AssignStmt:
		for _, r := range t.Rhs {
			w.expr(r)
		}
		for _, l := range t.Lhs {
			if sel, ok := l.(*ast.SelectorExpr); ok {
				if loc, ok := fieldLoc[sel.Sel.Name]; ok {
					w.access(loc, true)
				}
			}
		}
	case *ast.IncDecStmt:
		if sel, ok := t.X.(*ast.SelectorExpr); ok {
			if loc, ok := fieldLoc[sel.Sel.Name]; ok {
				w.access(loc, true)
				return
			}
		}
	case *ast.ReturnStmt:
		for _, r := range t.Results {
			w.expr(r)
		}
		w.emit(".ret")
	case *ast.GoStmt:
		w.emit(".spawn")
	case *ast.SendStmt:
		if sel, ok := t.Chan.(*ast.SelectorExpr); ok && sel.Sel.Name == "ValChan" && w.errSend {
			w.errSend = false
			w.emit(".send")
			return
		}
		w.unknown("send", t)
	case *ast.ForStmt:
		if t.Cond != nil || t.Init != nil || t.Post != nil {
			w.unknown("for with condition", t)
			return
		}
		start := len(w.ops)
		w.stmts(t.Body.List)
		w.emit(".jmp " + strconv.Itoa(start))
	case *ast.IfStmt:
		w.ifStmt(t)
	case *ast.SelectStmt:
		w.selectStmt(t)
	case *ast.DeclStmt, *ast.EmptyStmt:
	case *ast.BlockStmt:
		w.stmts(t.List)
	default:
		w.unknown("statement", s)
	}
}

func (w *syncWalker) ifStmt(t *ast.IfStmt) {
	if t.Init != nil || t.Else != nil {
		w.unknown("if with init/else", t)
		return
	}
	src := w.src(t.Cond)
	switch {
	case strings.HasPrefix(src, "!Q["): // argument type check in front of the function
		return
	case isNilCheck(t.Cond, token.NEQ) && !strings.Contains(src, "ctx") && endsInReturn(t.Body):
		// error return: right after Apply it is the callback's error exit; with a send it is the
		// error half of the outcome delivery
		if len(t.Body.List) == 2 {
			if snd, ok := t.Body.List[0].(*ast.SendStmt); ok {
				if sel, ok := snd.Chan.(*ast.SelectorExpr); ok && sel.Sel.Name == "ErrChan" {
					w.errSend = true
					return
				}
			}
		}
		if len(t.Body.List) == 1 && len(w.ops) > 0 && w.ops[len(w.ops)-1] == ".callback" {
			return
		}
		w.unknown("error check", t)
	case strings.Contains(src, "ctx.Err()") && endsInReturn(t.Body) && len(t.Body.List) == 1:
		w.emit(".ctxCheck")
	default:
		// `if x.version == version {…}` / `if !f.Done {…}`: branch around the body
		var op string
		if b, ok := t.Cond.(*ast.BinaryExpr); ok && b.Op == token.EQL {
			if sel, ok := b.X.(*ast.SelectorExpr); ok && sel.Sel.Name == "version" {
				op = ".brNe .ver"
				w.accs = append(w.accs, syncAccess{w.fn, "ver", false, append([]string(nil), w.held...)})
			}
		}
		if u, ok := t.Cond.(*ast.UnaryExpr); ok && u.Op == token.NOT {
			if sel, ok := u.X.(*ast.SelectorExpr); ok && sel.Sel.Name == "Done" {
				op = ".brTrue .done"
				w.accs = append(w.accs, syncAccess{w.fn, "done", false, append([]string(nil), w.held...)})
			}
		}
		if op == "" {
			w.unknown("if", t)
			return
		}
		at := len(w.ops)
		w.emit(op)
		saved := append([]string(nil), w.held...)
		w.stmts(t.Body.List)
		w.held = saved
		w.ops[at] = op + " " + strconv.Itoa(len(w.ops))
	}
}

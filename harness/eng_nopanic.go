package main

// engine "nopanic" (C04): EVERY builtin of the three libraries — also the ones the Lean model does not cover (metadata,
// JSON, base64, errors, time, …) — applied to 0, 1 and 2 arguments of every kind (3 arguments sampled), directly and
// under try/catch, plus programs that combine metadata with macros / apply / map.  Only the outcome class is
// observed: a value, a lisp error, or a Go panic escaping EVAL (violation).  The Lean driver answers "-".

import (
	"context"
	"fmt"
	"strings"
	"time"

	"github.com/jig/lisp"
	. "github.com/jig/lisp/types"
)

type noPanicEngine struct{}

func init() { register("nopanic", &noPanicEngine{}) }

func (e *noPanicEngine) leanName() string { return "nomodel" }

// every name the libraries bind, except those that print, read the terminal or write files
var allBuiltins = strings.Fields(`* + - / < <= = > >= apply assert assoc assoc-in atom atom? base64 binary2str concat conj cons contains? count
 deref dissoc drop drop-last empty? error-string eval false? first fn? future-call future-cancel future-cancelled? future-done? future? get get-in
 go-error hash-map hash-map-decode hash-set json-decode json-encode keys keyword keyword? list list? macro? map map? merge meta new-atom new-error
 new-future-call new-go-error nil? nth number? panic pr-str range read-string rename-keys reset! rest seq sequential? set set? sleep slurp split str
 str2binary string? subvec swap! symbol symbol? take take-last throw time-ms time-ns true? type? unbase64 unwrap-error update update-in uuid vals vec
 vector vector? version with-meta not inc dec reduce gensym memoize identity some every? partition str-join
 emb-c0 emb-c1 emb-c2 emb-n0 emb-n1 emb-n2 emb-cv0 emb-cv1 emb-c00 emb-bug-c0 emb-bug-c1 emb-bug-n0 emb-bug-c2`)

var npArgs = []string{
	"nil", "1", "\"s\"", ":k", "(quote sym)", "()", "(quote (1 2))", "[1]", "{}", "{:a 1}", "#{}", "(fn [x] x)",
	"(with-meta (fn [x] x) {:a 1})", "(atom 1)", "true", "(with-meta [1 2] {:m 1})", "-1", "(future 1)",
}

var npPrograms = []string{
	"(do (defmacro wm (with-meta (fn [x] (list 'do x x)) {:doc 1})) (wm (+ 1 2)))",
	"(do (defmacro wm (with-meta (fn [x] (list 'do x x)) {:doc 1})) (macroexpand (wm 7)))",
	"(apply (with-meta (fn [x] x) {:a 1}) [1])",
	"((with-meta (fn [x] x) {:a 1}) 1)",
	"(map (with-meta (fn [x] x) {}) [1 2])",
	"(swap! (atom 1) (with-meta (fn [x] x) {:a 1}))",
	"(meta (with-meta (with-meta (fn [] 1) {:a 1}) {:b 2}))",
	"(do (def f (with-meta (fn [& xs] xs) nil)) (f) (apply f []) (map f [1]))",
	"(deref (future-call (with-meta (fn [] 1) {:a 1})))",
	"(with-meta 5 {:a 1})", "(meta 5)", "(with-meta + {:a 1})", "((with-meta + {:a 1}) 1 2)",
	"(try (throw (with-meta {:a 1} {:m 2})) (catch e (meta e)))",
	"(json-encode (with-meta {:a [1 2]} {:m 1}))", "(json-decode \"{\")", "(json-decode \"[1, 2\")", "(unbase64 \"!!!\")",
	"(read-string \"(\")", "(read-string \"\")", "(eval (read-string \"(\"))", "(str (atom (atom nil)))", "(pr-str (future 1))",
	// an error raised inside a callback travels through the builtin that applied it, whose CALL FORM was built by a macro /
	// by eval / by apply (it has no source position; the program text is anonymous: no module either)
	"(->> [1 2 3] (map (fn [x] (+ x \"a\"))))", "(-> (atom 0) (swap! (fn [x] (nth [] 3))))", "(-> {:k 1} (update :k (fn [x] (undefined-z))))",
	"(->> [1] (map (fn [x] (throw {:x x}))))", "(eval (list 'map (fn [x] (throw x)) [1]))", "(eval (list 'swap! (atom 0) (fn [x] (nth [] 3))))",
	"(do (defmacro via (fn [& form] form)) (via map (fn [x] (+ x \"a\")) [1]))", "(do (defmacro via (fn [& form] `(do ~form))) (via update {:k 1} :k (fn [x] (nth [] 9))))",
	"(apply map [(fn [x] (nth [] 3)) [1]])", "(->> [1] (map (fn [x] (->> [2] (map (fn [y] (throw y)))))))", "(-> 1 (throw))", "(->> \"s\" (+ 1))", "(-> (future (nth [] 1)) (deref))",
	"(->> [[1]] (map (fn [v] (->> v (map (fn [x] (assert false)))))))", "(do (defmacro m2 (fn [f] (list 'map f [1 2]))) (m2 (fn [x] (undefined-q x))))", "(->> (read-string \"(nth [] 2)\") (eval))",
	"(reduce + [])", "(reduce (fn [] 1) [1 2])", "(some 5 [1])", "(every? 5 [1])", "(memoize 5)", "((memoize (fn [x] x)))",
}

// programs run under a REAL deadline a few milliseconds away: they enter `try` forms (and everything else) again and
// again until the deadline passes, so some form is entered in its last microseconds
var npDeadlinePrograms = []string{
	"(do (def tl (fn [n] (do (try (+ n 1) (catch e nil)) (tl (+ n 1))))) (tl 0))",
	"(do (def tl (fn [n] (try (if (< n 0) (throw n) (tl (+ n 1))) (catch e (tl 0))))) (tl 0))",
	"(do (def tl (fn [n] (do (try (throw n) (catch e e) (finally (+ 1 1))) (tl (+ n 1))))) (tl 0))",
	"(do (def tl (fn [n] (do (try (try (nth [] 1) (catch e (throw e))) (catch e2 nil)) (tl (+ n 1))))) (tl 0))",
	"(do (def tl (fn [n] (do (deref (future (try n (catch e nil)))) (tl (+ n 1))))) (tl 0))",
	"(do (def tl (fn [n] (do (map (fn [x] (try x (catch e nil))) [1 2 3]) (swap! (atom 0) (fn [x] (try x (finally nil)))) (tl (+ n 1))))) (tl 0))",
}

func (e *noPanicEngine) runDeadline(f []string) string {
	var ms, p int
	if _, err := fmt.Sscanf(f[1]+" "+f[2], "%d %d", &ms, &p); err != nil || p < 0 || p >= len(npDeadlinePrograms) || ms < 1 || ms > 500 {
		return "bad-case"
	}
	ec := &evalCase{}
	env, err := childEnv(ec)
	if err != nil {
		return "setup-error"
	}
	ast, err := lisp.READ(npDeadlinePrograms[p], nil, env)
	if err != nil {
		return "read-error"
	}
	for rep := 0; rep < 4; rep++ {
		ctx, cancel := context.WithTimeout(context.Background(), time.Duration(ms)*time.Millisecond+time.Duration(rep*137)*time.Microsecond)
		o := safeRunInline(func() string {
			if _, err := lisp.EVAL(ctx, ast, env); err != nil {
				return "err"
			}
			return "ok"
		})
		cancel()
		if strings.HasPrefix(o, "PANIC") || strings.HasPrefix(o, "HANG") {
			return o + " in " + npDeadlinePrograms[p] + " under a deadline"
		}
	}
	return "err"
}

func (e *noPanicEngine) generate(r *rng, n int, tier string, emit func(string)) {
	for _, p := range npPrograms {
		emit("prog " + p)
	}
	for p := range npDeadlinePrograms {
		for _, ms := range []int{2, 5, 9, 14, 20} {
			emit(fmt.Sprintf("dl %d %d", ms, p))
		}
	}
	for _, b := range allBuiltins {
		emit("call " + b)
		for i := range npArgs {
			emit(fmt.Sprintf("call %s %d", b, i))
			for j := range npArgs {
				emit(fmt.Sprintf("call %s %d %d", b, i, j))
			}
		}
	}
	for i := 0; i < n; i++ {
		emit(fmt.Sprintf("call %s %d %d %d", r.pick(allBuiltins), r.intn(len(npArgs)), r.intn(len(npArgs)), r.intn(len(npArgs))))
	}
}

func (e *noPanicEngine) run(payload string) string {
	src := ""
	if strings.HasPrefix(payload, "prog ") {
		src = payload[5:]
	} else {
		f := strings.Fields(payload)
		if len(f) == 3 && f[0] == "dl" {
			return e.runDeadline(f)
		}
		if len(f) < 2 || f[0] != "call" {
			return "bad-case"
		}
		parts := []string{f[1]}
		for _, a := range f[2:] {
			var i int
			if _, err := fmt.Sscanf(a, "%d", &i); err != nil || i < 0 || i >= len(npArgs) {
				return "bad-case"
			}
			parts = append(parts, npArgs[i])
		}
		src = "(" + strings.Join(parts, " ") + ")"
	}
	out := ""
	for _, wrap := range []string{"%s", "(try %s (catch e :caught))"} {
		ec := &evalCase{}
		env, err := childEnv(ec)
		if err != nil {
			return "setup-error"
		}
		ast, err := lisp.READ(fmt.Sprintf(wrap, src), nil, env)
		if err != nil {
			return "read-error"
		}
		ctx, cancel := context.WithCancel(context.Background())
		o := safeRunInline(func() string {
			if _, err := lisp.EVAL(ctx, ast, env); err != nil {
				return "err"
			}
			return "ok"
		})
		cancel() // futures started by the case end with it
		if strings.HasPrefix(o, "PANIC") || strings.HasPrefix(o, "HANG") {
			return o + " in " + fmt.Sprintf(wrap, src)
		}
		out += o + " "
	}
	return strings.TrimSpace(out)
}

func (e *noPanicEngine) classify(payload, obs string) string {
	return strings.Fields(payload + " ?")[0] + "/" + strings.Fields(obs + " ?")[0]
}

var _ MalType

package main

// Typed random program generator (C01 and the properties built on it): expressions are grown from
// a small type discipline (int, bool, seq, fn of known arity) so that most programs evaluate without
// error; `trace!` calls are sprinkled at argument positions; shadowing, closures returned and called
// later, `&` parameters, recursion with a decreasing counter, top-level defs.

import (
	. "github.com/jig/lisp/types"
)

type ty int

const (
	tInt ty = iota
	tBool
	tSeq
	tAny
)

type fnInfo struct {
	name    string
	arity   int
	variad  bool
	returns ty
}

type scope struct {
	vars []struct {
		name string
		t    ty
	}
	fns []fnInfo
}

func (s *scope) withVar(name string, t ty) *scope {
	n := &scope{vars: append(append([]struct {
		name string
		t    ty
	}{}, s.vars...), struct {
		name string
		t    ty
	}{name, t}), fns: s.fns}
	return n
}

func (s *scope) withFn(f fnInfo) *scope {
	return &scope{vars: s.vars, fns: append(append([]fnInfo{}, s.fns...), f)}
}

func sy(s string) Symbol                { return Symbol{Val: s} }
func ls(items ...MalType) List          { return List{Val: items} }
func vc(items ...MalType) Vector        { return Vector{Val: items} }
func call1(f string, a ...MalType) List { return List{Val: append([]MalType{sy(f)}, a...)} }

var varNames = []string{"a", "b", "c", "x", "y", "n", "acc"}

type progGen struct {
	r     *rng
	defs  []string
	trace bool
	errs  bool // allow deliberately faulty sub-expressions
}

func (g *progGen) maybeTrace(e MalType) MalType {
	if g.trace && g.r.chance(1, 4) {
		return call1("trace!", e)
	}
	return e
}

func (g *progGen) intLit() MalType { return g.r.intn(7) - 1 }

func (g *progGen) expr(t ty, depth int, sc *scope) MalType {
	r := g.r
	if t == tAny {
		t = []ty{tInt, tBool, tSeq}[r.intn(3)]
	}
	// variables of the wanted type
	var cands []string
	for _, v := range sc.vars {
		if v.t == t {
			cands = append(cands, v.name)
		}
	}
	if depth <= 0 || r.chance(1, 4) {
		if len(cands) > 0 && r.chance(2, 3) {
			return g.maybeTrace(sy(cands[r.intn(len(cands))]))
		}
		switch t {
		case tInt:
			return g.maybeTrace(g.intLit())
		case tBool:
			return []MalType{true, false, nil}[r.intn(3)]
		default:
			return g.seqLit(depth, sc)
		}
	}
	if g.errs && r.chance(1, 40) {
		return g.faulty(depth, sc)
	}
	// generic constructs available at every type
	switch r.intn(12) {
	case 0:
		return call1("if", g.expr(tBool, depth-1, sc), g.expr(t, depth-1, sc), g.expr(t, depth-1, sc))
	case 1:
		if r.chance(1, 3) {
			return call1("if", g.expr(tAny, depth-1, sc), g.expr(t, depth-1, sc)) // no else branch
		}
		return call1("if", g.expr(tBool, depth-1, sc), g.expr(t, depth-1, sc), g.expr(t, depth-1, sc))
	case 2:
		// let with sequential bindings and shadowing
		name := r.pick(varNames)
		vt := []ty{tInt, tBool, tSeq}[r.intn(3)]
		binds := []MalType{sy(name), g.expr(vt, depth-1, sc)}
		sc2 := sc.withVar(name, vt)
		if r.chance(1, 2) {
			name2 := r.pick(varNames)
			vt2 := []ty{tInt, tSeq}[r.intn(2)]
			binds = append(binds, sy(name2), g.expr(vt2, depth-1, sc2)) // may refer to the first binding
			sc2 = sc2.withVar(name2, vt2)
		}
		body := []MalType{}
		for i, k := 0, r.intn(2); i < k; i++ {
			body = append(body, g.expr(tAny, depth-2, sc2))
		}
		body = append(body, g.expr(t, depth-1, sc2))
		var bv MalType = vc(binds...)
		if r.chance(1, 4) {
			bv = ls(binds...)
		}
		return List{Val: append([]MalType{sy("let"), bv}, body...)}
	case 3:
		forms := []MalType{sy("do")}
		for i, k := 0, r.intn(3); i < k; i++ {
			forms = append(forms, g.expr(tAny, depth-2, sc))
		}
		forms = append(forms, g.expr(t, depth-1, sc))
		return List{Val: forms}
	case 4:
		// immediately applied closure, possibly with & rest parameter
		k := r.intn(3)
		params := []MalType{}
		args := []MalType{}
		sc2 := sc
		for i := 0; i < k; i++ {
			n := r.pick(varNames)
			params = append(params, sy(n))
			sc2 = sc2.withVar(n, tInt)
			args = append(args, g.expr(tInt, depth-1, sc))
		}
		if r.chance(1, 3) {
			params = append(params, sy("&"), sy("more"))
			sc2 = sc2.withVar("more", tSeq)
			for i, m := 0, r.intn(3); i < m; i++ {
				args = append(args, g.expr(tInt, depth-1, sc))
			}
		}
		var pv MalType = vc(params...)
		if r.chance(1, 3) {
			pv = ls(params...)
		}
		f := ls(sy("fn"), pv, g.expr(t, depth-1, sc2))
		return g.viaApply(f, args)
	case 5:
		// closure bound with let, capturing a variable, called later (maybe twice); the name is unique per
		// nesting level: with one fixed name an inner body that calls the OUTER closure would, at run time,
		// call itself through the let scope it captures (accidental unbounded recursion)
		cap := r.pick(varNames)
		sc2 := sc.withVar(cap, tInt)
		p := r.pick(varNames)
		fname := "f" + string(rune('0'+depth%10))
		body := g.expr(t, depth-2, sc2.withVar(p, tInt))
		f := ls(sy("fn"), vc(sy(p)), body)
		sc3 := sc2.withFn(fnInfo{name: fname, arity: 1, returns: t})
		return ls(sy("let"), vc(sy(cap), g.expr(tInt, depth-1, sc), sy(fname), f),
			call1(fname, g.expr(tInt, depth-1, sc3)))
	case 6:
		// call of a known function
		var fs []fnInfo
		for _, f := range sc.fns {
			if f.returns == t {
				fs = append(fs, f)
			}
		}
		if len(fs) > 0 {
			f := fs[r.intn(len(fs))]
			args := []MalType{}
			for i := 0; i < f.arity; i++ {
				args = append(args, g.expr(tInt, depth-1, sc))
			}
			return g.viaApply(sy(f.name), args)
		}
	case 7:
		if t != tBool {
			return call1("quote", g.quoted(t))
		}
	}
	switch t {
	case tInt:
		if r.chance(1, 9) {
			return g.nestedLit(depth, sc)
		}
		switch r.intn(8) {
		case 0, 1, 2:
			return call1(r.pick([]string{"+", "-", "*"}), g.expr(tInt, depth-1, sc), g.expr(tInt, depth-1, sc))
		case 3:
			return call1("count", g.expr(tSeq, depth-1, sc))
		case 4:
			return call1("trace!", g.expr(tInt, depth-1, sc))
		case 5:
			return call1("nth", g.seqLit(depth, sc), r.intn(3)) // may be out of range: an error the definition prescribes
		case 6:
			return call1("apply", sy("+"), vc(g.expr(tInt, depth-1, sc), g.expr(tInt, depth-1, sc)))
		default:
			return call1("first", call1("list", g.expr(tInt, depth-1, sc), g.expr(tInt, depth-1, sc)))
		}
	case tBool:
		switch r.intn(6) {
		case 0, 1:
			return call1(r.pick([]string{"<", "<=", ">", ">=", "="}), g.expr(tInt, depth-1, sc), g.expr(tInt, depth-1, sc))
		case 2:
			return call1("not", g.expr(tBool, depth-1, sc))
		case 3:
			return call1("empty?", g.expr(tSeq, depth-1, sc))
		case 4:
			if r.chance(1, 2) {
				return call1(r.pick([]string{"list?", "nil?", "sequential?"}), g.expr(tSeq, depth-1, sc)) // () is a list, not nil
			}
			return call1("nil?", g.expr(tAny, depth-1, sc))
		default:
			return call1("=", g.expr(tSeq, depth-1, sc), g.expr(tSeq, depth-1, sc))
		}
	default:
		switch r.intn(8) {
		case 0:
			return call1("cons", g.expr(tInt, depth-1, sc), g.expr(tSeq, depth-1, sc))
		case 1:
			return call1("rest", g.expr(tSeq, depth-1, sc))
		case 2:
			return call1("concat", g.expr(tSeq, depth-1, sc), g.expr(tSeq, depth-1, sc))
		case 3:
			if r.chance(1, 4) {
				// the rest-parameter list of each call escapes: every call has its own
				return call1("map", ls(sy("fn"), vc(sy("&"), sy("more")), sy("more")), g.expr(tSeq, depth-1, sc))
			}
			p := r.pick(varNames)
			return call1("map", ls(sy("fn"), vc(sy(p)), g.expr(tInt, depth-2, sc.withVar(p, tInt))), g.expr(tSeq, depth-1, sc))
		case 4:
			return call1("list", g.expr(tInt, depth-1, sc), g.expr(tInt, depth-1, sc))
		case 5:
			return call1("conj", g.seqLit(depth, sc), g.expr(tInt, depth-1, sc))
		case 6:
			return call1("vec", g.expr(tSeq, depth-1, sc))
		default:
			return g.seqLit(depth, sc)
		}
	}
}

// viaApply: a call `(f a…)`, or (1 in 4) the same call routed through the `apply` builtin — `(apply f [a…])` /
// `(apply f a1 (list a2…))` — i.e. through function application outside the evaluation loop
func (g *progGen) viaApply(f MalType, args []MalType) MalType {
	if g.trace && g.r.chance(1, 6) {
		// the operator is an expression with an effect of its own: it is evaluated FIRST, then the operands
		f = []MalType{ls(sy("do"), call1("trace!", 100+g.r.intn(9)), f), ls(sy("if"), call1("trace!", true), f, f),
			call1("first", call1("list", f, call1("trace!", 100+g.r.intn(9))))}[g.r.intn(3)]
		return List{Val: append([]MalType{f}, args...)}
	}
	if !g.r.chance(1, 4) {
		return List{Val: append([]MalType{f}, args...)}
	}
	k := 0
	if len(args) > 0 {
		k = g.r.intn(len(args) + 1)
	}
	var last MalType = vc(args[k:]...)
	if g.r.chance(1, 2) {
		last = List{Val: append([]MalType{sy("list")}, args[k:]...)}
	}
	out := append([]MalType{sy("apply"), f}, args[:k]...)
	return List{Val: append(out, last)}
}

var litKeys = []string{"\u029ek", "\u029ea", "s"}

// nestedLit: an int expression buried in nested vector / hash-map LITERALS (evaluated element-wise by
// eval_ast) and extracted again; a map literal has ONE entry: the evaluation order of a map literal's values is
// Go's map order, which shows in the Stepper's callback sequence and — when a value fails — in the poll count
func (g *progGen) nestedLit(depth int, sc *scope) MalType {
	var e MalType = g.expr(tInt, depth-2, sc)
	var path []MalType
	for i, n := 0, 1+g.r.intn(3); i < n; i++ {
		if g.r.chance(1, 2) {
			k := g.r.pick(litKeys)
			m := map[string]MalType{k: e}
			e = HashMap{Val: m}
			path = append([]MalType{k}, path...)
		} else {
			items := []MalType{}
			for j, pre := 0, g.r.intn(3); j < pre; j++ {
				items = append(items, g.intLit())
			}
			idx := len(items)
			items = append(items, e)
			if g.r.chance(1, 3) {
				items = append(items, g.intLit())
			}
			e = vc(items...)
			path = append([]MalType{idx}, path...)
		}
	}
	if len(path) == 1 {
		if _, ok := path[0].(int); ok {
			return call1("nth", e, path[0])
		}
		return call1("get", e, path[0])
	}
	return call1("get-in", e, vc(path...))
}

func (g *progGen) seqLit(depth int, sc *scope) MalType {
	n := g.r.intn(4)
	items := []MalType{}
	for i := 0; i < n; i++ {
		if depth > 1 && g.r.chance(1, 3) {
			items = append(items, g.expr(tInt, depth-2, sc))
		} else {
			items = append(items, g.intLit())
		}
	}
	if g.r.chance(1, 2) {
		return vc(items...)
	}
	return List{Val: append([]MalType{sy("list")}, items...)}
}

func (g *progGen) quoted(t ty) MalType {
	if t == tInt {
		return g.intLit()
	}
	return ls(g.intLit(), g.intLit())
}

// faulty: the kinds of error the language definition prescribes
func (g *progGen) faulty(depth int, sc *scope) MalType {
	switch g.r.intn(8) {
	case 0:
		return sy("undefined-var")
	case 1:
		return ls(g.intLit(), g.intLit()) // non-callable head
	case 2:
		return ls(ls(sy("fn"), vc(sy("a")), sy("a"))) // too few arguments
	case 3:
		return ls(ls(sy("fn"), vc(sy("a")), sy("a")), 1, 2) // too many arguments
	case 4:
		return call1("+", 1, "s") // builtin domain error
	case 6:
		return ls(sy("undefined-fn"), call1("trace!", g.intLit()), ls(sy("def"), sy("touched"), 1)) // unbound operator: no operand is evaluated
	case 7:
		// special forms failing with a plain error, in tail position of another form
		return []MalType{call1("let", 5, 1), ls(sy("if"), true, call1("let", 5, 1)), ls(sy("do"), 1, call1("let", vc(sy("a")), 1))}[g.r.intn(3)]
	default:
		return call1("let", vc(sy("a")), 1) // odd bindings
	}
}

// program: a `do` of defs (values and functions, one of them recursive) followed by an expression
func (g *progGen) program(depth int) (MalType, []string) {
	r := g.r
	sc := &scope{}
	forms := []MalType{sy("do")}
	var names []string
	nd := r.intn(4)
	for i := 0; i < nd; i++ {
		switch r.intn(4) {
		case 0:
			n := "g" + string(rune('a'+i))
			forms = append(forms, ls(sy("def"), sy(n), g.expr(tInt, depth-1, sc)))
			sc = sc.withVar(n, tInt)
			names = append(names, n)
		case 1:
			// counting loop, tail recursive
			n := "loop" + string(rune('a'+i))
			// (the iteration count is clamped so that every generated program stays short)
			body := call1("if", call1("<", sy("n"), 1), sy("acc"), call1("if", call1(">", sy("n"), 60), sy("acc"),
				call1(n, call1("-", sy("n"), 1), call1("+", sy("acc"), g.maybeTrace(sy("n"))))))
			forms = append(forms, ls(sy("def"), sy(n), ls(sy("fn"), vc(sy("n"), sy("acc")), body)))
			sc = sc.withFn(fnInfo{name: n, arity: 2, returns: tInt})
		case 2:
			// non-tail recursion (fib-like, small)
			n := "rec" + string(rune('a'+i))
			body := call1("if", call1("<", sy("n"), 2), sy("n"), call1("if", call1(">", sy("n"), 9), 0,
				call1("+", call1(n, call1("-", sy("n"), 1)), call1(n, call1("-", sy("n"), 2)))))
			forms = append(forms, ls(sy("def"), sy(n), ls(sy("fn"), vc(sy("n")), body)))
			sc = sc.withFn(fnInfo{name: n, arity: 1, returns: tInt})
		default:
			n := "f" + string(rune('a'+i))
			k := 1 + r.intn(2)
			params := []MalType{}
			sc2 := sc
			for j := 0; j < k; j++ {
				p := varNames[j]
				params = append(params, sy(p))
				sc2 = sc2.withVar(p, tInt)
			}
			rt := []ty{tInt, tSeq}[r.intn(2)]
			forms = append(forms, ls(sy("def"), sy(n), ls(sy("fn"), vc(params...), g.expr(rt, depth-1, sc2))))
			sc = sc.withFn(fnInfo{name: n, arity: k, returns: rt})
		}
	}
	// a def executed inside a function body, a zero-parameter thunk or a let body binds in that scope only:
	// the global of the same name (if any) must be unchanged afterwards
	if r.chance(1, 3) {
		target := "ga"
		if len(names) > 0 {
			target = names[r.intn(len(names))]
		} else {
			forms = append(forms, ls(sy("def"), sy("ga"), g.intLit()))
			sc = sc.withVar("ga", tInt)
			names = append(names, "ga")
		}
		inner := ls(sy("def"), sy(target), g.expr(tInt, 2, sc))
		switch r.intn(6) {
		case 4:
			// the same thunk applied through the `apply` builtin (function application outside the evaluation loop)
			forms = append(forms, ls(sy("def"), sy("thunk"), ls(sy("fn"), vc(), inner, call1("trace!", sy(target)))),
				call1("apply", sy("thunk"), []MalType{vc(), ls(sy("list"))}[r.intn(2)]))
		case 5:
			forms = append(forms, ls(sy("let"), vc(sy(target), g.intLit()),
				call1("apply", ls(sy("fn"), vc(), inner), vc()), call1("trace!", sy(target))))
		case 0:
			forms = append(forms, ls(sy("def"), sy("thunk"), ls(sy("fn"), vc(), inner, call1("trace!", sy(target)))), ls(sy("thunk")))
		case 1:
			forms = append(forms, ls(ls(sy("fn"), vc(), ls(sy("do"), inner, sy(target)))))
		case 2:
			forms = append(forms, ls(sy("let"), vc(), inner, call1("trace!", sy(target))))
		default:
			forms = append(forms, ls(ls(sy("fn"), vc(sy("q")), inner, call1("+", sy("q"), sy(target))), g.intLit()))
		}
		forms = append(forms, call1("trace!", sy(target)))
	}
	forms = append(forms, g.expr(tAny, depth, sc))
	return List{Val: forms}, names
}

func init() {
	register("eval", &evalEngine{gen: func(r *rng, n int, tier string, emit func(string)) {
		depth := 4
		for i := 0; i < n; i++ {
			g := &progGen{r: r, trace: true, errs: true}
			d := depth
			if tier == "thorough" && r.chance(1, 2) {
				d = 6
			}
			if i%8 == 7 {
				emit(evalPayload(-1, "-", []string{"x", "z", "q"}, scopeScenario(r)))
				continue
			}
			ast, names := g.program(d)
			emit(evalPayload(-1, "-", names, ast))
		}
	}})
}

// ---------------------------------------------------------------- small-scope enumerator (C01)
// every program up to a size bound over a reduced alphabet: two variables, two integers, trace!,
// one binary builtin and each core special form — exhaustive, not sampled.

func enumPrograms(maxSize int, limit int, emit func(MalType)) int {
	memo := map[int][]MalType{}
	var bySize func(n int) []MalType
	bySize = func(n int) []MalType {
		if v, ok := memo[n]; ok {
			return v
		}
		var out []MalType
		if n == 1 {
			out = []MalType{sy("a"), sy("b"), 0, 1, nil}
			memo[n] = out
			return out
		}
		// unary: (trace! e) (quote e) (def a e) (fn [a] e) is size 1+|e|
		for _, e := range bySize(n - 1) {
			out = append(out, call1("trace!", e), call1("def", sy("a"), e))
			if n-1 <= 2 {
				out = append(out, call1("quote", e))
			}
		}
		// binary: (+ e1 e2) (do e1 e2) (let [a e1] e2) ((fn [a] e2) e1) (if e1 e2)
		for i := 1; i <= n-2; i++ {
			for _, x := range bySize(i) {
				for _, y := range bySize(n - 1 - i) {
					out = append(out, call1("+", x, y), ls(sy("do"), x, y), ls(sy("let"), vc(sy("a"), x), y),
						ls(ls(sy("fn"), vc(sy("a")), y), x), ls(sy("if"), x, y))
				}
			}
		}
		// ternary: (if c t e), ((fn [a b] body) x y)
		for i := 1; i <= n-3; i++ {
			for j := 1; j <= n-2-i; j++ {
				k := n - 1 - i - j
				if k < 1 {
					continue
				}
				for _, x := range bySize(i) {
					for _, y := range bySize(j) {
						for _, z := range bySize(k) {
							out = append(out, ls(sy("if"), x, y, z))
							if len(out) > 400000 {
								memo[n] = out
								return out
							}
						}
					}
				}
			}
		}
		memo[n] = out
		return out
	}
	count := 0
	for n := 1; n <= maxSize; n++ {
		for _, p := range bySize(n) {
			if count >= limit {
				return count
			}
			emit(p)
			count++
		}
	}
	return count
}

func init() {
	register("enum", &evalEngine{gen: func(r *rng, n int, tier string, emit func(string)) {
		size, limit := 5, n
		if tier == "thorough" {
			size = 6
		}
		enumPrograms(size, limit, func(p MalType) { emit(evalPayloadChild(p)) })
	}})
}

package main

import (
	"bytes"
	"go/ast"
	"go/parser"
	"go/printer"
	"go/token"
	"path/filepath"
)

type globalAssign struct {
	name   string
	guards []string
}

// malGlobalAssignments: every assignment to a package-level variable of mal.go inside a function, with
// the conditions of the enclosing `if` statements (an else branch contributes "!(cond)")
func malGlobalAssignments(repo string) ([]globalAssign, error) {
	fset := token.NewFileSet()
	f, err := parser.ParseFile(fset, filepath.Join(repo, "mal.go"), nil, 0)
	if err != nil {
		return nil, err
	}
	globals := map[string]bool{}
	for _, d := range f.Decls {
		if gd, ok := d.(*ast.GenDecl); ok && gd.Tok == token.VAR {
			for _, sp := range gd.Specs {
				for _, n := range sp.(*ast.ValueSpec).Names {
					globals[n.Name] = true
				}
			}
		}
	}
	src := func(n ast.Node) string {
		var b bytes.Buffer
		printer.Fprint(&b, fset, n)
		return b.String()
	}
	var out []globalAssign
	var walk func(n ast.Node, guards []string)
	record := func(e ast.Expr, guards []string) {
		if id, ok := e.(*ast.Ident); ok && globals[id.Name] {
			out = append(out, globalAssign{id.Name, append([]string(nil), guards...)})
		}
	}
	walk = func(n ast.Node, guards []string) {
		switch t := n.(type) {
		case nil:
			return
		case *ast.IfStmt:
			if t.Init != nil {
				walk(t.Init, guards)
			}
			c := src(t.Cond)
			walk(t.Body, append(append([]string(nil), guards...), c))
			if t.Else != nil {
				walk(t.Else, append(append([]string(nil), guards...), "!("+c+")"))
			}
			return
		case *ast.AssignStmt:
			if t.Tok != token.DEFINE {
				for _, l := range t.Lhs {
					record(l, guards)
				}
			}
		case *ast.IncDecStmt:
			record(t.X, guards)
		}
		// generic descent (one level), keeping the guards
		ast.Inspect(n, func(c ast.Node) bool {
			if c == n || c == nil {
				return true
			}
			walk(c, guards)
			return false
		})
	}
	for _, d := range f.Decls {
		if fd, ok := d.(*ast.FuncDecl); ok && fd.Body != nil {
			walk(fd.Body, nil)
		}
	}
	return out, nil
}

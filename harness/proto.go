package main

// Canonical line protocol shared with the Lean driver (see lean/LispModel/Proto.lean).

import (
	"encoding/hex"
	"fmt"
	"sort"
	"strconv"
	"strings"

	"github.com/jig/lisp/lib/concurrent"
	. "github.com/jig/lisp/types"
)

func hx(s string) string { return hex.EncodeToString([]byte(s)) }

// render writes the canonical form of a lisp value; depth guards against cyclic atoms.
func render(v MalType) string {
	var b strings.Builder
	renderTo(&b, v, 0)
	return b.String()
}

func renderTo(b *strings.Builder, v MalType, depth int) {
	if depth > 200 {
		b.WriteString("( OP deep )")
		return
	}
	switch t := v.(type) {
	case nil:
		b.WriteString("N")
	case bool:
		if t {
			b.WriteString("T")
		} else {
			b.WriteString("F")
		}
	case int:
		b.WriteString("I" + strconv.Itoa(t))
	case string:
		b.WriteString("S" + hx(canonString(t)))
	case Symbol:
		b.WriteString("Y" + hx(t.Val))
	case List:
		b.WriteString("( L")
		for _, x := range t.Val {
			b.WriteString(" ")
			renderTo(b, x, depth+1)
		}
		b.WriteString(" )")
	case Vector:
		b.WriteString("( V")
		for _, x := range t.Val {
			b.WriteString(" ")
			renderTo(b, x, depth+1)
		}
		b.WriteString(" )")
	case HashMap:
		keys := make([]string, 0, len(t.Val))
		for k := range t.Val {
			keys = append(keys, k)
		}
		sort.Strings(keys)
		b.WriteString("( M")
		for _, k := range keys {
			b.WriteString(" S" + hx(k) + " ")
			renderTo(b, t.Val[k], depth+1)
		}
		b.WriteString(" )")
	case Set:
		keys := make([]string, 0, len(t.Val))
		for k := range t.Val {
			keys = append(keys, k)
		}
		sort.Strings(keys)
		b.WriteString("( H")
		for _, k := range keys {
			b.WriteString(" S" + hx(k))
		}
		b.WriteString(" )")
	case MalFunc:
		if t.IsMacro {
			b.WriteString("( MC )")
		} else {
			b.WriteString("( FN )")
		}
	case Func:
		b.WriteString("( BI )")
	case *concurrent.Atom:
		b.WriteString("( AT ")
		t.Mutex.RLock()
		val := t.Val
		t.Mutex.RUnlock()
		renderTo(b, val, depth+1)
		b.WriteString(" )")
	case *concurrent.Future:
		b.WriteString("( FU )")
	case interface{ ErrorValue() MalType }:
		b.WriteString("( OP lisperror.LispError )")
	case error:
		b.WriteString("( GE )")
	default:
		b.WriteString("( OP " + strings.ReplaceAll(fmt.Sprintf("%T", v), " ", "_") + " )")
	}
}

// parse is the inverse of render on data values (no positions).
func parse(s string) (MalType, error) {
	toks := strings.Fields(s)
	v, rest, err := parseToks(toks)
	if err != nil {
		return nil, err
	}
	if len(rest) != 0 {
		return nil, fmt.Errorf("trailing tokens")
	}
	return v, nil
}

func parseToks(toks []string) (MalType, []string, error) {
	if len(toks) == 0 {
		return nil, nil, fmt.Errorf("eof")
	}
	t := toks[0]
	switch {
	case t == "N":
		return nil, toks[1:], nil
	case t == "T":
		return true, toks[1:], nil
	case t == "F":
		return false, toks[1:], nil
	case t == "(":
		if len(toks) < 2 {
			return nil, nil, fmt.Errorf("eof")
		}
		tag := toks[1]
		rest := toks[2:]
		items := []MalType{}
		for {
			if len(rest) == 0 {
				return nil, nil, fmt.Errorf("eof")
			}
			if rest[0] == ")" {
				rest = rest[1:]
				break
			}
			var v MalType
			var err error
			v, rest, err = parseToks(rest)
			if err != nil {
				return nil, nil, err
			}
			items = append(items, v)
		}
		switch tag {
		case "L":
			return List{Val: items}, rest, nil
		case "V":
			return Vector{Val: items}, rest, nil
		case "M":
			m := map[string]MalType{}
			if len(items)%2 != 0 {
				return nil, nil, fmt.Errorf("odd map")
			}
			for i := 0; i < len(items); i += 2 {
				k, ok := items[i].(string)
				if !ok {
					return nil, nil, fmt.Errorf("map key")
				}
				m[k] = items[i+1]
			}
			return HashMap{Val: m}, rest, nil
		case "H":
			m := map[string]struct{}{}
			for _, it := range items {
				k, ok := it.(string)
				if !ok {
					return nil, nil, fmt.Errorf("set key")
				}
				m[k] = struct{}{}
			}
			return Set{Val: m}, rest, nil
		}
		return nil, nil, fmt.Errorf("tag %s", tag)
	case t[0] == 'I':
		i, err := strconv.Atoi(t[1:])
		return i, toks[1:], err
	case t[0] == 'S':
		bs, err := hex.DecodeString(t[1:])
		return string(bs), toks[1:], err
	case t[0] == 'Y':
		bs, err := hex.DecodeString(t[1:])
		return Symbol{Val: string(bs)}, toks[1:], err
	}
	return nil, nil, fmt.Errorf("token %s", t)
}

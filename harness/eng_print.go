package main

// engines over data values: print (C06 first half: PRINT then READ), preamble (C15).

import (
	"context"
	"encoding/hex"
	"strconv"
	"strings"

	"github.com/jig/lisp"
	"github.com/jig/lisp/env"
	"github.com/jig/lisp/lib/call"
	"github.com/jig/lisp/lib/core"
	"github.com/jig/lisp/lib/core/nscore"
	"github.com/jig/lisp/reader"

	. "github.com/jig/lisp/types"
)

type printEngine struct{ env EnvType }

func init() { register("print", &printEngine{}) }

func (e *printEngine) generate(r *rng, n int, tier string, emit func(string)) {
	// every pool string bare and inside each collection kind
	for _, s := range strPool {
		emit(render(s))
		emit(render(List{Val: []MalType{s, s}}))
		emit(render(HashMap{Val: map[string]MalType{s: s}}))
		emit(render(Set{Val: map[string]struct{}{s: {}}}))
	}
	for _, s := range symPool {
		emit(render(Symbol{Val: s}))
	}
	for i := 0; i < n; i++ {
		emit(render(genData(r, 4)))
	}
}

func (e *printEngine) run(payload string) string { o, _ := e.runX(payload); return o }

// engine "printdeep" (C06): values nested far deeper than anything a person writes (200 … 3000 levels of lists, vectors
// and maps) print and read back like any other.  Harness-side oracle only: the line protocol does not carry such terms.
type printDeepEngine struct{}

func init() { register("printdeep", &printDeepEngine{}) }

func (e *printDeepEngine) leanName() string { return "nomodel" }

func (e *printDeepEngine) generate(r *rng, n int, tier string, emit func(string)) {
	for _, d := range []int{200, 999, 1000, 1001, 1500, 3000} {
		emit("depth=" + strconv.Itoa(d))
	}
	// strings far longer than any line or token buffer (64 KiB, 1 MiB, 4 MiB), of every printed shape: ordinary, needing
	// escapes, JSON-like (printed raw between ¬ … ¬), alone and inside collections
	sizes := []int{65535, 65537, 1<<20 - 1, 1<<20 + 1, 1<<20 + 100000, 3 << 20}
	if tier == "thorough" {
		sizes = append(sizes, 1<<22+1, 9<<20, 1<<24+1)
	}
	for _, n := range sizes {
		for _, k := range []string{"plain", "escapes", "json", "jsonnl"} {
			emit("bigstr " + k + " " + strconv.Itoa(n))
		}
	}
	// after a print that PANICKED (an embedder value whose LispPrint panics, recovered by the embedder or by lib/call), the
	// printer prints the next values as if nothing had happened
	for round := 0; round < 4; round++ {
		emit("afterpanic " + strconv.Itoa(round))
	}
}

type pxBadPrinter struct{ inner *pxPoint }

func (b pxBadPrinter) LispPrint(pr func(MalType, bool) string) string { return "«bad " + strconv.Itoa(b.inner.X) + "»" } // nil field: panics
func (b pxBadPrinter) Type() string                                    { return "bad" }

func (e *printDeepEngine) runAfterPanic(round int) string {
	bad := pxBadPrinter{}
	ns := env.NewEnv()
	if err := nscore.Load(ns); err != nil {
		return "setup-error"
	}
	ns.Set(Symbol{Val: "bad"}, bad)
	shapes := []MalType{
		List{Val: []MalType{"accounts:", 1, bad}}, Vector{Val: []MalType{"balance of", 1, 2, bad}}, HashMap{Val: map[string]MalType{"k": Vector{Val: []MalType{1, bad}}}},
		List{Val: []MalType{List{Val: []MalType{1, 2}}, Vector{Val: []MalType{List{Val: []MalType{3, bad}}}}}},
	}
	for i := 0; i <= round; i++ {
		for _, sh := range shapes {
			safeRunInline(func() string { lisp.PRINT(sh); return "" })
		}
		for _, src := range []string{`(try (pr-str "balance of" 1 2 bad) (catch e nil))`, `(try (str [1 2 bad]) (catch e nil))`, `(try (pr-str {:a [1 bad]}) (catch e nil))`} {
			if ast, err := lisp.READ(src, nil, ns); err == nil {
				safeRunInline(func() string { lisp.EVAL(context.Background(), ast, ns); return "" })
			}
		}
	}
	checks := []struct {
		v    MalType
		want string
	}{
		{Vector{Val: []MalType{3, 4}}, "[3 4]"}, {List{Val: []MalType{1, List{Val: []MalType{2}}}}, "(1 (2))"}, {List{}, "()"},
		{HashMap{Val: map[string]MalType{"k": Vector{Val: []MalType{"s"}}}}, `{"k" ["s"]}`}, {Vector{Val: []MalType{Vector{}, List{Val: []MalType{nil}}}}, "[[] (nil)]"},
	}
	for rep := 0; rep < 8; rep++ {
		for _, c := range checks {
			if got := lisp.PRINT(c.v); got != c.want {
				return "rt=FAIL\t!after a print that panicked (recovered), PRINT of " + c.want + " gives " + oneLine(got)[:min(len(oneLine(got)), 200)]
			}
		}
		for _, src := range []string{"(pr-str [3 4])", "(str (list 1 2))", "(pr-str 1 [2] (list 3))"} {
			ast, _ := lisp.READ(src, nil, ns)
			v, err := lisp.EVAL(context.Background(), ast, ns)
			want := map[string]string{"(pr-str [3 4])": "[3 4]", "(str (list 1 2))": "(1 2)", "(pr-str 1 [2] (list 3))": "1 [2] (3)"}[src]
			if got, _ := v.(string); err != nil || got != want {
				return "rt=FAIL\t!after a print that panicked (recovered), " + src + " gives " + oneLine(got)[:min(len(oneLine(got)), 200)]
			}
		}
	}
	return "rt=ok"
}

func (e *printDeepEngine) runBigStr(kind string, n int) string {
	var s string
	switch kind {
	case "plain":
		s = strings.Repeat("x", n)
	case "escapes":
		s = strings.Repeat("a\"b\\c\nd", n/7+1)[:n]
	case "json":
		s = "{\"k\": \"" + strings.Repeat("v", n) + "\"}"
	default:
		s = "{\"k\": [\n" + strings.Repeat("1,\n", n/3) + "1]}"
	}
	for i, v := range []MalType{s, Vector{Val: []MalType{1, s}}, HashMap{Val: map[string]MalType{"k": s}}} {
		text := lisp.PRINT(v)
		if o := roundTripText(v, text); o != "rt=ok" {
			return o + "\t!a " + kind + " string of " + strconv.Itoa(len(s)) + " bytes (shape " + strconv.Itoa(i) + ") does not read back from its printed form (" + o + ")"
		}
	}
	return "rt=ok"
}

func (e *printDeepEngine) run(payload string) string {
	if f := strings.Fields(payload); len(f) == 3 && f[0] == "bigstr" {
		n, err := strconv.Atoi(f[2])
		if err != nil || n < 1 || n > 1<<26 {
			return "bad-case"
		}
		return e.runBigStr(f[1], n)
	} else if len(f) == 2 && f[0] == "afterpanic" {
		round, _ := strconv.Atoi(f[1])
		return e.runAfterPanic(round)
	}
	d, err := strconv.Atoi(strings.TrimPrefix(payload, "depth="))
	if err != nil || d < 1 || d > 100000 {
		return "bad-case"
	}
	var v MalType = kw("leaf")
	for i := 0; i < d; i++ {
		switch i % 3 {
		case 0:
			v = List{Val: []MalType{v}}
		case 1:
			v = Vector{Val: []MalType{sy("a"), v}}
		default:
			v = HashMap{Val: map[string]MalType{"k": v}}
		}
	}
	text := lisp.PRINT(v)
	if o := roundTripText(v, text); o != "rt=ok" {
		return o + "\t!a value nested " + strconv.Itoa(d) + " levels deep does not read back from its printed form (" + o + ")"
	}
	// second clause: the text READ accepts prints and re-reads to an equal value
	v2, rerr := lisp.READ(text, nil, nil)
	if rerr != nil {
		return "rt=err"
	}
	if o := roundTripText(v2, lisp.PRINT(v2)); o != "rt=ok" {
		return o + "\t!a text nested " + strconv.Itoa(d) + " levels deep does not survive print-then-read (" + o + ")"
	}
	return "rt=ok"
}

func (e *printDeepEngine) classify(payload, obs string) string { return strings.SplitN(obs, "\t", 2)[0] }

func (e *printEngine) runX(payload string) (string, string) {
	v, err := parse(payload)
	if err != nil {
		return "bad-case", ""
	}
	text := lisp.PRINT(v)
	obs := "pm=T " + roundTripText(v, text)
	// "equivalently read-string of pr-str": the builtins, called by a program, must agree with PRINT / READ
	if e.env == nil {
		e.env = env.NewEnv()
		if err := nscore.Load(e.env); err != nil {
			return "setup-error", ""
		}
	}
	via := safeRunInline(func() string {
		prog := ls(sy("let"), vc(sy("s"), call1("pr-str", call1("quote", v))), call1("list", sy("s"), call1("read-string", sy("s"))))
		r, err := lisp.EVAL(context.Background(), prog, e.env)
		if err != nil {
			return "rt=err:" + errClass(err)
		}
		l, ok := r.(List)
		if !ok || len(l.Val) != 2 {
			return "rt=?"
		}
		if _, isStr := l.Val[0].(string); !isStr {
			return "pr-str-not-a-string"
		}
		if sameData(v, l.Val[1]) {
			return "rt=ok"
		}
		return "rt=FAIL"
	})
	// (texts may list the entries of a map / set in another order on each call: only the verdicts are compared, and an
	// error class may depend on that order too)
	if direct := strings.TrimPrefix(obs, "pm=T "); (via == "rt=ok") != (direct == "rt=ok") {
		obs += "\t!(read-string (pr-str v)) ⇒ " + via + " while READ(PRINT(v)) ⇒ " + direct
	}
	return obs, hex.EncodeToString([]byte(text))
}

func (e *printEngine) classify(payload, obs string) string { return obs }

// ---------------------------------------------------------------- preamble (C15)

type preambleEngine struct{ readEngine }

func init() { register("preamble", &preambleEngine{}) }

var preSources = []string{
	"(f $x)", "$x", "[$x $y]", "{:a $x :b [$y $x]}", "'($x \"$x\" $NUMBER)", "(do ; $x in a comment\n $x)", "(str \"$x is\" $x)",
	"¬$x¬", "(quote $a-b_1)", "(f $missing)", "(f $x) ; trailing $y", "`(~$x ~@$y)", "#{:a}", "(+ 1 2)", "($x)", "(let [a $x] (g a $NUMBER))", "(list $MODULE $x)", "(def cfg (quote $MODULE))", "[$0 $MODULE]",
	// sources that BEGIN with comments spelled like preamble lines: they are comments of the program, whatever the table holds
	";; $x 10\n;; $y \"default\"\n(list $x $y)", ";; $NUMBER 10\n(f $NUMBER)", ";; $x\n$x", ";; $missing (1 2)\n\n(f $missing $x)", "\n;; $x 1\n$x", ";; $x 1",
}

func (e *preambleEngine) generate(r *rng, n int, tier string, emit func(string)) {
	for i := 0; i < n; i++ {
		src := r.pick(preSources)
		if r.chance(1, 4) {
			src = genForm(r, 3) + " " // arbitrary (possibly malformed) source
		}
		emit(hex.EncodeToString([]byte(src)) + " | " + render(HashMap{Val: genPhs(r)}))
	}
}

func (e *preambleEngine) run(payload string) string { o, _ := e.runX(payload); return o }

func (e *preambleEngine) runX(payload string) (string, string) {
	parts := strings.Split(payload, " | ")
	if len(parts) != 2 {
		return "bad-case", ""
	}
	src, err := hex.DecodeString(parts[0])
	if err != nil {
		return "bad-case", ""
	}
	mv, err := parse(parts[1])
	if err != nil {
		return "bad-case", ""
	}
	m := mv.(HashMap)
	text, _ := lisp.AddPreamble(string(src), m.Val)
	extra := hex.EncodeToString([]byte(text))
	direct := func() string {
		return safeRunInline(func() string {
			v, err := reader.Read_str(string(src), nil, &m, e.theEnv())
			return renderReadResult(v, err)
		})
	}()
	via := safeRunInline(func() string {
		v, err := lisp.READWithPreamble(text, nil, e.theEnv())
		return renderReadResult(v, err)
	})
	obs := "text=T " + via + " || " + direct
	// AddPreamble is a FUNCTION of (source, assignment): an embedder that refills a row buffer / updates a parameter table in
	// place between two calls gets the second assignment transported, whatever the first call was
	if why := preambleReuse(e.theEnv()); why != "" {
		obs += "\t!" + why
	}
	if why := preambleTyped(e.theEnv()); why != "" {
		obs += "\t!" + why
	}
	return obs, extra
}

// an embedder type with a printed form of its own and its constructor
type pxPoint struct{ X, Y int }

func (p pxPoint) LispPrint(pr func(MalType, bool) string) string {
	return "«point " + strconv.Itoa(p.X) + " " + strconv.Itoa(p.Y) + "»"
}
func (p pxPoint) Type() string { return "point" }

var preambleTypedDone bool

// preambleTyped, once per run: (1) values that print as «type …» forms — error values, an embedder type — alone and nested
// in data, survive the transport when the reading environment has their constructors; (2) a placeholder without a value
// reads as nil also when the environment happens to bind a symbol of that name (bound by an earlier evaluation through
// the plain READ route, or by the host), quoted or not, and "$name" inside a string stays text.
func preambleTyped(ns EnvType) string {
	if preambleTypedDone {
		return ""
	}
	preambleTypedDone = true
	call.CallOverrideFN(ns, "new-point", func(x, y int) (pxPoint, error) { return pxPoint{x, y}, nil })
	mkErr := func(src string) MalType {
		ast, err := lisp.READ(src, nil, ns)
		if err != nil {
			return nil
		}
		v, _ := lisp.EVAL(context.Background(), ast, ns)
		return v
	}
	errV := mkErr(`(new-error "boom")`)
	errM := mkErr(`(new-error {:code 7})`)
	if errV == nil || errM == nil {
		return "" // this tree has no error constructor: nothing to transport
	}
	pt := pxPoint{1, 2}
	values := []MalType{errV, errM, pt, Vector{Val: []MalType{1, pt, "s"}}, HashMap{Val: map[string]MalType{"k": errV}},
		List{Val: []MalType{pt, Vector{Val: []MalType{errV}}}}}
	for i, v := range values {
		table := map[string]MalType{"$V": v, "$N": 7}
		text, err := lisp.AddPreamble("[$N $V $MISSING {:in [$V]}]", table)
		if err != nil {
			return "AddPreamble failed: " + oneLine(err.Error())
		}
		got, err := lisp.READWithPreamble(text, nil, ns)
		if err != nil {
			return "READWithPreamble of an AddPreamble text with a «type …» value failed: " + oneLine(err.Error())
		}
		want := Vector{Val: []MalType{7, v, nil, HashMap{Val: map[string]MalType{"ʞin": Vector{Val: []MalType{v}}}}}}
		if g, w := lisp.PRINT(got), lisp.PRINT(want); g != w {
			return "a placeholder value that prints as a «type …» form (value " + strconv.Itoa(i) + ") did not survive the preamble: read " + oneLine(g)[:min(len(oneLine(g)), 160)] + " , expected " + oneLine(w)[:min(len(oneLine(w)), 160)]
		}
	}
	// (2)
	for _, bind := range []string{"lisp", "host"} {
		e2 := env.NewEnv()
		core.Load(e2)
		if bind == "lisp" {
			if ast, err := lisp.READ("(def $limit 10)", nil, e2); err == nil {
				lisp.EVAL(context.Background(), ast, e2)
			}
		} else {
			e2.Set(Symbol{Val: "$limit"}, 10)
		}
		text, _ := lisp.AddPreamble("(list $limit $greeting \"$limit\" '$limit [$limit])", map[string]MalType{"$greeting": "hi"})
		got, err := lisp.READWithPreamble(text, nil, e2)
		if err != nil {
			return "READWithPreamble failed on an environment that binds a symbol named like a placeholder: " + oneLine(err.Error())
		}
		want, _ := lisp.READ("(list nil \"hi\" \"$limit\" (quote nil) [nil])", nil, e2)
		if g, w := lisp.PRINT(got), lisp.PRINT(want); g != w {
			return "a placeholder without a value must read as nil whatever the environment binds (" + bind + " bound $limit): read " + g + " , expected " + w
		}
	}
	return ""
}

var preambleReuseDone = map[int]bool{}

// preambleReuse: once per size, the same collection OBJECT under the same placeholder name with its content changed in place
func preambleReuse(ns EnvType) string {
	for _, size := range []int{3, 16, 40, 300} {
		if preambleReuseDone[size] {
			continue
		}
		preambleReuseDone[size] = true
		buf := make([]MalType, size)
		table := map[string]MalType{}
		for round := 0; round < 3; round++ {
			for i := range buf {
				buf[i] = round*1000 + i
			}
			table["ʞattempt"] = round
			for i := 0; i < size; i++ {
				table["k"+strconv.Itoa(i)] = i
			}
			for vi, v := range []MalType{Vector{Val: buf}, List{Val: buf}, HashMap{Val: table}} {
				name := []string{"$ROW", "$LST", "$TBL"}[vi] // one placeholder name per object, the same on every round
				text, err := lisp.AddPreamble("["+name+"]", map[string]MalType{name: v})
				if err != nil {
					return "AddPreamble failed: " + oneLine(err.Error())
				}
				got, err := lisp.READWithPreamble(text, nil, ns)
				if err != nil {
					return "READWithPreamble of an AddPreamble text failed: " + oneLine(err.Error())
				}
				gv, ok := got.(Vector)
				if !ok || len(gv.Val) != 1 || !sameData(gv.Val[0], v) {
					return "the same collection object (" + strconv.Itoa(size) + " elements) passed again under the same placeholder name after its content changed in place was transported with its OLD content (round " + strconv.Itoa(round) + ")"
				}
			}
		}
	}
	return ""
}

func (e *preambleEngine) classify(payload, obs string) string {
	f := strings.Fields(obs + " ? ? ?")
	return f[1]
}

package main

// engines over data values: print (C06 first half: PRINT then READ), preamble (C15).

import (
	"context"
	"encoding/hex"
	"strconv"
	"strings"

	"github.com/jig/lisp"
	"github.com/jig/lisp/env"
	"github.com/jig/lisp/lib/core/nscore"
	"github.com/jig/lisp/reader"

	. "github.com/jig/lisp/types"
)

type printEngine struct{ env EnvType }

func init() { register("print", &printEngine{}) }

func (e *printEngine) generate(r *rng, n int, tier string, emit func(string)) {
	// every pool string bare and inside each collection kind
	for _, s := range strPool {
		emit(render(s))
		emit(render(List{Val: []MalType{s, s}}))
		emit(render(HashMap{Val: map[string]MalType{s: s}}))
		emit(render(Set{Val: map[string]struct{}{s: {}}}))
	}
	for _, s := range symPool {
		emit(render(Symbol{Val: s}))
	}
	for i := 0; i < n; i++ {
		emit(render(genData(r, 4)))
	}
}

func (e *printEngine) run(payload string) string { o, _ := e.runX(payload); return o }

// engine "printdeep" (C06): values nested far deeper than anything a person writes (200 … 3000 levels of lists, vectors
// and maps) print and read back like any other.  Harness-side oracle only: the line protocol does not carry such terms.
type printDeepEngine struct{}

func init() { register("printdeep", &printDeepEngine{}) }

func (e *printDeepEngine) leanName() string { return "nomodel" }

func (e *printDeepEngine) generate(r *rng, n int, tier string, emit func(string)) {
	for _, d := range []int{200, 999, 1000, 1001, 1500, 3000} {
		emit("depth=" + strconv.Itoa(d))
	}
}

func (e *printDeepEngine) run(payload string) string {
	d, err := strconv.Atoi(strings.TrimPrefix(payload, "depth="))
	if err != nil || d < 1 || d > 100000 {
		return "bad-case"
	}
	var v MalType = kw("leaf")
	for i := 0; i < d; i++ {
		switch i % 3 {
		case 0:
			v = List{Val: []MalType{v}}
		case 1:
			v = Vector{Val: []MalType{sy("a"), v}}
		default:
			v = HashMap{Val: map[string]MalType{"k": v}}
		}
	}
	text := lisp.PRINT(v)
	if o := roundTripText(v, text); o != "rt=ok" {
		return o + "\t!a value nested " + strconv.Itoa(d) + " levels deep does not read back from its printed form (" + o + ")"
	}
	// second clause: the text READ accepts prints and re-reads to an equal value
	v2, rerr := lisp.READ(text, nil, nil)
	if rerr != nil {
		return "rt=err"
	}
	if o := roundTripText(v2, lisp.PRINT(v2)); o != "rt=ok" {
		return o + "\t!a text nested " + strconv.Itoa(d) + " levels deep does not survive print-then-read (" + o + ")"
	}
	return "rt=ok"
}

func (e *printDeepEngine) classify(payload, obs string) string { return strings.SplitN(obs, "\t", 2)[0] }

func (e *printEngine) runX(payload string) (string, string) {
	v, err := parse(payload)
	if err != nil {
		return "bad-case", ""
	}
	text := lisp.PRINT(v)
	obs := "pm=T " + roundTripText(v, text)
	// "equivalently read-string of pr-str": the builtins, called by a program, must agree with PRINT / READ
	if e.env == nil {
		e.env = env.NewEnv()
		if err := nscore.Load(e.env); err != nil {
			return "setup-error", ""
		}
	}
	via := safeRunInline(func() string {
		prog := ls(sy("let"), vc(sy("s"), call1("pr-str", call1("quote", v))), call1("list", sy("s"), call1("read-string", sy("s"))))
		r, err := lisp.EVAL(context.Background(), prog, e.env)
		if err != nil {
			return "rt=err:" + errClass(err)
		}
		l, ok := r.(List)
		if !ok || len(l.Val) != 2 {
			return "rt=?"
		}
		if _, isStr := l.Val[0].(string); !isStr {
			return "pr-str-not-a-string"
		}
		if sameData(v, l.Val[1]) {
			return "rt=ok"
		}
		return "rt=FAIL"
	})
	// (texts may list the entries of a map / set in another order on each call: only the verdicts are compared, and an
	// error class may depend on that order too)
	if direct := strings.TrimPrefix(obs, "pm=T "); (via == "rt=ok") != (direct == "rt=ok") {
		obs += "\t!(read-string (pr-str v)) ⇒ " + via + " while READ(PRINT(v)) ⇒ " + direct
	}
	return obs, hex.EncodeToString([]byte(text))
}

func (e *printEngine) classify(payload, obs string) string { return obs }

// ---------------------------------------------------------------- preamble (C15)

type preambleEngine struct{ readEngine }

func init() { register("preamble", &preambleEngine{}) }

var preSources = []string{
	"(f $x)", "$x", "[$x $y]", "{:a $x :b [$y $x]}", "'($x \"$x\" $NUMBER)", "(do ; $x in a comment\n $x)", "(str \"$x is\" $x)",
	"¬$x¬", "(quote $a-b_1)", "(f $missing)", "(f $x) ; trailing $y", "`(~$x ~@$y)", "#{:a}", "(+ 1 2)", "($x)", "(let [a $x] (g a $NUMBER))", "(list $MODULE $x)", "(def cfg (quote $MODULE))", "[$0 $MODULE]",
	// sources that BEGIN with comments spelled like preamble lines: they are comments of the program, whatever the table holds
	";; $x 10\n;; $y \"default\"\n(list $x $y)", ";; $NUMBER 10\n(f $NUMBER)", ";; $x\n$x", ";; $missing (1 2)\n\n(f $missing $x)", "\n;; $x 1\n$x", ";; $x 1",
}

func (e *preambleEngine) generate(r *rng, n int, tier string, emit func(string)) {
	for i := 0; i < n; i++ {
		src := r.pick(preSources)
		if r.chance(1, 4) {
			src = genForm(r, 3) + " " // arbitrary (possibly malformed) source
		}
		emit(hex.EncodeToString([]byte(src)) + " | " + render(HashMap{Val: genPhs(r)}))
	}
}

func (e *preambleEngine) run(payload string) string { o, _ := e.runX(payload); return o }

func (e *preambleEngine) runX(payload string) (string, string) {
	parts := strings.Split(payload, " | ")
	if len(parts) != 2 {
		return "bad-case", ""
	}
	src, err := hex.DecodeString(parts[0])
	if err != nil {
		return "bad-case", ""
	}
	mv, err := parse(parts[1])
	if err != nil {
		return "bad-case", ""
	}
	m := mv.(HashMap)
	text, _ := lisp.AddPreamble(string(src), m.Val)
	extra := hex.EncodeToString([]byte(text))
	direct := func() string {
		return safeRunInline(func() string {
			v, err := reader.Read_str(string(src), nil, &m, e.theEnv())
			return renderReadResult(v, err)
		})
	}()
	via := safeRunInline(func() string {
		v, err := lisp.READWithPreamble(text, nil, e.theEnv())
		return renderReadResult(v, err)
	})
	obs := "text=T " + via + " || " + direct
	// AddPreamble is a FUNCTION of (source, assignment): an embedder that refills a row buffer / updates a parameter table in
	// place between two calls gets the second assignment transported, whatever the first call was
	if why := preambleReuse(e.theEnv()); why != "" {
		obs += "\t!" + why
	}
	return obs, extra
}

var preambleReuseDone = map[int]bool{}

// preambleReuse: once per size, the same collection OBJECT under the same placeholder name with its content changed in place
func preambleReuse(ns EnvType) string {
	for _, size := range []int{3, 16, 40, 300} {
		if preambleReuseDone[size] {
			continue
		}
		preambleReuseDone[size] = true
		buf := make([]MalType, size)
		table := map[string]MalType{}
		for round := 0; round < 3; round++ {
			for i := range buf {
				buf[i] = round*1000 + i
			}
			table["ʞattempt"] = round
			for i := 0; i < size; i++ {
				table["k"+strconv.Itoa(i)] = i
			}
			for vi, v := range []MalType{Vector{Val: buf}, List{Val: buf}, HashMap{Val: table}} {
				name := []string{"$ROW", "$LST", "$TBL"}[vi] // one placeholder name per object, the same on every round
				text, err := lisp.AddPreamble("["+name+"]", map[string]MalType{name: v})
				if err != nil {
					return "AddPreamble failed: " + oneLine(err.Error())
				}
				got, err := lisp.READWithPreamble(text, nil, ns)
				if err != nil {
					return "READWithPreamble of an AddPreamble text failed: " + oneLine(err.Error())
				}
				gv, ok := got.(Vector)
				if !ok || len(gv.Val) != 1 || !sameData(gv.Val[0], v) {
					return "the same collection object (" + strconv.Itoa(size) + " elements) passed again under the same placeholder name after its content changed in place was transported with its OLD content (round " + strconv.Itoa(round) + ")"
				}
			}
		}
	}
	return ""
}

func (e *preambleEngine) classify(payload, obs string) string {
	f := strings.Fields(obs + " ? ? ?")
	return f[1]
}

package main

// engine "tailconc" (C08): "tail-recursive loops of any length complete" — whatever ELSE the process is doing.  A tail
// loop (direct, through cond, mutual) of 100 000 iterations runs while k futures of the same environment are parked
// deep inside non-tail recursions: the loop's own host stack does not grow, so nothing that counts or limits
// evaluation depth per process, per environment or per context may stop it.  Harness-side oracle only (futures are
// not part of the evaluator model): the Lean driver answers "-".

import (
	"context"
	"fmt"
	"strconv"
	"strings"
	"time"

	"github.com/jig/lisp"
	"github.com/jig/lisp/lib/call"
	. "github.com/jig/lisp/types"
)

type tailConcEngine struct{}

func init() { register("tailconc", &tailConcEngine{}) }

func (e *tailConcEngine) leanName() string { return "nomodel" }

const tailConcDefs = `(do
 (def deep-park (fn [n] (if (< n 1) (do (park!) 0) (+ 1 (deep-park (- n 1))))))
 (def count-down (fn [n] (if (< n 1) :done (count-down (- n 1)))))
 (def cd-cond (fn [n] (cond (< n 1) :done :else (cd-cond (- n 1)))))
 (def ping (fn [n] (if (< n 1) :done (pong (- n 1)))))
 (def pong (fn [n] (if (< n 1) :done (ping (- n 1)))))
 (def cd-let (fn [n] (let [m (- n 1)] (if (< m 0) :done (cd-let m)))))
 nil)`

var tailConcLoops = []string{"(count-down %d)", "(cd-cond %d)", "(ping %d)", "(cd-let %d)"}

func (e *tailConcEngine) generate(r *rng, n int, tier string, emit func(string)) {
	for l := range tailConcLoops {
		for _, k := range []int{1, 4} {
			ds := []int{8000}
			if tier == "thorough" {
				ds = []int{3000, 8000, 12000}
			}
			for _, d := range ds {
				emit(fmt.Sprintf("loop=%d futures=%d depth=%d n=60000", l, k, d))
			}
			// … and with the loop ALREADY running (ten times longer) when the futures start their way down
			emit(fmt.Sprintf("loop=%d futures=%d depth=8000 n=150000 during", l, k))
		}
	}
}

func (e *tailConcEngine) run(payload string) string {
	var l, k, d, n int
	if _, err := fmt.Sscanf(payload, "loop=%d futures=%d depth=%d n=%d", &l, &k, &d, &n); err != nil || l < 0 || l >= len(tailConcLoops) {
		return "bad-case"
	}
	ec := &evalCase{}
	env, err := freshEnv(ec)
	if err != nil {
		return "setup-error"
	}
	ctx, cancel := context.WithCancel(context.Background())
	defer cancel()
	// park!: the futures stay at the bottom of their recursion until the case is over (no timing involved)
	entered := make(chan struct{}, 64)
	release := make(chan struct{})
	defer close(release)
	call.CallOverrideFN(env, "park!", func() (MalType, error) {
		entered <- struct{}{}
		select {
		case <-release:
		case <-time.After(2 * time.Minute):
		}
		return nil, nil
	})
	defs, err := lisp.READ(tailConcDefs, nil, env)
	if err != nil {
		return "setup-error"
	}
	if _, err := lisp.EVAL(ctx, defs, env); err != nil {
		return "setup-error " + oneLine(err.Error())
	}
	ast, err := lisp.READ(fmt.Sprintf(tailConcLoops[l], n), nil, env)
	if err != nil {
		return "setup-error"
	}
	during := strings.HasSuffix(payload, " during")
	loopDone := make(chan string, 1)
	runLoop := func() {
		got := "BLOCKED"
		within(concWatchdog*6, func() {
			v, err := lisp.EVAL(ctx, ast, env)
			if err != nil {
				got = "err " + oneLine(err.Error())
			} else {
				got = "ok " + render(v)
			}
		})
		loopDone <- got
	}
	if during {
		go runLoop()
		time.Sleep(20 * time.Millisecond)
	}
	for i := 0; i < k; i++ {
		f, err := lisp.READ(fmt.Sprintf("(def bg%d (future (deep-park %d)))", i, d), nil, env)
		if err != nil {
			return "setup-error"
		}
		if _, err := lisp.EVAL(ctx, f, env); err != nil {
			return "setup-error " + oneLine(err.Error())
		}
	}
	for i := 0; i < k; i++ { // every future has reached the bottom of its recursion and is parked there
		select {
		case <-entered:
		case <-time.After(4 * time.Second): // (a future that failed on its way down never parks: go on with what is there)
			i = k
		}
	}
	if !during {
		go runLoop()
	}
	got := <-loopDone
	if got != "ok "+render("ʞdone") {
		return strings.Fields(got)[0] + fmt.Sprintf("\t!a tail-recursive loop of %d iterations did not complete while %d future(s) were parked %d frames deep: %s", n, k, d, got[:min(len(got), 160)])
	}
	return "ok"
}

func (e *tailConcEngine) classify(payload, obs string) string {
	return strings.Fields(payload + " ?")[0] + "/" + strings.SplitN(obs, "\t", 2)[0]
}

// engine "taillong" (C08): "tail-recursive loops of any length complete" — loops written with cond / and / or running for
// more than a million macro expansions inside ONE evaluation (no per-evaluation budget of expansions, steps or
// iterations can be right).  Harness-side oracle: the value.
type tailLongEngine struct{}

func init() { register("taillong", &tailLongEngine{}) }

func (e *tailLongEngine) leanName() string { return "nomodel" }

var tailLongPrograms = []string{
	"(do (def lp (fn [n acc] (cond (< n 1) acc true (lp (- n 1) (+ acc 1))))) (lp %d 0))",
	"(do (def lp (fn [n acc] (or (and (< n 1) acc) (lp (- n 1) (+ acc 1))))) (lp %d 0))",
	"(do (def lp (fn [n acc] (if (< n 1) acc (-> n (- 1) (lp (+ acc 1)))))) (lp %d 0))",
}

func (e *tailLongEngine) generate(r *rng, n int, tier string, emit func(string)) {
	emit("prog=0 n=560000")
	if tier == "thorough" {
		emit("prog=1 n=600000")
		emit("prog=2 n=1200000")
		emit("prog=0 n=2300000")
	}
}

func (e *tailLongEngine) caseTimeout() time.Duration { return 10 * time.Minute }

func (e *tailLongEngine) run(payload string) string {
	var p, n int
	if _, err := fmt.Sscanf(payload, "prog=%d n=%d", &p, &n); err != nil || p < 0 || p >= len(tailLongPrograms) || n < 1 || n > 50000000 {
		return "bad-case"
	}
	ec := &evalCase{}
	env, err := freshEnv(ec)
	if err != nil {
		return "setup-error"
	}
	ast, err := lisp.READ(fmt.Sprintf(tailLongPrograms[p], n), nil, env)
	if err != nil {
		return "setup-error"
	}
	v, err := lisp.EVAL(context.Background(), ast, env)
	if err != nil {
		return "err\t!a tail-recursive loop of " + strconv.Itoa(n) + " iterations did not complete: " + oneLine(err.Error())[:min(len(oneLine(err.Error())), 200)]
	}
	if got, ok := v.(int); !ok || got != n {
		return "wrong\t!a tail-recursive loop of " + strconv.Itoa(n) + " iterations returned " + render(v)
	}
	return "ok"
}

func (e *tailLongEngine) classify(payload, obs string) string { return strings.SplitN(obs, "\t", 2)[0] }

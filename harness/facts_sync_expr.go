package main

import (
	"bytes"
	"go/ast"
	"go/printer"
)

func (w *syncWalker) src(n ast.Node) string {
	var b bytes.Buffer
	printer.Fprint(&b, w.sf.fset, n)
	return b.String()
}

// expr: field reads, call-outs and inlined methods of an expression, in evaluation order
func (w *syncWalker) expr(e ast.Expr) {
	switch t := e.(type) {
	case nil:
	case *ast.SelectorExpr:
		if loc, ok := fieldLoc[t.Sel.Name]; ok {
			w.access(loc, false)
			return
		}
		w.expr(t.X)
	case *ast.CallExpr:
		for _, a := range t.Args {
			w.expr(a)
		}
		switch f := t.Fun.(type) {
		case *ast.Ident:
			if f.Name == "Apply" {
				if w.fn == "body" {
					w.emit(".callBody")
				} else {
					w.emit(".callback")
				}
				w.callouts = append(w.callouts, append([]string(nil), w.held...))
			}
		case *ast.SelectorExpr:
			if f.Sel.Name == "CancelFunc" {
				w.emit(".cancelCtx")
				return
			}
			// a method of Atom / Future declared in this file: inline its body (without its return)
			for _, recv := range []string{"Atom.", "Future."} {
				if fd := w.sf.funcs[recv+f.Sel.Name]; fd != nil && w.depth < 3 {
					w.depth++
					n := len(w.ops)
					w.stmts(fd.Body.List)
					if len(w.ops) > n && w.ops[len(w.ops)-1] == ".ret" {
						w.ops = w.ops[:len(w.ops)-1]
					}
					w.depth--
					return
				}
			}
		}
	case *ast.BinaryExpr:
		w.expr(t.X)
		w.expr(t.Y)
	case *ast.UnaryExpr:
		if t.Op.String() == "&" {
			if cl, ok := t.X.(*ast.CompositeLit); ok && w.src(cl.Type) == "Future" {
				w.futureLit(cl)
				return
			}
		}
		w.expr(t.X)
	case *ast.ParenExpr:
		w.expr(t.X)
	case *ast.StarExpr:
		w.expr(t.X)
	case *ast.IndexExpr:
		w.expr(t.X)
		w.expr(t.Index)
	case *ast.SliceExpr:
		w.expr(t.X)
	case *ast.TypeAssertExpr:
		w.expr(t.X)
	case *ast.CompositeLit:
		for _, el := range t.Elts {
			w.expr(el)
		}
	case *ast.KeyValueExpr:
		w.expr(t.Value)
	}
}

// futureLit: &Future{ValChan: make(chan …, 1), ErrChan: make(chan …, 1), …}
func (w *syncWalker) futureLit(cl *ast.CompositeLit) {
	caps := map[string]string{}
	for _, el := range cl.Elts {
		kv, ok := el.(*ast.KeyValueExpr)
		if !ok {
			continue
		}
		if c, ok := kv.Value.(*ast.CallExpr); ok && w.src(c.Fun) == "make" && len(c.Args) == 2 {
			caps[w.src(kv.Key)] = w.src(c.Args[1])
		}
	}
	if caps["ValChan"] == "1" && caps["ErrChan"] == "1" {
		w.emit(".mkChans")
		return
	}
	w.unknown("Future literal without two capacity-1 channels", cl)
}

// selectStmt: select { <-ctx.Done(): return …; err := <-ErrChan: ErrChan <- err; return …; res := <-ValChan: ValChan <- res; return … }
func (w *syncWalker) selectStmt(t *ast.SelectStmt) {
	want := map[string]bool{"ctx": false, "ErrChan": false, "ValChan": false}
	for _, c := range t.Body.List {
		cc, ok := c.(*ast.CommClause)
		if !ok || cc.Comm == nil {
			w.unknown("select arm", t)
			return
		}
		comm := w.src(cc.Comm)
		switch {
		case comm == "<-ctx.Done()" && len(cc.Body) == 1 && endsInReturn(&ast.BlockStmt{List: cc.Body}):
			want["ctx"] = true
		default:
			ok := false
			for _, ch := range []string{"ErrChan", "ValChan"} {
				if as, isAs := cc.Comm.(*ast.AssignStmt); isAs && len(as.Rhs) == 1 && len(cc.Body) == 2 {
					snd, isSend := cc.Body[0].(*ast.SendStmt)
					if isSend && w.src(as.Rhs[0]) == "<-f."+ch && w.src(snd.Chan) == "f."+ch &&
						w.src(snd.Value) == w.src(as.Lhs[0]) && endsInReturn(&ast.BlockStmt{List: cc.Body}) {
						want[ch] = true
						ok = true
					}
				}
			}
			if !ok {
				w.unknown("select arm", cc)
				return
			}
		}
	}
	if len(t.Body.List) == 3 && want["ctx"] && want["ErrChan"] && want["ValChan"] {
		w.emit(".selectRecv")
		w.emit(".resend")
		w.emit(".ret")
		return
	}
	w.unknown("select", t)
}

package main

// witnesses added after round 4 of the seeded changes

import (
	"context"
	"fmt"
	"strings"
	"sync"
	"time"

	. "github.com/jig/lisp/types"
)

func init() {
	// C09: "reset! installs and returns its argument" — also while other threads write the same atom
	addWitness("reset-returns-its-argument", "a", func(iters int) string {
		w, err := newConcWorld()
		if err != nil {
			return "setup-error"
		}
		bg := context.Background()
		if _, err := w.eval(bg, `(do (def ra (atom 0))
		    (def rl (fn [n base bad] (if (< n 1) bad (rl (- n 1) base (if (= (reset! ra (+ base n)) (+ base n)) bad (+ bad 1)))))))`); err != nil {
			return "setup-error"
		}
		const k = 8
		per := iters / k
		if per < 200 {
			per = 200
		}
		res := make([]string, k)
		ok := withinProgress(concWatchdog*4, func(tick func()) {
			var wg sync.WaitGroup
			for i := 0; i < k; i++ {
				wg.Add(1)
				go func(i int) {
					defer wg.Done()
					res[i] = w.evalObs(bg, fmt.Sprintf("(rl %d %d 0)", per, (i+1)*10000000))
					tick()
				}(i)
			}
			wg.Wait()
		})
		if !ok {
			return "BLOCKED\t!concurrent reset! calls never return"
		}
		for i, r := range res {
			if r != "ok I0" {
				return fmt.Sprintf("thread %d: %s\t!reset! returned something else than its argument while other threads wrote the atom (count of such calls, or error)", i, r)
			}
		}
		return "ok"
	})
	// C09 (library code on atoms): an entry stored in the memoize cache by a finished call is never lost,
	// whatever other threads store meanwhile — the wrapped function runs once per distinct argument
	addWitness("memoize-keeps-entries", "a", func(iters int) string {
		w, err := newConcWorld()
		if err != nil {
			return "setup-error"
		}
		bg := context.Background()
		if _, err := w.eval(bg, `(do (def runs (atom 0))
		    (def mf (memoize (fn [x] (do (swap! runs inc) (* x x)))))
		    (def ml (fn [lo n] (if (< n 1) :done (do (mf (+ lo n)) (mf (+ lo n)) (ml lo (- n 1)))))))`); err != nil {
			return "setup-error"
		}
		const k, per = 8, 60
		res := make([]string, k)
		ok := withinProgress(concWatchdog*4, func(tick func()) {
			var wg sync.WaitGroup
			for i := 0; i < k; i++ {
				wg.Add(1)
				go func(i int) {
					defer wg.Done()
					res[i] = w.evalObs(bg, fmt.Sprintf("(ml %d %d)", i*1000, per))
					tick()
				}(i)
			}
			wg.Wait()
		})
		if !ok {
			return "BLOCKED\t!concurrent calls of a memoized function never return"
		}
		for i, r := range res {
			if !strings.HasPrefix(r, "ok ") {
				return fmt.Sprintf("thread %d: %s\t!memoized function failed under concurrency", i, r)
			}
		}
		if o := evalW(w, "(deref runs)"); o != fmt.Sprintf("ok I%d", k*per) {
			return fmt.Sprintf("%s\t!memoize lost cache entries: the function ran %s times for %d distinct arguments, each called twice by one thread", o, strings.TrimPrefix(o, "ok I"), k*per)
		}
		return "ok"
	})
	// C10: a reader whose context has ended must not consume the outcome: every later deref still gets it
	addWitness("ended-reader-leaves-the-outcome", "f", func(iters int) string {
		for _, fl := range []struct{ src, want string }{
			{"(def f (future 7))", "ok I7"},
			{`(def f (future (throw "boom")))`, "err"},
		} {
			w, err := newConcWorld()
			if err != nil {
				return "setup-error"
			}
			bg := context.Background()
			if _, err := w.eval(bg, fl.src); err != nil {
				return "setup-error"
			}
			// let the body finish
			if o := evalW(w, "(try (deref f) (catch e :failed))"); !strings.HasPrefix(o, "ok") {
				return "setup-error " + o
			}
			dead, cancel := context.WithCancel(bg)
			cancel()
			// through the Go API (an EVAL under an ended context stops at its first poll and never reaches deref)
			fv, gerr := w.env.Get(Symbol{Val: "f"})
			d, isD := fv.(interface {
				Deref(context.Context) (MalType, error)
			})
			if gerr != nil || !isD {
				return "setup-error future has no Deref"
			}
			for i := 0; i < 24; i++ {
				d.Deref(dead) // value or timeout error: both are fine
			}
			live, cancel2 := context.WithTimeout(bg, 3*time.Second)
			o := w.evalObs(live, "(deref f)")
			cancel2()
			if fl.want == "err" {
				if !strings.HasPrefix(o, "err") || strings.Contains(o, "timeout") {
					return o + "\t!after derefs with an ended context, a deref with a live context no longer gets the future's error"
				}
			} else if o != fl.want {
				return o + "\t!after derefs with an ended context, a deref with a live context no longer gets the future's value (outcome consumed)"
			}
		}
		return "ok"
	})
}

package main

// engine "conc" (C09 atoms, C10 futures): the real builtins of lib/concurrent driven from several
// goroutines.  Three kinds of cases (payload = first word):
//   wit <name> <iters>          deterministic / repeated witnesses of the baseline counterexamples,
//                               under a watchdog; observation "ok" or "<what>\t!<violation>"
//   hist <a|f> k=<k> | t0 ops | t1 ops …   stress history: the ops run on k goroutines, the recorded
//                               invocation/response history travels in the extra column to the
//                               Lean driver, whose linCheck verdict is the spec column
//   race <what> <seed> <n>      the same stress in a child process built with -race
// Engines conc_atom / conc_future are the C09 / C10 halves of the same generator.

import (
	"context"
	"fmt"
	"strconv"
	"strings"
	"sync"
	"sync/atomic"
	"time"

	"github.com/jig/lisp"
	. "github.com/jig/lisp/types"
)

type concWorld struct{ env EnvType }

func newConcWorld() (*concWorld, error) {
	e, err := freshEnv(&evalCase{})
	if err != nil {
		return nil, err
	}
	return &concWorld{env: e}, nil
}

func (w *concWorld) eval(ctx context.Context, src string) (MalType, error) {
	ast, err := lisp.READ(src, nil, w.env)
	if err != nil {
		return nil, err
	}
	return lisp.EVAL(ctx, ast, w.env)
}

// evalObs: "ok <value>" / "err …" of one program
func (w *concWorld) evalObs(ctx context.Context, src string) string {
	v, err := w.eval(ctx, src)
	if err != nil {
		return renderErr(err)
	}
	return "ok " + render(v)
}

// within runs f on its own goroutine; false = it did not return within d (the goroutine is abandoned)
func within(d time.Duration, f func()) bool {
	done := make(chan struct{})
	go func() { defer close(done); f() }()
	select {
	case <-done:
		return true
	case <-time.After(d):
		return false
	}
}

// withinProgress runs f on its own goroutine; f calls tick() whenever it makes progress (one iteration of a
// repeated witness).  false = no progress for `stall` (the goroutine is abandoned).  The verdict does not depend on
// how long the whole loop takes, only on whether it still moves: a loaded machine makes it slow, not blocked.
func withinProgress(stall time.Duration, f func(tick func())) bool {
	var n int64
	done := make(chan struct{})
	go func() { defer close(done); f(func() { atomic.AddInt64(&n, 1) }) }()
	last := int64(-1)
	for {
		select {
		case <-done:
			return true
		case <-time.After(stall):
			cur := atomic.LoadInt64(&n)
			if cur == last {
				return false
			}
			last = cur
		}
	}
}

const concWatchdog = 5 * time.Second

// ---------------------------------------------------------------- witnesses

type witness struct {
	prop string // "a" (C09) or "f" (C10)
	run  func(iters int) string
}

var witnesses = map[string]witness{}
var witnessOrder []string

func addWitness(name, prop string, run func(iters int) string) {
	witnesses[name] = witness{prop, run}
	witnessOrder = append(witnessOrder, name)
}

func init() {
	// D13: the update function derefs the atom being swapped
	addWitness("swap-self-deref", "a", func(int) string {
		w, err := newConcWorld()
		if err != nil {
			return "setup-error"
		}
		obs := ""
		if !within(concWatchdog, func() {
			obs = w.evalObs(context.Background(), "(let [a (atom 1)] (swap! a (fn [x] (+ x @a))))")
		}) {
			return "BLOCKED\t!swap! whose update function derefs the atom being swapped never returns"
		}
		if obs != "ok I2" {
			return obs + "\t!swap! with a self-dereferencing update function: expected 2"
		}
		return "ok"
	})
	// C09: a failing update function leaves the atom unchanged and usable
	addWitness("swap-fail-usable", "a", func(int) string {
		w, err := newConcWorld()
		if err != nil {
			return "setup-error"
		}
		obs := ""
		if !within(concWatchdog, func() {
			obs = w.evalObs(context.Background(),
				`(let [a (atom 1)] (do (try (swap! a (fn [x] (throw "boom"))) (catch e nil)) [(deref a) (swap! a (fn [x] (+ x 1))) (reset! a 9) @a]))`)
		}) {
			return "BLOCKED\t!atom unusable after a failing update function"
		}
		if obs != "ok ( V I1 I2 I9 I9 )" {
			return obs + "\t!failing update function: atom changed or unusable"
		}
		return "ok"
	})
}

// ---------------------------------------------------------------- engine

type concEngine struct{ half string } // "" both, "a" atoms, "f" futures

func init() {
	register("conc", &concEngine{""})
	register("conc_atom", &concEngine{"a"})
	register("conc_future", &concEngine{"f"})
}

func (e *concEngine) leanName() string { return "conc" }

// repeated witnesses run up to 200000 iterations (thorough tier) and carry their own progress-based watchdogs
func (e *concEngine) caseTimeout() time.Duration { return 10 * time.Minute }

// histories are a handful of operations under their own 5 s watchdog, the -race child has its own limit
func (e *concEngine) caseTimeoutFor(payload string) time.Duration {
	switch {
	case strings.HasPrefix(payload, "hist"):
		return 40 * time.Second
	case strings.HasPrefix(payload, "race"):
		return 12 * time.Minute
	}
	return 10 * time.Minute
}

func (e *concEngine) wants(half string) bool { return e.half == "" || e.half == half }

func witIters(tier string) int {
	if tier == "thorough" {
		return 200000
	}
	return 20000
}

func (e *concEngine) generate(r *rng, n int, tier string, emit func(string)) {
	if tier != "racechild" {
		for _, name := range witnessOrder {
			if e.wants(witnesses[name].prop) {
				emit(fmt.Sprintf("wit %s %d", name, witIters(tier)))
			}
		}
	}
	genHist(e, r, n, tier, emit)
}

func (e *concEngine) run(payload string) string {
	o, _ := e.runX(payload)
	return o
}

func (e *concEngine) runX(payload string) (string, string) {
	f := strings.Fields(payload)
	if len(f) == 0 {
		return "bad-case", "-"
	}
	switch f[0] {
	case "wit":
		if len(f) < 2 || len(f) > 3 {
			return "bad-case", "-"
		}
		w, ok := witnesses[f[1]]
		n, err := 20000, error(nil)
		if len(f) == 3 {
			n, err = strconv.Atoi(f[2])
		}
		if !ok || err != nil {
			return "bad-case", "-"
		}
		return w.run(n), "-"
	case "hist":
		return runHist(payload)
	case "race":
		return runRace(f), "-"
	}
	return "bad-case", "-"
}

func (e *concEngine) classify(payload, obs string) string {
	f := strings.Fields(payload + " ? ?")
	v := "ok"
	if strings.Contains(obs, "\t!") {
		v = "VIOLATION"
	}
	switch f[0] {
	case "wit":
		return "wit/" + f[1] + "/" + v
	case "hist":
		return "hist/" + f[1] + "/" + f[2] + "/" + v
	}
	return f[0] + "/" + f[1] + "/" + v
}

var _ sync.Mutex

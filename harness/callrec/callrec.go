// Package callrec is the recorder behind the Go functions that engine "call" (C20) registers with
// lib/call: every such function reports the arguments it was entered with and then behaves as the
// current case prescribes (return, return an error, panic).
package callrec

import (
	"context"
	"errors"
	"fmt"

	"github.com/jig/lisp/lisperror"
	"github.com/jig/lisp/types"
)

// Rec is the script and the log of one case.
type Rec struct {
	// script
	Beh   string        // ok | err | perr | pwrap | plisp | pval | prt
	Val   types.MalType // value returned (two results) or panicked with (pval)
	Token interface{}   // the value the caller's context carries under CtxKey
	// log
	Entered int
	Args    []types.MalType
	Ctx     string // T: the caller's context arrived, F: another one, -: no context parameter
}

type ctxKey struct{}

// CtxKey identifies the caller's context.
var CtxKey = ctxKey{}

// Cur is the case being run (the harness is single threaded per case).
var Cur *Rec

var (
	ErrCallee = errors.New("callee error")
	ErrPanic  = errors.New("callee panic")
	// a Go error that WRAPS a lisp error (e.g. the error of a nested evaluation, annotated by the host function)
	ErrWrapLisp = fmt.Errorf("storage layer: %w", lisperror.NewLispError(errors.New("inner failure"), nil))
	// a lisp error panicked with as it is
	ErrLisp error = lisperror.NewLispError(errors.New("lisp-level failure"), nil)
)

// A collects the fixed arguments as the callee received them.
func A(xs ...types.MalType) []types.MalType { return xs }

func VI(v []int) []types.MalType {
	out := make([]types.MalType, len(v))
	for i, x := range v {
		out[i] = x
	}
	return out
}

func VS(v []string) []types.MalType {
	out := make([]types.MalType, len(v))
	for i, x := range v {
		out[i] = x
	}
	return out
}

func VM(v []types.MalType) []types.MalType { return v }

func enter(ctx context.Context, hasCtx bool, fixed, variadic []types.MalType) {
	r := Cur
	r.Entered++
	r.Args = append(append([]types.MalType{}, fixed...), variadic...)
	switch {
	case !hasCtx:
		r.Ctx = "-"
	case ctx != nil && ctx.Value(CtxKey) == r.Token:
		r.Ctx = "T"
	default:
		r.Ctx = "F"
	}
	switch r.Beh {
	case "perr":
		panic(ErrPanic)
	case "pwrap":
		panic(ErrWrapLisp)
	case "plisp":
		panic(ErrLisp)
	case "pval":
		panic(r.Val)
	case "prt":
		var a []int
		_ = a[len(r.Args)+3]
	}
}

// E0, E1, E2: bodies of the functions with no result, an error result, value plus error.
func E0(ctx context.Context, hasCtx bool, fixed, variadic []types.MalType) {
	enter(ctx, hasCtx, fixed, variadic)
}

func E1(ctx context.Context, hasCtx bool, fixed, variadic []types.MalType) error {
	enter(ctx, hasCtx, fixed, variadic)
	if Cur.Beh == "err" {
		return ErrCallee
	}
	return nil
}

func E2(ctx context.Context, hasCtx bool, fixed, variadic []types.MalType) (types.MalType, error) {
	enter(ctx, hasCtx, fixed, variadic)
	if Cur.Beh == "err" {
		return Cur.Val, ErrCallee
	}
	return Cur.Val, nil
}

// ValErr carries the VALUE of a two-result function whose value result is DECLARED as `error` (like core's
// new-go-error: func(string) (error, error)); the harness unwraps it before rendering, so the case reads like any
// (value, error) shape: the binder must map results by POSITION, not by declared type.
type ValErr struct{ V types.MalType }

func (ValErr) Error() string { return "a value whose declared type is error" }

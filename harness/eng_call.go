package main

// engine "call" (C20): the reflective binder lib/call.
//
// A case registers ONE Go function in a fresh environment and calls it once:
//
//   payload: <loc> <kind> <fn> <entry> <decl> <beh> | ( L <lisp arguments> ) | <value>
//     loc    dotless | dotted     package the function lives in and is registered from
//                                 (verifharness/dotless, verifharness/with.dot/dotted)
//     kind   named | closure      top-level function or function literal of that package
//     fn     <c|n>_<fixed|0>_<variadic|0>_<results>[:<identifier>]   signature shape (i int, s string,
//                                 m types.MalType; c = context first), optionally another spelling
//     entry  call | ov:<hex>      call.Call, or call.CallOverrideFN with that name
//     decl   - | a | a,b | a,b,c  the `args ...int` of the registration
//     beh    ok | err | perr | pwrap | plisp | pval | prt   what the callee does once entered: return, return an error,
//                                 panic(error), panic(<value>), run-time panic
//     value  returned by two-result shapes / panicked with
//   extra (computed by the run, for the model's `aux` verdict; the spec is silent about these):
//     P<hex import path> R<hex rest of the runtime name> K<hex _PACKAGES_ key|-> E<hex error text|->
//     V<hex rendered result that accompanies an error|->
//
//   observation:
//     REGPANIC <slice|not-variadic|max-below-min|negative|results|other> aux=T
//     name=<hex symbol> entered=<T|F> ctx=<T|F|-> args=<( L … )|-> res=<ok v|err class> aux=T
//       class: count | type | callee-error | callee-panic wraps=<T|F> | other…
//   harness-side oracle (`\t!…`): the callee runs at most once, and the same call evaluated by the real
//   interpreter inside (try … (catch e …)) enters with the same arguments and every error is catchable.

import (
	"context"
	"encoding/hex"
	"errors"
	"fmt"
	"reflect"
	"runtime"
	"sort"
	"strconv"
	"strings"

	"github.com/jig/lisp"
	"github.com/jig/lisp/env"
	"github.com/jig/lisp/lisperror"
	. "github.com/jig/lisp/types"

	"verifharness/callrec"
	"verifharness/dotless"
	dotted "verifharness/with.dot/dotted"
)

type callLoc struct {
	pkgPath  string
	named    map[string]MalType
	closures map[string]MalType
	register func(ns EnvType, overrideFN *string, f MalType, bounds ...int)
}

type callEngine struct {
	locs map[string]*callLoc
	keys []string // shape keys
	xtra []string // extra spellings (named only)
}

func init() { register("call", newCallEngine()) }

func newCallEngine() *callEngine {
	e := &callEngine{locs: map[string]*callLoc{
		"dotless": {dotless.PkgPath, dotless.Named, dotless.Closures(), dotless.Register},
		"dotted":  {dotted.PkgPath, dotted.Named, dotted.Closures(), dotted.Register},
	}}
	for k := range dotless.Named {
		if strings.Contains(k, ":") {
			e.xtra = append(e.xtra, k)
		} else {
			e.keys = append(e.keys, k)
		}
	}
	sort.Strings(e.keys)
	sort.Strings(e.xtra)
	return e
}

// shape of a key
type callShape struct {
	ctx      bool
	fixed    string // kinds, "" for none
	variadic string // kind or ""
	results  int
}

func parseShape(key string) (callShape, bool) {
	if i := strings.Index(key, ":"); i >= 0 {
		key = key[:i]
	}
	p := strings.Split(key, "_")
	if len(p) != 4 {
		return callShape{}, false
	}
	s := callShape{ctx: p[0] == "c"}
	if p[1] != "0" {
		s.fixed = p[1]
	}
	if p[2] != "0" {
		s.variadic = p[2]
	}
	r, err := strconv.Atoi(p[3])
	if err != nil {
		return callShape{}, false
	}
	s.results = r
	return s, true
}

var callOverrides = []string{"x", "empty?", "my-fn", "Sum.Up", "", "λ", "with_underscore", "UPPER"}

func genOfKind(r *rng, kind byte) MalType {
	switch kind {
	case 'i':
		return []int{0, 1, -1, 7, 42, 1000, -1000000, 2147483647}[r.intn(8)]
	case 's':
		if r.chance(1, 4) {
			return genKeyword(r)
		}
		return genString(r)
	default:
		return genData(r, 2)
	}
}

func (e *callEngine) generate(r *rng, n int, tier string, emit func(string)) {
	for i := 0; i < n; i++ {
		loc := "dotless"
		if r.chance(1, 2) {
			loc = "dotted"
		}
		kind := "named"
		if r.chance(1, 2) {
			kind = "closure"
		}
		key := e.keys[r.intn(len(e.keys))]
		if kind == "named" && r.chance(1, 12) {
			key = e.xtra[r.intn(len(e.xtra))]
		}
		sh, _ := parseShape(key)
		nfixed := len(sh.fixed)
		entry := "call"
		if r.chance(2, 5) {
			entry = "ov:" + hx(callOverrides[r.intn(len(callOverrides))])
		}
		// declaration
		var decl []int
		pickMin := func() int {
			switch r.intn(24) {
			case 0:
				return -1
			case 1, 2:
				return 0
			case 3:
				return []int{999, 1000, 1001}[r.intn(3)]
			default:
				return nfixed + r.intn(4) - 1
			}
		}
		pickMax := func(a int) int {
			switch r.intn(24) {
			case 0:
				return a - 1
			case 1, 2:
				return []int{999, 1000, 1001}[r.intn(3)]
			case 3:
				return -1
			default:
				return a + r.intn(4)
			}
		}
		d := r.intn(100)
		if sh.variadic != "" {
			switch {
			case d < 30:
			case d < 55:
				decl = []int{pickMin()}
			case d < 95:
				a := pickMin()
				decl = []int{a, pickMax(a)}
			default:
				a := pickMin()
				decl = []int{a, pickMax(a), r.intn(3)}
			}
		} else {
			switch {
			case d < 84:
			case d < 89:
				decl = []int{pickMin()}
			case d < 94:
				a := pickMin()
				decl = []int{a, pickMax(a)}
			default:
				decl = []int{r.intn(3), r.intn(3), r.intn(3)}
			}
		}
		beh := []string{"ok", "ok", "ok", "ok", "ok", "err", "err", "perr", "pval", "prt", "pwrap", "plisp"}[r.intn(12)]
		val := genData(r, 2)
		if val == nil && beh == "pval" {
			val = 0
		}
		// number of lisp arguments: around every boundary that exists in this case
		cands := []int{nfixed - 1, nfixed, nfixed + 1, nfixed + 2, 0}
		for _, b := range decl {
			if b < 30 {
				cands = append(cands, b-2, b-1, b, b+1, b+2)
			}
		}
		nargs := cands[r.intn(len(cands))]
		if r.chance(1, 2) {
			// inside the range the declaration (else the signature) suggests
			lo, hi := nfixed, nfixed
			if sh.variadic != "" {
				hi = nfixed + 3
			}
			if len(decl) == 1 || len(decl) == 2 {
				lo, hi = decl[0], decl[0]+3
				if len(decl) == 2 && decl[1] < hi {
					hi = decl[1]
				}
			}
			if lo < nfixed {
				lo = nfixed
			}
			if hi >= lo && hi < 40 {
				nargs = lo + r.intn(hi-lo+1)
			}
		}
		if nargs < 0 {
			nargs = 0
		}
		long := false
		if sh.variadic != "" && r.chance(1, 40) {
			// the default maximum (unlimitedArgments = 1000) and its neighbours
			nargs = 998 + r.intn(5)
			long = true
			if r.chance(1, 2) {
				decl = nil
			}
		}
		args := make([]MalType, nargs)
		for k := range args {
			var pk byte = 'm'
			if k < nfixed {
				pk = sh.fixed[k]
			} else if sh.variadic != "" {
				pk = sh.variadic[0]
			}
			switch {
			case long:
				switch pk {
				case 'i':
					args[k] = k % 7
				case 's':
					args[k] = "a"
				default:
					args[k] = []MalType{nil, 1, "a", true}[k%4]
				}
				if k == 998 && r.chance(1, 8) {
					args[k] = nil
				}
			case r.chance(17, 20):
				args[k] = genOfKind(r, pk)
			case r.chance(2, 5):
				args[k] = nil
			default:
				args[k] = genData(r, 2)
			}
		}
		ds := "-"
		if len(decl) > 0 {
			parts := make([]string, len(decl))
			for k, b := range decl {
				parts[k] = strconv.Itoa(b)
			}
			ds = strings.Join(parts, ",")
		}
		emit(fmt.Sprintf("%s %s %s %s %s %s | %s | %s", loc, kind, key, entry, ds, beh,
			render(List{Val: args}), render(val)))
	}
}

type callCase struct {
	loc      *callLoc
	f        MalType
	shape    callShape
	override *string
	decl     []int
	beh      string
	args     []MalType
	val      MalType
}

func (e *callEngine) parse(payload string) (*callCase, bool) {
	secs := strings.Split(payload, " | ")
	if len(secs) != 3 {
		return nil, false
	}
	h := strings.Split(secs[0], " ")
	if len(h) != 6 {
		return nil, false
	}
	c := &callCase{}
	c.loc = e.locs[h[0]]
	if c.loc == nil {
		return nil, false
	}
	switch h[1] {
	case "named":
		c.f = c.loc.named[h[2]]
	case "closure":
		c.f = c.loc.closures[h[2]]
	}
	if c.f == nil {
		return nil, false
	}
	var ok bool
	if c.shape, ok = parseShape(h[2]); !ok {
		return nil, false
	}
	if strings.HasPrefix(h[3], "ov:") {
		b, err := hex.DecodeString(h[3][3:])
		if err != nil {
			return nil, false
		}
		s := string(b)
		c.override = &s
	} else if h[3] != "call" {
		return nil, false
	}
	if h[4] != "-" {
		for _, p := range strings.Split(h[4], ",") {
			v, err := strconv.Atoi(p)
			if err != nil {
				return nil, false
			}
			c.decl = append(c.decl, v)
		}
	}
	c.beh = h[5]
	av, err := parse(secs[1])
	if err != nil {
		return nil, false
	}
	al, isList := av.(List)
	if !isList {
		return nil, false
	}
	c.args = al.Val
	if c.val, err = parse(secs[2]); err != nil {
		return nil, false
	}
	return c, true
}

func (e *callEngine) run(payload string) string {
	o, _ := e.runX(payload)
	return o
}

func optHex(tag string, s *string) string {
	if s == nil {
		return tag + "-"
	}
	return tag + hx(*s)
}

// one invocation of the registered function under a fresh recorder
func callOnce(c *callCase, invoke func(ctx context.Context) (MalType, error)) (*callrec.Rec, MalType, error) {
	rec := &callrec.Rec{Beh: c.beh, Val: c.val, Token: new(int), Ctx: "-"}
	callrec.Cur = rec
	ctx := context.WithValue(context.Background(), callrec.CtxKey, rec.Token)
	res, err := invoke(ctx)
	callrec.Cur = &callrec.Rec{} // a late entry would not go unnoticed in the next case's log
	if ve, isVE := res.(callrec.ValErr); isVE {
		res = ve.V // the value of a shape whose value result is declared as `error`
	}
	return rec, res, err
}

func (e *callEngine) runX(payload string) (obs, extra string) {
	c, ok := e.parse(payload)
	if !ok {
		return "bad-case", "-"
	}
	full := runtime.FuncForPC(reflect.ValueOf(c.f).Pointer()).Name()
	if !strings.HasPrefix(full, c.loc.pkgPath+".") {
		return "bad-runtime-name " + full, "-"
	}
	nameCols := "P" + hx(c.loc.pkgPath) + " R" + hx(full[len(c.loc.pkgPath)+1:])

	ns := env.NewEnv()
	// registration, under recover: a panic here is an observation
	regPanic, regText := func() (cls string, text *string) {
		defer func() {
			if r := recover(); r != nil {
				t := fmt.Sprint(r)
				text = &t
				_, isRT := r.(runtime.Error)
				switch {
				case isRT && strings.Contains(t, "slice bounds out of range"):
					cls = "slice"
				case isRT:
					cls = "other-runtime"
				case strings.Contains(t, "is not variadic"):
					cls = "not-variadic"
				case strings.Contains(t, "is lower than minimum"):
					cls = "max-below-min"
				case strings.Contains(t, "cannot be negative"):
					cls = "negative"
				case strings.Contains(t, "wrong number of results"):
					cls = "results"
				default:
					cls = "other"
				}
			}
		}()
		c.loc.register(ns, c.override, c.f, c.decl...)
		return "", nil
	}()
	if regPanic != "" {
		if regPanic == "slice" {
			regText = nil // the text of a run-time error is the Go runtime's business
		}
		return "REGPANIC " + regPanic + " aux=T", nameCols + " K- " + optHex("E", regText) + " V-"
	}

	// the name it was registered under, read back from what the code left in the environment
	name, pkgKey := "?", (*string)(nil)
	if pk, err := ns.Get(Symbol{Val: "_PACKAGES_"}); err == nil {
		if hm, isHM := pk.(HashMap); isHM && len(hm.Val) == 1 {
			for k, v := range hm.Val {
				k := k
				pkgKey = &k
				if set, isSet := v.(Set); isSet && len(set.Val) == 1 {
					for fnName := range set.Val {
						name = fnName
					}
				}
			}
		}
	}
	bound, err := ns.Get(Symbol{Val: name})
	fn, isFunc := bound.(Func)
	if err != nil || !isFunc {
		return "name=? unbound", nameCols + " K- E- V-"
	}

	rec, res, err := callOnce(c, func(ctx context.Context) (MalType, error) { return fn.Fn(ctx, c.args) })

	var b strings.Builder
	b.WriteString("name=" + hx(name))
	if rec.Entered > 0 {
		b.WriteString(" entered=T ctx=" + rec.Ctx + " args=" + render(List{Val: rec.Args}))
	} else {
		b.WriteString(" entered=F ctx=- args=-")
	}
	var errText, errVal *string
	class := ""
	if err == nil {
		b.WriteString(" res=ok " + render(res))
	} else {
		class = classifyCallErr(c, rec, err)
		b.WriteString(" res=err " + class)
		rv := render(res)
		errVal = &rv
		if c.beh != "pval" && c.beh != "prt" && c.beh != "pwrap" && c.beh != "plisp" || rec.Entered == 0 {
			t := err.Error()
			errText = &t
		}
	}
	b.WriteString(" aux=T")
	obs = b.String()
	extra = nameCols + " " + optHex("K", pkgKey) + " " + optHex("E", errText) + " " + optHex("V", errVal)

	// harness-side oracle
	if rec.Entered > 1 {
		obs += fmt.Sprintf("\t!callee entered %d times by one call", rec.Entered)
		return
	}
	if rec.Entered == 1 && rec.Ctx == "F" {
		obs += "\t!the callee's context is not the caller's"
		return
	}
	if why := e.evalCrossCheck(c, ns, name, rec, res, err); why != "" {
		obs += "\t!" + why
	}
	return
}

func classifyCallErr(c *callCase, rec *callrec.Rec, err error) string {
	le, isLisp := err.(lisperror.LispError)
	msg := err.Error()
	if rec.Entered == 0 {
		switch {
		case !isLisp:
			return "not-a-lisp-error"
		case strings.Contains(msg, "wrong number of arguments"),
			strings.Contains(msg, "reflect: Call with too few input arguments"),
			strings.Contains(msg, "reflect: Call with too many input arguments"):
			return "count"
		case strings.Contains(msg, "reflect: Call using "), strings.Contains(msg, "reflect: cannot use "):
			return "type"
		}
		return "other " + oneLine(msg)
	}
	if err == callrec.ErrCallee {
		return "callee-error"
	}
	if !isLisp {
		return "other-entered " + oneLine(msg)
	}
	wraps := false
	switch c.beh {
	case "perr":
		wraps = errors.Is(err, callrec.ErrPanic)
	case "pwrap":
		wraps = errors.Is(err, callrec.ErrWrapLisp)
	case "plisp":
		wraps = errors.Is(err, callrec.ErrLisp)
	case "pval":
		wraps = render(le.ErrorValue()) == render(c.val)
	case "prt":
		var rt runtime.Error
		wraps = errors.As(err, &rt)
	}
	if wraps {
		return "callee-panic wraps=T"
	}
	return "callee-panic wraps=F"
}

// the same call through the real interpreter: (try (<name> '<a1> …) (catch e "caught"))
func (e *callEngine) evalCrossCheck(c *callCase, ns EnvType, name string, rec *callrec.Rec, res MalType, err error) string {
	form := []MalType{Symbol{Val: name}}
	for _, a := range c.args {
		form = append(form, quote(a))
	}
	caught := "ʞcaught-by-harness"
	ast := List{Val: []MalType{Symbol{Val: "try"}, List{Val: form},
		List{Val: []MalType{Symbol{Val: "catch"}, Symbol{Val: "e"}, caught}}}}
	rec2, res2, err2 := callOnce(c, func(ctx context.Context) (MalType, error) { return lisp.EVAL(ctx, ast, ns) })
	if err2 != nil {
		return "error not catchable through EVAL: " + oneLine(err2.Error())
	}
	if rec2.Entered != rec.Entered || render(List{Val: rec2.Args}) != render(List{Val: rec.Args}) || rec2.Ctx != rec.Ctx {
		return "EVAL path enters differently"
	}
	if err != nil {
		if res2 != caught {
			return "EVAL path: error of the direct call is not raised"
		}
	} else if render(res2) != render(res) {
		return "EVAL path: different result"
	}
	return ""
}

func (e *callEngine) classify(payload, obs string) string {
	h := strings.Split(strings.Split(payload, " | ")[0], " ")
	if len(h) != 6 {
		return "bad"
	}
	sh, _ := parseShape(h[2])
	entry := "call"
	if h[3] != "call" {
		entry = "override"
	}
	d := "derived"
	if h[4] != "-" {
		d = fmt.Sprintf("decl%d", strings.Count(h[4], ",")+1)
	}
	v := "fixed"
	if sh.variadic != "" {
		v = "variadic"
	}
	cx := "noctx"
	if sh.ctx {
		cx = "ctx"
	}
	o := strings.Split(obs, "\t!")[0]
	cls := "?"
	switch {
	case strings.HasPrefix(o, "REGPANIC"):
		cls = strings.TrimSuffix(o, " aux=T")
	case strings.Contains(o, " res=ok"):
		cls = "ok"
	case strings.Contains(o, " res=err "):
		cls = strings.TrimSuffix(o[strings.Index(o, " res=err ")+9:], " aux=T")
	}
	return fmt.Sprintf("%s/%s/%s:%s,%s,r%d:%s:%s", entry, h[1], h[0], cx, v, sh.results, d, cls)
}

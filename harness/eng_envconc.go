package main

// engine "envconc" (C11): k programs evaluated simultaneously by k goroutines on ONE environment
// preloaded with the standard libraries; every program's result, trace and own definitions must equal
// what it gives when run alone on a fresh environment.
//   envconc k=<k> reps=<r> seed=<s>     programs are regenerated from the seed (typed random programs of
//                                       gen_prog.go with per-program global names and trace builtin, and
//                                       templates using gensym / memoize / closures / macros / try / futures)
//   envconc race seed=<s> n=<n>         n such cases in a child process built with -race
// Observation: "ok" or "<what>\t!<violation>".  The Lean driver arm `conc` answers "ok" (no model side).

import (
	"context"
	"fmt"
	"strconv"
	"strings"
	"sync"

	"github.com/jig/lisp"
	"github.com/jig/lisp/env"
	"github.com/jig/lisp/lib/call"
	"github.com/jig/lisp/lib/concurrent/nsconcurrent"
	"github.com/jig/lisp/lib/core/nscore"
	"github.com/jig/lisp/lib/coreextented/nscoreextended"

	. "github.com/jig/lisp/types"
)

const envconcMaxProgs = 16

// envWorld: one loaded environment with a trace builtin per program slot
type envWorld struct {
	env    EnvType
	traces [envconcMaxProgs][]MalType
}

func newEnvWorld() (*envWorld, error) {
	w := &envWorld{env: env.NewEnv()}
	if err := nscore.Load(w.env); err != nil {
		return nil, err
	}
	if err := nsconcurrent.Load(w.env); err != nil {
		return nil, err
	}
	if err := nscoreextended.Load(w.env); err != nil {
		return nil, err
	}
	for i := 0; i < envconcMaxProgs; i++ {
		i := i
		call.CallOverrideFN(w.env, fmt.Sprintf("trace%d!", i), func(a MalType) (MalType, error) {
			w.traces[i] = append(w.traces[i], a) // only program i (one goroutine) calls this
			return a, nil
		})
	}
	return w, nil
}

type envProg struct {
	ast   MalType
	names []string
}

// renameGlobals: every name defined by a `def`/`defmacro` anywhere in the program gets the prefix, and
// trace! becomes the program's own trace builtin
func renameGlobals(ast MalType, prefix, trace string) (MalType, map[string]bool) {
	defs := map[string]bool{}
	var collect func(v MalType)
	collect = func(v MalType) {
		switch t := v.(type) {
		case List:
			if len(t.Val) >= 2 {
				if h, ok := t.Val[0].(Symbol); ok && (h.Val == "def" || h.Val == "defmacro") {
					if n, ok := t.Val[1].(Symbol); ok {
						defs[n.Val] = true
					}
				}
			}
			for _, x := range t.Val {
				collect(x)
			}
		case Vector:
			for _, x := range t.Val {
				collect(x)
			}
		case HashMap:
			for _, x := range t.Val {
				collect(x)
			}
		}
	}
	collect(ast)
	var ren func(v MalType) MalType
	ren = func(v MalType) MalType {
		switch t := v.(type) {
		case Symbol:
			if t.Val == "trace!" {
				return Symbol{Val: trace}
			}
			if defs[t.Val] {
				return Symbol{Val: prefix + t.Val}
			}
			return t
		case List:
			out := make([]MalType, len(t.Val))
			for i, x := range t.Val {
				out[i] = ren(x)
			}
			return List{Val: out, Meta: t.Meta}
		case Vector:
			out := make([]MalType, len(t.Val))
			for i, x := range t.Val {
				out[i] = ren(x)
			}
			return Vector{Val: out, Meta: t.Meta}
		case HashMap:
			out := map[string]MalType{}
			for k, x := range t.Val {
				out[k] = ren(x)
			}
			return HashMap{Val: out, Meta: t.Meta}
		}
		return v
	}
	return ren(ast), defs
}

// templates exercising what the typed generator does not: gensym, memoize, closures over let scopes,
// library macros, user macros, try/catch with catch variables, atoms and futures of the program itself
var envTemplates = []string{
	"(do (def %Pm (memoize (fn [n] (if (< n 2) n (+ (%Pm (- n 1)) (%Pm (- n 2))))))) (%T (%Pm 15)) (%Pm 16))",
	"(let [a (gensym) b (gensym)] [(symbol? a) (= a b) (= a a)])",
	"(do (def %Pf (fn [x] (cond (< x 0) :neg (= x 0) :zero :else :pos))) [(-> 5 (- 7) %Pf) (or nil false (%Pf 0)) (and 1 (%Pf 3))])",
	"(do (def %Pc (let [n 10] (fn [x] (+ x n)))) (try (do (%T (%Pc 1)) (throw {:a (%Pc 2)})) (catch e [e (%Pc 3)])))",
	"(do (def %Pv 5) (let [f (future (+ %Pv 1)) g (future (* %Pv 2))] [(deref f) (deref g) @f]))",
	"(do (def %Pa (atom 0)) (def %Pi (fn [n] (if (< n 1) @%Pa (do (swap! %Pa (fn [x] (+ x 1))) (%Pi (- n 1)))))) (%T (%Pi 25)))",
	"(do (defmacro %Pu (fn [c a b] `(if ~c ~b ~a))) (def %Pw (fn [n acc] (if (< n 1) acc (%Pw (- n 1) (+ acc (%Pu false 1 2)))))) (%Pw 30 0))",
	"(do (def %Pk (fn [& xs] (let [s (apply + xs)] (fn [y] (* y s))))) (let [h (%Pk 1 2 3)] [(h 2) ((%Pk) 5) (map h [1 2])]))",
	"(do (def %Pe (fn [x] (try (if (> x 2) (throw x) x) (catch q (+ q 100))))) (%T (map %Pe [1 2 3 4])) (let [q 7] [(%Pe 9) q]))",
	"(do (def %Pg (fn [] (let [s (gensym)] (symbol? s)))) (def %Pl (fn [n] (if (< n 1) true (and (%Pg) (%Pl (- n 1)))))) (%Pl 15))",
	// a `def` inside a function body is local to that CALL — the name `scratch` is the same in every program on purpose
	"(do (def %Pz (fn [] (do (def scratch (quote %Pz)) (%T scratch) (def %Pn (fn [n] (if (< n 1) scratch (%Pn (- n 1))))) (%Pn 40)))) [(%Pz) (%Pz)])",
	"(do (def %Py (fn [x] (do (def scratch [x (quote %Py)]) (let [w (apply + (map (fn [i] i) [1 2 3 4 5 6 7 8 9]))] [scratch w])))) (map %Py [1 2 3]))",
	// two expansion temporaries of ONE macro call are two different symbols, whatever the other evaluations do
	"(do (defmacro %Pt (fn [a b] (let [x (gensym) y (gensym)] `(let [~x ~a ~y ~b] [~x ~y (= (quote ~x) (quote ~y))])))) (def %Pr (fn [n acc] (if (< n 1) acc (%Pr (- n 1) (%Pt 2 1))))) (%Pr 60 nil))",
	"(do (def %Ps (fn [n] (if (< n 1) true (and (let [f (future (str (gensym))) g (future (str (gensym)))] (not (= (deref f) (deref g)))) (%Ps (- n 1)))))) (%Ps 25))",
	// closures and futures that ESCAPE from a catch handler / from a macro function keep the frame that binds the catch
	// variable / the macro's parameters for as long as they live
	"(do (def %Pj (fn [v] (try (throw [v (quote %Pj)]) (catch err (fn [] err))))) (let [cs (map %Pj [1 2 3 4 5 6 7 8])] (%T (map (fn [c] (c)) cs))) (map (fn [c] (c)) (map %Pj [9 10])))",
	"(do (def %Ph (fn [n acc] (if (< n 1) acc (%Ph (- n 1) (conj acc (try (throw (quote %Ph)) (catch err (future-call (fn [] (str err n)))))))))) (map deref (%Ph 10 [])))",
	"(do (defmacro %Pb (fn [x] (let [g (fn [] x)] (list g)))) (def %Po (fn [n acc] (if (< n 1) acc (%Po (- n 1) (+ acc (%Pb 3)))))) (%Po 40 0))",
	// several waiters (futures of this program) on ONE pending future: every one of them gets the outcome
	"(do (def %Px (future (do (sleep 25) (quote %Px)))) (let [w1 (future (deref %Px)) w2 (future (deref %Px)) w3 (future (deref %Px))] [(deref w1) (deref w2) (deref w3) (deref %Px)]))",
	"(do (def %Pd (future (do (sleep 20) (throw {:why (quote %Pd)})))) (let [w (fn [] (future (try (deref %Pd) (catch e e)))) a (w) b (w)] [(deref a) (deref b) (try (deref %Pd) (catch e e))]))",
	// DEEP non-tail recursion (legal on its own, well inside the host stack): how deep OTHER evaluations are is none of an
	// evaluation's business — kept LAST in this list, see envconcDeepTemplate
	// errors caught while other evaluations run
	"(do (def %Pq (fn [n acc] (if (< n 1) acc (%Pq (- n 1) (try (throw (+ acc 1)) (catch e e)))))) (%T (%Pq 30 0)))",
	"(do (def %Pr (fn [n] (if (< n 1) 0 (+ 1 (%Pr (- n 1)))))) (%T (%Pr 9000)))",
}

// envconcOnly ≥ 0: every program of the case is this template (set from the payload's only=<index>)
var envconcOnly = -1

// genEnvProgs: the k programs of one case
func genEnvProgs(r *rng, k int, e EnvType) ([]envProg, error) {
	var ps []envProg
	for i := 0; i < k; i++ {
		prefix := fmt.Sprintf("p%d_", i)
		trace := fmt.Sprintf("trace%d!", i)
		if envconcOnly < 0 && r.chance(1, 2) {
			g := &progGen{r: r, trace: true, errs: true}
			ast, _ := g.program(3 + r.intn(2))
			ast2, defs := renameGlobals(ast, prefix, trace)
			var names []string
			for n := range defs {
				names = append(names, prefix+n)
			}
			sortStrings(names)
			ps = append(ps, envProg{ast2, names})
			continue
		}
		src := envTemplates[r.intn(len(envTemplates))]
		if envconcOnly >= 0 && envconcOnly < len(envTemplates) {
			src = envTemplates[envconcOnly]
		}
		src = strings.ReplaceAll(strings.ReplaceAll(src, "%P", prefix), "%T", trace)
		ast, err := lisp.READ(src, nil, e)
		if err != nil {
			return nil, err
		}
		_, defs := renameGlobals(ast, "", trace)
		var names []string
		for n := range defs {
			names = append(names, n)
		}
		sortStrings(names)
		ps = append(ps, envProg{ast, names})
	}
	return ps, nil
}

func sortStrings(xs []string) {
	for i := 1; i < len(xs); i++ {
		for j := i; j > 0 && xs[j] < xs[j-1]; j-- {
			xs[j], xs[j-1] = xs[j-1], xs[j]
		}
	}
}

// evalObsProg: what one program shows: result, its trace, its own definitions
func evalObsProg(w *envWorld, i int, p envProg) string {
	res, err := lisp.EVAL(context.Background(), p.ast, w.env)
	var b strings.Builder
	if err != nil {
		b.WriteString(renderErr(err))
	} else {
		b.WriteString("ok " + render(res))
	}
	return b.String()
}

func progSummary(w *envWorld, i int, p envProg, obs string) string {
	var b strings.Builder
	b.WriteString(obs + " trace=[")
	for j, t := range w.traces[i] {
		if j > 0 {
			b.WriteString(" ; ")
		}
		b.WriteString(render(t))
	}
	b.WriteString("] defs=[")
	for j, n := range p.names {
		if j > 0 {
			b.WriteString(" ; ")
		}
		v, err := w.env.Get(Symbol{Val: n})
		if err != nil {
			b.WriteString(n + "=?")
		} else {
			b.WriteString(n + "=" + render(v))
		}
	}
	b.WriteString("]")
	return b.String()
}

var _ = strconv.Itoa
var _ sync.Mutex

package main

// witnesses added after round 5 of the seeded changes: the RETRY path of swap!, futures whose body cannot even start,
// the cancelled flag of a future whose body ignores the cancellation

import (
	"context"
	"strings"
	"sync"
	"time"

	"github.com/jig/lisp/lib/call"
	. "github.com/jig/lisp/types"
)

// gate: a host function that blocks its FIRST caller until released (later callers pass)
type gate struct {
	mu      sync.Mutex
	n       int
	entered chan struct{}
	release chan struct{}
}

func newGate(w *concWorld, name string) *gate {
	g := &gate{entered: make(chan struct{}), release: make(chan struct{})}
	call.CallOverrideFN(w.env, name, func() (MalType, error) {
		g.mu.Lock()
		g.n++
		first := g.n == 1
		g.mu.Unlock()
		if first {
			close(g.entered)
			select {
			case <-g.release:
			case <-time.After(20 * time.Second):
			}
		}
		return nil, nil
	})
	return g
}

// evalW: evalObs under a watchdog (an operation on an atom left locked would never return)
func evalW(w *concWorld, src string) string {
	o := "BLOCKED"
	within(2*concWatchdog, func() { o = w.evalObs(context.Background(), src) })
	return o
}

func init() {
	// C09: a swap! that has to retry (the atom changed while its update function ran) applies the function again to the
	// NEW value with the same extra arguments; if the function fails on the retry the atom keeps the other writer's value
	addWitness("swap-retry-paths", "a", func(iters int) string {
		for _, c := range []struct{ f, call, wantRes, wantAtom, why string }{
			{"(fn [v & ns] (do (gate!) (+ v (count ns))))", "(swap! a f :x :y)", "ok I12", "ok I12",
				"swap! overtaken by a reset!: the retry must apply the function to the new value with the same extra arguments"},
			{`(fn [v] (do (gate!) (if (= v 0) 1 (throw "only zero"))))`, "(swap! a f)", "err", "ok I10",
				"a swap! whose update function fails on the retry must leave the atom as the other writer left it"},
		} {
			w, err := newConcWorld()
			if err != nil {
				return "setup-error"
			}
			bg := context.Background()
			g := newGate(w, "gate!")
			if _, err := w.eval(bg, "(do (def a (atom 0)) (def f "+c.f+"))"); err != nil {
				return "setup-error"
			}
			res := make(chan string, 1)
			go func() { res <- w.evalObs(bg, c.call) }()
			select {
			case <-g.entered:
			case <-time.After(10 * time.Second):
				return "setup-error update function never entered"
			}
			if o := evalW(w, "(reset! a 10)"); o != "ok I10" {
				close(g.release)
				return o + "\t!reset! while an update function of swap! is running"
			}
			close(g.release)
			var o string
			select {
			case o = <-res:
			case <-time.After(10 * time.Second):
				return "BLOCKED\t!swap! overtaken by a reset! never returns"
			}
			at := evalW(w, "(deref a)")
			okRes := o == c.wantRes || (c.wantRes == "err" && strings.HasPrefix(o, "err"))
			if !okRes || at != c.wantAtom {
				return "swap=" + o + " atom=" + at + "\t!" + c.why + " (expected " + c.wantRes + " / " + c.wantAtom + ")"
			}
		}
		return "ok"
	})
	// C10: a future whose body cannot even be entered (future-call of a function that wants arguments) is a
	// completed, failed future: done, not cancelled, cancel returns false, every deref gives the same error
	addWitness("future-that-cannot-start-is-done", "f", func(iters int) string {
		w, err := newConcWorld()
		if err != nil {
			return "setup-error"
		}
		o := evalW(w, `(do (def f (future-call (fn [x] x)))
		    (let [e1 (try (deref f) (catch e :failed)) e2 (try (deref f) (catch e :failed))]
		      [e1 e2 (future-done? f) (future-cancel f) (future-cancelled? f) (future-done? f)]))`)
		if o != "ok ( V Sca9e6661696c6564 Sca9e6661696c6564 T F F T )" {
			return o + "\t!a future whose body failed to start: expected [:failed :failed true false false true]"
		}
		return "ok"
	})
	// C10: future-cancelled? never goes back from true to false — also when the body ignores the cancellation and
	// completes with a value afterwards
	addWitness("cancelled-stays-cancelled", "f", func(iters int) string {
		w, err := newConcWorld()
		if err != nil {
			return "setup-error"
		}
		bg := context.Background()
		release := make(chan struct{})
		call.CallOverrideFN(w.env, "hold!", func() (MalType, error) {
			select {
			case <-release:
			case <-time.After(20 * time.Second):
			}
			return 42, nil
		})
		if _, err := w.eval(bg, "(def f (future (hold!)))"); err != nil {
			return "setup-error"
		}
		time.Sleep(20 * time.Millisecond)
		before := evalW(w, "[(future-cancel f) (future-cancelled? f)]")
		close(release)
		time.Sleep(150 * time.Millisecond) // the body completes with 42
		after := evalW(w, "[(future-cancelled? f) (future-done? f) (future-cancel f) (future-cancelled? f)]")
		if before != "ok ( V T T )" || after != "ok ( V T T T T )" {
			return "before=" + before + " after=" + after + "\t!future-cancelled? went back to false (or cancel changed its answer) once the body that ignored the cancellation had completed"
		}
		return "ok"
	})
}

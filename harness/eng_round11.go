package main

// three small harness-oracle engines added after round 11 of the seeded changes (the Lean driver answers "-"):
//   seqstr     (C13) `seq` of a string partitions it into its characters — also when the string holds bytes that are not
//              valid UTF-8 (Latin-1 bytes, truncated sequences: strings from binary2str / slurp / the embedder)
//   macrolong  (C12) a macro whose expansion is again a call of itself, tens of thousands of rounds deep at the head
//              position: the call evaluates like its full expansion, macroexpand returns a form whose head is no macro
//   routesdeep (C19) a program nested tens of thousands of levels deep means the same built from Go and read from text

import (
	"context"
	"fmt"
	"strings"
	"time"
	"unicode/utf8"

	"github.com/jig/lisp"
	. "github.com/jig/lisp/types"
)

type seqStrEngine struct{}

func init() { register("seqstr", &seqStrEngine{}) }

func (e *seqStrEngine) leanName() string { return "nomodel" }

var seqStrPool = []string{"", "a", "abc", "héllo", "€uro 本", "a\xffb", "\xff", "\xc3", "ab\xe2\x82", "\xe2\x82\xac\xe2\x82", "x\x80y\xbfz", "\xf0\x9f\x98", "a\x00b", "\xed\xa0\x80",
	"tab\tnl\n", "\xc0\xaf", "\xfe\xfe\xff\xff"}

func (e *seqStrEngine) generate(r *rng, n int, tier string, emit func(string)) {
	for i := range seqStrPool {
		emit(fmt.Sprintf("s=%d", i))
	}
}

func (e *seqStrEngine) run(payload string) string {
	var i int
	if _, err := fmt.Sscanf(payload, "s=%d", &i); err != nil || i < 0 || i >= len(seqStrPool) {
		return "bad-case"
	}
	s := seqStrPool[i]
	ec := &evalCase{}
	env, err := freshEnv(ec)
	if err != nil {
		return "setup-error"
	}
	env.Set(Symbol{Val: "s"}, s)
	src := "[(seq s) (apply str (seq s)) (count (seq s)) (= s (apply str (seq s)))]"
	if s == "" {
		src = "[(seq s) 0 0 0]"
	}
	ast, err := lisp.READ(src, nil, env)
	if err != nil {
		return "setup-error"
	}
	v, err := lisp.EVAL(context.Background(), ast, env)
	if err != nil {
		return "err\t!(seq s) on the string " + fmt.Sprintf("%q", s) + " fails: " + oneLine(err.Error())
	}
	out, ok := v.(Vector)
	if !ok || len(out.Val) != 4 {
		return "bad-result"
	}
	if s == "" {
		if out.Val[0] != nil {
			return "differs\t!(seq \"\") must be nil"
		}
		return "ok"
	}
	pieces, _ := out.Val[0].(List)
	joined := ""
	for _, p := range pieces.Val {
		ps, isStr := p.(string)
		if !isStr || ps == "" || (utf8.RuneCountInString(ps) != 1) {
			return fmt.Sprintf("differs\t!(seq %q) has the element %s: every element is one character of the string", s, render(p))
		}
		joined += ps
	}
	if joined != s || out.Val[1] != s || out.Val[3] != true {
		return fmt.Sprintf("differs\t!the elements of (seq %q) put together give %q: seq partitions the string", s, joined)
	}
	return "ok"
}

func (e *seqStrEngine) classify(payload, obs string) string { return strings.SplitN(obs, "\t", 2)[0] }

type macroLongEngine struct{}

func init() { register("macrolong", &macroLongEngine{}) }

func (e *macroLongEngine) leanName() string             { return "nomodel" }
func (e *macroLongEngine) caseTimeout() time.Duration { return 5 * time.Minute }

func (e *macroLongEngine) generate(r *rng, n int, tier string, emit func(string)) {
	ns := []int{1000, 65535, 65536, 65537, 70000, 140000}
	if tier == "thorough" {
		ns = append(ns, 300000, 1<<20+1)
	}
	for _, n := range ns {
		emit(fmt.Sprintf("rounds=%d", n))
	}
}

func (e *macroLongEngine) run(payload string) string {
	var n int
	if _, err := fmt.Sscanf(payload, "rounds=%d", &n); err != nil || n < 1 || n > 1<<22 {
		return "bad-case"
	}
	ec := &evalCase{}
	env, err := freshEnv(ec)
	if err != nil {
		return "setup-error"
	}
	ev := func(src string) (MalType, error) {
		ast, err := lisp.READ(src, nil, env)
		if err != nil {
			return nil, err
		}
		return lisp.EVAL(context.Background(), ast, env)
	}
	if _, err := ev("(defmacro countdown (fn [n] (if (= n 0) :landed (list 'countdown (- n 1)))))"); err != nil {
		return "setup-error"
	}
	v, err := ev(fmt.Sprintf("(countdown %d)", n))
	if err != nil || render(v) != render(kw("landed")) {
		got := render(v)
		if err != nil {
			got = "error " + oneLine(err.Error())
		}
		return fmt.Sprintf("differs\t!(countdown %d), a macro call that takes %d expansion rounds at its head, evaluates to %s instead of :landed", n, n+1, got[:min(len(got), 120)])
	}
	x, err := ev(fmt.Sprintf("(macroexpand (countdown %d))", n))
	if err != nil || render(x) != render(kw("landed")) {
		got := render(x)
		if err != nil {
			got = "error " + oneLine(err.Error())
		}
		return fmt.Sprintf("differs\t!(macroexpand (countdown %d)) returns %s: a form whose head is still a macro (the full expansion is :landed)", n, got[:min(len(got), 120)])
	}
	return "ok"
}

func (e *macroLongEngine) classify(payload, obs string) string { return strings.SplitN(obs, "\t", 2)[0] }

type routesDeepEngine struct{}

func init() { register("routesdeep", &routesDeepEngine{}) }

func (e *routesDeepEngine) leanName() string             { return "nomodel" }
func (e *routesDeepEngine) caseTimeout() time.Duration { return 5 * time.Minute }

func (e *routesDeepEngine) generate(r *rng, n int, tier string, emit func(string)) {
	ds := []int{1000, 32767, 32768, 40000}
	if tier == "thorough" {
		ds = append(ds, 65537, 100000)
	}
	for _, d := range ds {
		for _, shape := range []string{"calls", "quoted"} {
			emit(fmt.Sprintf("depth=%d %s", d, shape))
		}
	}
	for i := range routesErrPrograms {
		emit(fmt.Sprintf("errtext=%d", i))
	}
}

// errtext: the TEXT of a caught error is a value the program computes with: it is the same on every route — built from Go
// without positions, read from anonymous text, from text under a module name, from text below blank and comment lines.
// The failing forms are the ones whose offending element is itself a collection or a form with a source position of its own.
var routesErrPrograms = []string{
	"((fn [[a b]] a) [1 2])", "((fn [a (b)] a) 1 2)", "((fn [& [r]] r) 1)", "((fn [a {:k v}] a) 1 2)", "(let [[a] 1] a)", "(def [x] 1)", "(let [a] a)", "(let (a 1 (b) 2) a)",
	"((fn [a] a))", "((fn [a] a) 1 2)", "(nth [1 2] 7)", "(undefined-fn [1 2])", "(throw [1 (list 2)])", "(cond [1] 2 3)", "(apply (fn [[a]] a) [[1]])", "(map (fn [a (b)] a) [1])",
	"(swap! (atom 0) (fn [[x]] x))", "(quasiquote (unquote (nth [] 1)))", "(defmacro [m] (fn [] 1))", "(try (throw {:k [1]}) (catch [e] e))",
}

func (e *routesDeepEngine) runErrText(i int) string {
	src := "(try " + routesErrPrograms[i] + " (catch e (str e)))"
	ec := &evalCase{}
	env, err := freshEnv(ec)
	if err != nil {
		return "setup-error"
	}
	viaText := func(text string, cursor *Position) string {
		ast, err := lisp.READ(text, cursor, env)
		if err != nil {
			return "read-error " + oneLine(err.Error())
		}
		v, err := lisp.EVAL(context.Background(), ast, env)
		if err != nil {
			return "uncaught " + oneLine(err.Error())
		}
		return render(v)
	}
	// built from Go: the text is read and every source position removed
	ast, err := lisp.READ(src, nil, env)
	if err != nil {
		return "n/a"
	}
	var strip func(MalType) MalType
	strip = func(v MalType) MalType {
		switch t := v.(type) {
		case List:
			out := make([]MalType, len(t.Val))
			for k, x := range t.Val {
				out[k] = strip(x)
			}
			return List{Val: out}
		case Vector:
			out := make([]MalType, len(t.Val))
			for k, x := range t.Val {
				out[k] = strip(x)
			}
			return Vector{Val: out}
		case HashMap:
			out := map[string]MalType{}
			for k, x := range t.Val {
				out[k] = strip(x)
			}
			return HashMap{Val: out}
		case Symbol:
			return Symbol{Val: t.Val}
		}
		return v
	}
	res := map[string]string{}
	if v, err := lisp.EVAL(context.Background(), strip(ast), env); err != nil {
		res["AST from Go"] = "uncaught " + oneLine(err.Error())
	} else {
		res["AST from Go"] = render(v)
	}
	res["anonymous text"] = viaText(src, nil)
	res["text with module"] = viaText(src, NewCursorFile("demo.lisp"))
	res["text below blank lines"] = viaText("\n\n; a comment\n   "+src, NewCursorFile("other.lisp"))
	res["text in a do"] = viaText("(do\n  "+src+")", nil)
	ref := res["AST from Go"]
	for _, route := range []string{"anonymous text", "text with module", "text below blank lines", "text in a do"} {
		if res[route] != ref {
			dec := func(r string) string {
				if v, err := parse(r); err == nil {
					if s, ok := v.(string); ok {
						return s
					}
				}
				return r
			}
			return fmt.Sprintf("differs\t!%s gives %q built from Go and %q as %s", src, dec(ref)[:min(len(dec(ref)), 120)], dec(res[route])[:min(len(dec(res[route])), 120)], route)
		}
	}
	return "ok"
}

func (e *routesDeepEngine) run(payload string) string {
	if strings.HasPrefix(payload, "errtext=") {
		var i int
		if _, err := fmt.Sscanf(payload, "errtext=%d", &i); err != nil || i < 0 || i >= len(routesErrPrograms) {
			return "bad-case"
		}
		return e.runErrText(i)
	}
	var d int
	var shape string
	if _, err := fmt.Sscanf(payload, "depth=%d %s", &d, &shape); err != nil || d < 1 || d > 1<<20 {
		return "bad-case"
	}
	ec := &evalCase{}
	env, err := freshEnv(ec)
	if err != nil {
		return "setup-error"
	}
	// the AST built from Go, without positions
	var prog MalType = 0
	for i := 0; i < d; i++ {
		if shape == "calls" {
			prog = List{Val: []MalType{Symbol{Val: "+"}, 1, prog}}
		} else {
			prog = Vector{Val: []MalType{prog}}
		}
	}
	if shape == "quoted" {
		prog = List{Val: []MalType{Symbol{Val: "count"}, List{Val: []MalType{Symbol{Val: "quote"}, prog}}}}
	}
	direct, err := lisp.EVAL(context.Background(), prog, env)
	if err != nil {
		return "n/a " + oneLine(err.Error())[:min(len(oneLine(err.Error())), 80)]
	}
	text := lisp.PRINT(prog)
	for _, route := range []string{"READ", "READ+module", "read-string"} {
		var got MalType
		var rerr error
		switch route {
		case "READ":
			var ast MalType
			if ast, rerr = lisp.READ(text, nil, env); rerr == nil {
				got, rerr = lisp.EVAL(context.Background(), ast, env)
			}
		case "READ+module":
			var ast MalType
			if ast, rerr = lisp.READ(text, NewCursorFile("deep.lisp"), env); rerr == nil {
				got, rerr = lisp.EVAL(context.Background(), ast, env)
			}
		default:
			env.Set(Symbol{Val: "program-text"}, text)
			var ast MalType
			if ast, rerr = lisp.READ("(eval (read-string program-text))", nil, env); rerr == nil {
				got, rerr = lisp.EVAL(context.Background(), ast, env)
			}
		}
		if rerr != nil {
			return fmt.Sprintf("differs\t!a program nested %d levels deep (%s) evaluates to %s when built from Go; delivered as text through %s it fails: %s", d, shape, render(direct), route, oneLine(rerr.Error())[:min(len(oneLine(rerr.Error())), 120)])
		}
		if render(got) != render(direct) {
			return fmt.Sprintf("differs\t!a program nested %d levels deep (%s) evaluates to %s when built from Go and to %s through %s", d, shape, render(direct), render(got), route)
		}
	}
	return "ok"
}

func (e *routesDeepEngine) classify(payload, obs string) string { return strings.SplitN(obs, "\t", 2)[0] }

package main

// engine "pkgreg" (C02): the `_PACKAGES_` registry is an ordinary lisp value (a hash-map of sets).  A program may bind
// it, or one of its sets, to a name of its own; the host may register further Go functions at any time between two
// evaluations.  No binding the program made may change (C02: "a binding read twice with no intervening def of that
// name is equal both times").  History = host registrations interleaved with program bindings; observation = after
// every step the current registry and every binding made so far, restricted to the harness' packages, sorted.

import (
	"context"
	"sort"
	"strconv"
	"strings"

	"github.com/jig/lisp"
	"github.com/jig/lisp/env"
	"github.com/jig/lisp/lib/call"
	"github.com/jig/lisp/lib/core/nscore"
	. "github.com/jig/lisp/types"

	"verifharness/pkgx"
)

type pkgregEngine struct{}

func init() { register("pkgreg", &pkgregEngine{}) }

func Pkgreg_one(a MalType) (MalType, error) { return a, nil }
func Pkgreg_two(a MalType) (MalType, error) { return a, nil }
func PkgregThree() (MalType, error)         { return nil, nil }

// what the code under test derives for each function: package key and lisp name (checked against the observation)
var pkgregFns = []struct {
	f         MalType
	pkg, name string
}{
	{Pkgreg_one, "main", "pkgreg-one"},
	{Pkgreg_two, "main", "pkgreg-two"},
	{PkgregThree, "main", "pkgregthree"},
	{pkgx.Alpha, "verifharness/pkgx", "alpha"},
	{pkgx.Beta, "verifharness/pkgx", "beta"},
	{pkgx.Gamma_delta, "verifharness/pkgx", "gamma-delta"},
	{pkgx.Epsilon, "verifharness/pkgx", "epsilon"},
}

var pkgregPkgs = []string{"main", "verifharness/pkgx", "absent"}

func (e *pkgregEngine) generate(r *rng, n int, tier string, emit func(string)) {
	// the minimal witnesses first
	emit("R,main,pkgreg-one S R,main,pkgreg-two")
	emit("R,main,pkgreg-one G,main R,main,pkgreg-two")
	emit("S R,verifharness/pkgx,alpha")
	for i := 0; i < n; i++ {
		k := 3 + r.intn(8)
		var ops []string
		for j := 0; j < k; j++ {
			switch r.intn(5) {
			case 0, 1:
				f := pkgregFns[r.intn(len(pkgregFns))]
				ops = append(ops, "R,"+f.pkg+","+f.name)
			case 2, 3:
				ops = append(ops, "S")
			default:
				ops = append(ops, "G,"+r.pick(pkgregPkgs))
			}
		}
		emit(strings.Join(ops, " "))
	}
}

func pkgregSet(v MalType) string {
	s, ok := v.(Set)
	if !ok {
		return "?" + render(v)
	}
	var ks []string
	for k := range s.Val {
		ks = append(ks, k)
	}
	sort.Strings(ks)
	return "[" + strings.Join(ks, ",") + "]"
}

func pkgregVal(v MalType) string {
	switch t := v.(type) {
	case nil:
		return "nil"
	case Set:
		return pkgregSet(t)
	case HashMap:
		var es []string
		for k, x := range t.Val {
			if k == "main" || k == "verifharness/pkgx" || k == "absent" {
				es = append(es, k+"="+pkgregSet(x))
			}
		}
		sort.Strings(es)
		return "{" + strings.Join(es, ";") + "}"
	}
	return "?" + render(v)
}

func (e *pkgregEngine) run(payload string) string {
	ns := env.NewEnv()
	if err := nscore.Load(ns); err != nil {
		return "setup-error"
	}
	ctx := context.Background()
	nsnap := 0
	var out []string
	for _, op := range strings.Fields(payload) {
		p := strings.Split(op, ",")
		switch {
		case p[0] == "R" && len(p) == 3:
			found := false
			for _, f := range pkgregFns {
				if f.pkg == p[1] && f.name == p[2] {
					call.Call(ns, f.f)
					found = true
				}
			}
			if !found {
				return "bad-case"
			}
		case p[0] == "S":
			src := "(def s" + strconv.Itoa(nsnap) + " _PACKAGES_)"
			nsnap++
			ast, err := lisp.READ(src, nil, ns)
			if err != nil {
				return "bad-case"
			}
			if _, err := lisp.EVAL(ctx, ast, ns); err != nil {
				return "eval-error " + err.Error()
			}
		case p[0] == "G" && len(p) == 2:
			src := "(def s" + strconv.Itoa(nsnap) + " (get _PACKAGES_ " + strconv.Quote(p[1]) + "))"
			nsnap++
			ast, err := lisp.READ(src, nil, ns)
			if err != nil {
				return "bad-case"
			}
			if _, err := lisp.EVAL(ctx, ast, ns); err != nil {
				return "eval-error " + err.Error()
			}
		default:
			return "bad-case"
		}
		cur, _ := ns.Get(Symbol{Val: "_PACKAGES_"})
		var snaps []string
		for i := 0; i < nsnap; i++ {
			v, err := ns.Get(Symbol{Val: "s" + strconv.Itoa(i)})
			if err != nil {
				snaps = append(snaps, "?")
			} else {
				snaps = append(snaps, pkgregVal(v))
			}
		}
		out = append(out, "cur="+pkgregVal(cur)+" snaps="+strings.Join(snaps, " "))
	}
	return strings.Join(out, " | ")
}

func (e *pkgregEngine) classify(payload, obs string) string {
	return "regs=" + strconv.Itoa(strings.Count(payload, "R,")) + " snaps=" + strconv.Itoa(min(strings.Count(payload, "S")+strings.Count(payload, "G,"), 6))
}

package main

// engine "arith" (supports C01, C13, C06): Go's 64-bit integer arithmetic under the lisp builtins, the reader's integer
// literals (strconv.ParseInt(tok, 0, 0)) and the printer's integers.  Protocol: see lean/LispModel/IntArithDriver.lean.
//
//   op <sym> <a> <b>     (sym a b) evaluated by the real interpreter in a fresh environment     ok <int> | ok T | ok F | err
//   opx <sym> <arg>…     the same call with any arguments (int | nil | t | s)                   (same)
//   lit <hex text>       lisp.READ of the text, lisp.PRINT of the result                         ok <text> | err | other
//   pi <hex text>        strconv.ParseInt(text, 0, 0), the function read_atom calls              ok <int> | err syntax | err range
//   rt <int>             PRINT, READ of that text, PRINT again                                   ok <text> <text'> | err <text>
//   range <a> <b>        (range a b)                                                            ok <len> <first|-> <last|->

import (
	"context"
	"encoding/hex"
	"errors"
	"math"
	"math/big"
	"strconv"
	"strings"

	"github.com/jig/lisp"
	. "github.com/jig/lisp/types"
)

type arithEngine struct{}

func init() { register("arith", &arithEngine{}) }

var arOps = []string{"+", "-", "*", "/", "<", "<=", ">", ">="}

// ---------------------------------------------------------------- generation: operands

// magnitudes around which the interesting things happen
var arEdges = []int64{
	0, 1, 2, 3, 7, 10, 255, 256, 65535, 65536,
	1<<31 - 1, 1 << 31, 1<<31 + 1, 1<<32 - 1, 1 << 32, 1<<32 + 1,
	3037000499, 3037000500, // floor(sqrt(2^63)) and its successor
	1<<53 - 1, 1 << 53, 1<<53 + 1, 1<<62 - 1, 1 << 62, 1<<62 + 1,
	math.MaxInt64 - 3, math.MaxInt64 - 2, math.MaxInt64 - 1, math.MaxInt64,
}

func arOperand(r *rng) int64 {
	switch r.intn(10) {
	case 0, 1, 2, 3:
		v := arEdges[r.intn(len(arEdges))]
		if r.chance(1, 2) {
			v = -v
		}
		return v
	case 4:
		return math.MinInt64 + int64(r.intn(4))
	case 5:
		return int64(r.intn(41)) - 20
	case 6:
		return int64(int32(r.next())) // 32-bit
	case 7:
		return int64(r.next() >> uint(1+r.intn(63))) * int64(1-2*r.intn(2)) // random bit length
	default:
		return int64(r.next()) // any 64-bit pattern
	}
}

// a pair whose true result lies within a few units of a range edge (for the given operator), or a plain pair
func arPair(r *rng, op string) (int64, int64) {
	a := arOperand(r)
	if r.chance(1, 2) {
		return a, arOperand(r)
	}
	d := int64(r.intn(7)) - 3
	edge := int64(math.MaxInt64)
	if r.chance(1, 2) {
		edge = math.MinInt64
	}
	switch op {
	case "+":
		return a, edge - a + d // wraps themselves: a + b ≡ edge + d
	case "-":
		return a, a - edge + d
	case "*":
		if a == 0 || a == -1 {
			return a, edge + d
		}
		return a, edge/a + d
	case "/":
		switch r.intn(6) {
		case 0:
			return a, 0
		case 1:
			return a, -1
		case 2:
			return a, 1
		case 3:
			return math.MinInt64, int64(r.intn(5)) - 2
		case 4:
			return a, a + d
		default:
			return a, -a + d
		}
	default:
		if r.chance(1, 4) {
			return a, a - edge + d // a - b wraps: comparison by subtraction would get these wrong
		}
		return a, a + d
	}
}

package main

// engine "arith" (supports C01, C13, C06): Go's 64-bit integer arithmetic under the lisp builtins, the reader's integer
// literals (strconv.ParseInt(tok, 0, 0)) and the printer's integers.  Protocol: see lean/LispModel/IntArithDriver.lean.
//
//   op <sym> <a> <b>     (sym a b) evaluated by the real interpreter in a fresh environment     ok <int> | ok T | ok F | err
//   opx <sym> <arg>…     the same call with any arguments (int | nil | t | s)                   (same)
//   lit <hex text>       lisp.READ of the text, lisp.PRINT of the result                         ok <text> | err | other
//   pi <hex text>        strconv.ParseInt(text, 0, 0), the function read_atom calls              ok <int> | err syntax | err range
//   rt <int>             PRINT, READ of that text, PRINT again                                   ok <text> <text'> | err <text>
//   range <a> <b>        (range a b)                                                            ok <len> <first|-> <last|->

import (
	"context"
	"encoding/hex"
	"errors"
	"math"
	"math/big"
	"strconv"
	"strings"

	"github.com/jig/lisp"
	. "github.com/jig/lisp/types"
)

type arithEngine struct{}

func init() { register("arith", &arithEngine{}) }

var arOps = []string{"+", "-", "*", "/", "<", "<=", ">", ">="}

// ---------------------------------------------------------------- generation: operands

// magnitudes around which the interesting things happen
var arEdges = []int64{
	0, 1, 2, 3, 7, 10, 255, 256, 65535, 65536,
	1<<31 - 1, 1 << 31, 1<<31 + 1, 1<<32 - 1, 1 << 32, 1<<32 + 1,
	3037000499, 3037000500, // floor(sqrt(2^63)) and its successor
	1<<53 - 1, 1 << 53, 1<<53 + 1, 1<<62 - 1, 1 << 62, 1<<62 + 1,
	math.MaxInt64 - 3, math.MaxInt64 - 2, math.MaxInt64 - 1, math.MaxInt64,
}

func arOperand(r *rng) int64 {
	switch r.intn(10) {
	case 0, 1, 2, 3:
		v := arEdges[r.intn(len(arEdges))]
		if r.chance(1, 2) {
			v = -v
		}
		return v
	case 4:
		return math.MinInt64 + int64(r.intn(4))
	case 5:
		return int64(r.intn(41)) - 20
	case 6:
		return int64(int32(r.next())) // 32-bit
	case 7:
		return int64(r.next()>>uint(1+r.intn(63))) * int64(1-2*r.intn(2)) // random bit length
	default:
		return int64(r.next()) // any 64-bit pattern
	}
}

// a pair whose true result lies within a few units of a range edge (for the given operator), or a plain pair
func arPair(r *rng, op string) (int64, int64) {
	a := arOperand(r)
	if r.chance(1, 2) {
		return a, arOperand(r)
	}
	d := int64(r.intn(7)) - 3
	edge := int64(math.MaxInt64)
	if r.chance(1, 2) {
		edge = math.MinInt64
	}
	switch op {
	case "+":
		return a, edge - a + d // wraps themselves: a + b ≡ edge + d
	case "-":
		return a, a - edge + d
	case "*":
		if a == 0 || a == -1 {
			return a, edge + d
		}
		return a, edge/a + d
	case "/":
		switch r.intn(6) {
		case 0:
			return a, 0
		case 1:
			return a, -1
		case 2:
			return a, 1
		case 3:
			return math.MinInt64, int64(r.intn(5)) - 2
		case 4:
			return a, a + d
		default:
			return a, -a + d
		}
	default:
		if r.chance(1, 4) {
			return a, a - edge + d // a - b wraps: comparison by subtraction would get these wrong
		}
		return a, a + d
	}
}

// ---------------------------------------------------------------- generation: literal texts

var arFixedLits = []string{
	"0", "-0", "00", "007", "017", "08", "09", "0_7", "0_", "_0", "1_000", "1__0", "1_", "_1", "-_1", "-1_0",
	"0x", "0X", "0b", "0o", "0x_1", "0_x1", "0x1_", "0x__1", "0b2", "0o8", "0xg", "0XfF", "0B101", "0O17", "0b101", "0o17",
	"0x7fffffffffffffff", "0x8000000000000000", "-0x8000000000000000", "-0x8000000000000001", "0xffffffffffffffff",
	"0x10000000000000000", "0x0000000000000000000000001", "0b" + strings.Repeat("1", 63), "0b" + strings.Repeat("1", 64),
	"-0b1" + strings.Repeat("0", 63), "0o777777777777777777777", "0o1000000000000000000000", "-0o1000000000000000000000",
	"0777777777777777777777", "01000000000000000000000", "-01000000000000000000000", "01777777777777777777777", "02000000000000000000000",
	"9223372036854775807", "9223372036854775808", "-9223372036854775808", "-9223372036854775809",
	"18446744073709551615", "18446744073709551616", "99999999999999999999", "-99999999999999999999",
	"9_223_372_036_854_775_807", "9_223_372_036_854_775_808", "-9_223_372_036_854_775_808",
	"1a", "12abc", "1.", "1.5", ".5", "1e3", "0x1p4", "+1", "-", "--1", "-+1", "- 1", " 42 ", "42 ;c", "(42)", "42 43", "", "1e400",
	"99999999999999999999z", "0x1g", "123456789012345678901234567890",
}

var big63 = new(big.Int).Lsh(big.NewInt(1), 63)
var big64 = new(big.Int).Lsh(big.NewInt(1), 64)

// a number at an interesting magnitude
func arBig(r *rng) *big.Int {
	v := new(big.Int)
	switch r.intn(6) {
	case 0:
		v.Set(big63)
	case 1:
		v.Set(big64)
	case 2:
		v.SetInt64(arEdges[r.intn(len(arEdges))])
	case 3:
		v.SetUint64(r.next())
	case 4:
		v.SetUint64(r.next() >> uint(r.intn(64)))
	default:
		v.SetUint64(r.next())
		v.Lsh(v, uint(r.intn(8)))
	}
	v.Add(v, big.NewInt(int64(r.intn(5))-2))
	return v.Abs(v)
}

// the number written the way a Go literal may be: base prefix (either case), leading zeros, underscores
func arLiteral(r *rng) string {
	v := arBig(r)
	var pre, digits string
	switch r.intn(8) {
	case 0:
		pre, digits = r.pick([]string{"0x", "0X"}), v.Text(16)
		if r.chance(1, 2) {
			digits = strings.ToUpper(digits)
		}
	case 1:
		pre, digits = r.pick([]string{"0b", "0B"}), v.Text(2)
	case 2:
		pre, digits = r.pick([]string{"0o", "0O"}), v.Text(8)
	case 3:
		pre, digits = "0", v.Text(8)
	default:
		digits = v.Text(10)
	}
	if pre != "" && r.chance(1, 6) {
		digits = strings.Repeat("0", 1+r.intn(3)) + digits
	}
	if r.chance(1, 4) { // underscores, mostly well placed
		var b strings.Builder
		for i, c := range digits {
			if i > 0 && r.chance(1, 3) {
				b.WriteByte('_')
			}
			b.WriteRune(c)
		}
		digits = b.String()
		if pre != "" && r.chance(1, 3) {
			digits = "_" + digits
		}
	}
	s := pre + digits
	if r.chance(1, 2) {
		s = "-" + s
	}
	return s
}

var arNoise = []string{"_", "__", "x", "0", "9", "8", "g", "z", "F", "-", "+", " ", ".", "é", "\x80", "o", "b", "e"}

func arLitText(r *rng, forParseInt bool) string {
	switch r.intn(10) {
	case 0, 1:
		return r.pick(arFixedLits)
	case 2, 3: // one edit of a well-formed literal
		s := arLiteral(r)
		p := r.intn(len(s) + 1)
		n := r.pick(arNoise)
		if !forParseInt && (n == "é" || n == "\x80") {
			n = "_"
		}
		if r.chance(1, 3) && p < len(s) {
			return s[:p] + s[p+1:]
		}
		return s[:p] + n + s[p:]
	case 4:
		if forParseInt {
			return "+" + strings.TrimPrefix(arLiteral(r), "-")
		}
		return arLiteral(r)
	default:
		return arLiteral(r)
	}
}

// ---------------------------------------------------------------- generation: cases

func (e *arithEngine) generate(r *rng, n int, tier string, emit func(string)) {
	i64 := func(v int64) string { return strconv.FormatInt(v, 10) }
	// fixed head: every operator on the classic edge pairs, every fixed literal through both literal routes
	edgePairs := [][2]int64{
		{math.MaxInt64, 1}, {math.MinInt64, 1}, {math.MinInt64, -1}, {math.MaxInt64, -1}, {math.MinInt64, math.MinInt64},
		{math.MaxInt64, math.MaxInt64}, {math.MinInt64, math.MaxInt64}, {0, 0}, {5, 0}, {0, 5}, {-7, 2}, {7, -2}, {-7, -2},
		{1 << 32, 1 << 32}, {1 << 31, 1 << 32}, {3037000500, 3037000500}, {3037000499, 3037000499}, {math.MinInt64, 2}, {math.MinInt64, 0},
	}
	for _, op := range arOps {
		for _, p := range edgePairs {
			emit("op " + op + " " + i64(p[0]) + " " + i64(p[1]))
		}
	}
	for _, s := range arFixedLits {
		emit("lit " + hex.EncodeToString([]byte(s)))
		emit("pi " + hex.EncodeToString([]byte(s)))
	}
	for _, v := range []int64{0, 1, -1, math.MaxInt64, math.MinInt64, math.MinInt64 + 1, math.MaxInt64 - 1} {
		emit("rt " + i64(v))
	}
	for i := 0; i < n; i++ {
		switch k := r.intn(20); {
		case k < 11:
			op := r.pick(arOps)
			a, b := arPair(r, op)
			if r.chance(1, 2) && (op == "+" || op == "*" || op[0] == '<' || op[0] == '>') {
				a, b = b, a
			}
			emit("op " + op + " " + i64(a) + " " + i64(b))
		case k < 12:
			// arity / argument kinds: 0…3 arguments, ints and non-ints
			args := []string{}
			for j, m := 0, r.intn(4); j < m; j++ {
				if r.chance(2, 3) {
					args = append(args, i64(arOperand(r)))
				} else {
					args = append(args, r.pick([]string{"nil", "t", "s"}))
				}
			}
			emit(strings.TrimSpace("opx " + r.pick(arOps) + " " + strings.Join(args, " ")))
		case k < 15:
			emit("lit " + hex.EncodeToString([]byte(arLitText(r, false))))
		case k < 17:
			emit("pi " + hex.EncodeToString([]byte(arLitText(r, true))))
		case k < 19:
			emit("rt " + i64(arOperand(r)))
		default:
			a := arOperand(r)
			d := int64(r.intn(9)) - 2
			if a > math.MaxInt64-8 {
				a = math.MaxInt64 - int64(r.intn(8))
				if d > math.MaxInt64-a {
					d = math.MaxInt64 - a
				}
			}
			if d < 0 && a < math.MinInt64-d {
				d = 0 // a + d must not wrap: the span would be 2^64 - |d| elements
			}
			emit("range " + i64(a) + " " + i64(a+d))
		}
	}
}

// ---------------------------------------------------------------- run

func arFreshEnv() (EnvType, error) { return freshEnv(&evalCase{}) }

func arRender(v MalType) string {
	switch v := v.(type) {
	case int:
		return "ok " + lisp.PRINT(v)
	case bool:
		if v {
			return "ok T"
		}
		return "ok F"
	}
	return "other"
}

// (sym args…) through the evaluator, from an AST built in Go and — when every argument has a text — from the text
// read by the real reader; both routes must agree
func arCall(op string, args []MalType) string {
	env, err := arFreshEnv()
	if err != nil {
		return "setup-error " + oneLine(err.Error())
	}
	ast := List{Val: append([]MalType{Symbol{Val: op}}, args...)}
	viaAst := "err"
	if res, err := lisp.EVAL(context.Background(), ast, env); err == nil {
		viaAst = arRender(res)
	}
	texts := make([]string, len(args))
	for i, a := range args {
		texts[i] = lisp.PRINT(a)
	}
	src := strings.TrimSpace("("+op+" "+strings.Join(texts, " ")) + ")"
	viaText := "err"
	form, err := lisp.READ(src, nil, env)
	if err != nil {
		return "inconsistent: " + oneLine(src) + " does not read: " + oneLine(err.Error())
	}
	if res, err := lisp.EVAL(context.Background(), form, env); err == nil {
		viaText = arRender(res)
	}
	if viaAst != viaText {
		return "inconsistent: ast " + viaAst + " / text " + viaText
	}
	return viaAst
}

func (e *arithEngine) run(payload string) string {
	f := strings.Fields(payload)
	if len(f) == 0 {
		return "bad-case"
	}
	p64 := func(s string) (int, bool) {
		v, err := strconv.ParseInt(s, 10, 64)
		return int(v), err == nil
	}
	switch f[0] {
	case "op":
		if len(f) != 4 {
			return "bad-case"
		}
		a, ok1 := p64(f[2])
		b, ok2 := p64(f[3])
		if !ok1 || !ok2 {
			return "bad-case"
		}
		return arCall(f[1], []MalType{a, b})
	case "opx":
		if len(f) < 2 {
			return "bad-case"
		}
		args := []MalType{}
		for _, t := range f[2:] {
			switch t {
			case "nil":
				args = append(args, nil)
			case "t":
				args = append(args, true)
			case "s":
				args = append(args, "x")
			default:
				v, ok := p64(t)
				if !ok {
					return "bad-case"
				}
				args = append(args, v)
			}
		}
		return arCall(f[1], args)
	case "lit", "pi":
		text := ""
		if len(f) == 2 {
			b, err := hex.DecodeString(f[1])
			if err != nil {
				return "bad-case"
			}
			text = string(b)
		} else if len(f) != 1 {
			return "bad-case"
		}
		if f[0] == "pi" {
			v, err := strconv.ParseInt(text, 0, 0)
			switch {
			case err == nil:
				return "ok " + strconv.FormatInt(v, 10)
			case errors.Is(err, strconv.ErrRange):
				return "err range"
			default:
				return "err syntax"
			}
		}
		v, err := lisp.READ(text, nil, nil)
		if err != nil {
			return "err"
		}
		if i, ok := v.(int); ok {
			return "ok " + lisp.PRINT(i)
		}
		return "other"
	case "rt":
		if len(f) != 2 {
			return "bad-case"
		}
		v, ok := p64(f[1])
		if !ok {
			return "bad-case"
		}
		text := lisp.PRINT(v)
		back, err := lisp.READ(text, nil, nil)
		if err != nil {
			return "err " + text
		}
		if _, ok := back.(int); !ok {
			return "err " + text
		}
		return "ok " + text + " " + lisp.PRINT(back)
	case "range":
		if len(f) != 3 {
			return "bad-case"
		}
		a, ok1 := p64(f[1])
		b, ok2 := p64(f[2])
		if !ok1 || !ok2 || (b > a && uint64(b)-uint64(a) > 4096) {
			return "bad-case"
		}
		env, err := arFreshEnv()
		if err != nil {
			return "setup-error " + oneLine(err.Error())
		}
		res, err := lisp.EVAL(context.Background(), List{Val: []MalType{Symbol{Val: "range"}, a, b}}, env)
		if err != nil {
			return "err"
		}
		vec, ok := res.(Vector)
		if !ok {
			return "other"
		}
		first, last := "-", "-"
		if len(vec.Val) > 0 {
			first, last = lisp.PRINT(vec.Val[0]), lisp.PRINT(vec.Val[len(vec.Val)-1])
		}
		return "ok " + strconv.Itoa(len(vec.Val)) + " " + first + " " + last
	}
	return "bad-case"
}

// ---------------------------------------------------------------- classes

// class label: the request kind, the operator, and where the TRUE (unbounded) result lies
func (e *arithEngine) classify(payload, obs string) string {
	f := strings.Fields(payload)
	if len(f) == 0 {
		return "bad"
	}
	res := obs
	if i := strings.IndexByte(res, ' '); i >= 0 && f[0] != "pi" {
		res = res[:i]
	}
	switch f[0] {
	case "op":
		if len(f) != 4 {
			return "bad"
		}
		a, ok1 := new(big.Int).SetString(f[2], 10)
		b, ok2 := new(big.Int).SetString(f[3], 10)
		if !ok1 || !ok2 {
			return "bad"
		}
		t := new(big.Int)
		switch f[1] {
		case "+":
			t.Add(a, b)
		case "-":
			t.Sub(a, b)
		case "*":
			t.Mul(a, b)
		case "/":
			if b.Sign() == 0 {
				return "op/:div0:" + res
			}
			t.Quo(a, b)
		default:
			return "op" + f[1] + ":cmp"
		}
		where := "exact"
		if !t.IsInt64() {
			where = "wraps"
		}
		return "op" + f[1] + ":" + where + ":" + res
	case "opx":
		ints := 0
		for _, t := range f[2:] {
			if _, err := strconv.ParseInt(t, 10, 64); err == nil {
				ints++
			}
		}
		return "opx:" + strconv.Itoa(len(f)-2) + "args," + strconv.Itoa(ints) + "ints:" + res
	case "lit", "pi":
		shape := "dec"
		if len(f) == 2 {
			if b, err := hex.DecodeString(f[1]); err == nil {
				s := strings.TrimLeft(string(b), "+-")
				switch {
				case len(s) >= 2 && s[0] == '0' && (s[1] == 'x' || s[1] == 'X'):
					shape = "hex"
				case len(s) >= 2 && s[0] == '0' && (s[1] == 'b' || s[1] == 'B'):
					shape = "bin"
				case len(s) >= 2 && s[0] == '0' && (s[1] == 'o' || s[1] == 'O'):
					shape = "0o"
				case len(s) >= 2 && s[0] == '0':
					shape = "0oct"
				}
				if strings.Contains(s, "_") {
					shape += "_"
				}
			}
		}
		if f[0] == "pi" {
			if strings.HasPrefix(obs, "ok ") {
				return "pi:" + shape + ":ok"
			}
			return "pi:" + shape + ":" + obs
		}
		return "lit:" + shape + ":" + res
	case "rt", "range":
		return f[0] + ":" + res
	}
	return "bad"
}

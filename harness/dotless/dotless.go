// Code generated for engine "call" (C20) from the shape table ['0', 'i', 's', 'm', 'is', 'mi', 'sm', 'ism', 'mms'] x ['0', 'i', 's', 'm'] x ctx x results; DO NOT EDIT.
// Key <c|n>_<fixed kinds|0>_<variadic kind|0>_<results>: i int, s string, m types.MalType.

package dotless

import (
	"context"

	"github.com/jig/lisp/lib/call"
	"github.com/jig/lisp/types"

	"verifharness/callrec"
)

// PkgPath is the import path of this package (what runtime.FuncForPC prints before the first dot).
const PkgPath = "verifharness/dotless"

var _ context.Context

// Register performs the registration from this package, through either entry point.
func Register(ns types.EnvType, overrideFN *string, f types.MalType, bounds ...int) {
	if overrideFN != nil {
		call.CallOverrideFN(ns, *overrideFN, f, bounds...)
	} else {
		call.Call(ns, f, bounds...)
	}
}

func Sh_c_0_0_0(ctx context.Context)       { callrec.E0(ctx, true, callrec.A(), nil) }
func Sh_c_0_0_1(ctx context.Context) error { return callrec.E1(ctx, true, callrec.A(), nil) }
func Sh_c_0_0_2(ctx context.Context) (types.MalType, error) {
	return callrec.E2(ctx, true, callrec.A(), nil)
}
func Sh_c_0_i_0(ctx context.Context, v ...int) { callrec.E0(ctx, true, callrec.A(), callrec.VI(v)) }
func Sh_c_0_i_1(ctx context.Context, v ...int) error {
	return callrec.E1(ctx, true, callrec.A(), callrec.VI(v))
}
func Sh_c_0_i_2(ctx context.Context, v ...int) (types.MalType, error) {
	return callrec.E2(ctx, true, callrec.A(), callrec.VI(v))
}
func Sh_c_0_s_0(ctx context.Context, v ...string) { callrec.E0(ctx, true, callrec.A(), callrec.VS(v)) }
func Sh_c_0_s_1(ctx context.Context, v ...string) error {
	return callrec.E1(ctx, true, callrec.A(), callrec.VS(v))
}
func Sh_c_0_s_2(ctx context.Context, v ...string) (types.MalType, error) {
	return callrec.E2(ctx, true, callrec.A(), callrec.VS(v))
}
func Sh_c_0_m_0(ctx context.Context, v ...types.MalType) {
	callrec.E0(ctx, true, callrec.A(), callrec.VM(v))
}
func Sh_c_0_m_1(ctx context.Context, v ...types.MalType) error {
	return callrec.E1(ctx, true, callrec.A(), callrec.VM(v))
}
func Sh_c_0_m_2(ctx context.Context, v ...types.MalType) (types.MalType, error) {
	return callrec.E2(ctx, true, callrec.A(), callrec.VM(v))
}
func Sh_c_i_0_0(ctx context.Context, a0 int)       { callrec.E0(ctx, true, callrec.A(a0), nil) }
func Sh_c_i_0_1(ctx context.Context, a0 int) error { return callrec.E1(ctx, true, callrec.A(a0), nil) }
func Sh_c_i_0_2(ctx context.Context, a0 int) (types.MalType, error) {
	return callrec.E2(ctx, true, callrec.A(a0), nil)
}
func Sh_c_i_i_0(ctx context.Context, a0 int, v ...int) {
	callrec.E0(ctx, true, callrec.A(a0), callrec.VI(v))
}
func Sh_c_i_i_1(ctx context.Context, a0 int, v ...int) error {
	return callrec.E1(ctx, true, callrec.A(a0), callrec.VI(v))
}
func Sh_c_i_i_2(ctx context.Context, a0 int, v ...int) (types.MalType, error) {
	return callrec.E2(ctx, true, callrec.A(a0), callrec.VI(v))
}
func Sh_c_i_s_0(ctx context.Context, a0 int, v ...string) {
	callrec.E0(ctx, true, callrec.A(a0), callrec.VS(v))
}
func Sh_c_i_s_1(ctx context.Context, a0 int, v ...string) error {
	return callrec.E1(ctx, true, callrec.A(a0), callrec.VS(v))
}
func Sh_c_i_s_2(ctx context.Context, a0 int, v ...string) (types.MalType, error) {
	return callrec.E2(ctx, true, callrec.A(a0), callrec.VS(v))
}
func Sh_c_i_m_0(ctx context.Context, a0 int, v ...types.MalType) {
	callrec.E0(ctx, true, callrec.A(a0), callrec.VM(v))
}
func Sh_c_i_m_1(ctx context.Context, a0 int, v ...types.MalType) error {
	return callrec.E1(ctx, true, callrec.A(a0), callrec.VM(v))
}
func Sh_c_i_m_2(ctx context.Context, a0 int, v ...types.MalType) (types.MalType, error) {
	return callrec.E2(ctx, true, callrec.A(a0), callrec.VM(v))
}
func Sh_c_s_0_0(ctx context.Context, a0 string) { callrec.E0(ctx, true, callrec.A(a0), nil) }
func Sh_c_s_0_1(ctx context.Context, a0 string) error {
	return callrec.E1(ctx, true, callrec.A(a0), nil)
}
func Sh_c_s_0_2(ctx context.Context, a0 string) (types.MalType, error) {
	return callrec.E2(ctx, true, callrec.A(a0), nil)
}
func Sh_c_s_i_0(ctx context.Context, a0 string, v ...int) {
	callrec.E0(ctx, true, callrec.A(a0), callrec.VI(v))
}
func Sh_c_s_i_1(ctx context.Context, a0 string, v ...int) error {
	return callrec.E1(ctx, true, callrec.A(a0), callrec.VI(v))
}
func Sh_c_s_i_2(ctx context.Context, a0 string, v ...int) (types.MalType, error) {
	return callrec.E2(ctx, true, callrec.A(a0), callrec.VI(v))
}
func Sh_c_s_s_0(ctx context.Context, a0 string, v ...string) {
	callrec.E0(ctx, true, callrec.A(a0), callrec.VS(v))
}
func Sh_c_s_s_1(ctx context.Context, a0 string, v ...string) error {
	return callrec.E1(ctx, true, callrec.A(a0), callrec.VS(v))
}
func Sh_c_s_s_2(ctx context.Context, a0 string, v ...string) (types.MalType, error) {
	return callrec.E2(ctx, true, callrec.A(a0), callrec.VS(v))
}
func Sh_c_s_m_0(ctx context.Context, a0 string, v ...types.MalType) {
	callrec.E0(ctx, true, callrec.A(a0), callrec.VM(v))
}
func Sh_c_s_m_1(ctx context.Context, a0 string, v ...types.MalType) error {
	return callrec.E1(ctx, true, callrec.A(a0), callrec.VM(v))
}
func Sh_c_s_m_2(ctx context.Context, a0 string, v ...types.MalType) (types.MalType, error) {
	return callrec.E2(ctx, true, callrec.A(a0), callrec.VM(v))
}
func Sh_c_m_0_0(ctx context.Context, a0 types.MalType) { callrec.E0(ctx, true, callrec.A(a0), nil) }
func Sh_c_m_0_1(ctx context.Context, a0 types.MalType) error {
	return callrec.E1(ctx, true, callrec.A(a0), nil)
}
func Sh_c_m_0_2(ctx context.Context, a0 types.MalType) (types.MalType, error) {
	return callrec.E2(ctx, true, callrec.A(a0), nil)
}
func Sh_c_m_i_0(ctx context.Context, a0 types.MalType, v ...int) {
	callrec.E0(ctx, true, callrec.A(a0), callrec.VI(v))
}
func Sh_c_m_i_1(ctx context.Context, a0 types.MalType, v ...int) error {
	return callrec.E1(ctx, true, callrec.A(a0), callrec.VI(v))
}
func Sh_c_m_i_2(ctx context.Context, a0 types.MalType, v ...int) (types.MalType, error) {
	return callrec.E2(ctx, true, callrec.A(a0), callrec.VI(v))
}
func Sh_c_m_s_0(ctx context.Context, a0 types.MalType, v ...string) {
	callrec.E0(ctx, true, callrec.A(a0), callrec.VS(v))
}
func Sh_c_m_s_1(ctx context.Context, a0 types.MalType, v ...string) error {
	return callrec.E1(ctx, true, callrec.A(a0), callrec.VS(v))
}
func Sh_c_m_s_2(ctx context.Context, a0 types.MalType, v ...string) (types.MalType, error) {
	return callrec.E2(ctx, true, callrec.A(a0), callrec.VS(v))
}
func Sh_c_m_m_0(ctx context.Context, a0 types.MalType, v ...types.MalType) {
	callrec.E0(ctx, true, callrec.A(a0), callrec.VM(v))
}
func Sh_c_m_m_1(ctx context.Context, a0 types.MalType, v ...types.MalType) error {
	return callrec.E1(ctx, true, callrec.A(a0), callrec.VM(v))
}
func Sh_c_m_m_2(ctx context.Context, a0 types.MalType, v ...types.MalType) (types.MalType, error) {
	return callrec.E2(ctx, true, callrec.A(a0), callrec.VM(v))
}
func Sh_c_is_0_0(ctx context.Context, a0 int, a1 string) {
	callrec.E0(ctx, true, callrec.A(a0, a1), nil)
}
func Sh_c_is_0_1(ctx context.Context, a0 int, a1 string) error {
	return callrec.E1(ctx, true, callrec.A(a0, a1), nil)
}
func Sh_c_is_0_2(ctx context.Context, a0 int, a1 string) (types.MalType, error) {
	return callrec.E2(ctx, true, callrec.A(a0, a1), nil)
}
func Sh_c_is_i_0(ctx context.Context, a0 int, a1 string, v ...int) {
	callrec.E0(ctx, true, callrec.A(a0, a1), callrec.VI(v))
}
func Sh_c_is_i_1(ctx context.Context, a0 int, a1 string, v ...int) error {
	return callrec.E1(ctx, true, callrec.A(a0, a1), callrec.VI(v))
}
func Sh_c_is_i_2(ctx context.Context, a0 int, a1 string, v ...int) (types.MalType, error) {
	return callrec.E2(ctx, true, callrec.A(a0, a1), callrec.VI(v))
}
func Sh_c_is_s_0(ctx context.Context, a0 int, a1 string, v ...string) {
	callrec.E0(ctx, true, callrec.A(a0, a1), callrec.VS(v))
}
func Sh_c_is_s_1(ctx context.Context, a0 int, a1 string, v ...string) error {
	return callrec.E1(ctx, true, callrec.A(a0, a1), callrec.VS(v))
}
func Sh_c_is_s_2(ctx context.Context, a0 int, a1 string, v ...string) (types.MalType, error) {
	return callrec.E2(ctx, true, callrec.A(a0, a1), callrec.VS(v))
}
func Sh_c_is_m_0(ctx context.Context, a0 int, a1 string, v ...types.MalType) {
	callrec.E0(ctx, true, callrec.A(a0, a1), callrec.VM(v))
}
func Sh_c_is_m_1(ctx context.Context, a0 int, a1 string, v ...types.MalType) error {
	return callrec.E1(ctx, true, callrec.A(a0, a1), callrec.VM(v))
}
func Sh_c_is_m_2(ctx context.Context, a0 int, a1 string, v ...types.MalType) (types.MalType, error) {
	return callrec.E2(ctx, true, callrec.A(a0, a1), callrec.VM(v))
}
func Sh_c_mi_0_0(ctx context.Context, a0 types.MalType, a1 int) {
	callrec.E0(ctx, true, callrec.A(a0, a1), nil)
}
func Sh_c_mi_0_1(ctx context.Context, a0 types.MalType, a1 int) error {
	return callrec.E1(ctx, true, callrec.A(a0, a1), nil)
}
func Sh_c_mi_0_2(ctx context.Context, a0 types.MalType, a1 int) (types.MalType, error) {
	return callrec.E2(ctx, true, callrec.A(a0, a1), nil)
}
func Sh_c_mi_i_0(ctx context.Context, a0 types.MalType, a1 int, v ...int) {
	callrec.E0(ctx, true, callrec.A(a0, a1), callrec.VI(v))
}
func Sh_c_mi_i_1(ctx context.Context, a0 types.MalType, a1 int, v ...int) error {
	return callrec.E1(ctx, true, callrec.A(a0, a1), callrec.VI(v))
}
func Sh_c_mi_i_2(ctx context.Context, a0 types.MalType, a1 int, v ...int) (types.MalType, error) {
	return callrec.E2(ctx, true, callrec.A(a0, a1), callrec.VI(v))
}
func Sh_c_mi_s_0(ctx context.Context, a0 types.MalType, a1 int, v ...string) {
	callrec.E0(ctx, true, callrec.A(a0, a1), callrec.VS(v))
}
func Sh_c_mi_s_1(ctx context.Context, a0 types.MalType, a1 int, v ...string) error {
	return callrec.E1(ctx, true, callrec.A(a0, a1), callrec.VS(v))
}
func Sh_c_mi_s_2(ctx context.Context, a0 types.MalType, a1 int, v ...string) (types.MalType, error) {
	return callrec.E2(ctx, true, callrec.A(a0, a1), callrec.VS(v))
}
func Sh_c_mi_m_0(ctx context.Context, a0 types.MalType, a1 int, v ...types.MalType) {
	callrec.E0(ctx, true, callrec.A(a0, a1), callrec.VM(v))
}
func Sh_c_mi_m_1(ctx context.Context, a0 types.MalType, a1 int, v ...types.MalType) error {
	return callrec.E1(ctx, true, callrec.A(a0, a1), callrec.VM(v))
}
func Sh_c_mi_m_2(ctx context.Context, a0 types.MalType, a1 int, v ...types.MalType) (types.MalType, error) {
	return callrec.E2(ctx, true, callrec.A(a0, a1), callrec.VM(v))
}
func Sh_c_sm_0_0(ctx context.Context, a0 string, a1 types.MalType) {
	callrec.E0(ctx, true, callrec.A(a0, a1), nil)
}
func Sh_c_sm_0_1(ctx context.Context, a0 string, a1 types.MalType) error {
	return callrec.E1(ctx, true, callrec.A(a0, a1), nil)
}
func Sh_c_sm_0_2(ctx context.Context, a0 string, a1 types.MalType) (types.MalType, error) {
	return callrec.E2(ctx, true, callrec.A(a0, a1), nil)
}
func Sh_c_sm_i_0(ctx context.Context, a0 string, a1 types.MalType, v ...int) {
	callrec.E0(ctx, true, callrec.A(a0, a1), callrec.VI(v))
}
func Sh_c_sm_i_1(ctx context.Context, a0 string, a1 types.MalType, v ...int) error {
	return callrec.E1(ctx, true, callrec.A(a0, a1), callrec.VI(v))
}
func Sh_c_sm_i_2(ctx context.Context, a0 string, a1 types.MalType, v ...int) (types.MalType, error) {
	return callrec.E2(ctx, true, callrec.A(a0, a1), callrec.VI(v))
}
func Sh_c_sm_s_0(ctx context.Context, a0 string, a1 types.MalType, v ...string) {
	callrec.E0(ctx, true, callrec.A(a0, a1), callrec.VS(v))
}
func Sh_c_sm_s_1(ctx context.Context, a0 string, a1 types.MalType, v ...string) error {
	return callrec.E1(ctx, true, callrec.A(a0, a1), callrec.VS(v))
}
func Sh_c_sm_s_2(ctx context.Context, a0 string, a1 types.MalType, v ...string) (types.MalType, error) {
	return callrec.E2(ctx, true, callrec.A(a0, a1), callrec.VS(v))
}
func Sh_c_sm_m_0(ctx context.Context, a0 string, a1 types.MalType, v ...types.MalType) {
	callrec.E0(ctx, true, callrec.A(a0, a1), callrec.VM(v))
}
func Sh_c_sm_m_1(ctx context.Context, a0 string, a1 types.MalType, v ...types.MalType) error {
	return callrec.E1(ctx, true, callrec.A(a0, a1), callrec.VM(v))
}
func Sh_c_sm_m_2(ctx context.Context, a0 string, a1 types.MalType, v ...types.MalType) (types.MalType, error) {
	return callrec.E2(ctx, true, callrec.A(a0, a1), callrec.VM(v))
}
func Sh_c_ism_0_0(ctx context.Context, a0 int, a1 string, a2 types.MalType) {
	callrec.E0(ctx, true, callrec.A(a0, a1, a2), nil)
}
func Sh_c_ism_0_1(ctx context.Context, a0 int, a1 string, a2 types.MalType) error {
	return callrec.E1(ctx, true, callrec.A(a0, a1, a2), nil)
}
func Sh_c_ism_0_2(ctx context.Context, a0 int, a1 string, a2 types.MalType) (types.MalType, error) {
	return callrec.E2(ctx, true, callrec.A(a0, a1, a2), nil)
}
func Sh_c_ism_i_0(ctx context.Context, a0 int, a1 string, a2 types.MalType, v ...int) {
	callrec.E0(ctx, true, callrec.A(a0, a1, a2), callrec.VI(v))
}
func Sh_c_ism_i_1(ctx context.Context, a0 int, a1 string, a2 types.MalType, v ...int) error {
	return callrec.E1(ctx, true, callrec.A(a0, a1, a2), callrec.VI(v))
}
func Sh_c_ism_i_2(ctx context.Context, a0 int, a1 string, a2 types.MalType, v ...int) (types.MalType, error) {
	return callrec.E2(ctx, true, callrec.A(a0, a1, a2), callrec.VI(v))
}
func Sh_c_ism_s_0(ctx context.Context, a0 int, a1 string, a2 types.MalType, v ...string) {
	callrec.E0(ctx, true, callrec.A(a0, a1, a2), callrec.VS(v))
}
func Sh_c_ism_s_1(ctx context.Context, a0 int, a1 string, a2 types.MalType, v ...string) error {
	return callrec.E1(ctx, true, callrec.A(a0, a1, a2), callrec.VS(v))
}
func Sh_c_ism_s_2(ctx context.Context, a0 int, a1 string, a2 types.MalType, v ...string) (types.MalType, error) {
	return callrec.E2(ctx, true, callrec.A(a0, a1, a2), callrec.VS(v))
}
func Sh_c_ism_m_0(ctx context.Context, a0 int, a1 string, a2 types.MalType, v ...types.MalType) {
	callrec.E0(ctx, true, callrec.A(a0, a1, a2), callrec.VM(v))
}
func Sh_c_ism_m_1(ctx context.Context, a0 int, a1 string, a2 types.MalType, v ...types.MalType) error {
	return callrec.E1(ctx, true, callrec.A(a0, a1, a2), callrec.VM(v))
}
func Sh_c_ism_m_2(ctx context.Context, a0 int, a1 string, a2 types.MalType, v ...types.MalType) (types.MalType, error) {
	return callrec.E2(ctx, true, callrec.A(a0, a1, a2), callrec.VM(v))
}
func Sh_c_mms_0_0(ctx context.Context, a0 types.MalType, a1 types.MalType, a2 string) {
	callrec.E0(ctx, true, callrec.A(a0, a1, a2), nil)
}
func Sh_c_mms_0_1(ctx context.Context, a0 types.MalType, a1 types.MalType, a2 string) error {
	return callrec.E1(ctx, true, callrec.A(a0, a1, a2), nil)
}
func Sh_c_mms_0_2(ctx context.Context, a0 types.MalType, a1 types.MalType, a2 string) (types.MalType, error) {
	return callrec.E2(ctx, true, callrec.A(a0, a1, a2), nil)
}
func Sh_c_mms_i_0(ctx context.Context, a0 types.MalType, a1 types.MalType, a2 string, v ...int) {
	callrec.E0(ctx, true, callrec.A(a0, a1, a2), callrec.VI(v))
}
func Sh_c_mms_i_1(ctx context.Context, a0 types.MalType, a1 types.MalType, a2 string, v ...int) error {
	return callrec.E1(ctx, true, callrec.A(a0, a1, a2), callrec.VI(v))
}
func Sh_c_mms_i_2(ctx context.Context, a0 types.MalType, a1 types.MalType, a2 string, v ...int) (types.MalType, error) {
	return callrec.E2(ctx, true, callrec.A(a0, a1, a2), callrec.VI(v))
}
func Sh_c_mms_s_0(ctx context.Context, a0 types.MalType, a1 types.MalType, a2 string, v ...string) {
	callrec.E0(ctx, true, callrec.A(a0, a1, a2), callrec.VS(v))
}
func Sh_c_mms_s_1(ctx context.Context, a0 types.MalType, a1 types.MalType, a2 string, v ...string) error {
	return callrec.E1(ctx, true, callrec.A(a0, a1, a2), callrec.VS(v))
}
func Sh_c_mms_s_2(ctx context.Context, a0 types.MalType, a1 types.MalType, a2 string, v ...string) (types.MalType, error) {
	return callrec.E2(ctx, true, callrec.A(a0, a1, a2), callrec.VS(v))
}
func Sh_c_mms_m_0(ctx context.Context, a0 types.MalType, a1 types.MalType, a2 string, v ...types.MalType) {
	callrec.E0(ctx, true, callrec.A(a0, a1, a2), callrec.VM(v))
}
func Sh_c_mms_m_1(ctx context.Context, a0 types.MalType, a1 types.MalType, a2 string, v ...types.MalType) error {
	return callrec.E1(ctx, true, callrec.A(a0, a1, a2), callrec.VM(v))
}
func Sh_c_mms_m_2(ctx context.Context, a0 types.MalType, a1 types.MalType, a2 string, v ...types.MalType) (types.MalType, error) {
	return callrec.E2(ctx, true, callrec.A(a0, a1, a2), callrec.VM(v))
}
func Sh_n_0_0_0()                        { callrec.E0(nil, false, callrec.A(), nil) }
func Sh_n_0_0_1() error                  { return callrec.E1(nil, false, callrec.A(), nil) }
func Sh_n_0_0_2() (types.MalType, error) { return callrec.E2(nil, false, callrec.A(), nil) }
func Sh_n_0_i_0(v ...int)                { callrec.E0(nil, false, callrec.A(), callrec.VI(v)) }
func Sh_n_0_i_1(v ...int) error          { return callrec.E1(nil, false, callrec.A(), callrec.VI(v)) }
func Sh_n_0_i_2(v ...int) (types.MalType, error) {
	return callrec.E2(nil, false, callrec.A(), callrec.VI(v))
}
func Sh_n_0_s_0(v ...string)       { callrec.E0(nil, false, callrec.A(), callrec.VS(v)) }
func Sh_n_0_s_1(v ...string) error { return callrec.E1(nil, false, callrec.A(), callrec.VS(v)) }
func Sh_n_0_s_2(v ...string) (types.MalType, error) {
	return callrec.E2(nil, false, callrec.A(), callrec.VS(v))
}
func Sh_n_0_m_0(v ...types.MalType)       { callrec.E0(nil, false, callrec.A(), callrec.VM(v)) }
func Sh_n_0_m_1(v ...types.MalType) error { return callrec.E1(nil, false, callrec.A(), callrec.VM(v)) }
func Sh_n_0_m_2(v ...types.MalType) (types.MalType, error) {
	return callrec.E2(nil, false, callrec.A(), callrec.VM(v))
}
func Sh_n_i_0_0(a0 int)                        { callrec.E0(nil, false, callrec.A(a0), nil) }
func Sh_n_i_0_1(a0 int) error                  { return callrec.E1(nil, false, callrec.A(a0), nil) }
func Sh_n_i_0_2(a0 int) (types.MalType, error) { return callrec.E2(nil, false, callrec.A(a0), nil) }
func Sh_n_i_i_0(a0 int, v ...int)              { callrec.E0(nil, false, callrec.A(a0), callrec.VI(v)) }
func Sh_n_i_i_1(a0 int, v ...int) error        { return callrec.E1(nil, false, callrec.A(a0), callrec.VI(v)) }
func Sh_n_i_i_2(a0 int, v ...int) (types.MalType, error) {
	return callrec.E2(nil, false, callrec.A(a0), callrec.VI(v))
}
func Sh_n_i_s_0(a0 int, v ...string) { callrec.E0(nil, false, callrec.A(a0), callrec.VS(v)) }
func Sh_n_i_s_1(a0 int, v ...string) error {
	return callrec.E1(nil, false, callrec.A(a0), callrec.VS(v))
}
func Sh_n_i_s_2(a0 int, v ...string) (types.MalType, error) {
	return callrec.E2(nil, false, callrec.A(a0), callrec.VS(v))
}
func Sh_n_i_m_0(a0 int, v ...types.MalType) { callrec.E0(nil, false, callrec.A(a0), callrec.VM(v)) }
func Sh_n_i_m_1(a0 int, v ...types.MalType) error {
	return callrec.E1(nil, false, callrec.A(a0), callrec.VM(v))
}
func Sh_n_i_m_2(a0 int, v ...types.MalType) (types.MalType, error) {
	return callrec.E2(nil, false, callrec.A(a0), callrec.VM(v))
}
func Sh_n_s_0_0(a0 string)                        { callrec.E0(nil, false, callrec.A(a0), nil) }
func Sh_n_s_0_1(a0 string) error                  { return callrec.E1(nil, false, callrec.A(a0), nil) }
func Sh_n_s_0_2(a0 string) (types.MalType, error) { return callrec.E2(nil, false, callrec.A(a0), nil) }
func Sh_n_s_i_0(a0 string, v ...int)              { callrec.E0(nil, false, callrec.A(a0), callrec.VI(v)) }
func Sh_n_s_i_1(a0 string, v ...int) error {
	return callrec.E1(nil, false, callrec.A(a0), callrec.VI(v))
}
func Sh_n_s_i_2(a0 string, v ...int) (types.MalType, error) {
	return callrec.E2(nil, false, callrec.A(a0), callrec.VI(v))
}
func Sh_n_s_s_0(a0 string, v ...string) { callrec.E0(nil, false, callrec.A(a0), callrec.VS(v)) }
func Sh_n_s_s_1(a0 string, v ...string) error {
	return callrec.E1(nil, false, callrec.A(a0), callrec.VS(v))
}
func Sh_n_s_s_2(a0 string, v ...string) (types.MalType, error) {
	return callrec.E2(nil, false, callrec.A(a0), callrec.VS(v))
}
func Sh_n_s_m_0(a0 string, v ...types.MalType) { callrec.E0(nil, false, callrec.A(a0), callrec.VM(v)) }
func Sh_n_s_m_1(a0 string, v ...types.MalType) error {
	return callrec.E1(nil, false, callrec.A(a0), callrec.VM(v))
}
func Sh_n_s_m_2(a0 string, v ...types.MalType) (types.MalType, error) {
	return callrec.E2(nil, false, callrec.A(a0), callrec.VM(v))
}
func Sh_n_m_0_0(a0 types.MalType)       { callrec.E0(nil, false, callrec.A(a0), nil) }
func Sh_n_m_0_1(a0 types.MalType) error { return callrec.E1(nil, false, callrec.A(a0), nil) }
func Sh_n_m_0_2(a0 types.MalType) (types.MalType, error) {
	return callrec.E2(nil, false, callrec.A(a0), nil)
}
func Sh_n_m_i_0(a0 types.MalType, v ...int) { callrec.E0(nil, false, callrec.A(a0), callrec.VI(v)) }
func Sh_n_m_i_1(a0 types.MalType, v ...int) error {
	return callrec.E1(nil, false, callrec.A(a0), callrec.VI(v))
}
func Sh_n_m_i_2(a0 types.MalType, v ...int) (types.MalType, error) {
	return callrec.E2(nil, false, callrec.A(a0), callrec.VI(v))
}
func Sh_n_m_s_0(a0 types.MalType, v ...string) { callrec.E0(nil, false, callrec.A(a0), callrec.VS(v)) }
func Sh_n_m_s_1(a0 types.MalType, v ...string) error {
	return callrec.E1(nil, false, callrec.A(a0), callrec.VS(v))
}
func Sh_n_m_s_2(a0 types.MalType, v ...string) (types.MalType, error) {
	return callrec.E2(nil, false, callrec.A(a0), callrec.VS(v))
}
func Sh_n_m_m_0(a0 types.MalType, v ...types.MalType) {
	callrec.E0(nil, false, callrec.A(a0), callrec.VM(v))
}
func Sh_n_m_m_1(a0 types.MalType, v ...types.MalType) error {
	return callrec.E1(nil, false, callrec.A(a0), callrec.VM(v))
}
func Sh_n_m_m_2(a0 types.MalType, v ...types.MalType) (types.MalType, error) {
	return callrec.E2(nil, false, callrec.A(a0), callrec.VM(v))
}
func Sh_n_is_0_0(a0 int, a1 string)       { callrec.E0(nil, false, callrec.A(a0, a1), nil) }
func Sh_n_is_0_1(a0 int, a1 string) error { return callrec.E1(nil, false, callrec.A(a0, a1), nil) }
func Sh_n_is_0_2(a0 int, a1 string) (types.MalType, error) {
	return callrec.E2(nil, false, callrec.A(a0, a1), nil)
}
func Sh_n_is_i_0(a0 int, a1 string, v ...int) {
	callrec.E0(nil, false, callrec.A(a0, a1), callrec.VI(v))
}
func Sh_n_is_i_1(a0 int, a1 string, v ...int) error {
	return callrec.E1(nil, false, callrec.A(a0, a1), callrec.VI(v))
}
func Sh_n_is_i_2(a0 int, a1 string, v ...int) (types.MalType, error) {
	return callrec.E2(nil, false, callrec.A(a0, a1), callrec.VI(v))
}
func Sh_n_is_s_0(a0 int, a1 string, v ...string) {
	callrec.E0(nil, false, callrec.A(a0, a1), callrec.VS(v))
}
func Sh_n_is_s_1(a0 int, a1 string, v ...string) error {
	return callrec.E1(nil, false, callrec.A(a0, a1), callrec.VS(v))
}
func Sh_n_is_s_2(a0 int, a1 string, v ...string) (types.MalType, error) {
	return callrec.E2(nil, false, callrec.A(a0, a1), callrec.VS(v))
}
func Sh_n_is_m_0(a0 int, a1 string, v ...types.MalType) {
	callrec.E0(nil, false, callrec.A(a0, a1), callrec.VM(v))
}
func Sh_n_is_m_1(a0 int, a1 string, v ...types.MalType) error {
	return callrec.E1(nil, false, callrec.A(a0, a1), callrec.VM(v))
}
func Sh_n_is_m_2(a0 int, a1 string, v ...types.MalType) (types.MalType, error) {
	return callrec.E2(nil, false, callrec.A(a0, a1), callrec.VM(v))
}
func Sh_n_mi_0_0(a0 types.MalType, a1 int) { callrec.E0(nil, false, callrec.A(a0, a1), nil) }
func Sh_n_mi_0_1(a0 types.MalType, a1 int) error {
	return callrec.E1(nil, false, callrec.A(a0, a1), nil)
}
func Sh_n_mi_0_2(a0 types.MalType, a1 int) (types.MalType, error) {
	return callrec.E2(nil, false, callrec.A(a0, a1), nil)
}
func Sh_n_mi_i_0(a0 types.MalType, a1 int, v ...int) {
	callrec.E0(nil, false, callrec.A(a0, a1), callrec.VI(v))
}
func Sh_n_mi_i_1(a0 types.MalType, a1 int, v ...int) error {
	return callrec.E1(nil, false, callrec.A(a0, a1), callrec.VI(v))
}
func Sh_n_mi_i_2(a0 types.MalType, a1 int, v ...int) (types.MalType, error) {
	return callrec.E2(nil, false, callrec.A(a0, a1), callrec.VI(v))
}
func Sh_n_mi_s_0(a0 types.MalType, a1 int, v ...string) {
	callrec.E0(nil, false, callrec.A(a0, a1), callrec.VS(v))
}
func Sh_n_mi_s_1(a0 types.MalType, a1 int, v ...string) error {
	return callrec.E1(nil, false, callrec.A(a0, a1), callrec.VS(v))
}
func Sh_n_mi_s_2(a0 types.MalType, a1 int, v ...string) (types.MalType, error) {
	return callrec.E2(nil, false, callrec.A(a0, a1), callrec.VS(v))
}
func Sh_n_mi_m_0(a0 types.MalType, a1 int, v ...types.MalType) {
	callrec.E0(nil, false, callrec.A(a0, a1), callrec.VM(v))
}
func Sh_n_mi_m_1(a0 types.MalType, a1 int, v ...types.MalType) error {
	return callrec.E1(nil, false, callrec.A(a0, a1), callrec.VM(v))
}
func Sh_n_mi_m_2(a0 types.MalType, a1 int, v ...types.MalType) (types.MalType, error) {
	return callrec.E2(nil, false, callrec.A(a0, a1), callrec.VM(v))
}
func Sh_n_sm_0_0(a0 string, a1 types.MalType) { callrec.E0(nil, false, callrec.A(a0, a1), nil) }
func Sh_n_sm_0_1(a0 string, a1 types.MalType) error {
	return callrec.E1(nil, false, callrec.A(a0, a1), nil)
}
func Sh_n_sm_0_2(a0 string, a1 types.MalType) (types.MalType, error) {
	return callrec.E2(nil, false, callrec.A(a0, a1), nil)
}
func Sh_n_sm_i_0(a0 string, a1 types.MalType, v ...int) {
	callrec.E0(nil, false, callrec.A(a0, a1), callrec.VI(v))
}
func Sh_n_sm_i_1(a0 string, a1 types.MalType, v ...int) error {
	return callrec.E1(nil, false, callrec.A(a0, a1), callrec.VI(v))
}
func Sh_n_sm_i_2(a0 string, a1 types.MalType, v ...int) (types.MalType, error) {
	return callrec.E2(nil, false, callrec.A(a0, a1), callrec.VI(v))
}
func Sh_n_sm_s_0(a0 string, a1 types.MalType, v ...string) {
	callrec.E0(nil, false, callrec.A(a0, a1), callrec.VS(v))
}
func Sh_n_sm_s_1(a0 string, a1 types.MalType, v ...string) error {
	return callrec.E1(nil, false, callrec.A(a0, a1), callrec.VS(v))
}
func Sh_n_sm_s_2(a0 string, a1 types.MalType, v ...string) (types.MalType, error) {
	return callrec.E2(nil, false, callrec.A(a0, a1), callrec.VS(v))
}
func Sh_n_sm_m_0(a0 string, a1 types.MalType, v ...types.MalType) {
	callrec.E0(nil, false, callrec.A(a0, a1), callrec.VM(v))
}
func Sh_n_sm_m_1(a0 string, a1 types.MalType, v ...types.MalType) error {
	return callrec.E1(nil, false, callrec.A(a0, a1), callrec.VM(v))
}
func Sh_n_sm_m_2(a0 string, a1 types.MalType, v ...types.MalType) (types.MalType, error) {
	return callrec.E2(nil, false, callrec.A(a0, a1), callrec.VM(v))
}
func Sh_n_ism_0_0(a0 int, a1 string, a2 types.MalType) {
	callrec.E0(nil, false, callrec.A(a0, a1, a2), nil)
}
func Sh_n_ism_0_1(a0 int, a1 string, a2 types.MalType) error {
	return callrec.E1(nil, false, callrec.A(a0, a1, a2), nil)
}
func Sh_n_ism_0_2(a0 int, a1 string, a2 types.MalType) (types.MalType, error) {
	return callrec.E2(nil, false, callrec.A(a0, a1, a2), nil)
}
func Sh_n_ism_i_0(a0 int, a1 string, a2 types.MalType, v ...int) {
	callrec.E0(nil, false, callrec.A(a0, a1, a2), callrec.VI(v))
}
func Sh_n_ism_i_1(a0 int, a1 string, a2 types.MalType, v ...int) error {
	return callrec.E1(nil, false, callrec.A(a0, a1, a2), callrec.VI(v))
}
func Sh_n_ism_i_2(a0 int, a1 string, a2 types.MalType, v ...int) (types.MalType, error) {
	return callrec.E2(nil, false, callrec.A(a0, a1, a2), callrec.VI(v))
}
func Sh_n_ism_s_0(a0 int, a1 string, a2 types.MalType, v ...string) {
	callrec.E0(nil, false, callrec.A(a0, a1, a2), callrec.VS(v))
}
func Sh_n_ism_s_1(a0 int, a1 string, a2 types.MalType, v ...string) error {
	return callrec.E1(nil, false, callrec.A(a0, a1, a2), callrec.VS(v))
}
func Sh_n_ism_s_2(a0 int, a1 string, a2 types.MalType, v ...string) (types.MalType, error) {
	return callrec.E2(nil, false, callrec.A(a0, a1, a2), callrec.VS(v))
}
func Sh_n_ism_m_0(a0 int, a1 string, a2 types.MalType, v ...types.MalType) {
	callrec.E0(nil, false, callrec.A(a0, a1, a2), callrec.VM(v))
}
func Sh_n_ism_m_1(a0 int, a1 string, a2 types.MalType, v ...types.MalType) error {
	return callrec.E1(nil, false, callrec.A(a0, a1, a2), callrec.VM(v))
}
func Sh_n_ism_m_2(a0 int, a1 string, a2 types.MalType, v ...types.MalType) (types.MalType, error) {
	return callrec.E2(nil, false, callrec.A(a0, a1, a2), callrec.VM(v))
}
func Sh_n_mms_0_0(a0 types.MalType, a1 types.MalType, a2 string) {
	callrec.E0(nil, false, callrec.A(a0, a1, a2), nil)
}
func Sh_n_mms_0_1(a0 types.MalType, a1 types.MalType, a2 string) error {
	return callrec.E1(nil, false, callrec.A(a0, a1, a2), nil)
}
func Sh_n_mms_0_2(a0 types.MalType, a1 types.MalType, a2 string) (types.MalType, error) {
	return callrec.E2(nil, false, callrec.A(a0, a1, a2), nil)
}
func Sh_n_mms_i_0(a0 types.MalType, a1 types.MalType, a2 string, v ...int) {
	callrec.E0(nil, false, callrec.A(a0, a1, a2), callrec.VI(v))
}
func Sh_n_mms_i_1(a0 types.MalType, a1 types.MalType, a2 string, v ...int) error {
	return callrec.E1(nil, false, callrec.A(a0, a1, a2), callrec.VI(v))
}
func Sh_n_mms_i_2(a0 types.MalType, a1 types.MalType, a2 string, v ...int) (types.MalType, error) {
	return callrec.E2(nil, false, callrec.A(a0, a1, a2), callrec.VI(v))
}
func Sh_n_mms_s_0(a0 types.MalType, a1 types.MalType, a2 string, v ...string) {
	callrec.E0(nil, false, callrec.A(a0, a1, a2), callrec.VS(v))
}
func Sh_n_mms_s_1(a0 types.MalType, a1 types.MalType, a2 string, v ...string) error {
	return callrec.E1(nil, false, callrec.A(a0, a1, a2), callrec.VS(v))
}
func Sh_n_mms_s_2(a0 types.MalType, a1 types.MalType, a2 string, v ...string) (types.MalType, error) {
	return callrec.E2(nil, false, callrec.A(a0, a1, a2), callrec.VS(v))
}
func Sh_n_mms_m_0(a0 types.MalType, a1 types.MalType, a2 string, v ...types.MalType) {
	callrec.E0(nil, false, callrec.A(a0, a1, a2), callrec.VM(v))
}
func Sh_n_mms_m_1(a0 types.MalType, a1 types.MalType, a2 string, v ...types.MalType) error {
	return callrec.E1(nil, false, callrec.A(a0, a1, a2), callrec.VM(v))
}
func Sh_n_mms_m_2(a0 types.MalType, a1 types.MalType, a2 string, v ...types.MalType) (types.MalType, error) {
	return callrec.E2(nil, false, callrec.A(a0, a1, a2), callrec.VM(v))
}
func Name_With_Caps(a0 int) error { return callrec.E1(nil, false, callrec.A(a0), nil) }
func UPPER_CASE(v ...types.MalType) (types.MalType, error) {
	return callrec.E2(nil, false, callrec.A(), callrec.VM(v))
}
func Err_typed_value(a0 types.MalType) (error, error) {
	v, err := callrec.E2(nil, false, callrec.A(a0), nil)
	return callrec.ValErr{V: v}, err
}
func lower(ctx context.Context) { callrec.E0(ctx, true, callrec.A(), nil) }
func MixedCase123_(a0 types.MalType) (types.MalType, error) {
	return callrec.E2(nil, false, callrec.A(a0), nil)
}
func X(ctx context.Context, a0 string, v ...int) (types.MalType, error) {
	return callrec.E2(ctx, true, callrec.A(a0), callrec.VI(v))
}

// Named: the functions above by shape key (<shape>:<identifier> for the extra spellings).
var Named = map[string]types.MalType{
	"c_0_0_0":                 Sh_c_0_0_0,
	"c_0_0_1":                 Sh_c_0_0_1,
	"c_0_0_2":                 Sh_c_0_0_2,
	"c_0_i_0":                 Sh_c_0_i_0,
	"c_0_i_1":                 Sh_c_0_i_1,
	"c_0_i_2":                 Sh_c_0_i_2,
	"c_0_s_0":                 Sh_c_0_s_0,
	"c_0_s_1":                 Sh_c_0_s_1,
	"c_0_s_2":                 Sh_c_0_s_2,
	"c_0_m_0":                 Sh_c_0_m_0,
	"c_0_m_1":                 Sh_c_0_m_1,
	"c_0_m_2":                 Sh_c_0_m_2,
	"c_i_0_0":                 Sh_c_i_0_0,
	"c_i_0_1":                 Sh_c_i_0_1,
	"c_i_0_2":                 Sh_c_i_0_2,
	"c_i_i_0":                 Sh_c_i_i_0,
	"c_i_i_1":                 Sh_c_i_i_1,
	"c_i_i_2":                 Sh_c_i_i_2,
	"c_i_s_0":                 Sh_c_i_s_0,
	"c_i_s_1":                 Sh_c_i_s_1,
	"c_i_s_2":                 Sh_c_i_s_2,
	"c_i_m_0":                 Sh_c_i_m_0,
	"c_i_m_1":                 Sh_c_i_m_1,
	"c_i_m_2":                 Sh_c_i_m_2,
	"c_s_0_0":                 Sh_c_s_0_0,
	"c_s_0_1":                 Sh_c_s_0_1,
	"c_s_0_2":                 Sh_c_s_0_2,
	"c_s_i_0":                 Sh_c_s_i_0,
	"c_s_i_1":                 Sh_c_s_i_1,
	"c_s_i_2":                 Sh_c_s_i_2,
	"c_s_s_0":                 Sh_c_s_s_0,
	"c_s_s_1":                 Sh_c_s_s_1,
	"c_s_s_2":                 Sh_c_s_s_2,
	"c_s_m_0":                 Sh_c_s_m_0,
	"c_s_m_1":                 Sh_c_s_m_1,
	"c_s_m_2":                 Sh_c_s_m_2,
	"c_m_0_0":                 Sh_c_m_0_0,
	"c_m_0_1":                 Sh_c_m_0_1,
	"c_m_0_2":                 Sh_c_m_0_2,
	"c_m_i_0":                 Sh_c_m_i_0,
	"c_m_i_1":                 Sh_c_m_i_1,
	"c_m_i_2":                 Sh_c_m_i_2,
	"c_m_s_0":                 Sh_c_m_s_0,
	"c_m_s_1":                 Sh_c_m_s_1,
	"c_m_s_2":                 Sh_c_m_s_2,
	"c_m_m_0":                 Sh_c_m_m_0,
	"c_m_m_1":                 Sh_c_m_m_1,
	"c_m_m_2":                 Sh_c_m_m_2,
	"c_is_0_0":                Sh_c_is_0_0,
	"c_is_0_1":                Sh_c_is_0_1,
	"c_is_0_2":                Sh_c_is_0_2,
	"c_is_i_0":                Sh_c_is_i_0,
	"c_is_i_1":                Sh_c_is_i_1,
	"c_is_i_2":                Sh_c_is_i_2,
	"c_is_s_0":                Sh_c_is_s_0,
	"c_is_s_1":                Sh_c_is_s_1,
	"c_is_s_2":                Sh_c_is_s_2,
	"c_is_m_0":                Sh_c_is_m_0,
	"c_is_m_1":                Sh_c_is_m_1,
	"c_is_m_2":                Sh_c_is_m_2,
	"c_mi_0_0":                Sh_c_mi_0_0,
	"c_mi_0_1":                Sh_c_mi_0_1,
	"c_mi_0_2":                Sh_c_mi_0_2,
	"c_mi_i_0":                Sh_c_mi_i_0,
	"c_mi_i_1":                Sh_c_mi_i_1,
	"c_mi_i_2":                Sh_c_mi_i_2,
	"c_mi_s_0":                Sh_c_mi_s_0,
	"c_mi_s_1":                Sh_c_mi_s_1,
	"c_mi_s_2":                Sh_c_mi_s_2,
	"c_mi_m_0":                Sh_c_mi_m_0,
	"c_mi_m_1":                Sh_c_mi_m_1,
	"c_mi_m_2":                Sh_c_mi_m_2,
	"c_sm_0_0":                Sh_c_sm_0_0,
	"c_sm_0_1":                Sh_c_sm_0_1,
	"c_sm_0_2":                Sh_c_sm_0_2,
	"c_sm_i_0":                Sh_c_sm_i_0,
	"c_sm_i_1":                Sh_c_sm_i_1,
	"c_sm_i_2":                Sh_c_sm_i_2,
	"c_sm_s_0":                Sh_c_sm_s_0,
	"c_sm_s_1":                Sh_c_sm_s_1,
	"c_sm_s_2":                Sh_c_sm_s_2,
	"c_sm_m_0":                Sh_c_sm_m_0,
	"c_sm_m_1":                Sh_c_sm_m_1,
	"c_sm_m_2":                Sh_c_sm_m_2,
	"c_ism_0_0":               Sh_c_ism_0_0,
	"c_ism_0_1":               Sh_c_ism_0_1,
	"c_ism_0_2":               Sh_c_ism_0_2,
	"c_ism_i_0":               Sh_c_ism_i_0,
	"c_ism_i_1":               Sh_c_ism_i_1,
	"c_ism_i_2":               Sh_c_ism_i_2,
	"c_ism_s_0":               Sh_c_ism_s_0,
	"c_ism_s_1":               Sh_c_ism_s_1,
	"c_ism_s_2":               Sh_c_ism_s_2,
	"c_ism_m_0":               Sh_c_ism_m_0,
	"c_ism_m_1":               Sh_c_ism_m_1,
	"c_ism_m_2":               Sh_c_ism_m_2,
	"c_mms_0_0":               Sh_c_mms_0_0,
	"c_mms_0_1":               Sh_c_mms_0_1,
	"c_mms_0_2":               Sh_c_mms_0_2,
	"c_mms_i_0":               Sh_c_mms_i_0,
	"c_mms_i_1":               Sh_c_mms_i_1,
	"c_mms_i_2":               Sh_c_mms_i_2,
	"c_mms_s_0":               Sh_c_mms_s_0,
	"c_mms_s_1":               Sh_c_mms_s_1,
	"c_mms_s_2":               Sh_c_mms_s_2,
	"c_mms_m_0":               Sh_c_mms_m_0,
	"c_mms_m_1":               Sh_c_mms_m_1,
	"c_mms_m_2":               Sh_c_mms_m_2,
	"n_0_0_0":                 Sh_n_0_0_0,
	"n_0_0_1":                 Sh_n_0_0_1,
	"n_0_0_2":                 Sh_n_0_0_2,
	"n_0_i_0":                 Sh_n_0_i_0,
	"n_0_i_1":                 Sh_n_0_i_1,
	"n_0_i_2":                 Sh_n_0_i_2,
	"n_0_s_0":                 Sh_n_0_s_0,
	"n_0_s_1":                 Sh_n_0_s_1,
	"n_0_s_2":                 Sh_n_0_s_2,
	"n_0_m_0":                 Sh_n_0_m_0,
	"n_0_m_1":                 Sh_n_0_m_1,
	"n_0_m_2":                 Sh_n_0_m_2,
	"n_i_0_0":                 Sh_n_i_0_0,
	"n_i_0_1":                 Sh_n_i_0_1,
	"n_i_0_2":                 Sh_n_i_0_2,
	"n_i_i_0":                 Sh_n_i_i_0,
	"n_i_i_1":                 Sh_n_i_i_1,
	"n_i_i_2":                 Sh_n_i_i_2,
	"n_i_s_0":                 Sh_n_i_s_0,
	"n_i_s_1":                 Sh_n_i_s_1,
	"n_i_s_2":                 Sh_n_i_s_2,
	"n_i_m_0":                 Sh_n_i_m_0,
	"n_i_m_1":                 Sh_n_i_m_1,
	"n_i_m_2":                 Sh_n_i_m_2,
	"n_s_0_0":                 Sh_n_s_0_0,
	"n_s_0_1":                 Sh_n_s_0_1,
	"n_s_0_2":                 Sh_n_s_0_2,
	"n_s_i_0":                 Sh_n_s_i_0,
	"n_s_i_1":                 Sh_n_s_i_1,
	"n_s_i_2":                 Sh_n_s_i_2,
	"n_s_s_0":                 Sh_n_s_s_0,
	"n_s_s_1":                 Sh_n_s_s_1,
	"n_s_s_2":                 Sh_n_s_s_2,
	"n_s_m_0":                 Sh_n_s_m_0,
	"n_s_m_1":                 Sh_n_s_m_1,
	"n_s_m_2":                 Sh_n_s_m_2,
	"n_m_0_0":                 Sh_n_m_0_0,
	"n_m_0_1":                 Sh_n_m_0_1,
	"n_m_0_2":                 Sh_n_m_0_2,
	"n_m_i_0":                 Sh_n_m_i_0,
	"n_m_i_1":                 Sh_n_m_i_1,
	"n_m_i_2":                 Sh_n_m_i_2,
	"n_m_s_0":                 Sh_n_m_s_0,
	"n_m_s_1":                 Sh_n_m_s_1,
	"n_m_s_2":                 Sh_n_m_s_2,
	"n_m_m_0":                 Sh_n_m_m_0,
	"n_m_m_1":                 Sh_n_m_m_1,
	"n_m_m_2":                 Sh_n_m_m_2,
	"n_is_0_0":                Sh_n_is_0_0,
	"n_is_0_1":                Sh_n_is_0_1,
	"n_is_0_2":                Sh_n_is_0_2,
	"n_is_i_0":                Sh_n_is_i_0,
	"n_is_i_1":                Sh_n_is_i_1,
	"n_is_i_2":                Sh_n_is_i_2,
	"n_is_s_0":                Sh_n_is_s_0,
	"n_is_s_1":                Sh_n_is_s_1,
	"n_is_s_2":                Sh_n_is_s_2,
	"n_is_m_0":                Sh_n_is_m_0,
	"n_is_m_1":                Sh_n_is_m_1,
	"n_is_m_2":                Sh_n_is_m_2,
	"n_mi_0_0":                Sh_n_mi_0_0,
	"n_mi_0_1":                Sh_n_mi_0_1,
	"n_mi_0_2":                Sh_n_mi_0_2,
	"n_mi_i_0":                Sh_n_mi_i_0,
	"n_mi_i_1":                Sh_n_mi_i_1,
	"n_mi_i_2":                Sh_n_mi_i_2,
	"n_mi_s_0":                Sh_n_mi_s_0,
	"n_mi_s_1":                Sh_n_mi_s_1,
	"n_mi_s_2":                Sh_n_mi_s_2,
	"n_mi_m_0":                Sh_n_mi_m_0,
	"n_mi_m_1":                Sh_n_mi_m_1,
	"n_mi_m_2":                Sh_n_mi_m_2,
	"n_sm_0_0":                Sh_n_sm_0_0,
	"n_sm_0_1":                Sh_n_sm_0_1,
	"n_sm_0_2":                Sh_n_sm_0_2,
	"n_sm_i_0":                Sh_n_sm_i_0,
	"n_sm_i_1":                Sh_n_sm_i_1,
	"n_sm_i_2":                Sh_n_sm_i_2,
	"n_sm_s_0":                Sh_n_sm_s_0,
	"n_sm_s_1":                Sh_n_sm_s_1,
	"n_sm_s_2":                Sh_n_sm_s_2,
	"n_sm_m_0":                Sh_n_sm_m_0,
	"n_sm_m_1":                Sh_n_sm_m_1,
	"n_sm_m_2":                Sh_n_sm_m_2,
	"n_ism_0_0":               Sh_n_ism_0_0,
	"n_ism_0_1":               Sh_n_ism_0_1,
	"n_ism_0_2":               Sh_n_ism_0_2,
	"n_ism_i_0":               Sh_n_ism_i_0,
	"n_ism_i_1":               Sh_n_ism_i_1,
	"n_ism_i_2":               Sh_n_ism_i_2,
	"n_ism_s_0":               Sh_n_ism_s_0,
	"n_ism_s_1":               Sh_n_ism_s_1,
	"n_ism_s_2":               Sh_n_ism_s_2,
	"n_ism_m_0":               Sh_n_ism_m_0,
	"n_ism_m_1":               Sh_n_ism_m_1,
	"n_ism_m_2":               Sh_n_ism_m_2,
	"n_mms_0_0":               Sh_n_mms_0_0,
	"n_mms_0_1":               Sh_n_mms_0_1,
	"n_mms_0_2":               Sh_n_mms_0_2,
	"n_mms_i_0":               Sh_n_mms_i_0,
	"n_mms_i_1":               Sh_n_mms_i_1,
	"n_mms_i_2":               Sh_n_mms_i_2,
	"n_mms_s_0":               Sh_n_mms_s_0,
	"n_mms_s_1":               Sh_n_mms_s_1,
	"n_mms_s_2":               Sh_n_mms_s_2,
	"n_mms_m_0":               Sh_n_mms_m_0,
	"n_mms_m_1":               Sh_n_mms_m_1,
	"n_mms_m_2":               Sh_n_mms_m_2,
	"n_i_0_1:Name_With_Caps":  Name_With_Caps,
	"n_0_m_2:UPPER_CASE":      UPPER_CASE,
	"c_0_0_0:lower":           lower,
	"n_m_0_2:Err_typed_value": Err_typed_value,
	"n_m_0_2:MixedCase123_":   MixedCase123_,
	"c_s_i_2:X":               X,
}

// Closures: the same shapes as function literals (runtime name <PkgPath>.Closures.func<N>).
func Closures() map[string]types.MalType {
	return map[string]types.MalType{
		"c_0_0_0": func(ctx context.Context) { callrec.E0(ctx, true, callrec.A(), nil) },
		"c_0_0_1": func(ctx context.Context) error { return callrec.E1(ctx, true, callrec.A(), nil) },
		"c_0_0_2": func(ctx context.Context) (types.MalType, error) { return callrec.E2(ctx, true, callrec.A(), nil) },
		"c_0_i_0": func(ctx context.Context, v ...int) { callrec.E0(ctx, true, callrec.A(), callrec.VI(v)) },
		"c_0_i_1": func(ctx context.Context, v ...int) error { return callrec.E1(ctx, true, callrec.A(), callrec.VI(v)) },
		"c_0_i_2": func(ctx context.Context, v ...int) (types.MalType, error) {
			return callrec.E2(ctx, true, callrec.A(), callrec.VI(v))
		},
		"c_0_s_0": func(ctx context.Context, v ...string) { callrec.E0(ctx, true, callrec.A(), callrec.VS(v)) },
		"c_0_s_1": func(ctx context.Context, v ...string) error { return callrec.E1(ctx, true, callrec.A(), callrec.VS(v)) },
		"c_0_s_2": func(ctx context.Context, v ...string) (types.MalType, error) {
			return callrec.E2(ctx, true, callrec.A(), callrec.VS(v))
		},
		"c_0_m_0": func(ctx context.Context, v ...types.MalType) { callrec.E0(ctx, true, callrec.A(), callrec.VM(v)) },
		"c_0_m_1": func(ctx context.Context, v ...types.MalType) error {
			return callrec.E1(ctx, true, callrec.A(), callrec.VM(v))
		},
		"c_0_m_2": func(ctx context.Context, v ...types.MalType) (types.MalType, error) {
			return callrec.E2(ctx, true, callrec.A(), callrec.VM(v))
		},
		"c_i_0_0": func(ctx context.Context, a0 int) { callrec.E0(ctx, true, callrec.A(a0), nil) },
		"c_i_0_1": func(ctx context.Context, a0 int) error { return callrec.E1(ctx, true, callrec.A(a0), nil) },
		"c_i_0_2": func(ctx context.Context, a0 int) (types.MalType, error) {
			return callrec.E2(ctx, true, callrec.A(a0), nil)
		},
		"c_i_i_0": func(ctx context.Context, a0 int, v ...int) { callrec.E0(ctx, true, callrec.A(a0), callrec.VI(v)) },
		"c_i_i_1": func(ctx context.Context, a0 int, v ...int) error {
			return callrec.E1(ctx, true, callrec.A(a0), callrec.VI(v))
		},
		"c_i_i_2": func(ctx context.Context, a0 int, v ...int) (types.MalType, error) {
			return callrec.E2(ctx, true, callrec.A(a0), callrec.VI(v))
		},
		"c_i_s_0": func(ctx context.Context, a0 int, v ...string) { callrec.E0(ctx, true, callrec.A(a0), callrec.VS(v)) },
		"c_i_s_1": func(ctx context.Context, a0 int, v ...string) error {
			return callrec.E1(ctx, true, callrec.A(a0), callrec.VS(v))
		},
		"c_i_s_2": func(ctx context.Context, a0 int, v ...string) (types.MalType, error) {
			return callrec.E2(ctx, true, callrec.A(a0), callrec.VS(v))
		},
		"c_i_m_0": func(ctx context.Context, a0 int, v ...types.MalType) {
			callrec.E0(ctx, true, callrec.A(a0), callrec.VM(v))
		},
		"c_i_m_1": func(ctx context.Context, a0 int, v ...types.MalType) error {
			return callrec.E1(ctx, true, callrec.A(a0), callrec.VM(v))
		},
		"c_i_m_2": func(ctx context.Context, a0 int, v ...types.MalType) (types.MalType, error) {
			return callrec.E2(ctx, true, callrec.A(a0), callrec.VM(v))
		},
		"c_s_0_0": func(ctx context.Context, a0 string) { callrec.E0(ctx, true, callrec.A(a0), nil) },
		"c_s_0_1": func(ctx context.Context, a0 string) error { return callrec.E1(ctx, true, callrec.A(a0), nil) },
		"c_s_0_2": func(ctx context.Context, a0 string) (types.MalType, error) {
			return callrec.E2(ctx, true, callrec.A(a0), nil)
		},
		"c_s_i_0": func(ctx context.Context, a0 string, v ...int) { callrec.E0(ctx, true, callrec.A(a0), callrec.VI(v)) },
		"c_s_i_1": func(ctx context.Context, a0 string, v ...int) error {
			return callrec.E1(ctx, true, callrec.A(a0), callrec.VI(v))
		},
		"c_s_i_2": func(ctx context.Context, a0 string, v ...int) (types.MalType, error) {
			return callrec.E2(ctx, true, callrec.A(a0), callrec.VI(v))
		},
		"c_s_s_0": func(ctx context.Context, a0 string, v ...string) { callrec.E0(ctx, true, callrec.A(a0), callrec.VS(v)) },
		"c_s_s_1": func(ctx context.Context, a0 string, v ...string) error {
			return callrec.E1(ctx, true, callrec.A(a0), callrec.VS(v))
		},
		"c_s_s_2": func(ctx context.Context, a0 string, v ...string) (types.MalType, error) {
			return callrec.E2(ctx, true, callrec.A(a0), callrec.VS(v))
		},
		"c_s_m_0": func(ctx context.Context, a0 string, v ...types.MalType) {
			callrec.E0(ctx, true, callrec.A(a0), callrec.VM(v))
		},
		"c_s_m_1": func(ctx context.Context, a0 string, v ...types.MalType) error {
			return callrec.E1(ctx, true, callrec.A(a0), callrec.VM(v))
		},
		"c_s_m_2": func(ctx context.Context, a0 string, v ...types.MalType) (types.MalType, error) {
			return callrec.E2(ctx, true, callrec.A(a0), callrec.VM(v))
		},
		"c_m_0_0": func(ctx context.Context, a0 types.MalType) { callrec.E0(ctx, true, callrec.A(a0), nil) },
		"c_m_0_1": func(ctx context.Context, a0 types.MalType) error { return callrec.E1(ctx, true, callrec.A(a0), nil) },
		"c_m_0_2": func(ctx context.Context, a0 types.MalType) (types.MalType, error) {
			return callrec.E2(ctx, true, callrec.A(a0), nil)
		},
		"c_m_i_0": func(ctx context.Context, a0 types.MalType, v ...int) {
			callrec.E0(ctx, true, callrec.A(a0), callrec.VI(v))
		},
		"c_m_i_1": func(ctx context.Context, a0 types.MalType, v ...int) error {
			return callrec.E1(ctx, true, callrec.A(a0), callrec.VI(v))
		},
		"c_m_i_2": func(ctx context.Context, a0 types.MalType, v ...int) (types.MalType, error) {
			return callrec.E2(ctx, true, callrec.A(a0), callrec.VI(v))
		},
		"c_m_s_0": func(ctx context.Context, a0 types.MalType, v ...string) {
			callrec.E0(ctx, true, callrec.A(a0), callrec.VS(v))
		},
		"c_m_s_1": func(ctx context.Context, a0 types.MalType, v ...string) error {
			return callrec.E1(ctx, true, callrec.A(a0), callrec.VS(v))
		},
		"c_m_s_2": func(ctx context.Context, a0 types.MalType, v ...string) (types.MalType, error) {
			return callrec.E2(ctx, true, callrec.A(a0), callrec.VS(v))
		},
		"c_m_m_0": func(ctx context.Context, a0 types.MalType, v ...types.MalType) {
			callrec.E0(ctx, true, callrec.A(a0), callrec.VM(v))
		},
		"c_m_m_1": func(ctx context.Context, a0 types.MalType, v ...types.MalType) error {
			return callrec.E1(ctx, true, callrec.A(a0), callrec.VM(v))
		},
		"c_m_m_2": func(ctx context.Context, a0 types.MalType, v ...types.MalType) (types.MalType, error) {
			return callrec.E2(ctx, true, callrec.A(a0), callrec.VM(v))
		},
		"c_is_0_0": func(ctx context.Context, a0 int, a1 string) { callrec.E0(ctx, true, callrec.A(a0, a1), nil) },
		"c_is_0_1": func(ctx context.Context, a0 int, a1 string) error {
			return callrec.E1(ctx, true, callrec.A(a0, a1), nil)
		},
		"c_is_0_2": func(ctx context.Context, a0 int, a1 string) (types.MalType, error) {
			return callrec.E2(ctx, true, callrec.A(a0, a1), nil)
		},
		"c_is_i_0": func(ctx context.Context, a0 int, a1 string, v ...int) {
			callrec.E0(ctx, true, callrec.A(a0, a1), callrec.VI(v))
		},
		"c_is_i_1": func(ctx context.Context, a0 int, a1 string, v ...int) error {
			return callrec.E1(ctx, true, callrec.A(a0, a1), callrec.VI(v))
		},
		"c_is_i_2": func(ctx context.Context, a0 int, a1 string, v ...int) (types.MalType, error) {
			return callrec.E2(ctx, true, callrec.A(a0, a1), callrec.VI(v))
		},
		"c_is_s_0": func(ctx context.Context, a0 int, a1 string, v ...string) {
			callrec.E0(ctx, true, callrec.A(a0, a1), callrec.VS(v))
		},
		"c_is_s_1": func(ctx context.Context, a0 int, a1 string, v ...string) error {
			return callrec.E1(ctx, true, callrec.A(a0, a1), callrec.VS(v))
		},
		"c_is_s_2": func(ctx context.Context, a0 int, a1 string, v ...string) (types.MalType, error) {
			return callrec.E2(ctx, true, callrec.A(a0, a1), callrec.VS(v))
		},
		"c_is_m_0": func(ctx context.Context, a0 int, a1 string, v ...types.MalType) {
			callrec.E0(ctx, true, callrec.A(a0, a1), callrec.VM(v))
		},
		"c_is_m_1": func(ctx context.Context, a0 int, a1 string, v ...types.MalType) error {
			return callrec.E1(ctx, true, callrec.A(a0, a1), callrec.VM(v))
		},
		"c_is_m_2": func(ctx context.Context, a0 int, a1 string, v ...types.MalType) (types.MalType, error) {
			return callrec.E2(ctx, true, callrec.A(a0, a1), callrec.VM(v))
		},
		"c_mi_0_0": func(ctx context.Context, a0 types.MalType, a1 int) { callrec.E0(ctx, true, callrec.A(a0, a1), nil) },
		"c_mi_0_1": func(ctx context.Context, a0 types.MalType, a1 int) error {
			return callrec.E1(ctx, true, callrec.A(a0, a1), nil)
		},
		"c_mi_0_2": func(ctx context.Context, a0 types.MalType, a1 int) (types.MalType, error) {
			return callrec.E2(ctx, true, callrec.A(a0, a1), nil)
		},
		"c_mi_i_0": func(ctx context.Context, a0 types.MalType, a1 int, v ...int) {
			callrec.E0(ctx, true, callrec.A(a0, a1), callrec.VI(v))
		},
		"c_mi_i_1": func(ctx context.Context, a0 types.MalType, a1 int, v ...int) error {
			return callrec.E1(ctx, true, callrec.A(a0, a1), callrec.VI(v))
		},
		"c_mi_i_2": func(ctx context.Context, a0 types.MalType, a1 int, v ...int) (types.MalType, error) {
			return callrec.E2(ctx, true, callrec.A(a0, a1), callrec.VI(v))
		},
		"c_mi_s_0": func(ctx context.Context, a0 types.MalType, a1 int, v ...string) {
			callrec.E0(ctx, true, callrec.A(a0, a1), callrec.VS(v))
		},
		"c_mi_s_1": func(ctx context.Context, a0 types.MalType, a1 int, v ...string) error {
			return callrec.E1(ctx, true, callrec.A(a0, a1), callrec.VS(v))
		},
		"c_mi_s_2": func(ctx context.Context, a0 types.MalType, a1 int, v ...string) (types.MalType, error) {
			return callrec.E2(ctx, true, callrec.A(a0, a1), callrec.VS(v))
		},
		"c_mi_m_0": func(ctx context.Context, a0 types.MalType, a1 int, v ...types.MalType) {
			callrec.E0(ctx, true, callrec.A(a0, a1), callrec.VM(v))
		},
		"c_mi_m_1": func(ctx context.Context, a0 types.MalType, a1 int, v ...types.MalType) error {
			return callrec.E1(ctx, true, callrec.A(a0, a1), callrec.VM(v))
		},
		"c_mi_m_2": func(ctx context.Context, a0 types.MalType, a1 int, v ...types.MalType) (types.MalType, error) {
			return callrec.E2(ctx, true, callrec.A(a0, a1), callrec.VM(v))
		},
		"c_sm_0_0": func(ctx context.Context, a0 string, a1 types.MalType) { callrec.E0(ctx, true, callrec.A(a0, a1), nil) },
		"c_sm_0_1": func(ctx context.Context, a0 string, a1 types.MalType) error {
			return callrec.E1(ctx, true, callrec.A(a0, a1), nil)
		},
		"c_sm_0_2": func(ctx context.Context, a0 string, a1 types.MalType) (types.MalType, error) {
			return callrec.E2(ctx, true, callrec.A(a0, a1), nil)
		},
		"c_sm_i_0": func(ctx context.Context, a0 string, a1 types.MalType, v ...int) {
			callrec.E0(ctx, true, callrec.A(a0, a1), callrec.VI(v))
		},
		"c_sm_i_1": func(ctx context.Context, a0 string, a1 types.MalType, v ...int) error {
			return callrec.E1(ctx, true, callrec.A(a0, a1), callrec.VI(v))
		},
		"c_sm_i_2": func(ctx context.Context, a0 string, a1 types.MalType, v ...int) (types.MalType, error) {
			return callrec.E2(ctx, true, callrec.A(a0, a1), callrec.VI(v))
		},
		"c_sm_s_0": func(ctx context.Context, a0 string, a1 types.MalType, v ...string) {
			callrec.E0(ctx, true, callrec.A(a0, a1), callrec.VS(v))
		},
		"c_sm_s_1": func(ctx context.Context, a0 string, a1 types.MalType, v ...string) error {
			return callrec.E1(ctx, true, callrec.A(a0, a1), callrec.VS(v))
		},
		"c_sm_s_2": func(ctx context.Context, a0 string, a1 types.MalType, v ...string) (types.MalType, error) {
			return callrec.E2(ctx, true, callrec.A(a0, a1), callrec.VS(v))
		},
		"c_sm_m_0": func(ctx context.Context, a0 string, a1 types.MalType, v ...types.MalType) {
			callrec.E0(ctx, true, callrec.A(a0, a1), callrec.VM(v))
		},
		"c_sm_m_1": func(ctx context.Context, a0 string, a1 types.MalType, v ...types.MalType) error {
			return callrec.E1(ctx, true, callrec.A(a0, a1), callrec.VM(v))
		},
		"c_sm_m_2": func(ctx context.Context, a0 string, a1 types.MalType, v ...types.MalType) (types.MalType, error) {
			return callrec.E2(ctx, true, callrec.A(a0, a1), callrec.VM(v))
		},
		"c_ism_0_0": func(ctx context.Context, a0 int, a1 string, a2 types.MalType) {
			callrec.E0(ctx, true, callrec.A(a0, a1, a2), nil)
		},
		"c_ism_0_1": func(ctx context.Context, a0 int, a1 string, a2 types.MalType) error {
			return callrec.E1(ctx, true, callrec.A(a0, a1, a2), nil)
		},
		"c_ism_0_2": func(ctx context.Context, a0 int, a1 string, a2 types.MalType) (types.MalType, error) {
			return callrec.E2(ctx, true, callrec.A(a0, a1, a2), nil)
		},
		"c_ism_i_0": func(ctx context.Context, a0 int, a1 string, a2 types.MalType, v ...int) {
			callrec.E0(ctx, true, callrec.A(a0, a1, a2), callrec.VI(v))
		},
		"c_ism_i_1": func(ctx context.Context, a0 int, a1 string, a2 types.MalType, v ...int) error {
			return callrec.E1(ctx, true, callrec.A(a0, a1, a2), callrec.VI(v))
		},
		"c_ism_i_2": func(ctx context.Context, a0 int, a1 string, a2 types.MalType, v ...int) (types.MalType, error) {
			return callrec.E2(ctx, true, callrec.A(a0, a1, a2), callrec.VI(v))
		},
		"c_ism_s_0": func(ctx context.Context, a0 int, a1 string, a2 types.MalType, v ...string) {
			callrec.E0(ctx, true, callrec.A(a0, a1, a2), callrec.VS(v))
		},
		"c_ism_s_1": func(ctx context.Context, a0 int, a1 string, a2 types.MalType, v ...string) error {
			return callrec.E1(ctx, true, callrec.A(a0, a1, a2), callrec.VS(v))
		},
		"c_ism_s_2": func(ctx context.Context, a0 int, a1 string, a2 types.MalType, v ...string) (types.MalType, error) {
			return callrec.E2(ctx, true, callrec.A(a0, a1, a2), callrec.VS(v))
		},
		"c_ism_m_0": func(ctx context.Context, a0 int, a1 string, a2 types.MalType, v ...types.MalType) {
			callrec.E0(ctx, true, callrec.A(a0, a1, a2), callrec.VM(v))
		},
		"c_ism_m_1": func(ctx context.Context, a0 int, a1 string, a2 types.MalType, v ...types.MalType) error {
			return callrec.E1(ctx, true, callrec.A(a0, a1, a2), callrec.VM(v))
		},
		"c_ism_m_2": func(ctx context.Context, a0 int, a1 string, a2 types.MalType, v ...types.MalType) (types.MalType, error) {
			return callrec.E2(ctx, true, callrec.A(a0, a1, a2), callrec.VM(v))
		},
		"c_mms_0_0": func(ctx context.Context, a0 types.MalType, a1 types.MalType, a2 string) {
			callrec.E0(ctx, true, callrec.A(a0, a1, a2), nil)
		},
		"c_mms_0_1": func(ctx context.Context, a0 types.MalType, a1 types.MalType, a2 string) error {
			return callrec.E1(ctx, true, callrec.A(a0, a1, a2), nil)
		},
		"c_mms_0_2": func(ctx context.Context, a0 types.MalType, a1 types.MalType, a2 string) (types.MalType, error) {
			return callrec.E2(ctx, true, callrec.A(a0, a1, a2), nil)
		},
		"c_mms_i_0": func(ctx context.Context, a0 types.MalType, a1 types.MalType, a2 string, v ...int) {
			callrec.E0(ctx, true, callrec.A(a0, a1, a2), callrec.VI(v))
		},
		"c_mms_i_1": func(ctx context.Context, a0 types.MalType, a1 types.MalType, a2 string, v ...int) error {
			return callrec.E1(ctx, true, callrec.A(a0, a1, a2), callrec.VI(v))
		},
		"c_mms_i_2": func(ctx context.Context, a0 types.MalType, a1 types.MalType, a2 string, v ...int) (types.MalType, error) {
			return callrec.E2(ctx, true, callrec.A(a0, a1, a2), callrec.VI(v))
		},
		"c_mms_s_0": func(ctx context.Context, a0 types.MalType, a1 types.MalType, a2 string, v ...string) {
			callrec.E0(ctx, true, callrec.A(a0, a1, a2), callrec.VS(v))
		},
		"c_mms_s_1": func(ctx context.Context, a0 types.MalType, a1 types.MalType, a2 string, v ...string) error {
			return callrec.E1(ctx, true, callrec.A(a0, a1, a2), callrec.VS(v))
		},
		"c_mms_s_2": func(ctx context.Context, a0 types.MalType, a1 types.MalType, a2 string, v ...string) (types.MalType, error) {
			return callrec.E2(ctx, true, callrec.A(a0, a1, a2), callrec.VS(v))
		},
		"c_mms_m_0": func(ctx context.Context, a0 types.MalType, a1 types.MalType, a2 string, v ...types.MalType) {
			callrec.E0(ctx, true, callrec.A(a0, a1, a2), callrec.VM(v))
		},
		"c_mms_m_1": func(ctx context.Context, a0 types.MalType, a1 types.MalType, a2 string, v ...types.MalType) error {
			return callrec.E1(ctx, true, callrec.A(a0, a1, a2), callrec.VM(v))
		},
		"c_mms_m_2": func(ctx context.Context, a0 types.MalType, a1 types.MalType, a2 string, v ...types.MalType) (types.MalType, error) {
			return callrec.E2(ctx, true, callrec.A(a0, a1, a2), callrec.VM(v))
		},
		"n_0_0_0": func() { callrec.E0(nil, false, callrec.A(), nil) },
		"n_0_0_1": func() error { return callrec.E1(nil, false, callrec.A(), nil) },
		"n_0_0_2": func() (types.MalType, error) { return callrec.E2(nil, false, callrec.A(), nil) },
		"n_0_i_0": func(v ...int) { callrec.E0(nil, false, callrec.A(), callrec.VI(v)) },
		"n_0_i_1": func(v ...int) error { return callrec.E1(nil, false, callrec.A(), callrec.VI(v)) },
		"n_0_i_2": func(v ...int) (types.MalType, error) { return callrec.E2(nil, false, callrec.A(), callrec.VI(v)) },
		"n_0_s_0": func(v ...string) { callrec.E0(nil, false, callrec.A(), callrec.VS(v)) },
		"n_0_s_1": func(v ...string) error { return callrec.E1(nil, false, callrec.A(), callrec.VS(v)) },
		"n_0_s_2": func(v ...string) (types.MalType, error) { return callrec.E2(nil, false, callrec.A(), callrec.VS(v)) },
		"n_0_m_0": func(v ...types.MalType) { callrec.E0(nil, false, callrec.A(), callrec.VM(v)) },
		"n_0_m_1": func(v ...types.MalType) error { return callrec.E1(nil, false, callrec.A(), callrec.VM(v)) },
		"n_0_m_2": func(v ...types.MalType) (types.MalType, error) {
			return callrec.E2(nil, false, callrec.A(), callrec.VM(v))
		},
		"n_i_0_0": func(a0 int) { callrec.E0(nil, false, callrec.A(a0), nil) },
		"n_i_0_1": func(a0 int) error { return callrec.E1(nil, false, callrec.A(a0), nil) },
		"n_i_0_2": func(a0 int) (types.MalType, error) { return callrec.E2(nil, false, callrec.A(a0), nil) },
		"n_i_i_0": func(a0 int, v ...int) { callrec.E0(nil, false, callrec.A(a0), callrec.VI(v)) },
		"n_i_i_1": func(a0 int, v ...int) error { return callrec.E1(nil, false, callrec.A(a0), callrec.VI(v)) },
		"n_i_i_2": func(a0 int, v ...int) (types.MalType, error) {
			return callrec.E2(nil, false, callrec.A(a0), callrec.VI(v))
		},
		"n_i_s_0": func(a0 int, v ...string) { callrec.E0(nil, false, callrec.A(a0), callrec.VS(v)) },
		"n_i_s_1": func(a0 int, v ...string) error { return callrec.E1(nil, false, callrec.A(a0), callrec.VS(v)) },
		"n_i_s_2": func(a0 int, v ...string) (types.MalType, error) {
			return callrec.E2(nil, false, callrec.A(a0), callrec.VS(v))
		},
		"n_i_m_0": func(a0 int, v ...types.MalType) { callrec.E0(nil, false, callrec.A(a0), callrec.VM(v)) },
		"n_i_m_1": func(a0 int, v ...types.MalType) error { return callrec.E1(nil, false, callrec.A(a0), callrec.VM(v)) },
		"n_i_m_2": func(a0 int, v ...types.MalType) (types.MalType, error) {
			return callrec.E2(nil, false, callrec.A(a0), callrec.VM(v))
		},
		"n_s_0_0": func(a0 string) { callrec.E0(nil, false, callrec.A(a0), nil) },
		"n_s_0_1": func(a0 string) error { return callrec.E1(nil, false, callrec.A(a0), nil) },
		"n_s_0_2": func(a0 string) (types.MalType, error) { return callrec.E2(nil, false, callrec.A(a0), nil) },
		"n_s_i_0": func(a0 string, v ...int) { callrec.E0(nil, false, callrec.A(a0), callrec.VI(v)) },
		"n_s_i_1": func(a0 string, v ...int) error { return callrec.E1(nil, false, callrec.A(a0), callrec.VI(v)) },
		"n_s_i_2": func(a0 string, v ...int) (types.MalType, error) {
			return callrec.E2(nil, false, callrec.A(a0), callrec.VI(v))
		},
		"n_s_s_0": func(a0 string, v ...string) { callrec.E0(nil, false, callrec.A(a0), callrec.VS(v)) },
		"n_s_s_1": func(a0 string, v ...string) error { return callrec.E1(nil, false, callrec.A(a0), callrec.VS(v)) },
		"n_s_s_2": func(a0 string, v ...string) (types.MalType, error) {
			return callrec.E2(nil, false, callrec.A(a0), callrec.VS(v))
		},
		"n_s_m_0": func(a0 string, v ...types.MalType) { callrec.E0(nil, false, callrec.A(a0), callrec.VM(v)) },
		"n_s_m_1": func(a0 string, v ...types.MalType) error { return callrec.E1(nil, false, callrec.A(a0), callrec.VM(v)) },
		"n_s_m_2": func(a0 string, v ...types.MalType) (types.MalType, error) {
			return callrec.E2(nil, false, callrec.A(a0), callrec.VM(v))
		},
		"n_m_0_0": func(a0 types.MalType) { callrec.E0(nil, false, callrec.A(a0), nil) },
		"n_m_0_1": func(a0 types.MalType) error { return callrec.E1(nil, false, callrec.A(a0), nil) },
		"n_m_0_2": func(a0 types.MalType) (types.MalType, error) { return callrec.E2(nil, false, callrec.A(a0), nil) },
		"n_m_i_0": func(a0 types.MalType, v ...int) { callrec.E0(nil, false, callrec.A(a0), callrec.VI(v)) },
		"n_m_i_1": func(a0 types.MalType, v ...int) error { return callrec.E1(nil, false, callrec.A(a0), callrec.VI(v)) },
		"n_m_i_2": func(a0 types.MalType, v ...int) (types.MalType, error) {
			return callrec.E2(nil, false, callrec.A(a0), callrec.VI(v))
		},
		"n_m_s_0": func(a0 types.MalType, v ...string) { callrec.E0(nil, false, callrec.A(a0), callrec.VS(v)) },
		"n_m_s_1": func(a0 types.MalType, v ...string) error { return callrec.E1(nil, false, callrec.A(a0), callrec.VS(v)) },
		"n_m_s_2": func(a0 types.MalType, v ...string) (types.MalType, error) {
			return callrec.E2(nil, false, callrec.A(a0), callrec.VS(v))
		},
		"n_m_m_0": func(a0 types.MalType, v ...types.MalType) { callrec.E0(nil, false, callrec.A(a0), callrec.VM(v)) },
		"n_m_m_1": func(a0 types.MalType, v ...types.MalType) error {
			return callrec.E1(nil, false, callrec.A(a0), callrec.VM(v))
		},
		"n_m_m_2": func(a0 types.MalType, v ...types.MalType) (types.MalType, error) {
			return callrec.E2(nil, false, callrec.A(a0), callrec.VM(v))
		},
		"n_is_0_0": func(a0 int, a1 string) { callrec.E0(nil, false, callrec.A(a0, a1), nil) },
		"n_is_0_1": func(a0 int, a1 string) error { return callrec.E1(nil, false, callrec.A(a0, a1), nil) },
		"n_is_0_2": func(a0 int, a1 string) (types.MalType, error) { return callrec.E2(nil, false, callrec.A(a0, a1), nil) },
		"n_is_i_0": func(a0 int, a1 string, v ...int) { callrec.E0(nil, false, callrec.A(a0, a1), callrec.VI(v)) },
		"n_is_i_1": func(a0 int, a1 string, v ...int) error {
			return callrec.E1(nil, false, callrec.A(a0, a1), callrec.VI(v))
		},
		"n_is_i_2": func(a0 int, a1 string, v ...int) (types.MalType, error) {
			return callrec.E2(nil, false, callrec.A(a0, a1), callrec.VI(v))
		},
		"n_is_s_0": func(a0 int, a1 string, v ...string) { callrec.E0(nil, false, callrec.A(a0, a1), callrec.VS(v)) },
		"n_is_s_1": func(a0 int, a1 string, v ...string) error {
			return callrec.E1(nil, false, callrec.A(a0, a1), callrec.VS(v))
		},
		"n_is_s_2": func(a0 int, a1 string, v ...string) (types.MalType, error) {
			return callrec.E2(nil, false, callrec.A(a0, a1), callrec.VS(v))
		},
		"n_is_m_0": func(a0 int, a1 string, v ...types.MalType) { callrec.E0(nil, false, callrec.A(a0, a1), callrec.VM(v)) },
		"n_is_m_1": func(a0 int, a1 string, v ...types.MalType) error {
			return callrec.E1(nil, false, callrec.A(a0, a1), callrec.VM(v))
		},
		"n_is_m_2": func(a0 int, a1 string, v ...types.MalType) (types.MalType, error) {
			return callrec.E2(nil, false, callrec.A(a0, a1), callrec.VM(v))
		},
		"n_mi_0_0": func(a0 types.MalType, a1 int) { callrec.E0(nil, false, callrec.A(a0, a1), nil) },
		"n_mi_0_1": func(a0 types.MalType, a1 int) error { return callrec.E1(nil, false, callrec.A(a0, a1), nil) },
		"n_mi_0_2": func(a0 types.MalType, a1 int) (types.MalType, error) {
			return callrec.E2(nil, false, callrec.A(a0, a1), nil)
		},
		"n_mi_i_0": func(a0 types.MalType, a1 int, v ...int) { callrec.E0(nil, false, callrec.A(a0, a1), callrec.VI(v)) },
		"n_mi_i_1": func(a0 types.MalType, a1 int, v ...int) error {
			return callrec.E1(nil, false, callrec.A(a0, a1), callrec.VI(v))
		},
		"n_mi_i_2": func(a0 types.MalType, a1 int, v ...int) (types.MalType, error) {
			return callrec.E2(nil, false, callrec.A(a0, a1), callrec.VI(v))
		},
		"n_mi_s_0": func(a0 types.MalType, a1 int, v ...string) { callrec.E0(nil, false, callrec.A(a0, a1), callrec.VS(v)) },
		"n_mi_s_1": func(a0 types.MalType, a1 int, v ...string) error {
			return callrec.E1(nil, false, callrec.A(a0, a1), callrec.VS(v))
		},
		"n_mi_s_2": func(a0 types.MalType, a1 int, v ...string) (types.MalType, error) {
			return callrec.E2(nil, false, callrec.A(a0, a1), callrec.VS(v))
		},
		"n_mi_m_0": func(a0 types.MalType, a1 int, v ...types.MalType) {
			callrec.E0(nil, false, callrec.A(a0, a1), callrec.VM(v))
		},
		"n_mi_m_1": func(a0 types.MalType, a1 int, v ...types.MalType) error {
			return callrec.E1(nil, false, callrec.A(a0, a1), callrec.VM(v))
		},
		"n_mi_m_2": func(a0 types.MalType, a1 int, v ...types.MalType) (types.MalType, error) {
			return callrec.E2(nil, false, callrec.A(a0, a1), callrec.VM(v))
		},
		"n_sm_0_0": func(a0 string, a1 types.MalType) { callrec.E0(nil, false, callrec.A(a0, a1), nil) },
		"n_sm_0_1": func(a0 string, a1 types.MalType) error { return callrec.E1(nil, false, callrec.A(a0, a1), nil) },
		"n_sm_0_2": func(a0 string, a1 types.MalType) (types.MalType, error) {
			return callrec.E2(nil, false, callrec.A(a0, a1), nil)
		},
		"n_sm_i_0": func(a0 string, a1 types.MalType, v ...int) { callrec.E0(nil, false, callrec.A(a0, a1), callrec.VI(v)) },
		"n_sm_i_1": func(a0 string, a1 types.MalType, v ...int) error {
			return callrec.E1(nil, false, callrec.A(a0, a1), callrec.VI(v))
		},
		"n_sm_i_2": func(a0 string, a1 types.MalType, v ...int) (types.MalType, error) {
			return callrec.E2(nil, false, callrec.A(a0, a1), callrec.VI(v))
		},
		"n_sm_s_0": func(a0 string, a1 types.MalType, v ...string) {
			callrec.E0(nil, false, callrec.A(a0, a1), callrec.VS(v))
		},
		"n_sm_s_1": func(a0 string, a1 types.MalType, v ...string) error {
			return callrec.E1(nil, false, callrec.A(a0, a1), callrec.VS(v))
		},
		"n_sm_s_2": func(a0 string, a1 types.MalType, v ...string) (types.MalType, error) {
			return callrec.E2(nil, false, callrec.A(a0, a1), callrec.VS(v))
		},
		"n_sm_m_0": func(a0 string, a1 types.MalType, v ...types.MalType) {
			callrec.E0(nil, false, callrec.A(a0, a1), callrec.VM(v))
		},
		"n_sm_m_1": func(a0 string, a1 types.MalType, v ...types.MalType) error {
			return callrec.E1(nil, false, callrec.A(a0, a1), callrec.VM(v))
		},
		"n_sm_m_2": func(a0 string, a1 types.MalType, v ...types.MalType) (types.MalType, error) {
			return callrec.E2(nil, false, callrec.A(a0, a1), callrec.VM(v))
		},
		"n_ism_0_0": func(a0 int, a1 string, a2 types.MalType) { callrec.E0(nil, false, callrec.A(a0, a1, a2), nil) },
		"n_ism_0_1": func(a0 int, a1 string, a2 types.MalType) error {
			return callrec.E1(nil, false, callrec.A(a0, a1, a2), nil)
		},
		"n_ism_0_2": func(a0 int, a1 string, a2 types.MalType) (types.MalType, error) {
			return callrec.E2(nil, false, callrec.A(a0, a1, a2), nil)
		},
		"n_ism_i_0": func(a0 int, a1 string, a2 types.MalType, v ...int) {
			callrec.E0(nil, false, callrec.A(a0, a1, a2), callrec.VI(v))
		},
		"n_ism_i_1": func(a0 int, a1 string, a2 types.MalType, v ...int) error {
			return callrec.E1(nil, false, callrec.A(a0, a1, a2), callrec.VI(v))
		},
		"n_ism_i_2": func(a0 int, a1 string, a2 types.MalType, v ...int) (types.MalType, error) {
			return callrec.E2(nil, false, callrec.A(a0, a1, a2), callrec.VI(v))
		},
		"n_ism_s_0": func(a0 int, a1 string, a2 types.MalType, v ...string) {
			callrec.E0(nil, false, callrec.A(a0, a1, a2), callrec.VS(v))
		},
		"n_ism_s_1": func(a0 int, a1 string, a2 types.MalType, v ...string) error {
			return callrec.E1(nil, false, callrec.A(a0, a1, a2), callrec.VS(v))
		},
		"n_ism_s_2": func(a0 int, a1 string, a2 types.MalType, v ...string) (types.MalType, error) {
			return callrec.E2(nil, false, callrec.A(a0, a1, a2), callrec.VS(v))
		},
		"n_ism_m_0": func(a0 int, a1 string, a2 types.MalType, v ...types.MalType) {
			callrec.E0(nil, false, callrec.A(a0, a1, a2), callrec.VM(v))
		},
		"n_ism_m_1": func(a0 int, a1 string, a2 types.MalType, v ...types.MalType) error {
			return callrec.E1(nil, false, callrec.A(a0, a1, a2), callrec.VM(v))
		},
		"n_ism_m_2": func(a0 int, a1 string, a2 types.MalType, v ...types.MalType) (types.MalType, error) {
			return callrec.E2(nil, false, callrec.A(a0, a1, a2), callrec.VM(v))
		},
		"n_mms_0_0": func(a0 types.MalType, a1 types.MalType, a2 string) {
			callrec.E0(nil, false, callrec.A(a0, a1, a2), nil)
		},
		"n_mms_0_1": func(a0 types.MalType, a1 types.MalType, a2 string) error {
			return callrec.E1(nil, false, callrec.A(a0, a1, a2), nil)
		},
		"n_mms_0_2": func(a0 types.MalType, a1 types.MalType, a2 string) (types.MalType, error) {
			return callrec.E2(nil, false, callrec.A(a0, a1, a2), nil)
		},
		"n_mms_i_0": func(a0 types.MalType, a1 types.MalType, a2 string, v ...int) {
			callrec.E0(nil, false, callrec.A(a0, a1, a2), callrec.VI(v))
		},
		"n_mms_i_1": func(a0 types.MalType, a1 types.MalType, a2 string, v ...int) error {
			return callrec.E1(nil, false, callrec.A(a0, a1, a2), callrec.VI(v))
		},
		"n_mms_i_2": func(a0 types.MalType, a1 types.MalType, a2 string, v ...int) (types.MalType, error) {
			return callrec.E2(nil, false, callrec.A(a0, a1, a2), callrec.VI(v))
		},
		"n_mms_s_0": func(a0 types.MalType, a1 types.MalType, a2 string, v ...string) {
			callrec.E0(nil, false, callrec.A(a0, a1, a2), callrec.VS(v))
		},
		"n_mms_s_1": func(a0 types.MalType, a1 types.MalType, a2 string, v ...string) error {
			return callrec.E1(nil, false, callrec.A(a0, a1, a2), callrec.VS(v))
		},
		"n_mms_s_2": func(a0 types.MalType, a1 types.MalType, a2 string, v ...string) (types.MalType, error) {
			return callrec.E2(nil, false, callrec.A(a0, a1, a2), callrec.VS(v))
		},
		"n_mms_m_0": func(a0 types.MalType, a1 types.MalType, a2 string, v ...types.MalType) {
			callrec.E0(nil, false, callrec.A(a0, a1, a2), callrec.VM(v))
		},
		"n_mms_m_1": func(a0 types.MalType, a1 types.MalType, a2 string, v ...types.MalType) error {
			return callrec.E1(nil, false, callrec.A(a0, a1, a2), callrec.VM(v))
		},
		"n_mms_m_2": func(a0 types.MalType, a1 types.MalType, a2 string, v ...types.MalType) (types.MalType, error) {
			return callrec.E2(nil, false, callrec.A(a0, a1, a2), callrec.VM(v))
		},
	}
}

package main

import (
	"go/ast"
	"go/parser"
	"go/token"
	"os"
	"path/filepath"
	"sort"
	"strings"
)

func (w *envWalker) ifStmt(t *ast.IfStmt) {
	cond := w.src(t.Cond)
	// if v, ok := X.data[k]; ok {return …} else if X.outer != nil {return X.outer.M(k)} else {return …}
	if as, ok := t.Init.(*ast.AssignStmt); ok && len(as.Rhs) == 1 {
		if recv, ok := dataIndex(as.Rhs[0]); ok {
			w.access(recv, false)
			switch {
			case cond == "ok" && endsInReturn(t.Body) && len(t.Body.List) == 1:
				if ei, ok := t.Else.(*ast.IfStmt); ok && strings.HasSuffix(w.src(ei.Cond), ".outer != nil") && len(ei.Body.List) == 1 {
					if r, ok := ei.Body.List[0].(*ast.ReturnStmt); ok && len(r.Results) == 1 {
						if m, viaOuter, ok := envCall(r.Results[0]); ok && viaOuter && leanName(m) != "" {
							if eb, ok := ei.Else.(*ast.BlockStmt); ok && endsInReturn(eb) && len(eb.List) == 1 {
								w.emit(".readHit")
								w.emit(".callOuter ." + leanName(m))
								w.emit(".ret")
								return
							}
						}
					}
				}
			case cond == "!ok" && endsInReturn(t.Body) && t.Else == nil:
				w.emit(".readMiss")
				return
			}
			w.unknown("lookup", t)
			return
		}
	}
	// if e.outer != nil { return e.outer.M(…) }
	if strings.HasSuffix(cond, ".outer != nil") && t.Else == nil && len(t.Body.List) == 1 {
		if r, ok := t.Body.List[0].(*ast.ReturnStmt); ok && len(r.Results) == 1 {
			if m, viaOuter, ok := envCall(r.Results[0]); ok && viaOuter && leanName(m) != "" {
				w.emit(".callOuter ." + leanName(m))
				return
			}
		}
	}
	// the error check right after the callback
	if w.afterCallback && isNilCheck(t.Cond, token.NEQ) && endsInReturn(t.Body) {
		w.afterCallback = false
		return
	}
	if containsData(t) {
		if t.Init != nil {
			w.stmt(t.Init)
		}
		w.stmts(t.Body.List)
		if t.Else != nil {
			w.stmt(t.Else)
		}
	}
}

// goFiles: the non-test Go files of the repository
func goFiles(repo string) ([]string, error) {
	var files []string
	err := filepath.Walk(repo, func(p string, info os.FileInfo, err error) error {
		if err != nil {
			return err
		}
		if info.IsDir() && (info.Name() == ".git" || info.Name() == "vendor") {
			return filepath.SkipDir
		}
		if !info.IsDir() && strings.HasSuffix(p, ".go") && !strings.HasSuffix(p, "_test.go") {
			files = append(files, p)
		}
		return nil
	})
	sort.Strings(files)
	return files, err
}

// ntExternalCalls: "<file>:<line> <method>" of every call of an unlocked helper outside env/env.go
func ntExternalCalls(repo string) ([]string, error) {
	files, err := goFiles(repo)
	if err != nil {
		return nil, err
	}
	var out []string
	for _, p := range files {
		rel, _ := filepath.Rel(repo, p)
		if rel == "env/env.go" {
			continue
		}
		fset := token.NewFileSet()
		f, err := parser.ParseFile(fset, p, nil, 0)
		if err != nil {
			return nil, err
		}
		ast.Inspect(f, func(n ast.Node) bool {
			if c, ok := n.(*ast.CallExpr); ok {
				if s, ok := c.Fun.(*ast.SelectorExpr); ok {
					switch s.Sel.Name {
					case "FindNT", "GetNT", "SetNT", "RemoveNT":
						out = append(out, rel+" "+s.Sel.Name)
					}
				}
			}
			return true
		})
	}
	return out, nil
}

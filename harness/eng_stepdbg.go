package main

// engine "stepdbg" (C18): the repository's OWN debugger engine (debugger.Engine(...).Stepper, the callback that
// command.DebugFile installs) with its keyboard closed — every stop answers NoOp, trace lines are still printed — must
// not change what a program computes.  Harness-side oracle (stepped vs unstepped); the Lean driver answers "-".

import (
	"context"
	"fmt"
	"strings"

	"github.com/eiannone/keyboard"
	"github.com/jig/lisp"
	"github.com/jig/lisp/debugger"
	. "github.com/jig/lisp/types"
)

type stepDbgEngine struct{}

func init() { register("stepdbg", &stepDbgEngine{}) }

func (e *stepDbgEngine) leanName() string { return "nomodel" }

var stepDbgPrograms = []string{
	`(def banner (fn [] (str "=== " "the quick brown fox jumps over the lazy dog, twice, and once more for good measure" " ==="))) (banner)`,
	`(def cfg {:name "a rather long configuration value that does not fit on a trace line at all, really" :n [1 2 3]}) (list (get cfg :name) (str (get cfg :name) "!"))`,
	`(def f (fn [x & more] (list x more (quote (a "long literal inside quoted data, longer than forty characters for sure") )))) (f 1 2 3)`,
	`(let [a (atom []) g (fn [s] (swap! a conj s))] (g "0123456789012345678901234567890123456789012345678901234567890") (g "short") @a)`,
	`(def deep (fn [n] (if (< n 1) [n "leaf with a long text: 0123456789 0123456789 0123456789 0123456789"] (list n (deep (- n 1)))))) (deep 4)`,
	`(try (throw {:msg "an error message that is long enough to be clipped by any pretty printer in the way"}) (catch e (get e :msg)))`,
	`(defmacro twice (fn [x] (list 'do x x))) (def c (atom 0)) (twice (swap! c inc)) [@c (macroexpand (twice "0123456789012345678901234567890123456789012345"))]`,
}

func (e *stepDbgEngine) generate(r *rng, n int, tier string, emit func(string)) {
	for i := range stepDbgPrograms {
		emit(fmt.Sprintf("prog=%d", i))
	}
}

func (e *stepDbgEngine) run(payload string) string {
	var p int
	if _, err := fmt.Sscanf(payload, "prog=%d", &p); err != nil || p < 0 || p >= len(stepDbgPrograms) {
		return "bad-case"
	}
	one := func(debug bool) string {
		ec := &evalCase{}
		ns, err := freshEnv(ec)
		if err != nil {
			return "setup-error"
		}
		if debug {
			stepMu.Lock()
			defer stepMu.Unlock()
			lisp.ResetStepperFlags()
			deb := debugger.Engine("demo", ns)
			keyboard.Close()
			lisp.Stepper = deb.Stepper
			defer func() { lisp.Stepper = nil }()
		}
		ast, err := lisp.READ("(do "+stepDbgPrograms[p]+"\n)", NewCursorFile("demo"), ns)
		if err != nil {
			return "read-error"
		}
		return safeRunInline(func() string {
			v, err := lisp.EVAL(context.Background(), ast, ns)
			if err != nil {
				return renderErr(err)
			}
			return "ok " + render(v)
		})
	}
	plain, stepped := one(false), one(true)
	if plain != stepped {
		return "differs\t!with the repository's debugger engine installed the program computes " + stepped[:min(len(stepped), 300)] + " , without " + plain[:min(len(plain), 300)]
	}
	if !strings.HasPrefix(plain, "ok") {
		return "setup-error " + plain[:min(len(plain), 100)]
	}
	return "ok"
}

func (e *stepDbgEngine) classify(payload, obs string) string { return strings.SplitN(obs, "\t", 2)[0] }

package main

// engine "eqexpr" (C14): `=` on values BUILT BY THE CODE ITSELF — every way of producing an empty or small collection
// (constructors, literals, results of builtins, nil-map vs allocated-map representations) — all ordered pairs.  The
// reference is Equal_Q on harness-rebuilt copies of the two values (the `eq` engine ties that to the Lean spec); the
// Lean driver answers "-" (no model: the expressions only choose the representation, not the value).

import (
	"context"
	"fmt"
	"strings"
	"time"

	"github.com/jig/lisp"
	. "github.com/jig/lisp/types"
)

type eqExprEngine struct{}

func init() { register("eqexpr", &eqExprEngine{}) }

func (e *eqExprEngine) leanName() string { return "nomodel" }

var eqExprs = []string{
	"(set nil)", "(hash-set)", "(set [])", "(set ())", "#{}", "(set [:a])", "(hash-set :a)", "#{:a}", "(conj #{} :a)",
	"(hash-map)", "{}", "(dissoc {:a 1} :a)", "(merge {} nil)", "(merge nil {})", "(assoc {} :a 1)", "{:a 1}", "(hash-map :a 1)", "(merge {:a 1} nil)",
	"(list)", "()", "(vector)", "[]", "(rest [1])", "(rest nil)", "(seq [])", "(vec nil)", "(vec ())", "(concat)", "(concat [] ())", "(take 0 [1 2])", "(drop 5 [1 2])",
	"nil", "false", "0", "\"\"", "(list nil)", "[nil]", "[(set nil)]", "[(hash-set)]", "{:s (set nil)}", "{:s (hash-set)}", "{:s #{}}",
	"(list 1 2)", "[1 2]", "(concat [1] [2])", "(cons 1 [2])", "(conj [1] 2)", "(map (fn [x] x) [1 2])", "(vec (list 1 2))", "(seq [1 2])", "(take 2 [1 2 3])",
	"9007199254740993", "9007199254740992", "(+ 9007199254740992 1)", "9223372036854775807", "9223372036854775806",
	"(symbol \"a\")", "(quote a)", "(first (quote (a)))", "(keyword \"a\")", ":a", "\"a\"",
}

// self-contained comparisons of values that SHARE storage (views of one vector / list): the answer is structural
var eqSharing = []struct {
	src  string
	want string
}{
	{"(let [v [1 2 3]] (= v (subvec v 0 2)))", "F"}, {"(let [v [1 2 3]] (= (subvec v 0 2) v))", "F"},
	{"(let [v [1 2 3]] (= (subvec v 0 1) (subvec v 0 2)))", "F"}, {"(let [v [1 2 3]] (= (subvec v 0 3) v))", "T"},
	{"(let [v [1 2]] (= v (vec v)))", "T"}, {"(let [v [1 2 3]] (= (seq v) (subvec v 0 2)))", "F"},
	{"(let [l (list 1 2 3)] (= l (rest l)))", "F"}, {"(let [v [1 2 3]] (= {:k v} {:k (subvec v 0 2)}))", "F"},
	{"(let [v [1 2 3]] (= [v] [(subvec v 0 2)]))", "F"}, {"(let [v [1 1 1]] (= (subvec v 0 2) (subvec v 1 3)))", "T"},
	{"(let [v [1 2 3]] (= (take 2 v) (subvec v 0 2)))", "T"}, {"(let [v [1 2 3] w (conj v 4)] (= v (subvec w 0 3)))", "T"},
	// one comparison that meets the SAME pair of stores twice, first at full length, then as a shorter view (and the other
	// way round): what was found for one pair of views says nothing about another pair
	{"(let [x [1 2 3] p (subvec x 0 2)] (= [x p] [x x]))", "F"}, {"(let [x [1 2 3] p (subvec x 0 2)] (= [x x] [x p]))", "F"},
	{"(let [x [1 2 3] p (subvec x 0 2)] (= (list x p) [x x]))", "F"}, {"(let [x [1 2 3] p (subvec x 0 2)] (= {:a x :b [x p]} {:a x :b [x x]}))", "F"},
	{"(let [x [1 2 3]] (= [x (subvec x 0 0)] [x x]))", "F"}, {"(let [x [1 2 3]] (= [x x] [x x]))", "T"}, {"(let [x [1 2 3] p (subvec x 0 2)] (= [p x] [x x]))", "F"},
	{"(let [x [1 2 3] p (subvec x 0 2)] (= [x p x] [x x x]))", "F"}, {"(let [x [1 2 3] p (subvec x 0 2)] (= [x p] [x p]))", "T"},
	{"(let [l (list 1 2 3) t (rest l)] (= [l t] [l l]))", "F"}, {"(let [x [[1] [2]]] (= [x (subvec x 0 1)] [x x]))", "F"},
	{"(let [x [1 2 3] p (subvec x 0 2)] [(= [x x] [x x]) (= [x p] [x x]) (= p x)])", "( V T F F )"},
	{"(let [m {:a 1} n (assoc m :b 2)] (= [m n] [m m]))", "F"}, {"(let [m {:a [1 2]}] (= [m (dissoc m :a)] [m m]))", "F"},
	{"(let [x [1 2 3] w (conj x 4)] (= [x (subvec w 0 3) w] [x x x]))", "F"}, {"(let [x [1 2 3] w (conj x 4)] (= [x (subvec w 0 3)] [x x]))", "T"},
	{"(let [m {:a nil :b 1}] (= m (assoc m :b 2)))", "F"}, {"(= {:a nil :b 1} {:a nil :b 2})", "F"}, {"(= {:a nil :b 1 :c 2} {:a nil :b 1 :c 3})", "F"},
}

func (e *eqExprEngine) generate(r *rng, n int, tier string, emit func(string)) {
	for i := range eqSharing {
		for rep := 0; rep < 12; rep++ { // map iteration order varies from run to run
			emit(fmt.Sprintf("share %d %d", i, rep))
		}
	}
	for i := range eqExprs {
		for j := range eqExprs {
			emit(fmt.Sprintf("%d %d", i, j))
		}
	}
	for k := range eqBig {
		for ms := 0; ms < 10; ms++ {
			emit(fmt.Sprintf("deadline %d %d", k, ms))
		}
	}
}

// comparisons of BIG equal values while the evaluation's deadline runs out: the answer is `true` or the evaluation's
// timeout error — "equal exactly when they have the same keys with equal values" has no third outcome
const eqBigDefs = `(do
 (def bv1 (vec (range 0 150000))) (def bv2 (vec (range 0 150000)))
 (def bm1 {:a bv1 :b {:c bv2 :d [bv1 bv2]}}) (def bm2 {:a bv2 :b {:c bv1 :d [bv2 bv1]}})
 (def bl1 (map (fn [i] {:i i :v [i i]}) (range 0 20000))) (def bl2 (map (fn [i] {:i i :v [i i]}) (range 0 20000)))
 nil)`

var eqBig = []string{
	"(= bm1 bm2)", "(= bm1 bm1)", "(= bv1 bv2)", "(= bl1 bl2)", "(= {:k bl1} {:k bl2})", "(= [bm1 bl1] [bm2 bl2])",
	"(try (= bm1 bm2) (catch e :timeout))", "(if (= bm2 bm1) :same :different)", "(= (list bm1 bm2) (list bm2 bm1))",
}

var eqBigEnv EnvType

func (e *eqExprEngine) runDeadline(k, ms int) string {
	if eqBigEnv == nil {
		ec := &evalCase{}
		env, err := freshEnv(ec)
		if err != nil {
			return "setup-error"
		}
		defs, err := lisp.READ(eqBigDefs, nil, env)
		if err != nil {
			return "setup-error"
		}
		if _, err := lisp.EVAL(context.Background(), defs, env); err != nil {
			return "setup-error"
		}
		eqBigEnv = env
	}
	ast, err := lisp.READ(eqBig[k], nil, eqBigEnv)
	if err != nil {
		return "bad-case"
	}
	// how long the comparison takes on this machine, then deadlines spread over that time
	t0 := time.Now()
	if _, err := lisp.EVAL(context.Background(), ast, eqBigEnv); err != nil {
		return "setup-error"
	}
	full := time.Since(t0)
	for trial := 0; trial < 6; trial++ {
		d := full * time.Duration(1+((ms*6+trial)*7)%59) / 60
		ctx, cancel := context.WithTimeout(context.Background(), d)
		v, err := lisp.EVAL(ctx, ast, eqBigEnv)
		cancel()
		got := "err"
		if err == nil {
			got = render(v)
		}
		switch got {
		case "T", "err", render(kw("same")), render(kw("timeout")):
		default:
			return fmt.Sprintf("T\t!%s on structurally equal values under a deadline of %v (the comparison takes %v) ⇒ %s (neither true nor the timeout error)", eqBig[k], d, full, got)
		}
	}
	return "T"
}

func (e *eqExprEngine) run(payload string) string {
	if strings.HasPrefix(payload, "share ") {
		var k, rep int
		if _, err := fmt.Sscanf(payload, "share %d %d", &k, &rep); err != nil || k < 0 || k >= len(eqSharing) {
			return "bad-case"
		}
		ec := &evalCase{}
		env, err := freshEnvCached(ec)
		if err != nil {
			return "setup-error"
		}
		ast, err := lisp.READ(eqSharing[k].src, nil, env)
		if err != nil {
			return "bad-case"
		}
		v, err := lisp.EVAL(context.Background(), ast, env)
		got := "err"
		if err == nil {
			got = render(v)
		}
		if got != eqSharing[k].want {
			return eqSharing[k].want + "\t!" + eqSharing[k].src + " ⇒ " + got + " (structurally " + eqSharing[k].want + ")"
		}
		return eqSharing[k].want
	}
	if strings.HasPrefix(payload, "deadline ") {
		var k, ms int
		if _, err := fmt.Sscanf(payload, "deadline %d %d", &k, &ms); err != nil || k < 0 || k >= len(eqBig) {
			return "bad-case"
		}
		return e.runDeadline(k, ms)
	}
	var i, j int
	if _, err := fmt.Sscanf(payload, "%d %d", &i, &j); err != nil || i < 0 || j < 0 || i >= len(eqExprs) || j >= len(eqExprs) {
		return "bad-case"
	}
	ec := &evalCase{}
	env, err := freshEnvCached(ec)
	if err != nil {
		return "setup-error"
	}
	ev := func(src string) (string, bool) {
		ast, err := lisp.READ(src, nil, env)
		if err != nil {
			return "", false
		}
		v, err := lisp.EVAL(context.Background(), ast, env)
		if err != nil {
			return "", false
		}
		return render(v), true
	}
	a, okA := ev(eqExprs[i])
	b, okB := ev(eqExprs[j])
	if !okA || !okB {
		return "n/a" // an expression this lisp does not support: nothing to compare
	}
	got, okG := ev("(= " + eqExprs[i] + " " + eqExprs[j] + ")")
	rev, okR := ev("(= " + eqExprs[j] + " " + eqExprs[i] + ")")
	ra, err1 := parse(a)
	rb, err2 := parse(b)
	if err1 != nil || err2 != nil {
		return "n/a"
	}
	want := "F"
	if Equal_Q(ra, rb) {
		want = "T"
	}
	obs := want
	switch {
	case !okG || !okR:
		return obs + "\t!(= " + eqExprs[i] + " " + eqExprs[j] + ") is an error; the two values are " + a + " and " + b
	case got != want:
		return obs + "\t!(= " + eqExprs[i] + " " + eqExprs[j] + ") ⇒ " + got + " but the two values are " + a + " and " + b + " (structurally " + want + ")"
	case rev != got:
		return obs + "\t!= is not symmetric on " + eqExprs[i] + " , " + eqExprs[j]
	}
	return obs
}

func (e *eqExprEngine) classify(payload, obs string) string {
	return strings.SplitN(obs, "\t", 2)[0]
}

// one environment for the whole run (the expressions define nothing)
var cachedEnv EnvType

func freshEnvCached(ec *evalCase) (EnvType, error) {
	if cachedEnv != nil {
		return cachedEnv, nil
	}
	e, err := freshEnv(ec)
	if err == nil {
		cachedEnv = e
	}
	return e, err
}

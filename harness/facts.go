package main

import (
	"fmt"
	"os"
)

func cmdFacts(args []string) {
	fmt.Fprintln(os.Stderr, "facts: not yet implemented")
}

package main

// Scoping scenarios (C01): a closure that reads a free variable is created at some depth, called, then a NEW
// binding of the same name is made at another level (def in an intermediate function scope, def at top level, a
// let in tail or non-tail position, a parameter), the closure is called again and the name is read directly.
// Lexical scoping fixes every answer; caches, scope reuse and tail-position shortcuts do not survive it.

import (
	. "github.com/jig/lisp/types"
)

func scopeScenario(r *rng) MalType {
	x := sy(r.pick([]string{"x", "z", "q"}))
	k, g := sy("k"), sy("g")
	v := func() MalType { return 1 + r.intn(9) }
	tr := func(e MalType) MalType {
		if r.chance(1, 2) {
			return call1("trace!", e)
		}
		return e
	}
	thunk := ls(sy("fn"), vc(), x)                // (fn [] x)
	inLet := ls(sy("let"), vc(sy("y"), 0), thunk) // closure created inside a let scope of its own
	// … or inside a let that SNAPSHOTS the variable under its own name ((let [x x] …): a new binding holding the value of
	// the outer one): a later redefinition of the outer binding is not seen by the closure
	snap := ls(sy("let"), vc(x, x), thunk)
	snapL := ls(sy("let"), ls(sy("y"), 0, x, x), thunk)
	mk := []MalType{thunk, inLet, thunk, inLet, snap, snapL}[r.intn(6)]
	switch r.intn(14) {
	case 11, 12, 13:
		// a tail-recursive loop whose body makes a closure INSIDE A NESTED LET (so the closure's own scope is the let's, the
		// call's parameter frame is one level up) and passes it on; each closure keeps the parameters of ITS iteration
		n, acc, c, kk := sy("n"), sy("acc"), sy("c"), sy("kk")
		lim := 2 + r.intn(3)
		var body MalType
		switch r.intn(3) {
		case 0: // the tail call sits inside the let
			body = ls(sy("if"), call1("<", n, lim),
				ls(sy("let"), vc(c, ls(sy("fn"), vc(), call1("list", n, call1("count", acc)))), ls(sy("collect"), call1("+", n, 1), call1("conj", acc, c))), acc)
		case 1: // the closure is made in a non-tail let, the tail call is outside it
			body = ls(sy("do"), ls(sy("def"), c, ls(sy("let"), vc(kk, call1("*", n, 10)), ls(sy("fn"), vc(), call1("list", n, kk)))),
				ls(sy("if"), call1("<", n, lim), ls(sy("collect"), call1("+", n, 1), call1("conj", acc, c)), acc))
		default: // two levels of let, the closure reads a parameter and both let variables
			body = ls(sy("if"), call1("<", n, lim),
				ls(sy("let"), vc(kk, call1("*", n, 10)), ls(sy("let"), vc(c, ls(sy("fn"), vc(), call1("list", n, kk, call1("count", acc)))),
					ls(sy("collect"), call1("+", n, 1), call1("conj", acc, c)))), acc)
		}
		return ls(sy("do"), ls(sy("def"), sy("collect"), ls(sy("fn"), vc(n, acc), body)),
			call1("map", ls(sy("fn"), vc(g), tr(ls(g))), ls(sy("collect"), 0, vc())))
	case 10:
		// the operand of a call redefines the operator's name: the call still applies the OLD function
		return ls(sy("do"), ls(sy("def"), g, ls(sy("fn"), vc(sy("a")), call1("list", kw("old"), sy("a")))),
			call1("list", ls(g, ls(sy("do"), ls(sy("def"), g, ls(sy("fn"), vc(sy("a")), call1("list", kw("new"), sy("a")))), tr(v()))), ls(g, v())))
	case 0:
		// global, closure made in a function scope, resolved once, then def in that function scope
		return ls(sy("do"), ls(sy("def"), x, v()),
			ls(ls(sy("fn"), vc(), ls(sy("do"), ls(sy("def"), k, mk), ls(sy("def"), sy("before"), tr(ls(k))),
				ls(sy("def"), x, v()), call1("list", sy("before"), tr(ls(k)), x)))),
			tr(x))
	case 1:
		// closure captured in an outer let; a let in TAIL position rebinds the name
		return ls(sy("let"), vc(x, v(), g, thunk), ls(sy("let"), vc(x, v()), call1("list", tr(ls(g)), x)))
	case 2:
		// the same with a global and two nested tail lets
		return ls(sy("do"), ls(sy("def"), x, v()),
			ls(sy("let"), vc(g, thunk), ls(sy("let"), vc(x, v()), ls(sy("let"), vc(sy("w"), v()), call1("list", tr(ls(g)), x, sy("w"))))),
			tr(x))
	case 3:
		// non-tail inner let (control)
		return ls(sy("let"), vc(x, v(), g, thunk), call1("list", ls(sy("let"), vc(x, v()), tr(ls(g))), x))
	case 4:
		// parameter shadows, closure made outside keeps seeing the outer binding
		return ls(sy("let"), vc(x, v(), g, thunk), ls(ls(sy("fn"), vc(x), call1("list", tr(ls(g)), x)), v()))
	case 5:
		// redefinition at top level IS seen by the closure (same scope)
		return ls(sy("do"), ls(sy("def"), x, v()), ls(sy("def"), k, mk), ls(sy("def"), sy("before"), tr(ls(k))),
			ls(sy("def"), x, v()), call1("list", sy("before"), tr(ls(k)), x))
	case 6:
		// let body in tail position of a function called twice: each call has its own scope
		return ls(sy("do"), ls(sy("def"), sy("mk"), ls(sy("fn"), vc(x), ls(sy("let"), vc(sy("y"), x), ls(sy("fn"), vc(), call1("list", x, sy("y")))))),
			ls(sy("let"), vc(sy("a"), ls(sy("mk"), v()), sy("b"), ls(sy("mk"), v())), call1("list", tr(ls(sy("a"))), tr(ls(sy("b"))), ls(sy("a")))))
	case 7:
		// do → let → let chains in tail position inside a closure body, with a closure escaping from the middle
		return ls(ls(sy("fn"), vc(x), ls(sy("let"), vc(g, thunk), ls(sy("do"), tr(ls(g)), ls(sy("let"), vc(x, v()), ls(sy("let"), vc(sy("y"), x), call1("list", ls(g), x, sy("y"))))))), v())
	case 8:
		// def inside a let body binds in the let scope (not global): closure from outside does not see it
		return ls(sy("do"), ls(sy("def"), x, v()), ls(sy("def"), g, thunk),
			ls(sy("let"), vc(sy("y"), 1), ls(sy("def"), x, v()), call1("list", tr(ls(g)), x)), tr(x), ls(g))
	default:
		// lookup first resolved through a deep chain, then a binding appears in the middle via def in a fn scope, twice
		return ls(sy("do"), ls(sy("def"), x, v()),
			ls(sy("def"), sy("outer"), ls(sy("fn"), vc(), ls(sy("do"),
				ls(sy("def"), k, ls(sy("let"), vc(sy("a"), 1), ls(sy("let"), vc(sy("b"), 2), thunk))),
				ls(sy("def"), sy("r1"), tr(ls(k))), ls(sy("def"), x, v()), ls(sy("def"), sy("r2"), tr(ls(k))),
				ls(sy("def"), x, v()), call1("list", sy("r1"), sy("r2"), ls(k), x)))),
			call1("list", ls(sy("outer")), ls(sy("outer")), x))
	}
}

package main

// engine "readconc" (C05): "for every byte string READ, READWithPreamble and the read-string builtin terminate and return
// an AST or an error" — also when an embedder reads on several goroutines at once (one connection each, futures calling
// read-string): texts full of identifiers, keywords, strings and numbers the process has never seen before are read
// concurrently; every read answers what it answers alone.  A reader that dies (the Go runtime's unrecoverable
// "concurrent map writes") takes the harness process with it: the orchestrator reports the case that was running.
// Harness-side oracle (the model has no threads here).

import (
	"context"
	"fmt"
	"strings"
	"sync"

	"github.com/jig/lisp"
	. "github.com/jig/lisp/types"
)

type readConcEngine struct{}

func init() { register("readconc", &readConcEngine{}) }

func (e *readConcEngine) leanName() string { return "nomodel" }

func (e *readConcEngine) generate(r *rng, n int, tier string, emit func(string)) {
	for _, route := range []string{"READ", "READWithPreamble", "read-string"} {
		for _, g := range []int{2, 8, 16} {
			emit(fmt.Sprintf("%s goroutines=%d texts=600 salt=%d", route, g, 1+r.intn(1000000)))
		}
	}
}

func (e *readConcEngine) run(payload string) string {
	var route string
	var g, n, salt int
	if _, err := fmt.Sscanf(payload, "%s goroutines=%d texts=%d salt=%d", &route, &g, &n, &salt); err != nil || g < 1 || g > 64 || n < 1 || n > 5000 {
		return "bad-case"
	}
	ec := &evalCase{}
	env, err := freshEnv(ec)
	if err != nil {
		return "setup-error"
	}
	text := func(w, i int) string {
		return fmt.Sprintf("(def v%d-%d-%d {:k%d-%d-%d [:a%d %d \"s%d-%d\" sym%d-%d :shared] :shared #{:m%d-%d}})", salt, w, i, salt, w, i, i, i, w, i, w, i, w, i)
	}
	bad := make([]string, g)
	ok := within(concWatchdog*4, func() {
		var wg sync.WaitGroup
		for w := 0; w < g; w++ {
			wg.Add(1)
			go func(w int) {
				defer wg.Done()
				for i := 0; i < n; i++ {
					t := text(w, i)
					var v MalType
					var err error
					switch route {
					case "READ":
						v, err = lisp.READ(t, nil, env)
					case "READWithPreamble":
						v, err = lisp.READWithPreamble(fmt.Sprintf(";; $X :px%d-%d-%d\n\n", salt, w, i)+t, nil, env)
					default:
						v, err = lisp.EVAL(context.Background(), ls(sy("read-string"), t), env)
					}
					if err != nil {
						bad[w] = "read " + fmt.Sprint(i) + " failed: " + oneLine(err.Error())
						return
					}
					if got := lisp.PRINT(v); !strings.Contains(got, fmt.Sprintf("v%d-%d-%d", salt, w, i)) {
						bad[w] = "read " + fmt.Sprint(i) + " returned another text's form: " + got[:min(len(got), 120)]
						return
					}
				}
			}(w)
		}
		wg.Wait()
	})
	if !ok {
		return "BLOCKED\t!concurrent reads did not finish"
	}
	for _, b := range bad {
		if b != "" {
			return "differs\t!a read made while other goroutines were reading did not answer what it answers alone: " + b
		}
	}
	return "ok"
}

func (e *readConcEngine) classify(payload, obs string) string {
	return strings.Fields(payload + " ?")[0] + "/" + strings.SplitN(obs, "\t", 2)[0]
}
